(* unimodality_prox maps into the unimodal set, for ANY number of columns (C12 treats one column under the hypothesis "the
   selected index is a flagged peak candidate").  The code selects per column the first arg-min of
       difference_i = score_i  if row i is flagged (v_i >= both monotone fits at i),   gmax  otherwise,
   gmax = the GLOBAL maximum of the scores (over all columns).  Every entry of `difference` is <= gmax, so when the first
   arg-min is NOT flagged its value is gmax, every earlier entry would have to be > gmax, hence the selected index is 0 - and
   a column assembled at index 0 is  [v_0] ++ (decreasing fit)[1:],  which is unimodal (mode 0 or 1) whatever v_0 is.
   When the selected index is flagged, C12's uni_assemble_unimodal applies. *)
From Coq Require Import List Reals Lra Psatz Lia Bool.
From TLV Require Import Base.Ops Model.Prox Proofs.ProxProofs Proofs.ProxProofsHard Proofs.ProxProofsSimplex Proofs.ProxProofsMono
  Proofs.ProxProofsIso Proofs.ProxProofsUni.
Import ListNotations.
Open Scope R_scope.

(* ---- maxl dominates its seed and every element *)
Lemma maxl_ge : forall l d, d <= maxl Rops d l /\ (forall e, In e l -> e <= maxl Rops d l).
Proof.
  induction l as [|x r IH]; intros d.
  - cbn. split; [lra | intros e []].
  - cbn [maxl]. destruct (IH (fmax Rops d x)) as (H1 & H2).
    assert (Hd : d <= fmax Rops d x /\ x <= fmax Rops d x).
    { unfold fmax. cbn [fleb Rops]. destruct (Rleb d x) eqn:E; [apply Rleb_true in E | apply Rleb_false in E]; lra. }
    split; [lra|]. intros e [<-|He]; [lra | apply H2, He].
Qed.

Definition gmax_of (l : list R) : R := match l with [] => 0 | x :: r => maxl Rops x r end.
Lemma gmax_ge l e : In e l -> e <= gmax_of l.
Proof.
  destruct l as [|x r]; [intros []|]. cbn [gmax_of]. destruct (maxl_ge r x) as (H1 & H2).
  intros [<-|He]; [exact H1 | apply H2, He].
Qed.

(* ---- the first arg-min: its entry is strictly below every earlier entry *)
Lemma argmin_from_spec : forall l best bi i, (bi < i)%nat ->
  let m := argmin_from Rops best bi i l in
  m = bi \/
  ((i <= m)%nat /\ (m - i < length l)%nat /\ nth (m - i) l 0 < best /\ (forall j, (j < m - i)%nat -> nth (m - i) l 0 < nth j l 0)).
Proof.
  induction l as [|x r IH]; intros best bi i Hb; cbn [argmin_from].
  - left. reflexivity.
  - unfold fltb. cbn [fleb Rops]. destruct (Rleb best x) eqn:E; cbn [negb].
    + apply Rleb_true in E. destruct (IH best bi (S i) ltac:(lia)) as [Hm | (Hi & Hl & Hlt & Hj)].
      * left. exact Hm.
      * right. set (m := argmin_from Rops best bi (S i) r) in *.
        replace (m - i)%nat with (S (m - S i)) by lia. cbn [nth length].
        split; [lia|]. split; [lia|]. split; [exact Hlt|].
        intros j Hjlt. destruct j as [|j]; [lra|]. apply Hj. lia.
    + apply Rleb_false in E. destruct (IH x i (S i) ltac:(lia)) as [Hm | (Hi & Hl & Hlt & Hj)].
      * right. rewrite Hm. rewrite Nat.sub_diag. cbn [nth length]. split; [lia|]. split; [lia|]. split; [exact E|]. intros j Hj; lia.
      * right. set (m := argmin_from Rops x i (S i) r) in *.
        replace (m - i)%nat with (S (m - S i)) by lia. cbn [nth length].
        split; [lia|]. split; [lia|]. split; [lra|].
        intros j Hjlt. destruct j as [|j]; [lra|]. apply Hj. lia.
Qed.

Lemma argmin_spec l : l <> [] ->
  (argmin Rops l < length l)%nat /\ (forall j, (j < argmin Rops l)%nat -> nth (argmin Rops l) l 0 < nth j l 0).
Proof.
  destruct l as [|x r]; [congruence|]. intros _. cbn [argmin].
  destruct (argmin_from_spec r x 0%nat 1%nat ltac:(lia)) as [Hm | (Hi & Hl & Hlt & Hj)]; cbv zeta in *.
  - rewrite Hm. cbn [length]. split; [lia | intros j Hj; lia].
  - set (m := argmin_from Rops x 0 1 r) in *. destruct m as [|m]; [lia|].
    replace (S m - 1)%nat with m in * by lia. cbn [nth length]. split; [lia|].
    intros j Hjm. destruct j as [|j]; [exact Hlt | apply Hj; lia].
Qed.

(* ---- lengths of the score vectors *)
Lemma cumsum_excl_length : forall l acc, length (cumsum_excl Rops acc l) = length l.
Proof. induction l as [|x r IH]; intros acc; [reflexivity|]. cbn [cumsum_excl length]. rewrite IH. reflexivity. Qed.
Lemma absdiff_length a b : length (absdiff Rops a b) = Nat.min (length a) (length b).
Proof. unfold absdiff. rewrite map_length, combine_length. reflexivity. Qed.

Lemma uni_scores_lengths v : length (fst (uni_scores Rops v)) = length v /\ length (snd (uni_scores Rops v)) = length v.
Proof.
  unfold uni_scores. cbn [fst snd].
  assert (Li : length (monotone_inc Rops v) = length v) by apply monotone_inc_length.
  assert (Ld : length (monotonicity_prox Rops true v) = length v) by apply (monotone_length true).
  assert (Lf : length (peak_flags Rops v (monotone_inc Rops v) (monotonicity_prox Rops true v)) = length v).
  { unfold peak_flags. rewrite map_length, !combine_length, Li, Ld. lia. }
  split; [exact Lf|].
  rewrite map_length, !combine_length, Lf, rev_length, !cumsum_excl_length, rev_length, !absdiff_length, Li, Ld. lia.
Qed.

(* ---- a column assembled at index 0 is unimodal whatever its first entry *)
Lemma ndec_prefix a b : ndec (a ++ b) -> ndec a.
Proof.
  intros H.
  assert (E : firstn (length a) (a ++ b) = a).
  { rewrite firstn_app, Nat.sub_diag, firstn_all. cbn [firstn]. apply app_nil_r. }
  rewrite <- E. apply ndec_firstn. exact H.
Qed.

Lemma ndec_last_ge l x : ndec (l ++ [x]) -> forall e, In e l -> e <= x.
Proof.
  intros H e He. destruct (In_nth _ _ 0 He) as (i & Hi & <-).
  pose proof (ndec_nth_le (l ++ [x]) i (length l) H ltac:(rewrite app_length; cbn [length]; lia)) as Hle.
  rewrite app_nth1 in Hle by exact Hi. rewrite app_nth2, Nat.sub_diag in Hle by lia. exact Hle.
Qed.

Lemma cons_falling_unimodal a t : ndec (rev t) -> unimodalP (a :: t).
Proof.
  intros Ht. destruct t as [|t0 t'].
  - exists 0%nat. split; exact I.
  - destruct (Rle_lt_dec t0 a) as [Hle|Hlt].
    + exists 0%nat. split; [exact I|]. cbn [skipn].
      change (rev (a :: t0 :: t')) with (rev (t0 :: t') ++ [a]).
      apply ndec_app; [exact Ht | exact I|].
      intros e f He [<-|[]]. apply in_rev in He. destruct He as [<-|He]; [exact Hle|].
      cbn [rev] in Ht. pose proof (ndec_last_ge (rev t') t0 Ht e ltac:(apply -> in_rev; exact He)). lra.
    + exists 1%nat. split.
      * cbn [firstn]. split; [lra | exact I].
      * cbn [skipn]. exact Ht.
Qed.

Lemma skipn_rev_ndec (l : list R) k : ndec (rev l) -> ndec (rev (skipn k l)).
Proof.
  intros H. rewrite <- (firstn_skipn k l) in H. rewrite rev_app_distr in H. eapply ndec_prefix. exact H.
Qed.

(* ---- one column of unimodality_cols, for any fill value G that dominates the column's scores *)
Theorem uni_column_unimodal (G : R) (v : list R) :
  (forall e, In e (snd (uni_scores Rops v)) -> e <= G) ->
  unimodalP (uni_assemble Rops (argmin Rops (uni_difference G (uni_scores Rops v))) v).
Proof.
  intros HG. destruct (uni_scores_lengths v) as (Lf & Ls).
  set (sc := uni_scores Rops v) in *. set (d := uni_difference G sc).
  assert (Ldl : length d = length v).
  { unfold d, uni_difference. rewrite map_length, combine_length, Lf, Ls. lia. }
  assert (Hcase : v = [] \/ (0 < length v)%nat) by (destruct v; [left; reflexivity | right; cbn; lia]).
  destruct Hcase as [Ev | Hv].
  - (* empty column *)
    exists 0%nat. rewrite Ev. unfold uni_assemble. cbn. destruct (argmin Rops _); cbn; split; exact I.
  - assert (Hd : d <> []) by (intros E0; rewrite E0 in Ldl; cbn in Ldl; lia).
    destruct (argmin_spec d Hd) as (Hm & Hfirst). set (m := argmin Rops d) in *.
    assert (Dn : forall i, (i < length v)%nat -> nth i d 0 = if nth i (fst sc) false then nth i (snd sc) 0 else G).
    { intros i Hi. unfold d, uni_difference. rewrite (nth_map_lt _ _ _ (false, 0)) by (rewrite combine_length, Lf, Ls; lia).
      rewrite combine_nth by lia. reflexivity. }
    assert (Dle : forall i, (i < length v)%nat -> nth i d 0 <= G).
    { intros i Hi. rewrite Dn by exact Hi. destruct (nth i (fst sc) false); [|lra]. apply HG. apply nth_In. lia. }
    destruct (nth m (fst sc) false) eqn:Fm.
    + apply uni_assemble_feasible; [lia | exact Fm].
    + assert (m = 0%nat).
      { destruct m as [|m']; [reflexivity|]. exfalso.
        pose proof (Hfirst 0%nat ltac:(lia)) as H0. rewrite (Dn (S m')) in H0 by lia. rewrite Fm in H0.
        pose proof (Dle 0%nat Hv). lra. }
      rewrite H. unfold uni_assemble. change (skipn 0 v) with v. change (firstn 0 (monotone_inc Rops v)) with (@nil R). cbn [app].
      assert (E1 : exists a, firstn 1 v = [a]) by (destruct v as [|a r]; [cbn in Hv; lia | exists a; reflexivity]).
      destruct E1 as (a & ->). cbn [app].
      apply cons_falling_unimodal. apply skipn_rev_ndec. apply monotone_dec_feasible.
Qed.

Lemma uni_assemble_length m v : length (uni_assemble Rops m v) = length v.
Proof.
  unfold uni_assemble. rewrite !app_length, !firstn_length, !skipn_length, monotone_inc_length, (monotone_length true). lia.
Qed.

(* ---- the whole operator: every output column is unimodal and as long as its input column *)
Theorem unimodality_cols_feasible (cols : list (list R)) :
  Forall unimodalP (unimodality_cols Rops cols) /\
  map (@length R) (unimodality_cols Rops cols) = map (@length R) cols.
Proof.
  unfold unimodality_cols.
  set (scs := map (uni_scores Rops) cols).
  set (G := match concat (map snd scs) with [] => f0 Rops | x :: r => maxl Rops x r end).
  assert (HG : forall c, In c cols -> forall e, In e (snd (uni_scores Rops c)) -> e <= G).
  { intros c Hc e He. change G with (gmax_of (concat (map snd scs))). apply gmax_ge.
    apply in_concat. exists (snd (uni_scores Rops c)). split; [|exact He].
    unfold scs. rewrite map_map. apply in_map_iff. exists c. split; [reflexivity | exact Hc]. }
  assert (Ecomb : combine scs cols = map (fun c => (uni_scores Rops c, c)) cols).
  { unfold scs. clear. induction cols as [|c r IH]; [reflexivity|]. cbn [map combine]. rewrite IH. reflexivity. }
  rewrite Ecomb, map_map. cbn [fst snd]. split.
  - apply Forall_forall. intros y Hy. apply in_map_iff in Hy. destruct Hy as (c & <- & Hc).
    apply uni_column_unimodal. apply HG, Hc.
  - rewrite map_map. apply map_ext. intros c. apply uni_assemble_length.
Qed.

(* non-vacuity / the unflagged selection really occurs: one column, rows 0 and 2 ... see Props/C11.v *)
