(* C07 -- lemmas: sums over index spaces, weighted ridge least squares, the multi-index
   Khatri-Rao Gram identity, the CP-ALS block theorem, HALS passes, sweeps and histories. *)
From Coq Require Import Reals Lra Psatz List Arith Lia RealField Bool.
From TLV Require Import Base.Shape Base.PyList Base.Tensor Base.Ops Base.BigSum Base.RSum Model.Descent.
Import ListNotations.
Open Scope R_scope.

(* ---------- the generic sums of the model, at Rops, ARE the sums of Base/RSum.v ---------- *)
Lemma gsum_rsum_fun : @gsum R Rops = rsum.
Proof. reflexivity. Qed.
Lemma bigsum_rsum_fun : bigsum R 0 Rplus = rsum.
Proof. reflexivity. Qed.

Definition rsum_idx (s : list nat) (f : list nat -> R) : R := rsum (prod s) (fun o => f (unravel s o)).
Lemma rsum_idx_cons d s f : rsum_idx (d :: s) f = rsum d (fun i => rsum_idx s (fun idx => f (i :: idx))).
Proof. exact (sum_idx_cons R 0 1 Rplus Rmult Rminus Ropp RTheory d s f). Qed.
Lemma rsum_idx_nil f : rsum_idx [] f = f [].
Proof. unfold rsum_idx; simpl. ring. Qed.
Lemma rsum_idx_ext s f g : (forall idx, inb s idx -> f idx = g idx) -> rsum_idx s f = rsum_idx s g.
Proof. intros H. unfold rsum_idx. apply rsum_ext; intros k Hk. apply H. now apply unravel_inb. Qed.
Lemma rsum_scale_r n c f : rsum n (fun i => f i * c) = rsum n f * c.
Proof. induction n; simpl; [ring | rewrite IHn; ring]. Qed.
Lemma rsum_idx_scale s c f : rsum_idx s (fun idx => c * f idx) = c * rsum_idx s f.
Proof. unfold rsum_idx. now rewrite rsum_scale. Qed.

Definition delta (a b : nat) : R := if Nat.eqb a b then 1 else 0.
Lemma rsum_delta n k (f : nat -> R) : (k < n)%nat -> rsum n (fun i => delta k i * f i) = f k.
Proof.
  intros Hk. rewrite (rsum_single n k) by (auto; intros i _ Hi; unfold delta; destruct (Nat.eqb_spec k i); try congruence; ring).
  unfold delta. rewrite Nat.eqb_refl. ring.
Qed.
Lemma delta_sq a b : delta a b * delta a b = delta a b.
Proof. unfold delta. destruct (a =? b)%nat; ring. Qed.

(* ---------- ridge least squares with a separate non-negative penalty weight per unknown ---------- *)
Section LSW.
Variables (m n : nat) (A : nat -> nat -> R) (y : nat -> R) (c : nat -> R).
Definition ls_objw (v : nat -> R) := rsum m (fun i => (y i - Av n A v i)^2) + rsum n (fun j => c j * (v j)^2).
Theorem normal_eq_minimises_w x z : (forall j, (j < n)%nat -> 0 <= c j) ->
  (forall j, (j < n)%nat -> rsum m (fun i => A i j * (y i - Av n A x i)) = c j * x j) ->
  ls_objw x <= ls_objw z.
Proof.
  intros Hc Hne.
  set (dv := fun j => z j - x j).
  assert (HA : forall i, Av n A z i = Av n A x i + Av n A dv i).
  { intros i. unfold Av, dv. rewrite <- rsum_add. apply rsum_ext; intros; ring. }
  assert (Hx : rsum m (fun i => (y i - Av n A x i) * Av n A dv i) = rsum n (fun j => c j * (x j * dv j))).
  { unfold Av at 2.
    rewrite (rsum_ext m _ (fun i => rsum n (fun j => (y i - Av n A x i) * (A i j * dv j)))) by (intros; now rewrite rsum_scale).
    rewrite rsum_exchange.
    apply rsum_ext; intros j Hj.
    rewrite (rsum_ext m _ (fun i => dv j * (A i j * (y i - Av n A x i)))) by (intros; ring).
    rewrite rsum_scale, Hne by exact Hj. ring. }
  assert (Hz : ls_objw z = ls_objw x + (rsum m (fun i => (Av n A dv i)^2) + rsum n (fun j => c j * (dv j)^2))).
  { unfold ls_objw.
    rewrite (rsum_ext m (fun i => (y i - Av n A z i)^2) (fun i => ((y i - Av n A x i)^2 + (Av n A dv i)^2) + (-2) * ((y i - Av n A x i) * Av n A dv i))) by (intros; rewrite HA; ring).
    rewrite rsum_add, rsum_add, rsum_scale, Hx.
    rewrite (rsum_ext n (fun j => c j * (z j)^2) (fun j => (c j * (x j)^2 + c j * (dv j)^2) + 2 * (c j * (x j * dv j)))) by (intros; unfold dv; ring).
    rewrite rsum_add, rsum_add, rsum_scale. ring. }
  rewrite Hz.
  assert (0 <= rsum m (fun i => (Av n A dv i)^2)) by (apply rsum_nonneg; intros; apply pow2_ge_0).
  assert (0 <= rsum n (fun j => c j * (dv j)^2)).
  { apply rsum_nonneg; intros j Hj. apply Rmult_le_pos; [auto | apply pow2_ge_0]. }
  lra.
Qed.
End LSW.

(* ---------- products over the modes ---------- *)
Notation pprodR := (@pprod R Rops).
Notation lprodR := (@lprod R Rops).

Lemma pprod_ext_range g h : forall idx j0,
  (forall p, (p < length idx)%nat -> g (j0 + p)%nat (nth p idx 0%nat) = h (j0 + p)%nat (nth p idx 0%nat)) ->
  pprodR g j0 idx = pprodR h j0 idx.
Proof.
  induction idx as [|i rest IH]; intros j0 H; simpl; [reflexivity|].
  rewrite (IH (S j0)).
  - specialize (H 0%nat ltac:(simpl; lia)). simpl in H. rewrite Nat.add_0_r in H. now rewrite H.
  - intros p Hp. specialize (H (S p) ltac:(simpl; lia)). simpl in H. now rewrite Nat.add_succ_r in H.
Qed.
Lemma pprod_mul g h : forall idx j0, pprodR (fun j i => g j i * h j i) j0 idx = pprodR g j0 idx * pprodR h j0 idx.
Proof. induction idx as [|i rest IH]; intros j0; simpl; [ring|]. rewrite IH. ring. Qed.

(* the sum over a whole index space of a product of per-mode terms is the product of the per-mode sums *)
Lemma sum_pprod g : forall s j0, rsum_idx s (pprodR g j0) = lprodR (fun j d => rsum d (g j)) j0 s.
Proof.
  induction s as [|d s IH]; intros j0.
  - rewrite rsum_idx_nil. reflexivity.
  - rewrite rsum_idx_cons. cbn [pprod lprod fmul Rops].
    rewrite (rsum_ext d _ (fun i => g j0 i * lprodR (fun j d => rsum d (g j)) (S j0) s)).
    + now rewrite rsum_scale_r.
    + intros i _. rewrite rsum_idx_scale. now rewrite IH.
Qed.

(* pulling mode k out of a product *)
Lemma pprod_factor_out (a : nat -> R) g k : forall idx j0, (j0 <= k)%nat -> (k < j0 + length idx)%nat ->
  pprodR (fun j i => if Nat.eqb j k then a i else g j i) j0 idx
  = a (nth (k - j0) idx 0%nat) * pprodR (fun j i => if Nat.eqb j k then 1 else g j i) j0 idx.
Proof.
  induction idx as [|i rest IH]; intros j0 H1 H2; simpl in *; [lia|].
  destruct (Nat.eqb_spec j0 k) as [E|E].
  - subst j0. rewrite Nat.sub_diag.
    rewrite (pprod_ext_range _ (fun j i => if Nat.eqb j k then 1 else g j i) rest (S k)).
    + ring.
    + intros p _. destruct (Nat.eqb_spec (S k + p) k); [lia | reflexivity].
  - rewrite IH by lia. replace (k - j0)%nat with (S (k - S j0)) by lia. simpl. ring.
Qed.

Lemma lprod_pprod g j0 s : lprodR g j0 s = pprodR g j0 s.
Proof. revert j0; induction s; intros; simpl; [reflexivity | now rewrite IHs]. Qed.

Lemma inb_nth_lt m : forall s idx, inb s idx -> (m < length s)%nat -> (nth m idx 0 < nth m s 0)%nat.
Proof.
  induction m; intros [|d s] [|i idx]; simpl; intros H Hm; try tauto; try lia;
    destruct H as [H1 H2]; first [exact H1 | apply IHm; [exact H2 | lia]].
Qed.

Lemma delta_sym a b : delta a b = delta b a.
Proof. unfold delta. now rewrite Nat.eqb_sym. Qed.
Lemma rsum_delta' n k : (k < n)%nat -> rsum n (fun i => delta i k) = 1.
Proof.
  intros Hk. rewrite (rsum_ext n _ (fun i => delta k i * 1)) by (intros; rewrite delta_sym; ring).
  now rewrite rsum_delta.
Qed.

(* ---------- the CP-ALS block ---------- *)
Section CPBlock.
Variables (X : tensor R) (w : list R) (facs : list (list (list R))) (k : nat) (lam : R) (rank : nat).
Let s := shape X.
Let N := prod s.
Let dk := nth k s 0%nat.
Let xd (o : nat) : R := nth o (data X) 0.
Let wr (r : nat) : R := nth r w 0.
Let skip (r : nat) (idx : list nat) : R := @cp_term_skip R Rops facs k r idx.
Hypothesis Hk : (k < length s)%nat.
Hypothesis Hf : (k < length facs)%nat.

Lemma fac_at_set A j i r : @fac_at R Rops (set_nth k A facs) j i r = if Nat.eqb j k then @mget R Rops A i r else @fac_at R Rops facs j i r.
Proof.
  unfold fac_at. destruct (Nat.eqb_spec j k) as [->|E].
  - now rewrite nth_set_nth_same.
  - now rewrite nth_set_nth_other.
Qed.

Lemma cp_term_set A r idx : length idx = length s ->
  @cp_term R Rops (set_nth k A facs) r idx = @mget R Rops A (nth k idx 0%nat) r * skip r idx.
Proof.
  intros Hl. unfold cp_term, skip, cp_term_skip.
  rewrite (pprod_ext_range _ (fun j i => if Nat.eqb j k then @mget R Rops A i r else @fac_at R Rops facs j i r)) by (intros; apply fac_at_set).
  rewrite (pprod_factor_out (fun i => @mget R Rops A i r)) by (simpl; lia).
  now rewrite Nat.sub_0_r.
Qed.

(* multi-index Khatri-Rao Gram identity: the rows of the Khatri-Rao product of the other factors
   that belong to slice i of mode k have the Hadamard product of the Grams as Gram matrix *)
Lemma kr_gram_multi i r t : (i < dk)%nat ->
  rsum_idx s (fun idx => delta (nth k idx 0%nat) i * (skip r idx * skip t idx)) = @hadamard_grams R Rops s facs k r t.
Proof.
  intros Hi.
  rewrite (rsum_idx_ext s _ (pprodR (fun j i' => if Nat.eqb j k then delta i' i else @fac_at R Rops facs j i' r * @fac_at R Rops facs j i' t) 0%nat)).
  - rewrite sum_pprod. unfold hadamard_grams. rewrite !lprod_pprod. apply pprod_ext_range.
    intros p Hp. simpl. destruct (Nat.eqb_spec p k) as [->|E].
    + apply rsum_delta'. exact Hi.
    + unfold gram. rewrite gsum_rsum_fun. reflexivity.
  - intros idx Hidx. pose proof (inb_length _ _ Hidx) as Hl.
    rewrite (pprod_factor_out (fun i' => delta i' i)) by (simpl; lia).
    rewrite Nat.sub_0_r. f_equal. unfold skip, cp_term_skip. rewrite <- pprod_mul.
    apply pprod_ext_range. intros p _. cbn [fmul f1 Rops]. destruct (Nat.eqb (0 + p) k); [ring | reflexivity].
Qed.

(* the least-squares problem of row i of factor k: observations = all entries of X, those outside slice i masked *)
Let Ai (i : nat) (o r : nat) : R := delta (nth k (unravel s o) 0%nat) i * (wr r * skip r (unravel s o)).
Let yi (i : nat) (o : nat) : R := delta (nth k (unravel s o) 0%nat) i * xd o.
Let cw (r : nat) : R := lam * (wr r * wr r).

Lemma cp_obj_rows A :
  @cp_obj R Rops X w (set_nth k A facs) k lam rank
  = rsum dk (fun i => ls_objw N rank (Ai i) (yi i) cw (fun r => @mget R Rops A i r)).
Proof.
  unfold cp_obj, cp_sqerr, cp_ridge, ls_objw. rewrite !gsum_rsum_fun. cbn [fadd fmul fsub Rops].
  rewrite nth_set_nth_same by exact Hf. fold s N dk.
  rewrite rsum_add. f_equal.
  - rewrite rsum_exchange. apply rsum_ext; intros o Ho.
    pose proof (unravel_inb s o Ho) as Hin. pose proof (inb_length _ _ Hin) as Hl.
    pose proof (inb_nth_lt k _ _ Hin Hk) as Hlt. fold dk in Hlt.
    set (idx := unravel s o) in *.
    rewrite (rsum_ext dk _ (fun i => delta (nth k idx 0%nat) i *
              (xd o - rsum rank (fun r => wr r * skip r idx * @mget R Rops A i r))^2)).
    + rewrite rsum_delta by exact Hlt. unfold fsq, cp_rec. rewrite gsum_rsum_fun. cbn [fmul fsub f0 Rops]. unfold xd.
      replace (rsum rank (fun r => vget Rops w r * cp_term Rops (set_nth k A facs) r idx))
        with (rsum rank (fun r => wr r * skip r idx * @mget R Rops A (nth k idx 0%nat) r)); [ring|].
      apply rsum_ext; intros r _. rewrite cp_term_set by exact Hl. unfold vget, wr. cbn [f0 Rops]. ring.
    + intros i _. unfold yi, Ai, Av. fold idx.
      rewrite (rsum_ext rank _ (fun r => delta (nth k idx 0%nat) i * (wr r * skip r idx * @mget R Rops A i r))) by (intros; ring).
      rewrite rsum_scale.
      transitivity ((delta (nth k idx 0%nat) i * delta (nth k idx 0%nat) i) * (xd o - rsum rank (fun r => wr r * skip r idx * @mget R Rops A i r))^2); [ring|].
      now rewrite delta_sq.
  - rewrite <- rsum_scale. apply rsum_ext; intros i _. rewrite <- rsum_scale. apply rsum_ext; intros r _.
    unfold cw, fsq, vget, wr. cbn [fmul f0 Rops]. ring.
Qed.

Lemma cp_normal_eq (x : list (list R)) i r : (i < dk)%nat -> (r < rank)%nat ->
  @cp_cert_lhs R Rops s w facs k lam rank x i r = @cp_mttkrp R Rops X w facs k i r ->
  rsum N (fun o => Ai i o r * (yi i o - Av rank (Ai i) (fun t => @mget R Rops x i t) o)) = cw r * @mget R Rops x i r.
Proof.
  intros Hi Hr Hc.
  set (xi := fun t => @mget R Rops x i t).
  set (dl := fun o => delta (nth k (unravel s o) 0%nat) i).
  (* left-hand side = mttkrp - sum_t x_it w_r w_t * (Gram of the masked Khatri-Rao rows) *)
  assert (E1 : rsum N (fun o => Ai i o r * (yi i o - Av rank (Ai i) xi o))
             = rsum N (fun o => dl o * (xd o * (wr r * skip r (unravel s o))))
               - rsum rank (fun t => xi t * (wr t * wr r) * rsum N (fun o => dl o * (skip t (unravel s o) * skip r (unravel s o))))).
  { rewrite (rsum_ext rank _ (fun t => rsum N (fun o => xi t * (wr t * wr r) * (dl o * (skip t (unravel s o) * skip r (unravel s o)))))) by (intros; now rewrite rsum_scale).
    rewrite rsum_exchange. rewrite <- rsum_sub. apply rsum_ext; intros o _.
    unfold Ai, yi, Av. fold (dl o).
    rewrite (rsum_ext rank (fun j => dl o * (wr j * skip j (unravel s o)) * xi j) (fun j => dl o * ((wr j * skip j (unravel s o)) * xi j))) by (intros; ring).
    rewrite rsum_scale.
    transitivity ((dl o * dl o) * ((wr r * skip r (unravel s o)) * (xd o - rsum rank (fun j => wr j * skip j (unravel s o) * xi j)))); [ring|].
    unfold dl at 1 2. rewrite delta_sq. fold (dl o).
    rewrite Rmult_minus_distr_l, Rmult_minus_distr_l. f_equal; [ring|].
    rewrite <- !rsum_scale. apply rsum_ext; intros t _. ring. }
  rewrite E1.
  assert (E2 : rsum N (fun o => dl o * (xd o * (wr r * skip r (unravel s o)))) = @cp_mttkrp R Rops X w facs k i r).
  { unfold cp_mttkrp. rewrite gsum_rsum_fun. fold s N. apply rsum_ext; intros o _. cbv zeta.
    unfold dl, delta, xd, vget, wr, skip. cbn [fmul f0 Rops]. destruct (Nat.eqb (nth k (unravel s o) 0%nat) i); ring. }
  assert (E3 : forall t, rsum N (fun o => dl o * (skip t (unravel s o) * skip r (unravel s o))) = @hadamard_grams R Rops s facs k t r).
  { intros t. exact (kr_gram_multi i t r Hi). }
  rewrite E2, <- Hc. unfold cp_cert_lhs. rewrite gsum_rsum_fun.
  rewrite <- rsum_sub.
  rewrite (rsum_ext rank _ (fun t => delta r t * (cw t * xi t))).
  - now rewrite rsum_delta.
  - intros t _. rewrite E3. unfold cp_G, xi, cw, vget, wr, delta. cbn [fadd fmul f0 Rops].
    rewrite (Nat.eqb_sym r t). destruct (Nat.eqb_spec t r) as [->|E]; ring.
Qed.

Theorem cp_block_minimises (x z : list (list R)) : 0 <= lam ->
  (forall i r, (i < dk)%nat -> (r < rank)%nat ->
     @cp_cert_lhs R Rops s w facs k lam rank x i r = @cp_mttkrp R Rops X w facs k i r) ->
  @cp_obj R Rops X w (set_nth k x facs) k lam rank <= @cp_obj R Rops X w (set_nth k z facs) k lam rank.
Proof.
  intros Hl Hc. rewrite !cp_obj_rows. apply rsum_le; intros i Hi.
  apply normal_eq_minimises_w.
  - intros r _. unfold cw. apply Rmult_le_pos; [exact Hl | apply Rle_0_sqr].
  - intros r Hr. apply cp_normal_eq; auto.
Qed.
End CPBlock.

Lemma set_nth_nth_id {A} (d : A) : forall k (l : list A), set_nth k (nth k l d) l = l.
Proof. induction k; intros [|x l]; simpl; try reflexivity. now rewrite IHk. Qed.

Lemma rsum_split n k (f : nat -> R) : (k < n)%nat -> rsum n f = f k + rsum n (fun j => if Nat.eqb j k then 0 else f j).
Proof.
  intros Hk.
  rewrite (rsum_ext n f (fun j => delta k j * f j + (if Nat.eqb j k then 0 else f j))).
  - rewrite rsum_add, rsum_delta by exact Hk. reflexivity.
  - intros j _. unfold delta. rewrite (Nat.eqb_sym k j). destruct (Nat.eqb j k); ring.
Qed.

Section CPBlock2.
Variables (X : tensor R) (w : list R) (lam : R) (rank : nat).

(* the block never increases its own objective ... *)
Theorem cp_block_descent facs k x : (k < length (shape X))%nat -> (k < length facs)%nat -> 0 <= lam ->
  (forall i r, (i < nth k (shape X) 0)%nat -> (r < rank)%nat ->
     @cp_cert_lhs R Rops (shape X) w facs k lam rank x i r = @cp_mttkrp R Rops X w facs k i r) ->
  @cp_obj R Rops X w (set_nth k x facs) k lam rank <= @cp_obj R Rops X w facs k lam rank.
Proof.
  intros Hk Hf Hl Hc. pose proof (cp_block_minimises X w facs k lam rank Hk Hf x (nth k facs []) Hl Hc) as H.
  now rewrite set_nth_nth_id in H.
Qed.

(* ... nor the objective that carries the ridge terms of all modes *)
Lemma cp_obj_all_split facs k : (k < length (shape X))%nat ->
  @cp_obj_all R Rops X w facs lam rank
  = @cp_obj R Rops X w facs k lam rank
    + lam * rsum (length (shape X)) (fun j => if Nat.eqb j k then 0 else @cp_ridge R Rops w (nth j facs []) (nth j (shape X) 0%nat) rank).
Proof.
  intros Hk. unfold cp_obj_all, cp_obj. rewrite gsum_rsum_fun. cbn [fadd fmul Rops].
  rewrite (rsum_split _ k) by exact Hk. ring.
Qed.

Theorem cp_block_minimises_all facs k x z : (k < length (shape X))%nat -> (k < length facs)%nat -> 0 <= lam ->
  (forall i r, (i < nth k (shape X) 0)%nat -> (r < rank)%nat ->
     @cp_cert_lhs R Rops (shape X) w facs k lam rank x i r = @cp_mttkrp R Rops X w facs k i r) ->
  @cp_obj_all R Rops X w (set_nth k x facs) lam rank <= @cp_obj_all R Rops X w (set_nth k z facs) lam rank.
Proof.
  intros Hk Hf Hl Hc. rewrite !(cp_obj_all_split _ k) by exact Hk.
  pose proof (cp_block_minimises X w facs k lam rank Hk Hf x z Hl Hc) as H.
  assert (E : forall a, rsum (length (shape X)) (fun j => if Nat.eqb j k then 0 else @cp_ridge R Rops w (nth j (set_nth k a facs) []) (nth j (shape X) 0%nat) rank)
                  = rsum (length (shape X)) (fun j => if Nat.eqb j k then 0 else @cp_ridge R Rops w (nth j facs []) (nth j (shape X) 0%nat) rank)).
  { intros a. apply rsum_ext; intros j _. destruct (Nat.eqb_spec j k) as [E|E]; [reflexivity|]. now rewrite nth_set_nth_other. }
  rewrite !E. apply Rplus_le_compat_r. exact H.
Qed.

Theorem cp_block_descent_all facs k x : (k < length (shape X))%nat -> (k < length facs)%nat -> 0 <= lam ->
  (forall i r, (i < nth k (shape X) 0)%nat -> (r < rank)%nat ->
     @cp_cert_lhs R Rops (shape X) w facs k lam rank x i r = @cp_mttkrp R Rops X w facs k i r) ->
  @cp_obj_all R Rops X w (set_nth k x facs) lam rank <= @cp_obj_all R Rops X w facs lam rank.
Proof.
  intros Hk Hf Hl Hc. pose proof (cp_block_minimises_all facs k x (nth k facs []) Hk Hf Hl Hc) as H.
  now rewrite set_nth_nth_id in H.
Qed.

(* sweeps: the linear solver is an oracle; its contract (the certificate) is required along the trajectory only *)
Variable solve : list (list R) -> list (list R) -> list (list R).
Definition block_ok (facs : list (list (list R))) (k : nat) : Prop :=
  (k < length (shape X))%nat /\ (k < length facs)%nat /\
  forall i r, (i < nth k (shape X) 0)%nat -> (r < rank)%nat ->
    @cp_cert_lhs R Rops (shape X) w facs k lam rank
       (solve (@cp_G_mat R Rops (shape X) w facs k lam rank) (@cp_mttkrp_mat R Rops X w facs k rank)) i r
    = @cp_mttkrp R Rops X w facs k i r.
Fixpoint sweep_ok (modes : list nat) (facs : list (list (list R))) : Prop :=
  match modes with
  | [] => True
  | k :: ms => block_ok facs k /\ sweep_ok ms (@cp_block R Rops solve X w lam rank facs k)
  end.
Theorem cp_sweep_descent : 0 <= lam -> forall modes facs, sweep_ok modes facs ->
  @cp_obj_all R Rops X w (@cp_sweep R Rops solve X w lam rank modes facs) lam rank <= @cp_obj_all R Rops X w facs lam rank.
Proof.
  intros Hl. induction modes as [|k ms IH]; intros facs Hok; simpl in *; [lra|].
  destruct Hok as ((Hk & Hf & Hc) & Hrest).
  eapply Rle_trans; [apply IH; exact Hrest|].
  unfold cp_block. apply cp_block_descent_all; assumption.
Qed.
End CPBlock2.

(* ---------- generic: runs of steps that descend whenever their side condition holds ---------- *)
Section Runs.
Variables (St : Type) (f : St -> R) (step : St -> St) (ok : St -> Prop).
Hypothesis Hstep : forall s, ok s -> f (step s) <= f s.
Definition run_ok (n : nat) (s : St) : Prop := forall i, (i < n)%nat -> ok (Nat.iter i step s).
Theorem history_monotone n s : run_ok n s -> forall i j, (i <= j)%nat -> (j <= n)%nat ->
  f (Nat.iter j step s) <= f (Nat.iter i step s).
Proof.
  intros Hok i j Hij Hj. induction j as [|j IH].
  - replace i with 0%nat by lia. lra.
  - destruct (Nat.eq_dec i (S j)) as [->|E]; [lra|].
    eapply Rle_trans; [|apply IH; lia]. simpl. apply Hstep. apply Hok. lia.
Qed.
(* an extrapolated iterate is kept only if it beats the previous error, otherwise the ALS iterate is used *)
Definition ls_choose (prev : R) (s_als s_jump : St) : St := if Rlt_dec (f s_jump) prev then s_jump else s_als.
Theorem linesearch_descent prev s_als s_jump : f s_als <= prev -> f (ls_choose prev s_als s_jump) <= prev.
Proof. intros H. unfold ls_choose. destruct (Rlt_dec (f s_jump) prev); lra. Qed.
End Runs.

(* ---------- generic ridge least-squares block (several right-hand sides) ---------- *)
Theorem ls_block_minimises (A Y X Z : list (list R)) (lam : R) (m n p : nat) : 0 <= lam ->
  (forall j c, (j < n)%nat -> (c < p)%nat -> @ls_normal_lhs R Rops A Y X m n j c = lam * @mget R Rops X j c) ->
  @ls_obj_m R Rops A Y X lam m n p <= @ls_obj_m R Rops A Y Z lam m n p.
Proof.
  intros Hl Hne. unfold ls_obj_m. rewrite !gsum_rsum_fun. apply rsum_le; intros c Hc.
  cbn [fadd fsub fmul Rops].
  pose proof (normal_eq_minimises m n (fun i j => @mget R Rops A i j) (fun i => @mget R Rops Y i c) lam
                (fun j => @mget R Rops X j c) (fun j => @mget R Rops Z j c) Hl) as H.
  unfold ls_obj, Av in H. unfold ls_pred, fsq. rewrite !gsum_rsum_fun. cbn [fmul Rops].
  assert (E : forall W : list (list R),
    rsum m (fun i => (@mget R Rops Y i c - rsum n (fun t => @mget R Rops A i t * @mget R Rops W t c)) *
                     (@mget R Rops Y i c - rsum n (fun t => @mget R Rops A i t * @mget R Rops W t c)))
    + lam * rsum n (fun j => @mget R Rops W j c * @mget R Rops W j c)
    = rsum m (fun i => (@mget R Rops Y i c - rsum n (fun j => @mget R Rops A i j * @mget R Rops W j c)) ^ 2)
    + lam * rsum n (fun j => @mget R Rops W j c ^ 2)).
  { intros W. f_equal; [|f_equal]; apply rsum_ext; intros; ring. }
  rewrite !E. apply H. intros j Hj. specialize (Hne j c Hj Hc).
  unfold ls_normal_lhs, ls_pred in Hne. rewrite !gsum_rsum_fun in Hne. cbn [fsub fmul Rops] in Hne. exact Hne.
Qed.

(* ---------- classical two-factor Khatri-Rao Gram identity (row k = i*J + j), any commutative ring ---------- *)
Section KRpair.
  Variable T : Type.
  Variables (rO rI : T) (radd rmul rsub : T -> T -> T) (ropp : T -> T).
  Hypothesis Rth : ring_theory rO rI radd rmul rsub ropp (@eq T).
  Add Ring Tr : Rth.
  Definition kr2 (J : nat) (A B : nat -> nat -> T) : nat -> nat -> T := fun k r => rmul (A (k / J)%nat r) (B (k mod J)%nat r).
  Definition gram2 (n : nat) (K : nat -> nat -> T) (r s : nat) : T := bigsum T rO radd n (fun k => rmul (K k r) (K k s)).
  Theorem kr_gram_pair I J A B r s : J <> 0%nat ->
    gram2 (I * J) (kr2 J A B) r s = rmul (gram2 I A r s) (gram2 J B r s).
  Proof.
    intros HJ. unfold gram2, kr2. rewrite (bigsum_mul T rO rI radd rmul rsub ropp Rth).
    rewrite <- (bigsum_scale_r T rO rI radd rmul rsub ropp Rth). apply bigsum_ext; intros i Hi.
    rewrite <- (bigsum_scale_l T rO rI radd rmul rsub ropp Rth). apply bigsum_ext; intros j Hj.
    rewrite Nat.div_add_l by exact HJ. rewrite (Nat.div_small j J) by exact Hj. rewrite Nat.add_0_r.
    rewrite Nat.add_comm, Nat.mod_add by exact HJ. rewrite Nat.mod_small by exact Hj. ring.
  Qed.
End KRpair.

(* ---------- CP-ALS run: the objective after each sweep is a non-increasing sequence ---------- *)
Theorem cp_history_monotone (X : tensor R) (w : list R) (lam : R) (rank : nat)
  (solve : list (list R) -> list (list R) -> list (list R)) (modes : list nat) (facs : list (list (list R))) (n : nat) :
  0 <= lam ->
  run_ok _ (@cp_sweep R Rops solve X w lam rank modes) (sweep_ok X w lam rank solve modes) n facs ->
  forall i j, (i <= j)%nat -> (j <= n)%nat ->
  @cp_obj_all R Rops X w (Nat.iter j (@cp_sweep R Rops solve X w lam rank modes) facs) lam rank
  <= @cp_obj_all R Rops X w (Nat.iter i (@cp_sweep R Rops solve X w lam rank modes) facs) lam rank.
Proof.
  intros Hl Hok. apply (history_monotone _ (fun f => @cp_obj_all R Rops X w f lam rank) _ (sweep_ok X w lam rank solve modes)); [|exact Hok].
  intros s Hs. apply cp_sweep_descent; assumption.
Qed.
