(* C07 -- the coupled block of coupled_matrix_tensor_3d_factorization: the objective ||X-[[w;A,..]]||^2 + ||Y - A V'||^2 is a
   quadratic in A with matrix G + V'V (positive semidefinite) and linear term MTTKRP + Y V; a factor satisfying the normal
   equations of the stacked least-squares problem minimises it. *)
From Coq Require Import Reals Lra Psatz List Arith Lia RealField Bool.
From TLV Require Import Base.Shape Base.PyList Base.Tensor Base.Ops Base.BigSum Base.RSum Model.Descent
  Proofs.DescentProofs Proofs.DescentProofsLink.
Import ListNotations.
Open Scope R_scope.

Lemma cp_sqerr_nonneg (X : tensor R) (w : list R) (facs : list (list (list R))) rank : 0 <= @cp_sqerr R Rops X w facs rank.
Proof. unfold cp_sqerr, fsq. rewrite ?gsum_rsum_fun. apply rsum_nonneg; intros o _. cbn [fmul Rops]. apply Rle_0_sqr. Qed.

Lemma cp_mttkrp_zero_data (sh : list nat) w (facs : list (list (list R))) k i r :
  @cp_mttkrp R Rops (mk sh []) w facs k i r = 0.
Proof.
  unfold cp_mttkrp. rewrite ?gsum_rsum_fun. apply rsum_zero; intros o _. cbv zeta. cbn [shape data fmul f0 Rops].
  destruct (Nat.eqb _ i); [|reflexivity]. destruct o; simpl; ring.
Qed.

(* the Hadamard-of-Grams system (no ridge) is positive semidefinite: it is the Gram matrix of the masked Khatri-Rao rows *)
Lemma cp_G0_psd (sh : list nat) (w : list R) (facs : list (list (list R))) k rank (d : nat -> R) :
  (k < length sh)%nat -> (k < length facs)%nat -> (0 < nth k sh 0)%nat ->
  0 <= rsum rank (fun r => rsum rank (fun t => d r * @cp_G R Rops sh w facs k 0 r t * d t)).
Proof.
  intros Hk Hf Hd.
  set (A := (@tab2 R (nth k sh 0%nat) rank (fun i r => if Nat.eqb i 0 then d r else 0) : list (list R))).
  pose proof (cp_sqerr_quadratic (mk sh []) w facs k rank Hk Hf A) as H. cbn [shape data] in H.
  pose proof (cp_sqerr_nonneg (mk sh []) w (set_nth k A facs) rank) as Hn. rewrite H in Hn. clear H.
  rewrite (rsum_zero (prod sh)) in Hn by (intros o _; destruct o; simpl; ring).
  rewrite (rsum_zero (nth k sh 0%nat) (fun i => rsum rank (fun r => @mget R Rops A i r * @cp_mttkrp R Rops (mk sh []) w facs k i r))) in Hn
    by (intros i _; apply rsum_zero; intros r _; rewrite cp_mttkrp_zero_data; ring).
  rewrite (rsum_single (nth k sh 0%nat) 0%nat) in Hn; [| exact Hd |].
  - rewrite (rsum_ext rank _ (fun r => rsum rank (fun t => d r * @cp_G R Rops sh w facs k 0 r t * d t))) in Hn; [lra|].
    intros r Hr. apply rsum_ext; intros t Ht. unfold A. rewrite !mget_tab2_in by assumption. simpl. ring.
  - intros i Hi Hi0. apply rsum_zero; intros r Hr. apply rsum_zero; intros t Ht. unfold A. rewrite !mget_tab2_in by assumption.
    destruct (Nat.eqb_spec i 0); [congruence | ring].
Qed.

Section Cmtf.
Variables (X : tensor R) (Y : list (list R)) (w : list R) (facs : list (list (list R))) (V : list (list R)) (q rank : nat).
Let s := shape X.
Let N := prod s.
Let d0 := nth 0 s 0%nat.
Hypothesis Hs : (0 < length s)%nat.
Hypothesis Hf : (0 < length facs)%nat.
Let Gq (r t : nat) : R := @cmtf_G R Rops s w facs V q r t.
Let Mq (i r : nat) : R := @cmtf_M R Rops X Y w facs V q i r.
Let C0 : R := rsum N (fun o => (nth o (data X) 0)^2) + rsum d0 (fun i => rsum q (fun j => (@mget R Rops Y i j)^2)).

Lemma Gq_sym r t : Gq r t = Gq t r.
Proof.
  unfold Gq, cmtf_G. rewrite ?gsum_rsum_fun. cbn [fadd fmul f0 Rops]. rewrite (cp_G0_sym s w facs 0 r t). f_equal.
  apply rsum_ext; intros; ring.
Qed.

Lemma cmtf_obj_quadratic (A : list (list R)) :
  @cmtf_obj R Rops X Y w (set_nth 0 A facs) V q rank
  = C0 + 2 * rsum d0 (fun i => qp_f rank Gq (Mq i) 0 0 (fun r => @mget R Rops A i r)).
Proof.
  unfold cmtf_obj. rewrite nth_set_nth_same by exact Hf. fold s d0. cbn [fadd Rops].
  rewrite (cp_sqerr_quadratic X w facs 0 rank Hs Hf A). fold s N d0.
  assert (EY : @cmtf_fit_Y R Rops Y A V d0 q rank = rsum d0 (fun i =>
     (rsum q (fun j => (@mget R Rops Y i j)^2)
      + (-2) * rsum rank (fun r => @mget R Rops A i r * rsum q (fun j => @mget R Rops V j r * @mget R Rops Y i j)))
     + rsum rank (fun r => rsum rank (fun t => @mget R Rops A i r * @mget R Rops A i t * rsum q (fun j => @mget R Rops V j r * @mget R Rops V j t))))).
  { unfold cmtf_fit_Y, fsq. rewrite ?gsum_rsum_fun. apply rsum_ext; intros i _. cbn [fsub fmul Rops].
    pose proof (ls_expand q rank (fun j r => @mget R Rops V j r) (fun j => @mget R Rops Y i j) (fun r => @mget R Rops A i r)) as H.
    unfold Av in H. cbv beta in H.
    rewrite (rsum_ext q _ (fun j => (@mget R Rops Y i j - rsum rank (fun r => @mget R Rops V j r * @mget R Rops A i r))^2)).
    - rewrite H. ring.
    - intros j _.
      replace (rsum rank (fun r => @mget R Rops A i r * @mget R Rops V j r)) with (rsum rank (fun r => @mget R Rops V j r * @mget R Rops A i r))
        by (apply rsum_ext; intros; ring).
      ring. }
  rewrite EY. clear EY.
  rewrite !rsum_add, rsum_scale. unfold C0.
  (* right-hand side, per row *)
  rewrite (rsum_ext d0 (fun i => qp_f rank Gq (Mq i) 0 0 (fun r => @mget R Rops A i r)) (fun i =>
     ((/ 2 * rsum rank (fun r => rsum rank (fun t => @mget R Rops A i r * @mget R Rops A i t * @cp_G R Rops s w facs 0 0 r t))
       + / 2 * rsum rank (fun r => rsum rank (fun t => @mget R Rops A i r * @mget R Rops A i t * rsum q (fun j => @mget R Rops V j r * @mget R Rops V j t))))
      + (-1) * rsum rank (fun r => @mget R Rops A i r * @cp_mttkrp R Rops X w facs 0 i r))
     + (-1) * rsum rank (fun r => @mget R Rops A i r * rsum q (fun j => @mget R Rops V j r * @mget R Rops Y i j)))).
  2:{ intros i _. unfold qp_f, quad, Gq, Mq, cmtf_G, cmtf_M. rewrite ?gsum_rsum_fun. cbn [fadd fmul f0 Rops].
      rewrite (rsum_ext rank (fun i0 => rsum rank (fun j => @mget R Rops A i i0 * (@cp_G R Rops s w facs 0 0 i0 j + rsum q (fun j0 => @mget R Rops V j0 i0 * @mget R Rops V j0 j)) * @mget R Rops A i j))
         (fun r => rsum rank (fun t => @mget R Rops A i r * @mget R Rops A i t * @cp_G R Rops s w facs 0 0 r t)
                   + rsum rank (fun t => @mget R Rops A i r * @mget R Rops A i t * rsum q (fun j => @mget R Rops V j r * @mget R Rops V j t))))
        by (intros r _; rewrite <- rsum_add; apply rsum_ext; intros; ring).
      rewrite rsum_add.
      rewrite (rsum_ext rank (fun i0 => (@cp_mttkrp R Rops X w facs 0 i i0 + rsum q (fun j => @mget R Rops Y i j * @mget R Rops V j i0)) * @mget R Rops A i i0)
         (fun r => @mget R Rops A i r * @cp_mttkrp R Rops X w facs 0 i r + @mget R Rops A i r * rsum q (fun j => @mget R Rops V j r * @mget R Rops Y i j))).
      2:{ intros r _. replace (rsum q (fun j => @mget R Rops Y i j * @mget R Rops V j r)) with (rsum q (fun j => @mget R Rops V j r * @mget R Rops Y i j))
            by (apply rsum_ext; intros; ring). ring. }
      rewrite rsum_add.
      field. }
  rewrite !rsum_add, !rsum_scale. field.
Qed.

(* the coupled block: a factor satisfying the normal equations minimises the coupled objective over all matrices *)
Theorem cmtf_coupled_block_minimises (x z : list (list R)) : (0 < d0)%nat ->
  (forall i r, (i < d0)%nat -> (r < rank)%nat -> @cmtf_cert_lhs R Rops s w facs V q rank x i r = Mq i r) ->
  @cmtf_obj R Rops X Y w (set_nth 0 x facs) V q rank <= @cmtf_obj R Rops X Y w (set_nth 0 z facs) V q rank.
Proof.
  intros Hd Hc. rewrite !cmtf_obj_quadratic.
  assert (forall i, (i < d0)%nat -> qp_f rank Gq (Mq i) 0 0 (fun r => @mget R Rops x i r) <= qp_f rank Gq (Mq i) 0 0 (fun r => @mget R Rops z i r)).
  { intros i Hi.
    pose proof (qp_diff rank Gq (Mq i) 0 0 Gq_sym (fun r => @mget R Rops x i r) (fun r => @mget R Rops z i r)) as H. cbv zeta in H.
    set (d := fun r => @mget R Rops z i r - @mget R Rops x i r) in *.
    assert (Hg : rsum rank (fun r => d r * qp_grad rank Gq (Mq i) 0 0 (fun r0 => @mget R Rops x i r0) r) = 0).
    { apply rsum_zero; intros r Hr. unfold qp_grad.
      specialize (Hc i r Hi Hr). unfold cmtf_cert_lhs in Hc. rewrite ?gsum_rsum_fun in Hc. cbn [fmul Rops] in Hc.
      replace (rsum rank (fun j => Gq r j * @mget R Rops x i j)) with (Mq i r).
      - ring.
      - rewrite <- Hc. apply rsum_ext; intros t _. fold (Gq t r). rewrite (Gq_sym t r). ring. }
    assert (Hq : 0 <= quad rank Gq d).
    { unfold quad, Gq, cmtf_G.
      rewrite (rsum_ext rank _ (fun r => rsum rank (fun t => d r * @cp_G R Rops s w facs 0 0 r t * d t)
                                         + rsum rank (fun t => d r * rsum q (fun j => @mget R Rops V j r * @mget R Rops V j t) * d t))).
      2:{ intros r _. rewrite <- rsum_add. apply rsum_ext; intros t _. rewrite ?gsum_rsum_fun. cbn [fadd fmul f0 Rops]. ring. }
      rewrite rsum_add.
      assert (0 <= rsum rank (fun r => rsum rank (fun t => d r * @cp_G R Rops s w facs 0 0 r t * d t))) by (apply cp_G0_psd; assumption).
      assert (E : rsum rank (fun r => rsum rank (fun t => d r * rsum q (fun j => @mget R Rops V j r * @mget R Rops V j t) * d t))
                = rsum q (fun j => (rsum rank (fun r => @mget R Rops V j r * d r))^2)).
      { symmetry.
        rewrite (rsum_ext q _ (fun j => rsum rank (fun r => rsum rank (fun t => (@mget R Rops V j r * d r) * (@mget R Rops V j t * d t)))))
          by (intros j _; rewrite <- rsum_mul_rsum; ring).
        rewrite rsum_exchange. apply rsum_ext; intros r _. rewrite rsum_exchange. apply rsum_ext; intros t _.
        transitivity (d r * d t * rsum q (fun j => @mget R Rops V j r * @mget R Rops V j t)); [|ring].
        rewrite <- rsum_scale. apply rsum_ext; intros; ring. }
      rewrite E. assert (0 <= rsum q (fun j => (rsum rank (fun r => @mget R Rops V j r * d r))^2)) by (apply rsum_nonneg; intros; apply pow2_ge_0).
      lra. }
    rewrite Hg in H. lra. }
  assert (rsum d0 (fun i => qp_f rank Gq (Mq i) 0 0 (fun r => @mget R Rops x i r)) <= rsum d0 (fun i => qp_f rank Gq (Mq i) 0 0 (fun r => @mget R Rops z i r)))
    by (apply rsum_le; assumption).
  lra.
Qed.
End Cmtf.
