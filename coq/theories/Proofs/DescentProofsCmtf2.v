(* C07 -- coupled_matrix_tensor_3d_factorization: EVERY update of an iteration is an exact minimiser of the COUPLED objective
   ||X - [[w; A_0, A_1, ..]]||^2 + ||Y - A_0 V'||^2 over its own block (the coupled block is Proofs/DescentProofsCmtf.v):
     V = lstsq(A_0, Y)'            normal equations A_0'(Y - A_0 V') = 0  => minimiser over all V (the tensor part does not depend on V);
     uncoupled mode k <> 0          solve certificate of the CP system      => minimiser over all replacements of factor k (the matrix part only
                                                                            sees factor 0). *)
From Coq Require Import Reals Lra List Arith Lia.
From TLV Require Import Base.Shape Base.PyList Base.Tensor Base.Ops Base.RSum Model.Descent
  Proofs.DescentProofs Proofs.DescentProofsCmtf Proofs.DescentProofsSweeps2.
Import ListNotations.
Open Scope R_scope.

Section CmtfBlocks.
Variables (X : tensor R) (Y : list (list R)) (w : list R) (q rank : nat).

Theorem cmtf_V_block_minimises_obj (facs : list (list (list R))) (V Z : list (list R)) :
  cmtf_V_normal X Y q rank (nth 0 facs []) V ->
  @cmtf_obj R Rops X Y w facs V q rank <= @cmtf_obj R Rops X Y w facs Z q rank.
Proof.
  intros Hn. unfold cmtf_obj. cbn [fadd Rops]. apply Rplus_le_compat_l. apply cmtf_V_block_minimises. exact Hn.
Qed.

Theorem cmtf_uncoupled_block_minimises (facs : list (list (list R))) (V : list (list R)) (k : nat) (x z : list (list R)) :
  k <> 0%nat -> (k < length (shape X))%nat -> (k < length facs)%nat ->
  (forall i r, (i < nth k (shape X) 0)%nat -> (r < rank)%nat ->
     @cp_cert_lhs R Rops (shape X) w facs k 0 rank x i r = @cp_mttkrp R Rops X w facs k i r) ->
  @cmtf_obj R Rops X Y w (set_nth k x facs) V q rank <= @cmtf_obj R Rops X Y w (set_nth k z facs) V q rank.
Proof.
  intros Hk0 Hk Hf Hc. unfold cmtf_obj, mat. cbn [fadd Rops].
  rewrite !(@nth_set_nth_other (list (list R)) k _ [] facs 0%nat) by (intro E; apply Hk0; symmetry; exact E).
  apply Rplus_le_compat_r.
  pose proof (cp_block_minimises X w facs k 0 rank Hk Hf x z (Rle_refl 0) Hc) as H.
  unfold cp_obj in H. cbn [fadd fmul Rops] in H. lra.
Qed.

(* hence each of the updates of an iteration, taken alone, does not increase the coupled objective *)
Corollary cmtf_V_block_descent (facs : list (list (list R))) (V Vold : list (list R)) :
  cmtf_V_normal X Y q rank (nth 0 facs []) V -> @cmtf_obj R Rops X Y w facs V q rank <= @cmtf_obj R Rops X Y w facs Vold q rank.
Proof. apply cmtf_V_block_minimises_obj. Qed.
Corollary cmtf_uncoupled_block_descent (facs : list (list (list R))) (V : list (list R)) (k : nat) (x : list (list R)) :
  k <> 0%nat -> (k < length (shape X))%nat -> (k < length facs)%nat ->
  (forall i r, (i < nth k (shape X) 0)%nat -> (r < rank)%nat ->
     @cp_cert_lhs R Rops (shape X) w facs k 0 rank x i r = @cp_mttkrp R Rops X w facs k i r) ->
  @cmtf_obj R Rops X Y w (set_nth k x facs) V q rank <= @cmtf_obj R Rops X Y w facs V q rank.
Proof.
  intros Hk0 Hk Hf Hc. pose proof (cmtf_uncoupled_block_minimises facs V k x (nth k facs []) Hk0 Hk Hf Hc) as H.
  rewrite set_nth_nth_id in H. exact H.
Qed.
End CmtfBlocks.
