(* C07 -- HALS NNLS (solvers/nnls.py:hals_nnls): every row update, every pass and every number of
   passes of the model never increases the penalised quadratic objective; iterates stay feasible. *)
From Coq Require Import Reals Lra Psatz List Arith Lia Bool.
From TLV Require Import Base.Shape Base.PyList Base.Tensor Base.Ops Base.RSum Model.Descent Proofs.DescentProofs.
Import ListNotations.
Open Scope R_scope.

Lemma qp_f_ext n G b l1 l2 v v' : (forall i, (i < n)%nat -> v i = v' i) -> qp_f n G b l1 l2 v = qp_f n G b l1 l2 v'.
Proof.
  intros H. unfold qp_f, quad.
  rewrite (rsum_ext n (fun i => rsum n (fun j => v i * G i j * v j)) (fun i => rsum n (fun j => v' i * G i j * v' j))).
  2:{ intros i Hi. apply rsum_ext; intros j Hj. now rewrite (H i Hi), (H j Hj). }
  rewrite (rsum_ext n (fun i => b i * v i) (fun i => b i * v' i)) by (intros i Hi; now rewrite (H i Hi)).
  rewrite (rsum_ext n v v') by exact H.
  rewrite (rsum_ext n (fun i => v i ^ 2) (fun i => v' i ^ 2)) by (intros i Hi; now rewrite (H i Hi)).
  reflexivity.
Qed.

Lemma mget_set_nth (V : list (list R)) k row k' c : (k < length V)%nat ->
  @mget R Rops (set_nth k row V) k' c = if Nat.eqb k' k then nth c row 0 else @mget R Rops V k' c.
Proof.
  intros Hk. unfold mget. destruct (Nat.eqb_spec k' k) as [->|E].
  - now rewrite nth_set_nth_same.
  - now rewrite nth_set_nth_other.
Qed.

Section HALS.
Variables (G B : list (list R)) (l1 l2 eps : R) (rank ncols : nat).
Let Gf (i j : nat) : R := @mget R Rops G i j.
Let bf (c : nat) (i : nat) : R := @mget R Rops B i c.
Let col (V : list (list R)) (c : nat) : nat -> R := fun i => @mget R Rops V i c.
Hypothesis Gsym : forall i j, Gf i j = Gf j i.
Hypothesis Gdiag : forall k, 0 <= Gf k k.
Hypothesis Hl2 : 0 <= l2.

Definition feasible (V : list (list R)) : Prop :=
  forall k c, (k < rank)%nat -> (c < ncols)%nat -> eps <= @mget R Rops V k c.

Lemma hals_col_obj_qp V c : @hals_col_obj R Rops G B V l1 l2 rank c = qp_f rank Gf (bf c) l1 l2 (col V c).
Proof.
  unfold hals_col_obj, qp_f, quad, two, fsq. rewrite gsum_rsum_fun. cbn [fadd fsub fmul fdiv f1 Rops].
  replace (1 + 1) with 2 by ring.
  rewrite (rsum_ext rank (fun i => col V c i ^ 2) (fun i => @mget R Rops V i c * @mget R Rops V i c)) by (intros; unfold col; ring).
  reflexivity.
Qed.

Lemma hals_entry_new V k c : @hals_entry R Rops G B V l1 l2 eps rank k c = hals_new rank Gf (bf c) l1 l2 eps (col V c) k.
Proof.
  unfold hals_entry, hals_new, two. rewrite gsum_rsum_fun. cbn [fadd fsub fmul fdiv f1 fleb Rops]. cbv zeta.
  replace ((1 + 1) * l2) with (2 * l2) by ring. fold (Gf k k).
  unfold Rleb, bf, col, Gf. destruct (Rle_dec eps _); reflexivity.
Qed.

Lemma hals_new_feasible v k c : eps <= hals_new rank Gf (bf c) l1 l2 eps v k.
Proof. unfold hals_new. cbv zeta. destruct (Rle_dec eps _); lra. Qed.

Lemma fiszero_false a : @fiszero R Rops a = false -> a <> 0.
Proof.
  unfold fiszero. cbn [fleb f0 Rops]. intros H E. subst a.
  assert (Rleb 0 0 = true) by (apply Rleb_true; lra). rewrite H0 in H. discriminate.
Qed.

Lemma nth_row V k c : (c < ncols)%nat ->
  nth c (map (fun c => @hals_entry R Rops G B V l1 l2 eps rank k c) (seq 0 ncols)) 0 = @hals_entry R Rops G B V l1 l2 eps rank k c.
Proof.
  intros Hc. rewrite (nth_map' _ _ _ 0%nat) by (now rewrite seq_length). now rewrite seq_nth.
Qed.

(* one row update *)
Lemma hals_row_step V k : (k < rank)%nat -> length V = rank -> feasible V ->
  let V' := @hals_row R Rops G B l1 l2 eps rank ncols V k in
  length V' = rank /\ feasible V' /\
  @hals_obj R Rops G B V' l1 l2 rank ncols <= @hals_obj R Rops G B V l1 l2 rank ncols.
Proof.
  intros Hk Hlen Hfeas. cbv zeta. unfold hals_row.
  destruct (@fiszero R Rops (@mget R Rops G k k)) eqn:Ez.
  - repeat split; auto. lra.
  - apply fiszero_false in Ez. fold (Gf k k) in Ez.
    assert (Hden : 0 < Gf k k + 2 * l2) by (pose proof (Gdiag k); lra).
    set (row := map (fun c => @hals_entry R Rops G B V l1 l2 eps rank k c) (seq 0 ncols)).
    assert (Hget : forall k' c, (c < ncols)%nat ->
              @mget R Rops (set_nth k row V) k' c = updv (col V c) k (hals_new rank Gf (bf c) l1 l2 eps (col V c) k) k').
    { intros k' c Hc. rewrite mget_set_nth by lia. unfold updv, row. rewrite nth_row by exact Hc.
      rewrite hals_entry_new. destruct (Nat.eqb_spec k' k); destruct (Nat.eq_dec k' k); try congruence; reflexivity. }
    split; [now rewrite set_nth_length|]. split.
    + intros k' c Hk' Hc. rewrite Hget by exact Hc. unfold updv. destruct (Nat.eq_dec k' k).
      * apply hals_new_feasible.
      * apply Hfeas; assumption.
    + unfold hals_obj. rewrite gsum_rsum_fun. apply rsum_le; intros c Hc.
      rewrite !hals_col_obj_qp.
      rewrite (qp_f_ext rank Gf (bf c) l1 l2 (col (set_nth k row V) c) (updv (col V c) k (hals_new rank Gf (bf c) l1 l2 eps (col V c) k)))
        by (intros i _; unfold col at 1; now apply Hget).
      rewrite (qp_f_ext rank Gf (bf c) l1 l2 (col V c) (updv (col V c) k (col V c k)))
        by (intros i _; unfold updv; destruct (Nat.eq_dec i k); [now subst|reflexivity]).
      apply hals_row_exact; auto. unfold col. apply Hfeas; assumption.
Qed.

Lemma hals_rows_step ks : forall V, Forall (fun k => (k < rank)%nat) ks -> length V = rank -> feasible V ->
  let V' := fold_left (@hals_row R Rops G B l1 l2 eps rank ncols) ks V in
  length V' = rank /\ feasible V' /\
  @hals_obj R Rops G B V' l1 l2 rank ncols <= @hals_obj R Rops G B V l1 l2 rank ncols.
Proof.
  induction ks as [|k ks IH]; intros V Hks Hlen Hfeas; cbv zeta; simpl.
  - repeat split; auto. lra.
  - inversion Hks as [|? ? Hk Hks']; subst.
    destruct (hals_row_step V k Hk Hlen Hfeas) as (L1 & F1 & D1).
    destruct (IH _ Hks' L1 F1) as (L2 & F2 & D2).
    repeat split; auto. lra.
Qed.

Theorem hals_pass_descent V : length V = rank -> feasible V ->
  let V' := @hals_pass R Rops G B l1 l2 eps rank ncols V in
  length V' = rank /\ feasible V' /\
  @hals_obj R Rops G B V' l1 l2 rank ncols <= @hals_obj R Rops G B V l1 l2 rank ncols.
Proof.
  intros Hlen Hfeas. unfold hals_pass. apply hals_rows_step; auto.
  apply Forall_forall. intros k Hk. apply in_seq in Hk. lia.
Qed.

Theorem hals_iter_descent n : forall V, length V = rank -> feasible V ->
  let V' := @hals_iter R Rops G B l1 l2 eps rank ncols n V in
  length V' = rank /\ feasible V' /\
  @hals_obj R Rops G B V' l1 l2 rank ncols <= @hals_obj R Rops G B V l1 l2 rank ncols.
Proof.
  induction n as [|n IH]; intros V Hlen Hfeas; cbv zeta; unfold hals_iter in *; simpl.
  - repeat split; auto. lra.
  - destruct (IH V Hlen Hfeas) as (L1 & F1 & D1).
    destruct (hals_pass_descent _ L1 F1) as (L2 & F2 & D2).
    repeat split; auto. lra.
Qed.

(* consecutive iterates: the whole history of objective values is non-increasing *)
Theorem hals_history_monotone V n : length V = rank -> feasible V ->
  @hals_obj R Rops G B (@hals_iter R Rops G B l1 l2 eps rank ncols (S n) V) l1 l2 rank ncols
  <= @hals_obj R Rops G B (@hals_iter R Rops G B l1 l2 eps rank ncols n V) l1 l2 rank ncols.
Proof.
  intros Hlen Hfeas. destruct (hals_iter_descent n V Hlen Hfeas) as (L1 & F1 & _).
  unfold hals_iter in *. simpl. apply hals_pass_descent; assumption.
Qed.
End HALS.
