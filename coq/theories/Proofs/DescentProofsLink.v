(* C07 -- the HALS block of non_negative_parafac_hals descends on the CP objective:
   quadratic expansion of least squares, cp objective = ||X||^2 + 2 * (HALS quadratic objective of the
   weighted Hadamard-of-Grams system against the transposed MTTKRP), hence every number of HALS passes on
   mode k never increases  ||X - [[w; A..]]||^2 / 2 + l1 sum(A_k) + l2 ||A_k||^2. *)
From Coq Require Import Reals Lra Psatz List Arith Lia RealField Bool.
From TLV Require Import Base.Shape Base.PyList Base.Tensor Base.Ops Base.BigSum Base.RSum Model.Descent
  Proofs.DescentProofs Proofs.DescentProofsHals.
Import ListNotations.
Open Scope R_scope.

Lemma rsum_mul_rsum n (f g : nat -> R) : rsum n f * rsum n g = rsum n (fun j => rsum n (fun t => f j * g t)).
Proof. rewrite <- rsum_scale_r. apply rsum_ext; intros j _. now rewrite rsum_scale. Qed.

(* quadratic expansion of a least-squares objective *)
Lemma ls_expand m n (A : nat -> nat -> R) (y v : nat -> R) :
  rsum m (fun i => (y i - Av n A v i)^2)
  = rsum m (fun i => (y i)^2) - 2 * rsum n (fun j => v j * rsum m (fun i => A i j * y i))
    + rsum n (fun j => rsum n (fun t => v j * v t * rsum m (fun i => A i j * A i t))).
Proof.
  unfold Av.
  rewrite (rsum_ext m _ (fun i => ((y i)^2 + (-2) * (y i * rsum n (fun j => A i j * v j)))
                                 + rsum n (fun j => A i j * v j) * rsum n (fun j => A i j * v j))) by (intros; ring).
  rewrite !rsum_add, rsum_scale.
  assert (C1 : rsum m (fun i => y i * rsum n (fun j => A i j * v j)) = rsum n (fun j => v j * rsum m (fun i => A i j * y i))).
  { rewrite (rsum_ext m _ (fun i => rsum n (fun j => y i * (A i j * v j)))) by (intros; now rewrite rsum_scale).
    rewrite rsum_exchange. apply rsum_ext; intros j _. rewrite <- rsum_scale. apply rsum_ext; intros; ring. }
  assert (C2 : rsum m (fun i => rsum n (fun j => A i j * v j) * rsum n (fun j => A i j * v j))
             = rsum n (fun j => rsum n (fun t => v j * v t * rsum m (fun i => A i j * A i t)))).
  { rewrite (rsum_ext m _ (fun i => rsum n (fun j => rsum n (fun t => (A i j * v j) * (A i t * v t))))) by (intros; apply rsum_mul_rsum).
    rewrite rsum_exchange. apply rsum_ext; intros j _. rewrite rsum_exchange. apply rsum_ext; intros t _.
    rewrite <- rsum_scale. apply rsum_ext; intros; ring. }
  rewrite C1, C2. ring.
Qed.

(* ---------- tabulated matrices ---------- *)
Lemma mget_tab2 n m (f : nat -> nat -> R) i j :
  @mget R Rops (@tab2 R n m f) i j = if (i <? n)%nat && (j <? m)%nat then f i j else 0.
Proof.
  unfold mget, tab2.
  destruct (Nat.ltb_spec i n) as [Hi|Hi]; cbn [andb].
  - rewrite (nth_map' _ _ _ 0%nat) by (now rewrite seq_length). rewrite seq_nth by exact Hi. cbn [Nat.add].
    destruct (Nat.ltb_spec j m) as [Hj|Hj].
    + rewrite (nth_map' _ _ _ 0%nat) by (now rewrite seq_length). now rewrite seq_nth.
    + apply nth_overflow. now rewrite map_length, seq_length.
  - rewrite (nth_overflow _ []) by (now rewrite map_length, seq_length). now destruct j.
Qed.
Lemma mget_tab2_in n m (f : nat -> nat -> R) i j : (i < n)%nat -> (j < m)%nat -> @mget R Rops (@tab2 R n m f) i j = f i j.
Proof.
  intros Hi Hj. rewrite mget_tab2. apply Nat.ltb_lt in Hi, Hj. now rewrite Hi, Hj.
Qed.
Lemma tab2_length n m (f : nat -> nat -> R) : length (@tab2 R n m f) = n.
Proof. unfold tab2. now rewrite map_length, seq_length. Qed.

Lemma lprod_nonneg g : (forall j d, 0 <= g j d) -> forall s j0, 0 <= lprodR g j0 s.
Proof.
  intros H. induction s as [|d s IH]; intros j0; simpl; [lra|]. apply Rmult_le_pos; [apply H | apply IH].
Qed.
Lemma lprod_ext g h : (forall j d, g j d = h j d) -> forall s j0, lprodR g j0 s = lprodR h j0 s.
Proof. intros H. induction s as [|d s IH]; intros j0; simpl; [reflexivity|]. now rewrite H, IH. Qed.

Lemma hadamard_sym s facs k r t : @hadamard_grams R Rops s facs k r t = @hadamard_grams R Rops s facs k t r.
Proof.
  unfold hadamard_grams. apply lprod_ext. intros j d. destruct (Nat.eqb j k); [reflexivity|].
  unfold gram. rewrite !gsum_rsum_fun. apply rsum_ext; intros i _. cbn [fmul Rops]. ring.
Qed.
Lemma hadamard_diag_nonneg s facs k r : 0 <= @hadamard_grams R Rops s facs k r r.
Proof.
  unfold hadamard_grams. apply lprod_nonneg. intros j d. destruct (Nat.eqb j k); cbn [f1 Rops]; [lra|].
  unfold gram. rewrite gsum_rsum_fun. apply rsum_nonneg; intros i _. cbn [fmul Rops]. apply Rle_0_sqr.
Qed.
Lemma cp_G0_sym s w facs k r t : @cp_G R Rops s w facs k 0 r t = @cp_G R Rops s w facs k 0 t r.
Proof.
  unfold cp_G. cbn [fadd fmul f0 Rops]. rewrite (hadamard_sym s facs k r t), (Nat.eqb_sym r t).
  destruct (Nat.eqb t r); ring.
Qed.
Lemma cp_G0_diag s w facs k r : 0 <= @cp_G R Rops s w facs k 0 r r.
Proof.
  unfold cp_G. cbn [fadd fmul f0 Rops]. rewrite Nat.eqb_refl.
  pose proof (hadamard_diag_nonneg s facs k r) as H.
  replace (vget Rops w r * (hadamard_grams Rops s facs k r r + 0) * vget Rops w r)
    with ((vget Rops w r * vget Rops w r) * hadamard_grams Rops s facs k r r) by ring.
  apply Rmult_le_pos; [apply Rle_0_sqr | exact H].
Qed.

Lemma hals_obj_ext G B V V' l1 l2 rank ncols :
  (forall r c, (r < rank)%nat -> (c < ncols)%nat -> @mget R Rops V r c = @mget R Rops V' r c) ->
  @hals_obj R Rops G B V l1 l2 rank ncols = @hals_obj R Rops G B V' l1 l2 rank ncols.
Proof.
  intros H. unfold hals_obj. rewrite !gsum_rsum_fun. apply rsum_ext; intros c Hc.
  unfold hals_col_obj, fsq. rewrite !gsum_rsum_fun. cbn [fadd fsub fmul fdiv Rops].
  f_equal; [f_equal; [f_equal; [f_equal|]|]|].
  - apply rsum_ext; intros i Hi. apply rsum_ext; intros j Hj. now rewrite (H i c Hi Hc), (H j c Hj Hc).
  - apply rsum_ext; intros i Hi. now rewrite (H i c Hi Hc).
  - f_equal. apply rsum_ext; intros i Hi. now rewrite (H i c Hi Hc).
  - f_equal. apply rsum_ext; intros i Hi. now rewrite (H i c Hi Hc).
Qed.

Section Link.
Variables (X : tensor R) (w : list R) (facs : list (list (list R))) (k : nat) (rank : nat) (l1 l2 : R).
Let s := shape X.
Let N := prod s.
Let dk := nth k s 0%nat.
Hypothesis Hk : (k < length s)%nat.
Hypothesis Hf : (k < length facs)%nat.
Let G := @cp_G_mat R Rops s w facs k 0 rank.
Let B := @cp_hals_B R Rops X w facs k rank.
Let normX2 := rsum N (fun o => (nth o (data X) 0)^2).

(* squared error of the CP tensor with factor k replaced by A, as a quadratic in A *)
Lemma cp_sqerr_quadratic A :
  @cp_sqerr R Rops X w (set_nth k A facs) rank
  = normX2
    - 2 * rsum dk (fun i => rsum rank (fun r => @mget R Rops A i r * @cp_mttkrp R Rops X w facs k i r))
    + rsum dk (fun i => rsum rank (fun r => rsum rank (fun t =>
        @mget R Rops A i r * @mget R Rops A i t * @cp_G R Rops s w facs k 0 r t))).
Proof.
  assert (E0 : @cp_sqerr R Rops X w (set_nth k A facs) rank = @cp_obj R Rops X w (set_nth k A facs) k 0 rank).
  { unfold cp_obj. cbn [fadd fmul Rops]. ring. }
  rewrite E0, (cp_obj_rows X w facs k 0 rank Hk Hf A). fold s N dk.
  unfold ls_objw.
  rewrite (rsum_ext dk _ (fun i =>
     (rsum N (fun o => delta (nth k (unravel s o) 0%nat) i * (nth o (data X) 0)^2)
      + (-2) * rsum rank (fun r => @mget R Rops A i r * @cp_mttkrp R Rops X w facs k i r))
     + rsum rank (fun r => rsum rank (fun t => @mget R Rops A i r * @mget R Rops A i t * @cp_G R Rops s w facs k 0 r t)))).
  - rewrite !rsum_add, rsum_scale.
    assert (En : rsum dk (fun i => rsum N (fun o => delta (nth k (unravel s o) 0%nat) i * (nth o (data X) 0)^2)) = normX2).
    { rewrite rsum_exchange. unfold normX2. apply rsum_ext; intros o Ho.
      pose proof (unravel_inb s o Ho) as Hin. pose proof (inb_nth_lt k _ _ Hin Hk) as Hlt. fold dk in Hlt.
      rewrite rsum_delta by exact Hlt. reflexivity. }
    rewrite En. ring.
  - intros i Hi. rewrite ls_expand.
    rewrite (rsum_zero rank (fun j => 0 * (nth j w 0 * nth j w 0) * (@mget R Rops A i j)^2)) by (intros; ring).
    assert (Ey : rsum N (fun o => (delta (nth k (unravel s o) 0%nat) i * nth o (data X) 0)^2)
               = rsum N (fun o => delta (nth k (unravel s o) 0%nat) i * (nth o (data X) 0)^2)).
    { apply rsum_ext; intros o _.
      transitivity ((delta (nth k (unravel s o) 0%nat) i * delta (nth k (unravel s o) 0%nat) i) * (nth o (data X) 0)^2); [ring|].
      now rewrite delta_sq. }
    assert (Em : forall r, rsum N (fun o => delta (nth k (unravel s o) 0%nat) i * (nth r w 0 * @cp_term_skip R Rops facs k r (unravel s o))
                                           * (delta (nth k (unravel s o) 0%nat) i * nth o (data X) 0))
                         = @cp_mttkrp R Rops X w facs k i r).
    { intros r. unfold cp_mttkrp. rewrite gsum_rsum_fun. fold s N. apply rsum_ext; intros o _. cbv zeta.
      unfold delta, vget. cbn [fmul f0 Rops]. destruct (Nat.eqb (nth k (unravel s o) 0%nat) i); ring. }
    assert (Eg : forall r t, rsum N (fun o => delta (nth k (unravel s o) 0%nat) i * (nth r w 0 * @cp_term_skip R Rops facs k r (unravel s o))
                                             * (delta (nth k (unravel s o) 0%nat) i * (nth t w 0 * @cp_term_skip R Rops facs k t (unravel s o))))
                           = @cp_G R Rops s w facs k 0 r t).
    { intros r t. unfold cp_G. cbn [fadd fmul f0 Rops].
      pose proof (kr_gram_multi X facs k Hk Hf i r t Hi) as Hkr. unfold rsum_idx in Hkr. fold s in Hkr. fold N in Hkr.
      rewrite <- Hkr.
      replace (if Nat.eqb r t then 0 else 0) with 0 by (destruct (Nat.eqb r t); reflexivity).
      unfold vget. cbn [f0 Rops].
      transitivity (rsum N (fun o => (nth r w 0 * nth t w 0) *
           (delta (nth k (unravel s o) 0%nat) i * (@cp_term_skip R Rops facs k r (unravel s o) * @cp_term_skip R Rops facs k t (unravel s o))))).
      - apply rsum_ext; intros o _.
        transitivity ((delta (nth k (unravel s o) 0%nat) i * delta (nth k (unravel s o) 0%nat) i)
                      * (nth r w 0 * nth t w 0 * (@cp_term_skip R Rops facs k r (unravel s o) * @cp_term_skip R Rops facs k t (unravel s o)))); [ring|].
        rewrite delta_sq. ring.
      - rewrite rsum_scale. ring. }
    rewrite Ey.
    rewrite (rsum_ext rank (fun j => @mget R Rops A i j * rsum N _) (fun r => @mget R Rops A i r * @cp_mttkrp R Rops X w facs k i r))
      by (intros r _; now rewrite Em).
    rewrite (rsum_ext rank (fun j => rsum rank (fun t => @mget R Rops A i j * @mget R Rops A i t * rsum N _))
                           (fun r => rsum rank (fun t => @mget R Rops A i r * @mget R Rops A i t * @cp_G R Rops s w facs k 0 r t)))
      by (intros r _; apply rsum_ext; intros t _; now rewrite Eg).
    ring.
Qed.

(* the penalised objective of the block is the HALS objective of the transposed factor, up to the constant ||X||^2/2 *)
Theorem cp_pen_obj_is_hals A :
  @cp_pen_obj R Rops X w (set_nth k A facs) k l1 l2 rank
  = normX2 / 2 + @hals_obj R Rops G B (@mat_T R Rops dk rank A) l1 l2 rank dk.
Proof.
  unfold cp_pen_obj. cbv zeta. rewrite nth_set_nth_same by exact Hf. fold s dk.
  rewrite cp_sqerr_quadratic. unfold two, fsq. rewrite !gsum_rsum_fun. cbn [fadd fmul fdiv f1 Rops].
  unfold hals_obj. rewrite gsum_rsum_fun.
  rewrite (rsum_ext dk (fun c => @hals_col_obj R Rops G B (@mat_T R Rops dk rank A) l1 l2 rank c)
    (fun i => ((rsum rank (fun r => rsum rank (fun t => @mget R Rops A i r * @mget R Rops A i t * @cp_G R Rops s w facs k 0 r t)) / 2
               + (-1) * rsum rank (fun r => @mget R Rops A i r * @cp_mttkrp R Rops X w facs k i r))
               + l1 * rsum rank (fun r => @mget R Rops A i r))
               + l2 * rsum rank (fun r => @mget R Rops A i r * @mget R Rops A i r))).
  - rewrite !rsum_add, !rsum_scale.
    rewrite (rsum_ext dk (fun i => rsum rank (fun r => rsum rank (fun t => @mget R Rops A i r * @mget R Rops A i t * @cp_G R Rops s w facs k 0 r t)) / 2)
                         (fun i => / 2 * rsum rank (fun r => rsum rank (fun t => @mget R Rops A i r * @mget R Rops A i t * @cp_G R Rops s w facs k 0 r t))))
      by (intros; field).
    rewrite rsum_scale. field.
  - intros i Hi. unfold hals_col_obj, two, fsq. rewrite !gsum_rsum_fun. cbn [fadd fsub fmul fdiv f1 Rops].
    assert (EV : forall r, (r < rank)%nat -> @mget R Rops (@mat_T R Rops dk rank A) r i = @mget R Rops A i r).
    { intros r Hr. unfold mat_T. now rewrite mget_tab2_in. }
    assert (EG : forall r t, (r < rank)%nat -> (t < rank)%nat -> @mget R Rops G r t = @cp_G R Rops s w facs k 0 r t).
    { intros r t Hr Ht. unfold G, cp_G_mat. now rewrite mget_tab2_in. }
    assert (EB : forall r, (r < rank)%nat -> @mget R Rops B r i = @cp_mttkrp R Rops X w facs k i r).
    { intros r Hr. unfold B, cp_hals_B. fold s dk. now rewrite mget_tab2_in. }
    rewrite (rsum_ext rank (fun i0 => rsum rank (fun j => @mget R Rops (@mat_T R Rops dk rank A) i0 i * @mget R Rops G i0 j * @mget R Rops (@mat_T R Rops dk rank A) j i))
                           (fun r => rsum rank (fun t => @mget R Rops A i r * @mget R Rops A i t * @cp_G R Rops s w facs k 0 r t))).
    2:{ intros r Hr. apply rsum_ext; intros t Ht. rewrite (EV r Hr), (EV t Ht), (EG r t Hr Ht). ring. }
    rewrite (rsum_ext rank (fun i0 => @mget R Rops B i0 i * @mget R Rops (@mat_T R Rops dk rank A) i0 i)
                           (fun r => @mget R Rops A i r * @cp_mttkrp R Rops X w facs k i r)).
    2:{ intros r Hr. rewrite (EV r Hr), (EB r Hr). ring. }
    rewrite (rsum_ext rank (fun i0 => @mget R Rops (@mat_T R Rops dk rank A) i0 i) (fun r => @mget R Rops A i r)) by (intros r Hr; now rewrite (EV r Hr)).
    rewrite (rsum_ext rank (fun i0 => @mget R Rops (@mat_T R Rops dk rank A) i0 i * @mget R Rops (@mat_T R Rops dk rank A) i0 i) (fun r => @mget R Rops A i r * @mget R Rops A i r))
      by (intros r Hr; now rewrite (EV r Hr)).
    replace (1 + 1) with 2 by ring. ring.
Qed.

(* n HALS passes on mode k (as non_negative_parafac_hals performs them) never increase the penalised CP objective *)
Theorem cp_hals_block_descent eps n : 0 <= l2 ->
  (forall i r, (i < dk)%nat -> (r < rank)%nat -> eps <= @mget R Rops (nth k facs []) i r) ->
  @cp_pen_obj R Rops X w (@cp_hals_block R Rops X w rank l1 l2 eps n facs k) k l1 l2 rank
  <= @cp_pen_obj R Rops X w facs k l1 l2 rank.
Proof.
  intros Hl2 Hfeas.
  set (V0 := @mat_T R Rops dk rank (nth k facs [])).
  assert (HGs : forall i j, @mget R Rops G i j = @mget R Rops G j i).
  { intros i j. unfold G, cp_G_mat. rewrite !mget_tab2. rewrite (andb_comm (j <? rank)%nat).
    destruct ((i <? rank)%nat && (j <? rank)%nat); [apply cp_G0_sym | reflexivity]. }
  assert (HGd : forall r, 0 <= @mget R Rops G r r).
  { intros r. unfold G, cp_G_mat. rewrite mget_tab2. destruct ((r <? rank)%nat && (r <? rank)%nat); [apply cp_G0_diag | lra]. }
  assert (HV0 : feasible eps rank dk V0).
  { intros r i Hr Hi. unfold V0, mat_T. rewrite mget_tab2_in by assumption. apply Hfeas; assumption. }
  assert (HL0 : length V0 = rank) by (unfold V0, mat_T; apply tab2_length).
  destruct (hals_iter_descent G B l1 l2 eps rank dk HGs HGd Hl2 n V0 HL0 HV0) as (_ & _ & Hd).
  unfold cp_hals_block. cbv zeta. unfold mat. cbn [f0 Rops]. fold s dk G B V0.
  rewrite cp_pen_obj_is_hals.
  replace (@cp_pen_obj R Rops X w facs k l1 l2 rank) with (@cp_pen_obj R Rops X w (set_nth k (nth k facs []) facs) k l1 l2 rank)
    by (now rewrite set_nth_nth_id).
  rewrite cp_pen_obj_is_hals. fold V0.
  rewrite (hals_obj_ext G B (@mat_T R Rops dk rank (@mat_T R Rops rank dk (@hals_iter R Rops G B l1 l2 eps rank dk n V0)))
                        (@hals_iter R Rops G B l1 l2 eps rank dk n V0)).
  - lra.
  - intros r c Hr Hc. unfold mat_T. rewrite mget_tab2_in by assumption. now rewrite mget_tab2_in.
Qed.
End Link.
