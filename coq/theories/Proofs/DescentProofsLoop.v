(* C07 -- "from the first sweep to termination": the outer loop with ANY stopping rule (Model/DescentLoop.v).
   Generic facts: the loop returns the state after m <= n_iter_max sweeps, m >= 1, m is the first iteration at which the rule fires (or
   n_iter_max), its history is the list of the reports of the iterates 1..m; hence, when every sweep descends at the visited states, the
   returned state is no worse than the initial one and the recorded history is non-increasing whatever the rule is.  The loop replayed on
   the recorded values alone (what the correspondence executes) stops after the same number of iterations.
   Instances: CPRegressor.fit / TuckerRegressor.fit (objective of the returned weights), parafac / tensor_ring_als / CMTF / PARAFAC2 / HOOI
   (reported histories). *)
From Coq Require Import Reals Lra List Arith Lia Bool.
From TLV Require Import Base.Shape Base.PyList Base.Tensor Base.Ops Base.RSum Model.Descent Model.DescentLoop
  Proofs.DescentProofs Proofs.DescentProofsOrth Proofs.DescentProofsTucker Proofs.DescentProofsSweeps Proofs.DescentProofsSweeps2.
Import ListNotations.
Open Scope R_scope.

Section LoopFacts.
Variables (St V : Type) (step : St -> St) (report : St -> V) (stop : nat -> list V -> bool).

Lemma iter_shift : forall m s, Nat.iter m step (step s) = Nat.iter (S m) step s.
Proof. induction m as [|m IH]; intros s; simpl; [reflexivity|]. f_equal. apply IH. Qed.

(* the reports of the iterates m, m-1, .., 1 (newest first) *)
Fixpoint reports (m : nat) (s : St) : list V :=
  match m with O => [] | S m' => report (Nat.iter (S m') step s) :: reports m' s end.
Lemma reports_length m s : length (reports m s) = m.
Proof. induction m as [|m IH]; simpl; [reflexivity|]. now rewrite IH. Qed.
Lemma reports_shift : forall m s, reports m (step s) ++ [report (step s)] = reports (S m) s.
Proof.
  induction m as [|m IH]; intros s; [reflexivity|].
  change (reports (S m) (step s)) with (report (Nat.iter (S m) step (step s)) :: reports m (step s)).
  rewrite <- app_comm_cons, IH, iter_shift. reflexivity.
Qed.
Lemma reports_nth : forall m s i d, (i < m)%nat -> nth i (reports m s) d = report (Nat.iter (m - i) step s).
Proof.
  induction m as [|m IH]; intros s i d Hi; [lia|].
  destruct i as [|i]; [reflexivity|]. change (nth (S i) (reports (S m) s) d) with (nth i (reports m s) d).
  rewrite IH by lia. reflexivity.
Qed.

(* what the loop computes *)
Theorem loop_spec : forall fuel it s hist, exists m : nat,
  (m <= fuel)%nat /\ ((0 < fuel)%nat -> (0 < m)%nat) /\
  loop St V step report stop fuel it s hist = (Nat.iter m step s, reports m s ++ hist) /\
  (forall i, (S i < m)%nat -> stop (it + i)%nat (reports (S i) s ++ hist) = false) /\
  ((m < fuel)%nat -> stop (it + (m - 1))%nat (reports m s ++ hist) = true).
Proof.
  induction fuel as [|fuel IH]; intros it s hist.
  - exists 0%nat. repeat split; try lia; reflexivity.
  - cbn [loop]. cbv zeta. destruct (stop it (report (step s) :: hist)) eqn:E.
    + exists 1%nat. repeat split; try lia; try reflexivity.
      intros _. simpl. rewrite Nat.add_0_r. exact E.
    + destruct (IH (S it) (step s) (report (step s) :: hist)) as (m & Hm & Hpos & Hl & Hf & Ht).
      assert (Happ : forall k, reports k (step s) ++ report (step s) :: hist = reports (S k) s ++ hist).
      { intros k. rewrite <- reports_shift, <- app_assoc. reflexivity. }
      exists (S m). repeat split; try lia.
      * rewrite Hl, iter_shift, Happ. reflexivity.
      * intros i Hi. destruct i as [|i].
        -- rewrite Nat.add_0_r. exact E.
        -- rewrite <- (Happ (S i)). replace (it + S i)%nat with (S it + i)%nat by lia. apply Hf. lia.
      * intros Hlt. destruct m as [|m].
        -- assert (0 < fuel)%nat by lia. specialize (Hpos H). lia.
        -- rewrite <- (Happ (S m)). replace (it + (S (S m) - 1))%nat with (S it + (S m - 1))%nat by lia. apply Ht. lia.
Qed.

(* the number of iterations is the length of the history; the returned state is the iterate of that index *)
Corollary run_loop_spec n s : exists m : nat, (m <= n)%nat /\ ((0 < n)%nat -> (0 < m)%nat) /\
  run_loop St V step report stop n s = (Nat.iter m step s, reports m s) /\
  (forall i, (S i < m)%nat -> stop i (reports (S i) s) = false) /\ ((m < n)%nat -> stop (m - 1)%nat (reports m s) = true).
Proof.
  destruct (loop_spec n 0 s []) as (m & H1 & H2 & H3 & H4 & H5). exists m. unfold run_loop.
  rewrite app_nil_r in H3. repeat split; try assumption.
  - intros i Hi. specialize (H4 i Hi). now rewrite app_nil_r in H4.
  - intros Hm. specialize (H5 Hm). now rewrite app_nil_r in H5.
Qed.

(* the same loop replayed on the reports alone: state = number of iterations done *)
Lemma loop_index : forall fuel it k hist s0,
  loop nat V S (fun i => report (Nat.iter i step s0)) stop fuel it k hist
  = (let r := loop St V step report stop fuel it (Nat.iter k step s0) hist in (k + (length (snd r) - length hist), snd r))%nat
  /\ fst (loop St V step report stop fuel it (Nat.iter k step s0) hist)
     = Nat.iter (fst (loop nat V S (fun i => report (Nat.iter i step s0)) stop fuel it k hist)) step s0.
Proof.
  induction fuel as [|fuel IH]; intros it k hist s0.
  - cbn [loop fst snd]. cbv zeta. cbn [fst snd]. split; [|reflexivity]. rewrite Nat.sub_diag, Nat.add_0_r. reflexivity.
  - cbn [loop]. cbv zeta. change (step (Nat.iter k step s0)) with (Nat.iter (S k) step s0).
    destruct (stop it (report (Nat.iter (S k) step s0) :: hist)) eqn:E.
    + cbn [fst snd length]. split; [|reflexivity]. f_equal. lia.
    + destruct (IH (S it) (S k) (report (Nat.iter (S k) step s0) :: hist) s0) as [H1 H2].
      rewrite H1. split; [|rewrite H2, H1; reflexivity]. cbv zeta.
      destruct (loop_spec fuel (S it) (Nat.iter (S k) step s0) (report (Nat.iter (S k) step s0) :: hist)) as (m & _ & _ & Hl & _).
      rewrite Hl. cbn [snd]. rewrite app_length, reports_length. cbn [length]. f_equal. lia.
Qed.
Lemma loop_nat_ext (r1 r2 : nat -> V) : forall fuel it k hist,
  (forall i, (k < i <= k + fuel)%nat -> r1 i = r2 i) ->
  loop nat V S r1 stop fuel it k hist = loop nat V S r2 stop fuel it k hist.
Proof.
  induction fuel as [|fuel IH]; intros it k hist H; [reflexivity|].
  simpl. rewrite (H (S k)) by lia. destruct (stop it (r2 (S k) :: hist)); [reflexivity|].
  apply IH. intros i Hi. apply H. lia.
Qed.
(* a tape that holds the reports of the iterates 1..n_iter_max (read with any default) replays the loop: same number of iterations,
   same history, and the returned state is the iterate of that index *)
Theorem tape_replay (n : nat) (s : St) (tape : list V) (d : V) :
  (forall i, (1 <= i <= n)%nat -> nth (i - 1) tape d = report (Nat.iter i step s)) ->
  let r := run_loop nat V S (fun i => nth (i - 1) tape d) stop n 0%nat in
  fst r = length (snd (run_loop St V step report stop n s)) /\ snd r = snd (run_loop St V step report stop n s) /\
  fst (run_loop St V step report stop n s) = Nat.iter (fst r) step s.
Proof.
  intros Htape. cbv zeta. unfold run_loop.
  rewrite (loop_nat_ext _ (fun i => report (Nat.iter i step s)) n 0 0 []) by (intros i Hi; apply Htape; lia).
  destruct (loop_index n 0 0 [] s) as [H1 H2]. simpl Nat.iter in H1, H2. rewrite H1. cbn [fst snd]. simpl length.
  split; [lia|]. split; [reflexivity|]. rewrite H2, H1. cbv zeta. cbn [fst length]. reflexivity.
Qed.
End LoopFacts.

(* ---------- descent through the loop, whatever the stopping rule ---------- *)
Section LoopDescent.
Variables (St V : Type) (step : St -> St) (report : St -> V) (stop : nat -> list V -> bool).
Variables (f : St -> R) (ok : St -> Prop).
Hypothesis Hstep : forall s, ok s -> f (step s) <= f s.

(* the state the loop returns is not worse than the initial one, and the states it visited form a non-increasing sequence *)
Theorem loop_final_descent n s : run_ok St step ok n s -> f (fst (run_loop St V step report stop n s)) <= f s.
Proof.
  intros Hok. destruct (run_loop_spec St V step report stop n s) as (m & Hm & _ & Hl & _). rewrite Hl. cbn [fst].
  exact (history_monotone St f step ok Hstep n s Hok 0%nat m (Nat.le_0_l m) Hm).
Qed.
Theorem loop_visited_monotone n s : run_ok St step ok n s -> exists m : nat, (m <= n)%nat /\ ((0 < n)%nat -> (0 < m)%nat) /\
  fst (run_loop St V step report stop n s) = Nat.iter m step s /\ length (snd (run_loop St V step report stop n s)) = m /\
  forall i j, (i <= j)%nat -> (j <= m)%nat -> f (Nat.iter j step s) <= f (Nat.iter i step s).
Proof.
  intros Hok. destruct (run_loop_spec St V step report stop n s) as (m & Hm & Hp & Hl & _). exists m. rewrite Hl. cbn [fst snd].
  repeat split; try assumption; [apply reports_length|].
  intros i j Hij Hj. apply (history_monotone St f step ok Hstep n s Hok); lia.
Qed.
End LoopDescent.

Section LoopReported.
Variables (St : Type) (step : St -> St) (report : St -> R) (stop : nat -> list R -> bool) (ok : St -> Prop).
Hypothesis Hstep : forall s, ok s -> report (step s) <= report s.
(* the recorded history (newest first): every entry is <= every older entry, and <= the value of the initial state *)
Theorem loop_history_nonincreasing n s : run_ok St step ok n s ->
  let h := snd (run_loop St R step report stop n s) in
  (forall i j, (i <= j)%nat -> (j < length h)%nat -> nth i h 0 <= nth j h 0) /\ (forall i, (i < length h)%nat -> nth i h 0 <= report s).
Proof.
  intros Hok. cbv zeta. destruct (run_loop_spec St R step report stop n s) as (m & Hm & _ & Hl & _). rewrite Hl. cbn [snd].
  rewrite reports_length. split.
  - intros i j Hij Hj. rewrite !reports_nth by lia. apply (history_monotone St report step ok Hstep n s Hok); lia.
  - intros i Hi. rewrite reports_nth by lia.
    exact (history_monotone St report step ok Hstep n s Hok 0%nat (m - i)%nat (Nat.le_0_l _) ltac:(lia)).
Qed.
End LoopReported.

(* ---------- instances ---------- *)
(* CPRegressor.fit (scalar responses): whatever the stopping rule does with the recorded norms of the weight tensor, the weights the fit
   returns have a ridge objective that is not above the one of the initial weights; it stops after 1 <= m <= n_iter_max sweeps *)
Theorem cpreg_fit_descent (Xsl : list (tensor R)) (ysl : list R) (sh : list nat) (w : list R) (rank : nat) (reg : R)
  (slv : list (list (list R)) -> nat -> list (list R)) (V : Type) (report : list (list (list R)) -> V) (stop : nat -> list V -> bool) :
  0 <= reg -> forall (modes : list nat) (facs : list (list (list R))) (n : nat),
  run_ok _ (cpreg_sweep slv modes) (cpreg_sweep_ok Xsl ysl sh w rank reg slv modes) n facs ->
  cpreg_obj_all Xsl ysl sh w rank reg (fst (run_loop _ V (cpreg_sweep slv modes) report stop n facs)) <= cpreg_obj_all Xsl ysl sh w rank reg facs.
Proof.
  intros Hreg modes facs n Hok.
  apply (loop_final_descent _ V (cpreg_sweep slv modes) report stop (cpreg_obj_all Xsl ysl sh w rank reg) (cpreg_sweep_ok Xsl ysl sh w rank reg slv modes)); [|exact Hok].
  intros s Hs. apply cpreg_sweep_descent; assumption.
Qed.
Theorem tkreg_fit_descent (Xsl : list (tensor R)) (ysl : list R) (sh rs : list nat) (reg : R)
  (slvF : list R -> list (list (list R)) -> nat -> list (list R)) (slvG : list R -> list (list (list R)) -> list R)
  (V : Type) (report : tkreg_state -> V) (stop : nat -> list V -> bool) :
  0 <= reg -> forall (bs : list (option nat)) (st : tkreg_state) (n : nat),
  run_ok _ (tkreg_sweep slvF slvG bs) (tkreg_sweep_ok Xsl ysl sh rs reg slvF slvG bs) n st ->
  tkreg_obj_all Xsl ysl sh rs reg (fst (run_loop _ V (tkreg_sweep slvF slvG bs) report stop n st)) <= tkreg_obj_all Xsl ysl sh rs reg st.
Proof.
  intros Hreg bs st n Hok.
  apply (loop_final_descent _ V (tkreg_sweep slvF slvG bs) report stop (tkreg_obj_all Xsl ysl sh rs reg) (tkreg_sweep_ok Xsl ysl sh rs reg slvF slvG bs)); [|exact Hok].
  intros s Hs. apply tkreg_sweep_descent; assumption.
Qed.

(* parafac (l2_reg = 0), with or without line search: the list of errors it returns, under ANY stopping rule *)
Theorem cp_loop_reported_nonincreasing (X : tensor R) (w : list R) (rank : nat) (solve : list (list R) -> list (list R) -> list (list R)) (modes : list nat)
  (jump : list (list (list R)) -> list (list (list R)) -> list (list (list R))) (stop : nat -> list R -> bool) (facs : list (list (list R))) (n : nat) :
  run_ok _ (cp_ls_iter X w rank solve modes jump) (sweep_ok X w 0 rank solve modes) n facs ->
  let h := snd (run_loop _ R (cp_ls_iter X w rank solve modes jump) (cp_rel_err X w rank) stop n facs) in
  (forall i j, (i <= j)%nat -> (j < length h)%nat -> nth i h 0 <= nth j h 0) /\ (forall i, (i < length h)%nat -> nth i h 0 <= cp_rel_err X w rank facs).
Proof.
  apply (loop_history_nonincreasing _ (cp_ls_iter X w rank solve modes jump) (cp_rel_err X w rank) stop (sweep_ok X w 0 rank solve modes)).
  intros s Hs. unfold cp_ls_iter. apply (ls_step_descent _ _ _ _ (sweep_ok X w 0 rank solve modes)); [|exact Hs].
  intros s' Hs'. apply cp_sweep_rel_descent. exact Hs'.
Qed.
(* coupled_matrix_tensor_3d_factorization: the list of errors it returns *)
Theorem cmtf_loop_reported_nonincreasing (X : tensor R) (Y : list (list R)) (w : list R) (q rank : nat)
  (lsV : list (list (list R)) -> list (list R) -> list (list R)) (solve : list (list R) -> list (list R) -> list (list R))
  (lsA : list (list (list R)) -> list (list R) -> list (list R)) (modes : list nat) (stop : nat -> list R -> bool) (st : cmtf_state) (n : nat) :
  run_ok _ (cmtf_iter X w rank lsV solve lsA modes) (cmtf_iter_ok X Y w q rank lsV solve lsA modes) n st ->
  let h := snd (run_loop _ R (cmtf_iter X w rank lsV solve lsA modes) (cmtf_f X Y w q rank) stop n st) in
  (forall i j, (i <= j)%nat -> (j < length h)%nat -> nth i h 0 <= nth j h 0) /\ (forall i, (i < length h)%nat -> nth i h 0 <= cmtf_f X Y w q rank st).
Proof.
  apply (loop_history_nonincreasing _ (cmtf_iter X w rank lsV solve lsA modes) (cmtf_f X Y w q rank) stop (cmtf_iter_ok X Y w q rank lsV solve lsA modes)).
  intros s Hs. apply cmtf_iter_descent; exact Hs.
Qed.
(* tensor_ring_als: the relative errors handed to the callback / used by the stopping rule *)
Theorem tr_loop_reported_nonincreasing (X : tensor R) (lsq : list (tensor R) -> nat -> tensor R) (dims : list nat) (stop : nat -> list R -> bool)
  (cs : list (tensor R)) (n : nat) :
  run_ok _ (tr_sweep lsq dims) (tr_sweep_ok X lsq dims) n cs ->
  let h := snd (run_loop _ R (tr_sweep lsq dims) (fun c => rel_err (normsq X) (@tr_sqerr R Rops X c)) stop n cs) in
  (forall i j, (i <= j)%nat -> (j < length h)%nat -> nth i h 0 <= nth j h 0) /\
  (forall i, (i < length h)%nat -> nth i h 0 <= rel_err (normsq X) (@tr_sqerr R Rops X cs)).
Proof.
  apply (loop_history_nonincreasing _ (tr_sweep lsq dims) (fun c => rel_err (normsq X) (@tr_sqerr R Rops X c)) stop (tr_sweep_ok X lsq dims)).
  intros s Hs. apply rel_err_monotone; [apply tr_sqerr_nonneg | apply tr_sweep_descent; exact Hs].
Qed.
(* parafac2, with or without line search *)
Theorem p2_loop_reported_nonincreasing (I : nat) (J : nat -> nat) (R' K : nat) (X : nat -> fmat) (Th : Type) (Mof proj : Th -> nat -> fmat)
  (cpstep : (nat -> fmat) -> Th -> Th) (normX2 : R) (jump : p2_state Th -> p2_state Th -> p2_state Th) (stop : nat -> list R -> bool)
  (st : p2_state Th) (n : nat) :
  run_ok _ (ls_step _ (p2_rel_err I J R' K X Th Mof normX2) (p2_iter Th proj cpstep) jump) (p2_iter_ok I J R' K X Th Mof proj cpstep) n st ->
  let h := snd (run_loop _ R (ls_step _ (p2_rel_err I J R' K X Th Mof normX2) (p2_iter Th proj cpstep) jump) (p2_rel_err I J R' K X Th Mof normX2) stop n st) in
  (forall i j, (i <= j)%nat -> (j < length h)%nat -> nth i h 0 <= nth j h 0) /\
  (forall i, (i < length h)%nat -> nth i h 0 <= p2_rel_err I J R' K X Th Mof normX2 st).
Proof.
  apply (loop_history_nonincreasing _ (ls_step _ (p2_rel_err I J R' K X Th Mof normX2) (p2_iter Th proj cpstep) jump) (p2_rel_err I J R' K X Th Mof normX2) stop
           (p2_iter_ok I J R' K X Th Mof proj cpstep)).
  intros s Hs. apply (ls_step_descent _ _ _ _ (p2_iter_ok I J R' K X Th Mof proj cpstep)); [|exact Hs].
  intros s' Hs'. apply p2_iter_rel_descent. exact Hs'.
Qed.

(* HOOI (tucker / partial_tucker): the list of errors partial_tucker returns, under any stopping rule; the factors have orthonormal columns at the visited
   states (init='svd', or from the second state on for any init: Proofs/DescentProofsR6.v) *)
Theorem hooi_loop_reported_nonincreasing (X : tensor R) (rs : list nat) (svd : list (list (list R)) -> nat -> list (list R)) (modes : list nat)
  (stop : nat -> list R -> bool) (Us : list (list (list R))) (n : nat) :
  run_ok _ (hooi_sweep svd modes)
    (fun U => hooi_sweep_ok X rs svd modes U /\ orth_all (shape X) rs U /\ orth_all (shape X) rs (hooi_sweep svd modes U)) n Us ->
  let h := snd (run_loop _ R (hooi_sweep svd modes) (tk_reported X rs) stop n Us) in
  (forall i j, (i <= j)%nat -> (j < length h)%nat -> nth i h 0 <= nth j h 0) /\ (forall i, (i < length h)%nat -> nth i h 0 <= tk_reported X rs Us).
Proof.
  apply (loop_history_nonincreasing _ (hooi_sweep svd modes) (tk_reported X rs) stop
           (fun U => hooi_sweep_ok X rs svd modes U /\ orth_all (shape X) rs U /\ orth_all (shape X) rs (hooi_sweep svd modes U))).
  intros s (Hs & Ho & Ho'). unfold tk_reported.
  rewrite <- !(DescentProofsTucker.tucker_residual X rs) by assumption. fold (normsq X).
  apply rel_err_monotone; [apply tk_obj_nonneg | apply hooi_sweep_descent; exact Hs].
Qed.

(* ---------- the stopping tests of the code, read as propositions over R (target of the static tie of the stopping rules) ---------- *)
Definition stop_prop (k : stop_kind) (tol a b f : R) : Prop :=
  match k with
  | AbsDiffLt => Rabs (b - a) < tol
  | DiffLt => b - a < tol
  | RelNewLe => Rabs (a - b) / a <= tol
  | RelOldLeOrSmall => Rabs (a - b) / b <= tol \/ a < tol
  | RelFirstLt => a < tol * f
  end.
Lemma Rleb_true a b : Rleb a b = true <-> a <= b.
Proof. unfold Rleb. destruct (Rle_dec a b); split; intros; try assumption; try reflexivity; try discriminate; contradiction. Qed.
Lemma Rltb_true a b : fltb Rops a b = true <-> a < b.
Proof.
  unfold fltb. cbn [fleb Rops]. unfold Rleb. destruct (Rle_dec b a); simpl; split; intros H; try discriminate; try reflexivity; lra.
Qed.
Lemma fabs_Rabs a : fabs Rops a = Rabs a.
Proof.
  unfold fabs. cbn [fleb f0 fopp Rops]. unfold Rleb. destruct (Rle_dec 0 a).
  - now rewrite Rabs_pos_eq.
  - rewrite Rabs_left by lra. reflexivity.
Qed.
Theorem stop_test_spec k tol a b f : stop_test Rops k tol a b f = true <-> stop_prop k tol a b f.
Proof.
  destruct k; unfold stop_test, stop_prop; rewrite ?fabs_Rabs; cbn [fsub fdiv fmul fleb Rops].
  - apply Rltb_true.
  - apply Rltb_true.
  - apply Rleb_true.
  - rewrite orb_true_iff, Rleb_true, Rltb_true. reflexivity.
  - apply Rltb_true.
Qed.
