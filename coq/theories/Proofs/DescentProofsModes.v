(* C07 -- properties of the list of updated modes: every entry is a mode of the tensor, the list is increasing, and for parafac its LAST
   entry is the last mode of the tensor - the MTTKRP left over from a sweep is the one error_calc contracts with factors[-1]. *)
From Coq Require Import List Arith Bool Lia.
From TLV Require Import Model.DescentModes.
Import ListNotations.

Lemma memb_fixed_eff_last n fixed : memb (n - 1) (cp_fixed_eff n fixed) = false.
Proof.
  unfold memb, cp_fixed_eff. induction fixed as [|f l IH]; simpl; [reflexivity|].
  destruct (Nat.eqb_spec f (n - 1)) as [E|E]; simpl; [exact IH|].
  destruct (Nat.eqb_spec (n - 1) f); [congruence | exact IH].
Qed.

(* every updated mode is a mode of the tensor, and the LAST updated mode is the last mode of the tensor: the MTTKRP left over from the
   sweep is the one of mode n-1, which is what error_calc contracts with factors[-1] *)
Theorem cp_modes_lt n fixed m : In m (cp_modes_list n fixed) -> m < n.
Proof. unfold cp_modes_list. intros H. apply filter_In in H. destruct H as [H _]. apply in_seq in H. lia. Qed.
Theorem cp_modes_last n fixed : 0 < n -> last (cp_modes_list n fixed) 0 = n - 1.
Proof.
  intros Hn. unfold cp_modes_list.
  assert (E : seq 0 n = seq 0 (n - 1) ++ [n - 1]).
  { replace n with (S (n - 1)) at 1 by lia. now rewrite seq_S. }
  rewrite E, filter_app. cbn [filter].
  rewrite memb_fixed_eff_last. cbn [negb]. apply last_last.
Qed.
Lemma filter_seq_increasing (p : nat -> bool) : forall n a i j, i < j -> j < length (filter p (seq a n)) ->
  nth i (filter p (seq a n)) 0 < nth j (filter p (seq a n)) 0.
Proof.
  induction n as [|n IH]; intros a i j Hij Hj; [simpl in Hj; lia|].
  cbn [seq filter] in *. destruct (p a).
  - cbn [length] in Hj. destruct j as [|j]; [lia|]. destruct i as [|i]; cbn [nth].
    + assert (H : In (nth j (filter p (seq (S a) n)) 0) (filter p (seq (S a) n))) by (apply nth_In; lia).
      apply filter_In in H. destruct H as [H _]. apply in_seq in H. lia.
    + apply IH; lia.
  - apply IH; lia.
Qed.
Theorem cp_modes_increasing n fixed : forall i j, i < j -> j < length (cp_modes_list n fixed) ->
  nth i (cp_modes_list n fixed) 0 < nth j (cp_modes_list n fixed) 0.
Proof. unfold cp_modes_list. apply filter_seq_increasing. Qed.
Theorem nn_modes_lt n fixed m : In m (nn_modes_list n fixed) -> m < n.
Proof. unfold nn_modes_list. intros H. apply filter_In in H. destruct H as [H _]. apply in_seq in H. lia. Qed.
