(* C07 -- whole sweeps of non_negative_parafac_hals: exact solves on the unconstrained modes, HALS passes on the
   non-negative ones; objective = half the squared error + the l1 terms of the non-negative modes. *)
From Coq Require Import Reals Lra Psatz List Arith Lia RealField Bool.
From TLV Require Import Base.Shape Base.PyList Base.Tensor Base.Ops Base.BigSum Base.RSum Model.Descent
  Proofs.DescentProofs Proofs.DescentProofsHals Proofs.DescentProofsLink.
Import ListNotations.
Open Scope R_scope.

Section NN.
Variables (X : tensor R) (w : list R) (rank : nat) (l1s : list R) (eps : R).
Variable solve : list (list R) -> list (list R) -> list (list R).
Let s := shape X.

Lemma nn_obj_split (facs : list (list (list R))) k : (k < length s)%nat ->
  @nn_obj R Rops X w facs l1s rank
  = @cp_pen_obj R Rops X w facs k (nth k l1s 0) 0 rank
    + rsum (length s) (fun j => if Nat.eqb j k then 0 else nth j l1s 0 * @fac_sum R Rops (nth j facs []) (nth j s 0%nat) rank).
Proof.
  intros Hk. unfold nn_obj, cp_pen_obj, fac_sum, vget, fsq, two, mat. cbv zeta. rewrite !gsum_rsum_fun. cbn [fadd fmul fdiv f0 f1 Rops]. fold s.
  rewrite (rsum_split _ k) by exact Hk. ring.
Qed.

Lemma nn_rest_set (facs : list (list (list R))) k (A : list (list R)) :
  rsum (length s) (fun j => if Nat.eqb j k then 0 else nth j l1s 0 * @fac_sum R Rops (nth j (set_nth k A facs) []) (nth j s 0%nat) rank)
  = rsum (length s) (fun j => if Nat.eqb j k then 0 else nth j l1s 0 * @fac_sum R Rops (nth j facs []) (nth j s 0%nat) rank).
Proof.
  apply rsum_ext; intros j _. destruct (Nat.eqb_spec j k) as [E|E]; [reflexivity|]. now rewrite nth_set_nth_other.
Qed.

Lemma pen_obj_l0 (facs : list (list (list R))) k : @cp_pen_obj R Rops X w facs k 0 0 rank = @cp_sqerr R Rops X w facs rank / 2.
Proof. unfold cp_pen_obj, two. cbv zeta. cbn [fadd fmul fdiv f1 Rops]. replace (1 + 1) with 2 by ring. ring. Qed.

Lemma cp_obj_lam0 (facs : list (list (list R))) k : @cp_obj R Rops X w facs k 0 rank = @cp_sqerr R Rops X w facs rank.
Proof. unfold cp_obj. cbn [fadd fmul Rops]. ring. Qed.

(* side condition of one block at the state where it is executed *)
Definition nn_block_ok (facs : list (list (list R))) (kb : nat * blockkind) : Prop :=
  let k := fst kb in
  (k < length s)%nat /\ (k < length facs)%nat /\
  match snd kb with
  | BSolve => nth k l1s 0 = 0 /\
      forall i r, (i < nth k s 0)%nat -> (r < rank)%nat ->
        @cp_cert_lhs R Rops s w facs k 0 rank (solve (@cp_G_mat R Rops s w facs k 0 rank) (@cp_mttkrp_mat R Rops X w facs k rank)) i r
        = @cp_mttkrp R Rops X w facs k i r
  | BHals _ => forall i r, (i < nth k s 0)%nat -> (r < rank)%nat -> eps <= @mget R Rops (nth k facs []) i r
  end.

Theorem nn_block_descent facs kb : nn_block_ok facs kb ->
  @nn_obj R Rops X w (@nn_block R Rops solve X w rank l1s eps facs kb) l1s rank <= @nn_obj R Rops X w facs l1s rank.
Proof.
  destruct kb as [k b]. unfold nn_block_ok, nn_block. cbn [fst snd]. intros (Hk & Hf & Hb).
  rewrite (nn_obj_split _ k Hk), (nn_obj_split facs k Hk).
  destruct b as [|n].
  - destruct Hb as (Hl & Hc). unfold cp_block. cbn [f0 Rops]. rewrite nn_rest_set. rewrite Hl, !pen_obj_l0.
    pose proof (cp_block_descent X w 0 rank facs k _ Hk Hf (Rle_refl 0) Hc) as H. rewrite !cp_obj_lam0 in H. unfold s, mat in *. lra.
  - unfold cp_hals_block. cbv zeta. rewrite nn_rest_set.
    pose proof (cp_hals_block_descent X w facs k rank (nth k l1s 0) 0 Hk Hf eps n (Rle_refl 0) Hb) as H.
    unfold cp_hals_block in H. cbv zeta in H. unfold vget. cbn [f0 Rops] in *. unfold s, mat in *. lra.
Qed.

Fixpoint nn_sweep_ok (blocks : list (nat * blockkind)) (facs : list (list (list R))) : Prop :=
  match blocks with
  | [] => True
  | kb :: bs => nn_block_ok facs kb /\ nn_sweep_ok bs (@nn_block R Rops solve X w rank l1s eps facs kb)
  end.

Theorem nn_sweep_descent blocks : forall facs, nn_sweep_ok blocks facs ->
  @nn_obj R Rops X w (@nn_sweep R Rops solve X w rank l1s eps blocks facs) l1s rank <= @nn_obj R Rops X w facs l1s rank.
Proof.
  induction blocks as [|kb bs IH]; intros facs Hok; [cbn; lra|].
  destruct Hok as (Hb & Hrest). cbn [nn_sweep fold_left].
  change (@nn_obj R Rops X w (@nn_sweep R Rops solve X w rank l1s eps bs (@nn_block R Rops solve X w rank l1s eps facs kb)) l1s rank
          <= @nn_obj R Rops X w facs l1s rank).
  eapply Rle_trans; [apply IH; exact Hrest | apply nn_block_descent; exact Hb].
Qed.

Theorem nn_history_monotone blocks facs n :
  run_ok _ (@nn_sweep R Rops solve X w rank l1s eps blocks) (nn_sweep_ok blocks) n facs ->
  forall i j, (i <= j)%nat -> (j <= n)%nat ->
  @nn_obj R Rops X w (Nat.iter j (@nn_sweep R Rops solve X w rank l1s eps blocks) facs) l1s rank
  <= @nn_obj R Rops X w (Nat.iter i (@nn_sweep R Rops solve X w rank l1s eps blocks) facs) l1s rank.
Proof.
  intros Hok. apply (history_monotone _ (fun f => @nn_obj R Rops X w f l1s rank) _ (nn_sweep_ok blocks)); [|exact Hok].
  intros f0 Hf0. now apply nn_sweep_descent.
Qed.
End NN.
