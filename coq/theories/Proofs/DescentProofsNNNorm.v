(* C07 -- non_negative_parafac_hals(normalize_factors=True): cp_normalize is applied INSIDE the sweep, after every block but the last
   (decomposition/_nn_cp.py), so the weights change between the blocks.  Without sparsity the normalisation leaves the squared error
   unchanged (C07_cp_normalize_invariant), hence sweeps with in-sweep renormalisation never increase ||X - [[w; A..]]||^2.
   (With sparsity the renormalisation changes the l1 term: not covered.) *)
From Coq Require Import Reals Lra Psatz List Arith Lia RealField Bool.
From TLV Require Import Base.Shape Base.PyList Base.Tensor Base.Ops Base.BigSum Base.RSum Model.Descent
  Proofs.DescentProofs Proofs.DescentProofsLink Proofs.DescentProofsNorm Proofs.DescentProofsNN Proofs.DescentProofsSweeps.
Import ListNotations.
Open Scope R_scope.

Section NNNorm.
Variables (X : tensor R) (rank : nat) (eps : R) (l1s : list R).
Variable solve : list (list R) -> list (list R) -> list (list R).
Variable norms : nat -> @cpstate R -> list R * list R.
Hypothesis Hl1 : forall j, nth j l1s 0 = 0.           (* no sparsity *)

Lemma nn_obj_l0 (w : list R) (facs : list (list (list R))) : @nn_obj R Rops X w facs l1s rank = @cp_sqerr R Rops X w facs rank / 2.
Proof.
  unfold nn_obj, two, vget. rewrite gsum_rsum_fun. cbn [fadd fmul fdiv f0 f1 Rops].
  rewrite (rsum_zero (length (shape X))) by (intros j _; rewrite Hl1; ring). replace (1 + 1) with 2 by ring. ring.
Qed.

(* a block followed (flag) by the renormalisation of the whole state *)
Definition nnn_block (st : @cpstate R) (b : (nat * blockkind) * bool) : @cpstate R :=
  let st1 := (fst st, @nn_block R Rops solve X (fst st) rank l1s eps (snd st) (fst b)) in
  if snd b then @cp_normalize_m R Rops (shape X) rank norms st1 else st1.
Definition nnn_block_ok (st : @cpstate R) (b : (nat * blockkind) * bool) : Prop :=
  let st1 := (fst st, @nn_block R Rops solve X (fst st) rank l1s eps (snd st) (fst b)) in
  nn_block_ok X (fst st) rank l1s eps solve (snd st) (fst b) /\
  (snd b = true -> (0 < length (shape X))%nat /\ length (snd st1) = length (shape X) /\
     normalize_ok X rank norms (seq 0 (length (shape X))) (@cp_absorb0 R Rops (shape X) rank st1)).

Lemma nnn_block_descent st b : nnn_block_ok st b -> sq X rank (nnn_block st b) <= sq X rank st.
Proof.
  destruct st as [w facs]. destruct b as [kb fl]. unfold nnn_block_ok, nnn_block. cbn [fst snd]. cbv zeta. intros [Hb Hn].
  pose proof (nn_block_descent X w rank l1s eps solve facs kb Hb) as H. rewrite !nn_obj_l0 in H.
  destruct fl.
  - destruct (Hn eq_refl) as (Hs & Hlen & Hok).
    rewrite (cp_normalize_invariant X rank norms (w, @nn_block R Rops solve X w rank l1s eps facs kb) Hs Hlen Hok). unfold sq. cbn [fst snd]. lra.
  - unfold sq. cbn [fst snd]. lra.
Qed.

Definition nnn_sweep (bs : list ((nat * blockkind) * bool)) (st : @cpstate R) : @cpstate R := fold_left nnn_block bs st.
Definition nnn_sweep_ok := fold_ok _ _ nnn_block nnn_block_ok.
Theorem nnn_sweep_descent bs st : nnn_sweep_ok bs st -> sq X rank (nnn_sweep bs st) <= sq X rank st.
Proof. apply (fold_descent _ _ (sq X rank) nnn_block nnn_block_ok nnn_block_descent). Qed.
Theorem nnn_history_monotone bs st n : run_ok _ (nnn_sweep bs) (nnn_sweep_ok bs) n st ->
  forall i j, (i <= j)%nat -> (j <= n)%nat -> sq X rank (Nat.iter j (nnn_sweep bs) st) <= sq X rank (Nat.iter i (nnn_sweep bs) st).
Proof. apply (history_monotone _ (sq X rank) (nnn_sweep bs) (nnn_sweep_ok bs)). intros s Hs. apply nnn_sweep_descent; exact Hs. Qed.
End NNNorm.
