(* C07 -- parafac(normalize_factors=True): cp_normalize leaves the squared error unchanged (every order, rank, zero
   columns and zero weights included), hence normalised ALS sweeps still have non-increasing objective histories. *)
From Coq Require Import Reals Lra Psatz List Arith Lia RealField Bool.
From TLV Require Import Base.Shape Base.PyList Base.Tensor Base.Ops Base.BigSum Base.RSum Model.Descent
  Proofs.DescentProofs Proofs.DescentProofsLink.
Import ListNotations.
Open Scope R_scope.

Lemma nth_map_seq (f : nat -> R) n r : (r < n)%nat -> nth r (map f (seq 0 n)) 0 = f r.
Proof. intros H. rewrite (nth_map' _ _ _ 0%nat) by (now rewrite seq_length). now rewrite seq_nth. Qed.

Section Reweight.
Variables (X : tensor R) (rank : nat).
Let s := shape X.

(* replacing factor k and the weights so that every product weight * entry is kept leaves the squared error unchanged *)
Theorem cp_sqerr_reweight (w w' : list R) (facs : list (list (list R))) k (A' : list (list R)) : (k < length s)%nat -> (k < length facs)%nat ->
  (forall i r, (i < nth k s 0)%nat -> (r < rank)%nat ->
     @vget R Rops w' r * @mget R Rops A' i r = @vget R Rops w r * @mget R Rops (nth k facs []) i r) ->
  @cp_sqerr R Rops X w' (set_nth k A' facs) rank = @cp_sqerr R Rops X w facs rank.
Proof.
  intros Hk Hf H. unfold cp_sqerr. rewrite !gsum_rsum_fun. fold s. apply rsum_ext; intros o Ho.
  pose proof (unravel_inb s o Ho) as Hin. pose proof (inb_length _ _ Hin) as Hl.
  pose proof (inb_nth_lt k _ _ Hin Hk) as Hlt.
  f_equal. f_equal. unfold cp_rec. rewrite !gsum_rsum_fun. apply rsum_ext; intros r Hr. cbn [fmul Rops].
  rewrite (cp_term_set X facs k Hk Hf A' r _ Hl).
  rewrite <- (set_nth_nth_id [] k facs) at 2.
  rewrite (cp_term_set X facs k Hk Hf (nth k facs []) r _ Hl).
  rewrite <- !Rmult_assoc. now rewrite (H _ r Hlt Hr).
Qed.

Definition sq (st : @cpstate R) : R := @cp_sqerr R Rops X (fst st) (snd st) rank.

Lemma absorb0_invariant st : (0 < length s)%nat -> (0 < length (snd st))%nat ->
  sq (@cp_absorb0 R Rops s rank st) = sq st.
Proof.
  intros Hs Hf. unfold sq, cp_absorb0. cbn [fst snd]. apply cp_sqerr_reweight; auto.
  intros i r Hi Hr. rewrite mget_tab2_in by assumption. unfold vget. rewrite nth_map_seq by exact Hr. cbn [fmul f1 f0 Rops]. unfold mat. ring.
Qed.

(* contract of the norms handed to one rescaling: the divisor is non-zero; it is the multiplier, except for a zero
   column, where the multiplier is 0 *)
Definition scales_ok (sc scnz : list R) (k : nat) (st : @cpstate R) : Prop :=
  forall r, (r < rank)%nat -> nth r scnz 0 <> 0 /\
    (nth r sc 0 = nth r scnz 0 \/ (nth r sc 0 = 0 /\ forall i, (i < nth k s 0)%nat -> @mget R Rops (nth k (snd st) []) i r = 0)).

Lemma scale_mode_invariant sc scnz k st : (k < length s)%nat -> (k < length (snd st))%nat -> scales_ok sc scnz k st ->
  sq (@cp_scale_mode R Rops s rank sc scnz k st) = sq st.
Proof.
  intros Hk Hf Hok. unfold sq, cp_scale_mode. cbn [fst snd]. apply cp_sqerr_reweight; auto.
  intros i r Hi Hr. rewrite mget_tab2_in by assumption. unfold vget. rewrite nth_map_seq by exact Hr. cbn [fmul fdiv f0 Rops]. unfold mat in *.
  destruct (Hok r Hr) as (Hnz & [E | (E0 & Hz)]).
  - rewrite E. field. exact Hnz.
  - unfold mat in Hz. rewrite E0, (Hz i Hi). field. exact Hnz.
Qed.

Lemma scale_mode_length sc scnz k st : length (snd (@cp_scale_mode R Rops s rank sc scnz k st)) = length (snd st).
Proof. unfold cp_scale_mode. cbn [snd]. apply set_nth_length. Qed.

Variable norms : nat -> @cpstate R -> list R * list R.
Fixpoint normalize_ok (modes : list nat) (st : @cpstate R) : Prop :=
  match modes with
  | [] => True
  | k :: ms => (k < length s)%nat /\ scales_ok (fst (norms k st)) (snd (norms k st)) k st /\
               normalize_ok ms (@cp_scale_mode R Rops s rank (fst (norms k st)) (snd (norms k st)) k st)
  end.

Lemma normalize_modes_invariant modes : forall st, length (snd st) = length s -> normalize_ok modes st ->
  sq (@cp_normalize_modes R Rops s rank norms modes st) = sq st.
Proof.
  induction modes as [|k ms IH]; intros st Hlen Hok; [reflexivity|].
  destruct Hok as (Hk & Hsc & Hrest). cbn [cp_normalize_modes fold_left].
  change (sq (@cp_normalize_modes R Rops s rank norms ms (@cp_scale_mode R Rops s rank (fst (norms k st)) (snd (norms k st)) k st)) = sq st).
  rewrite IH; [| now rewrite scale_mode_length | exact Hrest].
  apply scale_mode_invariant; [exact Hk | now rewrite Hlen | exact Hsc].
Qed.

(* cp_normalize leaves the squared error unchanged *)
Theorem cp_normalize_invariant st : (0 < length s)%nat -> length (snd st) = length s ->
  normalize_ok (seq 0 (length s)) (@cp_absorb0 R Rops s rank st) ->
  sq (@cp_normalize_m R Rops s rank norms st) = sq st.
Proof.
  intros Hs Hlen Hok. unfold cp_normalize_m.
  rewrite normalize_modes_invariant; [| unfold cp_absorb0; cbn [snd]; now rewrite set_nth_length | exact Hok].
  apply absorb0_invariant; [exact Hs | now rewrite Hlen].
Qed.

(* one iteration of parafac(normalize_factors=True), l2_reg = 0: blocks with the current weights, then cp_normalize *)
Variable solve : list (list R) -> list (list R) -> list (list R).
Definition sweep_norm_ok (modes : list nat) (st : @cpstate R) : Prop :=
  (0 < length s)%nat /\ length (snd st) = length s /\
  sweep_ok X (fst st) 0 rank solve modes (snd st) /\
  normalize_ok (seq 0 (length s)) (@cp_absorb0 R Rops s rank (fst st, @cp_sweep R Rops solve X (fst st) 0 rank modes (snd st))).

Lemma cp_sweep_length w modes : forall facs, length (@cp_sweep R Rops solve X w 0 rank modes facs) = length facs.
Proof.
  induction modes as [|k ms IH]; intros facs; [reflexivity|]. cbn [cp_sweep fold_left].
  change (length (@cp_sweep R Rops solve X w 0 rank ms (@cp_block R Rops solve X w 0 rank facs k)) = length facs).
  rewrite IH. unfold cp_block. apply set_nth_length.
Qed.

Lemma cp_obj_all_lam0 w facs : @cp_obj_all R Rops X w facs 0 rank = @cp_sqerr R Rops X w facs rank.
Proof. unfold cp_obj_all. cbn [fadd fmul Rops]. ring. Qed.

Theorem cp_sweep_norm_descent modes st : sweep_norm_ok modes st ->
  sq (@cp_sweep_norm R Rops solve X 0 rank norms modes st) <= sq st.
Proof.
  intros (Hs & Hlen & Hsw & Hno). unfold cp_sweep_norm. fold s.
  rewrite cp_normalize_invariant; [| exact Hs | cbn [snd]; now rewrite cp_sweep_length | exact Hno].
  unfold sq. cbn [fst snd]. rewrite <- !cp_obj_all_lam0.
  apply cp_sweep_descent; [lra | exact Hsw].
Qed.

Theorem cp_norm_history_monotone modes st n :
  run_ok _ (@cp_sweep_norm R Rops solve X 0 rank norms modes) (sweep_norm_ok modes) n st ->
  forall i j, (i <= j)%nat -> (j <= n)%nat ->
  sq (Nat.iter j (@cp_sweep_norm R Rops solve X 0 rank norms modes) st) <= sq (Nat.iter i (@cp_sweep_norm R Rops solve X 0 rank norms modes) st).
Proof.
  intros Hok. apply (history_monotone _ sq _ (sweep_norm_ok modes)); [|exact Hok].
  intros s0 Hs0. now apply cp_sweep_norm_descent.
Qed.
End Reweight.
