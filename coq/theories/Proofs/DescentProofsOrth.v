(* C07 -- the two projection blocks whose optimality rests on classical spectral results:
   HOOI (decomposition/_tucker.py:partial_tucker: leading left singular vectors of the partially projected
   tensor) and PARAFAC2 (decomposition/_parafac2.py:_compute_projections: polar factor U Vh of an SVD).
   Proved here: the algebra around them for matrices with orthonormal columns (Pythagoras / isometry);
   Ky Fan's maximum principle resp. the orthogonal Procrustes optimality enter as named hypotheses. *)
From Coq Require Import Reals Lra Psatz List Arith Lia RealField Bool.
From TLV Require Import Base.RSum Proofs.DescentProofs Proofs.DescentProofsLink.
Open Scope R_scope.

Definition fmat := nat -> nat -> R.
Definition frob2 (m p : nat) (Y : fmat) : R := rsum m (fun i => rsum p (fun c => (Y i c)^2)).
Definition mmul (n : nat) (A B : fmat) : fmat := fun i c => rsum n (fun j => A i j * B j c).
Definition mT (A : fmat) : fmat := fun i j => A j i.
Definition msub (A B : fmat) : fmat := fun i c => A i c - B i c.
Definition minner (m p : nat) (A B : fmat) : R := rsum m (fun i => rsum p (fun c => A i c * B i c)).
(* U (m x r) has orthonormal columns *)
Definition orthonormal (m r : nat) (U : fmat) : Prop :=
  forall a b, (a < r)%nat -> (b < r)%nat -> rsum m (fun i => U i a * U i b) = delta a b.

Lemma frob2_cols m p Y : frob2 m p Y = rsum p (fun c => rsum m (fun i => (Y i c)^2)).
Proof. unfold frob2. apply rsum_exchange. Qed.

Section Orth.
Variables (m r : nat) (U : fmat).
Hypothesis HU : orthonormal m r U.

(* ||U c||^2 = ||c||^2 *)
Lemma orth_isometry_vec (c : nat -> R) : rsum m (fun i => (Av r U c i)^2) = rsum r (fun j => (c j)^2).
Proof.
  pose proof (ls_expand m r U (fun _ => 0) c) as H. cbv beta in H.
  rewrite (rsum_ext m (fun i => (0 - Av r U c i)^2) (fun i => (Av r U c i)^2)) in H by (intros; ring).
  rewrite H.
  rewrite (rsum_zero m (fun _ => 0^2)) by (intros; ring).
  rewrite (rsum_zero r (fun j => c j * rsum m (fun i => U i j * 0))).
  2:{ intros j _. rewrite (rsum_zero m) by (intros; ring). ring. }
  rewrite (rsum_ext r _ (fun j => (c j)^2)); [ring|].
  intros j Hj.
  rewrite (rsum_ext r _ (fun t => delta j t * (c j * c t))) by (intros t Ht; rewrite (HU j t Hj Ht); ring).
  rewrite rsum_delta by exact Hj. ring.
Qed.

(* Pythagoras for the orthogonal projection on the column space:  ||y - U U'y||^2 = ||y||^2 - ||U'y||^2 *)
Lemma orth_pythagoras_vec (y : nat -> R) :
  let c := fun j => rsum m (fun i => U i j * y i) in
  rsum m (fun i => (y i - Av r U c i)^2) = rsum m (fun i => (y i)^2) - rsum r (fun j => (c j)^2).
Proof.
  intros c. rewrite ls_expand.
  rewrite (rsum_ext r (fun j => c j * rsum m (fun i => U i j * y i)) (fun j => (c j)^2)) by (intros; unfold c; ring).
  rewrite (rsum_ext r (fun j => rsum r (fun t => c j * c t * rsum m (fun i => U i j * U i t))) (fun j => (c j)^2)).
  - ring.
  - intros j Hj.
    rewrite (rsum_ext r _ (fun t => delta j t * (c j * c t))) by (intros t Ht; rewrite (HU j t Hj Ht); ring).
    rewrite rsum_delta by exact Hj. ring.
Qed.
End Orth.

(* ---------- HOOI block ---------- *)
(* residual of projecting the columns of Y (m x p) on the span of U:  ||Y - U U'Y||_F^2 = ||Y||_F^2 - ||U'Y||_F^2 *)
Theorem hooi_residual m r p (U Y : fmat) : orthonormal m r U ->
  frob2 m p (msub Y (mmul r U (mmul m (mT U) Y))) = frob2 m p Y - frob2 r p (mmul m (mT U) Y).
Proof.
  intros HU. rewrite !frob2_cols. rewrite <- rsum_sub. apply rsum_ext; intros c _.
  pose proof (orth_pythagoras_vec m r U HU (fun i => Y i c)) as H. cbv zeta beta in H.
  unfold msub, mmul, mT. unfold Av in H. exact H.
Qed.

(* with Ky Fan's maximum principle for the answer of the SVD as hypothesis, the HOOI update of one factor does not
   increase the residual of the partially projected tensor (Y = unfolding of X x_{j<>k} U_j') *)
Theorem hooi_block_descent_partial m r p (Uold Unew Y : fmat) :
  orthonormal m r Uold -> orthonormal m r Unew ->
  (* Ky Fan: the r leading left singular vectors maximise ||W'Y||_F over the matrices with orthonormal columns *)
  (forall W, orthonormal m r W -> frob2 r p (mmul m (mT W) Y) <= frob2 r p (mmul m (mT Unew) Y)) ->
  frob2 m p (msub Y (mmul r Unew (mmul m (mT Unew) Y))) <= frob2 m p (msub Y (mmul r Uold (mmul m (mT Uold) Y))).
Proof.
  intros Ho Hn HK. rewrite !hooi_residual by assumption. specialize (HK Uold Ho). lra.
Qed.

(* ---------- PARAFAC2 projection block ---------- *)
(* for P (J x R) with orthonormal columns and M (R x K):  ||X - P M||^2 = ||X||^2 - 2 <P, X M'> + ||M||^2 *)
Theorem parafac2_residual J R' K (P X M : fmat) : orthonormal J R' P ->
  frob2 J K (msub X (mmul R' P M)) = frob2 J K X - 2 * minner J R' P (mmul K X (mT M)) + frob2 R' K M.
Proof.
  intros HP. rewrite !frob2_cols.
  assert (E : minner J R' P (mmul K X (mT M)) = rsum K (fun c => rsum R' (fun j => M j c * rsum J (fun i => P i j * X i c)))).
  { unfold minner, mmul, mT.
    rewrite (rsum_ext J _ (fun i => rsum K (fun c => rsum R' (fun j => P i j * (X i c * M j c))))).
    2:{ intros i _. rewrite rsum_exchange. apply rsum_ext; intros j _. now rewrite rsum_scale. }
    rewrite rsum_exchange. apply rsum_ext; intros c _. rewrite rsum_exchange. apply rsum_ext; intros j _.
    rewrite <- rsum_scale. apply rsum_ext; intros; ring. }
  rewrite E. rewrite <- rsum_scale, <- rsum_sub, <- rsum_add. apply rsum_ext; intros c _.
  pose proof (ls_expand J R' P (fun i => X i c) (fun j => M j c)) as H. unfold Av in H. cbv beta in H.
  unfold msub, mmul. rewrite H.
  rewrite (rsum_ext R' (fun j => rsum R' (fun t => M j c * M t c * rsum J (fun i => P i j * P i t))) (fun j => (M j c)^2)).
  - ring.
  - intros j Hj.
    rewrite (rsum_ext R' _ (fun t => delta j t * (M j c * M t c))) by (intros t Ht; rewrite (HP j t Hj Ht); ring).
    rewrite rsum_delta by exact Hj. ring.
Qed.

(* with the optimality of the polar factor (orthogonal Procrustes) as hypothesis, recomputing a projection does not
   increase the residual of its slice (M = B diag(a_i) C') *)
Theorem parafac2_projection_descent_partial J R' K (Pold Pnew X M : fmat) :
  orthonormal J R' Pold -> orthonormal J R' Pnew ->
  (* orthogonal Procrustes: P = (U Vh)' of the SVD of M X' maximises <P, X M'> over the matrices with orthonormal columns *)
  (forall W, orthonormal J R' W -> minner J R' W (mmul K X (mT M)) <= minner J R' Pnew (mmul K X (mT M))) ->
  frob2 J K (msub X (mmul R' Pnew M)) <= frob2 J K (msub X (mmul R' Pold M)).
Proof.
  intros Ho Hn HP. rewrite !parafac2_residual by assumption. specialize (HP Pold Ho). lra.
Qed.

(* witness used by the non-vacuity example in Props/C07.v: the first unit vector of R^2 as a 2 x 1 matrix *)
Definition e1 : fmat := fun i j => match i, j with O, O => 1 | _, _ => 0 end.
