(* C07 -- PARAFAC2: the inner CP step.  The error of the projected slices, sum_i ||T_i - B diag(a_i) C'||^2, IS the CP objective
   ||T - [[w; A, B, C]]||^2 of the third-order tensor T whose frontal slices are the T_i = P_i' X_i (entry (i, j, c) at offset
   (i R + j) K + c), so the hypothesis of C07_parafac2_iter_descent on the inner step is discharged by the CP sweep theorems. *)
From Coq Require Import Reals Lra Psatz List Arith Lia RealField Bool.
From TLV Require Import Base.Shape Base.PyList Base.Tensor Base.Ops Base.BigSum Base.RSum Model.Descent
  Proofs.DescentProofs Proofs.DescentProofsLink Proofs.DescentProofsOrth Proofs.DescentProofsSpec Proofs.DescentProofsSweeps Proofs.DescentProofsSweeps2.
Import ListNotations.
Open Scope R_scope.

Definition slice3 (Rr K : nat) (T : tensor R) (i : nat) : fmat := fun j c => nth ((i * Rr + j) * K + c) (data T) 0.
Definition cp_slice (w : list R) (facs : list (list (list R))) (rank : nat) (i : nat) : fmat := fun j c => @cp_rec R Rops w facs rank [i; j; c].

Lemma cp_sqerr_as_idx (T : tensor R) (w : list R) (facs : list (list (list R))) (rank : nat) :
  @cp_sqerr R Rops T w facs rank = rsum_idx (shape T) (fun idx => (nth (ravel (shape T) idx) (data T) 0 - @cp_rec R Rops w facs rank idx)^2).
Proof.
  unfold cp_sqerr, rsum_idx. rewrite gsum_rsum_fun. apply rsum_ext; intros o Ho.
  rewrite (ravel_unravel _ _ Ho). unfold fsq. cbn [fsub fmul f0 Rops]. ring.
Qed.

Theorem cp_sqerr_slices (T : tensor R) (I Rr K : nat) (w : list R) (facs : list (list (list R))) (rank : nat) :
  shape T = [I; Rr; K] ->
  @cp_sqerr R Rops T w facs rank = rsum I (fun i => frob2 Rr K (msub (slice3 Rr K T i) (cp_slice w facs rank i))).
Proof.
  intros Hs. rewrite cp_sqerr_as_idx, Hs. rewrite rsum_idx_cons. apply rsum_ext; intros i _.
  rewrite rsum_idx_cons. unfold frob2. apply rsum_ext; intros j _.
  rewrite rsum_idx_cons. apply rsum_ext; intros c _. rewrite rsum_idx_nil.
  unfold msub, slice3, cp_slice. cbn [ravel prod fold_right].
  replace (i * (Rr * (K * 1)) + (j * (K * 1) + (c * 1 + 0)))%nat with ((i * Rr + j) * K + c)%nat by ring. reflexivity.
Qed.

(* the inner step of PARAFAC2 instantiated with CP-ALS sweeps on the tensor of projected slices: its contract is the solve certificate
   at the visited states (C07_cp_sweep_descent), nothing else *)
Corollary p2_inner_step_from_cp (T : tensor R) (I Rr K : nat) (w : list R) (rank : nat)
  (solve : list (list R) -> list (list R) -> list (list R)) (modes : list nat) (facs : list (list (list R))) :
  shape T = [I; Rr; K] -> sweep_ok T w 0 rank solve modes facs ->
  rsum I (fun i => frob2 Rr K (msub (slice3 Rr K T i) (cp_slice w (@cp_sweep R Rops solve T w 0 rank modes facs) rank i)))
  <= rsum I (fun i => frob2 Rr K (msub (slice3 Rr K T i) (cp_slice w facs rank i))).
Proof.
  intros Hs Hok. rewrite <- !(cp_sqerr_slices T I Rr K w _ rank Hs).
  rewrite <- !(cp_obj_all_lam0 T w rank). apply cp_sweep_descent; [lra | exact Hok].
Qed.
