(* C07 round 6 -- (i) HOOI from ANY initial factors (init='random'): after the first sweep over all decomposed modes every factor has
   orthonormal columns, so the descent / reported-error theorems apply from the state after sweep 1 on, whatever the initial state;
   (ii) with a penalty (l2_reg of parafac, sparsity of non_negative_parafac_hals) the REPORTED reconstruction error is not the descended
   quantity: witnesses of blocks that satisfy their contract, decrease the penalised objective and INCREASE the squared error; the
   in-sweep renormalisation of nn-HALS can increase the l1-penalised objective. *)
From Coq Require Import Reals Lra Psatz List Arith Lia RealField Bool QArith.
From TLV Require Import Base.Shape Base.PyList Base.Tensor Base.Ops Base.BigSum Base.RSum Model.Descent
  Proofs.DescentProofs Proofs.DescentProofsLink Proofs.DescentProofsOrth Proofs.DescentProofsTucker Proofs.DescentProofsUnfold
  Proofs.DescentProofsSpec Proofs.DescentProofsSweeps.
Import ListNotations.
Open Scope R_scope.

Lemma iter_succ_r {A} (f : A -> A) : forall n x, Nat.iter (S n) f x = Nat.iter n f (f x).
Proof. induction n as [|n IH]; intros x; [reflexivity|]. change (f (Nat.iter (S n) f x) = f (Nat.iter n f (f x))). now rewrite IH. Qed.

(* ---------- orth_all pointwise ---------- *)
Lemma orth_all_pointwise : forall s rs Us, length rs = length s -> length Us = length s ->
  (forall k, (k < length s)%nat -> orthonormal (nth k s 0%nat) (nth k rs 0%nat) (@mget R Rops (nth k Us []))) -> orth_all s rs Us.
Proof.
  induction s as [|d s IH]; intros [|r rs] [|U Us] Hr HU H; simpl in *; try lia; try exact I.
  split; [exact (H 0%nat ltac:(lia))|]. apply IH; [lia | lia |]. intros k Hk. exact (H (S k) ltac:(lia)).
Qed.

Section AnyInit.
Variables (X : tensor R) (rs : list nat) (svd : list (list (list R)) -> nat -> list (list R)) (modes : list nat).
Let s := shape X.
Hypothesis Hrs : length rs = length s.
Hypothesis Hmodes : forall k, In k modes -> (k < length s)%nat.
(* contract of the SVD oracle: whatever it is handed, its answer for mode k has orthonormal columns *)
Hypothesis Hsvd : forall Us k, In k modes -> orthonormal (nth k s 0%nat) (nth k rs 0%nat) (@mget R Rops (svd Us k)).

Definition okmode (Us : list (list (list R))) (k : nat) : Prop := orthonormal (nth k s 0%nat) (nth k rs 0%nat) (@mget R Rops (nth k Us [])).

Lemma hooi_sweep_invariant : forall ms Us, (forall k, In k ms -> In k modes) -> length Us = length s ->
  length (hooi_sweep svd ms Us) = length s /\
  forall k, (k < length s)%nat -> (In k ms \/ okmode Us k) -> okmode (hooi_sweep svd ms Us) k.
Proof.
  unfold hooi_sweep. induction ms as [|m ms IH]; intros Us Hin Hlen; simpl.
  - split; [exact Hlen|]. intros k Hk [[]|H]; exact H.
  - assert (Hm : In m modes) by (apply Hin; now left).
    destruct (IH (hooi_block svd Us m) (fun k H => Hin k (or_intror H)) ltac:(unfold hooi_block; now rewrite set_nth_length)) as [HL HK].
    split; [exact HL|]. intros k Hk Hor. apply HK; [exact Hk|].
    destruct (in_dec Nat.eq_dec k ms) as [Hi|Hni]; [now left|]. right.
    unfold okmode, hooi_block. destruct (Nat.eq_dec k m) as [->|Hne].
    + rewrite nth_set_nth_same by (rewrite Hlen; exact Hk). apply Hsvd; exact Hm.
    + rewrite nth_set_nth_other by exact Hne. destruct Hor as [[E|Hi]|Hok]; [congruence | contradiction | exact Hok].
Qed.

(* after ONE sweep every factor has orthonormal columns, for any initial factors of the decomposed modes (undecomposed modes carry a matrix
   with orthonormal columns, e.g. the identity) *)
Theorem hooi_first_sweep_orth Us0 : length Us0 = length s ->
  (forall k, (k < length s)%nat -> In k modes \/ okmode Us0 k) ->
  orth_all s rs (hooi_sweep svd modes Us0).
Proof.
  intros Hlen Hcov. destruct (hooi_sweep_invariant modes Us0 (fun k H => H) Hlen) as [HL HK].
  apply orth_all_pointwise; [exact Hrs | exact HL |]. intros k Hk. apply HK; [exact Hk | apply Hcov; exact Hk].
Qed.

Lemma orth_all_okmode : forall s' rs' Us k, orth_all s' rs' Us -> (k < length s')%nat ->
  orthonormal (nth k s' 0%nat) (nth k rs' 0%nat) (@mget R Rops (nth k Us [])).
Proof. intros. now apply orth_all_nth. Qed.
Lemma orth_all_len : forall s' rs' Us, orth_all s' rs' Us -> length Us = length s'.
Proof. induction s' as [|d s' IH]; intros [|r rs'] [|U Us] H; simpl in *; try tauto. destruct H as [_ H]. f_equal. now apply (IH rs'). Qed.

Lemma hooi_iter_orth Us0 : length Us0 = length s -> (forall k, (k < length s)%nat -> In k modes \/ okmode Us0 k) ->
  forall i, orth_all s rs (Nat.iter (S i) (hooi_sweep svd modes) Us0).
Proof.
  intros Hlen Hcov. induction i as [|i IH]; [simpl; now apply hooi_first_sweep_orth|].
  change (orth_all s rs (hooi_sweep svd modes (Nat.iter (S i) (hooi_sweep svd modes) Us0))).
  apply hooi_first_sweep_orth; [now apply (orth_all_len s rs)|].
  intros k Hk. right. unfold okmode. now apply orth_all_okmode.
Qed.

(* init='random' (any initial factors): the errors partial_tucker reports after sweeps 1, 2, .. are non-increasing; the certificate contract is
   required from the state after sweep 1 on (the first state with orthonormal factors) *)
Theorem hooi_reported_monotone_any_init Us0 n : length Us0 = length s ->
  (forall k, (k < length s)%nat -> In k modes \/ okmode Us0 k) ->
  run_ok _ (hooi_sweep svd modes) (hooi_sweep_ok X rs svd modes) n (hooi_sweep svd modes Us0) ->
  forall i j, (1 <= i)%nat -> (i <= j)%nat -> (j <= S n)%nat ->
  tk_reported X rs (Nat.iter j (hooi_sweep svd modes) Us0) <= tk_reported X rs (Nat.iter i (hooi_sweep svd modes) Us0).
Proof.
  intros Hlen Hcov Hrun i j Hi Hij Hj.
  destruct i as [|i]; [lia|]. destruct j as [|j]; [lia|].
  rewrite !iter_succ_r.
  apply (hooi_reported_monotone X rs svd modes (hooi_sweep svd modes Us0) n Hrun); [|lia|lia].
  intros t _. rewrite <- iter_succ_r. fold s. now apply hooi_iter_orth.
Qed.
End AnyInit.

(* ---------- penalties: the reported reconstruction error is not the descended quantity ---------- *)
Definition Qlt_bool' (a b : Q) : bool := negb (Qle_bool b a).
(* parafac(l2_reg = 1) on the 1 x 1 tensor (1) from the exact fit a = b = 1: the block of mode 0 satisfies its solve certificate with a = 1/2,
   the penalised block objective drops from 1 to 1/2 and the squared error RISES from 0 to 1/4 *)
Theorem cp_l2_reported_refuted :
  exists (X : tensor R) (w : list R) (facs : list (list (list R))) (k : nat) (lam : R) (rank : nat) (x : list (list R)),
    0 < lam /\ (k < length (shape X))%nat /\ (k < length facs)%nat /\
    (forall i r, (i < nth k (shape X) 0)%nat -> (r < rank)%nat ->
       @cp_cert_lhs R Rops (shape X) w facs k lam rank x i r = @cp_mttkrp R Rops X w facs k i r) /\
    @cp_obj R Rops X w (set_nth k x facs) k lam rank < @cp_obj R Rops X w facs k lam rank /\
    @cp_sqerr R Rops X w facs rank < @cp_sqerr R Rops X w (set_nth k x facs) rank.
Proof.
  exists (mk [1;1]%nat [1]), [1], [[[1]];[[1]]], 0%nat, 1, 1%nat, [[1/2]].
  split; [lra|]. split; [simpl; lia|]. split; [simpl; lia|]. split; [|split].
  - intros i r Hi Hr. simpl in Hi. assert (i = 0%nat) by lia. assert (r = 0%nat) by lia. subst. vm_compute. field.
  - vm_compute. lra.
  - vm_compute. lra.
Qed.

(* non_negative_parafac_hals(sparsity 1/2 on mode 0), same tensor and start, the model executed at exact rationals (the clipping of the HALS
   update is a decision, so the witness is computed in Q): one HALS pass on mode 0 keeps the factor non-negative, lowers
   ||X-[[w;A..]]||^2/2 + sum_j sparsity_j sum(A_j) from 1/2 to 3/8 and RAISES the squared error from 0 to 1/4 *)
Theorem nn_sparsity_reported_refuted :
  exists (X : tensor Q) (w : list Q) (facs : list (list (list Q))) (l1s : list Q) (rank : nat),
    let facs' := @nn_block Q Qops (fun _ _ => []) X w rank l1s 0%Q facs (0%nat, BHals 1) in
    facs' = [[[1 # 2]]; [[1]]]%Q /\
    Qlt_bool' (@nn_obj Q Qops X w facs' l1s rank) (@nn_obj Q Qops X w facs l1s rank) = true /\
    Qlt_bool' (@cp_sqerr Q Qops X w facs rank) (@cp_sqerr Q Qops X w facs' rank) = true.
Proof.
  exists (mk [1;1]%nat [1%Q]), [1%Q], [[[1%Q]];[[1%Q]]], [(1#2)%Q; 0%Q], 1%nat. cbv zeta. repeat split; vm_compute; reflexivity.
Qed.

(* non_negative_parafac_hals(normalize_factors=True, sparsity): the in-sweep cp_normalize leaves the squared error unchanged but changes the l1
   term (the factors are rescaled to unit columns): with the column norms (1/2) of the factor of mode 1 as answer tape the penalised objective RISES *)
Theorem nn_norm_sparsity_refuted :
  exists (X : tensor R) (st : @cpstate R) (l1s : list R) (rank : nat) (norms : nat -> @cpstate R -> list R * list R),
    let st' := @cp_normalize_m R Rops (shape X) rank norms st in
    @cp_sqerr R Rops X (fst st') (snd st') rank = @cp_sqerr R Rops X (fst st) (snd st) rank /\
    @nn_obj R Rops X (fst st) (snd st) l1s rank < @nn_obj R Rops X (fst st') (snd st') l1s rank.
Proof.
  exists (mk [1;1]%nat [1]), ([1], [[[1]];[[1/2]]]), [0; 1], 1%nat, (fun k _ => match k with O => ([1], [1]) | _ => ([1/2], [1/2]) end).
  cbv zeta. split; vm_compute; lra.
Qed.

(* parafac(l2_reg > 0, normalize_factors=True): cp_normalize leaves the squared error unchanged but moves scale between factors and weights, which
   changes the ridge terms ||A_j diag w||^2: the penalised objective RISES (5 -> 8 here), so with both options no penalised objective descends
   across iterations (on the implementation it rose in 191 of 200 runs); only the blocks are exact *)
Theorem cp_l2_norm_refuted :
  exists (X : tensor R) (st : @cpstate R) (lam : R) (rank : nat) (norms : nat -> @cpstate R -> list R * list R),
    let st' := @cp_normalize_m R Rops (shape X) rank norms st in
    0 < lam /\
    @cp_sqerr R Rops X (fst st') (snd st') rank = @cp_sqerr R Rops X (fst st) (snd st) rank /\
    @cp_obj_all R Rops X (fst st) (snd st) lam rank < @cp_obj_all R Rops X (fst st') (snd st') lam rank.
Proof.
  exists (mk [1;1]%nat [2]), ([1], [[[1]];[[2]]]), 1, 1%nat, (fun k _ => match k with O => ([1], [1]) | _ => ([2], [2]) end).
  cbv zeta. split; [lra|]. split; vm_compute; lra.
Qed.
