(* C07 -- PARAFAC2 with nn_modes: the inner step is non_negative_parafac_hals on the tensor of projected slices (exact solves on the
   unconstrained modes, HALS passes on the non-negative ones, no sparsity).  Its sweeps satisfy the inner-step hypothesis of
   C07_parafac2_iter_descent under their own contract (solve certificate / feasible iterate at the visited states): the error of the
   projected slices is the CP objective of that tensor (C07_cp_sqerr_slices), which the sweeps do not increase (C07_nn_sweep_descent). *)
From Coq Require Import Reals Lra Psatz List Arith Lia RealField Bool.
From TLV Require Import Base.Shape Base.PyList Base.Tensor Base.Ops Base.BigSum Base.RSum Model.Descent
  Proofs.DescentProofs Proofs.DescentProofsHals Proofs.DescentProofsLink Proofs.DescentProofsOrth Proofs.DescentProofsNN Proofs.DescentProofsNNNorm Proofs.DescentProofsP2Tie Model.DescentLoop Proofs.DescentProofsLoop.
Import ListNotations.
Open Scope R_scope.

Corollary p2_inner_step_from_nn (T : tensor R) (I Rr K : nat) (w : list R) (rank : nat) (l1s : list R) (eps : R)
  (solve : list (list R) -> list (list R) -> list (list R)) (blocks : list (nat * blockkind)) (facs : list (list (list R))) :
  shape T = [I; Rr; K] -> (forall j, nth j l1s 0 = 0) -> nn_sweep_ok T w rank l1s eps solve blocks facs ->
  rsum I (fun i => frob2 Rr K (msub (slice3 Rr K T i) (cp_slice w (@nn_sweep R Rops solve T w rank l1s eps blocks facs) rank i)))
  <= rsum I (fun i => frob2 Rr K (msub (slice3 Rr K T i) (cp_slice w facs rank i))).
Proof.
  intros Hs Hl Hok. rewrite <- !(cp_sqerr_slices T I Rr K w _ rank Hs).
  pose proof (nn_sweep_descent T w rank l1s eps solve blocks facs Hok) as H.
  rewrite !(nn_obj_l0 T rank l1s Hl) in H. lra.
Qed.

(* hals_nnls END TO END: passes under ANY stopping rule on ANY recorded quantity (the code records the squared norm of the update of a pass and stops when it
   falls below tol times its first value): the iterate it returns is feasible and its penalised quadratic objective is not above the initial one.
   No contract at visited states is needed: feasibility is an invariant of the passes. *)
Section HalsLoop.
Variables (G B : list (list R)) (l1 l2 eps : R) (rank ncols : nat).
Hypothesis Gsym : forall i j, @mget R Rops G i j = @mget R Rops G j i.
Hypothesis Gdiag : forall k, 0 <= @mget R Rops G k k.
Hypothesis Hl2 : 0 <= l2.
Let pass := @hals_pass R Rops G B l1 l2 eps rank ncols.
Let okV := fun V : list (list R) => length V = rank /\ feasible eps rank ncols V.
Lemma hals_ok_iter V : okV V -> forall i, okV (Nat.iter i pass V).
Proof.
  intros H i. induction i as [|i IH]; [exact H|]. simpl. destruct IH as [L F].
  destruct (hals_pass_descent G B l1 l2 eps rank ncols Gsym Gdiag Hl2 _ L F) as (L' & F' & _). split; assumption.
Qed.
Theorem hals_loop_descent (V0 : Type) (report : list (list R) -> V0) (stop : nat -> list V0 -> bool) (n : nat) (V : list (list R)) :
  length V = rank -> feasible eps rank ncols V ->
  let Vf := fst (run_loop _ V0 pass report stop n V) in
  length Vf = rank /\ feasible eps rank ncols Vf /\
  @hals_obj R Rops G B Vf l1 l2 rank ncols <= @hals_obj R Rops G B V l1 l2 rank ncols.
Proof.
  intros L F. cbv zeta. assert (H0 : okV V) by (split; assumption).
  destruct (run_loop_spec _ V0 pass report stop n V) as (m & Hm & _ & Hl & _).
  split; [|split].
  - rewrite Hl. cbn [fst]. apply (hals_ok_iter V H0 m).
  - rewrite Hl. cbn [fst]. apply (hals_ok_iter V H0 m).
  - apply (loop_final_descent _ V0 pass report stop (fun W => @hals_obj R Rops G B W l1 l2 rank ncols) okV).
    + intros W (LW & FW). destruct (hals_pass_descent G B l1 l2 eps rank ncols Gsym Gdiag Hl2 _ LW FW) as (_ & _ & Hd). exact Hd.
    + intros i _. apply hals_ok_iter. exact H0.
Qed.
End HalsLoop.
