(* C07 -- CP regressor: the prediction <X_s, [[w; W..]]> is linear in the factor being updated, with the MTTKRP of the
   sample as coefficients: the design matrix `phi` of the block is made of flattened MTTKRPs. *)
From Coq Require Import Reals Lra Psatz List Arith Lia RealField Bool.
From TLV Require Import Base.Shape Base.PyList Base.Tensor Base.Ops Base.BigSum Base.RSum Model.Descent
  Proofs.DescentProofs.
Import ListNotations.
Open Scope R_scope.

Theorem cp_inner_linear (X : tensor R) (w : list R) (facs : list (list (list R))) (k rank : nat) (A : list (list R)) :
  (k < length (shape X))%nat -> (k < length facs)%nat ->
  @cp_inner R Rops X w (set_nth k A facs) rank
  = rsum (nth k (shape X) 0%nat) (fun i => rsum rank (fun r => @mget R Rops A i r * @cp_mttkrp R Rops X w facs k i r)).
Proof.
  intros Hk Hf. unfold cp_inner, cp_mttkrp. rewrite !gsum_rsum_fun.
  set (s := shape X). set (N := prod s). set (dk := nth k s 0%nat).
  (* right-hand side: pull the sums over i and r inside the sum over the entries *)
  rewrite (rsum_ext dk _ (fun i => rsum N (fun o => rsum rank (fun r =>
     delta (nth k (unravel s o) 0%nat) i * (@mget R Rops A i r * (nth o (data X) 0 * (nth r w 0 * @cp_term_skip R Rops facs k r (unravel s o)))))))).
  2:{ intros i _. rewrite rsum_exchange. apply rsum_ext; intros r _. rewrite <- rsum_scale. apply rsum_ext; intros o _.
      cbv zeta. unfold delta, vget. cbn [fmul f0 Rops]. fold s. destruct (Nat.eqb (nth k (unravel s o) 0%nat) i); ring. }
  rewrite rsum_exchange. apply rsum_ext; intros o Ho.
  pose proof (unravel_inb s o Ho) as Hin. pose proof (inb_length _ _ Hin) as Hl.
  pose proof (inb_nth_lt k _ _ Hin Hk) as Hlt. fold dk in Hlt.
  rewrite (rsum_ext dk _ (fun i => delta (nth k (unravel s o) 0%nat) i *
     rsum rank (fun r => @mget R Rops A i r * (nth o (data X) 0 * (nth r w 0 * @cp_term_skip R Rops facs k r (unravel s o))))))
    by (intros; now rewrite rsum_scale).
  rewrite rsum_delta by exact Hlt.
  unfold cp_rec. rewrite gsum_rsum_fun. cbn [fmul Rops]. rewrite <- rsum_scale. apply rsum_ext; intros r _.
  rewrite (cp_term_set X facs k Hk Hf A r _ Hl). unfold vget. cbn [f0 Rops]. fold s. ring.
Qed.

(* ---------- the ridge block of CPRegressor.fit (scalar responses) ---------- *)
Lemma rsum_flatten n m (f : nat -> nat -> R) : (0 < m)%nat ->
  rsum n (fun i => rsum m (fun j => f i j)) = rsum (n * m) (fun q => f (q / m)%nat (q mod m)%nat).
Proof.
  intros Hm. rewrite <- bigsum_rsum_fun. rewrite (bigsum_mul R 0 1 Rplus Rmult Rminus Ropp RTheory). rewrite bigsum_rsum_fun.
  apply rsum_ext; intros i _. apply rsum_ext; intros j Hj.
  rewrite Nat.div_add_l by lia. rewrite (Nat.div_small j m) by exact Hj. rewrite Nat.add_0_r.
  rewrite Nat.add_comm, Nat.mod_add by lia. now rewrite Nat.mod_small.
Qed.

Section CPReg.
Variables (ns : nat) (Xs : nat -> tensor R) (ys : nat -> R) (sh : list nat).
Variables (w : list R) (facs : list (list (list R))) (k rank : nat) (reg : R).
Hypothesis Hsh : forall s, (s < ns)%nat -> shape (Xs s) = sh.
Hypothesis Hk : (k < length sh)%nat.
Hypothesis Hf : (k < length facs)%nat.
Hypothesis Hr : (0 < rank)%nat.
Let dk := nth k sh 0%nat.
Definition reg_pred (A : list (list R)) (s : nat) : R := @cp_inner R Rops (Xs s) w (set_nth k A facs) rank.
(* ||y - predictions||^2 + reg ||A||_F^2 : the part of the regressor's objective that depends on factor k *)
Definition reg_obj (A : list (list R)) : R :=
  rsum ns (fun s => (ys s - reg_pred A s)^2) + reg * rsum dk (fun i => rsum rank (fun r => (@mget R Rops A i r)^2)).

Let Phi (s j : nat) : R := @cp_mttkrp R Rops (Xs s) w facs k (j / rank)%nat (j mod rank)%nat.
Let vec (A : list (list R)) (j : nat) : R := @mget R Rops A (j / rank)%nat (j mod rank)%nat.

Lemma reg_pred_flat A s : (s < ns)%nat -> reg_pred A s = Av (dk * rank) Phi (vec A) s.
Proof.
  intros Hs. unfold reg_pred. rewrite cp_inner_linear by (rewrite ?(Hsh s Hs); assumption).
  rewrite (Hsh s Hs). fold dk. rewrite rsum_flatten by exact Hr. unfold Av, Phi, vec. apply rsum_ext; intros; ring.
Qed.

Lemma reg_obj_flat A : reg_obj A = ls_obj ns (dk * rank) Phi ys reg (vec A).
Proof.
  unfold reg_obj, ls_obj. f_equal.
  - apply rsum_ext; intros s Hs. now rewrite reg_pred_flat.
  - f_equal. rewrite rsum_flatten by exact Hr. reflexivity.
Qed.

(* a factor satisfying the normal equations of the block (what tl.solve(phi' phi + reg I, phi' y) certifies) minimises the
   ridge objective over all matrices *)
Theorem cpreg_block_minimises A Z : 0 <= reg ->
  (forall i r, (i < dk)%nat -> (r < rank)%nat ->
     rsum ns (fun s => @cp_mttkrp R Rops (Xs s) w facs k i r * (ys s - reg_pred A s)) = reg * @mget R Rops A i r) ->
  reg_obj A <= reg_obj Z.
Proof.
  intros Hreg Hne. rewrite !reg_obj_flat. apply normal_eq_minimises; [exact Hreg|].
  intros j Hj.
  assert (Hi : (j / rank < dk)%nat) by (apply Nat.div_lt_upper_bound; lia).
  assert (Hm : (j mod rank < rank)%nat) by (apply Nat.mod_upper_bound; lia).
  specialize (Hne _ _ Hi Hm). unfold Phi at 1, vec at 2. rewrite <- Hne.
  apply rsum_ext; intros s Hs. now rewrite reg_pred_flat.
Qed.
End CPReg.

(* the same for samples / responses given as lists (the form executed by the correspondence) *)
Theorem cpreg_block_minimises_l (Xsl : list (tensor R)) (ysl : list R) (sh : list nat) (w : list R) (facs : list (list (list R)))
  (k rank : nat) (reg : R) (A Z : list (list R)) :
  (forall X, In X Xsl -> shape X = sh) -> (k < length sh)%nat -> (k < length facs)%nat -> (0 < rank)%nat -> 0 <= reg ->
  (forall i r, (i < nth k sh 0)%nat -> (r < rank)%nat ->
     @cpreg_normal_lhs R Rops Xsl ysl w facs k rank A i r = reg * @mget R Rops A i r) ->
  @cpreg_obj R Rops Xsl ysl w (set_nth k A facs) k (nth k sh 0%nat) rank reg
  <= @cpreg_obj R Rops Xsl ysl w (set_nth k Z facs) k (nth k sh 0%nat) rank reg.
Proof.
  intros Hsh Hk Hf Hr Hreg Hne.
  set (Xs := fun s => nth s Xsl (mk [] [])). set (ys := fun s => nth s ysl 0).
  assert (Hsh' : forall s, (s < length Xsl)%nat -> shape (Xs s) = sh) by (intros s Hs; apply Hsh; unfold Xs; now apply nth_In).
  assert (E : forall B : list (list R), @cpreg_obj R Rops Xsl ysl w (set_nth k B facs) k (nth k sh 0%nat) rank reg
                     = reg_obj (length Xsl) Xs ys sh w facs k rank reg B).
  { intros B. unfold cpreg_obj, reg_obj, reg_pred, fsq, vget. rewrite !gsum_rsum_fun. cbn [fadd fsub fmul f0 Rops].
    rewrite nth_set_nth_same by exact Hf. f_equal.
    - apply rsum_ext; intros s _. unfold Xs, ys. ring.
    - f_equal. apply rsum_ext; intros i _. apply rsum_ext; intros r _. ring. }
  rewrite !E. apply (cpreg_block_minimises (length Xsl) Xs ys sh w facs k rank reg Hsh' Hk Hf Hr A Z Hreg).
  intros i r Hi Hr'. rewrite <- (Hne i r Hi Hr'). unfold cpreg_normal_lhs, reg_pred, vget. rewrite gsum_rsum_fun. cbn [fsub fmul f0 Rops].
  apply rsum_ext; intros s _. reflexivity.
Qed.
