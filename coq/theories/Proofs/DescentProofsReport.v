(* C07 -- the error parafac REPORTS is the objective: | ||X||^2 + cp_norm^2 - 2 iprod | computed from the Grams and the MTTKRP of the
   last updated mode equals ||X - [[w; A..]]||^2 for every order / rank / weights / mode (so |.| is the identity on it). *)
From Coq Require Import Reals Lra Psatz List Arith Lia RealField Bool.
From TLV Require Import Base.Shape Base.PyList Base.Tensor Base.Ops Base.BigSum Base.RSum Model.Descent Model.DescentReport
  Proofs.DescentProofs Proofs.DescentProofsReg.
Import ListNotations.
Open Scope R_scope.

Lemma cp_recsq_gram (s : list nat) (w : list R) (facs : list (list (list R))) (rank : nat) :
  rsum_idx s (fun idx => (@cp_rec R Rops w facs rank idx)^2) = @cp_norm2_gram R Rops s w facs rank.
Proof.
  unfold cp_norm2_gram, cp_rec. rewrite !gsum_rsum_fun. cbn [fmul Rops].
  rewrite (rsum_idx_ext s _ (fun idx => rsum rank (fun r => rsum rank (fun t =>
     (nth r w 0 * nth t w 0) * pprodR (fun j i => @fac_at R Rops facs j i r * @fac_at R Rops facs j i t) 0%nat idx)))).
  2:{ intros idx _. simpl. rewrite Rmult_1_r. rewrite <- rsum_scale_r. apply rsum_ext; intros r _.
      rewrite <- rsum_scale. apply rsum_ext; intros t _. rewrite pprod_mul. unfold cp_term, vget. cbn [f0 Rops]. ring. }
  unfold rsum_idx. rewrite rsum_exchange. apply rsum_ext; intros r _.
  rewrite rsum_exchange. apply rsum_ext; intros t _.
  rewrite rsum_scale. unfold vget. cbn [f0 fmul Rops]. f_equal.
  pose proof (sum_pprod (fun j i => @fac_at R Rops facs j i r * @fac_at R Rops facs j i t) s 0%nat) as H. unfold rsum_idx in H.
  rewrite H. clear H. generalize 0%nat. induction s as [|d s IH]; intros j0; cbn [lprod fmul Rops]; [reflexivity|].
  rewrite IH. reflexivity.
Qed.

Theorem cp_reported_is_sqerr (X : tensor R) (w : list R) (facs : list (list (list R))) (k rank : nat) :
  (k < length (shape X))%nat -> (k < length facs)%nat ->
  @cp_err2_reported R Rops X w facs k rank = @cp_sqerr R Rops X w facs rank.
Proof.
  intros Hk Hf. unfold cp_err2_reported, cp_sqerr, tnormsq, cp_iprod. rewrite !gsum_rsum_fun. cbn [fadd fsub fmul Rops].
  rewrite <- (cp_recsq_gram (shape X) w facs rank).
  pose proof (cp_inner_linear X w facs k rank (nth k facs []) Hk Hf) as HI. rewrite set_nth_nth_id in HI.
  assert (E : rsum (nth k (shape X) 0%nat) (fun i => rsum rank (fun r => @cp_mttkrp R Rops X w facs k i r * @mget R Rops (nth k facs []) i r))
              = @cp_inner R Rops X w facs rank).
  { rewrite HI. apply rsum_ext; intros i _. apply rsum_ext; intros; ring. }
  unfold mat. rewrite E. unfold cp_inner, rsum_idx, fsq, two. rewrite gsum_rsum_fun. cbn [fadd fsub fmul f1 Rops].
  rewrite <- rsum_scale, <- rsum_add, <- rsum_sub. apply rsum_ext; intros o _. ring.
Qed.
