(* C07 -- Ky Fan's maximum principle and the orthogonal Procrustes bound PROVED from a spectral certificate:
   instead of assuming the optimality of the SVD answer, the theorems take a full eigen-decomposition of Y Y'
   (resp. a thin SVD of Z = X M') as data with a checkable contract (orthogonality, diagonalisation / factorisation,
   ordering resp. non-negativity) and the ATTAINED VALUE of the implementation's factor.  The harness records such a
   decomposition per run (independent LAPACK call) and checks the contract on it. *)
From Coq Require Import Reals Lra Psatz List Arith Lia RealField Bool.
From TLV Require Import Base.RSum Proofs.DescentProofs Proofs.DescentProofsLink Proofs.DescentProofsOrth.
Open Scope R_scope.

(* ---------- Ky Fan ---------- *)
Section KyFan.
Variables (m r p : nat) (Y Q : fmat) (lam : nat -> R).
(* contract of the eigen-decomposition of Y Y' handed in as data *)
Hypothesis HQc : orthonormal m m Q.                         (* Q'Q = I *)
Hypothesis HQr : orthonormal m m (mT Q).                    (* Q Q' = I *)
Hypothesis Hdiag : forall i j, (i < m)%nat -> (j < m)%nat ->
  rsum p (fun c => mmul m (mT Q) Y i c * mmul m (mT Q) Y j c) = delta i j * lam i.     (* Q' Y Y' Q = diag(lam) *)
Hypothesis Hsort : forall i j, (i <= j)%nat -> (j < m)%nat -> lam j <= lam i.
Hypothesis Hrm : (r <= m)%nat.

Variable W : fmat.
Hypothesis HW : orthonormal m r W.

(* coordinates of the columns of W in the eigenbasis:  Cc i a = <q_i, w_a> *)
Let Cc (i a : nat) : R := rsum m (fun t => Q t i * W t a).
Let pw (i : nat) : R := rsum r (fun a => (Cc i a)^2).

(* w_a = sum_i Cc i a * q_i  (uses Q Q' = I) *)
Lemma W_expand t a : (t < m)%nat -> rsum m (fun i => Q t i * Cc i a) = W t a.
Proof.
  intros Ht. unfold Cc.
  rewrite (rsum_ext m _ (fun i => rsum m (fun u => (Q t i * Q u i) * W u a))).
  2:{ intros i _. rewrite <- rsum_scale. apply rsum_ext; intros; ring. }
  rewrite rsum_exchange.
  rewrite (rsum_ext m _ (fun u => delta t u * W u a)).
  - now rewrite rsum_delta.
  - intros u Hu. rewrite <- (HQr t u Ht Hu). unfold mT. now rewrite rsum_scale_r.
Qed.

(* W'Y = Cc' (Q'Y) *)
Lemma WY_expand a c : (a < r)%nat ->
  mmul m (mT W) Y a c = rsum m (fun i => Cc i a * mmul m (mT Q) Y i c).
Proof.
  intros Ha. unfold mmul at 1. unfold mT at 1.
  rewrite (rsum_ext m _ (fun t => rsum m (fun i => Q t i * Cc i a * Y t c))).
  2:{ intros t Ht. rewrite <- (W_expand t a Ht). rewrite <- rsum_scale_r. apply rsum_ext; intros; ring. }
  rewrite rsum_exchange. apply rsum_ext; intros i _. unfold mmul, mT.
  rewrite <- rsum_scale. apply rsum_ext; intros; ring.
Qed.

(* ||W'Y||^2 = sum_i lam_i p_i *)
Lemma WY_norm : frob2 r p (mmul m (mT W) Y) = rsum m (fun i => lam i * pw i).
Proof.
  unfold frob2.
  rewrite (rsum_ext r _ (fun a => rsum m (fun i => lam i * (Cc i a)^2))).
  - rewrite rsum_exchange. apply rsum_ext; intros i _. unfold pw. now rewrite rsum_scale.
  - intros a Ha.
    rewrite (rsum_ext p _ (fun c => rsum m (fun i => rsum m (fun j => (Cc i a * Cc j a) * (mmul m (mT Q) Y i c * mmul m (mT Q) Y j c))))).
    2:{ intros c _. rewrite (WY_expand a c Ha). simpl. rewrite Rmult_1_r.
        rewrite <- rsum_scale_r. apply rsum_ext; intros i _.
        rewrite <- rsum_scale. apply rsum_ext; intros; ring. }
    rewrite rsum_exchange. apply rsum_ext; intros i Hi.
    rewrite rsum_exchange.
    rewrite (rsum_ext m _ (fun j => delta i j * (Cc i a * Cc j a * lam i))).
    + rewrite rsum_delta by exact Hi. ring.
    + intros j Hj. rewrite rsum_scale. rewrite (Hdiag i j Hi Hj). ring.
Qed.

(* Bessel: p_i = ||W' q_i||^2 <= ||q_i||^2 = 1 *)
Lemma pw_le_1 i : (i < m)%nat -> pw i <= 1.
Proof.
  intros Hi. pose proof (orth_pythagoras_vec m r W HW (fun t => Q t i)) as H. cbv zeta beta in H.
  assert (E : rsum r (fun j => (rsum m (fun t => W t j * Q t i))^2) = pw i).
  { unfold pw, Cc. apply rsum_ext; intros a _. f_equal. apply rsum_ext; intros; ring. }
  rewrite E in H. rewrite (rsum_ext m (fun t => (Q t i)^2) (fun t => Q t i * Q t i)) in H by (intros; ring).
  rewrite (HQc i i Hi Hi) in H. unfold delta in H. rewrite Nat.eqb_refl in H.
  assert (0 <= rsum m (fun i0 => (Q i0 i - Av r W (fun j => rsum m (fun t => W t j * Q t i)) i0)^2)).
  { apply rsum_nonneg; intros. apply pow2_ge_0. }
  lra.
Qed.
Lemma pw_nonneg i : 0 <= pw i.
Proof. unfold pw. apply rsum_nonneg; intros. apply pow2_ge_0. Qed.

Lemma rsum_const n c : rsum n (fun _ => c) = INR n * c.
Proof. induction n; [simpl; ring|]. rewrite S_INR. simpl rsum. rewrite IHn. ring. Qed.

(* sum_i p_i = ||Q'W||_F^2 = ||W||_F^2 = r *)
Lemma pw_sum : rsum m pw = INR r.
Proof.
  unfold pw. rewrite rsum_exchange.
  rewrite (rsum_ext r _ (fun _ => 1)); [rewrite rsum_const; ring|].
  intros a Ha.
  pose proof (orth_isometry_vec m m (mT Q) HQr (fun t => W t a)) as H. unfold Av, mT in H.
  unfold Cc. rewrite H.
  rewrite (rsum_ext m _ (fun t => W t a * W t a)) by (intros; ring).
  rewrite (HW a a Ha Ha). unfold delta. now rewrite Nat.eqb_refl.
Qed.

Lemma lam_nonneg i : (i < m)%nat -> 0 <= lam i.
Proof.
  intros Hi. pose proof (Hdiag i i Hi Hi) as H. unfold delta in H. rewrite Nat.eqb_refl in H.
  rewrite Rmult_1_l in H. rewrite <- H. apply rsum_nonneg; intros.
  replace (mmul m (mT Q) Y i i0 * mmul m (mT Q) Y i i0) with ((mmul m (mT Q) Y i i0)^2) by ring. apply pow2_ge_0.
Qed.

Lemma rsum_split_app a b f : rsum (a + b) f = rsum a f + rsum b (fun i => f (a + i)%nat).
Proof.
  induction b.
  - rewrite Nat.add_0_r. simpl. ring.
  - rewrite Nat.add_succ_r. simpl. rewrite IHb. ring.
Qed.

(* Ky Fan's bound: ||W'Y||_F^2 <= sum of the r leading eigenvalues *)
Theorem ky_fan_bound : frob2 r p (mmul m (mT W) Y) <= rsum r lam.
Proof.
  rewrite WY_norm.
  assert (Ht : exists tau, (forall i, (i < r)%nat -> tau <= lam i) /\ (forall j, (r <= j)%nat -> (j < m)%nat -> lam j <= tau)).
  { destruct (Nat.eq_dec r m) as [E|E].
    - exists 0. split; [intros i Hi; apply lam_nonneg; lia | intros; lia].
    - exists (lam r). split; [intros i Hi; apply Hsort; lia | intros j Hj Hjm; apply Hsort; lia]. }
  destruct Ht as [tau [Hlo Hhi]].
  pose proof pw_sum as HS.
  replace m with (r + (m - r))%nat in HS |- * by lia.
  rewrite rsum_split_app in HS |- *.
  assert (H1 : rsum r (fun i => lam i * pw i) <= rsum r (fun i => lam i - tau * (1 - pw i))).
  { apply rsum_le; intros i Hi. pose proof (Hlo i Hi). pose proof (pw_le_1 i ltac:(lia)).
    assert (0 <= (lam i - tau) * (1 - pw i)) by (apply Rmult_le_pos; lra). lra. }
  assert (H2 : rsum (m - r) (fun i => lam (r + i)%nat * pw (r + i)%nat) <= rsum (m - r) (fun i => tau * pw (r + i)%nat)).
  { apply rsum_le; intros i Hi. pose proof (Hhi (r + i)%nat ltac:(lia) ltac:(lia)). pose proof (pw_nonneg (r + i)%nat).
    assert (0 <= (tau - lam (r + i)%nat) * pw (r + i)%nat) by (apply Rmult_le_pos; lra). lra. }
  rewrite rsum_sub, rsum_scale, rsum_sub, rsum_const in H1. rewrite rsum_scale in H2. nra.
Qed.
End KyFan.

(* the HOOI block (matrix level) with Ky Fan PROVED: the hypothesis is the spectral certificate (Q, lam) of Y Y' - data with a
   checkable contract - and the attained value of the new factor *)
Theorem hooi_block_descent_cert m r p (Uold Unew Y Q : fmat) (lam : nat -> R) :
  (r <= m)%nat -> orthonormal m m Q -> orthonormal m m (mT Q) ->
  (forall i j, (i < m)%nat -> (j < m)%nat -> rsum p (fun c => mmul m (mT Q) Y i c * mmul m (mT Q) Y j c) = delta i j * lam i) ->
  (forall i j, (i <= j)%nat -> (j < m)%nat -> lam j <= lam i) ->
  orthonormal m r Uold -> orthonormal m r Unew ->
  rsum r lam <= frob2 r p (mmul m (mT Unew) Y) ->
  frob2 m p (msub Y (mmul r Unew (mmul m (mT Unew) Y))) <= frob2 m p (msub Y (mmul r Uold (mmul m (mT Uold) Y))).
Proof.
  intros Hrm HQc HQr Hd Hs Ho Hn Hatt. apply hooi_block_descent_partial; try assumption.
  intros W HW. pose proof (ky_fan_bound m r p Y Q lam HQc HQr Hd Hs Hrm W HW). lra.
Qed.

(* ---------- orthogonal Procrustes ---------- *)
Section Procrustes.
Variables (J R' : nat) (Z A B : fmat) (sg : nat -> R).
(* contract of the thin SVD  Z = A diag(sg) B'  handed in as data *)
Hypothesis HA : forall k, (k < R')%nat -> rsum J (fun i => A i k * A i k) = 1.          (* unit columns (diagonal of A'A = I) *)
Hypothesis HB : orthonormal R' R' B.                                                     (* B'B = I *)
Hypothesis Hsg : forall k, (k < R')%nat -> 0 <= sg k.
Hypothesis HZ : forall i j, (i < J)%nat -> (j < R')%nat -> Z i j = rsum R' (fun k => A i k * sg k * B j k).

Variable W : fmat.
Hypothesis HW : orthonormal J R' W.

Lemma procrustes_expand : minner J R' W Z = rsum R' (fun k => sg k * rsum J (fun i => A i k * Av R' W (fun j => B j k) i)).
Proof.
  unfold minner.
  rewrite (rsum_ext J _ (fun i => rsum R' (fun k => rsum R' (fun j => W i j * (A i k * sg k * B j k))))).
  2:{ intros i Hi. rewrite rsum_exchange. apply rsum_ext; intros j Hj. rewrite (HZ i j Hi Hj). now rewrite rsum_scale. }
  rewrite rsum_exchange. apply rsum_ext; intros k _.
  rewrite <- rsum_scale. apply rsum_ext; intros i _. unfold Av.
  rewrite <- !rsum_scale. apply rsum_ext; intros; ring.
Qed.

Theorem procrustes_bound : minner J R' W Z <= rsum R' sg.
Proof.
  rewrite procrustes_expand. apply rsum_le; intros k Hk.
  set (v := Av R' W (fun j => B j k)).
  assert (Hv : rsum J (fun i => (v i)^2) = 1).
  { unfold v. rewrite (orth_isometry_vec J R' W HW).
    rewrite (rsum_ext R' _ (fun j => B j k * B j k)) by (intros; ring).
    rewrite (HB k k Hk Hk). unfold delta. now rewrite Nat.eqb_refl. }
  assert (Hd : 0 <= rsum J (fun i => (A i k - v i)^2)) by (apply rsum_nonneg; intros; apply pow2_ge_0).
  rewrite (rsum_ext J _ (fun i => A i k * A i k - 2 * (A i k * v i) + (v i)^2)) in Hd by (intros; ring).
  rewrite rsum_add, rsum_sub, rsum_scale, (HA k Hk), Hv in Hd.
  pose proof (Hsg k Hk).
  assert (rsum J (fun i => A i k * v i) <= 1) by lra.
  replace (sg k) with (sg k * 1) at 2 by ring. apply Rmult_le_compat_l; assumption.
Qed.
End Procrustes.

(* the PARAFAC2 projection block with the Procrustes optimality PROVED: the hypothesis is the thin SVD (A, sg, B) of X M' - data with
   a checkable contract - and the attained value of the new projection *)
Theorem parafac2_projection_descent_cert J R' K (Pold Pnew X M A B : fmat) (sg : nat -> R) :
  (forall k, (k < R')%nat -> rsum J (fun i => A i k * A i k) = 1) -> orthonormal R' R' B ->
  (forall k, (k < R')%nat -> 0 <= sg k) ->
  (forall i j, (i < J)%nat -> (j < R')%nat -> mmul K X (mT M) i j = rsum R' (fun k => A i k * sg k * B j k)) ->
  orthonormal J R' Pold -> orthonormal J R' Pnew ->
  rsum R' sg <= minner J R' Pnew (mmul K X (mT M)) ->
  frob2 J K (msub X (mmul R' Pnew M)) <= frob2 J K (msub X (mmul R' Pold M)).
Proof.
  intros HA HB Hs HZ Ho Hn Hatt. apply parafac2_projection_descent_partial; try assumption.
  intros W HW. pose proof (procrustes_bound J R' (mmul K X (mT M)) A B sg HA HB Hs HZ W HW). lra.
Qed.
