(* C07 -- reference forms of the REPORTED-error formulas, against which the terms regenerated from the current Python sources
   (harness/props/C07_ast.py) are re-checked on every run: the reference form is linked to the model once and for all here. *)
From Coq Require Import Reals Lra Psatz List Arith Lia RealField Bool.
From TLV Require Import Base.Shape Base.PyList Base.Tensor Base.Ops Base.BigSum Base.RSum Model.Descent Model.DescentReport
  Proofs.DescentProofs Proofs.DescentProofsOrth Proofs.DescentProofsSweeps Proofs.DescentProofsReport.
Import ListNotations.
Open Scope R_scope.

Lemma tnormsq_normsq (X : tensor R) : @tnormsq R Rops X = normsq X.
Proof. unfold tnormsq, normsq, fsq. rewrite gsum_rsum_fun. cbn [fmul f0 Rops]. apply rsum_ext; intros; ring. Qed.
Lemma normsq_nonneg (X : tensor R) : 0 <= normsq X.
Proof. unfold normsq. apply rsum_nonneg; intros. apply pow2_ge_0. Qed.
Lemma cp_norm2_gram_nonneg (s : list nat) (w : list R) (facs : list (list (list R))) (rank : nat) : 0 <= @cp_norm2_gram R Rops s w facs rank.
Proof. rewrite <- cp_recsq_gram. unfold rsum_idx. apply rsum_nonneg; intros. apply pow2_ge_0. Qed.
Lemma tk_core_norm2_nonneg (X : tensor R) rs Us : 0 <= @tk_core_norm2 R Rops X rs Us.
Proof. unfold tk_core_norm2. rewrite gsum_rsum_fun. apply rsum_nonneg; intros. unfold fsq. cbn [fmul Rops]. nra. Qed.
Lemma sqrt_pow2 a : 0 <= a -> (sqrt a)^2 = a.
Proof. intros Ha. simpl. rewrite Rmult_1_r. now apply sqrt_sqrt. Qed.

(* parafac (error_calc, fast branch) *)
Definition static_cp_err (nt fn ip : R) : R := sqrt (Rabs (nt^2 + fn^2 - 2 * ip)).
Theorem static_cp_reported (X : tensor R) (w : list R) (facs : list (list (list R))) (k rank : nat) :
  (k < length (shape X))%nat -> (k < length facs)%nat ->
  static_cp_err (sqrt (@tnormsq R Rops X)) (sqrt (@cp_norm2_gram R Rops (shape X) w facs rank)) (@cp_iprod R Rops X w facs k rank) / sqrt (@tnormsq R Rops X)
  = cp_rel_err X w rank facs.
Proof.
  intros Hk Hf. unfold static_cp_err, cp_rel_err, rel_err.
  rewrite !sqrt_pow2 by (rewrite ?tnormsq_normsq; first [apply normsq_nonneg | apply cp_norm2_gram_nonneg]).
  rewrite <- (cp_reported_is_sqerr X w facs k rank Hk Hf). unfold cp_err2_reported, two. cbn [fadd fsub fmul f1 Rops].
  rewrite tnormsq_normsq. reflexivity.
Qed.

(* partial_tucker *)
Definition static_tk_err (nt cn : R) : R := sqrt (Rabs (nt^2 - cn^2)) / nt.
Theorem static_tk_reported (X : tensor R) (rs : list nat) (Us : list (list (list R))) :
  static_tk_err (sqrt (normsq X)) (sqrt (@tk_core_norm2 R Rops X rs Us)) = tk_reported X rs Us.
Proof.
  unfold static_tk_err, tk_reported, rel_err.
  rewrite !sqrt_pow2 by first [apply normsq_nonneg | apply tk_core_norm2_nonneg]. reflexivity.
Qed.
