(* C07 -- from blocks to sweeps and histories for the algorithms that so far had block theorems only:
   HOOI (with Ky Fan PROVED from a spectral certificate, Proofs/DescentProofsSpec.v), tensor-ring ALS, and the composition of a
   CP-ALS sweep with the accept/reject decision of the line search; the REPORTED relative errors (square roots) inherit the
   monotonicity of the squared objective. *)
From Coq Require Import Reals Lra Psatz List Arith Lia RealField Bool.
From TLV Require Import Base.Shape Base.PyList Base.Tensor Base.Ops Base.BigSum Base.RSum Model.Descent
  Proofs.DescentProofs Proofs.DescentProofsLink Proofs.DescentProofsOrth Proofs.DescentProofsTucker Proofs.DescentProofsUnfold
  Proofs.DescentProofsTR Proofs.DescentProofsSpec.
Import ListNotations.
Open Scope R_scope.

(* ---------- generic: a sweep is a fold of blocks, each descending under its side condition at the visited state ---------- *)
Section Folds.
Variables (St B : Type) (f : St -> R) (blk : St -> B -> St) (bok : St -> B -> Prop).
Hypothesis Hblk : forall s b, bok s b -> f (blk s b) <= f s.
Fixpoint fold_ok (bs : list B) (s : St) : Prop :=
  match bs with [] => True | b :: bs' => bok s b /\ fold_ok bs' (blk s b) end.
Theorem fold_descent : forall bs s, fold_ok bs s -> f (fold_left blk bs s) <= f s.
Proof.
  induction bs as [|b bs IH]; intros s Hok; simpl in *; [lra|].
  destruct Hok as [Hb Hr]. eapply Rle_trans; [apply IH; exact Hr | apply Hblk; exact Hb].
Qed.
End Folds.

(* ---------- generic: ALS sweep followed by the accept/reject decision of a line search ----------
   the extrapolated point `jump s (sweep s)` is arbitrary; it replaces the ALS iterate only if its error is strictly below the
   error of the previous iterate (parafac: `new_rec_error / norm < rec_errors[-1]`) *)
Section LineSearch.
Variables (St : Type) (f : St -> R) (sweep : St -> St) (jump : St -> St -> St) (ok : St -> Prop).
Hypothesis Hsweep : forall s, ok s -> f (sweep s) <= f s.
Definition ls_step (s : St) : St := ls_choose St f (f s) (sweep s) (jump s (sweep s)).
Theorem ls_step_descent s : ok s -> f (ls_step s) <= f s.
Proof. intros H. unfold ls_step. apply linesearch_descent. apply Hsweep; exact H. Qed.
Theorem ls_history_monotone n s : run_ok St ls_step ok n s -> forall i j, (i <= j)%nat -> (j <= n)%nat ->
  f (Nat.iter j ls_step s) <= f (Nat.iter i ls_step s).
Proof. apply (history_monotone St f ls_step ok). exact ls_step_descent. Qed.
End LineSearch.

(* ---------- reported relative errors: sqrt(|objective|) / ||X|| is monotone in the objective ---------- *)
Definition rel_err (normsq obj : R) : R := sqrt (Rabs obj) / sqrt normsq.
Lemma rel_err_monotone normsq a b : 0 <= a -> a <= b -> rel_err normsq a <= rel_err normsq b.
Proof.
  intros Ha Hab. unfold rel_err. rewrite !Rabs_pos_eq by lra.
  unfold Rdiv. apply Rmult_le_compat_r.
  - destruct (Rle_dec 0 normsq) as [H|H].
    + destruct (Req_dec normsq 0) as [->|Hn]; [rewrite sqrt_0, Rinv_0; lra|].
      left. apply Rinv_0_lt_compat. apply sqrt_lt_R0. lra.
    + rewrite sqrt_neg_0 by lra. rewrite Rinv_0. lra.
  - apply sqrt_le_1; lra.
Qed.

(* ---------- HOOI ---------- *)
Definition normsq (X : tensor R) : R := rsum (prod (shape X)) (fun o => (nth o (data X) 0)^2).

(* the spectral certificate of the unfolding handed to the SVD of a block: a full eigen-decomposition (Q, lam) of Y_k Y_k' as data *)
Definition spectral_cert (m p : nat) (Y Q : fmat) (lam : nat -> R) : Prop :=
  orthonormal m m Q /\ orthonormal m m (mT Q) /\
  (forall i j, (i < m)%nat -> (j < m)%nat -> rsum p (fun c => mmul m (mT Q) Y i c * mmul m (mT Q) Y j c) = delta i j * lam i) /\
  (forall i j, (i <= j)%nat -> (j < m)%nat -> lam j <= lam i).

Lemma orth_all_nth : forall s rs Us k, orth_all s rs Us -> (k < length s)%nat ->
  orthonormal (nth k s 0%nat) (nth k rs 0%nat) (@mget R Rops (nth k Us [])).
Proof.
  induction s as [|d0 s IH]; intros [|r0 rs] [|U Us] k Ho Hk; simpl in *; try lia; try tauto.
  destruct Ho as (H0 & Ho). destruct k as [|k]; [exact H0|]. apply (IH rs Us k Ho); lia.
Qed.

(* HOOI block on the Tucker objective, Ky Fan proved: the hypotheses are contracts on recorded answers (the new factor has orthonormal
   columns; (Q, lam) is an eigen-decomposition of Y_k Y_k'; the new factor attains the sum of the r_k leading eigenvalues) *)
Theorem hooi_unfolding_block_descent_cert (X : tensor R) (rs : list nat) (Us : list (list (list R))) (k : nat) (Unew : list (list R))
  (Q : fmat) (lam : nat -> R) :
  (k < length (shape X))%nat -> length rs = length (shape X) -> (k < length Us)%nat -> (nth k rs 0 <= nth k (shape X) 0)%nat ->
  orth_all (shape X) rs Us -> orth_all (shape X) rs (set_nth k Unew Us) ->
  spectral_cert (nth k (shape X) 0%nat) (prod (set_nth k 1%nat rs)) (unfold_k X rs Us k) Q lam ->
  rsum (nth k rs 0%nat) lam
    <= frob2 (nth k rs 0%nat) (prod (set_nth k 1%nat rs)) (mmul (nth k (shape X) 0%nat) (mT (@mget R Rops Unew)) (unfold_k X rs Us k)) ->
  @tk_hooi_obj R Rops X rs (set_nth k Unew Us) <= @tk_hooi_obj R Rops X rs Us.
Proof.
  intros Hk Hl HU Hrm Ho Hn (HQc & HQr & Hd & Hs) Hatt.
  apply hooi_unfolding_block_descent_partial; try assumption.
  intros W HW.
  pose proof (ky_fan_bound _ _ _ _ Q lam HQc HQr Hd Hs Hrm W HW). lra.
Qed.

(* HOOI sweeps: the SVD is an oracle `svd Us k` (the new factor of mode k at state Us); its contract is required at the visited states *)
Section HooiSweep.
Variables (X : tensor R) (rs : list nat) (svd : list (list (list R)) -> nat -> list (list R)).
Definition hooi_block (Us : list (list (list R))) (k : nat) : list (list (list R)) := set_nth k (svd Us k) Us.
Definition hooi_sweep (modes : list nat) (Us : list (list (list R))) : list (list (list R)) := fold_left hooi_block modes Us.
Definition hooi_block_ok (Us : list (list (list R))) (k : nat) : Prop :=
  (k < length (shape X))%nat /\ length rs = length (shape X) /\ (k < length Us)%nat /\ (nth k rs 0 <= nth k (shape X) 0)%nat /\
  orth_all (shape X) rs Us /\ orth_all (shape X) rs (hooi_block Us k) /\
  exists (Q : fmat) (lam : nat -> R),
    spectral_cert (nth k (shape X) 0%nat) (prod (set_nth k 1%nat rs)) (unfold_k X rs Us k) Q lam /\
    rsum (nth k rs 0%nat) lam
      <= frob2 (nth k rs 0%nat) (prod (set_nth k 1%nat rs)) (mmul (nth k (shape X) 0%nat) (mT (@mget R Rops (svd Us k))) (unfold_k X rs Us k)).
Definition hooi_sweep_ok := fold_ok _ _ hooi_block hooi_block_ok.

Lemma hooi_block_descent Us k : hooi_block_ok Us k -> @tk_hooi_obj R Rops X rs (hooi_block Us k) <= @tk_hooi_obj R Rops X rs Us.
Proof.
  intros (Hk & Hl & HU & Hrm & Ho & Hn & Q & lam & Hc & Hatt). unfold hooi_block in *.
  eapply hooi_unfolding_block_descent_cert; eassumption.
Qed.

Theorem hooi_sweep_descent modes Us : hooi_sweep_ok modes Us ->
  @tk_hooi_obj R Rops X rs (hooi_sweep modes Us) <= @tk_hooi_obj R Rops X rs Us.
Proof. apply (fold_descent _ _ (@tk_hooi_obj R Rops X rs) hooi_block hooi_block_ok hooi_block_descent). Qed.

Theorem hooi_history_monotone modes Us n : run_ok _ (hooi_sweep modes) (hooi_sweep_ok modes) n Us ->
  forall i j, (i <= j)%nat -> (j <= n)%nat ->
  @tk_hooi_obj R Rops X rs (Nat.iter j (hooi_sweep modes) Us) <= @tk_hooi_obj R Rops X rs (Nat.iter i (hooi_sweep modes) Us).
Proof.
  apply (history_monotone _ (@tk_hooi_obj R Rops X rs) (hooi_sweep modes) (hooi_sweep_ok modes)).
  intros s Hs. apply hooi_sweep_descent; exact Hs.
Qed.

(* what partial_tucker reports after a sweep: sqrt(| ||X||^2 - ||core||^2 |) / ||X||.  At states whose factors have orthonormal columns
   this is sqrt(objective)/||X||, so the reported errors are non-increasing along the run *)
Definition tk_reported (Us : list (list (list R))) : R := rel_err (normsq X) (normsq X - @tk_core_norm2 R Rops X rs Us).

Lemma tk_obj_nonneg Us : 0 <= @tk_hooi_obj R Rops X rs Us.
Proof.
  unfold tk_hooi_obj, tk_sqerr. rewrite gsum_rsum_fun. apply rsum_nonneg; intros o _.
  unfold fsq. cbn [fmul Rops]. nra.
Qed.

Theorem hooi_reported_monotone modes Us n :
  run_ok _ (hooi_sweep modes) (hooi_sweep_ok modes) n Us ->
  (forall i, (i <= n)%nat -> orth_all (shape X) rs (Nat.iter i (hooi_sweep modes) Us)) ->
  forall i j, (i <= j)%nat -> (j <= n)%nat ->
  tk_reported (Nat.iter j (hooi_sweep modes) Us) <= tk_reported (Nat.iter i (hooi_sweep modes) Us).
Proof.
  intros Hrun Horth i j Hij Hj. unfold tk_reported.
  rewrite <- !(tucker_residual X rs) by (apply Horth; lia). fold (normsq X).
  apply rel_err_monotone; [apply tk_obj_nonneg|]. apply hooi_history_monotone with (n := n); assumption.
Qed.
End HooiSweep.

(* ---------- tensor-ring ALS sweeps ---------- *)
Lemma set_nth_app_len {A} (v g : A) : forall pre post, set_nth (length pre) v (pre ++ g :: post) = pre ++ v :: post.
Proof. induction pre as [|x pre IH]; intros post; simpl; [reflexivity|]. now rewrite IH. Qed.

Section TRSweep.
Variables (X : tensor R) (lsq : list (tensor R) -> nat -> tensor R).     (* the least-squares solver of a block as an oracle *)
Definition tr_blk (cs : list (tensor R)) (dim : nat) : list (tensor R) := set_nth dim (lsq cs dim) cs.
Definition tr_sweep (dims : list nat) (cs : list (tensor R)) : list (tensor R) := fold_left tr_blk dims cs.
(* contract at a visited state: the ring is well formed around the updated core, the answer keeps the bond ranks and satisfies the
   normal equations of the MODEL's sub-chain design matrix *)
Definition tr_blk_ok (cs : list (tensor R)) (dim : nat) : Prop :=
  exists pre G post, cs = pre ++ G :: post /\ dim = length pre /\ length (shape X) = S (length (pre ++ post)) /\
    let G' := lsq cs dim in
    let r1 := nth 0 (shape (nth 0 (pre ++ G :: post) (mk [] []))) 0%nat in
    let r1' := nth 0 (shape (nth 0 (pre ++ G' :: post) (mk [] []))) 0%nat in
    chain_ok r1 pre (nth 0 (shape G) 0%nat) /\ chain_ok (nth 2 (shape G) 0%nat) post r1 /\
    chain_ok r1' pre (nth 0 (shape G') 0%nat) /\ chain_ok (nth 2 (shape G') 0%nat) post r1' /\
    nth 0 (shape G') 0%nat = nth 0 (shape G) 0%nat /\ nth 2 (shape G') 0%nat = nth 2 (shape G) 0%nat /\ (0 < nth 2 (shape G) 0)%nat /\
    (forall i j, (i < nth (length pre) (shape X) 0)%nat -> (j < nth 0 (shape G') 0 * nth 2 (shape G') 0)%nat ->
       @tr_normal_lhs R Rops X (pre ++ G :: post) (length pre) G' i j = 0).
Definition tr_sweep_ok := fold_ok _ _ tr_blk tr_blk_ok.

Lemma tr_blk_descent cs dim : tr_blk_ok cs dim -> @tr_sqerr R Rops X (tr_blk cs dim) <= @tr_sqerr R Rops X cs.
Proof.
  intros (pre & G & post & -> & -> & Hlen & H). cbv zeta in H.
  destruct H as (H1 & H2 & H1' & H2' & Ha & Hb & Hrb & Hne).
  unfold tr_blk. rewrite set_nth_app_len.
  exact (tr_block_descent X pre post Hlen G _ H1 H2 H1' H2' Ha Hb Hrb Hne).
Qed.

Theorem tr_sweep_descent dims cs : tr_sweep_ok dims cs -> @tr_sqerr R Rops X (tr_sweep dims cs) <= @tr_sqerr R Rops X cs.
Proof. apply (fold_descent _ _ (@tr_sqerr R Rops X) tr_blk tr_blk_ok tr_blk_descent). Qed.

Theorem tr_history_monotone dims cs n : run_ok _ (tr_sweep dims) (tr_sweep_ok dims) n cs ->
  forall i j, (i <= j)%nat -> (j <= n)%nat ->
  @tr_sqerr R Rops X (Nat.iter j (tr_sweep dims) cs) <= @tr_sqerr R Rops X (Nat.iter i (tr_sweep dims) cs).
Proof.
  apply (history_monotone _ (@tr_sqerr R Rops X) (tr_sweep dims) (tr_sweep_ok dims)).
  intros s Hs. apply tr_sweep_descent; exact Hs.
Qed.

(* tensor_ring_als reports ||X - TR(cores)|| / ||X|| after every sweep: non-increasing *)
Lemma tr_sqerr_nonneg cs : 0 <= @tr_sqerr R Rops X cs.
Proof. unfold tr_sqerr. rewrite gsum_rsum_fun. apply rsum_nonneg; intros o _. unfold fsq. cbn [fmul Rops]. nra. Qed.
Theorem tr_reported_monotone dims cs n : run_ok _ (tr_sweep dims) (tr_sweep_ok dims) n cs ->
  forall i j, (i <= j)%nat -> (j <= n)%nat ->
  rel_err (normsq X) (@tr_sqerr R Rops X (Nat.iter j (tr_sweep dims) cs)) <= rel_err (normsq X) (@tr_sqerr R Rops X (Nat.iter i (tr_sweep dims) cs)).
Proof.
  intros Hrun i j Hij Hj. apply rel_err_monotone; [apply tr_sqerr_nonneg|]. apply tr_history_monotone with (n := n); assumption.
Qed.
End TRSweep.

(* ---------- CP-ALS with line search, and the reported errors of parafac ---------- *)
Section CPLineSearch.
Variables (X : tensor R) (w : list R) (rank : nat) (solve : list (list R) -> list (list R) -> list (list R)) (modes : list nat).
Variable jump : list (list (list R)) -> list (list (list R)) -> list (list (list R)).   (* extrapolated point: arbitrary *)
(* the quantity parafac compares and reports (l2_reg = 0): the relative error sqrt(||X - [[w; A..]]||^2) / ||X|| *)
Definition cp_rel_err (facs : list (list (list R))) : R := rel_err (normsq X) (@cp_sqerr R Rops X w facs rank).
Definition cp_ls_iter := ls_step _ cp_rel_err (@cp_sweep R Rops solve X w 0 rank modes) jump.

Lemma cp_sqerr_ge0 facs : 0 <= @cp_sqerr R Rops X w facs rank.
Proof. unfold cp_sqerr. rewrite gsum_rsum_fun. apply rsum_nonneg; intros o _. unfold fsq. cbn [fmul Rops]. nra. Qed.

Lemma cp_obj_all_lam0 facs : @cp_obj_all R Rops X w facs 0 rank = @cp_sqerr R Rops X w facs rank.
Proof. unfold cp_obj_all. cbn [fadd fmul Rops]. ring. Qed.

Lemma cp_sweep_rel_descent facs : sweep_ok X w 0 rank solve modes facs ->
  cp_rel_err (@cp_sweep R Rops solve X w 0 rank modes facs) <= cp_rel_err facs.
Proof.
  intros Hok. unfold cp_rel_err. apply rel_err_monotone; [apply cp_sqerr_ge0|].
  rewrite <- !cp_obj_all_lam0. apply cp_sweep_descent; [lra | exact Hok].
Qed.

(* iterations of parafac(linesearch=True): whatever the extrapolation proposes, the reported relative errors are non-increasing *)
Theorem cp_ls_history_monotone facs n : run_ok _ cp_ls_iter (sweep_ok X w 0 rank solve modes) n facs ->
  forall i j, (i <= j)%nat -> (j <= n)%nat -> cp_rel_err (Nat.iter j cp_ls_iter facs) <= cp_rel_err (Nat.iter i cp_ls_iter facs).
Proof. apply ls_history_monotone. exact cp_sweep_rel_descent. Qed.

(* without line search: the reported relative errors of plain CP-ALS runs *)
Theorem cp_reported_monotone facs n : run_ok _ (@cp_sweep R Rops solve X w 0 rank modes) (sweep_ok X w 0 rank solve modes) n facs ->
  forall i j, (i <= j)%nat -> (j <= n)%nat ->
  cp_rel_err (Nat.iter j (@cp_sweep R Rops solve X w 0 rank modes) facs) <= cp_rel_err (Nat.iter i (@cp_sweep R Rops solve X w 0 rank modes) facs).
Proof.
  apply (history_monotone _ cp_rel_err (@cp_sweep R Rops solve X w 0 rank modes) (sweep_ok X w 0 rank solve modes)). exact cp_sweep_rel_descent.
Qed.
End CPLineSearch.
