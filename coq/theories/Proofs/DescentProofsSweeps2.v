(* C07 -- sweeps and histories (continued): coupled matrix-tensor ALS (the quantity it reports IS the objective), the ridge ALS of the
   CP regressor, and PARAFAC2 (projections with the Procrustes optimality PROVED from a thin-SVD certificate, coupled with an inner
   CP step on the projected slices by the Pythagoras identity  ||X - P M||^2 = ||X||^2 - ||P'X||^2 + ||P'X - M||^2). *)
From Coq Require Import Reals Lra Psatz List Arith Lia RealField Bool.
From TLV Require Import Base.Shape Base.PyList Base.Tensor Base.Ops Base.BigSum Base.RSum Model.Descent
  Proofs.DescentProofs Proofs.DescentProofsLink Proofs.DescentProofsOrth Proofs.DescentProofsReg Proofs.DescentProofsCmtf
  Proofs.DescentProofsSpec Proofs.DescentProofsSweeps.
Import ListNotations.
Open Scope R_scope.

(* ---------- CMTF ---------- *)
Section CmtfSweep.
Variables (X : tensor R) (Y : list (list R)) (w : list R) (q rank : nat).
Let s := shape X.
Let d0 := nth 0 s 0%nat.

(* V block:  V = lstsq(A, Y)'  - normal equations  A'(Y - A V') = 0  column by column *)
Definition cmtf_V_normal (A V : list (list R)) : Prop :=
  forall j r, (j < q)%nat -> (r < rank)%nat ->
    rsum d0 (fun i => @mget R Rops A i r * (@mget R Rops Y i j - rsum rank (fun t => @mget R Rops A i t * @mget R Rops V j t))) = 0.
Lemma cmtf_V_block_minimises (A V Z : list (list R)) : cmtf_V_normal A V ->
  @cmtf_fit_Y R Rops Y A V d0 q rank <= @cmtf_fit_Y R Rops Y A Z d0 q rank.
Proof.
  intros Hn. unfold cmtf_fit_Y. rewrite !gsum_rsum_fun.
  rewrite (rsum_exchange d0 q), (rsum_exchange d0 q). apply rsum_le; intros j Hj.
  pose proof (normal_eq_minimises d0 rank (fun i t => @mget R Rops A i t) (fun i => @mget R Rops Y i j) 0
                (fun t => @mget R Rops V j t) (fun t => @mget R Rops Z j t) (Rle_refl 0)) as H.
  unfold ls_obj, Av in H. rewrite !Rmult_0_l, !Rplus_0_r in H.
  unfold fsq. cbn [fsub fmul Rops].
  rewrite (rsum_ext d0 _ (fun i => (@mget R Rops Y i j - rsum rank (fun t => @mget R Rops A i t * @mget R Rops V j t))^2)) by (intros; ring).
  rewrite (rsum_ext d0 (fun i => _ * _) (fun i => (@mget R Rops Y i j - rsum rank (fun t => @mget R Rops A i t * @mget R Rops Z j t))^2)) by (intros; ring).
  apply H. intros r Hr. rewrite (Hn j r Hj Hr). ring.
Qed.

Variables (lsV : list (list (list R)) -> list (list R) -> list (list R))          (* lstsq of the V block *)
          (solve : list (list R) -> list (list R) -> list (list R))                  (* solver of the uncoupled blocks *)
          (lsA : list (list (list R)) -> list (list R) -> list (list R))           (* lstsq of the coupled block *)
          (modes : list nat).                                                        (* the uncoupled modes, in the order of the code *)
Definition cmtf_state : Type := (list (list (list R)) * list (list R))%type.
Definition cmtf_iter (st : cmtf_state) : cmtf_state :=
  let V1 := lsV (fst st) (snd st) in
  let facs1 := @cp_sweep R Rops solve X w 0 rank modes (fst st) in
  (set_nth 0 (lsA facs1 V1) facs1, V1).
Definition cmtf_f (st : cmtf_state) : R := @cmtf_obj R Rops X Y w (fst st) (snd st) q rank.
Definition cmtf_iter_ok (st : cmtf_state) : Prop :=
  let V1 := lsV (fst st) (snd st) in
  let facs1 := @cp_sweep R Rops solve X w 0 rank modes (fst st) in
  (0 < length s)%nat /\ (0 < length facs1)%nat /\ (0 < d0)%nat /\ Forall (fun k => k <> 0%nat) modes /\
  cmtf_V_normal (nth 0 (fst st) []) V1 /\
  sweep_ok X w 0 rank solve modes (fst st) /\
  (forall i r, (i < d0)%nat -> (r < rank)%nat ->
     @cmtf_cert_lhs R Rops s w facs1 V1 q rank (lsA facs1 V1) i r = @cmtf_M R Rops X Y w facs1 V1 q i r).

Lemma cp_sweep_keeps_0 : forall ms facs, Forall (fun k => k <> 0%nat) ms ->
  nth 0 (@cp_sweep R Rops solve X w 0 rank ms facs) [] = nth 0 facs [].
Proof.
  unfold cp_sweep. induction ms as [|k ms IH]; intros facs Hf; simpl; [reflexivity|].
  inversion Hf; subst. rewrite IH by assumption.
  unfold cp_block. apply nth_set_nth_other. congruence.
Qed.

Theorem cmtf_iter_descent st : cmtf_iter_ok st -> cmtf_f (cmtf_iter st) <= cmtf_f st.
Proof.
  destruct st as [facs V]. unfold cmtf_iter_ok, cmtf_iter, cmtf_f. cbn [fst snd]. cbv zeta.
  intros (Hs & Hf1 & Hd & Hm & HV & Hsw & Hc).
  set (V1 := lsV facs V) in *. set (facs1 := @cp_sweep R Rops solve X w 0 rank modes facs) in *.
  (* coupled block *)
  pose proof (cmtf_coupled_block_minimises X Y w facs1 V1 q rank Hs Hf1 (lsA facs1 V1) (nth 0 facs1 []) Hd Hc) as H3.
  rewrite set_nth_nth_id in H3.
  (* uncoupled blocks: the tensor part descends, the matrix part only sees factor 0 *)
  assert (H2 : @cmtf_obj R Rops X Y w facs1 V1 q rank <= @cmtf_obj R Rops X Y w facs V1 q rank).
  { unfold cmtf_obj. cbn [fadd Rops]. unfold facs1 at 2. rewrite (cp_sweep_keeps_0 modes facs Hm).
    apply Rplus_le_compat_r. rewrite <- !(cp_obj_all_lam0 X w rank). apply cp_sweep_descent; [lra | exact Hsw]. }
  (* V block *)
  assert (H1 : @cmtf_obj R Rops X Y w facs V1 q rank <= @cmtf_obj R Rops X Y w facs V q rank).
  { unfold cmtf_obj. cbn [fadd Rops]. apply Rplus_le_compat_l. apply cmtf_V_block_minimises. exact HV. }
  fold s d0 in H3. lra.
Qed.

(* the errors coupled_matrix_tensor_3d_factorization reports ARE the values of this objective: non-increasing along the run *)
Theorem cmtf_history_monotone st n : run_ok _ cmtf_iter cmtf_iter_ok n st ->
  forall i j, (i <= j)%nat -> (j <= n)%nat -> cmtf_f (Nat.iter j cmtf_iter st) <= cmtf_f (Nat.iter i cmtf_iter st).
Proof. apply (history_monotone _ cmtf_f cmtf_iter cmtf_iter_ok). exact cmtf_iter_descent. Qed.
End CmtfSweep.

(* ---------- CP regressor: whole sweeps of the ridge ALS ---------- *)
Section CPRegSweep.
Variables (Xsl : list (tensor R)) (ysl : list R) (sh : list nat) (w : list R) (rank : nat) (reg : R).
Variable slv : list (list (list R)) -> nat -> list (list R).          (* tl.solve of the block of mode k at the current factors *)
Definition fnorm2 (A : list (list R)) (d : nat) : R := rsum d (fun i => rsum rank (fun r => (@mget R Rops A i r)^2)).
Definition cpreg_fit (facs : list (list (list R))) : R :=
  rsum (length Xsl) (fun s => (nth s ysl 0 - @cp_inner R Rops (nth s Xsl (mk [] [])) w facs rank)^2).
(* the regressor's objective: ||y - predictions||^2 + reg * sum over ALL modes of ||W_j||_F^2 *)
Definition cpreg_obj_all (facs : list (list (list R))) : R :=
  cpreg_fit facs + reg * rsum (length sh) (fun j => fnorm2 (nth j facs []) (nth j sh 0%nat)).

Lemma cpreg_obj_unfold facs k : @cpreg_obj R Rops Xsl ysl w facs k (nth k sh 0%nat) rank reg = cpreg_fit facs + reg * fnorm2 (nth k facs []) (nth k sh 0%nat).
Proof.
  unfold cpreg_obj, cpreg_fit, fnorm2, fsq, vget. rewrite !gsum_rsum_fun. cbn [fadd fsub fmul f0 Rops].
  f_equal; [apply rsum_ext; intros; ring|]. f_equal. apply rsum_ext; intros i _. apply rsum_ext; intros; ring.
Qed.
Lemma cpreg_obj_all_split facs k : (k < length sh)%nat ->
  cpreg_obj_all facs = @cpreg_obj R Rops Xsl ysl w facs k (nth k sh 0%nat) rank reg
     + reg * rsum (length sh) (fun j => if Nat.eqb j k then 0 else fnorm2 (nth j facs []) (nth j sh 0%nat)).
Proof.
  intros Hk. rewrite cpreg_obj_unfold. unfold cpreg_obj_all.
  rewrite (rsum_split (length sh) k (fun j => fnorm2 (nth j facs []) (nth j sh 0%nat))) by exact Hk.
  rewrite Rmult_plus_distr_l, Rplus_assoc. reflexivity.
Qed.

Definition cpreg_blk (facs : list (list (list R))) (k : nat) : list (list (list R)) := set_nth k (slv facs k) facs.
Definition cpreg_blk_ok (facs : list (list (list R))) (k : nat) : Prop :=
  (forall X, In X Xsl -> shape X = sh) /\ (k < length sh)%nat /\ (k < length facs)%nat /\ (0 < rank)%nat /\
  forall i r, (i < nth k sh 0)%nat -> (r < rank)%nat ->
     @cpreg_normal_lhs R Rops Xsl ysl w facs k rank (slv facs k) i r = reg * @mget R Rops (slv facs k) i r.
Hypothesis Hreg : 0 <= reg.

Lemma cpreg_blk_descent facs k : cpreg_blk_ok facs k -> cpreg_obj_all (cpreg_blk facs k) <= cpreg_obj_all facs.
Proof.
  intros (Hsh & Hk & Hf & Hr & Hne). unfold cpreg_blk.
  pose proof (cpreg_block_minimises_l Xsl ysl sh w facs k rank reg (slv facs k) (nth k facs []) Hsh Hk Hf Hr Hreg Hne) as H.
  rewrite set_nth_nth_id in H.
  rewrite !(cpreg_obj_all_split _ k Hk).
  assert (E : rsum (length sh) (fun j => if Nat.eqb j k then 0 else fnorm2 (nth j (set_nth k (slv facs k) facs) []) (nth j sh 0%nat))
            = rsum (length sh) (fun j => if Nat.eqb j k then 0 else fnorm2 (nth j facs []) (nth j sh 0%nat))).
  { apply rsum_ext; intros j _. destruct (Nat.eqb_spec j k) as [E|E]; [reflexivity|]. now rewrite nth_set_nth_other. }
  rewrite E. lra.
Qed.

Definition cpreg_sweep (modes : list nat) (facs : list (list (list R))) := fold_left cpreg_blk modes facs.
Definition cpreg_sweep_ok := fold_ok _ _ cpreg_blk cpreg_blk_ok.
Theorem cpreg_sweep_descent modes facs : cpreg_sweep_ok modes facs -> cpreg_obj_all (cpreg_sweep modes facs) <= cpreg_obj_all facs.
Proof. apply (fold_descent _ _ cpreg_obj_all cpreg_blk cpreg_blk_ok cpreg_blk_descent). Qed.
Theorem cpreg_history_monotone modes facs n : run_ok _ (cpreg_sweep modes) (cpreg_sweep_ok modes) n facs ->
  forall i j, (i <= j)%nat -> (j <= n)%nat ->
  cpreg_obj_all (Nat.iter j (cpreg_sweep modes) facs) <= cpreg_obj_all (Nat.iter i (cpreg_sweep modes) facs).
Proof.
  apply (history_monotone _ cpreg_obj_all (cpreg_sweep modes) (cpreg_sweep_ok modes)). intros s Hs. apply cpreg_sweep_descent; exact Hs.
Qed.
End CPRegSweep.

(* ---------- PARAFAC2: projections coupled with the CP step on the projected slices ---------- *)
Lemma frob2_diff m p (A B : fmat) : frob2 m p (msub A B) = frob2 m p A - 2 * minner m p A B + frob2 m p B.
Proof.
  unfold frob2, minner, msub. rewrite <- rsum_scale, <- rsum_sub, <- rsum_add. apply rsum_ext; intros i _.
  rewrite <- rsum_scale, <- rsum_sub, <- rsum_add. apply rsum_ext; intros; ring.
Qed.
(* <P'X, M> = <P, X M'> *)
Lemma minner_adjoint J R' K (P X M : fmat) : minner R' K (mmul J (mT P) X) M = minner J R' P (mmul K X (mT M)).
Proof.
  unfold minner, mmul, mT.
  rewrite (rsum_ext R' _ (fun j => rsum J (fun i => rsum K (fun c => P i j * (X i c * M j c))))).
  2:{ intros j _. symmetry. rewrite rsum_exchange. apply rsum_ext; intros c _. rewrite <- rsum_scale_r. apply rsum_ext; intros; ring. }
  rewrite rsum_exchange. apply rsum_ext; intros i _. apply rsum_ext; intros j _. now rewrite rsum_scale.
Qed.
(* Pythagoras: for P with orthonormal columns  ||X - P M||^2 = ||X||^2 - ||P'X||^2 + ||P'X - M||^2 :
   with the projection fixed, the slice residual and the residual of the PROJECTED slice differ by a constant *)
Theorem parafac2_pythagoras J R' K (P X M : fmat) : orthonormal J R' P ->
  frob2 J K (msub X (mmul R' P M)) = frob2 J K X - frob2 R' K (mmul J (mT P) X) + frob2 R' K (msub (mmul J (mT P) X) M).
Proof. intros HP. rewrite (parafac2_residual J R' K P X M HP), frob2_diff, minner_adjoint. ring. Qed.

Section P2.
Variables (I : nat) (J : nat -> nat) (R' K : nat) (X : nat -> fmat).
Variables (Th : Type) (Mof : Th -> nat -> fmat).            (* M_i = B diag(a_i) C' as a function of the CP factors *)
Variables (proj : Th -> nat -> fmat)                         (* _compute_projections: the SVD is an oracle *)
          (cpstep : (nat -> fmat) -> Th -> Th).              (* the inner CP-ALS sweeps on the projected tensor *)
Definition p2_state : Type := ((nat -> fmat) * Th)%type.
Definition p2_obj (st : p2_state) : R := rsum I (fun i => frob2 (J i) K (msub (X i) (mmul R' (fst st i) (Mof (snd st) i)))).
Definition p2_proj_obj (Ps : nat -> fmat) (th : Th) : R := rsum I (fun i => frob2 R' K (msub (mmul (J i) (mT (Ps i)) (X i)) (Mof th i))).
Definition p2_iter (st : p2_state) : p2_state := let Ps' := proj (snd st) in (Ps', cpstep Ps' (snd st)).
(* contract at a visited state: orthonormal projections before and after, a thin-SVD certificate of every cross product X_i M_i'
   whose nuclear norm the new projection attains, and the inner CP step does not increase the error of the projected tensor
   (C07_cp_sweep_descent / C07_nn_sweep_descent on the tensor of projected slices) *)
Definition p2_iter_ok (st : p2_state) : Prop :=
  let Ps := fst st in let th := snd st in let Ps' := proj th in
  (forall i, (i < I)%nat -> orthonormal (J i) R' (Ps i) /\ orthonormal (J i) R' (Ps' i) /\
     exists (A B : fmat) (sg : nat -> R),
       (forall k, (k < R')%nat -> rsum (J i) (fun t => A t k * A t k) = 1) /\ orthonormal R' R' B /\ (forall k, (k < R')%nat -> 0 <= sg k) /\
       (forall a b, (a < J i)%nat -> (b < R')%nat -> mmul K (X i) (mT (Mof th i)) a b = rsum R' (fun k => A a k * sg k * B b k)) /\
       rsum R' sg <= minner (J i) R' (Ps' i) (mmul K (X i) (mT (Mof th i)))) /\
  p2_proj_obj Ps' (cpstep Ps' th) <= p2_proj_obj Ps' th.

Theorem p2_iter_descent st : p2_iter_ok st -> p2_obj (p2_iter st) <= p2_obj st.
Proof.
  destruct st as [Ps th]. unfold p2_iter_ok, p2_iter, p2_obj. cbn [fst snd]. cbv zeta. intros [Hpr Hcp].
  set (Ps' := proj th) in *.
  (* projections: slice by slice *)
  assert (H1 : rsum I (fun i => frob2 (J i) K (msub (X i) (mmul R' (Ps' i) (Mof th i))))
            <= rsum I (fun i => frob2 (J i) K (msub (X i) (mmul R' (Ps i) (Mof th i))))).
  { apply rsum_le; intros i Hi. destruct (Hpr i Hi) as (Ho & Hn & A & B & sg & HA & HB & Hs & HZ & Hatt).
    exact (parafac2_projection_descent_cert (J i) R' K (Ps i) (Ps' i) (X i) (Mof th i) A B sg HA HB Hs HZ Ho Hn Hatt). }
  (* CP step with the projections fixed: Pythagoras slice by slice *)
  assert (H2 : rsum I (fun i => frob2 (J i) K (msub (X i) (mmul R' (Ps' i) (Mof (cpstep Ps' th) i))))
            <= rsum I (fun i => frob2 (J i) K (msub (X i) (mmul R' (Ps' i) (Mof th i))))).
  { assert (E : forall t, rsum I (fun i => frob2 (J i) K (msub (X i) (mmul R' (Ps' i) (Mof t i))))
                     = rsum I (fun i => frob2 (J i) K (X i) - frob2 R' K (mmul (J i) (mT (Ps' i)) (X i))) + p2_proj_obj Ps' t).
    { intros t. unfold p2_proj_obj. rewrite <- rsum_add. apply rsum_ext; intros i Hi.
      destruct (Hpr i Hi) as (_ & Hn & _). now rewrite (parafac2_pythagoras (J i) R' K (Ps' i) (X i) (Mof t i) Hn). }
    rewrite !E. lra. }
  lra.
Qed.

Theorem p2_history_monotone st n : run_ok _ p2_iter p2_iter_ok n st ->
  forall i j, (i <= j)%nat -> (j <= n)%nat -> p2_obj (Nat.iter j p2_iter st) <= p2_obj (Nat.iter i p2_iter st).
Proof. apply (history_monotone _ p2_obj p2_iter p2_iter_ok). exact p2_iter_descent. Qed.

(* parafac2 reports sqrt(objective) / ||X||, and its line search keeps an extrapolated state only if that error is strictly below the
   previous one: the reported errors are non-increasing, with or without line search, whatever the extrapolation proposes *)
Variable normX2 : R.
Definition p2_rel_err (st : p2_state) : R := rel_err normX2 (p2_obj st).
Lemma p2_obj_nonneg st : 0 <= p2_obj st.
Proof. unfold p2_obj, frob2. apply rsum_nonneg; intros. apply rsum_nonneg; intros. apply rsum_nonneg; intros. apply pow2_ge_0. Qed.
Lemma p2_iter_rel_descent st : p2_iter_ok st -> p2_rel_err (p2_iter st) <= p2_rel_err st.
Proof. intros H. apply rel_err_monotone; [apply p2_obj_nonneg | apply p2_iter_descent; exact H]. Qed.
Variable jump : p2_state -> p2_state -> p2_state.
Theorem p2_ls_history_monotone st n : run_ok _ (ls_step _ p2_rel_err p2_iter jump) p2_iter_ok n st ->
  forall i j, (i <= j)%nat -> (j <= n)%nat ->
  p2_rel_err (Nat.iter j (ls_step _ p2_rel_err p2_iter jump) st) <= p2_rel_err (Nat.iter i (ls_step _ p2_rel_err p2_iter jump) st).
Proof. apply ls_history_monotone. exact p2_iter_rel_descent. Qed.
Theorem p2_reported_monotone st n : run_ok _ p2_iter p2_iter_ok n st ->
  forall i j, (i <= j)%nat -> (j <= n)%nat -> p2_rel_err (Nat.iter j p2_iter st) <= p2_rel_err (Nat.iter i p2_iter st).
Proof. apply (history_monotone _ p2_rel_err p2_iter p2_iter_ok). exact p2_iter_rel_descent. Qed.
End P2.

(* ---------- Tucker regressor: iterations of the ridge ALS (factor blocks, then the core block) ---------- *)
From TLV Require Import Proofs.DescentProofsTkReg.
Section TkRegSweep.
Variables (Xsl : list (tensor R)) (ysl : list R) (sh rs : list nat) (reg : R).
Variables (slvF : list R -> list (list (list R)) -> nat -> list (list R))      (* tl.solve of the factor block of mode k *)
          (slvG : list R -> list (list (list R)) -> list R).                     (* tl.solve of the core block *)
Definition tkreg_state : Type := (list R * list (list (list R)))%type.
Definition tk_fnorm2 (Us : list (list (list R))) (j : nat) : R :=
  rsum (nth j sh 0%nat) (fun i => rsum (nth j rs 0%nat) (fun b => (@mget R Rops (nth j Us []) i b)^2)).
(* the regressor's objective: ||y - predictions||^2 + reg * (||G||^2 + sum_j ||W_j||_F^2) *)
Definition tkreg_obj_all (st : tkreg_state) : R :=
  @tkreg_fit R Rops Xsl ysl rs (fst st) (snd st)
  + reg * (rsum (prod rs) (fun q => (nth q (fst st) 0)^2) + rsum (length sh) (tk_fnorm2 (snd st))).

Lemma tkreg_obj_core_unfold core Us :
  @tkreg_obj_core R Rops Xsl ysl rs core Us reg = @tkreg_fit R Rops Xsl ysl rs core Us + reg * rsum (prod rs) (fun q => (nth q core 0)^2).
Proof. unfold tkreg_obj_core, fsq. rewrite gsum_rsum_fun. cbn [fadd fmul f0 Rops]. f_equal. f_equal. apply rsum_ext; intros; ring. Qed.
Lemma tkreg_obj_fac_unfold core Us k :
  @tkreg_obj_fac R Rops Xsl ysl rs core Us k (nth k sh 0%nat) reg = @tkreg_fit R Rops Xsl ysl rs core Us + reg * tk_fnorm2 Us k.
Proof.
  unfold tkreg_obj_fac, tk_fnorm2, fsq, mat. rewrite !gsum_rsum_fun. cbn [fadd fmul f0 Rops]. f_equal. f_equal.
  apply rsum_ext; intros i _. apply rsum_ext; intros; unfold mat; ring.
Qed.

(* a block: Some k = factor k, None = the core *)
Definition tkreg_blk (st : tkreg_state) (b : option nat) : tkreg_state :=
  match b with
  | Some k => (fst st, set_nth k (slvF (fst st) (snd st) k) (snd st))
  | None => (slvG (fst st) (snd st), snd st)
  end.
Definition tkreg_blk_ok (st : tkreg_state) (b : option nat) : Prop :=
  match b with
  | Some k => (forall X, In X Xsl -> shape X = sh) /\ (k < length sh)%nat /\ length rs = length sh /\ (k < length (snd st))%nat /\ (0 < nth k rs 0)%nat /\
      forall i c, (i < nth k sh 0)%nat -> (c < nth k rs 0)%nat ->
        @tkreg_fac_normal_lhs R Rops Xsl ysl rs (fst st) (snd st) k (slvF (fst st) (snd st) k) i c = reg * @mget R Rops (slvF (fst st) (snd st) k) i c
  | None => forall q, (q < prod rs)%nat ->
      @tkreg_core_normal_lhs R Rops Xsl ysl rs (slvG (fst st) (snd st)) (snd st) q = reg * nth q (slvG (fst st) (snd st)) 0
  end.
Hypothesis Hreg : 0 <= reg.

Lemma tkreg_blk_descent st b : tkreg_blk_ok st b -> tkreg_obj_all (tkreg_blk st b) <= tkreg_obj_all st.
Proof.
  destruct st as [core Us]. destruct b as [k|]; unfold tkreg_blk_ok, tkreg_blk, tkreg_obj_all; cbn [fst snd].
  - intros (Hsh & Hk & Hl & HU & Hr & Hne).
    pose proof (tkreg_fac_block_minimises Xsl ysl sh rs core Us k reg (slvF core Us k) (nth k Us []) Hsh Hk Hl HU Hr Hreg Hne) as H.
    rewrite set_nth_nth_id in H. rewrite !tkreg_obj_fac_unfold in H.
    rewrite (rsum_split (length sh) k (tk_fnorm2 (set_nth k (slvF core Us k) Us))) by exact Hk.
    rewrite (rsum_split (length sh) k (tk_fnorm2 Us)) by exact Hk.
    assert (E : rsum (length sh) (fun j => if Nat.eqb j k then 0 else tk_fnorm2 (set_nth k (slvF core Us k) Us) j)
              = rsum (length sh) (fun j => if Nat.eqb j k then 0 else tk_fnorm2 Us j)).
    { apply rsum_ext; intros j _. destruct (Nat.eqb_spec j k) as [E|E]; [reflexivity|]. unfold tk_fnorm2. now rewrite nth_set_nth_other. }
    rewrite E.
    assert (0 <= 0) by lra. nra.
  - intros Hne.
    pose proof (tkreg_core_block_minimises Xsl ysl rs Us reg (slvG core Us) core Hreg Hne) as H.
    rewrite !tkreg_obj_core_unfold in H. nra.
Qed.

Definition tkreg_sweep (bs : list (option nat)) (st : tkreg_state) := fold_left tkreg_blk bs st.
Definition tkreg_sweep_ok := fold_ok _ _ tkreg_blk tkreg_blk_ok.
Theorem tkreg_sweep_descent bs st : tkreg_sweep_ok bs st -> tkreg_obj_all (tkreg_sweep bs st) <= tkreg_obj_all st.
Proof. apply (fold_descent _ _ tkreg_obj_all tkreg_blk tkreg_blk_ok tkreg_blk_descent). Qed.
Theorem tkreg_history_monotone bs st n : run_ok _ (tkreg_sweep bs) (tkreg_sweep_ok bs) n st ->
  forall i j, (i <= j)%nat -> (j <= n)%nat ->
  tkreg_obj_all (Nat.iter j (tkreg_sweep bs) st) <= tkreg_obj_all (Nat.iter i (tkreg_sweep bs) st).
Proof.
  apply (history_monotone _ tkreg_obj_all (tkreg_sweep bs) (tkreg_sweep_ok bs)). intros s Hs. apply tkreg_sweep_descent; exact Hs.
Qed.
End TkRegSweep.
