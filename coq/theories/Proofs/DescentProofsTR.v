(* C07 -- tensor-ring ALS block: least squares that is separable over the slices of the updated mode (masked rows);
   a core satisfying the normal equations of the sub-chain design matrix minimises the block objective. *)
From Coq Require Import Reals Lra Psatz List Arith Lia RealField Bool.
From TLV Require Import Base.Shape Base.PyList Base.Tensor Base.Ops Base.BigSum Base.RSum Model.Descent
  Proofs.DescentProofs Proofs.DescentProofsReg.
Import ListNotations.
Open Scope R_scope.

Section MaskedLS.
Variables (N dk n : nat) (sl : nat -> nat) (Phi : nat -> nat -> R) (x : nat -> R).
Hypothesis Hsl : forall o, (o < N)%nat -> (sl o < dk)%nat.
Definition mls_obj (g : nat -> nat -> R) : R := rsum N (fun o => (x o - rsum n (fun j => Phi o j * g (sl o) j))^2).

Lemma mls_obj_slices g :
  mls_obj g = rsum dk (fun i => ls_objw N n (fun o j => delta (sl o) i * Phi o j) (fun o => delta (sl o) i * x o) (fun _ => 0) (g i)).
Proof.
  unfold mls_obj, ls_objw.
  rewrite (rsum_ext dk _ (fun i => rsum N (fun o => delta (sl o) i * (x o - rsum n (fun j => Phi o j * g i j))^2))).
  - rewrite rsum_exchange. apply rsum_ext; intros o Ho. now rewrite rsum_delta by (apply Hsl; exact Ho).
  - intros i _. rewrite (rsum_zero n (fun j => 0 * g i j ^ 2)) by (intros; ring). rewrite Rplus_0_r.
    apply rsum_ext; intros o _. unfold Av.
    rewrite (rsum_ext n (fun j => delta (sl o) i * Phi o j * g i j) (fun j => delta (sl o) i * (Phi o j * g i j))) by (intros; ring).
    rewrite rsum_scale.
    transitivity ((delta (sl o) i * delta (sl o) i) * (x o - rsum n (fun j => Phi o j * g i j))^2); [ring|]. now rewrite delta_sq.
Qed.

Theorem masked_ls_minimises g z :
  (forall i j, (i < dk)%nat -> (j < n)%nat ->
     rsum N (fun o => delta (sl o) i * (Phi o j * (x o - rsum n (fun j' => Phi o j' * g i j')))) = 0) ->
  mls_obj g <= mls_obj z.
Proof.
  intros Hne. rewrite !mls_obj_slices. apply rsum_le; intros i Hi.
  apply normal_eq_minimises_w; [intros; lra|].
  intros j Hj. rewrite Rmult_0_l. rewrite <- (Hne i j Hi Hj). apply rsum_ext; intros o _. unfold Av.
  rewrite (rsum_ext n (fun j0 => delta (sl o) i * Phi o j0 * g i j0) (fun j0 => delta (sl o) i * (Phi o j0 * g i j0))) by (intros; ring).
  rewrite rsum_scale.
  transitivity ((delta (sl o) i * delta (sl o) i) * (Phi o j * (x o - rsum n (fun j0 => Phi o j0 * g i j0)))); [ring|]. now rewrite delta_sq.
Qed.
End MaskedLS.

(* the tensor-ring block *)
Theorem tr_block_minimises (X : tensor R) (cs : list (tensor R)) (dim : nat) (G Z : tensor R) :
  (dim < length (shape X))%nat ->
  nth 0 (shape Z) 0%nat = nth 0 (shape G) 0%nat -> nth 2 (shape Z) 0%nat = nth 2 (shape G) 0%nat ->
  (forall i j, (i < nth dim (shape X) 0)%nat -> (j < nth 0 (shape G) 0 * nth 2 (shape G) 0)%nat ->
     @tr_normal_lhs R Rops X cs dim G i j = 0) ->
  @tr_block_obj R Rops X cs dim G <= @tr_block_obj R Rops X cs dim Z.
Proof.
  intros Hd Ha Hb Hne.
  set (s := shape X). set (ra := nth 0 (shape G) 0%nat). set (rb := nth 2 (shape G) 0%nat).
  set (sl := fun o => nth dim (unravel s o) 0%nat).
  set (Phi := fun o j => @tr_sub R Rops cs (unravel s o) dim (j mod rb) (j / rb)).
  set (x := fun o => nth o (data X) 0).
  assert (E : forall C : tensor R, nth 0 (shape C) 0%nat = ra -> nth 2 (shape C) 0%nat = rb ->
             @tr_block_obj R Rops X cs dim C = mls_obj (prod s) (ra * rb) sl Phi x (fun i j => @core_at R Rops C (j / rb) i (j mod rb))).
  { intros C Ca Cb. unfold tr_block_obj, mls_obj, fsq, tr_pred_block. cbv zeta. rewrite !gsum_rsum_fun. fold s. rewrite Ca, Cb.
    apply rsum_ext; intros o _. cbn [fsub fmul f0 Rops]. unfold x, sl, Phi.
    replace (rsum (ra * rb) (fun j => @core_at R Rops C (j / rb) (nth dim (unravel s o) 0%nat) (j mod rb) * @tr_sub R Rops cs (unravel s o) dim (j mod rb) (j / rb)))
      with (rsum (ra * rb) (fun j => @tr_sub R Rops cs (unravel s o) dim (j mod rb) (j / rb) * @core_at R Rops C (j / rb) (nth dim (unravel s o) 0%nat) (j mod rb)))
      by (apply rsum_ext; intros; ring).
    ring. }
  rewrite (E G eq_refl eq_refl), (E Z Ha Hb).
  apply (masked_ls_minimises (prod s) (nth dim s 0%nat)).
  - intros o Ho. unfold sl. apply inb_nth_lt; [now apply unravel_inb | exact Hd].
  - intros i j Hi Hj. rewrite <- (Hne i j Hi Hj). unfold tr_normal_lhs, tr_pred_block. cbv zeta. rewrite !gsum_rsum_fun. fold s ra rb.
    apply rsum_ext; intros o _. unfold delta, sl, Phi, x. cbn [fsub fmul f0 Rops].
    replace (rsum (ra * rb) (fun j' => @tr_sub R Rops cs (unravel s o) dim (j' mod rb) (j' / rb) * @core_at R Rops G (j' / rb) i (j' mod rb)))
      with (rsum (ra * rb) (fun j' => @core_at R Rops G (j' / rb) i (j' mod rb) * @tr_sub R Rops cs (unravel s o) dim (j' mod rb) (j' / rb)))
      by (apply rsum_ext; intros; ring).
    destruct (Nat.eqb_spec (nth dim (unravel s o) 0%nat) i) as [->|E']; [ring | ring].
Qed.

(* ---------- cyclicity of the trace: the block prediction IS the tensor-ring entry ---------- *)
Notation tr_prodR := (@tr_prod R Rops).
(* the chain l maps bond rank r_in to bond rank r_out *)
Fixpoint chain_ok (r_in : nat) (l : list (tensor R)) (r_out : nat) : Prop :=
  match l with
  | [] => r_in = r_out
  | G :: l' => nth 0 (shape G) 0%nat = r_in /\ chain_ok (nth 2 (shape G) 0%nat) l' r_out
  end.

Lemma tr_prod_app : forall l1 i1 l2 i2 p m a b, chain_ok p l1 m -> length i1 = length l1 -> (a < p)%nat ->
  tr_prodR (l1 ++ l2) (i1 ++ i2) a b = rsum m (fun c => tr_prodR l1 i1 a c * tr_prodR l2 i2 c b).
Proof.
  induction l1 as [|G l1 IH]; intros [|i i1] l2 i2 p m a b Hc Hl Ha; simpl in Hl; try lia.
  - simpl in Hc. subst m. cbn [app].
    rewrite (rsum_ext p _ (fun c => delta a c * tr_prodR l2 i2 c b)).
    + now rewrite rsum_delta.
    + intros c _. cbn [tr_prod]. unfold delta. destruct (Nat.eqb a c); cbn [f0 f1 Rops]; ring.
  - destruct Hc as (Hin & Hc). cbn [app tr_prod]. rewrite !gsum_rsum_fun. cbn [fmul Rops].
    set (r' := nth 2 (shape G) 0%nat) in *.
    rewrite (rsum_ext r' _ (fun c => rsum m (fun e => @core_at R Rops G a i c * (tr_prodR l1 i1 c e * tr_prodR l2 i2 e b)))).
    + rewrite rsum_exchange. apply rsum_ext; intros e _. rewrite gsum_rsum_fun || idtac. cbn [fmul Rops].
      rewrite <- rsum_scale_r. apply rsum_ext; intros c _. ring.
    + intros c Hc'. rewrite (IH i1 l2 i2 r' m c b Hc) by (try lia; exact Hc'). now rewrite rsum_scale.
Qed.

Theorem tr_rotate (pre post : list (tensor R)) (G : tensor R) (ipre ipost : list nat) (i : nat) :
  length ipre = length pre -> length ipost = length post ->
  let r1 := nth 0 (shape (nth 0 (pre ++ G :: post) (mk [] []))) 0%nat in
  let ra := nth 0 (shape G) 0%nat in let rb := nth 2 (shape G) 0%nat in
  chain_ok r1 pre ra -> chain_ok rb post r1 ->
  @tr_entry R Rops (pre ++ G :: post) (ipre ++ i :: ipost)
  = rsum ra (fun c => rsum rb (fun e => @core_at R Rops G c i e * tr_prodR (post ++ pre) (ipost ++ ipre) e c)).
Proof.
  intros Hlp Hlq r1 ra rb Hpre Hpost. unfold tr_entry. rewrite gsum_rsum_fun. fold r1.
  rewrite (rsum_ext r1 _ (fun a => rsum ra (fun c => rsum rb (fun e => tr_prodR pre ipre a c * (@core_at R Rops G c i e * tr_prodR post ipost e a))))).
  2:{ intros a Ha. rewrite (tr_prod_app pre ipre (G :: post) (i :: ipost) r1 ra a a Hpre Hlp Ha).
      apply rsum_ext; intros c _. cbn [tr_prod]. rewrite gsum_rsum_fun. fold rb. cbn [fmul Rops]. now rewrite rsum_scale. }
  rewrite rsum_exchange. apply rsum_ext; intros c _. rewrite rsum_exchange. apply rsum_ext; intros e He.
  rewrite (tr_prod_app post ipost pre ipre rb r1 e c Hpost Hlq He).
  rewrite <- rsum_scale. apply rsum_ext; intros a _. ring.
Qed.

Lemma firstn_len_app {A} (l1 l2 : list A) : firstn (length l1) (l1 ++ l2) = l1.
Proof. induction l1; simpl; congruence. Qed.
Lemma skipn_S_len_app {A} (l1 : list A) x l2 : skipn (S (length l1)) (l1 ++ x :: l2) = l2.
Proof. induction l1; simpl; auto. Qed.
Lemma split_at {A} (d : A) : forall n l, (n < length l)%nat -> l = firstn n l ++ nth n l d :: skipn (S n) l.
Proof. induction n; destruct l; simpl; intros; try lia; [reflexivity | f_equal; apply IHn; lia]. Qed.

Section TRBlock.
Variables (X : tensor R) (pre post : list (tensor R)).
Let dim := length pre.
Hypothesis Hlen : length (shape X) = S (length (pre ++ post)).

(* the sub-chain does not depend on the core being updated *)
Lemma tr_sub_indep (G C : tensor R) idx e c :
  @tr_sub R Rops (pre ++ G :: post) idx dim e c = @tr_sub R Rops (pre ++ C :: post) idx dim e c.
Proof. unfold tr_sub, dim. now rewrite !skipn_S_len_app, !firstn_len_app. Qed.

(* for a well-formed ring the block prediction is the entry of the tensor ring: the block objective is the true squared error *)
Theorem tr_block_obj_is_sqerr (G C : tensor R) :
  let r1 := nth 0 (shape (nth 0 (pre ++ C :: post) (mk [] []))) 0%nat in
  chain_ok r1 pre (nth 0 (shape C) 0%nat) -> chain_ok (nth 2 (shape C) 0%nat) post r1 -> (0 < nth 2 (shape C) 0)%nat ->
  @tr_block_obj R Rops X (pre ++ G :: post) dim C = @tr_sqerr R Rops X (pre ++ C :: post).
Proof.
  intros r1 Hpre Hpost Hrb. unfold tr_block_obj, tr_sqerr. rewrite !gsum_rsum_fun. apply rsum_ext; intros o Ho.
  f_equal. f_equal.
  pose proof (unravel_inb _ _ Ho) as Hin. pose proof (inb_length _ _ Hin) as Hl.
  set (idx := unravel (shape X) o) in *.
  assert (Hd : (dim < length idx)%nat) by (rewrite Hl, Hlen, app_length; unfold dim; lia).
  rewrite (split_at 0%nat dim idx Hd) at 2.
  assert (L1 : length (firstn dim idx) = length pre) by (rewrite firstn_length_le; [reflexivity | lia]).
  assert (L2 : length (skipn (S dim) idx) = length post).
  { rewrite skipn_length, Hl, Hlen, app_length. unfold dim. lia. }
  rewrite (tr_rotate pre post C (firstn dim idx) (skipn (S dim) idx) (nth dim idx 0%nat) L1 L2 Hpre Hpost).
  unfold tr_pred_block. cbv zeta. rewrite gsum_rsum_fun. cbn [fmul Rops].
  rewrite rsum_flatten by exact Hrb. apply rsum_ext; intros j _.
  unfold tr_sub, dim. now rewrite skipn_S_len_app, firstn_len_app.
Qed.

(* block descent on the true objective *)
Theorem tr_block_descent (G G' : tensor R) :
  let r1 := nth 0 (shape (nth 0 (pre ++ G :: post) (mk [] []))) 0%nat in
  let r1' := nth 0 (shape (nth 0 (pre ++ G' :: post) (mk [] []))) 0%nat in
  chain_ok r1 pre (nth 0 (shape G) 0%nat) -> chain_ok (nth 2 (shape G) 0%nat) post r1 ->
  chain_ok r1' pre (nth 0 (shape G') 0%nat) -> chain_ok (nth 2 (shape G') 0%nat) post r1' ->
  nth 0 (shape G') 0%nat = nth 0 (shape G) 0%nat -> nth 2 (shape G') 0%nat = nth 2 (shape G) 0%nat -> (0 < nth 2 (shape G) 0)%nat ->
  (forall i j, (i < nth dim (shape X) 0)%nat -> (j < nth 0 (shape G') 0 * nth 2 (shape G') 0)%nat ->
     @tr_normal_lhs R Rops X (pre ++ G :: post) dim G' i j = 0) ->
  @tr_sqerr R Rops X (pre ++ G' :: post) <= @tr_sqerr R Rops X (pre ++ G :: post).
Proof.
  intros r1 r1' H1 H2 H1' H2' Ha Hb Hrb Hne.
  rewrite <- (tr_block_obj_is_sqerr G G') by (try assumption; rewrite Hb; exact Hrb).
  rewrite <- (tr_block_obj_is_sqerr G G) by assumption.
  apply tr_block_minimises; try (symmetry; assumption); try assumption.
  rewrite Hlen, app_length. unfold dim. lia.
Qed.
End TRBlock.
