(* C07 -- Tucker regressor: the prediction <X_s, G x_k W_k> is linear in the core (coefficients = projected sample) and in each
   factor (coefficients = predictions with a unit matrix in place of the factor); both ridge blocks minimise their objective. *)
From Coq Require Import Reals Lra Psatz List Arith Lia RealField Bool.
From TLV Require Import Base.Shape Base.PyList Base.Tensor Base.Ops Base.BigSum Base.RSum Model.Descent
  Proofs.DescentProofs Proofs.DescentProofsLink Proofs.DescentProofsReg.
Import ListNotations.
Open Scope R_scope.

Notation tkwR := (@tkw R Rops).

(* prediction, linear in the core *)
Theorem tk_inner_core_linear (X : tensor R) (rs : list nat) (core : list R) (Us : list (list (list R))) :
  @tk_inner R Rops X rs core Us = rsum (prod rs) (fun q => nth q core 0 * @tk_core_at R Rops X Us (unravel rs q)).
Proof.
  unfold tk_inner, tk_rec_at, tk_core_at. rewrite !gsum_rsum_fun. cbn [fmul f0 Rops].
  rewrite (rsum_ext (prod (shape X)) _ (fun o => rsum (prod rs) (fun q => nth o (data X) 0 * (nth q core 0 * tkwR Us (unravel rs q) (unravel (shape X) o)))))
    by (intros; now rewrite rsum_scale).
  rewrite rsum_exchange. apply rsum_ext; intros q _. rewrite <- rsum_scale. apply rsum_ext; intros; ring.
Qed.

(* multilinearity of the Kronecker entry in factor k *)
Lemma double_delta_sum d r (A : nat -> nat -> R) i x : (i < d)%nat -> (x < r)%nat ->
  rsum d (fun i' => rsum r (fun b => A i' b * (if Nat.eqb i i' && Nat.eqb x b then 1 else 0))) = A i x.
Proof.
  intros Hi Hx. rewrite (rsum_single d i).
  - rewrite Nat.eqb_refl. cbn [andb]. rewrite (rsum_single r x).
    + rewrite Nat.eqb_refl. ring.
    + exact Hx.
    + intros b _ Hn. destruct (Nat.eqb_spec x b); [congruence | ring].
  - exact Hi.
  - intros i' _ Hn. apply rsum_zero; intros b _. destruct (Nat.eqb_spec i i'); [congruence | cbn [andb]; ring].
Qed.

Lemma tkw_linear : forall k (Us : list (list (list R))) (A : list (list R)) a idx d r,
  (k < length Us)%nat -> (k < length a)%nat -> (k < length idx)%nat -> (nth k idx 0 < d)%nat -> (nth k a 0 < r)%nat ->
  tkwR (set_nth k A Us) a idx
  = rsum d (fun i => rsum r (fun b => @mget R Rops A i b * tkwR (set_nth k (@unit_mat R Rops d r i b) Us) a idx)).
Proof.
  induction k as [|k IH]; intros [|U Us] A [|x a] [|i0 idx] d r HU Ha Hi Hd Hr; simpl in HU, Ha, Hi, Hd, Hr; try lia.
  - cbn [set_nth tkw fmul Rops].
    rewrite (rsum_ext d _ (fun i => rsum r (fun b => tkwR Us a idx * (@mget R Rops A i b * (if Nat.eqb i0 i && Nat.eqb x b then 1 else 0))))).
    + rewrite (rsum_ext d _ (fun i => tkwR Us a idx * rsum r (fun b => @mget R Rops A i b * (if Nat.eqb i0 i && Nat.eqb x b then 1 else 0))))
        by (intros; now rewrite rsum_scale).
      rewrite rsum_scale, (double_delta_sum d r (fun i b => @mget R Rops A i b)) by assumption. ring.
    + intros i Hi'. apply rsum_ext; intros b Hb. unfold unit_mat. rewrite mget_tab2_in by assumption. cbn [f0 f1 Rops].
      rewrite (Nat.eqb_sym i0 i), (Nat.eqb_sym x b). ring.
  - cbn [set_nth tkw fmul Rops]. rewrite (IH Us A a idx d r) by lia.
    rewrite <- rsum_scale. apply rsum_ext; intros i _. rewrite <- rsum_scale. apply rsum_ext; intros b _. ring.
Qed.

(* prediction, linear in factor k *)
Theorem tk_inner_fac_linear (X : tensor R) (rs : list nat) (core : list R) (Us : list (list (list R))) (k : nat) (A : list (list R)) :
  (k < length (shape X))%nat -> length rs = length (shape X) -> (k < length Us)%nat ->
  @tk_inner R Rops X rs core (set_nth k A Us)
  = rsum (nth k (shape X) 0%nat) (fun i => rsum (nth k rs 0%nat) (fun b => @mget R Rops A i b * @tkreg_coef R Rops X rs core Us k i b)).
Proof.
  intros Hk Hl HU. unfold tkreg_coef, tk_inner, tk_rec_at. rewrite !gsum_rsum_fun. cbn [fmul f0 Rops].
  set (s := shape X). set (d := nth k s 0%nat). set (r := nth k rs 0%nat).
  (* right-hand side: sums over (i, b) pushed inside *)
  rewrite (rsum_ext d _ (fun i => rsum (prod s) (fun o => rsum r (fun b => @mget R Rops A i b *
     (nth o (data X) 0 * rsum (prod rs) (fun q => nth q core 0 * tkwR (set_nth k (@unit_mat R Rops d r i b) Us) (unravel rs q) (unravel s o))))))).
  2:{ intros i _. rewrite rsum_exchange. apply rsum_ext; intros b _. rewrite <- rsum_scale. reflexivity. }
  rewrite rsum_exchange. apply rsum_ext; intros o Ho.
  pose proof (unravel_inb s o Ho) as Hin. pose proof (inb_nth_lt k _ _ Hin Hk) as Hlt. pose proof (inb_length _ _ Hin) as Hli.
  transitivity (nth o (data X) 0 * rsum d (fun i => rsum r (fun b => @mget R Rops A i b *
        rsum (prod rs) (fun q => nth q core 0 * tkwR (set_nth k (@unit_mat R Rops d r i b) Us) (unravel rs q) (unravel s o))))).
  2:{ rewrite <- rsum_scale. apply rsum_ext; intros i _. rewrite <- rsum_scale. apply rsum_ext; intros b _. ring. }
  f_equal.
  rewrite (rsum_ext d _ (fun i => rsum (prod rs) (fun q => rsum r (fun b => nth q core 0 *
       (@mget R Rops A i b * tkwR (set_nth k (@unit_mat R Rops d r i b) Us) (unravel rs q) (unravel s o)))))).
  2:{ intros i _. rewrite rsum_exchange. apply rsum_ext; intros b _. rewrite <- rsum_scale. apply rsum_ext; intros; ring. }
  rewrite rsum_exchange. apply rsum_ext; intros q Hq.
  pose proof (unravel_inb rs q Hq) as Hqa. assert (Hkr : (k < length rs)%nat) by (rewrite Hl; exact Hk).
  pose proof (inb_nth_lt k _ _ Hqa Hkr) as Hlq. pose proof (inb_length _ _ Hqa) as Hla.
  rewrite (tkw_linear k Us A (unravel rs q) (unravel s o) d r);
    [| exact HU | rewrite Hla; lia | rewrite Hli; exact Hk | exact Hlt | exact Hlq].
  rewrite <- rsum_scale. apply rsum_ext; intros i _. now rewrite rsum_scale.
Qed.

(* ---------- core block ---------- *)
Theorem tkreg_core_block_minimises (Xsl : list (tensor R)) (ysl : list R) (rs : list nat) (Us : list (list (list R))) (reg : R) (G Z : list R) :
  0 <= reg ->
  (forall q, (q < prod rs)%nat -> @tkreg_core_normal_lhs R Rops Xsl ysl rs G Us q = reg * nth q G 0) ->
  @tkreg_obj_core R Rops Xsl ysl rs G Us reg <= @tkreg_obj_core R Rops Xsl ysl rs Z Us reg.
Proof.
  intros Hreg Hne.
  set (Phi := fun s q => @tk_core_at R Rops (nth s Xsl (mk [] [])) Us (unravel rs q)).
  set (ys := fun s => nth s ysl 0).
  assert (E : forall C : list R, @tkreg_obj_core R Rops Xsl ysl rs C Us reg = ls_obj (length Xsl) (prod rs) Phi ys reg (fun q => nth q C 0)).
  { intros C. unfold tkreg_obj_core, tkreg_fit, ls_obj, fsq, vget. rewrite !gsum_rsum_fun. cbn [fadd fsub fmul f0 Rops]. f_equal.
    - apply rsum_ext; intros s _. rewrite tk_inner_core_linear. unfold Av, Phi, ys.
      replace (rsum (prod rs) (fun q => nth q C 0 * @tk_core_at R Rops (nth s Xsl (mk [] [])) Us (unravel rs q)))
        with (rsum (prod rs) (fun j => @tk_core_at R Rops (nth s Xsl (mk [] [])) Us (unravel rs j) * nth j C 0)) by (apply rsum_ext; intros; ring).
      ring.
    - f_equal. apply rsum_ext; intros; ring. }
  rewrite !E. apply normal_eq_minimises; [exact Hreg|].
  intros q Hq. rewrite <- (Hne q Hq). unfold tkreg_core_normal_lhs, vget. rewrite gsum_rsum_fun. cbn [fsub fmul f0 Rops].
  apply rsum_ext; intros s _. rewrite tk_inner_core_linear. unfold Av, Phi, ys.
  replace (rsum (prod rs) (fun q0 => nth q0 G 0 * @tk_core_at R Rops (nth s Xsl (mk [] [])) Us (unravel rs q0)))
    with (rsum (prod rs) (fun j => @tk_core_at R Rops (nth s Xsl (mk [] [])) Us (unravel rs j) * nth j G 0)) by (apply rsum_ext; intros; ring).
  reflexivity.
Qed.

(* ---------- factor block ---------- *)
Theorem tkreg_fac_block_minimises (Xsl : list (tensor R)) (ysl : list R) (sh rs : list nat) (G : list R) (Us : list (list (list R)))
  (k : nat) (reg : R) (A Z : list (list R)) :
  (forall X, In X Xsl -> shape X = sh) -> (k < length sh)%nat -> length rs = length sh -> (k < length Us)%nat -> (0 < nth k rs 0)%nat -> 0 <= reg ->
  (forall i b, (i < nth k sh 0)%nat -> (b < nth k rs 0)%nat ->
     @tkreg_fac_normal_lhs R Rops Xsl ysl rs G Us k A i b = reg * @mget R Rops A i b) ->
  @tkreg_obj_fac R Rops Xsl ysl rs G (set_nth k A Us) k (nth k sh 0%nat) reg
  <= @tkreg_obj_fac R Rops Xsl ysl rs G (set_nth k Z Us) k (nth k sh 0%nat) reg.
Proof.
  intros Hsh Hk Hl HU Hr Hreg Hne.
  set (d := nth k sh 0%nat). set (r := nth k rs 0%nat).
  set (Xs := fun s => nth s Xsl (mk [] [])). set (ys := fun s => nth s ysl 0).
  assert (Hsh' : forall s, (s < length Xsl)%nat -> shape (Xs s) = sh) by (intros s Hs; apply Hsh; unfold Xs; now apply nth_In).
  set (Phi := fun s j => @tkreg_coef R Rops (Xs s) rs G Us k (j / r)%nat (j mod r)%nat).
  set (vec := fun (B : list (list R)) j => @mget R Rops B (j / r)%nat (j mod r)%nat).
  assert (Epred : forall (B : list (list R)) s, (s < length Xsl)%nat -> @tk_inner R Rops (Xs s) rs G (set_nth k B Us) = Av (d * r) Phi (vec B) s).
  { intros B s Hs. rewrite tk_inner_fac_linear by (rewrite ?(Hsh' s Hs); assumption). rewrite (Hsh' s Hs). fold d r.
    rewrite rsum_flatten by exact Hr. unfold Av, Phi, vec. apply rsum_ext; intros; ring. }
  assert (E : forall B : list (list R), @tkreg_obj_fac R Rops Xsl ysl rs G (set_nth k B Us) k d reg = ls_obj (length Xsl) (d * r) Phi ys reg (vec B)).
  { intros B. unfold tkreg_obj_fac, tkreg_fit, ls_obj, fsq, vget. rewrite !gsum_rsum_fun. cbn [fadd fsub fmul f0 Rops].
    rewrite nth_set_nth_same by exact HU. fold r. f_equal.
    - apply rsum_ext; intros s Hs. pose proof (Epred B s Hs) as Ep. unfold Xs in Ep. rewrite Ep. unfold ys. ring.
    - f_equal. rewrite rsum_flatten by exact Hr. unfold vec. apply rsum_ext; intros; ring. }
  rewrite !E. apply normal_eq_minimises; [exact Hreg|].
  intros j Hj.
  assert (Hi : (j / r < d)%nat) by (apply Nat.div_lt_upper_bound; lia).
  assert (Hm : (j mod r < r)%nat) by (apply Nat.mod_upper_bound; lia).
  specialize (Hne _ _ Hi Hm). unfold vec at 2. rewrite <- Hne.
  unfold tkreg_fac_normal_lhs, vget, mat. rewrite gsum_rsum_fun. cbn [fsub fmul f0 Rops].
  apply rsum_ext; intros s Hs. pose proof (Epred A s Hs) as Ep. unfold Xs in Ep. rewrite Ep. unfold Phi, ys, Xs. reflexivity.
Qed.
