(* C07 -- Tucker: the Kronecker product of matrices with orthonormal columns has orthonormal columns (all orders), hence
   ||X - core x_k U_k||^2 = ||X||^2 - ||core||^2 for core = X x_k U_k'; HOOI block on the Tucker objective. *)
From Coq Require Import Reals Lra Psatz List Arith Lia RealField Bool.
From TLV Require Import Base.Shape Base.PyList Base.Tensor Base.Ops Base.BigSum Base.RSum Model.Descent
  Proofs.DescentProofs Proofs.DescentProofsLink Proofs.DescentProofsOrth.
Import ListNotations.
Open Scope R_scope.

Notation tkwR := (@tkw R Rops).

(* per-mode contract: factor j is d_j x r_j with orthonormal columns *)
Fixpoint orth_all (s rs : list nat) (Us : list (list (list R))) : Prop :=
  match s, rs, Us with
  | d :: s', r :: rs', U :: Us' => orthonormal d r (@mget R Rops U) /\ orth_all s' rs' Us'
  | [], [], [] => True
  | _, _, _ => False
  end.

Fixpoint dl (a b : list nat) : R :=
  match a, b with x :: a', y :: b' => delta x y * dl a' b' | _, _ => 1 end.
Lemma dl_refl a : dl a a = 1.
Proof. induction a; simpl; [reflexivity|]. unfold delta. rewrite Nat.eqb_refl, IHa. ring. Qed.
Lemma dl_neq : forall a b, length a = length b -> a <> b -> dl a b = 0.
Proof.
  induction a as [|x a IH]; intros [|y b] Hl Hn; simpl in *; try congruence; try lia.
  unfold delta. destruct (Nat.eqb_spec x y) as [->|E]; [|ring].
  rewrite IH; [ring | lia | congruence].
Qed.

(* Gram matrix of the Kronecker product, all orders *)
Lemma kron_gram : forall s rs Us a b, orth_all s rs Us -> inb rs a -> inb rs b ->
  rsum_idx s (fun idx => tkwR Us a idx * tkwR Us b idx) = dl a b.
Proof.
  induction s as [|d s IH]; intros [|r rs] [|U Us] a b Ho Ha Hb; simpl in Ho; try tauto.
  - destruct a, b; simpl in *; try tauto. rewrite rsum_idx_nil. simpl. ring.
  - destruct a as [|x a], b as [|y b]; simpl in Ha, Hb; try tauto.
    destruct Ho as (HU & Ho). destruct Ha as (Hx & Ha). destruct Hb as (Hy & Hb).
    rewrite rsum_idx_cons. cbn [tkw fmul Rops].
    rewrite (rsum_ext d _ (fun i => (@mget R Rops U i x * @mget R Rops U i y) * dl a b)).
    + rewrite rsum_scale_r. rewrite (HU x y Hx Hy). simpl. reflexivity.
    + intros i _. rewrite (rsum_idx_ext s _ (fun idx => (@mget R Rops U i x * @mget R Rops U i y) * (tkwR Us a idx * tkwR Us b idx)))
        by (intros; ring).
      rewrite rsum_idx_scale. now rewrite (IH rs Us a b Ho Ha Hb).
Qed.

Lemma orth_all_length s : forall rs Us, orth_all s rs Us -> length rs = length s.
Proof. induction s; intros [|r rs] [|U Us] H; simpl in *; try tauto. destruct H as (_ & H). now rewrite (IHs _ _ H). Qed.

Section Tucker.
Variables (X : tensor R) (rs : list nat) (Us : list (list (list R))).
Let s := shape X.
Let N := prod s.
Let Rr := prod rs.
Hypothesis Ho : orth_all s rs Us.
Let W (o q : nat) : R := tkwR Us (unravel rs q) (unravel s o).

Lemma kron_orthonormal : orthonormal N Rr W.
Proof.
  intros q q' Hq Hq'. unfold W.
  pose proof (unravel_inb rs q Hq) as Ha. pose proof (unravel_inb rs q' Hq') as Hb.
  pose proof (kron_gram s rs Us _ _ Ho Ha Hb) as H. unfold rsum_idx in H. fold N in H. rewrite H.
  unfold delta. destruct (Nat.eqb_spec q q') as [->|E]; [apply dl_refl|].
  apply dl_neq.
  - now rewrite (inb_length _ _ Ha), (inb_length _ _ Hb).
  - intros Eq. apply E. rewrite <- (ravel_unravel rs q Hq), <- (ravel_unravel rs q' Hq'). now rewrite Eq.
Qed.

(* ||X - core x_k U_k||^2 = ||X||^2 - ||core||^2  with  core = X x_k U_k' *)
Theorem tucker_residual :
  @tk_hooi_obj R Rops X rs Us = rsum N (fun o => (nth o (data X) 0)^2) - @tk_core_norm2 R Rops X rs Us.
Proof.
  pose proof (orth_pythagoras_vec N Rr W kron_orthonormal (fun o => nth o (data X) 0)) as H. cbv zeta beta in H.
  unfold tk_hooi_obj, tk_sqerr, tk_core_norm2, fsq. rewrite !gsum_rsum_fun. cbn [fsub fmul f0 Rops]. fold s N Rr.
  rewrite <- (rsum_ext Rr (fun q => (rsum N (fun i => W i q * nth i (data X) 0))^2)).
  2:{ intros q _. unfold tk_core_at. rewrite gsum_rsum_fun. fold s N. cbn [fmul f0 Rops].
      replace (rsum N (fun o => nth o (data X) 0 * tkwR Us (unravel rs q) (unravel s o))) with (rsum N (fun i => W i q * nth i (data X) 0))
        by (apply rsum_ext; intros; unfold W; ring). ring. }
  rewrite <- H. apply rsum_ext; intros o _.
  assert (E : @tk_rec_at R Rops rs (data (@tk_core R Rops X Us rs)) Us (unravel s o)
            = Av Rr W (fun j => rsum N (fun i => W i j * nth i (data X) 0)) o).
  { unfold tk_rec_at, Av. rewrite gsum_rsum_fun. fold Rr. apply rsum_ext; intros q Hq. cbn [fmul f0 Rops].
    unfold tk_core. cbn [data]. rewrite (nth_map' _ _ _ 0%nat) by (now rewrite seq_length). rewrite seq_nth by exact Hq. cbn [Nat.add].
    unfold tk_core_at. rewrite gsum_rsum_fun. fold s N. cbn [fmul f0 Rops]. unfold W.
    replace (rsum N (fun o0 => nth o0 (data X) 0 * tkwR Us (unravel rs q) (unravel s o0)))
      with (rsum N (fun i => tkwR Us (unravel rs q) (unravel s i) * nth i (data X) 0)) by (apply rsum_ext; intros; ring).
    ring. }
  rewrite E. ring.
Qed.
End Tucker.

(* HOOI block on the Tucker objective.  Hypothesis (Ky Fan's maximum principle for the leading left singular vectors of the
   mode-k unfolding of X x_{j<>k} U_j', stated on the core): the new factor maximises the norm of the core among the
   replacements of factor k by a matrix with orthonormal columns *)
Theorem hooi_tucker_block_descent_partial (X : tensor R) (rs : list nat) (Us : list (list (list R))) (k : nat) (Unew : list (list R)) :
  orth_all (shape X) rs Us -> orth_all (shape X) rs (set_nth k Unew Us) ->
  (forall Wk, orth_all (shape X) rs (set_nth k Wk Us) ->
      @tk_core_norm2 R Rops X rs (set_nth k Wk Us) <= @tk_core_norm2 R Rops X rs (set_nth k Unew Us)) ->
  @tk_hooi_obj R Rops X rs (set_nth k Unew Us) <= @tk_hooi_obj R Rops X rs Us.
Proof.
  intros Ho Hn HK. rewrite !tucker_residual by assumption.
  specialize (HK (nth k Us [])). rewrite set_nth_nth_id in HK. specialize (HK Ho). lra.
Qed.
