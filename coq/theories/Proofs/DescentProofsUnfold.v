(* C07 -- the mode-k unfolding behind a HOOI block: the squared norm of the core as a function of factor k is ||W' Y_k||_F^2 for
   the matrix Y_k = mode-k unfolding of X x_{j<>k} U_j' (what partial_tucker hands to the SVD); hence Ky Fan's principle for that
   matrix is all that is missing for the descent of the Tucker objective. *)
From Coq Require Import Reals Lra Psatz List Arith Lia RealField Bool.
From TLV Require Import Base.Shape Base.PyList Base.Tensor Base.Ops Base.BigSum Base.RSum Model.Descent
  Proofs.DescentProofs Proofs.DescentProofsLink Proofs.DescentProofsOrth Proofs.DescentProofsTucker Proofs.DescentProofsTkReg.
Import ListNotations.
Open Scope R_scope.

Notation tkwR := (@tkw R Rops).

(* splitting a sum over an index space at position k *)
Lemma rsum_idx_split : forall k rs (f : list nat -> R), (k < length rs)%nat ->
  rsum_idx rs f = rsum (nth k rs 0%nat) (fun b => rsum_idx (set_nth k 1%nat rs) (fun a => f (set_nth k b a))).
Proof.
  induction k as [|k IH]; intros [|r rs] f Hk; simpl in Hk; try lia.
  - cbn [set_nth nth]. rewrite rsum_idx_cons. apply rsum_ext; intros b _.
    rewrite rsum_idx_cons. simpl. ring_simplify. reflexivity.
  - cbn [set_nth nth]. rewrite rsum_idx_cons.
    rewrite (rsum_ext r _ (fun x => rsum (nth k rs 0%nat) (fun b => rsum_idx (set_nth k 1%nat rs) (fun a => f (x :: set_nth k b a)))))
      by (intros x _; apply (IH rs (fun a => f (x :: a))); lia).
    rewrite rsum_exchange. apply rsum_ext; intros b _. rewrite rsum_idx_cons. reflexivity.
Qed.

(* the Kronecker entry with factor k = W and core index a_k = b, through the unit column vectors e_i *)
Lemma tkw_mode_k : forall k (Us : list (list (list R))) (W : list (list R)) a idx d b,
  (k < length Us)%nat -> (k < length a)%nat -> (k < length idx)%nat -> (nth k idx 0 < d)%nat -> nth k a 0%nat = 0%nat ->
  tkwR (set_nth k W Us) (set_nth k b a) idx
  = rsum d (fun i => @mget R Rops W i b * tkwR (set_nth k (@unit_mat R Rops d 1 i 0) Us) a idx).
Proof.
  induction k as [|k IH]; intros [|U Us] W [|x a] [|i0 idx] d b HU Ha Hi Hd Hx; simpl in HU, Ha, Hi, Hd, Hx; try lia.
  - subst x. cbn [set_nth tkw fmul Rops].
    rewrite (rsum_ext d _ (fun i => delta i0 i * (@mget R Rops W i b * tkwR Us a idx))).
    + now rewrite rsum_delta.
    + intros i Hi'. unfold unit_mat. rewrite mget_tab2_in by (try assumption; lia). unfold delta. rewrite (Nat.eqb_sym i0 i).
      destruct (Nat.eqb i i0); cbn [andb Nat.eqb f0 f1 Rops]; ring.
  - cbn [set_nth tkw fmul Rops]. rewrite (IH Us W a idx d b) by (try assumption; lia).
    rewrite <- rsum_scale. apply rsum_ext; intros i _. ring.
Qed.

Section Unfold.
Variables (X : tensor R) (rs : list nat) (Us : list (list (list R))) (k : nat).
Let s := shape X.
Let d := nth k s 0%nat.
Let r := nth k rs 0%nat.
Let rs' := set_nth k 1%nat rs.
Hypothesis Hk : (k < length s)%nat.
Hypothesis Hl : length rs = length s.
Hypothesis HU : (k < length Us)%nat.
(* the matrix handed to the SVD: row i, column c = multi-index of the other (projected) modes *)
Definition unfold_k (i c : nat) : R := @tk_core_at R Rops X (set_nth k (@unit_mat R Rops d 1 i 0) Us) (unravel rs' c).

Theorem core_norm_unfolding (W : list (list R)) :
  @tk_core_norm2 R Rops X rs (set_nth k W Us) = frob2 r (prod rs') (mmul d (mT (@mget R Rops W)) unfold_k).
Proof.
  assert (Hkr : (k < length rs)%nat) by (rewrite Hl; exact Hk).
  unfold tk_core_norm2, fsq, frob2. rewrite gsum_rsum_fun. cbn [fmul Rops].
  change (rsum (prod rs) (fun q => @tk_core_at R Rops X (set_nth k W Us) (unravel rs q) * @tk_core_at R Rops X (set_nth k W Us) (unravel rs q)))
    with (rsum_idx rs (fun a => @tk_core_at R Rops X (set_nth k W Us) a * @tk_core_at R Rops X (set_nth k W Us) a)).
  rewrite (rsum_idx_split k rs _ Hkr). fold r rs'. apply rsum_ext; intros b Hb. unfold rsum_idx. apply rsum_ext; intros c Hc.
  pose proof (unravel_inb rs' c Hc) as Hin. pose proof (inb_length _ _ Hin) as Hla.
  assert (Hk' : (k < length rs')%nat) by (unfold rs'; now rewrite set_nth_length).
  pose proof (inb_nth_lt k _ _ Hin Hk') as Hz. unfold rs' in Hz at 2. rewrite nth_set_nth_same in Hz by exact Hkr.
  assert (Ha0 : nth k (unravel rs' c) 0%nat = 0%nat) by lia.
  assert (E : @tk_core_at R Rops X (set_nth k W Us) (set_nth k b (unravel rs' c)) = mmul d (mT (@mget R Rops W)) unfold_k b c).
  { unfold mmul, mT, unfold_k, tk_core_at. rewrite !gsum_rsum_fun. fold s. cbn [fmul f0 Rops].
    rewrite (rsum_ext d _ (fun i => rsum (prod s) (fun o => @mget R Rops W i b * (nth o (data X) 0 * tkwR (set_nth k (@unit_mat R Rops d 1 i 0) Us) (unravel rs' c) (unravel s o))))).
    2:{ intros i _. rewrite ?gsum_rsum_fun. now rewrite rsum_scale. }
    rewrite rsum_exchange. apply rsum_ext; intros o Ho.
    pose proof (unravel_inb s o Ho) as Hio. pose proof (inb_nth_lt k _ _ Hio Hk) as Hlt. pose proof (inb_length _ _ Hio) as Hli.
    rewrite (tkw_mode_k k Us W (unravel rs' c) (unravel s o) d b); [| exact HU | rewrite Hla; exact Hk' | rewrite Hli; exact Hk | exact Hlt | exact Ha0].
    rewrite <- rsum_scale. apply rsum_ext; intros; ring. }
  rewrite E. ring.
Qed.
End Unfold.

(* HOOI block on the Tucker objective with Ky Fan's principle stated for the unfolding matrix itself *)
Theorem hooi_unfolding_block_descent_partial (X : tensor R) (rs : list nat) (Us : list (list (list R))) (k : nat) (Unew : list (list R)) :
  (k < length (shape X))%nat -> length rs = length (shape X) -> (k < length Us)%nat ->
  orth_all (shape X) rs Us -> orth_all (shape X) rs (set_nth k Unew Us) ->
  (* Ky Fan: the leading left singular vectors of the unfolding maximise ||W' Y_k||_F among the matrices with orthonormal columns *)
  (forall W : fmat, orthonormal (nth k (shape X) 0%nat) (nth k rs 0%nat) W ->
     frob2 (nth k rs 0%nat) (prod (set_nth k 1%nat rs)) (mmul (nth k (shape X) 0%nat) (mT W) (unfold_k X rs Us k))
     <= frob2 (nth k rs 0%nat) (prod (set_nth k 1%nat rs)) (mmul (nth k (shape X) 0%nat) (mT (@mget R Rops Unew)) (unfold_k X rs Us k))) ->
  @tk_hooi_obj R Rops X rs (set_nth k Unew Us) <= @tk_hooi_obj R Rops X rs Us.
Proof.
  intros Hk Hl HU Ho Hn HK. rewrite !tucker_residual by assumption.
  pose proof (core_norm_unfolding X rs Us k Hk Hl HU Unew) as E1.
  pose proof (core_norm_unfolding X rs Us k Hk Hl HU (nth k Us [])) as E2. rewrite set_nth_nth_id in E2.
  rewrite E1, E2.
  assert (Hold : orthonormal (nth k (shape X) 0%nat) (nth k rs 0%nat) (@mget R Rops (nth k Us []))).
  { clear - Ho Hk Hl HU. revert k rs Us Ho Hk Hl HU. generalize (shape X) as s.
    induction s as [|d0 s IH]; intros k [|r0 rs] [|U Us] Ho Hk Hl HU; simpl in *; try lia; try tauto.
    destruct Ho as (H0 & Ho). destruct k as [|k]; [exact H0|]. apply (IH k rs Us Ho); lia. }
  specialize (HK _ Hold). lra.
Qed.
