(* C16 -- lemmas about Model/Draws.v: non-interference of global-free draw skeletons. *)
From Coq Require Import List Arith ZArith Bool Lia.
From TLV Require Import Model.Draws.
Import ListNotations.

Section P.
Variables gstate value req : Type.
Variable draw : req -> gstate -> value * gstate.
Variable seed : Z -> gstate.

Notation interp := (interp value req).
Notation lworld := (lworld gstate value).
Notation runL := (run_local gstate value req draw seed).
Notation runG := (run gstate value req draw seed).
Notation crs := (check_random_state gstate value seed).
Notation adv := (advance gstate).
Notation callG := (call gstate value req draw seed).
Notation callL := (call_local gstate value req draw seed).

(* ---------------------------------------------------------------- basics *)
Lemma advance_add : forall env k1 k2 t g, adv env t (k1 + k2) g = adv env (t + k1) k2 (adv env t k1 g).
Proof.
  induction k1; intros; simpl.
  - now rewrite Nat.add_0_r.
  - rewrite IHk1. now rewrite Nat.add_succ_r.
Qed.

Lemma advance_id : forall k t g, adv (fun _ x => x) t k g = g.
Proof. induction k; intros; simpl; auto. Qed.

Lemma absp_eval_arg : forall a p c, absp (eval_arg a p c) = aarg a (absp p) (absc c).
Proof. intros [] p c; simpl; auto. destruct c as [[]|]; reflexivity. Qed.

Lemma crs_int_ok : forall s (w : lworld), seed_ok s = true ->
  crs (VInt s) w = (Some (GObj (length (heap w))),
                    {| heap := heap w ++ [seed s]; hist := hist w; ticks := ticks w; srcs := srcs w; failed := failed w |}).
Proof. intros s w H. unfold check_random_state. now rewrite H. Qed.

Lemma crs_int_bad : forall s (w : lworld), seed_ok s = false -> crs (VInt s) w = (None, failL gstate value w).
Proof. intros s w H. unfold check_random_state. now rewrite H. Qed.

Lemma acur_eqb_eq : forall a b, acur_eqb a b = true -> a = b.
Proof. intros [] []; simpl; congruence. Qed.

Lemma crs_ticks : forall p w, ticks (snd (crs p w)) = ticks w.
Proof. intros [] w; try reflexivity. simpl. destruct (seed_ok s); reflexivity. Qed.

Lemma draw_obj_ticks : forall I t h w, ticks (draw_obj gstate value req draw I t h w) = ticks w.
Proof. intros. unfold draw_obj. destruct (nth_error (heap w) h); [|reflexivity]. destruct (draw _ g). reflexivity. Qed.

(* ---------------------------------------------------------------- check_random_state *)
Lemma seed_from_frame : forall (I : interp) t (w : lworld),
  srcs (snd (seed_from gstate value req seed I t w)) = srcs w /\ hist (snd (seed_from gstate value req seed I t w)) = hist w /\
  ticks (snd (seed_from gstate value req seed I t w)) = S (ticks w) /\
  (failed w = true -> failed (snd (seed_from gstate value req seed I t w)) = true) /\
  (fst (seed_from gstate value req seed I t w) = None \/ exists h, fst (seed_from gstate value req seed I t w) = Some (GObj h)).
Proof.
  intros I t w. unfold seed_from. simpl. destruct (seed_ok (as_seed I t (hist w))); simpl; repeat split; auto; eauto.
Qed.

Lemma check_random_state_spec : forall w : lworld,
  crs VNone w = (Some GGlobal, w) /\
  (forall s, seed_ok s = true ->
             fst (crs (VInt s) w) = Some (GObj (length (heap w))) /\
             heap (snd (crs (VInt s) w)) = heap w ++ [seed s] /\
             nth_error (heap (snd (crs (VInt s) w))) (length (heap w)) = Some (seed s) /\
             hist (snd (crs (VInt s) w)) = hist w /\ failed (snd (crs (VInt s) w)) = failed w) /\
  (forall s, seed_ok s = false ->
             fst (crs (VInt s) w) = None /\ failed (snd (crs (VInt s) w)) = true /\
             heap (snd (crs (VInt s) w)) = heap w /\ hist (snd (crs (VInt s) w)) = hist w) /\
  (forall g, crs (VGen g) w = (Some g, w)) /\
  (fst (crs VBad w) = None /\ failed (snd (crs VBad w)) = true).
Proof.
  intros w. split; [reflexivity|]. split; [|split; [|split; [reflexivity | split; reflexivity]]].
  - intros s H. rewrite (crs_int_ok s w H). simpl. repeat split; auto.
    rewrite nth_error_app2 by lia. now rewrite Nat.sub_diag.
  - intros s H. rewrite (crs_int_bad s w H). simpl. repeat split; auto.
Qed.

(* ---------------------------------------------------------------- the unary non-interference statement *)
Definition ni_post (env : nat -> gstate -> gstate) (I : interp) (sk : skel) (p : rsval) (c : option gen) (w : lworld) (ac' : acur) : Prop :=
  exists c1 w1 k, runL I sk p c w = Some (c1, w1) /\ absc c1 = ac' /\ ticks w1 = ticks w + k /\
                  forall g, runG env I sk p c w g = (c1, w1, adv env (ticks w) k g).

Lemma loop_ni : forall env (I : interp) body p t ac,
  (forall c w, absc c = ac -> ni_post env I body p c w ac) ->
  forall n i c w, absc c = ac ->
  exists c1 w1 k, loopL gstate value (runL I body p) (stop I t) n i c w = Some (c1, w1) /\ absc c1 = ac /\
                  ticks w1 = ticks w + k /\
                  forall g, loopG gstate value (runG env I body p) (stop I t) n i c w g = (c1, w1, adv env (ticks w) k g).
Proof.
  intros env I body p t ac Hb. induction n; intros i c w Hc; simpl.
  - exists c, w, 0. repeat split; auto.
  - destruct (stop I t i (hist w)).
    + exists c, w, 0. repeat split; auto.
    + destruct (Hb c w Hc) as (c1 & w1 & k1 & R1 & A1 & T1 & G1).
      destruct (IHn (S i) c1 w1 A1) as (c2 & w2 & k2 & R2 & A2 & T2 & G2).
      exists c2, w2, (k1 + k2). rewrite R1. repeat split; auto; try lia.
      intro g. rewrite G1. rewrite G2. rewrite T1. now rewrite advance_add.
Qed.

Lemma ni : forall env (I : interp) sk p c ac',
  gf sk (absp p) (absc c) = Some ac' -> forall w, ni_post env I sk p c w ac'.
Proof.
  intros env I. induction sk; intros p c ac' H w; simpl in H.
  - (* Skip *) inversion H; subst. exists c, w, 0. repeat split; auto.
  - (* Seq *)
    destruct (gf sk1 (absp p) (absc c)) as [a1|] eqn:E1; [|discriminate].
    destruct (IHsk1 _ _ _ E1 w) as (c1 & w1 & k1 & R1 & A1 & T1 & G1).
    rewrite <- A1 in H.
    destruct (IHsk2 _ _ _ H w1) as (c2 & w2 & k2 & R2 & A2 & T2 & G2).
    exists c2, w2, (k1 + k2). simpl. rewrite R1. repeat split; auto; try lia.
    intro g. rewrite G1. rewrite G2. rewrite T1. now rewrite advance_add.
  - (* Branch *)
    destruct (gf sk1 (absp p) (absc c)) as [a1|] eqn:E1; [|discriminate].
    destruct (gf sk2 (absp p) (absc c)) as [a2|] eqn:E2; [|discriminate].
    destruct (acur_eqb a1 a2) eqn:E; [|discriminate]. apply acur_eqb_eq in E. inversion H; subst.
    unfold ni_post. simpl. destruct (decide I t (hist w)).
    + apply (IHsk1 _ _ _ E1 w).
    + apply (IHsk2 _ _ _ E2 w).
  - (* For *)
    destruct (gf sk (absp p) (absc c)) as [a1|] eqn:E1; [|discriminate].
    destruct (acur_eqb a1 (absc c)) eqn:E; [|discriminate]. apply acur_eqb_eq in E. inversion H; subst.
    unfold ni_post. simpl.
    apply (loop_ni env I sk p t (absc c)); auto.
    intros c0 w0 Hc0. apply IHsk. now rewrite Hc0.
  - (* Check *)
    unfold ni_post. simpl.
    destruct p as [|s|[|h]|]; simpl in H; try (destruct (seed_ok s) eqn:Es; simpl in H); inversion H; subst; simpl;
      try rewrite Es;
      eexists _, _, 1; (split; [reflexivity|]; split; [reflexivity|]; split; [simpl; lia|]; intro g; reflexivity).
  - (* Draw *)
    destruct c as [[|h]|]; simpl in H; try discriminate. inversion H; subst.
    exists (Some (GObj h)), (draw_obj gstate value req draw I t h (tickL gstate value w)), 1.
    simpl. repeat split; auto.
    rewrite draw_obj_ticks. simpl. lia.
  - (* DrawNp *) discriminate.
  - (* Call *)
    destruct (gf sk (aarg a (absp p) (absc c)) AUnset) as [a1|] eqn:E1; [|discriminate].
    inversion H; subst.
    rewrite <- absp_eval_arg in E1.
    destruct (IHsk (eval_arg a p c) None a1 E1 w) as (c1 & w1 & k1 & R1 & A1 & T1 & G1).
    exists c, w1, k1. simpl. rewrite R1. repeat split; auto.
    intro g. now rewrite G1.
  - (* Reseed *) discriminate.
Qed.

(* the generators logged by the local semantics never include the global one *)
Definition noglob (w : lworld) : Prop := ~ In GGlobal (srcs w).

Lemma loop_noglob : forall (I : interp) body p t,
  (forall c w c1 w1, runL I body p c w = Some (c1, w1) -> noglob w -> noglob w1) ->
  forall n i c w c1 w1, loopL gstate value (runL I body p) (stop I t) n i c w = Some (c1, w1) -> noglob w -> noglob w1.
Proof.
  intros I body p t Hb. induction n; intros i c w c1 w1 H N; simpl in H.
  - now inversion H; subst.
  - destruct (stop I t i (hist w)). { now inversion H; subst. }
    destruct (runL I body p c w) as [[c2 w2]|] eqn:E; [|discriminate].
    eapply IHn; eauto.
Qed.

Lemma run_local_noglob : forall (I : interp) sk p c w c1 w1,
  runL I sk p c w = Some (c1, w1) -> noglob w -> noglob w1.
Proof.
  intros I. induction sk; intros p c w c1 w1 H N; simpl in H.
  - now inversion H; subst.
  - destruct (runL I sk1 p c w) as [[c2 w2]|] eqn:E; [|discriminate]. eauto.
  - destruct (decide I t (hist w)); eauto.
  - eapply loop_noglob; eauto.
  - destruct p; simpl in H; try (destruct (seed_ok s)); inversion H; subst; exact N.
  - destruct c as [[|h]|]; try discriminate; inversion H; subst; auto.
    unfold draw_obj. simpl. destruct (nth_error (heap w) h); auto.
    destruct (draw _ g). unfold noglob. simpl. intros [X|X]; [discriminate|auto].
  - discriminate.
  - destruct (runL I sk (eval_arg a p c) None w) as [[c2 w2]|] eqn:E; [|discriminate].
    inversion H; subst. eauto.
  - inversion H as [H1]. destruct (seed_from_frame I t w) as (S1 & _). rewrite H1 in S1. simpl in S1.
    unfold noglob. now rewrite S1.
Qed.

(* ---------------------------------------------------------------- one call *)
Lemma call_ni : forall (I : interp) sk (a : rsarg gstate),
  global_free sk (absp (param0 gstate a)) = true ->
  exists o k, callL I sk a = Some o /\ ~ In GGlobal (o_srcs o) /\
              forall env g, callG env I sk a g = (o, adv env 0 k g).
Proof.
  intros I sk a H. unfold global_free in H.
  destruct (gf sk (absp (param0 gstate a)) AUnset) as [ac|] eqn:E; [|discriminate].
  destruct (ni (fun _ x => x) I sk (param0 gstate a) None ac E (w0 gstate value a)) as (c1 & w1 & k & R & _ & T & _).
  exists (outcome_of gstate value a w1), k. unfold call_local, call. rewrite R. split; [reflexivity|]. split.
  - simpl. apply (run_local_noglob I sk _ _ _ _ _ R). unfold noglob. simpl. auto.
  - intros env g.
    destruct (ni env I sk (param0 gstate a) None ac E (w0 gstate value a)) as (c2 & w2 & k2 & R2 & _ & T2 & G2).
    rewrite R in R2. inversion R2; subst. rewrite G2. simpl.
    assert (k = k2) by (simpl in T, T2; lia). now subst.
Qed.

Theorem call_reproducible : forall (I : interp) sk (a : rsarg gstate),
  global_free sk (absp (param0 gstate a)) = true ->
  forall env env' g g', fst (callG env I sk a g) = fst (callG env' I sk a g').
Proof.
  intros I sk a H env env' g g'. destruct (call_ni I sk a H) as (o & k & _ & _ & G). now rewrite !G.
Qed.

Theorem call_global_untouched : forall (I : interp) sk (a : rsarg gstate),
  global_free sk (absp (param0 gstate a)) = true ->
  (forall g, snd (callG (fun _ x => x) I sk a g) = g) /\
  (forall env, exists k, forall g, snd (callG env I sk a g) = adv env 0 k g).
Proof.
  intros I sk a H. destruct (call_ni I sk a H) as (o & k & _ & _ & G). split.
  - intro g. rewrite G. simpl. apply advance_id.
  - intro env. exists k. intro g. now rewrite G.
Qed.

Theorem call_no_global_source : forall (I : interp) sk (a : rsarg gstate),
  global_free sk (absp (param0 gstate a)) = true ->
  forall env g, ~ In GGlobal (o_srcs (fst (callG env I sk a g))).
Proof.
  intros I sk a H env g. destruct (call_ni I sk a H) as (o & k & _ & N & G). now rewrite G.
Qed.

(* ---------------------------------------------------------------- check_random_state as a decision table *)
Lemma action_eqb_eq : forall a b, action_eqb a b = true -> a = b.
Proof. intros [] [] H; try reflexivity; discriminate. Qed.

Theorem crs_table_exact : forall tbl dflt, crs_table_ok tbl dflt = true ->
  forall p (w : lworld), crs_by_table gstate value seed tbl dflt p w = crs p w.
Proof.
  intros tbl dflt H p w. unfold crs_table_ok in H.
  apply andb_true_iff in H as [H Hb]. apply andb_true_iff in H as [H Hg]. apply andb_true_iff in H as [H Hi]. apply andb_true_iff in H as [_ Hn].
  apply action_eqb_eq in Hn, Hi, Hg, Hb.
  unfold crs_by_table. destruct p as [|s|g0|]; simpl kind_of.
  - rewrite Hn. reflexivity.
  - rewrite Hi. reflexivity.
  - rewrite Hg. reflexivity.
  - rewrite Hb. reflexivity.
Qed.

(* ---------------------------------------------------------------- RNG-free skeletons *)
Definition df_post (env : nat -> gstate -> gstate) (I : interp) sk p c (w : lworld) : Prop :=
  exists c1 w1 k, hist w1 = hist w /\ srcs w1 = srcs w /\ ticks w1 = ticks w + k /\
                  forall g, runG env I sk p c w g = (c1, w1, adv env (ticks w) k g).

Lemma loop_df : forall env (I : interp) body p t,
  (forall c w, df_post env I body p c w) ->
  forall n i c w, exists c1 w1 k, hist w1 = hist w /\ srcs w1 = srcs w /\ ticks w1 = ticks w + k /\
     forall g, loopG gstate value (runG env I body p) (stop I t) n i c w g = (c1, w1, adv env (ticks w) k g).
Proof.
  intros env I body p t Hb. induction n; intros i c w; simpl.
  - exists c, w, 0. repeat split; auto.
  - destruct (stop I t i (hist w)).
    + exists c, w, 0. repeat split; auto.
    + destruct (Hb c w) as (c1 & w1 & k1 & H1 & S1 & T1 & G1).
      destruct (IHn (S i) c1 w1) as (c2 & w2 & k2 & H2 & S2 & T2 & G2).
      exists c2, w2, (k1 + k2). repeat split; try congruence; try lia.
      intro g. rewrite G1, G2, T1. now rewrite advance_add.
Qed.

Lemma draw_free_run : forall env (I : interp) sk, draw_free sk = true -> forall p c w, df_post env I sk p c w.
Proof.
  intros env I. induction sk; intros D p c w; simpl in D; try discriminate.
  - exists c, w, 0. repeat split; auto.
  - apply andb_true_iff in D as [D1 D2].
    destruct (IHsk1 D1 p c w) as (c1 & w1 & k1 & H1 & S1 & T1 & G1).
    destruct (IHsk2 D2 p c1 w1) as (c2 & w2 & k2 & H2 & S2 & T2 & G2).
    exists c2, w2, (k1 + k2). repeat split; try congruence; try lia.
    intro g. simpl. rewrite G1, G2, T1. now rewrite advance_add.
  - apply andb_true_iff in D as [D1 D2]. unfold df_post. simpl. destruct (decide I t (hist w)); [apply (IHsk1 D1) | apply (IHsk2 D2)].
  - unfold df_post. simpl. apply loop_df. intros c0 w0. apply (IHsk D).
  - exists (fst (crs p (tickL gstate value w))), (snd (crs p (tickL gstate value w))), 1.
    destruct p as [|s|g0|]; simpl; try (destruct (seed_ok s); simpl); (split; [reflexivity|]; split; [reflexivity|]; split; [lia|]; intro g; reflexivity).
  - destruct (IHsk D (eval_arg a p c) None w) as (c1 & w1 & k1 & H1 & S1 & T1 & G1).
    exists c, w1, k1. repeat split; auto. intro g. simpl. now rewrite G1.
  - destruct (seed_from_frame I t w) as (S1 & H1 & T1 & _).
    exists (fst (seed_from gstate value req seed I t w)), (snd (seed_from gstate value req seed I t w)), 1.
    repeat split; auto; try lia. intro g. simpl. destruct (seed_from gstate value req seed I t w). reflexivity.
Qed.

Theorem call_rng_free : forall (I : interp) sk, draw_free sk = true ->
  forall (a : rsarg gstate) env g,
    o_hist (fst (callG env I sk a g)) = [] /\ o_srcs (fst (callG env I sk a g)) = [] /\
    exists k, snd (callG env I sk a g) = adv env 0 k g.
Proof.
  intros I sk D a env g.
  destruct (draw_free_run env I sk D (param0 gstate a) None (w0 gstate value a)) as (c1 & w1 & k & H1 & S1 & T1 & G1).
  unfold call. rewrite G1. simpl. repeat split; auto. now exists k.
Qed.

(* histories: Proofs/DrawsProofsSem.v (they go through the join-precise analysis, which also covers out-of-range seeds) *)

End P.

(* ---------------------------------------------------------------- the skeletons of /repo/tensorly *)
Lemma gf_seqs_map : forall (A : Type) (f : A -> skel) p c l,
  (forall d, gf (f d) p c = Some c) -> gf (seqs (map f l)) p c = Some c.
Proof. intros A f p c l H. induction l; simpl; auto. now rewrite H. Qed.

Fixpoint base_ep (e : ep) : ep := match e with E_estimator e' => base_ep e' | _ => e end.
(* every modelled entry point that has a random_state argument *)
(* (CP_PLSR has the argument but does not use it: treated separately, gf_cp_plsr; tensor_train / tensor_ring /
   tensor_train_matrix, E_tt_svd, have no such argument) *)
Definition seedable (e : ep) : bool := match base_ep e with E_power_iteration | E_cp_plsr | E_tt_svd => false | _ => true end.

Lemma gf_svd_interface : forall m mask nrep p, p = PInt \/ p = PLoc -> gf (sk_svd_interface m mask nrep) p AUnset = Some AUnset.
Proof. intros m mask nrep p [->| ->]; destruct m, mask; reflexivity. Qed.

Lemma skeleton_gf : forall e o p, p = PInt \/ p = PLoc -> seedable e = true -> global_free (skeleton e o) p = true.
Proof.
  intros e o p Hp. unfold seedable, global_free.
  induction e; intro S; simpl in S; try discriminate;
    try (destruct Hp as [-> | ->]; destruct o as [sh rk ini sv mk nr it ax]; simpl; unfold order; simpl;
         try reflexivity; destruct ini, sv, mk; try reflexivity; fail).
  - (* initialize_cp *)
    destruct o as [sh rk ini sv mk nr it ax]. simpl. unfold sk_initialize_cp, sk_initialize_cp_gen. simpl.
    destruct Hp as [-> | ->]; simpl; destruct ini; try reflexivity;
      (rewrite gf_seqs_map; [reflexivity|]; intro d; simpl; destruct (Nat.ltb d rk), sv, mk; reflexivity).
  - (* parafac *)
    destruct o as [sh rk ini sv mk nr it ax]. simpl. unfold sk_parafac, sk_initialize_cp, sk_initialize_cp_gen. simpl.
    destruct Hp as [-> | ->]; simpl; destruct ini; try reflexivity;
      (rewrite gf_seqs_map; [reflexivity|]; intro d; simpl; destruct (Nat.ltb d rk), sv, mk; reflexivity).
  - destruct o as [sh rk ini sv mk nr it ax]. simpl. unfold sk_parafac, sk_initialize_cp, sk_initialize_cp_gen. simpl.
    destruct Hp as [-> | ->]; simpl; destruct ini; try reflexivity;
      (rewrite gf_seqs_map; [reflexivity|]; intro d; simpl; destruct (Nat.ltb d rk), sv, mk; reflexivity).
  - destruct o as [sh rk ini sv mk nr it ax]. simpl. unfold sk_parafac, sk_initialize_cp, sk_initialize_cp_gen. simpl.
    destruct Hp as [-> | ->]; simpl; destruct ini; try reflexivity;
      (rewrite gf_seqs_map; [reflexivity|]; intro d; simpl; destruct (Nat.ltb d rk), sv, mk; reflexivity).
  - (* constrained_parafac *)
    destruct o as [sh rk ini sv mk nr it ax]. simpl. unfold sk_constrained_parafac, sk_initialize_constrained, sk_initialize_constrained_gen. simpl.
    destruct Hp as [-> | ->]; simpl; destruct ini; try reflexivity;
      (rewrite gf_seqs_map; [reflexivity|]; intro d; simpl; destruct (Nat.ltb d rk), sv; reflexivity).
  - (* initialize_constrained_parafac *)
    destruct o as [sh rk ini sv mk nr it ax]. simpl. unfold sk_initialize_constrained, sk_initialize_constrained_gen. simpl.
    destruct Hp as [-> | ->]; simpl; destruct ini; try reflexivity;
      (rewrite gf_seqs_map; [reflexivity|]; intro d; simpl; destruct (Nat.ltb d rk), sv; reflexivity).
  - (* randomised_parafac *)
    destruct o as [sh rk ini sv mk nr it ax]. simpl. unfold sk_randomised_parafac, sk_initialize_cp, sk_initialize_cp_gen. simpl.
    destruct Hp as [-> | ->]; simpl; destruct ini; try reflexivity;
      (rewrite gf_seqs_map; [reflexivity|]; intro d; simpl; destruct (Nat.ltb d rk), sv, mk; reflexivity).
  - (* estimator *)
    simpl. specialize (IHe S). destruct (gf (skeleton e o) p AUnset); [reflexivity|discriminate].
Qed.

(* CP_PLSR.fit: initialize_cp is called WITHOUT random_state; with rank 1 the only draw site (padding of a mode
   shorter than the rank) is unreachable unless the contracted tensor has an empty mode.  Then nothing is drawn from
   any generator, whatever random_state is. *)
Lemma gf_seqs_map_in : forall (A : Type) (f : A -> skel) p c l,
  (forall d, In d l -> gf (f d) p c = Some c) -> gf (seqs (map f l)) p c = Some c.
Proof.
  intros A f p c l H. induction l; simpl; auto.
  rewrite (H a (or_introl eq_refl)). apply IHl. intros d Hd. apply H. now right.
Qed.

Lemma gf_cp_plsr : forall o p, forallb (Nat.leb 1) (tl (o_shape o)) = true -> global_free (sk_cp_plsr o) p = true.
Proof.
  intros o p H. unfold global_free, sk_cp_plsr. simpl.
  rewrite gf_seqs_map_in; [reflexivity|].
  intros d Hd. rewrite forallb_forall in H. specialize (H d Hd). apply Nat.leb_le in H.
  simpl. destruct (Nat.ltb d 1) eqn:E; [apply Nat.ltb_lt in E; lia | reflexivity].
Qed.
