(* C16 -- histories of one process, continued (Model/Draws.v run_hist; Proofs/DrawsProofsSem.v state_at):
   * the generator-INSTANCE clause: two calls that receive generator objects in the same state -- two RandomState(s)
     created anywhere, or one object at two moments when it is in the same state -- return the same outcome, advance
     their objects to the same final state and leave the global generator alone, in one history or in two;
   * the clause about functions WITHOUT random choices: a draw-free call returns the same outcome wherever it occurs,
     whatever random_state is (None included), draws nothing and moves nothing. *)
From Coq Require Import List Arith ZArith Bool Lia.
From TLV Require Import Model.Draws Proofs.DrawsProofs Proofs.DrawsProofsSem.
Import ListNotations.

Section H2.
Variables gstate value req : Type.
Variable draw : req -> gstate -> value * gstate.
Variable seed : Z -> gstate.
Notation interp := (interp value req).
Notation event := (event gstate value req).
Notation runH := (run_hist gstate value req draw seed).
Notation callL := (call_local gstate value req draw seed).
Notation callG := (call gstate value req draw seed).
Notation stateAt := (state_at gstate value req draw seed).
Notation stepH := (step gstate value req draw seed).

(* the state just after event i is one step from the state just before it *)
Lemma state_at_S : forall (h : list event) i g insts e, nth_error h i = Some e ->
  stateAt h (S i) g insts = stepH e (fst (stateAt h i g insts)) (snd (stateAt h i g insts)).
Proof.
  induction h as [|e0 h IH]; intros i g insts e Hn.
  - destruct i; discriminate.
  - destruct i.
    + simpl in Hn. inversion Hn; subst.
      change (stateAt (e :: h) 1 g insts) with (let (g1, insts1) := stepH e g insts in stateAt h 0 g1 insts1).
      simpl fst. simpl snd. destruct (stepH e g insts) as [g1 insts1]. destruct h; reflexivity.
    + simpl in Hn.
      change (stateAt (e0 :: h) (S (S i)) g insts) with (let (g1, insts1) := stepH e0 g insts in stateAt h (S i) g1 insts1).
      change (stateAt (e0 :: h) (S i) g insts) with (let (g1, insts1) := stepH e0 g insts in stateAt h i g1 insts1).
      destruct (stepH e0 g insts) as [g1 insts1]. now apply IH.
Qed.

(* ---------------------------------------------------------------- generator objects in the same state *)
Theorem history_identical_instances :
  forall (h h' : list event) g g' insts insts' i j (ip : interp) sk k k' gs,
  nth_error h i = Some (ECall ip sk (RInst k)) -> nth_error h' j = Some (ECall ip sk (RInst k')) ->
  global_free_w sk = true ->
  nth_error (snd (stateAt h i g insts)) k = Some gs -> nth_error (snd (stateAt h' j g' insts')) k' = Some gs ->
  exists o,
    nth_error (fst (fst (runH h g insts))) i = Some (Some o) /\
    nth_error (fst (fst (runH h' g' insts'))) j = Some (Some o) /\
    snd (stateAt h (S i) g insts) = writeback gstate value (RInst k) o (snd (stateAt h i g insts)) /\
    snd (stateAt h' (S j) g' insts') = writeback gstate value (RInst k') o (snd (stateAt h' j g' insts')) /\
    fst (stateAt h (S i) g insts) = fst (stateAt h i g insts) /\
    fst (stateAt h' (S j) g' insts') = fst (stateAt h' j g' insts').
Proof.
  intros h h' g g' insts insts' i j ip sk k k' gs Hi Hj Hw Hk Hk'.
  destruct (gfw_call gstate value req draw seed ip sk (HInst gs) Hw eq_refl) as (o & n & L & _ & G).
  exists o.
  assert (R : resolve gstate (RInst k) (snd (stateAt h i g insts)) = HInst gs) by (simpl; now rewrite Hk).
  assert (R' : resolve gstate (RInst k') (snd (stateAt h' j g' insts')) = HInst gs) by (simpl; now rewrite Hk').
  split; [apply (history_results_sem gstate value req draw seed h g insts i ip sk (RInst k) o Hi); now rewrite R|].
  split; [apply (history_results_sem gstate value req draw seed h' g' insts' j ip sk (RInst k') o Hj); now rewrite R'|].
  rewrite (state_at_S h i g insts _ Hi), (state_at_S h' j g' insts' _ Hj).
  unfold step. rewrite R, R', !G. simpl. unfold idenv. rewrite !advance_id. auto.
Qed.

(* ---------------------------------------------------------------- functions without random choices, in histories *)
Lemma draw_free_local : forall (ip : interp) sk (a : rsarg gstate), draw_free sk = true ->
  exists o, callL ip sk a = Some o /\ o_hist o = [] /\ o_srcs o = [] /\ forall g, callG (idenv gstate) ip sk a g = (o, g).
Proof.
  intros ip sk a D.
  destruct (call_rng_free gstate value req draw seed ip sk D a (idenv gstate) (seed 0%Z)) as (Hh & Hs & _).
  destruct (callL ip sk a) as [o|] eqn:E.
  - destruct (call_local_agrees gstate value req draw seed ip sk a o E) as (_ & k & G).
    exists o. split; [reflexivity|]. rewrite G in Hh, Hs. simpl in Hh, Hs.
    repeat split; auto. intro g0. rewrite G. unfold idenv. now rewrite advance_id.
  - exfalso. apply (call_trace_criterion gstate value req draw seed ip sk a (idenv gstate) (seed 0%Z)) in E.
    rewrite Hs in E. exact E.
Qed.

Definition not_inst (a : hrs) : bool := match a with RInst _ => false | _ => true end.

Lemma resolve_not_inst : forall a (i1 i2 : list gstate), not_inst a = true -> resolve gstate a i1 = resolve gstate a i2.
Proof. intros [] i1 i2 H; try reflexivity; discriminate. Qed.

Theorem history_rng_free : forall (h : list event) g insts i (ip : interp) sk a,
  nth_error h i = Some (ECall ip sk a) -> draw_free sk = true ->
  exists o, nth_error (fst (fst (runH h g insts))) i = Some (Some o) /\ o_hist o = [] /\ o_srcs o = [] /\
            fst (stateAt h (S i) g insts) = fst (stateAt h i g insts).
Proof.
  intros h g insts i ip sk a Hi D.
  destruct (draw_free_local ip sk (resolve gstate a (snd (stateAt h i g insts))) D) as (o & L & Hh & Hs & G).
  exists o. split; [exact (history_results_sem gstate value req draw seed h g insts i ip sk a o Hi L)|].
  repeat split; auto.
  rewrite (state_at_S h i g insts _ Hi). unfold step. rewrite G. reflexivity.
Qed.

(* same function, same arguments, ANY random_state that is not a caller-owned object (None, the global object, an int, junk):
   the same outcome at any two positions of any two histories *)
Theorem history_rng_free_same : forall (h h' : list event) g g' insts insts' i j (ip : interp) sk a,
  not_inst a = true -> draw_free sk = true ->
  nth_error h i = Some (ECall ip sk a) -> nth_error h' j = Some (ECall ip sk a) ->
  nth_error (fst (fst (runH h g insts))) i = nth_error (fst (fst (runH h' g' insts'))) j.
Proof.
  intros h h' g g' insts insts' i j ip sk a Na D Hi Hj.
  destruct (draw_free_local ip sk (resolve gstate a (snd (stateAt h i g insts))) D) as (o & L & _).
  rewrite (history_results_sem gstate value req draw seed h g insts i ip sk a o Hi L).
  rewrite (resolve_not_inst a _ (snd (stateAt h' j g' insts')) Na) in L.
  now rewrite (history_results_sem gstate value req draw seed h' g' insts' j ip sk a o Hj L).
Qed.


(* ---------------------------------------------------------------- a generator object threaded through a SEQUENCE of calls *)
Lemma upd_same : forall (A : Type) (l : list A) k x y, nth_error l k = Some y -> nth_error (upd k x l) k = Some x.
Proof. induction l as [|a l IH]; intros [|k] x y H; simpl in *; try discriminate; eauto. Qed.

Lemma upd_other : forall (A : Type) (l : list A) k k' x, k' <> k -> nth_error (upd k' x l) k = nth_error l k.
Proof. induction l as [|a l IH]; intros [|k] [|k'] x H; simpl; auto; try congruence. Qed.

(* the calls of a history made on the caller's k-th generator object, and their outcomes in a run *)
Fixpoint calls_on (k : nat) (h : list event) : list (interp * skel) :=
  match h with
  | [] => []
  | ECall ip sk (RInst k') :: r => if Nat.eqb k' k then (ip, sk) :: calls_on k r else calls_on k r
  | _ :: r => calls_on k r
  end.
Fixpoint outcomes_on (k : nat) (h : list event) (os : list (option (outcome gstate value))) : list (option (outcome gstate value)) :=
  match h, os with
  | ECall _ _ (RInst k') :: r, o :: os' => if Nat.eqb k' k then o :: outcomes_on k r os' else outcomes_on k r os'
  | _ :: r, _ :: os' => outcomes_on k r os'
  | _, _ => []
  end.
(* the object threaded through these calls ALONE: no history, no global generator, no other object *)
Fixpoint thread (gs : gstate) (cs : list (interp * skel)) : list (option (outcome gstate value)) * gstate :=
  match cs with
  | [] => ([], gs)
  | (ip, sk) :: r =>
      match callL ip sk (HInst gs) with
      | Some o => let (os, gs2) := thread (match o_inst o with Some x => x | None => gs end) r in (Some o :: os, gs2)
      | None => ([], gs)
      end
  end.

Theorem history_instance_thread : forall (h : list event) g insts k gs,
  nth_error insts k = Some gs ->
  forallb (fun c => global_free_w (snd c)) (calls_on k h) = true ->
  outcomes_on k h (fst (fst (runH h g insts))) = fst (thread gs (calls_on k h)) /\
  nth_error (snd (runH h g insts)) k = Some (snd (thread gs (calls_on k h))).
Proof.
  induction h as [|e h IH]; intros g insts k gs Hk Hw.
  - simpl. auto.
  - destruct e as [ip sk a|f|s'].
    + destruct a as [|s|k'| |].
      * simpl in Hw |- *. destruct (callG (idenv gstate) ip sk HNone g) as [o g1].
        specialize (IH g1 insts k gs Hk Hw). unfold writeback. destruct (runH h g1 insts) as [[os g2] i2]. exact IH.
      * simpl in Hw |- *. destruct (callG (idenv gstate) ip sk (HInt s) g) as [o g1].
        specialize (IH g1 insts k gs Hk Hw). unfold writeback. destruct (runH h g1 insts) as [[os g2] i2]. exact IH.
      * cbn [calls_on] in Hw |- *. destruct (Nat.eqb k' k) eqn:E.
        -- apply Nat.eqb_eq in E. subst k'. cbn [forallb snd] in Hw. apply andb_true_iff in Hw as [Hs Hw].
           destruct (gfw_call gstate value req draw seed ip sk (HInst gs) Hs eq_refl) as (o & n & L & _ & G).
           cbn [run_hist resolve]. rewrite Hk. rewrite G. cbn [thread]. rewrite L.
           assert (Hk1 : nth_error (writeback gstate value (RInst k) o insts) k = Some (match o_inst o with Some x => x | None => gs end)).
           { unfold writeback. destruct (o_inst o); [eapply upd_same; eauto | exact Hk]. }
           specialize (IH (advance gstate (idenv gstate) 0 n g) _ k _ Hk1 Hw).
           destruct (runH h _ _) as [[os g2] i2]. destruct (thread _ (calls_on k h)) as [ts gs2].
           cbn [fst snd outcomes_on] in *. rewrite Nat.eqb_refl. destruct IH as [IH1 IH2]. split; [now rewrite IH1 | exact IH2].
        -- apply Nat.eqb_neq in E. cbn [run_hist].
           destruct (callG (idenv gstate) ip sk (resolve gstate (RInst k') insts) g) as [o g1].
           assert (Hk1 : nth_error (writeback gstate value (RInst k') o insts) k = Some gs).
           { unfold writeback. destruct (o_inst o); [rewrite upd_other; auto | exact Hk]. }
           specialize (IH g1 _ k gs Hk1 Hw). destruct (runH h g1 _) as [[os g2] i2].
           cbn [fst snd outcomes_on] in *. apply Nat.eqb_neq in E. rewrite E. exact IH.
      * simpl in Hw |- *. destruct (callG (idenv gstate) ip sk HGlobObj g) as [o g1].
        specialize (IH g1 insts k gs Hk Hw). unfold writeback. destruct (runH h g1 insts) as [[os g2] i2]. exact IH.
      * simpl in Hw |- *. destruct (callG (idenv gstate) ip sk HBad g) as [o g1].
        specialize (IH g1 insts k gs Hk Hw). unfold writeback. destruct (runH h g1 insts) as [[os g2] i2]. exact IH.
    + simpl in Hw |- *. specialize (IH (f g) insts k gs Hk Hw). destruct (runH h (f g) insts) as [[os g2] i2]. exact IH.
    + simpl in Hw |- *.
      assert (Hk1 : nth_error (insts ++ [seed s']) k = Some gs).
      { rewrite nth_error_app1; auto. apply nth_error_Some. congruence. }
      specialize (IH g _ k gs Hk1 Hw). destruct (runH h g _) as [[os g2] i2]. exact IH.
Qed.

(* two objects in the same state threaded through the same sequence of calls -- in one history or in two, whatever else
   happens in between (other library calls with any random_state, other objects, arbitrary use of the global generator) --
   see the same outcomes step by step and end in the same state *)
Theorem history_threaded_instances : forall (h h' : list event) g g' insts insts' k k' gs,
  nth_error insts k = Some gs -> nth_error insts' k' = Some gs ->
  calls_on k h = calls_on k' h' ->
  forallb (fun c => global_free_w (snd c)) (calls_on k h) = true ->
  outcomes_on k h (fst (fst (runH h g insts))) = outcomes_on k' h' (fst (fst (runH h' g' insts'))) /\
  nth_error (snd (runH h g insts)) k = nth_error (snd (runH h' g' insts')) k'.
Proof.
  intros h h' g g' insts insts' k k' gs Hk Hk' Hc Hw.
  destruct (history_instance_thread h g insts k gs Hk Hw) as [A1 A2].
  rewrite Hc in Hw. destruct (history_instance_thread h' g' insts' k' gs Hk' Hw) as [B1 B2].
  rewrite A1, A2, B1, B2, Hc. auto.
Qed.


(* ---------------------------------------------------------------- histories compose *)
(* running h1 ++ h2 is running h1 and then h2 from the state h1 left: the theorems above, stated for objects that exist when
   a history starts, apply to any suffix of a longer history -- in particular to an object from the moment ENew creates it *)
Theorem run_hist_app : forall (h1 h2 : list event) g insts,
  runH (h1 ++ h2) g insts =
  (fst (fst (runH h1 g insts)) ++ fst (fst (runH h2 (snd (fst (runH h1 g insts))) (snd (runH h1 g insts)))),
   snd (fst (runH h2 (snd (fst (runH h1 g insts))) (snd (runH h1 g insts)))),
   snd (runH h2 (snd (fst (runH h1 g insts))) (snd (runH h1 g insts)))).
Proof.
  induction h1 as [|e h1 IH]; intros h2 g insts.
  - simpl. destruct (runH h2 g insts) as [[os g2] i2]. reflexivity.
  - destruct e as [ip sk a|f|s']; simpl.
    + destruct (callG (idenv gstate) ip sk (resolve gstate a insts) g) as [o g1].
      rewrite (IH h2 g1 (writeback gstate value a o insts)).
      destruct (runH h1 g1 (writeback gstate value a o insts)) as [[os1 g1'] i1]. simpl.
      destruct (runH h2 g1' i1) as [[os2 g2] i2]. reflexivity.
    + rewrite (IH h2 (f g) insts). destruct (runH h1 (f g) insts) as [[os1 g1'] i1]. simpl.
      destruct (runH h2 g1' i1) as [[os2 g2] i2]. reflexivity.
    + rewrite (IH h2 g (insts ++ [seed s'])). destruct (runH h1 g (insts ++ [seed s'])) as [[os1 g1'] i1]. simpl.
      destruct (runH h2 g1' i1) as [[os2 g2] i2]. reflexivity.
Qed.

(* an object created by ENew s at the end of a prefix, then threaded through the calls of the rest *)
Theorem history_new_instance_thread : forall (h1 h2 : list event) g insts s,
  let k := length (snd (runH h1 g insts)) in
  forallb (fun c => global_free_w (snd c)) (calls_on k h2) = true ->
  nth_error (snd (runH (h1 ++ ENew s :: h2) g insts)) k = Some (snd (thread (seed s) (calls_on k h2))) /\
  outcomes_on k h2 (fst (fst (runH h2 (snd (fst (runH h1 g insts))) (snd (runH h1 g insts) ++ [seed s])))) =
    fst (thread (seed s) (calls_on k h2)).
Proof.
  intros h1 h2 g insts s k Hw.
  assert (Hk : nth_error (snd (runH h1 g insts) ++ [seed s]) k = Some (seed s)).
  { unfold k. rewrite nth_error_app2 by lia. now rewrite Nat.sub_diag. }
  destruct (history_instance_thread h2 (snd (fst (runH h1 g insts))) _ k (seed s) Hk Hw) as [A B].
  split; [|exact A].
  rewrite run_hist_app. cbn [snd]. simpl runH at 1.
  destruct (runH h2 (snd (fst (runH h1 g insts))) (snd (runH h1 g insts) ++ [seed s])) as [[os2 g2] i2]. exact B.
Qed.

End H2.
