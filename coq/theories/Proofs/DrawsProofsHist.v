(* C16 -- histories of one process, continued (Model/Draws.v run_hist; Proofs/DrawsProofsSem.v state_at):
   * the generator-INSTANCE clause: two calls that receive generator objects in the same state -- two RandomState(s)
     created anywhere, or one object at two moments when it is in the same state -- return the same outcome, advance
     their objects to the same final state and leave the global generator alone, in one history or in two;
   * the clause about functions WITHOUT random choices: a draw-free call returns the same outcome wherever it occurs,
     whatever random_state is (None included), draws nothing and moves nothing. *)
From Coq Require Import List Arith ZArith Bool Lia.
From TLV Require Import Model.Draws Proofs.DrawsProofs Proofs.DrawsProofsSem.
Import ListNotations.

Section H2.
Variables gstate value req : Type.
Variable draw : req -> gstate -> value * gstate.
Variable seed : Z -> gstate.
Notation interp := (interp value req).
Notation event := (event gstate value req).
Notation runH := (run_hist gstate value req draw seed).
Notation callL := (call_local gstate value req draw seed).
Notation callG := (call gstate value req draw seed).
Notation stateAt := (state_at gstate value req draw seed).
Notation stepH := (step gstate value req draw seed).

(* the state just after event i is one step from the state just before it *)
Lemma state_at_S : forall (h : list event) i g insts e, nth_error h i = Some e ->
  stateAt h (S i) g insts = stepH e (fst (stateAt h i g insts)) (snd (stateAt h i g insts)).
Proof.
  induction h as [|e0 h IH]; intros i g insts e Hn.
  - destruct i; discriminate.
  - destruct i.
    + simpl in Hn. inversion Hn; subst.
      change (stateAt (e :: h) 1 g insts) with (let (g1, insts1) := stepH e g insts in stateAt h 0 g1 insts1).
      simpl fst. simpl snd. destruct (stepH e g insts) as [g1 insts1]. destruct h; reflexivity.
    + simpl in Hn.
      change (stateAt (e0 :: h) (S (S i)) g insts) with (let (g1, insts1) := stepH e0 g insts in stateAt h (S i) g1 insts1).
      change (stateAt (e0 :: h) (S i) g insts) with (let (g1, insts1) := stepH e0 g insts in stateAt h i g1 insts1).
      destruct (stepH e0 g insts) as [g1 insts1]. now apply IH.
Qed.

(* ---------------------------------------------------------------- generator objects in the same state *)
Theorem history_identical_instances :
  forall (h h' : list event) g g' insts insts' i j (ip : interp) sk k k' gs,
  nth_error h i = Some (ECall ip sk (RInst k)) -> nth_error h' j = Some (ECall ip sk (RInst k')) ->
  global_free_w sk = true ->
  nth_error (snd (stateAt h i g insts)) k = Some gs -> nth_error (snd (stateAt h' j g' insts')) k' = Some gs ->
  exists o,
    nth_error (fst (fst (runH h g insts))) i = Some (Some o) /\
    nth_error (fst (fst (runH h' g' insts'))) j = Some (Some o) /\
    snd (stateAt h (S i) g insts) = writeback gstate value (RInst k) o (snd (stateAt h i g insts)) /\
    snd (stateAt h' (S j) g' insts') = writeback gstate value (RInst k') o (snd (stateAt h' j g' insts')) /\
    fst (stateAt h (S i) g insts) = fst (stateAt h i g insts) /\
    fst (stateAt h' (S j) g' insts') = fst (stateAt h' j g' insts').
Proof.
  intros h h' g g' insts insts' i j ip sk k k' gs Hi Hj Hw Hk Hk'.
  destruct (gfw_call gstate value req draw seed ip sk (HInst gs) Hw eq_refl) as (o & n & L & _ & G).
  exists o.
  assert (R : resolve gstate (RInst k) (snd (stateAt h i g insts)) = HInst gs) by (simpl; now rewrite Hk).
  assert (R' : resolve gstate (RInst k') (snd (stateAt h' j g' insts')) = HInst gs) by (simpl; now rewrite Hk').
  split; [apply (history_results_sem gstate value req draw seed h g insts i ip sk (RInst k) o Hi); now rewrite R|].
  split; [apply (history_results_sem gstate value req draw seed h' g' insts' j ip sk (RInst k') o Hj); now rewrite R'|].
  rewrite (state_at_S h i g insts _ Hi), (state_at_S h' j g' insts' _ Hj).
  unfold step. rewrite R, R', !G. simpl. unfold idenv. rewrite !advance_id. auto.
Qed.

(* ---------------------------------------------------------------- functions without random choices, in histories *)
Lemma draw_free_local : forall (ip : interp) sk (a : rsarg gstate), draw_free sk = true ->
  exists o, callL ip sk a = Some o /\ o_hist o = [] /\ o_srcs o = [] /\ forall g, callG (idenv gstate) ip sk a g = (o, g).
Proof.
  intros ip sk a D.
  destruct (call_rng_free gstate value req draw seed ip sk D a (idenv gstate) (seed 0%Z)) as (Hh & Hs & _).
  destruct (callL ip sk a) as [o|] eqn:E.
  - destruct (call_local_agrees gstate value req draw seed ip sk a o E) as (_ & k & G).
    exists o. split; [reflexivity|]. rewrite G in Hh, Hs. simpl in Hh, Hs.
    repeat split; auto. intro g0. rewrite G. unfold idenv. now rewrite advance_id.
  - exfalso. apply (call_trace_criterion gstate value req draw seed ip sk a (idenv gstate) (seed 0%Z)) in E.
    rewrite Hs in E. exact E.
Qed.

Definition not_inst (a : hrs) : bool := match a with RInst _ => false | _ => true end.

Lemma resolve_not_inst : forall a (i1 i2 : list gstate), not_inst a = true -> resolve gstate a i1 = resolve gstate a i2.
Proof. intros [] i1 i2 H; try reflexivity; discriminate. Qed.

Theorem history_rng_free : forall (h : list event) g insts i (ip : interp) sk a,
  nth_error h i = Some (ECall ip sk a) -> draw_free sk = true ->
  exists o, nth_error (fst (fst (runH h g insts))) i = Some (Some o) /\ o_hist o = [] /\ o_srcs o = [] /\
            fst (stateAt h (S i) g insts) = fst (stateAt h i g insts).
Proof.
  intros h g insts i ip sk a Hi D.
  destruct (draw_free_local ip sk (resolve gstate a (snd (stateAt h i g insts))) D) as (o & L & Hh & Hs & G).
  exists o. split; [exact (history_results_sem gstate value req draw seed h g insts i ip sk a o Hi L)|].
  repeat split; auto.
  rewrite (state_at_S h i g insts _ Hi). unfold step. rewrite G. reflexivity.
Qed.

(* same function, same arguments, ANY random_state that is not a caller-owned object (None, the global object, an int, junk):
   the same outcome at any two positions of any two histories *)
Theorem history_rng_free_same : forall (h h' : list event) g g' insts insts' i j (ip : interp) sk a,
  not_inst a = true -> draw_free sk = true ->
  nth_error h i = Some (ECall ip sk a) -> nth_error h' j = Some (ECall ip sk a) ->
  nth_error (fst (fst (runH h g insts))) i = nth_error (fst (fst (runH h' g' insts'))) j.
Proof.
  intros h h' g g' insts insts' i j ip sk a Na D Hi Hj.
  destruct (draw_free_local ip sk (resolve gstate a (snd (stateAt h i g insts))) D) as (o & L & _).
  rewrite (history_results_sem gstate value req draw seed h g insts i ip sk a o Hi L).
  rewrite (resolve_not_inst a _ (snd (stateAt h' j g' insts')) Na) in L.
  now rewrite (history_results_sem gstate value req draw seed h' g' insts' j ip sk a o Hj L).
Qed.

End H2.
