(* C16 -- the FIRST interpretation is the maximal one.
   The correspondence corr:C16 compares the traced bits of a call with the run of the hand-written skeleton under the
   interpretation that takes the first alternative of every data-dependent branch and never leaves a loop early.  Here it is
   proved, for EVERY interpretation I, every first-like interpretation J, every skeleton accepted by the syntactic test [fm]
   (true of every modelled definition, for all option values), every random_state and all worlds, that the run under I draws
   from no class of generator (global / passed instance / created inside the call) that the run under J does not draw from,
   and fails only if the run under J fails. *)
From Coq Require Import List Arith ZArith Bool Lia.
From TLV Require Import Model.Draws.
Import ListNotations.

(* the scope's rng variable is certainly unchanged by sk *)
Fixpoint keeps (sk : skel) : bool :=
  match sk with
  | Skip | Draw _ | DrawNp _ | Call _ _ => true
  | Seq a b | Branch _ a b => keeps a && keeps b
  | For _ _ body => keeps body
  | Check | Reseed _ => false
  end.
(* nothing happens at all: no check, no draw (at any depth) *)
Fixpoint inert (sk : skel) : bool :=
  match sk with
  | Skip => true
  | Seq a b | Branch _ a b => inert a && inert b
  | For _ _ body | Call _ body => inert body
  | Check | Draw _ | DrawNp _ | Reseed _ => false
  end.
(* first-maximal: the second alternative of every branch is inert and the first keeps rng; loop bodies keep rng; no Reseed *)
Fixpoint fm (sk : skel) : bool :=
  match sk with
  | Skip | Check | Draw _ | DrawNp _ => true
  | Reseed _ => false
  | Seq a b => fm a && fm b
  | Branch _ a b => fm a && keeps a && inert b
  | For _ _ body => fm body && keeps body
  | Call _ body => fm body
  end.

Section Max.
Variables gstate value req : Type.
Variable draw : req -> gstate -> value * gstate.
Variable seed : Z -> gstate.
Variable base : nat.        (* number of caller-owned objects at the bottom of the heap *)

Notation interp := (interp value req).
Notation lworld := (lworld gstate value).
Notation runG := (run gstate value req draw seed).
Notation crs := (check_random_state gstate value seed).

(* class of a generator: 0 = the global one, 1 = a caller-owned object, 2 = an object created inside the call *)
Definition cls (g : gen) : nat := match g with GGlobal => 0 | GObj h => if Nat.ltb h base then 1 else 2 end.
Definition has (k : nat) (l : list gen) : Prop := exists g, In g l /\ cls g = k.

Definition gok (g : gen) (w : lworld) : Prop := match g with GGlobal => True | GObj h => h < length (heap w) end.
Definition cok (c : option gen) (w : lworld) : Prop := match c with Some g => gok g w | None => True end.
Definition pok (p : rsval) (w : lworld) : Prop := match p with VGen g => gok g w | _ => True end.
Definition crel (a b : option gen) : Prop :=
  match a, b with None, None => True | Some x, Some y => cls x = cls y | _, _ => False end.
Definition prel (a b : rsval) : Prop :=
  match a, b with
  | VNone, VNone => True | VInt x, VInt y => x = y | VGen x, VGen y => cls x = cls y | VBad, VBad => True
  | _, _ => False
  end.
Definition wrel (wI wJ : lworld) : Prop :=
  (failed wI = true -> failed wJ = true) /\ (forall k, has k (srcs wI) -> has k (srcs wJ)) /\
  base <= length (heap wI) /\ base <= length (heap wJ).

Definition first_like (J : interp) : Prop := (forall t h, decide J t h = true) /\ (forall t i h, stop J t i h = false).

(* ---------------------------------------------------------------- one run: monotone *)
Definition mono_post (sk : skel) (c : option gen) (w : lworld) (c' : option gen) (w' : lworld) : Prop :=
  length (heap w) <= length (heap w') /\ cok c' w' /\ (failed w = true -> failed w' = true) /\
  (forall g, In g (srcs w) -> In g (srcs w')) /\ (keeps sk = true -> c' = c).

Lemma gok_mono : forall g (w w' : lworld), length (heap w) <= length (heap w') -> gok g w -> gok g w'.
Proof. intros [|h] w w' L H; simpl in *; auto. lia. Qed.
Lemma cok_mono : forall c (w w' : lworld), length (heap w) <= length (heap w') -> cok c w -> cok c w'.
Proof. intros [g|] w w' L H; simpl in *; auto. eapply gok_mono; eauto. Qed.
Lemma pok_mono : forall p (w w' : lworld), length (heap w) <= length (heap w') -> pok p w -> pok p w'.
Proof. intros [|s|g|] w w' L H; simpl in *; auto. eapply gok_mono; eauto. Qed.

Lemma upd_length : forall (A : Type) n (x : A) l, length (upd n x l) = length l.
Proof. intros A n x l. revert n. induction l; intros [|n]; simpl; auto. Qed.

Lemma draw_obj_facts : forall (I : interp) t h (w : lworld),
  length (heap (draw_obj gstate value req draw I t h w)) = length (heap w) /\
  (failed w = true -> failed (draw_obj gstate value req draw I t h w) = true) /\
  (forall g, In g (srcs w) -> In g (srcs (draw_obj gstate value req draw I t h w))).
Proof.
  intros I t h w. unfold draw_obj. destruct (nth_error (heap w) h) as [gs|].
  - destruct (draw (request I t (hist w)) gs) as [v gs']. simpl. rewrite upd_length. repeat split; auto.
  - simpl. repeat split; auto.
Qed.

Lemma draw_obj_ok : forall (I : interp) t h (w : lworld), h < length (heap w) ->
  failed (draw_obj gstate value req draw I t h w) = failed w /\
  (forall g, In g (srcs (draw_obj gstate value req draw I t h w)) <-> g = GObj h \/ In g (srcs w)).
Proof.
  intros I t h w H. unfold draw_obj. destruct (nth_error (heap w) h) as [gs|] eqn:E.
  - destruct (draw (request I t (hist w)) gs) as [v gs']. simpl. split; auto. intro g. split; intros [X|X]; auto.
  - apply nth_error_None in E. lia.
Qed.

Lemma crs_facts : forall p (w : lworld), pok p w ->
  length (heap w) <= length (heap (snd (crs p w))) /\ cok (fst (crs p w)) (snd (crs p w)) /\
  (failed w = true -> failed (snd (crs p w)) = true) /\ srcs (snd (crs p w)) = srcs w.
Proof.
  intros [|s|g|] w H; simpl.
  - repeat split; auto.
  - destruct (seed_ok s); simpl; repeat split; auto; rewrite ?app_length; simpl; lia.
  - repeat split; auto.
  - repeat split; auto.
Qed.

Lemma loop_mono : forall env (I : interp) body p t,
  (forall c w g, pok p w -> cok c w ->
     let '(c', w', _) := runG env I body p c w g in mono_post body c w c' w') ->
  forall n i c w g, pok p w -> cok c w ->
     let '(c', w', _) := loopG gstate value (runG env I body p) (stop I t) n i c w g in mono_post body c w c' w'.
Proof.
  intros env I body p t Hb. induction n; intros i c w g Hp Hc; simpl.
  - unfold mono_post. repeat split; auto.
  - destruct (stop I t i (hist w)). { unfold mono_post. repeat split; auto. }
    specialize (Hb c w g Hp Hc). destruct (runG env I body p c w g) as [[c1 w1] g1].
    destruct Hb as (L1 & C1 & F1 & S1 & K1).
    specialize (IHn (S i) c1 w1 g1 (pok_mono _ _ _ L1 Hp) C1).
    destruct (loopG gstate value (runG env I body p) (stop I t) n (S i) c1 w1 g1) as [[c2 w2] g2].
    destruct IHn as (L2 & C2 & F2 & S2 & K2).
    unfold mono_post. repeat split; auto; try lia.
    intro K. rewrite (K2 K). auto.
Qed.

Lemma mono : forall env (I : interp) sk p c w g, pok p w -> cok c w ->
  let '(c', w', _) := runG env I sk p c w g in mono_post sk c w c' w'.
Proof.
  intros env I. induction sk; intros p c w g Hp Hc; simpl.
  - unfold mono_post. repeat split; auto.
  - specialize (IHsk1 p c w g Hp Hc). destruct (runG env I sk1 p c w g) as [[c1 w1] g1].
    destruct IHsk1 as (L1 & C1 & F1 & S1 & K1).
    specialize (IHsk2 p c1 w1 g1 (pok_mono _ _ _ L1 Hp) C1). destruct (runG env I sk2 p c1 w1 g1) as [[c2 w2] g2].
    destruct IHsk2 as (L2 & C2 & F2 & S2 & K2).
    unfold mono_post. repeat split; auto; try lia.
    simpl. intro K. apply andb_true_iff in K as [Ka Kb]. rewrite (K2 Kb). auto.
  - destruct (decide I t (hist w)).
    + specialize (IHsk1 p c w g Hp Hc). destruct (runG env I sk1 p c w g) as [[c1 w1] g1].
      destruct IHsk1 as (L1 & C1 & F1 & S1 & K1). unfold mono_post. repeat split; auto.
      simpl. intro K. apply andb_true_iff in K as [Ka Kb]. auto.
    + specialize (IHsk2 p c w g Hp Hc). destruct (runG env I sk2 p c w g) as [[c1 w1] g1].
      destruct IHsk2 as (L1 & C1 & F1 & S1 & K1). unfold mono_post. repeat split; auto.
      simpl. intro K. apply andb_true_iff in K as [Ka Kb]. auto.
  - pose proof (loop_mono env I sk p t (fun c0 w0 g0 => IHsk p c0 w0 g0) n 0 c w g Hp Hc) as H.
    destruct (loopG gstate value (runG env I sk p) (stop I t) n 0 c w g) as [[c1 w1] g1]. exact H.
  - assert (Hp' : pok p (tickL gstate value w)) by (destruct p as [|s|[|h]|]; simpl in *; auto).
    pose proof (crs_facts p (tickL gstate value w) Hp') as (L & C & F & S).
    destruct (crs p (tickL gstate value w)) as [c1 w1]. simpl in *.
    unfold mono_post. repeat split; auto. { rewrite S. auto. } discriminate.
  - destruct c as [[|h]|].
    + unfold draw_glob. simpl. destruct (draw (request I t (hist w)) (env (ticks w) g)) as [v g']. simpl.
      unfold mono_post. simpl. repeat split; auto.
    + pose proof (draw_obj_facts I t h (tickL gstate value w)) as (L & F & S). simpl in *.
      unfold mono_post. simpl. repeat split; auto; try lia.
    + unfold mono_post. simpl. repeat split; auto.
  - unfold draw_glob. simpl. destruct (draw (request I t (hist w)) (env (ticks w) g)) as [v g']. simpl.
    unfold mono_post. simpl. repeat split; auto.
  - assert (Hp' : pok (eval_arg a p c) w) by (destruct a; simpl; auto; destruct c; simpl in *; auto).
    specialize (IHsk (eval_arg a p c) None w g Hp' Logic.I). destruct (runG env I sk (eval_arg a p c) None w g) as [[c1 w1] g1].
    destruct IHsk as (L1 & C1 & F1 & S1 & K1). unfold mono_post. repeat split; auto.
    eapply cok_mono; eauto.
  - unfold seed_from.
    pose proof (crs_facts (VInt (as_seed I t (hist w))) (tickL gstate value w) Logic.I) as (L & C & F & S).
    destruct (crs (VInt (as_seed I t (hist w))) (tickL gstate value w)) as [c1 w1]. simpl in *.
    unfold mono_post. repeat split; auto. { rewrite S. auto. } discriminate.
Qed.

(* an inert skeleton does nothing at all *)
Lemma loop_inert : forall env (I : interp) body p t,
  (forall c w g, runG env I body p c w g = (c, w, g)) ->
  forall n i c w g, loopG gstate value (runG env I body p) (stop I t) n i c w g = (c, w, g).
Proof.
  intros env I body p t Hb. induction n; intros i c w g; simpl; auto.
  destruct (stop I t i (hist w)); auto. rewrite Hb. apply IHn.
Qed.
Lemma inert_run : forall env (I : interp) sk, inert sk = true -> forall p c w g, runG env I sk p c w g = (c, w, g).
Proof.
  intros env I. induction sk; intros H p c w g; simpl in H; try discriminate; simpl.
  - reflexivity.
  - apply andb_true_iff in H as [H1 H2]. rewrite (IHsk1 H1). apply (IHsk2 H2).
  - apply andb_true_iff in H as [H1 H2]. destruct (decide I t (hist w)); auto.
  - apply loop_inert. intros; apply (IHsk H).
  - now rewrite (IHsk H).
Qed.

(* ---------------------------------------------------------------- two runs: I below J *)
Definition sim_post (cI : option gen) (wI : lworld) (cJ : option gen) (wJ : lworld) : Prop :=
  crel cI cJ /\ wrel wI wJ.

Lemma has_cons : forall k g l, has k (g :: l) <-> cls g = k \/ has k l.
Proof.
  intros k g l. unfold has. split.
  - intros (x & [E|E] & C); [subst; auto | right; eauto].
  - intros [C | (x & E & C)]; [exists g; simpl; auto | exists x; simpl; auto].
Qed.

Lemma wrel_trans_J : forall wI wJ wJ' : lworld, wrel wI wJ ->
  length (heap wJ) <= length (heap wJ') -> (failed wJ = true -> failed wJ' = true) ->
  (forall g, In g (srcs wJ) -> In g (srcs wJ')) -> wrel wI wJ'.
Proof.
  intros wI wJ wJ' (F & S & B1 & B2) L F' S'. unfold wrel. repeat split; auto; try lia.
  intros k Hk. destruct (S k Hk) as (x & X & C). exists x. auto.
Qed.

Section Two.
Variables envI envJ : nat -> gstate -> gstate.
Variables (I J : interp).
Hypothesis HJ : first_like J.

Definition sim_pre pI pJ cI cJ (wI wJ : lworld) : Prop :=
  prel pI pJ /\ crel cI cJ /\ pok pI wI /\ pok pJ wJ /\ cok cI wI /\ cok cJ wJ /\ wrel wI wJ.

Lemma loop_sim : forall body pI pJ t, keeps body = true ->
  (forall cI cJ wI wJ gI gJ, sim_pre pI pJ cI cJ wI wJ ->
     let '(cI', wI', _) := runG envI I body pI cI wI gI in
     let '(cJ', wJ', _) := runG envJ J body pJ cJ wJ gJ in sim_post cI' wI' cJ' wJ') ->
  forall n iI iJ cI cJ wI wJ gI gJ, sim_pre pI pJ cI cJ wI wJ ->
     let '(cI', wI', _) := loopG gstate value (runG envI I body pI) (stop I t) n iI cI wI gI in
     let '(cJ', wJ', _) := loopG gstate value (runG envJ J body pJ) (stop J t) n iJ cJ wJ gJ in sim_post cI' wI' cJ' wJ'.
Proof.
  intros body pI pJ t K Hb. induction n; intros iI iJ cI cJ wI wJ gI gJ Pre; simpl.
  - destruct Pre as (P & Cr & PI & PJ & CI & CJ & W). split; auto.
  - destruct HJ as [_ HS]. rewrite HS.
    destruct (stop I t iI (hist wI)).
    + (* I leaves the loop, J goes on: J only adds *)
      destruct Pre as (P & Cr & PI & PJ & CI & CJ & W).
      pose proof (loop_mono envJ J body pJ t (fun c0 w0 g0 Hp0 Hc0 => mono envJ J body pJ c0 w0 g0 Hp0 Hc0) (S n) iJ cJ wJ gJ PJ CJ) as M.
      simpl in M. rewrite HS in M.
      destruct (runG envJ J body pJ cJ wJ gJ) as [[c1 w1] g1].
      destruct (loopG gstate value (runG envJ J body pJ) (stop J t) n (S iJ) c1 w1 g1) as [[c2 w2] g2].
      destruct M as (L & C & F & S & Kc). rewrite (Kc K). split; auto.
      eapply wrel_trans_J; eauto.
    + pose proof (Hb cI cJ wI wJ gI gJ Pre) as B.
      destruct Pre as (P & Cr & PI & PJ & CI & CJ & W).
      pose proof (mono envI I body pI cI wI gI PI CI) as MI. pose proof (mono envJ J body pJ cJ wJ gJ PJ CJ) as MJ.
      destruct (runG envI I body pI cI wI gI) as [[cI1 wI1] gI1]. destruct (runG envJ J body pJ cJ wJ gJ) as [[cJ1 wJ1] gJ1].
      destruct MI as (LI & CI1 & _). destruct MJ as (LJ & CJ1 & _). destruct B as (Cr1 & W1).
      apply IHn. unfold sim_pre. repeat split; auto; try (eapply pok_mono; eauto); apply W1.
Qed.

Lemma prel_eval_arg : forall a pI pJ cI cJ, prel pI pJ -> crel cI cJ -> prel (eval_arg a pI cI) (eval_arg a pJ cJ).
Proof.
  intros [] pI pJ cI cJ P C; simpl; auto. destruct cI, cJ; simpl in *; auto; contradiction.
Qed.

Lemma sim : forall sk, fm sk = true -> forall pI pJ cI cJ wI wJ gI gJ, sim_pre pI pJ cI cJ wI wJ ->
  let '(cI', wI', _) := runG envI I sk pI cI wI gI in
  let '(cJ', wJ', _) := runG envJ J sk pJ cJ wJ gJ in sim_post cI' wI' cJ' wJ'.
Proof.
  induction sk; intros H pI pJ cI cJ wI wJ gI gJ Pre; simpl in H; try discriminate; simpl.
  - (* Skip *) destruct Pre as (P & Cr & PI & PJ & CI & CJ & W). split; auto.
  - (* Seq *)
    apply andb_true_iff in H as [H1 H2].
    pose proof (IHsk1 H1 pI pJ cI cJ wI wJ gI gJ Pre) as B.
    destruct Pre as (P & Cr & PI & PJ & CI & CJ & W).
    pose proof (mono envI I sk1 pI cI wI gI PI CI) as MI. pose proof (mono envJ J sk1 pJ cJ wJ gJ PJ CJ) as MJ.
    destruct (runG envI I sk1 pI cI wI gI) as [[cI1 wI1] gI1]. destruct (runG envJ J sk1 pJ cJ wJ gJ) as [[cJ1 wJ1] gJ1].
    destruct MI as (LI & CI1 & _). destruct MJ as (LJ & CJ1 & _). destruct B as (Cr1 & W1).
    apply (IHsk2 H2). unfold sim_pre. repeat split; auto; try (eapply pok_mono; eauto); apply W1.
  - (* Branch *)
    apply andb_true_iff in H as [H Hi]. apply andb_true_iff in H as [H1 Hk].
    destruct HJ as [HD _]. rewrite HD.
    destruct (decide I t (hist wI)).
    + apply (IHsk1 H1); auto.
    + rewrite (inert_run envI I sk2 Hi).
      destruct Pre as (P & Cr & PI & PJ & CI & CJ & W).
      pose proof (mono envJ J sk1 pJ cJ wJ gJ PJ CJ) as MJ.
      destruct (runG envJ J sk1 pJ cJ wJ gJ) as [[cJ1 wJ1] gJ1].
      destruct MJ as (L & C & F & S & Kc). rewrite (Kc Hk). split; auto. eapply wrel_trans_J; eauto.
  - (* For *)
    apply andb_true_iff in H as [H1 Hk].
    apply (loop_sim sk pI pJ t Hk); auto. intros. apply (IHsk H1); auto.
  - (* Check *)
    destruct Pre as (P & Cr & PI & PJ & CI & CJ & (F & S & B1 & B2)).
    destruct pI as [|s|x|], pJ as [|s'|y|]; simpl in P; try contradiction; simpl.
    + split; [reflexivity|]. unfold wrel; simpl. repeat split; auto.
    + subst s'. destruct (seed_ok s); simpl.
      * split.
        -- simpl. destruct (Nat.ltb_spec (length (heap wI)) base); destruct (Nat.ltb_spec (length (heap wJ)) base); auto; lia.
        -- unfold wrel; simpl. rewrite !app_length. simpl. repeat split; auto; lia.
      * split; [exact Logic.I|]. unfold wrel; simpl. repeat split; auto.
    + split; [exact P|]. unfold wrel; simpl. repeat split; auto.
    + split; [exact Logic.I|]. unfold wrel; simpl. repeat split; auto.
  - (* Draw *)
    destruct Pre as (P & Cr & PI & PJ & CI & CJ & (F & S & B1 & B2)).
    destruct cI as [[|hI]|], cJ as [[|hJ]|]; simpl in Cr; try contradiction;
      try (destruct (Nat.ltb hI base); discriminate); try (destruct (Nat.ltb hJ base); discriminate).
    + unfold draw_glob. simpl.
      destruct (draw (request I t (hist wI)) (envI (ticks wI) gI)) as [vI gI'].
      destruct (draw (request J t (hist wJ)) (envJ (ticks wJ) gJ)) as [vJ gJ']. simpl.
      split; [reflexivity|]. unfold wrel; simpl. repeat split; auto.
      intros k Hk. apply has_cons in Hk. apply has_cons. destruct Hk; auto.
    + simpl in CI, CJ.
      pose proof (draw_obj_facts I t hI (tickL gstate value wI)) as (LI & _).
      pose proof (draw_obj_facts J t hJ (tickL gstate value wJ)) as (LJ & _).
      pose proof (draw_obj_ok I t hI (tickL gstate value wI) CI) as (FI & SI).
      pose proof (draw_obj_ok J t hJ (tickL gstate value wJ) CJ) as (FJ & SJ).
      split; [exact Cr|]. unfold wrel. rewrite FI, FJ, LI, LJ. simpl. repeat split; auto.
      intros k (x & X & C). apply SI in X. destruct X as [X|X].
      * subst x. exists (GObj hJ). split; [apply SJ; auto | simpl; simpl in C; congruence].
      * destruct (S k (ex_intro _ x (conj X C))) as (y & Y & C'). exists y. split; [apply SJ; auto | auto].
    + split; [exact Logic.I|]. unfold wrel; simpl. repeat split; auto.
  - (* DrawNp *)
    destruct Pre as (P & Cr & PI & PJ & CI & CJ & (F & S & B1 & B2)).
    unfold draw_glob. simpl.
    destruct (draw (request I t (hist wI)) (envI (ticks wI) gI)) as [vI gI'].
    destruct (draw (request J t (hist wJ)) (envJ (ticks wJ) gJ)) as [vJ gJ']. simpl.
    split; [exact Cr|]. unfold wrel; simpl. repeat split; auto.
    intros k Hk. apply has_cons in Hk. apply has_cons. destruct Hk; auto.
  - (* Call *)
    destruct Pre as (P & Cr & PI & PJ & CI & CJ & W).
    assert (PI' : pok (eval_arg a pI cI) wI) by (destruct a; simpl; auto; destruct cI; simpl in *; auto).
    assert (PJ' : pok (eval_arg a pJ cJ) wJ) by (destruct a; simpl; auto; destruct cJ; simpl in *; auto).
    assert (Pre' : sim_pre (eval_arg a pI cI) (eval_arg a pJ cJ) None None wI wJ).
    { unfold sim_pre. repeat split; auto; try apply W. apply prel_eval_arg; auto. }
    pose proof (IHsk H _ _ _ _ _ _ gI gJ Pre') as B.
    destruct (runG envI I sk (eval_arg a pI cI) None wI gI) as [[cI1 wI1] gI1].
    destruct (runG envJ J sk (eval_arg a pJ cJ) None wJ gJ) as [[cJ1 wJ1] gJ1].
    destruct B as (_ & W1). split; auto.
Qed.
End Two.
End Max.

(* ---------------------------------------------------------------- every modelled definition is first-maximal *)
Lemma fm_seqs_map : forall (A : Type) (f : A -> skel) l, (forall d, fm (f d) = true) -> fm (seqs (map f l)) = true.
Proof. intros A f l H. induction l; simpl; auto. now rewrite H. Qed.

Lemma fm_svd_interface : forall m mask nrep, fm (sk_svd_interface m mask nrep) = true.
Proof. intros [] [] nrep; reflexivity. Qed.

Lemma skeleton_fm : forall e o, fm (skeleton e o) = true.
Proof.
  induction e; intro o;
    try (destruct o as [sh rk ini sv mk nr it ax]; simpl; unfold order; simpl;
         try reflexivity; destruct ini, sv, mk; try reflexivity; fail).
  - destruct o as [sh rk ini sv mk nr it ax]. simpl. unfold sk_initialize_cp, sk_initialize_cp_gen. simpl.
    destruct ini; try reflexivity. apply fm_seqs_map. intro d. simpl. destruct (Nat.ltb d rk), sv, mk; reflexivity.
  - destruct o as [sh rk ini sv mk nr it ax]. simpl. unfold sk_parafac, sk_initialize_cp, sk_initialize_cp_gen. simpl.
    destruct ini; try reflexivity. rewrite fm_seqs_map; [reflexivity|]. intro d. simpl. destruct (Nat.ltb d rk), sv, mk; reflexivity.
  - destruct o as [sh rk ini sv mk nr it ax]. simpl. unfold sk_parafac, sk_initialize_cp, sk_initialize_cp_gen. simpl.
    destruct ini; try reflexivity. rewrite fm_seqs_map; [reflexivity|]. intro d. simpl. destruct (Nat.ltb d rk), sv, mk; reflexivity.
  - destruct o as [sh rk ini sv mk nr it ax]. simpl. unfold sk_parafac, sk_initialize_cp, sk_initialize_cp_gen. simpl.
    destruct ini; try reflexivity. rewrite fm_seqs_map; [reflexivity|]. intro d. simpl. destruct (Nat.ltb d rk), sv, mk; reflexivity.
  - destruct o as [sh rk ini sv mk nr it ax]. simpl. unfold sk_constrained_parafac, sk_initialize_constrained, sk_initialize_constrained_gen. simpl.
    destruct ini; try reflexivity. rewrite fm_seqs_map; [reflexivity|]. intro d. simpl. destruct (Nat.ltb d rk), sv; reflexivity.
  - destruct o as [sh rk ini sv mk nr it ax]. simpl. unfold sk_initialize_constrained, sk_initialize_constrained_gen. simpl.
    destruct ini; try reflexivity. apply fm_seqs_map. intro d. simpl. destruct (Nat.ltb d rk), sv; reflexivity.
  - destruct o as [sh rk ini sv mk nr it ax]. simpl. unfold sk_randomised_parafac, sk_initialize_cp, sk_initialize_cp_gen. simpl.
    destruct ini; try reflexivity. rewrite fm_seqs_map; [reflexivity|]. intro d. simpl. destruct (Nat.ltb d rk), sv, mk; reflexivity.
  - (* CP_PLSR *)
    destruct o as [sh rk ini sv mk nr it ax]. simpl. unfold sk_cp_plsr, sk_initialize_cp, sk_initialize_cp_gen. simpl.
    rewrite fm_seqs_map; [reflexivity|]. intro d. simpl. destruct (Nat.ltb d 1); reflexivity.
  - (* estimator *) simpl. apply IHe.
Qed.

(* one library call, ANY generator: under any interpretation I the call draws from no class of generator (0 = the global one,
   1 = the caller's instance, 2 = an object created inside the call) that it does not draw from under a first-like
   interpretation J, and fails only if it fails under J -- whatever the two environments and global states are *)
Theorem call_first_maximal : forall (gstate value req : Type) (draw : req -> gstate -> value * gstate) (seed : Z -> gstate)
    (sk : skel), fm sk = true ->
  forall (I J : interp value req), first_like value req J ->
  forall (a : rsarg gstate) envI envJ gI gJ,
    let oI := fst (call gstate value req draw seed envI I sk a gI) in
    let oJ := fst (call gstate value req draw seed envJ J sk a gJ) in
    (o_failed oI = true -> o_failed oJ = true) /\
    (forall k, has (length (heap0 gstate a)) k (o_srcs oI) -> has (length (heap0 gstate a)) k (o_srcs oJ)).
Proof.
  intros gstate value req draw seed sk H I J HJ a envI envJ gI gJ. unfold call.
  assert (Pre : sim_pre gstate value (length (heap0 gstate a)) (param0 gstate a) (param0 gstate a) None None (w0 gstate value a) (w0 gstate value a)).
  { unfold sim_pre, wrel. simpl. repeat split; auto; try (destruct a; simpl; auto; fail). }
  pose proof (sim gstate value req draw seed (length (heap0 gstate a)) envI envJ I J HJ sk H _ _ _ _ _ _ gI gJ Pre) as S.
  destruct (run gstate value req draw seed envI I sk (param0 gstate a) None (w0 gstate value a) gI) as [[cI wI] gI'].
  destruct (run gstate value req draw seed envJ J sk (param0 gstate a) None (w0 gstate value a) gJ) as [[cJ wJ] gJ'].
  destruct S as (_ & F & S & _). simpl. split; auto.
Qed.

(* the premise is needed: a branch whose SECOND alternative draws *)
Example fm_needed :
  let sk := Branch 0 Skip (DrawNp 1) in
  fm sk = false /\
  project (HInt 3%Z) (fst (call Z Z nat toy_draw toy_seed toy_env toy_interp_alt sk (HInt 3%Z) 77%Z)) 77%Z (snd (call Z Z nat toy_draw toy_seed toy_env toy_interp_alt sk (HInt 3%Z) 77%Z))
    = (true, true, false, false, true) /\
  project (HInt 3%Z) (fst (call Z Z nat toy_draw toy_seed toy_env toy_interp sk (HInt 3%Z) 77%Z)) 77%Z (snd (call Z Z nat toy_draw toy_seed toy_env toy_interp sk (HInt 3%Z) 77%Z))
    = (true, false, false, false, false).
Proof. vm_compute. repeat split; reflexivity. Qed.

(* ---------------------------------------------------------------- the toy generator: the global state counts the global draws *)
Definition nglob (l : list gen) : nat := length (filter (gen_eqb GGlobal) l).
Notation runT := (run Z Z nat toy_draw toy_seed toy_env).

Definition toy_post (w : lworld Z Z) (g : Z) (w' : lworld Z Z) (g' : Z) : Prop :=
  (g' - g = Z.of_nat (nglob (srcs w')) - Z.of_nat (nglob (srcs w)))%Z.

Lemma nglob_glob : forall l, Z.of_nat (nglob (GGlobal :: l)) = (Z.of_nat (nglob l) + 1)%Z.
Proof. intro l. unfold nglob. cbn [filter gen_eqb length]. lia. Qed.
Lemma nglob_obj : forall h l, nglob (GObj h :: l) = nglob l.
Proof. reflexivity. Qed.

Lemma toy_loop : forall (I : interp Z nat) body p t,
  (forall c w g, let '(_, w', g') := runT I body p c w g in toy_post w g w' g') ->
  forall n i c w g, let '(_, w', g') := loopG Z Z (runT I body p) (stop I t) n i c w g in toy_post w g w' g'.
Proof.
  intros I body p t Hb. induction n; intros i c w g; simpl.
  - unfold toy_post. lia.
  - destruct (stop I t i (hist w)). { unfold toy_post. lia. }
    specialize (Hb c w g). destruct (runT I body p c w g) as [[c1 w1] g1].
    specialize (IHn (S i) c1 w1 g1). destruct (loopG Z Z (runT I body p) (stop I t) n (S i) c1 w1 g1) as [[c2 w2] g2].
    unfold toy_post in *. lia.
Qed.

Lemma toy_count : forall (I : interp Z nat) sk p c w g, let '(_, w', g') := runT I sk p c w g in toy_post w g w' g'.
Proof.
  intros I. induction sk; intros p c w g; simpl.
  - unfold toy_post. lia.
  - specialize (IHsk1 p c w g). destruct (runT I sk1 p c w g) as [[c1 w1] g1].
    specialize (IHsk2 p c1 w1 g1). destruct (runT I sk2 p c1 w1 g1) as [[c2 w2] g2]. unfold toy_post in *. lia.
  - destruct (decide I t (hist w)); [apply IHsk1 | apply IHsk2].
  - apply toy_loop. intros. apply IHsk.
  - destruct p as [|s|x|]; simpl; try (destruct (seed_ok s); simpl); unfold toy_post, toy_env; simpl; lia.
  - destruct c as [[|h]|]; simpl.
    + unfold toy_post, toy_env, draw_glob, toy_draw. cbn [srcs tickL]. rewrite nglob_glob. lia.
    + unfold toy_post, toy_env, draw_obj, toy_draw. cbn [heap tickL]. destruct (nth_error (heap w) h); cbn [srcs failL tickL]; rewrite ?nglob_obj; lia.
    + unfold toy_post, toy_env. cbn [srcs failL tickL]. lia.
  - unfold toy_post, toy_env, draw_glob, toy_draw. cbn [srcs tickL]. rewrite nglob_glob. lia.
  - specialize (IHsk (eval_arg a p c) None w g). destruct (runT I sk (eval_arg a p c) None w g) as [[c1 w1] g1]. exact IHsk.
  - unfold seed_from. simpl. destruct (seed_ok (as_seed I t (hist w))); simpl; unfold toy_post, toy_env; simpl; lia.
Qed.

(* ---------------------------------------------------------------- the projections *)
Lemma existsb_ext' : forall (A : Type) (f g : A -> bool) l, (forall x, f x = g x) -> existsb f l = existsb g l.
Proof. intros A f g l H. induction l; simpl; auto. now rewrite H, IHl. Qed.

Lemma has_existsb : forall base k l, has base k l <-> existsb (fun x => Nat.eqb (cls base x) k) l = true.
Proof.
  intros base k l. rewrite existsb_exists. unfold has. split; intros (x & X & C); exists x; split; auto.
  - now apply Nat.eqb_eq.
  - now apply Nat.eqb_eq in C.
Qed.

Lemma nglob_existsb : forall l, existsb (gen_eqb GGlobal) l = negb (Nat.eqb (nglob l) 0).
Proof. unfold nglob. induction l as [|[|h] l IH]; simpl; auto. Qed.

Theorem first_interpretation_maximal : forall (e : ep) (o : opts) (a : rsarg Z) (I : interp Z nat),
  proj_le (model_projection_with I e o a) (model_projection e o a) = true.
Proof.
  intros e o a I. unfold model_projection, model_projection_with, call.
  generalize 77%Z. intro g0.
  set (base := length (heap0 Z a)).
  assert (HJ : first_like Z nat toy_interp) by (split; intros; reflexivity).
  assert (Pre : sim_pre Z Z base (param0 Z a) (param0 Z a) None None (w0 Z Z a) (w0 Z Z a)).
  { unfold sim_pre, wrel. simpl. repeat split; auto; try (destruct a; simpl; auto; fail); try (subst base; lia). }
  pose proof (sim Z Z nat toy_draw toy_seed base toy_env toy_env I toy_interp HJ (skeleton e o) (skeleton_fm e o) _ _ _ _ _ _ g0 g0 Pre) as S.
  pose proof (toy_count I (skeleton e o) (param0 Z a) None (w0 Z Z a) g0) as TI.
  pose proof (toy_count toy_interp (skeleton e o) (param0 Z a) None (w0 Z Z a) g0) as TJ.
  destruct (runT I (skeleton e o) (param0 Z a) None (w0 Z Z a) g0) as [[cI wI] gI].
  destruct (runT toy_interp (skeleton e o) (param0 Z a) None (w0 Z Z a) g0) as [[cJ wJ] gJ].
  destruct S as (_ & F & S & _). unfold toy_post in TI, TJ. simpl in TI, TJ.
  unfold project, outcome_of, proj_le. simpl. fold base.
  assert (B0 : forall w : lworld Z Z, existsb (gen_eqb GGlobal) (srcs w) = existsb (fun x => Nat.eqb (cls base x) 0) (srcs w)).
  { intro w. apply existsb_ext'. intros [|h]; simpl; auto. destruct (Nat.ltb h base); reflexivity. }
  assert (B2 : forall w : lworld Z Z, existsb (fun x => match x with GObj h => Nat.leb base h | GGlobal => false end) (srcs w)
                                     = existsb (fun x => Nat.eqb (cls base x) 2) (srcs w)).
  { intro w. apply existsb_ext'. intros [|h]; simpl; auto.
    destruct (Nat.ltb_spec h base); destruct (Nat.leb_spec base h); simpl; auto; lia. }
  assert (B1 : forall w : lworld Z Z, existsb (fun x => match x with GObj h => Nat.ltb h base | GGlobal => false end) (srcs w)
                                     = existsb (fun x => Nat.eqb (cls base x) 1) (srcs w)).
  { intro w. apply existsb_ext'. intros [|h]; simpl; auto. destruct (Nat.ltb h base); reflexivity. }
  assert (Hk : forall k, existsb (fun x => Nat.eqb (cls base x) k) (srcs wI) = true -> existsb (fun x => Nat.eqb (cls base x) k) (srcs wJ) = true).
  { intros k H. apply has_existsb. apply S. now apply has_existsb. }
  assert (Himp : forall x y : bool, (x = true -> y = true) -> implb x y = true) by (intros [] []; simpl; auto).
  rewrite !andb_true_iff. repeat split; apply Himp.
  - intro H. destruct (failed wI) eqn:EI; auto. rewrite (F eq_refl) in H. discriminate.
  - rewrite !B0. apply Hk.
  - rewrite !B2. apply Hk.
  - rewrite !B1. apply Hk.
  - intro H. pose proof (Hk 0) as H0. rewrite <- !B0 in H0. rewrite !nglob_existsb in H0.
    destruct (Z.eqb_spec g0 gI) as [E|E]; [discriminate|]. destruct (Z.eqb_spec g0 gJ) as [E'|E']; auto.
    assert (nglob (srcs wI) <> 0) by lia.
    assert (X : negb (Nat.eqb (nglob (srcs wI)) 0) = true) by (destruct (Nat.eqb_spec (nglob (srcs wI)) 0); auto; lia).
    specialize (H0 X). destruct (Nat.eqb_spec (nglob (srcs wJ)) 0); simpl in H0; [discriminate|]. lia.
Qed.
