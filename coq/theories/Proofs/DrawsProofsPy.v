(* C16 -- lemmas about the Python-shaped skeleton language of Model/Draws.v (pskel): the semantics without a global
   generator is exact when defined, and the analysis pgf (names collapsed onto safe / possibly-global, pointwise
   joins) is sound.  This is what makes the treatment of check_random_state bindings, aliases of the argument,
   several generator names per scope and re-assignments in corr:C16-static a THEOREM instead of harness code. *)
From Coq Require Import List Arith ZArith Bool Lia.
From TLV Require Import Model.Draws Proofs.DrawsProofs Proofs.DrawsProofsSem.
Import ListNotations.

(* ---------------------------------------------------------------- lists with a default *)
Lemma nth_setv_eq : forall (A : Type) (d : A) x v l, nth x (setv d x v l) d = v.
Proof. induction x; intros v l; destruct l; simpl; auto. Qed.

Lemma nth_setv_neq : forall (A : Type) (d : A) x y v l, x <> y -> nth y (setv d x v l) d = nth y l d.
Proof.
  induction x; intros y v l H; destruct l; destruct y; simpl; auto; try congruence.
  - destruct y; reflexivity.
  - rewrite IHx by congruence. destruct y; reflexivity.
Qed.

Lemma alook_aset_eq : forall x v A, alook x (aset x v A) = v.
Proof. intros. unfold alook, aset. simpl. apply nth_setv_eq. Qed.

Lemma alook_aset_neq : forall x y v A, x <> y -> alook y (aset x v A) = alook y A.
Proof. intros. unfold alook, aset. simpl. now apply nth_setv_neq. Qed.

Lemma nth_map_seq : forall (f : nat -> wcur) n x d, (forall y, n <= y -> f y = d) -> nth x (map f (seq 0 n)) d = f x.
Proof.
  intros f n x d H. destruct (Nat.lt_ge_cases x n) as [L|G].
  - rewrite (nth_indep _ d (f 0)) by (now rewrite map_length, seq_length).
    rewrite map_nth. now rewrite seq_nth.
  - rewrite nth_overflow by (now rewrite map_length, seq_length). symmetry. now apply H.
Qed.

Lemma alook_ajoin : forall x A B, alook x (ajoin A B) = wjoin (alook x A) (alook x B).
Proof.
  intros x A B. unfold ajoin. unfold alook at 1. simpl.
  apply nth_map_seq. intros y Hy. unfold alook.
  rewrite !nth_overflow by lia. reflexivity.
Qed.

Lemma ale_look : forall A B, ale A B = true -> forall x, wle (alook x A) (alook x B) = true.
Proof.
  intros A B H x. unfold ale in H. apply andb_true_iff in H as [H1 H2].
  destruct (Nat.lt_ge_cases x (Nat.max (length (fst A)) (length (fst B)))) as [L|G].
  - rewrite forallb_forall in H1. apply H1. apply in_seq. lia.
  - unfold alook. rewrite !nth_overflow by lia. exact H2.
Qed.

Lemma alook_atop : forall x, alook x atop = WUnsafe.
Proof. intros x. unfold alook, atop. simpl. destruct x; reflexivity. Qed.

Section P.
Variables gstate value req : Type.
Variable draw : req -> gstate -> value * gstate.
Variable seed : Z -> gstate.
Notation interp := (interp value req).
Notation lworld := (lworld gstate value).
Notation prunL := (prun_local gstate value req draw seed).
Notation prunG := (prun gstate value req draw seed).
Notation crs := (check_random_state gstate value seed).
Notation adv := (advance gstate).
Notation pcallG := (pcall gstate value req draw seed).

(* ---------------------------------------------------------------- prun_local defined => prun agrees *)
Definition pagrees (env : nat -> gstate -> gstate) (I : interp) (sk : pskel) : Prop :=
  forall e w e1 w1, prunL I sk e w = Some (e1, w1) ->
    exists k, ticks w1 = ticks w + k /\ forall g, prunG env I sk e w g = (e1, w1, adv env (ticks w) k g).

Lemma ploop_agrees : forall env (I : interp) body t,
  pagrees env I body ->
  forall n i e w e1 w1, ploopL gstate value (prunL I body) (stop I t) n i e w = Some (e1, w1) ->
  exists k, ticks w1 = ticks w + k /\
            forall g, ploopG gstate value (prunG env I body) (stop I t) n i e w g = (e1, w1, adv env (ticks w) k g).
Proof.
  intros env I body t Hb. induction n; intros i e w e1 w1 H; simpl in H |- *.
  - inversion H; subst. exists 0. split; [lia|]. reflexivity.
  - destruct (stop I t i (hist w)).
    + inversion H; subst. exists 0. split; [lia|]. reflexivity.
    + destruct (prunL I body e w) as [[e2 w2]|] eqn:E; [|discriminate].
      destruct (Hb e w e2 w2 E) as (k1 & T1 & G1).
      destruct (IHn (S i) e2 w2 e1 w1 H) as (k2 & T2 & G2).
      exists (k1 + k2). split; [lia|]. intro g. rewrite G1, G2, T1. now rewrite advance_add.
Qed.

Lemma prun_local_agrees : forall env (I : interp) sk, pagrees env I sk.
Proof.
  intros env I. induction sk; intros e0 w e1 w1 H; simpl in H.
  - inversion H; subst. exists 0. split; [lia|]. reflexivity.
  - destruct (prunL I sk1 e0 w) as [[e2 w2]|] eqn:E; [|discriminate].
    destruct (IHsk1 e0 w e2 w2 E) as (k1 & T1 & G1).
    destruct (IHsk2 e2 w2 e1 w1 H) as (k2 & T2 & G2).
    exists (k1 + k2). split; [lia|]. intro g. simpl. rewrite G1, G2, T1. now rewrite advance_add.
  - simpl. destruct (decide I t (hist w)); [apply (IHsk1 _ _ _ _ H) | apply (IHsk2 _ _ _ _ H)].
  - simpl. eapply ploop_agrees; eauto.
  - inversion H; subst. exists 0. split; [lia|]. reflexivity.
  - destruct (crs (peval e e0) (tickL gstate value w)) as [c1 w2] eqn:E. inversion H; subst.
    exists 1. split.
    + pose proof (crs_ticks gstate value seed (peval e e0) (tickL gstate value w)) as T. rewrite E in T. simpl in T. lia.
    + intro g. simpl. rewrite E. reflexivity.
  - destruct (nth x e0 VBad) as [|s|[|h]|] eqn:N; try discriminate; inversion H; subst; exists 1; simpl; rewrite N;
      (split; [try rewrite draw_obj_ticks; simpl; lia | reflexivity]).
  - discriminate.
  - destruct (prunL I sk [peval e e0] w) as [[e2 w2]|] eqn:E; [|discriminate].
    inversion H; subst. destruct (IHsk _ _ _ _ E) as (k & T & G).
    exists k. split; [exact T|]. intro g. simpl. now rewrite G.
  - inversion H; subst. exists 0. split; [simpl; lia|]. reflexivity.
  - unfold seed_from in *. destruct (crs (VInt (as_seed I t (hist w))) (tickL gstate value w)) as [c1 w2] eqn:E. inversion H; subst.
    exists 1. split.
    + pose proof (crs_ticks gstate value seed (VInt (as_seed I t (hist w))) (tickL gstate value w)) as T. rewrite E in T. simpl in T. lia.
    + intro g. simpl. unfold seed_from. rewrite E. reflexivity.
Qed.

(* ---------------------------------------------------------------- the analysis pgf is sound *)
(* concrete environment below abstract environment *)
Definition below (e : list rsval) (A : aenv) : Prop := forall x, wle (wabsp (nth x e VBad)) (alook x A) = true.

Lemma below_set : forall e A x v a, below e A -> wle (wabsp v) a = true -> below (setv VBad x v e) (aset x a A).
Proof.
  intros e A x v a B H y. destruct (Nat.eq_dec x y) as [->|N].
  - now rewrite nth_setv_eq, alook_aset_eq.
  - rewrite nth_setv_neq, alook_aset_neq by exact N. apply B.
Qed.

Lemma below_eval : forall e A ex, below e A -> wle (wabsp (peval ex e)) (aeval ex A) = true.
Proof. intros e A [x| |s|] B; simpl; auto. Qed.

Lemma below_le : forall e A B, below e A -> (forall x, wle (alook x A) (alook x B) = true) -> below e B.
Proof. intros e A B H L x. eapply wle_trans; [apply H | apply L]. Qed.

Lemma below_top : forall e, below e atop.
Proof. intros e x. rewrite alook_atop. apply wle_unsafe. Qed.

Lemma wabsp_of_gen_crs : forall v (w : lworld), wabsp (of_gen (fst (crs v w))) = wabsp v.
Proof. intros [|s|[|h]|] w; simpl; try reflexivity. destruct (seed_ok s); reflexivity. Qed.

Definition psound (I : interp) (sk : pskel) : Prop :=
  forall A A', pgf sk A = Some A' ->
  forall e w, below e A -> exists e1 w1, prunL I sk e w = Some (e1, w1) /\ below e1 A'.

Lemma ploop_psound : forall (I : interp) body t Ainv,
  (forall e w, below e Ainv -> exists e1 w1, prunL I body e w = Some (e1, w1) /\ below e1 Ainv) ->
  forall n i e w, below e Ainv ->
    exists e1 w1, ploopL gstate value (prunL I body) (stop I t) n i e w = Some (e1, w1) /\ below e1 Ainv.
Proof.
  intros I body t Ainv Hb. induction n; intros i e w He; simpl.
  - eauto.
  - destruct (stop I t i (hist w)); [eauto|].
    destruct (Hb e w He) as (e1 & w1 & R & H1). rewrite R. apply IHn. exact H1.
Qed.

Lemma pgf_sound : forall (I : interp) sk, psound I sk.
Proof.
  intros I. induction sk; intros A A' H e0 w B; simpl in H.
  - inversion H; subst. simpl. eauto.
  - destruct (pgf sk1 A) as [A1|] eqn:E1; [|discriminate].
    destruct (IHsk1 _ _ E1 e0 w B) as (e1 & w1 & R1 & B1).
    destruct (IHsk2 _ _ H e1 w1 B1) as (e2 & w2 & R2 & B2).
    exists e2, w2. simpl. rewrite R1. auto.
  - destruct (pgf sk1 A) as [A1|] eqn:E1; [|discriminate].
    destruct (pgf sk2 A) as [A2|] eqn:E2; [|discriminate]. inversion H; subst. simpl.
    destruct (decide I t (hist w)).
    + destruct (IHsk1 _ _ E1 e0 w B) as (e1 & w1 & R1 & B1). exists e1, w1. split; auto.
      eapply below_le; [exact B1|]. intro x. rewrite alook_ajoin. apply wle_join_l.
    + destruct (IHsk2 _ _ E2 e0 w B) as (e1 & w1 & R1 & B1). exists e1, w1. split; auto.
      eapply below_le; [exact B1|]. intro x. rewrite alook_ajoin. apply wle_join_r.
  - destruct (pgf sk A) as [A1|] eqn:E1; [|discriminate]. simpl.
    destruct (ale A1 A) eqn:L.
    + inversion H; subst. apply (ploop_psound I sk t A'); auto.
      intros e2 w2 B2. destruct (IHsk _ _ E1 e2 w2 B2) as (e1 & w1 & R1 & B1).
      exists e1, w1. split; auto. eapply below_le; [exact B1 | apply ale_look; exact L].
    + cbv zeta in H. destruct (pgf sk (ajoin A A1)) as [B1|] eqn:EB; [|discriminate].
      destruct (ale B1 (ajoin A A1)) eqn:LB.
      * inversion H; subst. apply (ploop_psound I sk t (ajoin A A1)).
        -- intros e2 w2 B2. destruct (IHsk _ _ EB e2 w2 B2) as (e1 & w1 & R1 & B1').
           exists e1, w1. split; auto. eapply below_le; [exact B1' | apply ale_look; exact LB].
        -- eapply below_le; [exact B|]. intro x. rewrite alook_ajoin. apply wle_join_l.
      * destruct (pgf sk atop) as [A2|] eqn:E2; [|discriminate]. inversion H; subst.
        apply (ploop_psound I sk t atop); [|apply below_top].
        intros e2 w2 B2. destruct (IHsk _ _ E2 e2 w2 B2) as (e1 & w1 & R1 & B1').
        exists e1, w1. split; auto. apply below_top.
  - inversion H; subst. simpl. eexists _, _. split; [reflexivity|].
    apply below_set; auto. now apply below_eval.
  - inversion H; subst. simpl.
    destruct (crs (peval e e0) (tickL gstate value w)) as [c1 w1] eqn:E.
    eexists _, _. split; [reflexivity|].
    apply below_set; auto.
    pose proof (wabsp_of_gen_crs (peval e e0) (tickL gstate value w)) as X. rewrite E in X. simpl in X. rewrite X.
    now apply below_eval.
  - destruct (alook x A) eqn:L; [|discriminate]. inversion H; subst. simpl.
    pose proof (B x) as Bx. rewrite L in Bx.
    destruct (nth x e0 VBad) as [|s|[|h]|]; simpl in Bx; try discriminate; eauto.
  - discriminate.
  - destruct (pgf sk ([aeval e A], WSafe)) as [A1|] eqn:E1; [|discriminate]. inversion H; subst. simpl.
    assert (B0 : below [peval e e0] ([aeval e A'], WSafe)).
    { intro y. destruct y as [|y]; simpl; [now apply below_eval | destruct y; reflexivity]. }
    destruct (IHsk _ _ E1 [peval e e0] w B0) as (e1 & w1 & R1 & _).
    rewrite R1. eauto.
  - inversion H; subst. simpl. eauto.
  - inversion H; subst. simpl. unfold seed_from.
    destruct (crs (VInt (as_seed I t (hist w))) (tickL gstate value w)) as [c1 w1] eqn:E.
    eexists _, _. split; [reflexivity|].
    apply below_set; auto.
    pose proof (wabsp_of_gen_crs (VInt (as_seed I t (hist w))) (tickL gstate value w)) as X. rewrite E in X. simpl in X. rewrite X. reflexivity.
Qed.

(* ---------------------------------------------------------------- one call of an extracted skeleton *)
Theorem pgf_call : forall (I : interp) sk (a : rsarg gstate),
  pglobal_free sk = true -> safe_arg gstate a = true ->
  exists o k, forall env g, pcallG env I sk a g = (o, adv env 0 k g).
Proof.
  intros I sk a H Ha. unfold pglobal_free in H.
  destruct (pgf sk ([WSafe], WSafe)) as [A'|] eqn:E; [|discriminate].
  assert (B0 : below [param0 gstate a] ([WSafe], WSafe)).
  { intro y. destruct y as [|y]; simpl; [destruct a; simpl in *; try discriminate; try reflexivity; destruct (seed_ok s); reflexivity
                                        | destruct y; reflexivity]. }
  destruct (pgf_sound I sk _ _ E [param0 gstate a] (w0 gstate value a) B0) as (e1 & w1 & R & _).
  destruct (prun_local_agrees (fun _ x => x) I sk _ _ _ _ R) as (k & T & _).
  exists (outcome_of gstate value a w1), k. intros env g. unfold pcall.
  destruct (prun_local_agrees env I sk _ _ _ _ R) as (k' & T' & G'). rewrite G'.
  assert (k = k') by (simpl in T, T'; lia). now subst.
Qed.

Theorem pgf_reproducible : forall (I : interp) sk (a : rsarg gstate),
  pglobal_free sk = true -> safe_arg gstate a = true ->
  (forall env env' g g', fst (pcallG env I sk a g) = fst (pcallG env' I sk a g')) /\
  (forall g, snd (pcallG (fun _ x => x) I sk a g) = g) /\
  (forall env, exists k, forall g, snd (pcallG env I sk a g) = adv env 0 k g).
Proof.
  intros I sk a H Ha. destruct (pgf_call I sk a H Ha) as (o & k & G). repeat split.
  - intros. now rewrite !G.
  - intro g. rewrite G. simpl. apply advance_id.
  - intro env. exists k. intro g. now rewrite G.
Qed.

(* ---------------------------------------------------------------- source-level skeletons WITHOUT draws *)
Lemma crs_hist_srcs : forall v (w : lworld), hist (snd (crs v w)) = hist w /\ srcs (snd (crs v w)) = srcs w.
Proof. intros [|s|g|] w; simpl; try (destruct (seed_ok s)); split; reflexivity. Qed.

Definition pdf_post (env : nat -> gstate -> gstate) (I : interp) sk e (w : lworld) : Prop :=
  exists e1 w1 k, hist w1 = hist w /\ srcs w1 = srcs w /\ ticks w1 = ticks w + k /\
                  forall g, prunG env I sk e w g = (e1, w1, adv env (ticks w) k g).

Lemma ploop_df : forall env (I : interp) body t,
  (forall e w, pdf_post env I body e w) ->
  forall n i e w, exists e1 w1 k, hist w1 = hist w /\ srcs w1 = srcs w /\ ticks w1 = ticks w + k /\
     forall g, ploopG gstate value (prunG env I body) (stop I t) n i e w g = (e1, w1, adv env (ticks w) k g).
Proof.
  intros env I body t Hb. induction n; intros i e w; simpl.
  - exists e, w, 0. repeat split; auto.
  - destruct (stop I t i (hist w)).
    + exists e, w, 0. repeat split; auto.
    + destruct (Hb e w) as (e1 & w1 & k1 & H1 & S1 & T1 & G1).
      destruct (IHn (S i) e1 w1) as (e2 & w2 & k2 & H2 & S2 & T2 & G2).
      exists e2, w2, (k1 + k2). repeat split; try congruence; try lia.
      intro g. rewrite G1, G2, T1. now rewrite advance_add.
Qed.

Lemma pdraw_free_run : forall env (I : interp) sk, pdraw_free sk = true -> forall e w, pdf_post env I sk e w.
Proof.
  intros env I. induction sk; intros D e0 w; simpl in D; try discriminate.
  - exists e0, w, 0. repeat split; auto.
  - apply andb_true_iff in D as [D1 D2].
    destruct (IHsk1 D1 e0 w) as (e1 & w1 & k1 & H1 & S1 & T1 & G1).
    destruct (IHsk2 D2 e1 w1) as (e2 & w2 & k2 & H2 & S2 & T2 & G2).
    exists e2, w2, (k1 + k2). repeat split; try congruence; try lia.
    intro g. simpl. rewrite G1, G2, T1. now rewrite advance_add.
  - apply andb_true_iff in D as [D1 D2]. unfold pdf_post. simpl. destruct (decide I t (hist w)); [apply (IHsk1 D1) | apply (IHsk2 D2)].
  - unfold pdf_post. simpl. apply ploop_df. intros e1 w1. apply (IHsk D).
  - eexists _, w, 0. repeat split; auto.
  - destruct (crs (peval e e0) (tickL gstate value w)) as [c1 w1] eqn:E.
    pose proof (crs_hist_srcs (peval e e0) (tickL gstate value w)) as [Hh Hs]. rewrite E in Hh, Hs. simpl in Hh, Hs.
    pose proof (crs_ticks gstate value seed (peval e e0) (tickL gstate value w)) as T. rewrite E in T. simpl in T.
    eexists _, w1, 1. repeat split; auto; try lia. intro g. simpl. rewrite E. reflexivity.
  - destruct (IHsk D [peval e e0] w) as (e1 & w1 & k1 & H1 & S1 & T1 & G1).
    exists e0, w1, k1. repeat split; auto. intro g. simpl. now rewrite G1.
  - exists e0, (failL gstate value w), 0. repeat split; simpl; auto; lia.
  - unfold pdf_post. simpl. unfold seed_from. destruct (crs (VInt (as_seed I t (hist w))) (tickL gstate value w)) as [c1 w1] eqn:E.
    pose proof (crs_hist_srcs (VInt (as_seed I t (hist w))) (tickL gstate value w)) as [Hh Hs]. rewrite E in Hh, Hs. simpl in Hh, Hs.
    pose proof (crs_ticks gstate value seed (VInt (as_seed I t (hist w))) (tickL gstate value w)) as T. rewrite E in T. simpl in T.
    eexists _, w1, 1. repeat split; auto; try lia.
Qed.

Theorem pcall_rng_free : forall (I : interp) sk, pdraw_free sk = true ->
  forall (a : rsarg gstate) env g,
    o_hist (fst (pcallG env I sk a g)) = [] /\ o_srcs (fst (pcallG env I sk a g)) = [] /\
    exists k, snd (pcallG env I sk a g) = adv env 0 k g.
Proof.
  intros I sk D a env g.
  destruct (pdraw_free_run env I sk D [param0 gstate a] (w0 gstate value a)) as (e1 & w1 & k & H1 & S1 & T1 & G1).
  unfold pcall. rewrite G1. simpl. repeat split; auto. now exists k.
Qed.

End P.
