(* C16 -- the two skeleton languages of Model/Draws.v describe the same calls, and the out-of-range-seed clause at source level:
   (1) [embed : skel -> pskel] (variable 0 = random_state, variable 1 = rng) preserves the whole-process semantics EXACTLY
       (same outcome, same final global state, for every generator / interpretation / environment / random_state), so
       every hand-written skeleton is also a term of the language the harness transcribes the source into;
   (2) [pmust_check] (the scope certainly hands its own, not re-bound, random_state argument to check_random_state) is
       sound for [prun]: an out-of-range int seed makes the call fail, and it accepts the embedding of every skeleton
       that the first language's [must_check] accepts. *)
From Coq Require Import List Arith ZArith Bool Lia.
From TLV Require Import Model.Draws Proofs.DrawsProofs Proofs.DrawsProofsSem Proofs.DrawsProofsPy.
Import ListNotations.

Section E.
Variables gstate value req : Type.
Variable draw : req -> gstate -> value * gstate.
Variable seed : Z -> gstate.
Notation interp := (interp value req).
Notation lworld := (lworld gstate value).
Notation runG := (run gstate value req draw seed).
Notation prunG := (prun gstate value req draw seed).
Notation crs := (check_random_state gstate value seed).
Notation callG := (call gstate value req draw seed).
Notation pcallG := (pcall gstate value req draw seed).

(* the Python-level environment [e] represents the pair (random_state argument, rng variable) of the first language *)
Definition repr (e : list rsval) (p : rsval) (c : option gen) : Prop := nth 0 e VBad = p /\ nth 1 e VBad = of_gen c.

Lemma repr_scope : forall x, repr [x] x None.
Proof. intro x. split; reflexivity. Qed.

Lemma repr_arg : forall a e p c, repr e p c -> peval (embed_arg a) e = eval_arg a p c.
Proof. intros a e p c [H0 H1]. destruct a; simpl; auto. Qed.

Definition sim (env : nat -> gstate -> gstate) (I : interp) (sk : skel) : Prop :=
  forall p c e (w : lworld) g, repr e p c ->
    snd (fst (prunG env I (embed sk) e w g)) = snd (fst (runG env I sk p c w g)) /\
    snd (prunG env I (embed sk) e w g) = snd (runG env I sk p c w g) /\
    repr (fst (fst (prunG env I (embed sk) e w g))) p (fst (fst (runG env I sk p c w g))).

Lemma loop_sim : forall env (I : interp) body t, sim env I body ->
  forall n i p c e (w : lworld) g, repr e p c ->
    snd (fst (ploopG gstate value (prunG env I (embed body)) (stop I t) n i e w g)) =
      snd (fst (loopG gstate value (runG env I body p) (stop I t) n i c w g)) /\
    snd (ploopG gstate value (prunG env I (embed body)) (stop I t) n i e w g) =
      snd (loopG gstate value (runG env I body p) (stop I t) n i c w g) /\
    repr (fst (fst (ploopG gstate value (prunG env I (embed body)) (stop I t) n i e w g))) p
         (fst (fst (loopG gstate value (runG env I body p) (stop I t) n i c w g))).
Proof.
  intros env I body t Hb. induction n; intros i p c e w g R; simpl.
  - auto.
  - destruct (stop I t i (hist w)); [simpl; auto|].
    destruct (Hb p c e w g R) as (Hw & Hg & Hr).
    destruct (prunG env I (embed body) e w g) as [[e1 w1] g1].
    destruct (runG env I body p c w g) as [[c1 w1'] g1']. simpl in Hw, Hg, Hr. subst w1' g1'.
    apply IHn. exact Hr.
Qed.

Lemma embed_sim : forall env (I : interp) sk, sim env I sk.
Proof.
  intros env I. induction sk; intros p c e w g R.
  - simpl. auto.
  - simpl. destruct (IHsk1 p c e w g R) as (Hw & Hg & Hr).
    destruct (prunG env I (embed sk1) e w g) as [[e1 w1] g1].
    destruct (runG env I sk1 p c w g) as [[c1 w1'] g1']. simpl in Hw, Hg, Hr. subst w1' g1'.
    apply IHsk2. exact Hr.
  - simpl. destruct (decide I t (hist w)); [apply IHsk1 | apply IHsk2]; exact R.
  - simpl. apply loop_sim; assumption.
  - (* Check *)
    destruct R as [R0 R1]. simpl. rewrite R0.
    destruct (crs p (tickL gstate value w)) as [c1 w1]. unfold repr. cbn [fst snd].
    destruct e as [|x0 [|x1 r]]; simpl in *; auto.
  - (* Draw *)
    pose proof R as [R0 R1]. simpl. change (nth 1 e VBad) with (nth 1 e VBad). rewrite R1.
    destruct c as [[|h]|]; simpl.
    + destruct (draw_glob gstate value req draw I t (tickL gstate value w) (env (ticks w) g)) as [w1 g1]. simpl. auto.
    + auto.
    + auto.
  - (* DrawNp *)
    simpl. destruct (draw_glob gstate value req draw I t (tickL gstate value w) (env (ticks w) g)) as [w1 g1]. simpl. auto.
  - (* Call *)
    simpl. rewrite (repr_arg a e p c R).
    destruct (IHsk (eval_arg a p c) None [eval_arg a p c] w g (repr_scope _)) as (Hw & Hg & _).
    destruct (prunG env I (embed sk) [eval_arg a p c] w g) as [[e1 w1] g1].
    destruct (runG env I sk (eval_arg a p c) None w g) as [[c1 w1'] g1']. simpl in Hw, Hg. subst w1' g1'.
    simpl. auto.
  - (* Reseed *)
    destruct R as [R0 R1]. simpl. destruct (seed_from gstate value req seed I t w) as [c1 w1]. unfold repr. cbn [fst snd].
    destruct e as [|x0 [|x1 r]]; simpl in *; auto.
Qed.

(* one call: the embedded skeleton returns the same outcome and leaves the same global state *)
Theorem embed_call : forall (I : interp) sk (a : rsarg gstate) env g,
  pcallG env I (embed sk) a g = callG env I sk a g.
Proof.
  intros I sk a env g. unfold pcall, call.
  destruct (embed_sim env I sk (param0 gstate a) None [param0 gstate a] (w0 gstate value a) g (repr_scope _)) as (Hw & Hg & _).
  destruct (prunG env I (embed sk) [param0 gstate a] (w0 gstate value a) g) as [[e1 w1] g1].
  destruct (runG env I sk (param0 gstate a) None (w0 gstate value a) g) as [[c1 w1'] g1']. simpl in Hw, Hg. now subst.
Qed.

(* ---------------------------------------------------------------- out-of-range seeds at source level *)
Notation wofp := (fun r : list rsval * lworld * gstate => snd (fst r)).

Lemma ploop_failed : forall env (I : interp) body t,
  (forall e (w : lworld) g, failed w = true -> failed (snd (fst (prunG env I body e w g))) = true) ->
  forall n i e (w : lworld) g, failed w = true ->
    failed (snd (fst (ploopG gstate value (prunG env I body) (stop I t) n i e w g))) = true.
Proof.
  intros env I body t Hb. induction n; intros i e w g F; simpl; auto.
  destruct (stop I t i (hist w)); auto.
  specialize (Hb e w g F). destruct (prunG env I body e w g) as [[e1 w1] g1]. simpl in Hb. now apply IHn.
Qed.

Lemma prun_failed_mono : forall env (I : interp) sk e (w : lworld) g,
  failed w = true -> failed (snd (fst (prunG env I sk e w g))) = true.
Proof.
  intros env I. induction sk; intros e0 w g F; simpl; auto.
  - specialize (IHsk1 e0 w g F). destruct (prunG env I sk1 e0 w g) as [[e1 w1] g1]. simpl in IHsk1. now apply IHsk2.
  - destruct (decide I t (hist w)); auto.
  - apply ploop_failed; auto.
  - destruct (crs (peval e e0) (tickL gstate value w)) as [c1 w1] eqn:E. simpl.
    pose proof (failed_crs gstate value seed (peval e e0) (tickL gstate value w) F) as H. now rewrite E in H.
  - destruct (nth x e0 VBad) as [|s|[|h]|]; simpl; auto.
    + pose proof (failed_draw_glob gstate value req draw I t (tickL gstate value w) (env (ticks w) g) F) as H.
      destruct (draw_glob gstate value req draw I t (tickL gstate value w) (env (ticks w) g)) as [w1 g1]. exact H.
    + apply failed_draw_obj. exact F.
  - pose proof (failed_draw_glob gstate value req draw I t (tickL gstate value w) (env (ticks w) g) F) as H.
    destruct (draw_glob gstate value req draw I t (tickL gstate value w) (env (ticks w) g)) as [w1 g1]. exact H.
  - specialize (IHsk [peval e e0] w g F). destruct (prunG env I sk [peval e e0] w g) as [[e1 w1] g1]. exact IHsk.
  - unfold seed_from. destruct (crs (VInt (as_seed I t (hist w))) (tickL gstate value w)) as [c1 w1] eqn:E. simpl.
    pose proof (failed_crs gstate value seed (VInt (as_seed I t (hist w))) (tickL gstate value w) F) as H. now rewrite E in H.
Qed.

Lemma ploop_keeps0 : forall env (I : interp) body t,
  (forall e (w : lworld) g, nth 0 (fst (fst (prunG env I body e w g))) VBad = nth 0 e VBad) ->
  forall n i e (w : lworld) g,
    nth 0 (fst (fst (ploopG gstate value (prunG env I body) (stop I t) n i e w g))) VBad = nth 0 e VBad.
Proof.
  intros env I body t Hb. induction n; intros i e w g; simpl; auto.
  destruct (stop I t i (hist w)); auto.
  specialize (Hb e w g). destruct (prunG env I body e w g) as [[e1 w1] g1]. simpl in Hb. rewrite IHn. exact Hb.
Qed.

(* a scope that does not assign variable 0 leaves it alone *)
Lemma prun_keeps0 : forall env (I : interp) sk, passigns0 sk = false ->
  forall e (w : lworld) g, nth 0 (fst (fst (prunG env I sk e w g))) VBad = nth 0 e VBad.
Proof.
  intros env I. induction sk; intros A e0 w g; simpl in A |- *; auto.
  - apply orb_false_iff in A as [A1 A2].
    specialize (IHsk1 A1 e0 w g). destruct (prunG env I sk1 e0 w g) as [[e1 w1] g1]. simpl in IHsk1.
    rewrite (IHsk2 A2). exact IHsk1.
  - apply orb_false_iff in A as [A1 A2]. destruct (decide I t (hist w)); auto.
  - apply ploop_keeps0. auto.
  - destruct x; [discriminate|]. simpl. destruct e0; reflexivity.
  - destruct x; [discriminate|]. destruct (crs (peval e e0) (tickL gstate value w)) as [c1 w1]. simpl. destruct e0; reflexivity.
  - destruct (nth x e0 VBad) as [|s|[|h]|]; simpl; auto.
    destruct (draw_glob gstate value req draw I t (tickL gstate value w) (env (ticks w) g)) as [w1 g1]. reflexivity.
  - destruct (draw_glob gstate value req draw I t (tickL gstate value w) (env (ticks w) g)) as [w1 g1]. reflexivity.
  - destruct (prunG env I sk [peval e e0] w g) as [[e1 w1] g1]. reflexivity.
  - destruct x; [discriminate|]. destruct (seed_from gstate value req seed I t w) as [c1 w1]. simpl. destruct e0; reflexivity.
Qed.

Lemma pmust_check_fails : forall env (I : interp) sk, pmust_check sk = true ->
  forall s e (w : lworld) g, seed_ok s = false -> nth 0 e VBad = VInt s ->
    failed (snd (fst (prunG env I sk e w g))) = true.
Proof.
  intros env I. induction sk; intros M s e0 w g Hs H0; simpl in M; try discriminate.
  - (* PSeq *)
    simpl. apply orb_true_iff in M as [M|M].
    + specialize (IHsk1 M s e0 w g Hs H0). destruct (prunG env I sk1 e0 w g) as [[e1 w1] g1]. simpl in IHsk1.
      apply prun_failed_mono. exact IHsk1.
    + apply andb_true_iff in M as [A M]. apply negb_true_iff in A.
      pose proof (prun_keeps0 env I sk1 A e0 w g) as K. destruct (prunG env I sk1 e0 w g) as [[e1 w1] g1]. simpl in K.
      apply (IHsk2 M s); auto. congruence.
  - (* PBranch *)
    apply andb_true_iff in M as [M1 M2]. simpl. destruct (decide I t (hist w)); eauto.
  - (* PCheck *)
    destruct e as [[|x0]| | |]; try discriminate. simpl. rewrite H0. simpl. rewrite Hs. reflexivity.
  - (* PCall *)
    destruct e as [[|x0]| | |]; try discriminate. simpl. rewrite H0.
    specialize (IHsk M s [VInt s] w g Hs eq_refl). destruct (prunG env I sk [VInt s] w g) as [[e1 w1] g1]. exact IHsk.
  - (* PFail *) reflexivity.
Qed.

Theorem pinvalid_seed_rejected : forall (I : interp) sk s, pmust_check sk = true -> seed_ok s = false ->
  forall env g, o_failed (fst (pcallG env I sk (HInt s) g)) = true.
Proof.
  intros I sk s M Hs env g. unfold pcall.
  pose proof (pmust_check_fails env I sk M s [VInt s] (w0 gstate value (HInt s)) g Hs eq_refl) as F.
  simpl param0. destruct (prunG env I sk [VInt s] (w0 gstate value (HInt s)) g) as [[e1 w1] g1]. exact F.
Qed.

End E.

(* the embedding never assigns variable 0, and the source-level criterion accepts every skeleton the first one accepts *)
Lemma passigns0_embed : forall sk, passigns0 (embed sk) = false.
Proof. induction sk; simpl; auto; try (rewrite IHsk1, IHsk2; reflexivity). Qed.

Lemma must_check_embed : forall sk, must_check sk = true -> pmust_check (embed sk) = true.
Proof.
  induction sk; simpl; intro M; try discriminate; auto.
  - rewrite passigns0_embed. simpl. apply orb_true_iff in M as [M|M]; [rewrite (IHsk1 M) | rewrite (IHsk2 M)]; auto using orb_true_r.
  - apply andb_true_iff in M as [M1 M2]. now rewrite IHsk1, IHsk2.
  - destruct a; try discriminate. simpl. auto.
Qed.

(* draw-freeness and the embedding *)
Lemma pdraw_free_embed : forall sk, pdraw_free (embed sk) = draw_free sk.
Proof. induction sk; simpl; auto; try (rewrite IHsk1, IHsk2; reflexivity). Qed.

(* ---------------------------------------------------------------- the two analyses coincide on embeddings *)
Lemma wjoin_idem : forall a, wjoin a a = a.
Proof. intros []; reflexivity. Qed.

Lemma ale_intro : forall A B, (forall x, wle (alook x A) (alook x B) = true) -> ale A B = true.
Proof.
  intros A B H. unfold ale. apply andb_true_iff. split.
  - apply forallb_forall. intros x _. apply H.
  - specialize (H (Nat.max (length (fst A)) (length (fst B)))). unfold alook in H.
    rewrite !nth_overflow in H by lia. exact H.
Qed.

Lemma ale_var1 : forall A A1, (forall x, x <> 1 -> alook x A1 = alook x A) -> ale A1 A = wle (alook 1 A1) (alook 1 A).
Proof.
  intros A A1 H. destruct (wle (alook 1 A1) (alook 1 A)) eqn:W.
  - apply ale_intro. intro x. destruct (Nat.eq_dec x 1) as [->|N]; [exact W|]. rewrite (H x N). apply wle_refl.
  - destruct (ale A1 A) eqn:E; [|reflexivity]. pose proof (ale_look _ _ E 1) as X. congruence.
Qed.

Lemma aeval_embed_arg : forall a A, aeval (embed_arg a) A = warg a (alook 0 A) (alook 1 A).
Proof. intros [] A; reflexivity. Qed.

Lemma pgf_embed : forall sk A,
  match gfw sk (alook 0 A) (alook 1 A) with
  | Some c' => exists A', pgf (embed sk) A = Some A' /\ alook 1 A' = c' /\ forall x, x <> 1 -> alook x A' = alook x A
  | None => pgf (embed sk) A = None
  end.
Proof.
  induction sk; intro A; simpl.
  - (* Skip *) exists A. repeat split; auto.
  - (* Seq *)
    specialize (IHsk1 A). destruct (gfw sk1 (alook 0 A) (alook 1 A)) as [c1|].
    + destruct IHsk1 as (A1 & E1 & L1 & K1). rewrite E1.
      specialize (IHsk2 A1). rewrite L1, (K1 0) in IHsk2 by lia.
      destruct (gfw sk2 (alook 0 A) c1) as [c2|].
      * destruct IHsk2 as (A2 & E2 & L2 & K2). exists A2. repeat split; auto. intros x N. rewrite K2, K1; auto.
      * exact IHsk2.
    + now rewrite IHsk1.
  - (* Branch *)
    specialize (IHsk1 A). specialize (IHsk2 A).
    destruct (gfw sk1 (alook 0 A) (alook 1 A)) as [c1|].
    + destruct IHsk1 as (A1 & E1 & L1 & K1). rewrite E1.
      destruct (gfw sk2 (alook 0 A) (alook 1 A)) as [c2|].
      * destruct IHsk2 as (A2 & E2 & L2 & K2). rewrite E2. exists (ajoin A1 A2). split; [reflexivity|]. split.
        -- rewrite alook_ajoin. now rewrite L1, L2.
        -- intros x N. rewrite alook_ajoin, K1, K2 by assumption. apply wjoin_idem.
      * now rewrite IHsk2.
    + now rewrite IHsk1.
  - (* For *)
    pose proof (IHsk A) as H1. destruct (gfw sk (alook 0 A) (alook 1 A)) as [c1|].
    + destruct H1 as (A1 & E1 & L1 & K1). rewrite E1. rewrite (ale_var1 A A1 K1), L1.
      destruct (wle c1 (alook 1 A)) eqn:W.
      * exists A. repeat split; auto.
      * cbv zeta.
        assert (B0 : alook 0 (ajoin A A1) = alook 0 A) by (rewrite alook_ajoin, (K1 0) by lia; apply wjoin_idem).
        assert (B1 : alook 1 (ajoin A A1) = WUnsafe).
        { rewrite alook_ajoin, L1. destruct c1, (alook 1 A); simpl in *; try reflexivity; discriminate. }
        pose proof (IHsk (ajoin A A1)) as H2. rewrite B0, B1 in H2.
        destruct (gfw sk (alook 0 A) WUnsafe) as [c2|].
        -- destruct H2 as (A2 & E2 & L2 & K2). rewrite E2. rewrite (ale_var1 (ajoin A A1) A2 K2), B1, wle_unsafe.
           exists (ajoin A A1). split; [reflexivity|]. split; [exact B1|].
           intros x N. rewrite alook_ajoin, (K1 x N). apply wjoin_idem.
        -- now rewrite H2.
    + now rewrite H1.
  - (* Check *)
    exists (aset 1 (alook 0 A) A). split; [reflexivity|]. split; [apply alook_aset_eq|].
    intros x N. apply alook_aset_neq. congruence.
  - (* Draw *)
    destruct (alook 1 A) eqn:L; [exists A; repeat split; auto | reflexivity].
  - (* DrawNp *) reflexivity.
  - (* Call *)
    rewrite <- (aeval_embed_arg a A).
    specialize (IHsk ([aeval (embed_arg a) A], WSafe)).
    change (alook 0 ([aeval (embed_arg a) A], WSafe)) with (aeval (embed_arg a) A) in IHsk.
    change (alook 1 ([aeval (embed_arg a) A], WSafe)) with WSafe in IHsk.
    destruct (gfw sk (aeval (embed_arg a) A) WSafe) as [c1|].
    + destruct IHsk as (A1 & E1 & _). rewrite E1. exists A. repeat split; auto.
    + now rewrite IHsk.
  - (* Reseed *)
    exists (aset 1 WSafe A). split; [reflexivity|]. split; [apply alook_aset_eq|].
    intros x N. apply alook_aset_neq. congruence.
Qed.

Theorem pglobal_free_embed : forall sk, pglobal_free (embed sk) = global_free_w sk.
Proof.
  intro sk. unfold pglobal_free, global_free_w.
  pose proof (pgf_embed sk ([WSafe], WSafe)) as H.
  change (alook 0 ([WSafe], WSafe)) with WSafe in H. change (alook 1 ([WSafe], WSafe)) with WSafe in H.
  destruct (gfw sk WSafe WSafe) as [c|].
  - destruct H as (A' & E & _). now rewrite E.
  - now rewrite H.
Qed.
