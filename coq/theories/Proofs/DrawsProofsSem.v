(* C16 -- lemmas about Model/Draws.v, second part: the SEMANTIC criterion.
   No static analysis here: for ANY skeleton and ANY interpretation,
     * if the semantics without a global generator ([run_local]) is defined, the whole-process
       semantics ([run]) computes exactly that, and the global generator sees the environment only;
     * [run_local] is undefined exactly when the whole-process run logs a draw from the global generator;
     * for a generator whose drawn value determines its state (the toy counter is one), a logged global
       draw is OBSERVABLE: the values drawn differ between any two different global states.
   So "the draw trace of the call does not contain the global generator" -- what corr:C16 observes on
   the implementation -- is, in the model, equivalent to reproducibility. *)
From Coq Require Import List Arith ZArith Bool Lia.
From TLV Require Import Model.Draws Proofs.DrawsProofs.
Import ListNotations.

Section S.
Variables gstate value req : Type.
Variable draw : req -> gstate -> value * gstate.
Variable seed : Z -> gstate.

Notation interp := (interp value req).
Notation lworld := (lworld gstate value).
Notation runL := (run_local gstate value req draw seed).
Notation runG := (run gstate value req draw seed).
Notation crs := (check_random_state gstate value seed).
Notation adv := (advance gstate).
Notation callG := (call gstate value req draw seed).
Notation callL := (call_local gstate value req draw seed).
Notation loopLL := (loopL gstate value).
Notation loopGG := (loopG gstate value).
Notation dobj := (draw_obj gstate value req draw).
Notation dglob := (draw_glob gstate value req draw).

(* ---------------------------------------------------------------- run_local defined => run agrees *)
Definition agrees (env : nat -> gstate -> gstate) (I : interp) (sk : skel) : Prop :=
  forall p c w c1 w1, runL I sk p c w = Some (c1, w1) ->
    exists k, ticks w1 = ticks w + k /\ forall g, runG env I sk p c w g = (c1, w1, adv env (ticks w) k g).

Lemma loop_agrees : forall env (I : interp) body p t,
  agrees env I body ->
  forall n i c w c1 w1, loopLL (runL I body p) (stop I t) n i c w = Some (c1, w1) ->
  exists k, ticks w1 = ticks w + k /\
            forall g, loopGG (runG env I body p) (stop I t) n i c w g = (c1, w1, adv env (ticks w) k g).
Proof.
  intros env I body p t Hb. induction n; intros i c w c1 w1 H; simpl in H |- *.
  - inversion H; subst. exists 0. split; [lia|]. reflexivity.
  - destruct (stop I t i (hist w)).
    + inversion H; subst. exists 0. split; [lia|]. reflexivity.
    + destruct (runL I body p c w) as [[c2 w2]|] eqn:E; [|discriminate].
      destruct (Hb p c w c2 w2 E) as (k1 & T1 & G1).
      destruct (IHn (S i) c2 w2 c1 w1 H) as (k2 & T2 & G2).
      exists (k1 + k2). split; [lia|]. intro g. rewrite G1, G2, T1. now rewrite advance_add.
Qed.

Lemma run_local_agrees : forall env (I : interp) sk, agrees env I sk.
Proof.
  intros env I. induction sk; intros p c w c1 w1 H; simpl in H.
  - inversion H; subst. exists 0. split; [lia|]. reflexivity.
  - destruct (runL I sk1 p c w) as [[c2 w2]|] eqn:E; [|discriminate].
    destruct (IHsk1 p c w c2 w2 E) as (k1 & T1 & G1).
    destruct (IHsk2 p c2 w2 c1 w1 H) as (k2 & T2 & G2).
    exists (k1 + k2). split; [lia|]. intro g. simpl. rewrite G1, G2, T1. now rewrite advance_add.
  - simpl. destruct (decide I t (hist w)); [apply (IHsk1 _ _ _ _ _ H) | apply (IHsk2 _ _ _ _ _ H)].
  - simpl. eapply loop_agrees; eauto.
  - exists 1. destruct p as [|s|g0|]; simpl in H; try (destruct (seed_ok s) eqn:Es); inversion H; subst; simpl;
      try rewrite Es; (split; [simpl; lia|]); intro g; reflexivity.
  - destruct c as [[|h]|]; try discriminate; inversion H; subst; exists 1; simpl.
    + rewrite draw_obj_ticks. simpl. split; [lia|]. reflexivity.
    + split; [lia|]. reflexivity.
  - discriminate.
  - destruct (runL I sk (eval_arg a p c) None w) as [[c2 w2]|] eqn:E; [|discriminate].
    inversion H; subst. destruct (IHsk _ _ _ _ _ E) as (k & T & G).
    exists k. split; [exact T|]. intro g. simpl. now rewrite G.
  - inversion H as [H1]. destruct (seed_from_frame gstate value req seed I t w) as (_ & _ & T1 & _).
    exists 1. split; [rewrite H1 in T1; simpl in T1; lia|]. intro g. simpl. rewrite H1. reflexivity.
Qed.

(* ---------------------------------------------------------------- the source log and the history only grow *)
Definition grows (w w' : lworld) : Prop :=
  (exists l, srcs w' = l ++ srcs w) /\ (exists l, hist w' = l ++ hist w).

Lemma grows_refl : forall w, grows w w.
Proof. intro w. split; exists []; reflexivity. Qed.

Lemma grows_trans : forall a b c, grows a b -> grows b c -> grows a c.
Proof.
  intros a b c [[l1 H1] [m1 K1]] [[l2 H2] [m2 K2]]. split.
  - exists (l2 ++ l1). rewrite H2, H1. now rewrite app_assoc.
  - exists (m2 ++ m1). rewrite K2, K1. now rewrite app_assoc.
Qed.

Lemma grows_tick : forall w, grows w (tickL gstate value w).
Proof. intro w. split; exists []; reflexivity. Qed.

Lemma grows_fail : forall w, grows w (failL gstate value w).
Proof. intro w. split; exists []; reflexivity. Qed.

Lemma grows_crs : forall p w, grows w (snd (crs p w)).
Proof. intros [] w; simpl; try (destruct (seed_ok s)); split; exists []; reflexivity. Qed.

Lemma grows_draw_obj : forall I t h w, grows w (dobj I t h w).
Proof.
  intros. unfold draw_obj. destruct (nth_error (heap w) h); [|apply grows_fail].
  destruct (draw _ g) as [v gs']. split; simpl; [exists [GObj h] | exists [v]]; reflexivity.
Qed.

Lemma grows_draw_glob : forall I t w g, grows w (fst (dglob I t w g)).
Proof.
  intros. unfold draw_glob. destruct (draw _ g) as [v g']. split; simpl; [exists [GGlobal] | exists [v]]; reflexivity.
Qed.

Definition wof (r : option gen * lworld * gstate) : lworld := snd (fst r).

Lemma loop_grows : forall env (I : interp) body p t,
  (forall c w g, grows w (wof (runG env I body p c w g))) ->
  forall n i c w g, grows w (wof (loopGG (runG env I body p) (stop I t) n i c w g)).
Proof.
  intros env I body p t Hb. induction n; intros i c w g; simpl.
  - apply grows_refl.
  - destruct (stop I t i (hist w)); [apply grows_refl|].
    specialize (Hb c w g). destruct (runG env I body p c w g) as [[c1 w1] g1]. unfold wof in Hb. simpl in Hb.
    eapply grows_trans; [exact Hb | apply IHn].
Qed.

Lemma run_grows : forall env (I : interp) sk p c w g, grows w (wof (runG env I sk p c w g)).
Proof.
  intros env I. induction sk; intros p c w g; simpl.
  - apply grows_refl.
  - specialize (IHsk1 p c w g). destruct (runG env I sk1 p c w g) as [[c1 w1] g1]. unfold wof in IHsk1; simpl in IHsk1.
    eapply grows_trans; [exact IHsk1 | apply IHsk2].
  - destruct (decide I t (hist w)); auto.
  - apply loop_grows. intros; apply IHsk.
  - destruct (crs p (tickL gstate value w)) as [c1 w1] eqn:E. unfold wof. simpl.
    eapply grows_trans; [apply grows_tick|]. pose proof (grows_crs p (tickL gstate value w)) as G. now rewrite E in G.
  - destruct c as [[|h]|].
    + destruct (dglob I t (tickL gstate value w) (env (ticks w) g)) as [w1 g1] eqn:E. unfold wof. simpl.
      eapply grows_trans; [apply grows_tick|].
      pose proof (grows_draw_glob I t (tickL gstate value w) (env (ticks w) g)) as G. now rewrite E in G.
    + unfold wof. simpl. eapply grows_trans; [apply grows_tick | apply grows_draw_obj].
    + unfold wof. simpl. eapply grows_trans; [apply grows_tick | apply grows_fail].
  - destruct (dglob I t (tickL gstate value w) (env (ticks w) g)) as [w1 g1] eqn:E. unfold wof. simpl.
    eapply grows_trans; [apply grows_tick|].
    pose proof (grows_draw_glob I t (tickL gstate value w) (env (ticks w) g)) as G. now rewrite E in G.
  - specialize (IHsk (eval_arg a p c) None w g). destruct (runG env I sk (eval_arg a p c) None w g) as [[c1 w1] g1]. exact IHsk.
  - destruct (seed_from_frame gstate value req seed I t w) as (S1 & H1 & _).
    destruct (seed_from gstate value req seed I t w) as [c1 w1]. unfold wof. simpl in *.
    split; [exists []; now rewrite S1 | exists []; now rewrite H1].
Qed.

Lemma grows_in : forall w w' x, grows w w' -> In x (srcs w) -> In x (srcs w').
Proof. intros w w' x [[l H] _] Hin. rewrite H. apply in_or_app. now right. Qed.

(* ---------------------------------------------------------------- errors persist; out-of-range seeds are rejected *)
Lemma failed_draw_obj : forall I t h (w : lworld), failed w = true -> failed (dobj I t h w) = true.
Proof. intros. unfold draw_obj. destruct (nth_error (heap w) h); [|reflexivity]. destruct (draw _ g). exact H. Qed.

Lemma failed_draw_glob : forall I t (w : lworld) g, failed w = true -> failed (fst (dglob I t w g)) = true.
Proof. intros. unfold draw_glob. destruct (draw _ g). exact H. Qed.

Lemma failed_crs : forall p (w : lworld), failed w = true -> failed (snd (crs p w)) = true.
Proof. intros [] w H; simpl; try (destruct (seed_ok s)); auto. Qed.

Lemma loop_failed : forall env (I : interp) body p t,
  (forall c w g, failed w = true -> failed (wof (runG env I body p c w g)) = true) ->
  forall n i c w g, failed w = true -> failed (wof (loopGG (runG env I body p) (stop I t) n i c w g)) = true.
Proof.
  intros env I body p t Hb. induction n; intros i c w g H; simpl; auto.
  destruct (stop I t i (hist w)); auto.
  specialize (Hb c w g H). destruct (runG env I body p c w g) as [[c1 w1] g1]. apply IHn. exact Hb.
Qed.

Lemma run_failed_mono : forall env (I : interp) sk p c w g, failed w = true -> failed (wof (runG env I sk p c w g)) = true.
Proof.
  intros env I. induction sk; intros p c w g H; simpl; auto.
  - specialize (IHsk1 p c w g H). destruct (runG env I sk1 p c w g) as [[c1 w1] g1]. apply IHsk2. exact IHsk1.
  - destruct (decide I t (hist w)); auto.
  - apply loop_failed; auto.
  - destruct (crs p (tickL gstate value w)) as [c1 w1] eqn:E. unfold wof. simpl.
    pose proof (failed_crs p (tickL gstate value w) H) as F. now rewrite E in F.
  - destruct c as [[|h]|]; unfold wof; simpl; auto.
    + destruct (dglob I t (tickL gstate value w) (env (ticks w) g)) as [w1 g1] eqn:E. simpl.
      pose proof (failed_draw_glob I t (tickL gstate value w) (env (ticks w) g) H) as F. now rewrite E in F.
    + apply failed_draw_obj. exact H.
  - destruct (dglob I t (tickL gstate value w) (env (ticks w) g)) as [w1 g1] eqn:E. unfold wof. simpl.
    pose proof (failed_draw_glob I t (tickL gstate value w) (env (ticks w) g) H) as F. now rewrite E in F.
  - specialize (IHsk (eval_arg a p c) None w g H). destruct (runG env I sk (eval_arg a p c) None w g) as [[c1 w1] g1]. exact IHsk.
  - destruct (seed_from_frame gstate value req seed I t w) as (_ & _ & _ & F & _).
    destruct (seed_from gstate value req seed I t w) as [c1 w1]. unfold wof. simpl in *. auto.
Qed.

Lemma must_check_fails : forall env (I : interp) sk, must_check sk = true ->
  forall s c w g, seed_ok s = false -> failed (wof (runG env I sk (VInt s) c w g)) = true.
Proof.
  intros env I. induction sk; intros M s c w g Hs; simpl in M; try discriminate.
  - simpl. apply orb_true_iff in M as [M|M].
    + specialize (IHsk1 M s c w g Hs). destruct (runG env I sk1 (VInt s) c w g) as [[c1 w1] g1].
      apply run_failed_mono. exact IHsk1.
    + destruct (runG env I sk1 (VInt s) c w g) as [[c1 w1] g1]. apply IHsk2; auto.
  - apply andb_true_iff in M as [M1 M2]. simpl. destruct (decide I t (hist w)); auto.
  - simpl. rewrite Hs. reflexivity.
  - destruct a; try discriminate. simpl.
    specialize (IHsk M s None w g Hs). destruct (runG env I sk (VInt s) None w g) as [[c1 w1] g1]. exact IHsk.
Qed.

Theorem invalid_seed_rejected : forall (I : interp) sk s, must_check sk = true -> seed_ok s = false ->
  forall env g, o_failed (fst (callG env I sk (HInt s) g)) = true.
Proof.
  intros I sk s M Hs env g. unfold call. change (param0 gstate (HInt s)) with (VInt s).
  pose proof (must_check_fails env I sk M s None (w0 gstate value (HInt s)) g Hs) as F.
  destruct (runG env I sk (VInt s) None (w0 gstate value (HInt s)) g) as [[c1 w1] g1]. exact F.
Qed.

(* ---------------------------------------------------------------- run_local undefined => a global draw is logged *)
Definition logs_global (env : nat -> gstate -> gstate) (I : interp) (sk : skel) : Prop :=
  forall p c w g, runL I sk p c w = None -> In GGlobal (srcs (wof (runG env I sk p c w g))).

Lemma draw_glob_logs : forall I t w g, In GGlobal (srcs (fst (dglob I t w g))).
Proof. intros. unfold draw_glob. destruct (draw _ g). simpl. now left. Qed.

Lemma loop_logs : forall env (I : interp) body p t,
  logs_global env I body ->
  forall n i c w g, loopLL (runL I body p) (stop I t) n i c w = None ->
    In GGlobal (srcs (wof (loopGG (runG env I body p) (stop I t) n i c w g))).
Proof.
  intros env I body p t Hb. induction n; intros i c w g H; simpl in H |- *; [discriminate|].
  destruct (stop I t i (hist w)); [discriminate|].
  destruct (runL I body p c w) as [[c2 w2]|] eqn:E.
  - destruct (run_local_agrees env I body p c w c2 w2 E) as (k & _ & G). rewrite G. now apply IHn.
  - specialize (Hb p c w g E). destruct (runG env I body p c w g) as [[c1 w1] g1]. unfold wof in Hb; simpl in Hb.
    eapply grows_in; [apply loop_grows; intros; apply run_grows | exact Hb].
Qed.

Lemma run_local_none_logs : forall env (I : interp) sk, logs_global env I sk.
Proof.
  intros env I. induction sk; intros p c w g H; simpl in H.
  - discriminate.
  - simpl. destruct (runL I sk1 p c w) as [[c2 w2]|] eqn:E.
    + destruct (run_local_agrees env I sk1 p c w c2 w2 E) as (k & _ & G). rewrite G. now apply IHsk2.
    + specialize (IHsk1 p c w g E). destruct (runG env I sk1 p c w g) as [[c1 w1] g1]. unfold wof in IHsk1; simpl in IHsk1.
      eapply grows_in; [apply run_grows | exact IHsk1].
  - simpl. destruct (decide I t (hist w)); auto.
  - simpl. apply loop_logs; auto.
  - discriminate.
  - destruct c as [[|h]|]; try discriminate. simpl.
    destruct (dglob I t (tickL gstate value w) (env (ticks w) g)) as [w1 g1] eqn:E. unfold wof. simpl.
    pose proof (draw_glob_logs I t (tickL gstate value w) (env (ticks w) g)) as G. now rewrite E in G.
  - simpl. destruct (dglob I t (tickL gstate value w) (env (ticks w) g)) as [w1 g1] eqn:E. unfold wof. simpl.
    pose proof (draw_glob_logs I t (tickL gstate value w) (env (ticks w) g)) as G. now rewrite E in G.
  - simpl. destruct (runL I sk (eval_arg a p c) None w) as [[c2 w2]|] eqn:E; [discriminate|].
    specialize (IHsk _ _ _ g E). destruct (runG env I sk (eval_arg a p c) None w g) as [[c1 w1] g1]. exact IHsk.
  - discriminate.
Qed.

(* ---------------------------------------------------------------- one call: the trace criterion *)
Theorem call_local_agrees : forall (I : interp) sk (a : rsarg gstate) o,
  callL I sk a = Some o ->
  ~ In GGlobal (o_srcs o) /\
  exists k, forall env g, callG env I sk a g = (o, adv env 0 k g).
Proof.
  intros I sk a o H. unfold call_local in H.
  destruct (runL I sk (param0 gstate a) None (w0 gstate value a)) as [[c1 w1]|] eqn:E; [|discriminate].
  inversion H; subst. split.
  - simpl. apply (run_local_noglob gstate value req draw seed I sk _ _ _ _ _ E). unfold noglob. simpl. auto.
  - destruct (run_local_agrees (fun _ x => x) I sk _ _ _ _ _ E) as (k & T & _).
    exists k. intros env g. unfold call.
    destruct (run_local_agrees env I sk _ _ _ _ _ E) as (k' & T' & G'). rewrite G'.
    assert (k = k') by (simpl in T, T'; lia). now subst.
Qed.

Theorem call_trace_criterion : forall (I : interp) sk (a : rsarg gstate) env g,
  In GGlobal (o_srcs (fst (callG env I sk a g))) <-> callL I sk a = None.
Proof.
  intros I sk a env g. split.
  - intro H. destruct (callL I sk a) as [o|] eqn:E; [|reflexivity]. exfalso.
    destruct (call_local_agrees I sk a o E) as (N & k & G). rewrite G in H. simpl in H. contradiction.
  - intro H. unfold call_local in H.
    destruct (runL I sk (param0 gstate a) None (w0 gstate value a)) as [[c1 w1]|] eqn:E; [discriminate|].
    pose proof (run_local_none_logs env I sk _ _ _ g E) as L. unfold call.
    destruct (runG env I sk (param0 gstate a) None (w0 gstate value a) g) as [[c1 w1] g1]. exact L.
Qed.

(* one observed run without a global draw => every run (any global state, any interleaving) gives that outcome *)
Theorem call_trace_reproducible : forall (I : interp) sk (a : rsarg gstate) env g,
  ~ In GGlobal (o_srcs (fst (callG env I sk a g))) ->
  (forall env' g', fst (callG env' I sk a g') = fst (callG env I sk a g)) /\
  (forall g', snd (callG (fun _ x => x) I sk a g') = g').
Proof.
  intros I sk a env g H.
  destruct (callL I sk a) as [o|] eqn:E.
  - destruct (call_local_agrees I sk a o E) as (_ & k & G). split.
    + intros env' g'. now rewrite !G.
    + intro g'. rewrite G. simpl. apply advance_id.
  - exfalso. apply H. now apply call_trace_criterion.
Qed.

(* ---------------------------------------------------------------- a global draw is observable *)
(* generators whose drawn value determines the state they were in *)
Definition value_injective : Prop := forall r g g', fst (draw r g) = fst (draw r g') -> g = g'.

Definition idenv0 : nat -> gstate -> gstate := fun _ x => x.

(* if run_local is undefined, the history of the run started with global state g contains the value of a
   draw from state g itself (nothing touched the global generator before), on top of a part [m] that does
   not depend on g (the local draws made before) *)
Definition first_global (I : interp) (sk : skel) : Prop :=
  forall p c w, runL I sk p c w = None ->
    exists t h0 m, forall g, exists l,
      hist (wof (runG idenv0 I sk p c w g)) = l ++ fst (draw (request I t h0) g) :: m ++ hist w.

Lemma advance_idenv0 : forall t k g, adv idenv0 t k g = g.
Proof. intros. unfold idenv0. apply advance_id. Qed.

Lemma grows_hist : forall w w' l x, grows w w' -> hist w = l ++ x -> exists l', hist w' = l' ++ x.
Proof. intros w w' l x [_ [m H]] E. exists (m ++ l). rewrite H, E. now rewrite app_assoc. Qed.

Lemma loop_first_global : forall (I : interp) body p t,
  first_global I body ->
  forall n i c w, loopLL (runL I body p) (stop I t) n i c w = None ->
    exists t' h0 m, forall g, exists l,
      hist (wof (loopGG (runG idenv0 I body p) (stop I t) n i c w g)) = l ++ fst (draw (request I t' h0) g) :: m ++ hist w.
Proof.
  intros I body p t Hb. induction n; intros i c w H; simpl in H; [discriminate|].
  destruct (stop I t i (hist w)) eqn:St; [discriminate|].
  destruct (runL I body p c w) as [[c2 w2]|] eqn:E.
  - destruct (IHn (S i) c2 w2 H) as (t' & h0 & m2 & K).
    destruct (run_local_agrees idenv0 I body p c w c2 w2 E) as (k & _ & G).
    destruct (run_grows idenv0 I body p c w (seed 0%Z)) as [_ [m Hm]].
    rewrite G in Hm. unfold wof in Hm; simpl in Hm.
    exists t', h0, (m2 ++ m). intro g. destruct (K g) as [l Hl]. simpl. rewrite St. rewrite G.
    rewrite advance_idenv0.
    exists l. rewrite Hl, Hm. now rewrite app_assoc.
  - destruct (Hb p c w E) as (t' & h0 & m & K). exists t', h0, m. intro g. destruct (K g) as [l Hl].
    simpl. rewrite St.
    destruct (runG idenv0 I body p c w g) as [[c1 w1] g1] eqn:R. unfold wof in Hl; simpl in Hl.
    pose proof (loop_grows idenv0 I body p t (fun c w g => run_grows idenv0 I body p c w g) n (S i) c1 w1 g1) as Gr.
    destruct (grows_hist _ _ _ _ Gr Hl) as [l' Hl']. exists l'. exact Hl'.
Qed.

Lemma run_first_global : forall (I : interp) sk, first_global I sk.
Proof.
  intros I. induction sk; intros p c w H; simpl in H.
  - discriminate.
  - destruct (runL I sk1 p c w) as [[c2 w2]|] eqn:E.
    + destruct (IHsk2 p c2 w2 H) as (t' & h0 & m2 & K).
      destruct (run_local_agrees idenv0 I sk1 p c w c2 w2 E) as (k & _ & G).
      destruct (run_grows idenv0 I sk1 p c w (seed 0%Z)) as [_ [m Hm]].
      rewrite G in Hm. unfold wof in Hm; simpl in Hm.
      exists t', h0, (m2 ++ m). intro g. destruct (K g) as [l Hl]. simpl. rewrite G.
      rewrite advance_idenv0.
      exists l. rewrite Hl, Hm. now rewrite app_assoc.
    + destruct (IHsk1 p c w E) as (t' & h0 & m & K). exists t', h0, m. intro g. destruct (K g) as [l Hl]. simpl.
      destruct (runG idenv0 I sk1 p c w g) as [[c1 w1] g1] eqn:R. unfold wof in Hl; simpl in Hl.
      destruct (grows_hist _ _ _ _ (run_grows idenv0 I sk2 p c1 w1 g1) Hl) as [l' Hl']. exists l'. exact Hl'.
  - simpl. destruct (decide I t (hist w)); auto.
  - simpl. apply loop_first_global; auto.
  - discriminate.
  - destruct c as [[|h]|]; try discriminate.
    exists t, (hist w), []. intro g. exists []. simpl. unfold draw_glob, idenv0. simpl.
    destruct (draw (request I t (hist w)) g) as [v g']. reflexivity.
  - exists t, (hist w), []. intro g. exists []. simpl. unfold draw_glob, idenv0. simpl.
    destruct (draw (request I t (hist w)) g) as [v g']. reflexivity.
  - destruct (runL I sk (eval_arg a p c) None w) as [[c2 w2]|] eqn:E; [discriminate|].
    destruct (IHsk _ _ _ E) as (t' & h0 & m & K). exists t', h0, m. intro g. destruct (K g) as [l Hl]. simpl.
    destruct (runG idenv0 I sk (eval_arg a p c) None w g) as [[c1 w1] g1]. exists l. exact Hl.
  - discriminate.
Qed.

Lemma app_mid_inj : forall (A : Type) (l l' m : list A) x y, l ++ x :: m = l' ++ y :: m -> x = y.
Proof.
  intros A l l' m x y H.
  change (x :: m) with ([x] ++ m) in H. change (y :: m) with ([y] ++ m) in H.
  rewrite !app_assoc in H. apply app_inv_tail in H. apply app_inj_tail in H. tauto.
Qed.

Theorem global_draw_observable : value_injective ->
  forall (I : interp) sk (a : rsarg gstate),
    callL I sk a = None ->
    forall g g', g <> g' ->
      o_hist (fst (callG idenv0 I sk a g)) <> o_hist (fst (callG idenv0 I sk a g')).
Proof.
  intros Inj I sk a H g g' Ne Eq. unfold call_local in H.
  destruct (runL I sk (param0 gstate a) None (w0 gstate value a)) as [[c1 w1]|] eqn:E; [discriminate|].
  destruct (run_first_global I sk _ _ _ E) as (t & h0 & m & K).
  destruct (K g) as [l Hl]. destruct (K g') as [l' Hl']. unfold call in Eq.
  destruct (runG idenv0 I sk (param0 gstate a) None (w0 gstate value a) g) as [[c2 w2] g2].
  destruct (runG idenv0 I sk (param0 gstate a) None (w0 gstate value a) g') as [[c3 w3] g3].
  unfold wof in Hl, Hl'. simpl in Hl, Hl', Eq. rewrite Hl, Hl' in Eq.
  apply app_mid_inj in Eq. apply Ne. eapply Inj. exact Eq.
Qed.

End S.

(* ---------------------------------------------------------------- the join-precise analysis gfw is sound *)
Section W.
Variables gstate value req : Type.
Variable draw : req -> gstate -> value * gstate.
Variable seed : Z -> gstate.
Notation interp := (interp value req).
Notation lworld := (lworld gstate value).
Notation runL := (run_local gstate value req draw seed).
Notation callL := (call_local gstate value req draw seed).
Notation callG := (call gstate value req draw seed).

Lemma wle_refl : forall a, wle a a = true. Proof. intros []; reflexivity. Qed.
Lemma wle_trans : forall a b c, wle a b = true -> wle b c = true -> wle a c = true.
Proof. intros [] [] []; simpl; congruence. Qed.
Lemma wle_unsafe : forall a, wle a WUnsafe = true. Proof. intros []; reflexivity. Qed.
Lemma wle_join_l : forall a b, wle a (wjoin a b) = true. Proof. intros [] []; reflexivity. Qed.
Lemma wle_join_r : forall a b, wle b (wjoin a b) = true. Proof. intros [] []; reflexivity. Qed.
Lemma wabsp_eval_arg : forall a p c, wabsp (eval_arg a p c) = warg a (wabsp p) (wabsc c).
Proof. intros [] p c; simpl; auto. destruct c as [[]|]; reflexivity. Qed.
Lemma warg_mono : forall a p p' c c', wle p p' = true -> wle c c' = true -> wle (warg a p c) (warg a p' c') = true.
Proof. intros [] p p' c c' Hp Hc; simpl; auto. Qed.

Definition wsound (I : interp) (sk : skel) : Prop :=
  forall P C C', gfw sk P C = Some C' ->
  forall p c w, wle (wabsp p) P = true -> wle (wabsc c) C = true ->
    exists c1 w1, runL I sk p c w = Some (c1, w1) /\ wle (wabsc c1) C' = true.

Lemma loop_wsound : forall (I : interp) body p t Cinv,
  (forall c w, wle (wabsc c) Cinv = true -> exists c1 w1, runL I body p c w = Some (c1, w1) /\ wle (wabsc c1) Cinv = true) ->
  forall n i c w, wle (wabsc c) Cinv = true ->
    exists c1 w1, loopL gstate value (runL I body p) (stop I t) n i c w = Some (c1, w1) /\ wle (wabsc c1) Cinv = true.
Proof.
  intros I body p t Cinv Hb. induction n; intros i c w Hc; simpl.
  - eauto.
  - destruct (stop I t i (hist w)); [eauto|].
    destruct (Hb c w Hc) as (c1 & w1 & R & H1). rewrite R. apply IHn. exact H1.
Qed.

Lemma gfw_sound : forall (I : interp) sk, wsound I sk.
Proof.
  intros I. induction sk; intros P C C' H p c w Hp Hc; simpl in H.
  - inversion H; subst. simpl. eauto.
  - destruct (gfw sk1 P C) as [C1|] eqn:E1; [|discriminate].
    destruct (IHsk1 _ _ _ E1 p c w Hp Hc) as (c1 & w1 & R1 & H1).
    destruct (IHsk2 _ _ _ H p c1 w1 Hp H1) as (c2 & w2 & R2 & H2).
    exists c2, w2. simpl. rewrite R1. auto.
  - destruct (gfw sk1 P C) as [C1|] eqn:E1; [|discriminate].
    destruct (gfw sk2 P C) as [C2|] eqn:E2; [|discriminate]. inversion H; subst. simpl.
    destruct (decide I t (hist w)).
    + destruct (IHsk1 _ _ _ E1 p c w Hp Hc) as (c1 & w1 & R1 & H1). exists c1, w1. split; auto.
      eapply wle_trans; [exact H1 | apply wle_join_l].
    + destruct (IHsk2 _ _ _ E2 p c w Hp Hc) as (c1 & w1 & R1 & H1). exists c1, w1. split; auto.
      eapply wle_trans; [exact H1 | apply wle_join_r].
  - destruct (gfw sk P C) as [C1|] eqn:E1; [|discriminate]. simpl.
    destruct (wle C1 C) eqn:L.
    + inversion H; subst. apply (loop_wsound I sk p t C'); auto.
      intros c0 w0 Hc0. destruct (IHsk _ _ _ E1 p c0 w0 Hp Hc0) as (c1 & w1 & R1 & H1).
      exists c1, w1. split; auto. eapply wle_trans; eauto.
    + destruct (gfw sk P WUnsafe) as [C2|] eqn:E2; [|discriminate]. inversion H; subst.
      apply (loop_wsound I sk p t WUnsafe); [|apply wle_unsafe].
      intros c0 w0 Hc0. destruct (IHsk _ _ _ E2 p c0 w0 Hp Hc0) as (c1 & w1 & R1 & H1).
      exists c1, w1. split; auto. apply wle_unsafe.
  - inversion H; subst. simpl.
    exists (fst (check_random_state gstate value seed p (tickL gstate value w))), (snd (check_random_state gstate value seed p (tickL gstate value w))).
    split; [now rewrite <- surjective_pairing|].
    destruct p as [|s|[|h]|]; simpl in *; try (destruct (seed_ok s)); simpl; auto.
  - destruct C; [|discriminate]. inversion H; subst. simpl.
    destruct c as [[|h]|]; simpl in Hc; try discriminate; eauto.
  - discriminate.
  - destruct (gfw sk (warg a P C) WSafe) as [C1|] eqn:E1; [|discriminate]. inversion H; subst. simpl.
    assert (Hp' : wle (wabsp (eval_arg a p c)) (warg a P C') = true).
    { rewrite wabsp_eval_arg. now apply warg_mono. }
    destruct (IHsk _ _ _ E1 (eval_arg a p c) None w Hp' eq_refl) as (c1 & w1 & R1 & H1).
    rewrite R1. eauto.
  - inversion H; subst. simpl.
    exists (fst (seed_from gstate value req seed I t w)), (snd (seed_from gstate value req seed I t w)).
    split; [now rewrite <- surjective_pairing|].
    destruct (seed_from_frame gstate value req seed I t w) as (_ & _ & _ & _ & [E|[h E]]); rewrite E; reflexivity.
Qed.

(* one call: random_state an int, a generator object that is not the global one, or junk *)
Definition safe_arg (a : rsarg gstate) : bool := match a with HNone | HGlobObj => false | _ => true end.

Theorem gfw_call : forall (I : interp) sk (a : rsarg gstate),
  global_free_w sk = true -> safe_arg a = true ->
  exists o k, callL I sk a = Some o /\ ~ In GGlobal (o_srcs o) /\
              forall env g, callG env I sk a g = (o, advance gstate env 0 k g).
Proof.
  intros I sk a H Ha. unfold global_free_w in H.
  destruct (gfw sk WSafe WSafe) as [C'|] eqn:E; [|discriminate].
  assert (Hp : wle (wabsp (param0 gstate a)) WSafe = true) by (destruct a; simpl in *; try discriminate; reflexivity).
  destruct (gfw_sound I sk _ _ _ E (param0 gstate a) None (w0 gstate value a) Hp eq_refl) as (c1 & w1 & R & _).
  assert (L : callL I sk a = Some (outcome_of gstate value a w1)) by (unfold call_local; now rewrite R).
  destruct (call_local_agrees gstate value req draw seed I sk a _ L) as (N & k & G).
  exists (outcome_of gstate value a w1), k. auto.
Qed.

Theorem gfw_reproducible : forall (I : interp) sk (a : rsarg gstate),
  global_free_w sk = true -> safe_arg a = true ->
  (forall env env' g g', fst (callG env I sk a g) = fst (callG env' I sk a g')) /\
  (forall g, snd (callG (fun _ x => x) I sk a g) = g) /\
  (forall env g, ~ In GGlobal (o_srcs (fst (callG env I sk a g)))).
Proof.
  intros I sk a H Ha. destruct (gfw_call I sk a H Ha) as (o & k & _ & N & G). repeat split.
  - intros. now rewrite !G.
  - intro g. rewrite G. simpl. apply advance_id.
  - intros env g. now rewrite G.
Qed.

End W.

(* the join-precise analysis accepts everything the first analysis accepts *)
Definition wc (c : acur) : wcur := match c with AGlob => WUnsafe | _ => WSafe end.
Definition wp (p : aparam) : wcur := match p with PNone | PGlob => WUnsafe | _ => WSafe end.

Lemma gf_gfw : forall sk p c c', gf sk p c = Some c' -> gfw sk (wp p) (wc c) = Some (wc c').
Proof.
  induction sk; intros p c c' H; simpl in H |- *.
  - now inversion H.
  - destruct (gf sk1 p c) as [c1|] eqn:E1; [|discriminate]. rewrite (IHsk1 _ _ _ E1). now apply IHsk2.
  - destruct (gf sk1 p c) as [c1|] eqn:E1; [|discriminate]. destruct (gf sk2 p c) as [c2|] eqn:E2; [|discriminate].
    destruct (acur_eqb c1 c2) eqn:E; [|discriminate]. apply acur_eqb_eq in E. inversion H; subst.
    rewrite (IHsk1 _ _ _ E1), (IHsk2 _ _ _ E2). destruct c'; reflexivity.
  - destruct (gf sk p c) as [c1|] eqn:E1; [|discriminate].
    destruct (acur_eqb c1 c) eqn:E; [|discriminate]. apply acur_eqb_eq in E. inversion H; subst.
    rewrite (IHsk _ _ _ E1). destruct c'; reflexivity.
  - destruct p; simpl in H; inversion H; reflexivity.
  - destruct c; try discriminate. inversion H; subst. reflexivity.
  - discriminate.
  - destruct (gf sk (aarg a p c) AUnset) as [c1|] eqn:E1; [|discriminate]. inversion H; subst.
    assert (X : wp (aarg a p c') = warg a (wp p) (wc c')).
    { destruct a; simpl; auto; [destruct c'; reflexivity | destruct (seed_ok s); reflexivity]. }
    rewrite <- X. change WSafe with (wc AUnset). now rewrite (IHsk _ _ _ E1).
  - discriminate.
Qed.

Corollary global_free_gfw : forall sk, global_free sk PInt = true -> global_free_w sk = true.
Proof.
  intros sk H. unfold global_free in H. unfold global_free_w.
  destruct (gf sk PInt AUnset) as [c|] eqn:E; [|discriminate].
  change WSafe with (wp PInt) at 1. change WSafe with (wc AUnset). now rewrite (gf_gfw _ _ _ _ E).
Qed.

(* ---------------------------------------------------------------- histories, semantic form *)
Section H.
Variables gstate value req : Type.
Variable draw : req -> gstate -> value * gstate.
Variable seed : Z -> gstate.
Notation interp := (interp value req).
Notation event := (event gstate value req).
Notation runH := (run_hist gstate value req draw seed).
Notation callL := (call_local gstate value req draw seed).
Notation callG := (call gstate value req draw seed).

(* the state of the process (global generator, caller's generator objects) just before event number i *)
Definition step (e : event) (g : gstate) (insts : list gstate) : gstate * list gstate :=
  match e with
  | ECall ip sk a => let (o, g1) := callG (idenv gstate) ip sk (resolve gstate a insts) g in (g1, writeback gstate value a o insts)
  | EEnv f => (f g, insts)
  | ENew s => (g, insts ++ [seed s])
  end.

Fixpoint state_at (h : list event) (i : nat) (g : gstate) (insts : list gstate) : gstate * list gstate :=
  match i, h with
  | S i', e :: r => let (g1, insts1) := step e g insts in state_at r i' g1 insts1
  | _, _ => (g, insts)
  end.

(* ANY call in ANY history -- whatever random_state is -- whose global-free semantics is defined on the
   caller's objects as they are at that moment returns exactly that outcome: it depends on the skeleton, the
   arguments and the state of the passed generator object only, never on the global generator or on what
   happened to it before *)
Theorem history_results_sem : forall (h : list event) g insts i (ip : interp) sk a o,
  nth_error h i = Some (ECall ip sk a) ->
  callL ip sk (resolve gstate a (snd (state_at h i g insts))) = Some o ->
  nth_error (fst (fst (runH h g insts))) i = Some (Some o).
Proof.
  induction h as [|e h IH]; intros g insts i ip sk a o Hn Hc.
  - destruct i; discriminate.
  - destruct i; simpl in Hn.
    + inversion Hn; subst. simpl in Hc |- *.
      destruct (call_local_agrees gstate value req draw seed ip sk _ o Hc) as (_ & k & G).
      rewrite G. destruct (runH h _ _) as [[os g2] i2]. reflexivity.
    + simpl in Hc. destruct e as [ip' sk' a'|f|s']; simpl in Hc |- *.
      * destruct (callG _ ip' sk' (resolve gstate a' insts) g) as [o' g1].
        specialize (IH g1 (writeback gstate value a' o' insts) i ip sk a o Hn Hc).
        destruct (runH h g1 _) as [[os g2] i2]. exact IH.
      * specialize (IH (f g) insts i ip sk a o Hn Hc). destruct (runH h (f g) insts) as [[os g2] i2]. exact IH.
      * specialize (IH g (insts ++ [seed s']) i ip sk a o Hn Hc). destruct (runH h g _) as [[os g2] i2]. exact IH.
Qed.

(* int-seeded calls of global-free entry points (ANY int: an out-of-range seed makes the call fail, reproducibly) *)
Lemma call_int_gf : forall (ip : interp) sk s, global_free sk PInt = true ->
  exists o k, callL ip sk (HInt s) = Some o /\ forall env g, callG env ip sk (HInt s) g = (o, advance gstate env 0 k g).
Proof.
  intros ip sk s Hg.
  destruct (gfw_call gstate value req draw seed ip sk (HInt s) (global_free_gfw sk Hg) eq_refl) as (o & k & L & _ & G).
  exists o, k. auto.
Qed.

Lemma erasable_call : forall (ip : interp) sk a, erasable gstate value req (ECall ip sk a) = true ->
  exists s, a = RInt s /\ global_free sk PInt = true.
Proof. intros ip sk [] H; simpl in H; try discriminate. eauto. Qed.

Theorem history_results : forall (h : list event) g insts i (ip : interp) sk s,
  nth_error h i = Some (ECall ip sk (RInt s)) -> global_free sk PInt = true ->
  nth_error (fst (fst (runH h g insts))) i = Some (callL ip sk (HInt s)).
Proof.
  induction h as [|e h IH]; intros g insts i ip sk s Hn Hg.
  - destruct i; discriminate.
  - destruct i; simpl in Hn.
    + inversion Hn; subst. simpl.
      destruct (call_int_gf ip sk s Hg) as (o & k & L & G).
      rewrite G. rewrite L.
      destruct (runH h _ _) as [[os g2] i2]. reflexivity.
    + destruct e as [ip' sk' a'|f|s']; simpl.
      * destruct (callG _ ip' sk' (resolve gstate a' insts) g) as [o g1].
        specialize (IH g1 (writeback gstate value a' o insts) i ip sk s Hn Hg).
        destruct (runH h g1 _) as [[os g2] i2]. exact IH.
      * specialize (IH (f g) insts i ip sk s Hn Hg). destruct (runH h (f g) insts) as [[os g2] i2]. exact IH.
      * specialize (IH g (insts ++ [seed s']) i ip sk s Hn Hg). destruct (runH h g _) as [[os g2] i2]. exact IH.
Qed.

Theorem history_global : forall (h : list event) g insts,
  snd (fst (runH h g insts)) = snd (fst (runH (erase gstate value req h) g insts)) /\
  snd (runH h g insts) = snd (runH (erase gstate value req h) g insts).
Proof.
  induction h as [|e h IH]; intros g insts; [split; reflexivity|].
  unfold erase. simpl filter. destruct (erasable gstate value req e) eqn:E; simpl negb; cbv iota.
  - destruct e as [ip sk a|f|s']; try discriminate.
    destruct (erasable_call ip sk a E) as (s & -> & Hg).
    destruct (call_int_gf ip sk s Hg) as (o & k & L & G).
    simpl. rewrite G. rewrite advance_id. unfold writeback.
    specialize (IH g insts). destruct (runH h g insts) as [[os g2] i2]. exact IH.
  - destruct e as [ip sk a|f|s']; simpl.
    + destruct (callG _ ip sk (resolve gstate a insts) g) as [o g1].
      specialize (IH g1 (writeback gstate value a o insts)). fold (erase gstate value req h).
      destruct (runH h g1 _) as [[os g2] i2]. destruct (runH (erase gstate value req h) g1 _) as [[os' g2'] i2']. exact IH.
    + specialize (IH (f g) insts). fold (erase gstate value req h).
      destruct (runH h (f g) insts) as [[os g2] i2]. destruct (runH (erase gstate value req h) (f g) insts) as [[os' g2'] i2']. exact IH.
    + specialize (IH g (insts ++ [seed s'])). fold (erase gstate value req h).
      destruct (runH h g _) as [[os g2] i2]. destruct (runH (erase gstate value req h) g _) as [[os' g2'] i2']. exact IH.
Qed.

(* fit twice / call twice: two int-seeded calls of the same global-free entry point with the same arguments and
   the same seed, anywhere in one history, return the same outcome *)
Theorem history_same_seed_same_result : forall (h : list event) g insts i j (ip : interp) sk s,
  nth_error h i = Some (ECall ip sk (RInt s)) -> nth_error h j = Some (ECall ip sk (RInt s)) ->
  global_free sk PInt = true ->
  nth_error (fst (fst (runH h g insts))) i = nth_error (fst (fst (runH h g insts))) j /\
  nth_error (fst (fst (runH h g insts))) i = Some (callL ip sk (HInt s)).
Proof.
  intros h g insts i j ip sk s Hi Hj Hg.
  rewrite (history_results h g insts i ip sk s Hi Hg).
  rewrite (history_results h g insts j ip sk s Hj Hg). split; reflexivity.
Qed.

(* ... and the same holds in two DIFFERENT processes (different initial global states, different histories) *)
Theorem histories_same_seed_same_result : forall (h h' : list event) g g' insts insts' i j (ip : interp) sk s,
  nth_error h i = Some (ECall ip sk (RInt s)) -> nth_error h' j = Some (ECall ip sk (RInt s)) ->
  global_free sk PInt = true ->
  nth_error (fst (fst (runH h g insts))) i = nth_error (fst (fst (runH h' g' insts'))) j.
Proof.
  intros h h' g g' insts insts' i j ip sk s Hi Hj Hg.
  rewrite (history_results h g insts i ip sk s Hi Hg).
  rewrite (history_results h' g' insts' j ip sk s Hj Hg). reflexivity.
Qed.

(* ---------------------------------------------------------------- calls with generator OBJECTS in histories *)
Definition safe_hrs (a : hrs) : bool := match a with RNone | RGlobObj => false | _ => true end.

Lemma safe_hrs_resolve : forall a insts, safe_hrs a = true -> safe_arg gstate (resolve gstate a insts) = true.
Proof. intros [] insts H; simpl in *; try discriminate; auto. destruct (nth_error insts k); reflexivity. Qed.

Lemma step_safe_global : forall (ip : interp) sk a g insts,
  global_free_w sk = true -> safe_arg gstate (resolve gstate a insts) = true ->
  fst (step (ECall ip sk a) g insts) = g.
Proof.
  intros ip sk a g insts Hw Ha. simpl.
  destruct (gfw_call gstate value req draw seed ip sk _ Hw Ha) as (o & k & _ & _ & G).
  rewrite G. simpl. unfold idenv. apply advance_id.
Qed.

(* ANY call -- int seed, caller-owned generator object, junk -- accepted by the join-precise analysis leaves the
   global generator exactly as it found it, wherever it occurs in a history *)
Theorem history_step_global_untouched : forall (h : list event) i g insts (ip : interp) sk a,
  nth_error h i = Some (ECall ip sk a) -> global_free_w sk = true ->
  safe_arg gstate (resolve gstate a (snd (state_at h i g insts))) = true ->
  fst (state_at h (S i) g insts) = fst (state_at h i g insts).
Proof.
  induction h as [|e h IH]; intros i g insts ip sk a Hn Hw Ha.
  - destruct i; discriminate.
  - destruct i.
    + simpl in Hn. inversion Hn; subst. simpl in Ha.
      change (state_at (ECall ip sk a :: h) 1 g insts) with
        (let (g1, insts1) := step (ECall ip sk a) g insts in state_at h 0 g1 insts1).
      pose proof (step_safe_global ip sk a g insts Hw Ha) as S.
      destruct (step (ECall ip sk a) g insts) as [g1 insts1]. simpl in S. subst. destruct h; reflexivity.
    + simpl in Hn.
      change (state_at (e :: h) (S (S i)) g insts) with (let (g1, insts1) := step e g insts in state_at h (S i) g1 insts1).
      change (state_at (e :: h) (S i) g insts) with (let (g1, insts1) := step e g insts in state_at h i g1 insts1) in *.
      destruct (step e g insts) as [g1 insts1]. eapply IH; eauto.
Qed.

Lemma run_hist_step : forall e (h : list event) g insts,
  let '(g1, insts1) := step e g insts in
  snd (fst (runH (e :: h) g insts)) = snd (fst (runH h g1 insts1)) /\ snd (runH (e :: h) g insts) = snd (runH h g1 insts1).
Proof.
  intros [ip sk a|f|s'] h g insts; simpl.
  - destruct (callG _ ip sk (resolve gstate a insts) g) as [o g1]. destruct (runH h g1 _) as [[os g2] i2]. split; reflexivity.
  - destruct (runH h (f g) insts) as [[os g2] i2]. split; reflexivity.
  - destruct (runH h g _) as [[os g2] i2]. split; reflexivity.
Qed.

(* what the rest of the process alone does to the global generator *)
Fixpoint env_only (h : list event) (g : gstate) : gstate :=
  match h with [] => g | EEnv f :: r => env_only r (f g) | _ :: r => env_only r g end.

Definition call_safe (e : event) : bool :=
  match e with ECall _ sk a => global_free_w sk && safe_hrs a | _ => true end.

(* a process all of whose library calls pass an int, a generator object of the caller's or junk to entry points
   accepted by the analysis: the global generator ends exactly where the other code put it *)
Theorem history_global_env_only : forall (h : list event) g insts,
  forallb call_safe h = true -> snd (fst (runH h g insts)) = env_only h g.
Proof.
  induction h as [|e h IH]; intros g insts H; [reflexivity|].
  simpl in H. apply andb_true_iff in H as [He Hh].
  pose proof (run_hist_step e h g insts) as R.
  destruct e as [ip sk a|f|s'].
  - simpl in He. apply andb_true_iff in He as [Hw Ha].
    pose proof (step_safe_global ip sk a g insts Hw (safe_hrs_resolve a insts Ha)) as S.
    destruct (step (ECall ip sk a) g insts) as [g1 insts1]. simpl in S. subst g1.
    destruct R as [R _]. rewrite R. simpl. apply IH. exact Hh.
  - cbv beta iota delta [step] in R. destruct R as [R _]. rewrite R. simpl. apply IH. exact Hh.
  - cbv beta iota delta [step] in R. destruct R as [R _]. rewrite R. simpl. apply IH. exact Hh.
Qed.

(* erasure of int-seeded calls, with the join-precise analysis as the criterion *)
Definition erasable_w (e : event) : bool := match e with ECall _ sk (RInt _) => global_free_w sk | _ => false end.
Definition erase_w (h : list event) : list event := filter (fun e => negb (erasable_w e)) h.

Theorem history_global_w : forall (h : list event) g insts,
  snd (fst (runH h g insts)) = snd (fst (runH (erase_w h) g insts)) /\
  snd (runH h g insts) = snd (runH (erase_w h) g insts).
Proof.
  induction h as [|e h IH]; intros g insts; [split; reflexivity|].
  unfold erase_w. simpl filter. destruct (erasable_w e) eqn:E; simpl negb; cbv iota; fold (erase_w h).
  - destruct e as [ip sk a|f|s']; try discriminate. destruct a; try discriminate. simpl in E.
    destruct (gfw_call gstate value req draw seed ip sk (HInt s) E eq_refl) as (o & k & L & _ & G).
    simpl. rewrite G. rewrite advance_id. unfold writeback.
    specialize (IH g insts). destruct (runH h g insts) as [[os g2] i2]. exact IH.
  - pose proof (run_hist_step e h g insts) as R1. pose proof (run_hist_step e (erase_w h) g insts) as R2.
    destruct (step e g insts) as [g1 insts1]. destruct R1 as [A1 B1]. destruct R2 as [A2 B2].
    rewrite A1, B1, A2, B2. apply IH.
Qed.

End H.

(* ---------------------------------------------------------------- the toy generator *)
Lemma toy_value_injective : value_injective Z Z nat toy_draw.
Proof. intros r g g' H. exact H. Qed.

(* ---------------------------------------------------------------- entry points that always reach check_random_state *)
Fixpoint always_checks (e : ep) : bool :=
  match e with
  | E_random_tensor | E_random_cp | E_random_tucker | E_random_tt | E_random_tr | E_random_parafac2
  | E_check_random_state | E_range_finder | E_randomized_svd
  | E_initialize_cp | E_parafac | E_nn_parafac | E_nn_parafac_hals | E_constrained_parafac | E_initialize_constrained | E_randomised_parafac
  | E_parafac2 | E_tr_als | E_tr_als_sampled | E_tt_cross
  | E_cp_regressor | E_tucker_regressor => true
  | E_estimator e' => always_checks e'
  | _ => false
  end.

Lemma always_checks_must : forall e o, always_checks e = true -> must_check (skeleton e o) = true.
Proof.
  induction e; intros o H; simpl in H; try discriminate; try (destruct o; reflexivity).
  simpl. now apply IHe.
Qed.

(* ---------------------------------------------------------------- entry points WITHOUT random choices *)
(* the option sets under which the decompositions make no random choice: not the random initialisation, not the
   randomized SVD, and no mode shorter than the rank (CP's SVD initialisation pads such a mode with random columns) *)
Definition no_random_choice (o : opts) : bool :=
  match o_init o with IRandom => false | _ => true end &&
  match o_svd o with SRandomized => false | _ => true end &&
  forallb (fun d => Nat.leb (o_rank o) d) (o_shape o).

Fixpoint deterministic_family (e : ep) : bool :=
  match e with
  | E_svd_interface
  | E_initialize_cp | E_parafac | E_nn_parafac | E_nn_parafac_hals | E_constrained_parafac | E_initialize_constrained
  | E_initialize_tucker | E_partial_tucker | E_tucker | E_nn_tucker | E_nn_tucker_hals
  | E_parafac2 | E_parafac2_init | E_compute_projections | E_tt_svd | E_rng_free => true
  | E_estimator e' => deterministic_family e'
  | _ => false
  end.

Lemma draw_free_seqs_map_in : forall (A : Type) (f : A -> skel) l,
  (forall d, In d l -> draw_free (f d) = true) -> draw_free (seqs (map f l)) = true.
Proof.
  intros A f l H. induction l; simpl; auto.
  rewrite (H a (or_introl eq_refl)). apply IHl. intros d Hd. apply H. now right.
Qed.

Lemma draw_free_svd_interface : forall m mask nrep, m <> SRandomized -> draw_free (sk_svd_interface m mask nrep) = true.
Proof. intros [] [] nrep H; try reflexivity; congruence. Qed.

Lemma draw_free_cp_modes : forall (a : argexp) sv mk nr rk sh,
  sv <> SRandomized -> forallb (fun d => Nat.leb rk d) sh = true ->
  draw_free (seqs (map (fun d => Seq (Call a (sk_svd_interface sv mk nr)) (if Nat.ltb d rk then Draw 1 else Skip)) sh)) = true.
Proof.
  intros a sv mk nr rk sh Hs Hr. apply draw_free_seqs_map_in. intros d Hd.
  rewrite forallb_forall in Hr. specialize (Hr d Hd). apply Nat.leb_le in Hr.
  cbn [draw_free]. rewrite (draw_free_svd_interface sv mk nr Hs).
  destruct (Nat.ltb d rk) eqn:E; [apply Nat.ltb_lt in E; lia | reflexivity].
Qed.

Theorem deterministic_draw_free : forall e o,
  deterministic_family e = true -> no_random_choice o = true -> draw_free (skeleton e o) = true.
Proof.
  induction e; intros o F N; simpl in F; try discriminate;
    try (simpl; now apply IHe);
    destruct o as [sh rk ini sv mk nr it ax]; unfold no_random_choice in N; simpl in N;
    apply andb_true_iff in N as [N Hr]; apply andb_true_iff in N as [Hi Hs];
    assert (Hsv : sv <> SRandomized) by (destruct sv; simpl in Hs; congruence);
    destruct ini; simpl in Hi; try discriminate; simpl; unfold order; simpl;
    repeat rewrite (draw_free_svd_interface sv _ _ Hsv);
    repeat rewrite draw_free_cp_modes by assumption;
    try reflexivity.
  all: destruct sv; try (exfalso; apply Hsv; reflexivity); try destruct mk; reflexivity.
Qed.
