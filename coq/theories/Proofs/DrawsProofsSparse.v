(* C16 -- the sparse backend's partial_svd (Model/DrawsSparse.v): refutation on a SciPy whose eigsh draws ARPACK's restart vectors
   from operating-system entropy, and the restricted statements that hold. *)
From Coq Require Import List Arith ZArith Bool Lia.
From TLV Require Import Model.Draws Model.DrawsSparse Proofs.DrawsProofs.
Import ListNotations.

(* same integer seed, two global states (two draws of the process-wide entropy source): different outcomes *)
Lemma sparse_partial_svd_refuted :
  global_free_w (sk_sparse_partial_svd true false) = false /\
  exists (I : interp Z nat) (g g' : Z),
    fst (call Z Z nat toy_draw toy_seed toy_env I (sk_sparse_partial_svd true false) (HInt 3%Z) g) <>
    fst (call Z Z nat toy_draw toy_seed toy_env I (sk_sparse_partial_svd true false) (HInt 3%Z) g').
Proof. split; [reflexivity|]. exists toy_interp, 0%Z, 9%Z. vm_compute. intro H. discriminate H. Qed.

Section S.
Variables gstate value req : Type.
Variable draw : req -> gstate -> value * gstate.
Variable seed : Z -> gstate.

(* without the entropy source (eigsh given the resolved generator, or a SciPy without it), and whenever random_state is not looked
   at: an int seed / a caller-owned generator object gives the same outcome from any global state and environment, and the
   global generator is moved by the environment alone *)
Lemma sparse_partial_svd_seeded : forall (full : bool) (I : interp value req) (a : rsarg gstate),
  absp (param0 gstate a) = PInt \/ absp (param0 gstate a) = PLoc ->
  (forall env env' g g', fst (call gstate value req draw seed env I (sk_sparse_partial_svd false full) a g) =
                         fst (call gstate value req draw seed env' I (sk_sparse_partial_svd false full) a g')) /\
  (forall g, snd (call gstate value req draw seed (fun _ x => x) I (sk_sparse_partial_svd false full) a g) = g).
Proof.
  intros full I a H.
  assert (G : global_free (sk_sparse_partial_svd false full) (absp (param0 gstate a)) = true).
  { destruct H as [-> | ->]; destruct full; reflexivity. }
  split.
  - intros. now apply call_reproducible.
  - apply (call_global_untouched gstate value req draw seed I _ a G).
Qed.

(* WITH the entropy source: as long as ARPACK needs no restart vector (the interpretation never takes branch 6) the call is the
   call of the entropy-free skeleton -- so the statement above holds for these runs *)
Lemma sparse_partial_svd_no_restart : forall (I : interp value req), (forall h, decide I 6 h = false) ->
  forall env (a : rsarg gstate) g,
    call gstate value req draw seed env I (sk_sparse_partial_svd true false) a g =
    call gstate value req draw seed env I (sk_sparse_partial_svd false false) a g.
Proof.
  intros I H env a g. unfold call, sk_sparse_partial_svd. simpl.
  destruct (check_random_state gstate value seed (param0 gstate a) (tickL gstate value (w0 gstate value a))) as [c1 w1].
  destruct c1 as [[|h]|]; simpl.
  - destruct (draw_glob gstate value req draw I 2 _ _) as [w2 g2]. simpl.
    now rewrite H.
  - now rewrite H.
  - now rewrite H.
Qed.
End S.

Lemma sparse_partial_svd_partial : forall (gstate value req : Type) (draw : req -> gstate -> value * gstate) (seed : Z -> gstate),
  (forall (full : bool) (I : interp value req) (a : rsarg gstate),
     absp (param0 gstate a) = PInt \/ absp (param0 gstate a) = PLoc ->
     (forall env env' g g', fst (call gstate value req draw seed env I (sk_sparse_partial_svd false full) a g) =
                            fst (call gstate value req draw seed env' I (sk_sparse_partial_svd false full) a g')) /\
     (forall g, snd (call gstate value req draw seed (fun _ x => x) I (sk_sparse_partial_svd false full) a g) = g)) /\
  (forall (I : interp value req), (forall h, decide I 6 h = false) ->
     forall env (a : rsarg gstate) g,
       call gstate value req draw seed env I (sk_sparse_partial_svd true false) a g =
       call gstate value req draw seed env I (sk_sparse_partial_svd false false) a g).
Proof.
  intros gstate value req draw seed. split.
  - exact (sparse_partial_svd_seeded gstate value req draw seed).
  - exact (sparse_partial_svd_no_restart gstate value req draw seed).
Qed.
