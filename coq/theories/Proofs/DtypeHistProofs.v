(* C18 -- history independence of the dtype language (Model/DtypeHist.v) *)
From Coq Require Import List Bool Arith String Lia.
From TLV Require Import Model.Dtype Model.DtypeHist Proofs.DtypeProofs.
Import ListNotations.

(* two states agree on every variable outside U *)
Definition agree_off (U : list nat) (s1 s2 : state) : Prop := forall x, memb x U = false -> s1 x = s2 x.

Lemma disjb_app a b U : disjb (a ++ b) U = disjb a U && disjb b U.
Proof. unfold disjb. apply forallb_app. Qed.
Lemma disjb_nil a : disjb a [] = true.
Proof. induction a; simpl; auto. Qed.

Lemma eval_agree en U s1 s2 e : agree_off U s1 s2 -> disjb (reads e) U = true -> eval en s1 e = eval en s2 e.
Proof.
  intros H. induction e as [l|x|a IHa b IHb|a IHa b IHb|a IHa|a IHa|a IHa b IHb|tg IHt v IHv]; simpl; intros D.
  - reflexivity.
  - apply H. apply andb_prop in D. destruct D as [D _]. destruct (memb x U); [discriminate D | reflexivity].
  - rewrite disjb_app in D. apply andb_prop in D. destruct D as [Da Db]. rewrite (IHa Da), (IHb Db). reflexivity.
  - rewrite disjb_app in D. apply andb_prop in D. destruct D as [Da Db]. rewrite (IHa Da), (IHb Db). reflexivity.
  - rewrite (IHa D). reflexivity.
  - rewrite (IHa D). reflexivity.
  - rewrite disjb_app in D. apply andb_prop in D. destruct D as [Da Db]. rewrite (IHa Da), (IHb Db). reflexivity.
  - exact (IHt D).
Qed.

Lemma memb_removeb_false x y U : memb y (removeb x U) = false -> y = x \/ memb y U = false.
Proof.
  induction U as [|z r IH]; simpl; intros H; [right; reflexivity|].
  destruct (Nat.eqb z x) eqn:Ezx; simpl in H.
  - apply Nat.eqb_eq in Ezx. subst z. destruct (Nat.eqb y x) eqn:Eyx.
    + left. apply Nat.eqb_eq; exact Eyx.
    + simpl. exact (IH H).
  - apply orb_false_elim in H. destruct H as [H1 H2]. rewrite H1. simpl. exact (IH H2).
Qed.

Lemma upd_agree U s1 s2 x d : agree_off U s1 s2 -> agree_off (removeb x U) (upd s1 x d) (upd s2 x d).
Proof.
  intros H y Hy. unfold upd. destruct (Nat.eqb y x) eqn:E; [reflexivity|].
  apply H. destruct (memb_removeb_false _ _ _ Hy) as [->|Hm]; [rewrite Nat.eqb_refl in E; discriminate E | exact Hm].
Qed.

Lemma exec_cons en st x e r : exec en st ((x, e) :: r) = exec en (upd st x (eval en st e)) r.
Proof. reflexivity. Qed.

Lemma exec_agree en b : forall U U' s1 s2, free_block U b = Some U' -> agree_off U s1 s2 ->
  agree_off U' (exec en s1 b) (exec en s2 b).
Proof.
  induction b as [|[x e] r IH]; intros U U' s1 s2 F H; simpl in F.
  - injection F as <-. exact H.
  - destruct (disjb (reads e) U) eqn:D; [|discriminate F].
    rewrite !exec_cons. rewrite (eval_agree en U s1 s2 e H D). apply (IH _ _ _ _ F). apply upd_agree. exact H.
Qed.

Lemma free_block_sub b : forall U U', free_block U b = Some U' -> forall x, memb x U' = true -> memb x U = true.
Proof.
  induction b as [|[y e] r IH]; simpl; intros U U' F x Hx.
  - injection F as <-. exact Hx.
  - destruct (disjb (reads e) U); [|discriminate F]. specialize (IH _ _ F x Hx).
    apply memb_removeb in IH. exact (proj2 IH).
Qed.

Lemma agree_off_weaken U U' s1 s2 : (forall x, memb x U' = true -> memb x U = true) -> agree_off U' s1 s2 -> agree_off U s1 s2.
Proof.
  intros S H x Hx. apply H. destruct (memb x U') eqn:E; [|reflexivity]. apply S in E. rewrite E in Hx. discriminate Hx.
Qed.

(* a program passing the check computes the same output dtypes from any two states that differ only in the persistent variables *)
Theorem hist_free_sound G p : hist_free G p = true -> forall en n s1 s2, agree_off G s1 s2 ->
  forall o, In o (p_outs p) -> eval en (run_from en p n s1) (snd o) = eval en (run_from en p n s2) (snd o).
Proof.
  unfold hist_free. destruct (free_block G (p_init p)) as [U1|] eqn:E1; [|discriminate].
  destruct (free_block U1 (p_body p)) as [U2|] eqn:E2; [|discriminate].
  intros Ho en n s1 s2 H o Hin. rewrite forallb_forall in Ho. specialize (Ho o Hin).
  assert (A1 : agree_off U1 (exec en s1 (p_init p)) (exec en s2 (p_init p))) by exact (exec_agree en _ _ _ _ _ E1 H).
  assert (An : forall k a b, agree_off U1 a b ->
            agree_off U1 (iter k (fun st => exec en st (p_body p)) a) (iter k (fun st => exec en st (p_body p)) b)).
  { induction k as [|k IHk]; simpl; intros a b Hab; [exact Hab|].
    apply IHk. apply (agree_off_weaken U1 U2); [exact (free_block_sub _ _ _ E2) | exact (exec_agree en _ _ _ _ _ E2 Hab)]. }
  unfold run_from. exact (eval_agree en U1 _ _ (snd o) (An n _ _ A1) Ho).
Qed.

Lemma carry_agree G st : agree_off G (carry G st) st0.
Proof. intros x Hx. unfold carry. rewrite Hx. reflexivity. Qed.
Lemma session_agree G h : forall st, agree_off G st st0 -> agree_off G (session G st h) st0.
Proof. induction h as [|c r IH]; simpl; intros st H; [exact H | apply IH, carry_agree]. Qed.

(* HISTORY INDEPENDENCE: whatever calls were made before - of whatever programs, with whatever dtypes, writing whatever into the
   persistent variables - a call of a program that reads no persistent variable before overwriting it returns exactly the dtypes it
   returns as the first call of a fresh process *)
Theorem history_independent G h c : hist_free G (k_prog c) = true -> call_outs G h c = isolated_outs c.
Proof.
  intros Hf. unfold call_outs, isolated_outs, out_dtypes, call_state. apply map_ext_in. intros o Ho. f_equal.
  change (run (k_env c) (k_prog c) (k_n c)) with (run_from (k_env c) (k_prog c) (k_n c) st0).
  apply (hist_free_sound G _ Hf); [|exact Ho]. apply session_agree. intros x _. reflexivity.
Qed.

(* without persistent variables the check is vacuous: EVERY program of the dtype language - every skeleton of Model/Dtype.v, every program
   the harness extracts from the source - is history independent *)
Lemma free_block_nil b : free_block [] b = Some [].
Proof. induction b as [|[x e] r IH]; simpl; [reflexivity|]. rewrite disjb_nil. exact IH. Qed.
Lemma hist_free_nil p : hist_free [] p = true.
Proof.
  unfold hist_free. rewrite free_block_nil, free_block_nil. apply forallb_forall. intros o _. apply disjb_nil.
Qed.
Theorem stateless_history_independent h c : call_outs [] h c = isolated_outs c.
Proof. apply history_independent, hist_free_nil. Qed.

(* ... hence the per-call guarantees hold for every call of every session: precision class (tolerant check) and exact dtype *)
Theorem session_precision_preserved G h c : hist_free G (k_prog c) = true -> In (tau (k_env c)) ctxs ->
  prog_ok2 (k_env c) (k_prog c) = true -> forall s d, In (s, d) (call_outs G h c) -> strongP (tau (k_env c)) d = true.
Proof.
  intros Hf Ht Hok s d Hin. rewrite (history_independent G h c Hf) in Hin. unfold isolated_outs, out_dtypes in Hin.
  apply in_map_iff in Hin. destruct Hin as [[s' e] [Eq Ho]]. simpl in Eq. injection Eq as <- <-.
  exact (prog2_precision_preserved _ _ Ht Hok (k_n c) s' e Ho).
Qed.
Theorem session_exact_preserved G h c want : hist_free G (k_prog c) = true -> In (tau (k_env c)) ctxs ->
  all_exact2 (k_env c) (k_prog c) want = true -> forall k o, In k want -> nth_error (p_outs (k_prog c)) k = Some o ->
  nth_error (call_outs G h c) k = Some (fst o, tau (k_env c)).
Proof.
  intros Hf Ht Hx k o Hk Hn. rewrite (history_independent G h c Hf). unfold isolated_outs, out_dtypes.
  rewrite (map_nth_error _ _ _ Hn). rewrite (all_exact2_sound _ _ _ Ht Hx k o Hk Hn (k_n c)). reflexivity.
Qed.

(* ---- the dtype-oblivious cache: refuted *)
Definition smooth_call (p : prog) (t : dt) : call := mkcall (mkenv t t) p 0.

Example cached_smooth_refuted :
  call_outs [vK] [smooth_call cached_smooth_prog F64] (smooth_call cached_smooth_prog F32) = [("out0", F64)] /\
  isolated_outs (smooth_call cached_smooth_prog F32) = [("out0", F32)] /\
  call_outs [vK] [smooth_call cached_smooth_prog C128] (smooth_call cached_smooth_prog C64) = [("out0", C128)] /\
  call_outs [vK] [smooth_call cached_smooth_prog F32] (smooth_call cached_smooth_prog F64) = [("out0", F64)] /\
  hist_free [vK] cached_smooth_prog = false /\ hist_free [] cached_smooth_prog = true /\
  hist_free [vK] smooth_prog = true /\ hist_free [vK] keyed_smooth_prog = true.
Proof. repeat split; vm_compute; reflexivity. Qed.

(* the store of the cache after any history of calls of the cached program: the promotion of everything that was ever passed in *)
Lemma cached_store ts : forall st, session [vK] st (map (smooth_call cached_smooth_prog) ts) vK = fold_left promote ts (st vK).
Proof.
  induction ts as [|t r IH]; intros st; simpl; [reflexivity|]. rewrite IH. reflexivity.
Qed.
Lemma fold_promote_sticky ts : (forall t, In t ts -> t = F32 \/ t = F64) -> forall a, (a = B \/ a = F32 \/ a = F64) ->
  (a = F64 \/ In F64 ts) -> fold_left promote ts a = F64.
Proof.
  induction ts as [|t r IH]; simpl; intros Hts a Ha H.
  - destruct H as [H|[]]. exact H.
  - assert (Ht : t = F32 \/ t = F64) by (apply Hts; left; reflexivity).
    apply IH.
    + intros u Hu. apply Hts. right. exact Hu.
    + destruct Ha as [ -> | [ -> | -> ] ]; destruct Ht as [ -> | -> ]; simpl; tauto.
    + destruct H as [ -> | [ E | H ] ].
      * left. destruct Ht as [ -> | -> ]; reflexivity.
      * left. subst t. destruct Ha as [ -> | [ -> | -> ] ]; reflexivity.
      * right. exact H.
Qed.
(* ONE float64 call anywhere in the history of the process is enough: every later float32 call of the cached program returns float64,
   although the same call made in a fresh process returns float32 *)
Theorem cached_smooth_widens ts : (forall t, In t ts -> t = F32 \/ t = F64) -> In F64 ts ->
  call_outs [vK] (map (smooth_call cached_smooth_prog) ts) (smooth_call cached_smooth_prog F32) = [("out0", F64)] /\
  isolated_outs (smooth_call cached_smooth_prog F32) = [("out0", F32)].
Proof.
  intros Hts Hin. split; [|reflexivity].
  assert (HS : session [vK] st0 (map (smooth_call cached_smooth_prog) ts) vK = F64).
  { rewrite cached_store. apply (fold_promote_sticky ts Hts (st0 vK)); [left; reflexivity | right; exact Hin]. }
  unfold call_outs, call_state. set (S := session [vK] st0 (map (smooth_call cached_smooth_prog) ts)) in *.
  cbn. unfold upd. cbn. rewrite HS. reflexivity.
Qed.
(* with the dtype in the key (the cached value reaches the result only through a cast into the context of the current data) the same
   sessions are harmless - an instance of history_independent *)
Theorem keyed_smooth_history_independent h t n : call_outs [vK] h (mkcall (mkenv t t) keyed_smooth_prog n) = [("out0", t)].
Proof.
  rewrite history_independent; [|reflexivity]. unfold isolated_outs, out_dtypes. simpl.
  unfold run. simpl. rewrite iter_id; [|intros; reflexivity]. unfold exec; simpl. unfold upd; simpl. rewrite promote_idem. reflexivity.
Qed.

(* ---- estimator instances (round 8): the fitted attributes of one object as persistent variables; store-then-read is history independent,
   a warm start is refuted for every history of fits that contains a double-precision one *)
Open Scope string_scope.
Example refit_examples :
  hist_free fitted refit_prog = true /\ hist_free fitted warm_refit_prog = false /\ hist_free fitted cast_warm_refit_prog = true /\
  call_outs fitted [fit_call warm_refit_prog F64] (fit_call warm_refit_prog F32) = [("out0", F64)] /\
  isolated_outs (fit_call warm_refit_prog F32) = [("out0", F32)] /\
  call_outs fitted [fit_call warm_refit_prog C128] (fit_call warm_refit_prog C64) = [("out0", C128)] /\
  call_outs fitted [fit_call refit_prog F64] (fit_call refit_prog F32) = [("out0", F32)].
Proof. repeat split; vm_compute; reflexivity. Qed.

(* store-then-read: after ANY history of calls on the same object (any programs, any dtypes, any sweep counts) the fit returns exactly the data's dtype *)
Theorem refit_history_independent h t n : In t ctxs -> call_outs fitted h (mkcall (mkenv t t) refit_prog n) = [("out0", t)].
Proof.
  intros Ht. rewrite history_independent; [|reflexivity].
  destruct Ht as [ <- | [ <- | [ <- | [ <- | [] ] ] ] ]; unfold isolated_outs, out_dtypes, run; simpl; (rewrite iter_id; [|intros; reflexivity]); reflexivity.
Qed.
Theorem cast_warm_refit_history_independent h t n : In t ctxs -> call_outs fitted h (mkcall (mkenv t t) cast_warm_refit_prog n) = [("out0", t)].
Proof.
  intros Ht. rewrite history_independent; [|reflexivity].
  destruct Ht as [ <- | [ <- | [ <- | [ <- | [] ] ] ] ]; unfold isolated_outs, out_dtypes, run; simpl; (rewrite iter_id; [|intros; reflexivity]); reflexivity.
Qed.

(* the warm start: what the object remembers after any history of warm-started fits is the promotion of every dtype it was ever fitted with *)
Definition fl (a : dt) : Prop := a = B \/ a = F32 \/ a = F64.
Lemma warm_step (a t : dt) : fl a -> (t = F32 \/ t = F64) -> promote (promote a (promote t WF)) t = promote a t /\ fl (promote a t).
Proof. unfold fl. intros [ -> | [ -> | -> ] ] [ -> | -> ]; simpl; tauto. Qed.
Lemma warm_store ts : (forall t, In t ts -> t = F32 \/ t = F64) -> forall st, fl (st vD) ->
  session fitted st (map (fit_call warm_refit_prog) ts) vD = fold_left promote ts (st vD).
Proof.
  induction ts as [|t r IH]; intros Hts st Hst; simpl; [reflexivity|].
  assert (Ht : t = F32 \/ t = F64) by (apply Hts; left; reflexivity).
  destruct (warm_step (st vD) t Hst Ht) as [E F].
  rewrite IH.
  - f_equal. unfold carry, run_from, fit_call. cbn. unfold upd. cbn. exact E.
  - intros u Hu. apply Hts. right. exact Hu.
  - unfold carry, run_from, fit_call. cbn. unfold upd. cbn. rewrite E. exact F.
Qed.
(* ONE double-precision fit anywhere in the life of the object is enough: every later single-precision fit of the SAME object returns float64, although
   the same fit of a fresh object returns float32 (induction over the history of fits) *)
Theorem warm_refit_widens ts : (forall t, In t ts -> t = F32 \/ t = F64) -> In F64 ts ->
  call_outs fitted (map (fit_call warm_refit_prog) ts) (fit_call warm_refit_prog F32) = [("out0", F64)] /\
  isolated_outs (fit_call warm_refit_prog F32) = [("out0", F32)].
Proof.
  intros Hts Hin. split; [|reflexivity].
  assert (HS : session fitted st0 (map (fit_call warm_refit_prog) ts) vD = F64).
  { rewrite (warm_store ts Hts st0); [|left; reflexivity]. apply (fold_promote_sticky ts Hts (st0 vD)); [left; reflexivity | right; exact Hin]. }
  unfold call_outs, call_state. set (S := session fitted st0 (map (fit_call warm_refit_prog) ts)) in *.
  cbn. unfold upd. cbn. rewrite HS. reflexivity.
Qed.
