(* C18 -- lemmas about Model/Dtype.v *)
From Coq Require Import List Bool Arith String Lia.
From TLV Require Import Model.Dtype.
Import ListNotations.

Definition forall2 (P : dt -> dt -> bool) := forallb (fun a => forallb (P a) all_dt) all_dt.

Lemma In_all_dt x : In x all_dt. Proof. destruct x; simpl; tauto. Qed.
Lemma dt_eqb_eq a b : dt_eqb a b = true -> a = b. Proof. destruct a, b; simpl; congruence. Qed.
Lemma dt_eqb_refl a : dt_eqb a a = true. Proof. destruct a; reflexivity. Qed.

Lemma forall2_spec P : forall2 P = true -> forall x y, P x y = true.
Proof.
  unfold forall2. intros H x y. rewrite forallb_forall in H. specialize (H x (In_all_dt x)).
  rewrite forallb_forall in H. exact (H y (In_all_dt y)).
Qed.

(* ---- the table *)
Lemma promote_comm_b : forall2 (fun a b => dt_eqb (promote a b) (promote b a)) = true.
Proof. vm_compute. reflexivity. Qed.
Lemma promote_comm a b : promote a b = promote b a.
Proof. apply dt_eqb_eq. exact (forall2_spec _ promote_comm_b a b). Qed.
Lemma promote_idem a : promote a a = a. Proof. destruct a; reflexivity. Qed.
Lemma promote_not_assoc : promote (promote B WF) F32 <> promote B (promote WF F32).
Proof. discriminate. Qed.
(* associativity does hold on the strong dtypes alone: the failure needs a weak scalar *)
Lemma promote_assoc_strong a b c : is_weak a = false -> is_weak b = false -> is_weak c = false ->
  promote (promote a b) c = promote a (promote b c).
Proof. destruct a, b, c; simpl; intros; try reflexivity; discriminate. Qed.

(* ---- closure of S_tau *)
Lemma S_closed_b : forallb (fun t => forall2 (fun x y => implb (inS t x && inS t y)
      (inS t (promote x y) && implb (dt_eqb x t || dt_eqb y t) (dt_eqb (promote x y) t)))) ctxs = true.
Proof. vm_compute. reflexivity. Qed.

Lemma S_closed t x y : In t ctxs -> inS t x = true -> inS t y = true ->
  inS t (promote x y) = true /\ (dt_eqb x t || dt_eqb y t = true -> promote x y = t).
Proof.
  intros Ht Hx Hy. pose proof S_closed_b as H. rewrite forallb_forall in H. specialize (H t Ht).
  pose proof (forall2_spec _ H x y) as H'. cbv beta in H'. rewrite Hx, Hy in H'. simpl in H'.
  apply andb_prop in H'. destruct H' as [H1 H2]. split; [exact H1|].
  intros Hs. rewrite Hs in H2. simpl in H2. apply dt_eqb_eq; exact H2.
Qed.

Lemma S_to_float t x : In t ctxs -> inS t x = true -> inS t (to_float x) = true /\ (x = t -> to_float x = t).
Proof.
  intros Ht Hx. simpl in Ht. destruct Ht as [<-|[<-|[<-|[<-|[]]]]]; destruct x; simpl in *; try discriminate;
  (split; [reflexivity | intros E; try reflexivity; try discriminate E]).
Qed.
Lemma S_real_of t x : is_real t = true -> inS t x = true -> real_of x = x.
Proof. destruct t; simpl; try discriminate; destruct x; simpl; intros; try discriminate; auto. Qed.

(* context preservation for every expression (variables read through an arbitrary state) over S_tau *)
Theorem ctx_preserved_expr en st t e : In t ctxs -> leaves_in en st t e = true ->
  inS t (eval en st e) = true /\ (has_strong en st t e = true -> eval en st e = t).
Proof.
  intros Ht. induction e as [l|x|a IHa b IHb|a IHa b IHb|a IHa|a IHa|a IHa b IHb|tg IHt v IHv]; simpl; intros Hl.
  - split; [exact Hl | apply dt_eqb_eq].
  - split; [exact Hl | apply dt_eqb_eq].
  - apply andb_prop in Hl. destruct Hl as [La Lb]. destruct (IHa La) as [Sa Ta]. destruct (IHb Lb) as [Sb Tb].
    destruct (S_closed t _ _ Ht Sa Sb) as [Sab Tab]. split; [exact Sab|].
    intros Hs. apply Tab. apply orb_prop in Hs. apply orb_true_intro. destruct Hs as [Hs|Hs].
    + left. rewrite (Ta Hs). apply dt_eqb_refl.
    + right. rewrite (Tb Hs). apply dt_eqb_refl.
  - apply andb_prop in Hl. destruct Hl as [La Lb]. destruct (IHa La) as [Sa Ta]. destruct (IHb Lb) as [Sb Tb].
    destruct (S_closed t _ _ Ht Sa Sb) as [Sab Tab]. destruct (S_to_float t _ Ht Sab) as [Sf Tf]. split; [exact Sf|].
    intros Hs. apply Tf. apply Tab. apply orb_prop in Hs. apply orb_true_intro. destruct Hs as [Hs|Hs].
    + left. rewrite (Ta Hs). apply dt_eqb_refl.
    + right. rewrite (Tb Hs). apply dt_eqb_refl.
  - destruct (IHa Hl) as [Sa Ta]. destruct (S_to_float t _ Ht Sa) as [Sf Tf]. split; [exact Sf|]. intros Hs. apply Tf, Ta, Hs.
  - apply andb_prop in Hl. destruct Hl as [Hr La]. destruct (IHa La) as [Sa Ta].
    rewrite (S_real_of t _ Hr Sa). split; [exact Sa | exact Ta].
  - apply andb_prop in Hl. destruct Hl as [La Lb]. destruct (IHa La) as [Sa Ta]. destruct (IHb Lb) as [Sb Tb].
    destruct (S_closed t _ _ Ht Sa Sb) as [Sab Tab]. split; [exact Sab|].
    intros Hs. apply Tab. apply orb_prop in Hs. apply orb_true_intro. destruct Hs as [Hs|Hs].
    + left. rewrite (Ta Hs). apply dt_eqb_refl.
    + right. rewrite (Tb Hs). apply dt_eqb_refl.
  - exact (IHt Hl).
Qed.

(* ---- S_tau cannot be enlarged in single precision: EVERY dtype outside the precision class of a single-precision
   context can push a value out of the class by at most two promotions with members of S_tau.  (In double precision
   bool / int64 / float32 operands are absorbed, only complex operands leave a real context.) *)
Definition singles := [F32; C64].
Definition escapes (t x : dt) : bool :=
  existsb (fun y => existsb (fun z => inS t y && inS t z && negb (inP t (promote (promote x y) z))) all_dt) all_dt.
Lemma S_maximal_single_b : forallb (fun t => forallb (fun x => implb (negb (inP t x)) (escapes t x)) all_dt) singles = true.
Proof. vm_compute. reflexivity. Qed.
Theorem S_maximal_single t x : In t singles -> inP t x = false ->
  exists y z, inS t y = true /\ inS t z = true /\ inP t (promote (promote x y) z) = false.
Proof.
  intros Ht Hx. pose proof S_maximal_single_b as H. rewrite forallb_forall in H. specialize (H t Ht).
  rewrite forallb_forall in H. specialize (H x (In_all_dt x)). rewrite Hx in H. simpl in H.
  unfold escapes in H. apply existsb_exists in H. destruct H as [y [_ H]].
  apply existsb_exists in H. destruct H as [z [_ H]].
  apply andb_prop in H. destruct H as [H Hn]. apply andb_prop in H. destruct H as [Hy Hz].
  exists y, z. repeat split; try assumption. apply negb_true_iff in Hn. exact Hn.
Qed.
(* in double precision the real dtypes below tau are absorbed *)
Lemma double_absorbs x : In x [B; I64; F32; F64; WI; WF] -> promote x F64 = F64 /\ promote F64 x = F64.
Proof. simpl. intros [<-|[<-|[<-|[<-|[<-|[<-|[]]]]]]]; split; reflexivity. Qed.

(* ---- closure of the precision class P_tau *)
Lemma P_closed_b : forallb (fun t => forall2 (fun x y => implb (inP t x && inP t y)
      (inP t (promote x y) && implb (strongP t x || strongP t y) (strongP t (promote x y))))) ctxs = true.
Proof. vm_compute. reflexivity. Qed.
Lemma P_unary_b : forallb (fun t => forallb (fun x => implb (inP t x)
      (inP t (to_float x) && inP t (real_of x) && implb (strongP t x) (strongP t (to_float x) && strongP t (real_of x)))) all_dt) ctxs = true.
Proof. vm_compute. reflexivity. Qed.

Lemma P_closed t x y : In t ctxs -> inP t x = true -> inP t y = true ->
  inP t (promote x y) = true /\ (strongP t x || strongP t y = true -> strongP t (promote x y) = true).
Proof.
  intros Ht Hx Hy. pose proof P_closed_b as H. rewrite forallb_forall in H. specialize (H t Ht).
  pose proof (forall2_spec _ H x y) as H'. cbv beta in H'. rewrite Hx, Hy in H'. simpl in H'.
  apply andb_prop in H'. destruct H' as [H1 H2]. split; [exact H1|]. intros Hs. rewrite Hs in H2. exact H2.
Qed.
Lemma P_unary t x : In t ctxs -> inP t x = true ->
  inP t (to_float x) = true /\ inP t (real_of x) = true /\
  (strongP t x = true -> strongP t (to_float x) = true /\ strongP t (real_of x) = true).
Proof.
  intros Ht Hx. pose proof P_unary_b as H. rewrite forallb_forall in H. specialize (H t Ht).
  rewrite forallb_forall in H. specialize (H x (In_all_dt x)). rewrite Hx in H. simpl in H.
  apply andb_prop in H. destruct H as [H12 H3]. apply andb_prop in H12. destruct H12 as [H1 H2].
  repeat split; auto; rewrite H in H3; simpl in H3; apply andb_prop in H3; tauto.
Qed.
Lemma strongP_real t x : is_real t = true -> strongP t x = true -> x = t.
Proof. destruct t; simpl; try discriminate; intros _ H; apply orb_prop in H; destruct H as [H|H]; apply dt_eqb_eq in H; exact H. Qed.

(* ---- soundness of the syntactic program check *)
Definition Inv (t : dt) (D S : list nat) (st : state) : Prop :=
  (forall x, memb x D = true -> inP t (st x) = true) /\ (forall x, memb x S = true -> strongP t (st x) = true).

Lemma expr_sound en st D S e : In (tau en) ctxs -> Inv (tau en) D S st -> ok_expr en D e = true ->
  inP (tau en) (eval en st e) = true /\ (strong_expr en S e = true -> strongP (tau en) (eval en st e) = true).
Proof.
  intros Ht [HD HS]. induction e as [l|x|a IHa b IHb|a IHa b IHb|a IHa|a IHa|a IHa b IHb|tg IHt v IHv]; simpl; intros Hok.
  - split; [exact Hok | auto].
  - split; [apply HD, Hok | apply HS].
  - apply andb_prop in Hok. destruct Hok as [Oa Ob]. destruct (IHa Oa) as [Pa Sa]. destruct (IHb Ob) as [Pb Sb].
    destruct (P_closed _ _ _ Ht Pa Pb) as [Pab Sab]. split; [exact Pab|]. intros Hs. apply Sab.
    apply orb_prop in Hs. apply orb_true_intro. destruct Hs as [Hs|Hs]; [left; apply Sa, Hs | right; apply Sb, Hs].
  - apply andb_prop in Hok. destruct Hok as [Oa Ob]. destruct (IHa Oa) as [Pa Sa]. destruct (IHb Ob) as [Pb Sb].
    destruct (P_closed _ _ _ Ht Pa Pb) as [Pab Sab]. destruct (P_unary _ _ Ht Pab) as [Pf [_ Sf]]. split; [exact Pf|].
    intros Hs. apply Sf. apply Sab. apply orb_prop in Hs. apply orb_true_intro.
    destruct Hs as [Hs|Hs]; [left; apply Sa, Hs | right; apply Sb, Hs].
  - destruct (IHa Hok) as [Pa Sa]. destruct (P_unary _ _ Ht Pa) as [Pf [_ Sf]]. split; [exact Pf|]. intros Hs. apply Sf, Sa, Hs.
  - destruct (IHa Hok) as [Pa Sa]. destruct (P_unary _ _ Ht Pa) as [_ [Pr Sf]]. split; [exact Pr|]. intros Hs. apply Sf, Sa, Hs.
  - apply andb_prop in Hok. destruct Hok as [Oa Ob]. destruct (IHa Oa) as [Pa Sa]. destruct (IHb Ob) as [Pb Sb].
    destruct (P_closed _ _ _ Ht Pa Pb) as [Pab Sab]. split; [exact Pab|]. intros Hs. apply Sab.
    apply orb_prop in Hs. apply orb_true_intro. destruct Hs as [Hs|Hs]; [left; apply Sa, Hs | right; apply Sb, Hs].
  - exact (IHt Hok).
Qed.

Lemma memb_removeb x y l : memb y (removeb x l) = true -> y <> x /\ memb y l = true.
Proof.
  induction l as [|z l IH]; simpl; [discriminate|]. destruct (Nat.eqb z x) eqn:E; simpl.
  - intros H. destruct (IH H) as [H1 H2]. split; [exact H1|]. rewrite H2. apply orb_true_r.
  - intros H. apply orb_prop in H. destruct H as [H|H].
    + apply Nat.eqb_eq in H. subst z. split; [intro; subst; rewrite Nat.eqb_refl in E; discriminate|].
      rewrite Nat.eqb_refl. reflexivity.
    + destruct (IH H) as [H1 H2]. split; [exact H1|]. rewrite H2. apply orb_true_r.
Qed.

Lemma block_sound en b : In (tau en) ctxs -> forall D S st D' S', Inv (tau en) D S st ->
  ok_block en D S b = Some (D', S') -> Inv (tau en) D' S' (exec en st b).
Proof.
  intros Ht. induction b as [|[x e] r IH]; simpl; intros D S st D' S' HI Hok.
  - injection Hok as <- <-. exact HI.
  - unfold exec. simpl. fold (exec en (upd st x (eval en st e)) r).
    destruct (ok_expr en D e) eqn:Oe; [|discriminate].
    destruct (expr_sound en st D S e Ht HI Oe) as [Pe Se].
    eapply IH; [|exact Hok]. destruct HI as [HD HS]. split.
    + intros y Hy. simpl in Hy. unfold upd. destruct (Nat.eqb y x) eqn:E; [exact Pe|]. simpl in Hy. apply HD, Hy.
    + intros y Hy. unfold upd. destruct (strong_expr en S e) eqn:Es.
      * simpl in Hy. destruct (Nat.eqb y x) eqn:E; [apply Se; reflexivity|]. simpl in Hy. apply HS, Hy.
      * apply memb_removeb in Hy. destruct Hy as [Hne Hy]. destruct (Nat.eqb y x) eqn:E.
        { apply Nat.eqb_eq in E. contradiction. } apply HS, Hy.
Qed.

Lemma subsetb_spec a b : subsetb a b = true -> forall x, memb x a = true -> memb x b = true.
Proof.
  unfold subsetb. intros H x Hx. rewrite forallb_forall in H. induction a as [|y a IH]; simpl in *; [discriminate|].
  apply orb_prop in Hx. destruct Hx as [Hx|Hx].
  - apply Nat.eqb_eq in Hx. subst. apply H. left. reflexivity.
  - apply IH; [intros z Hz; apply H; right; exact Hz | exact Hx].
Qed.

Lemma Inv_st0 t : Inv t [] [] st0. Proof. split; intros x H; discriminate. Qed.

Lemma iter_inv {A} (P : A -> Prop) (f : A -> A) : (forall x, P x -> P (f x)) -> forall n x, P x -> P (iter n f x).
Proof. intros Hf. induction n as [|n IH]; simpl; intros x Hx; [exact Hx | apply IH, Hf, Hx]. Qed.

(* every output of a checked program has the input's precision, after ANY number of sweeps *)
Theorem prog_precision_preserved en p : In (tau en) ctxs -> prog_ok en p = true ->
  forall n s e, In (s, e) (p_outs p) -> strongP (tau en) (eval en (run en p n) e) = true.
Proof.
  intros Ht Hok n s e Hin. unfold prog_ok in Hok.
  destruct (ok_block en [] [] (p_init p)) as [[D1 S1]|] eqn:E1; [|discriminate].
  destruct (ok_block en D1 S1 (p_body p)) as [[D2 S2]|] eqn:E2; [|discriminate].
  apply andb_prop in Hok. destruct Hok as [Hsub Houts]. apply andb_prop in Hsub. destruct Hsub as [HsD HsS].
  assert (I1 : Inv (tau en) D1 S1 (exec en st0 (p_init p))) by (eapply block_sound; [exact Ht | apply Inv_st0 | exact E1]).
  assert (In_ : Inv (tau en) D1 S1 (run en p n)).
  { unfold run. apply iter_inv; [|exact I1]. intros st HI.
    destruct (block_sound en (p_body p) Ht D1 S1 st D2 S2 HI E2) as [HD HS]. split.
    - intros x Hx. apply HD. eapply subsetb_spec; eauto.
    - intros x Hx. apply HS. eapply subsetb_spec; eauto. }
  rewrite forallb_forall in Houts. specialize (Houts (s, e) Hin). simpl in Houts. apply andb_prop in Houts.
  destruct Houts as [Oe Se]. destruct (expr_sound en (run en p n) D1 S1 e Ht In_ Oe) as [_ H]. apply H, Se.
Qed.

Corollary prog_context_preserved en p : is_real (tau en) = true -> prog_ok en p = true ->
  forall n s e, In (s, e) (p_outs p) -> eval en (run en p n) e = tau en.
Proof.
  intros Hr Hok n s e Hin. apply (strongP_real _ _ Hr). eapply prog_precision_preserved; eauto.
  destruct (tau en); simpl in *; try discriminate; tauto.
Qed.

(* ---- a mask that is cast into the data's context before any arithmetic cannot influence any dtype *)
Lemma eval_mask_irrelevant t m m' st e : mask_guarded e = true -> eval (mkenv t m) st e = eval (mkenv t m') st e.
Proof.
  induction e as [l|x|a IHa b IHb|a IHa b IHb|a IHa|a IHa|a IHa b IHb|tg IHt v IHv]; simpl; intros H.
  - destruct l; try reflexivity; discriminate.
  - reflexivity.
  - apply andb_prop in H. destruct H as [Ha Hb]. rewrite (IHa Ha), (IHb Hb). reflexivity.
  - apply andb_prop in H. destruct H as [Ha Hb]. rewrite (IHa Ha), (IHb Hb). reflexivity.
  - rewrite (IHa H). reflexivity.
  - rewrite (IHa H). reflexivity.
  - apply andb_prop in H. destruct H as [Ha Hb]. rewrite (IHa Ha), (IHb Hb). reflexivity.
  - exact (IHt H).
Qed.
Lemma exec_mask_irrelevant t m m' b : block_guarded b = true -> forall st, exec (mkenv t m) st b = exec (mkenv t m') st b.
Proof.
  induction b as [|[x e] r IH]; intros H st; [reflexivity|].
  unfold block_guarded in H. simpl in H. apply andb_prop in H. destruct H as [He Hr].
  unfold exec. simpl. fold (exec (mkenv t m) (upd st x (eval (mkenv t m) st e)) r).
  fold (exec (mkenv t m') (upd st x (eval (mkenv t m') st e)) r).
  rewrite (eval_mask_irrelevant t m m' st e He). apply IH. exact Hr.
Qed.
Lemma iter_ext {A} (f g : A -> A) : (forall x, f x = g x) -> forall n x, iter n f x = iter n g x.
Proof. intros H. induction n as [|n IH]; simpl; intros x; [reflexivity | rewrite H; apply IH]. Qed.
Lemma run_mask_irrelevant t m m' p n : prog_guarded p = true -> run (mkenv t m) p n = run (mkenv t m') p n.
Proof.
  unfold prog_guarded. intros H. apply andb_prop in H. destruct H as [H Ho]. apply andb_prop in H. destruct H as [Hi Hb].
  unfold run. rewrite (exec_mask_irrelevant t m m' _ Hi st0).
  apply iter_ext. intros st. apply exec_mask_irrelevant. exact Hb.
Qed.
Theorem guarded_mask_irrelevant t m m' p n : prog_guarded p = true ->
  out_dtypes (mkenv t m) p n = out_dtypes (mkenv t m') p n.
Proof.
  intros H. unfold out_dtypes. rewrite (run_mask_irrelevant t m m' p n H).
  unfold prog_guarded in H. apply andb_prop in H. destruct H as [_ Ho]. rewrite forallb_forall in Ho.
  apply map_ext_in. intros o Hin. rewrite (eval_mask_irrelevant t m m' _ _ (Ho o Hin)). reflexivity.
Qed.

(* ---- the modelled entry points *)
Definition inits := [ISvd; IRandom; IUser].
Definition proxes := [PNone; PNonneg; PL1; PL2; PL2sq; PUnimodal; PNormalize; PSimplex; PNormSparse; PSoftSparse;
                      PSmooth; PMonotone; PHardSparse; PSvt; PProcrustes].
Definition bools2 := [false; true].
Definition families := [FParafac; FNNParafac; FNNParafacHals; FConstrained; FTucker; FPartialTucker; FNNTucker; FNNTuckerHals;
   FRobustPca; FProx; FHalsNnls; FFista; FActiveSet; FAdmm; FSvd; FCpNormalize; FPure; FRandom; FSampleKR; FIndexed; FPermute; FFlipSign;
   FRandParafac; FParafac2; FSvdChain; FTrAls; FTrAlsSampled; FTTCross; FCmtf; FPower; FCpReg; FTuckerReg; FPlsr; FMoment; FMetric; FCompress;
   FMaskMulCast].
(* Which options a family's skeleton looks at.  norm_cfg clears every option the family ignores; skeleton_norm proves (by
   computation, family by family, with the option values left symbolic) that the skeleton does not change - so the option space
   that has to be enumerated is the normalised one, and the theorems below hold for EVERY cfg of every listed family. *)
Definition uses_prox (f : family) : bool := match f with FProx | FAdmm | FConstrained => true | _ => false end.
Definition rel_init (f : family) : bool := match f with FParafac | FNNParafac | FNNParafacHals | FConstrained | FTucker | FPartialTucker
  | FNNTucker | FNNTuckerHals | FRandParafac | FParafac2 | FCmtf => true | _ => false end.
Definition rel_mask (f : family) : bool := match f with FParafac | FNNParafac | FNNParafacHals | FTucker | FPartialTucker | FNNTucker
  | FNNTuckerHals | FRobustPca | FSvd | FMaskMul | FMaskMulCast => true | _ => false end.
Definition rel_errors (f : family) : bool := match f with FParafac | FNNParafac | FNNParafacHals | FConstrained | FTucker | FPartialTucker
  | FNNTucker | FNNTuckerHals | FRandParafac | FParafac2 => true | _ => false end.
Definition rel_normalize (f : family) : bool := match f with FParafac | FNNParafac | FNNParafacHals | FNNTuckerHals | FParafac2 | FRandom | FCmtf => true | _ => false end.
Definition rel_ls (f : family) : bool := match f with FParafac | FParafac2 => true | _ => false end.
Definition rel_sp (f : family) : bool := match f with FParafac => true | _ => false end.
Definition rel_l2 (f : family) : bool := match f with FParafac => true | _ => false end.
Definition rel_warm (f : family) : bool := match f with FHalsNnls | FFista | FActiveSet | FRandom => true | _ => false end.
Definition rel_fb (f : family) : bool := match f with FActiveSet => true | _ => false end.
Definition rel_alt (f : family) : bool := match f with FNNTuckerHals | FSvd | FParafac2 | FRandom | FMaskMul | FMaskMulCast | FTrAlsSampled | FCpReg | FTuckerReg => true | _ => false end.

Definition norm_cfg (c : cfg) : cfg :=
  let f := c_fam c in
  mkcfg f (if rel_init f then c_init c else IRandom) (rel_mask f && c_mask c) (rel_errors f && c_errors c)
        (rel_normalize f && c_normalize c) (rel_ls f && c_linesearch c) (rel_sp f && c_sparsity c) (rel_l2 f && c_l2reg c)
        (if uses_prox f then c_prox c else PNone) (rel_warm f && c_warm c) (rel_fb f && c_fallback c) (rel_alt f && c_alt c).

Lemma skeleton_v_norm mc c : skeleton_v mc c = skeleton_v mc (norm_cfg c).
Proof. destruct c as [f i m er nz ls sp l2 k w fb alt]. destruct f; reflexivity. Qed.
Lemma skeleton_norm c : skeleton c = skeleton (norm_cfg c).
Proof. apply skeleton_v_norm. Qed.

Definition optb (r : bool) : list bool := if r then bools2 else [false].
Definition all_cfgs : list cfg :=
  flat_map (fun f => flat_map (fun i => flat_map (fun k =>
  flat_map (fun m => flat_map (fun er => flat_map (fun nz => flat_map (fun ls => flat_map (fun sp =>
  flat_map (fun l2 => flat_map (fun w => flat_map (fun fb => map (fun alt =>
     mkcfg f i m er nz ls sp l2 k w fb alt) (optb (rel_alt f))) (optb (rel_fb f))) (optb (rel_warm f))) (optb (rel_l2 f))) (optb (rel_sp f)))
     (optb (rel_ls f))) (optb (rel_normalize f))) (optb (rel_errors f))) (optb (rel_mask f)))
  (if uses_prox f then proxes else [PNone])) (if rel_init f then inits else [IRandom])) families.
Lemma In_bools2 b : In b bools2. Proof. destruct b; simpl; tauto. Qed.
Lemma In_optb r b : In (r && b) (optb r). Proof. destruct r, b; simpl; tauto. Qed.
Lemma In_inits i : In i inits. Proof. destruct i; simpl; tauto. Qed.
Lemma In_proxes k : In k proxes. Proof. destruct k; simpl; tauto. Qed.
Lemma In_init_opt (r : bool) i : In (if r then i else IRandom) (if r then inits else [IRandom]).
Proof. destruct r; [apply In_inits | simpl; tauto]. Qed.
Lemma In_prox_opt (r : bool) k : In (if r then k else PNone) (if r then proxes else [PNone]).
Proof. destruct r; [apply In_proxes | simpl; tauto]. Qed.
(* every configuration of a listed family: all families except the documented float64 one (FLeverage) and the plain mask
   multipliers as they were before the repair ba7a532 (FMaskMul, characterised exactly by mask_mul_is_promotion below; the code now,
   FMaskMulCast, is listed) *)
Definition valid_cfg (c : cfg) : Prop := In (c_fam c) families.
Lemma valid_cfg_iff c : valid_cfg c <-> (c_fam c <> FLeverage /\ c_fam c <> FMaskMul).
Proof.
  unfold valid_cfg. split.
  - intros H. split; intros E; rewrite E in H; simpl in H; repeat (destruct H as [H|H]; [discriminate H|]); exact H.
  - intros [H1 H2]. destruct (c_fam c); simpl; try tauto; exfalso; first [apply H1; reflexivity | apply H2; reflexivity].
Qed.
Lemma all_cfgs_complete c : valid_cfg c -> In (norm_cfg c) all_cfgs.
Proof.
  destruct c as [f i m er nz ls sp l2 k w fb alt]. unfold valid_cfg, norm_cfg. cbn [c_fam c_init c_mask c_errors c_normalize c_linesearch c_sparsity c_l2reg c_prox c_warm c_fallback c_alt].
  intros Hf. unfold all_cfgs.
  apply in_flat_map. exists f. split; [exact Hf|].
  apply in_flat_map. eexists. split; [apply In_init_opt|].
  apply in_flat_map. eexists. split; [apply In_prox_opt|].
  apply in_flat_map. eexists. split; [apply In_optb|].
  apply in_flat_map. eexists. split; [apply In_optb|].
  apply in_flat_map. eexists. split; [apply In_optb|].
  apply in_flat_map. eexists. split; [apply In_optb|].
  apply in_flat_map. eexists. split; [apply In_optb|].
  apply in_flat_map. eexists. split; [apply In_optb|].
  apply in_flat_map. eexists. split; [apply In_optb|].
  apply in_flat_map. eexists. split; [apply In_optb|].
  apply in_map. apply In_optb.
Qed.

(* real outputs only: strip integer index outputs *)
Definition float_outs (p : prog) : prog := mkprog (p_init p) (p_body p) (filter float_out (p_outs p)).

(* a mask in the data's dtype (or no mask): every normalised configuration of every family passes the check, in all four contexts *)
Lemma all_skeletons_ok_b :
  forallb (fun t => forallb (fun c => prog_ok (mkenv t t) (float_outs (skeleton c))) all_cfgs) ctxs = true.
Proof. vm_compute. reflexivity. Qed.

Lemma float_outs_In s e p : In (s, e) (p_outs p) -> float_out (s, e) = true -> In (s, e) (p_outs (float_outs p)).
Proof. intros H1 H2. unfold float_outs. simpl. apply filter_In. split; assumption. Qed.

Lemma run_float_outs en p n : run en (float_outs p) n = run en p n. Proof. reflexivity. Qed.

Theorem skeletons_preserve_precision t c n s e :
  In t ctxs -> valid_cfg c -> In (s, e) (p_outs (skeleton c)) -> float_out (s, e) = true ->
  strongP t (eval (mkenv t t) (run (mkenv t t) (skeleton c) n) e) = true.
Proof.
  intros Ht Hc Hin Hf. apply all_cfgs_complete in Hc. rewrite skeleton_norm in Hin |- *.
  pose proof all_skeletons_ok_b as H. rewrite forallb_forall in H. specialize (H t Ht).
  rewrite forallb_forall in H. specialize (H _ Hc).
  rewrite <- run_float_outs. apply (prog_precision_preserved (mkenv t t) (float_outs (skeleton (norm_cfg c))) Ht H n s e).
  apply float_outs_In; assumption.
Qed.

(* ---- every skeleton of the current code is mask-guarded, hence clean for EVERY mask dtype *)
Lemma skeletons_guarded_b : forallb (fun c => prog_guarded (skeleton c)) all_cfgs = true.
Proof. vm_compute. reflexivity. Qed.
Lemma skeleton_guarded c : valid_cfg c -> prog_guarded (skeleton c) = true.
Proof.
  intros Hc. rewrite skeleton_norm. pose proof skeletons_guarded_b as G. rewrite forallb_forall in G.
  exact (G _ (all_cfgs_complete c Hc)).
Qed.

Theorem skeletons_any_mask t m c n s e :
  In t ctxs -> valid_cfg c -> In (s, e) (p_outs (skeleton c)) -> float_out (s, e) = true ->
  strongP t (eval (mkenv t m) (run (mkenv t m) (skeleton c) n) e) = true.
Proof.
  intros Ht Hc Hin Hf. pose proof (skeleton_guarded c Hc) as G.
  rewrite (run_mask_irrelevant t m t _ n G).
  assert (Ge : mask_guarded e = true).
  { unfold prog_guarded in G. apply andb_prop in G. destruct G as [_ Go]. rewrite forallb_forall in Go. exact (Go (s, e) Hin). }
  rewrite (eval_mask_irrelevant t m t _ e Ge).
  exact (skeletons_preserve_precision t c n s e Ht Hc Hin Hf).
Qed.

Corollary skeletons_preserve_context t m c n s e :
  is_real t = true -> valid_cfg c -> In (s, e) (p_outs (skeleton c)) -> float_out (s, e) = true ->
  eval (mkenv t m) (run (mkenv t m) (skeleton c) n) e = t.
Proof.
  intros Hr Hc Hin Hf. apply (strongP_real _ _ Hr). apply (skeletons_any_mask t m c n s e); auto.
  clear - Hr. destruct t; try discriminate Hr; simpl; tauto.
Qed.

(* ---- refutations: what breaks a float32 context *)
Definition cfg0 (f : family) := mkcfg f IRandom false false false false false false PNone false false false.
Definition with_mask (c : cfg) := mkcfg (c_fam c) (c_init c) true (c_errors c) (c_normalize c) (c_linesearch c) (c_sparsity c)
                                        (c_l2reg c) (c_prox c) (c_warm c) (c_fallback c) (c_alt c).
Definition out_of_prog (en : env) (p : prog) (n : nat) (s : string) : option dt :=
  match find (fun o => String.eqb (fst o) s) (out_dtypes en p n) with Some o => Some (snd o) | None => None end.
Definition out_of_v (mc : bool) (en : env) (c : cfg) (n : nat) (s : string) : option dt := out_of_prog en (skeleton_v mc c) n s.
Definition out_of (en : env) (c : cfg) (n : nat) (s : string) : option dt := out_of_prog en (skeleton c) n s.

(* without the cast (mc = false: the code before the repair 45ef7df) a boolean / integer mask widens float32 data *)
Lemma parafac_bool_mask_before_45ef7df_refuted :
  exists n, out_of_v false (mkenv F32 B) (with_mask (cfg0 FParafac)) n "factors" = Some F64.
Proof. exists 2. vm_compute. reflexivity. Qed.
Lemma parafac_int_mask_before_45ef7df_refuted :
  exists n, out_of_v false (mkenv F32 I64) (with_mask (cfg0 FParafac)) n "factors" = Some F64.
Proof. exists 2. vm_compute. reflexivity. Qed.
Lemma tucker_bool_mask_before_45ef7df_refuted :
  exists n, out_of_v false (mkenv F32 B) (with_mask (cfg0 FTucker)) n "core" = Some F64.
Proof. exists 1. vm_compute. reflexivity. Qed.
Lemma nn_parafac_bool_mask_before_45ef7df_refuted :
  exists n, out_of_v false (mkenv F32 B) (with_mask (cfg0 FNNParafac)) n "factors" = Some F64.
Proof. exists 2. vm_compute. reflexivity. Qed.
Lemma svd_bool_mask_before_45ef7df_refuted :
  exists n, out_of_v false (mkenv F32 B) (with_mask (cfg0 FSvd)) n "out0" = Some F64.
Proof. exists 0. vm_compute. reflexivity. Qed.
(* ... while robust_pca has always cast its mask into the data's context and is clean for EVERY mask dtype, in both variants *)
Lemma robust_pca_any_mask_b :
  forallb (fun mc => forallb (fun t => forallb (fun m => prog_ok (mkenv t m) (skeleton_v mc (with_mask (cfg0 FRobustPca)))) all_dt) ctxs) bools2 = true.
Proof. vm_compute. reflexivity. Qed.
Lemma robust_pca_any_mask mc t m n s e : In t ctxs -> In (s, e) (p_outs (skeleton_v mc (with_mask (cfg0 FRobustPca)))) ->
  strongP t (eval (mkenv t m) (run (mkenv t m) (skeleton_v mc (with_mask (cfg0 FRobustPca))) n) e) = true.
Proof.
  intros Ht Hin. pose proof robust_pca_any_mask_b as H. rewrite forallb_forall in H. specialize (H mc (In_bools2 mc)).
  rewrite forallb_forall in H. specialize (H t Ht).
  rewrite forallb_forall in H. specialize (H m (In_all_dt m)).
  exact (prog_precision_preserved (mkenv t m) _ Ht H n s e Hin).
Qed.

(* the exception fallback of active_set_nnls before the repair c906acd (context-less restart vector) *)
Definition active_fallback := mkcfg FActiveSet IRandom false false false false false false PNone true true false.
Lemma active_set_fallback_before_fix_refuted :
  exists n, out_of_prog (mkenv F32 F32) (active_set_prog_before_c906acd active_fallback) n "out0" = Some F64.
Proof. exists 1. vm_compute. reflexivity. Qed.
Lemma active_set_fallback_now : forall n, out_of (mkenv F32 F32) active_fallback n "out0" = Some F32.
Proof.
  intros n.
  assert (H : eval (mkenv F32 F32) (run (mkenv F32 F32) (skeleton active_fallback) n) X_ = F32).
  { apply (skeletons_preserve_context F32 F32 active_fallback n "out0" X_); try reflexivity.
    - unfold valid_cfg. simpl. tauto.
    - simpl. tauto. }
  unfold out_of, out_of_prog, out_dtypes.
  change (p_outs (skeleton active_fallback)) with [("out0", X_)].
  cbn [map fst snd]. rewrite H. reflexivity.
Qed.

(* single offending leaves *)
Example f64_leaf_breaks_f32 : eval (mkenv F32 F32) st0 (Op In_ bare) = F64. Proof. reflexivity. Qed.
Example f64_scalar_breaks_f32 : eval (mkenv F32 F32) st0 (Op In_ (Op (Leaf (LConst F64)) PyF)) = F64. Proof. reflexivity. Qed.
Example bool_leaf_breaks_f32 : eval (mkenv F32 B) st0 (Op In_ (Op PyF Mask)) = F64. Proof. reflexivity. Qed.
Example int_leaf_breaks_f32 : eval (mkenv F32 I64) st0 (Op In_ Mask) = F64. Proof. reflexivity. Qed.
Example bool_leaf_alone_is_harmless : eval (mkenv F32 B) st0 (Op In_ Mask) = F32. Proof. reflexivity. Qed.
Example overwritten_bare_alloc_is_harmless : eval (mkenv F32 F32) st0 (Op In_ (Into In_ bare)) = F32. Proof. reflexivity. Qed.

(* ---- soundness of the tolerant check used for the programs extracted from the Python source *)
Lemma getb_nil x : getb [] x = false. Proof. destruct x; reflexivity. Qed.
Lemma getb_setb_same l x v : getb (setb l x v) x = v.
Proof. revert l. induction x as [|k IH]; intros [|b r]; simpl; auto. Qed.
Lemma getb_setb_other l x y v : y <> x -> getb (setb l x v) y = getb l y.
Proof.
  revert l y. induction x as [|k IH]; intros [|b r] [|j] H; simpl; try congruence; try reflexivity;
    try (rewrite IH by congruence); try rewrite !getb_nil; try reflexivity.
Qed.
Lemma subb_spec a : forall b, subb a b = true -> forall x, getb a x = true -> getb b x = true.
Proof.
  induction a as [|h r IH]; intros b H x Hx; [rewrite getb_nil in Hx; discriminate|].
  simpl in H. apply andb_prop in H. destruct H as [H0 Hr]. destruct x as [|k]; simpl in Hx.
  - subst h. simpl in H0. exact H0.
  - specialize (IH (tl b) Hr k Hx). destruct b as [|hb rb]; simpl in *; [try rewrite getb_nil in IH; discriminate IH | exact IH].
Qed.

Definition Inv2 (t : dt) (D S : list bool) (st : state) : Prop :=
  (forall x, getb D x = true -> inP t (st x) = true) /\ (forall x, getb S x = true -> strongP t (st x) = true).

Lemma expr2_sound en st D S e : In (tau en) ctxs -> Inv2 (tau en) D S st -> ok_expr2 en D e = true ->
  inP (tau en) (eval en st e) = true /\ (strong_expr2 en S e = true -> strongP (tau en) (eval en st e) = true).
Proof.
  intros Ht [HD HS]. induction e as [l|x|a IHa b IHb|a IHa b IHb|a IHa|a IHa|a IHa b IHb|tg IHt v IHv]; simpl; intros Hok.
  - split; [exact Hok | auto].
  - split; [apply HD, Hok | apply HS].
  - apply andb_prop in Hok. destruct Hok as [Oa Ob]. destruct (IHa Oa) as [Pa Sa]. destruct (IHb Ob) as [Pb Sb].
    destruct (P_closed _ _ _ Ht Pa Pb) as [Pab Sab]. split; [exact Pab|]. intros Hs. apply Sab.
    apply orb_prop in Hs. apply orb_true_intro. destruct Hs as [Hs|Hs]; [left; apply Sa, Hs | right; apply Sb, Hs].
  - apply andb_prop in Hok. destruct Hok as [Oa Ob]. destruct (IHa Oa) as [Pa Sa]. destruct (IHb Ob) as [Pb Sb].
    destruct (P_closed _ _ _ Ht Pa Pb) as [Pab Sab]. destruct (P_unary _ _ Ht Pab) as [Pf [_ Sf]]. split; [exact Pf|].
    intros Hs. apply Sf. apply Sab. apply orb_prop in Hs. apply orb_true_intro.
    destruct Hs as [Hs|Hs]; [left; apply Sa, Hs | right; apply Sb, Hs].
  - destruct (IHa Hok) as [Pa Sa]. destruct (P_unary _ _ Ht Pa) as [Pf [_ Sf]]. split; [exact Pf|]. intros Hs. apply Sf, Sa, Hs.
  - destruct (IHa Hok) as [Pa Sa]. destruct (P_unary _ _ Ht Pa) as [_ [Pr Sf]]. split; [exact Pr|]. intros Hs. apply Sf, Sa, Hs.
  - apply andb_prop in Hok. destruct Hok as [Oa Ob]. destruct (IHa Oa) as [Pa Sa]. destruct (IHb Ob) as [Pb Sb].
    destruct (P_closed _ _ _ Ht Pa Pb) as [Pab Sab]. split; [exact Pab|]. intros Hs. apply Sab.
    apply orb_prop in Hs. apply orb_true_intro. destruct Hs as [Hs|Hs]; [left; apply Sa, Hs | right; apply Sb, Hs].
  - exact (IHt Hok).
Qed.

Lemma block2_sound en b : In (tau en) ctxs -> forall D S st D' S', Inv2 (tau en) D S st ->
  ok_block2 en D S b = (D', S') -> Inv2 (tau en) D' S' (exec en st b).
Proof.
  intros Ht. induction b as [|[x e] r IH]; simpl; intros D S st D' S' HI Hok.
  - injection Hok as <- <-. exact HI.
  - unfold exec. simpl. fold (exec en (upd st x (eval en st e)) r).
    eapply IH; [|exact Hok]. pose proof HI as [HD HS]. split.
    + intros y Hy. unfold upd. destruct (Nat.eqb y x) eqn:E.
      * apply Nat.eqb_eq in E. subst y. rewrite getb_setb_same in Hy.
        destruct (expr2_sound en st D S e Ht HI Hy) as [Pe _]. exact Pe.
      * apply Nat.eqb_neq in E. rewrite getb_setb_other in Hy by exact E. apply HD, Hy.
    + intros y Hy. unfold upd. destruct (Nat.eqb y x) eqn:E.
      * apply Nat.eqb_eq in E. subst y. rewrite getb_setb_same in Hy. apply andb_prop in Hy. destruct Hy as [Oe Se].
        destruct (expr2_sound en st D S e Ht HI Oe) as [_ H]. apply H, Se.
      * apply Nat.eqb_neq in E. rewrite getb_setb_other in Hy by exact E. apply HS, Hy.
Qed.

Lemma Inv2_st0 t : Inv2 t [] [] st0.
Proof. split; intros x H; rewrite getb_nil in H; discriminate. Qed.

Theorem prog2_precision_preserved en p : In (tau en) ctxs -> prog_ok2 en p = true ->
  forall n s e, In (s, e) (p_outs p) -> strongP (tau en) (eval en (run en p n) e) = true.
Proof.
  intros Ht Hok n s e Hin. unfold prog_ok2 in Hok.
  destruct (ok_block2 en [] [] (p_init p)) as [D1 S1] eqn:E1.
  destruct (ok_block2 en D1 S1 (p_body p)) as [D2 S2] eqn:E2.
  apply andb_prop in Hok. destruct Hok as [Hsub Houts]. apply andb_prop in Hsub. destruct Hsub as [HsD HsS].
  assert (I1 : Inv2 (tau en) D1 S1 (exec en st0 (p_init p))) by (eapply block2_sound; [exact Ht | apply Inv2_st0 | exact E1]).
  assert (In_ : Inv2 (tau en) D1 S1 (run en p n)).
  { unfold run. apply iter_inv; [|exact I1]. intros st HI.
    destruct (block2_sound en (p_body p) Ht D1 S1 st D2 S2 HI E2) as [HD HS]. split.
    - intros x Hx. apply HD. eapply subb_spec; eauto.
    - intros x Hx. apply HS. eapply subb_spec; eauto. }
  rewrite forallb_forall in Houts. specialize (Houts (s, e) Hin). simpl in Houts. apply andb_prop in Houts.
  destruct Houts as [Oe Se]. destruct (expr2_sound en (run en p n) D1 S1 e Ht In_ Oe) as [_ H]. apply H, Se.
Qed.

Theorem ext_ok_any_sound p : ext_ok_any p = true -> forall t m, In t ctxs -> In m mask_dts ->
  forall n s e, In (s, e) (p_outs p) -> strongP t (eval (mkenv t m) (run (mkenv t m) p n) e) = true.
Proof.
  intros H t m Ht Hm. unfold ext_ok_any in H. rewrite forallb_forall in H. specialize (H t Ht).
  rewrite forallb_forall in H. specialize (H m Hm). exact (prog2_precision_preserved (mkenv t m) p Ht H).
Qed.
Theorem ext_ok_same_sound p : ext_ok_same p = true -> forall t, In t ctxs ->
  forall n s e, In (s, e) (p_outs p) -> strongP t (eval (mkenv t t) (run (mkenv t t) p n) e) = true.
Proof.
  intros H t Ht. unfold ext_ok_same in H. rewrite forallb_forall in H. specialize (H t Ht).
  exact (prog2_precision_preserved (mkenv t t) p Ht H).
Qed.
(* non-vacuity / sensitivity of the tolerant check on a three-statement program *)
Example prog_ok2_example :
  prog_ok2 (mkenv F32 B) (mkprog [(0, In_); (1, bools); (2, Op (Var 0) (Into (Var 0) bare))] [(0, Op (Var 0) PyF)] [("*", Var 2)]) = true /\
  prog_ok2 (mkenv F32 B) (mkprog [(0, In_); (2, Op (Var 0) bare)] [] [("*", Var 2)]) = false /\
  prog_ok2 (mkenv F32 B) (mkprog [(0, In_); (1, bools); (2, Op (Var 0) (Var 1))] [] [("*", Var 2)]) = false.
Proof. repeat split; reflexivity. Qed.

(* ---- complex stays complex: soundness of the exact-context check and its instances *)

Lemma P_exact_b : forallb (fun t => forall2 (fun x y => implb (inP t x && inP t y && (dt_eqb x t || dt_eqb y t))
      (dt_eqb (promote x y) t && dt_eqb (to_float (promote x y)) t))) ctxs = true.
Proof. vm_compute. reflexivity. Qed.
Lemma P_exact t x y : In t ctxs -> inP t x = true -> inP t y = true -> (x = t \/ y = t) ->
  promote x y = t /\ to_float (promote x y) = t.
Proof.
  intros Ht Hx Hy Hxy. pose proof P_exact_b as H. rewrite forallb_forall in H. specialize (H t Ht).
  pose proof (forall2_spec _ H x y) as H'. cbv beta in H'. rewrite Hx, Hy in H'. simpl in H'.
  assert (E : dt_eqb x t || dt_eqb y t = true).
  { destruct Hxy as [->| ->]; rewrite dt_eqb_refl; [reflexivity | apply orb_true_r]. }
  rewrite E in H'. simpl in H'. apply andb_prop in H'. destruct H' as [H1 H2]. split; apply dt_eqb_eq; assumption.
Qed.
Lemma to_float_ctx t : In t ctxs -> to_float t = t.
Proof. simpl. intros [<-|[<-|[<-|[<-|[]]]]]; reflexivity. Qed.

Definition InvX (t : dt) (D X : list nat) (st : state) : Prop :=
  (forall x, memb x D = true -> inP t (st x) = true) /\ (forall x, memb x X = true -> st x = t).

Lemma exprX_sound en st D X e : In (tau en) ctxs -> InvX (tau en) D X st -> ok_expr en D e = true ->
  inP (tau en) (eval en st e) = true /\ (exact_expr en X e = true -> eval en st e = tau en).
Proof.
  intros Ht [HD HX]. induction e as [l|x|a IHa b IHb|a IHa b IHb|a IHa|a IHa|a IHa b IHb|tg IHt v IHv]; simpl; intros Hok.
  - split; [exact Hok | apply dt_eqb_eq].
  - split; [apply HD, Hok | apply HX].
  - apply andb_prop in Hok. destruct Hok as [Oa Ob]. destruct (IHa Oa) as [Pa Xa]. destruct (IHb Ob) as [Pb Xb].
    destruct (P_closed _ _ _ Ht Pa Pb) as [Pab _]. split; [exact Pab|]. intros Hs.
    apply (P_exact _ _ _ Ht Pa Pb). apply orb_prop in Hs. destruct Hs as [Hs|Hs]; [left; apply Xa, Hs | right; apply Xb, Hs].
  - apply andb_prop in Hok. destruct Hok as [Oa Ob]. destruct (IHa Oa) as [Pa Xa]. destruct (IHb Ob) as [Pb Xb].
    destruct (P_closed _ _ _ Ht Pa Pb) as [Pab _]. destruct (P_unary _ _ Ht Pab) as [Pf _]. split; [exact Pf|]. intros Hs.
    apply (P_exact _ _ _ Ht Pa Pb). apply orb_prop in Hs. destruct Hs as [Hs|Hs]; [left; apply Xa, Hs | right; apply Xb, Hs].
  - destruct (IHa Hok) as [Pa Xa]. destruct (P_unary _ _ Ht Pa) as [Pf _]. split; [exact Pf|]. intros Hs.
    rewrite (Xa Hs). apply to_float_ctx, Ht.
  - destruct (IHa Hok) as [Pa _]. destruct (P_unary _ _ Ht Pa) as [_ [Pr _]]. split; [exact Pr | discriminate].
  - apply andb_prop in Hok. destruct Hok as [Oa Ob]. destruct (IHa Oa) as [Pa Xa]. destruct (IHb Ob) as [Pb Xb].
    destruct (P_closed _ _ _ Ht Pa Pb) as [Pab _]. split; [exact Pab|]. intros Hs. apply andb_prop in Hs. destruct Hs as [Ha Hb].
    apply (P_exact _ _ _ Ht Pa Pb). left. apply Xa, Ha.
  - exact (IHt Hok).
Qed.

Lemma blockX_sound en b : In (tau en) ctxs -> forall D X st D' X', InvX (tau en) D X st ->
  exact_block en D X b = Some (D', X') -> InvX (tau en) D' X' (exec en st b).
Proof.
  intros Ht. induction b as [|[x e] r IH]; simpl; intros D X st D' X' HI Hok.
  - injection Hok as <- <-. exact HI.
  - unfold exec. simpl. fold (exec en (upd st x (eval en st e)) r).
    destruct (ok_expr en D e) eqn:Oe; [|discriminate].
    destruct (exprX_sound en st D X e Ht HI Oe) as [Pe Xe].
    eapply IH; [|exact Hok]. destruct HI as [HD HX]. split.
    + intros y Hy. simpl in Hy. unfold upd. destruct (Nat.eqb y x) eqn:E; [exact Pe|]. simpl in Hy. apply HD, Hy.
    + intros y Hy. unfold upd. destruct (exact_expr en X e) eqn:Es.
      * simpl in Hy. destruct (Nat.eqb y x) eqn:E; [apply Xe; reflexivity|]. simpl in Hy. apply HX, Hy.
      * apply memb_removeb in Hy. destruct Hy as [Hne Hy]. destruct (Nat.eqb y x) eqn:E.
        { apply Nat.eqb_eq in E. contradiction. } apply HX, Hy.
Qed.
Lemma InvX_st0 t : InvX t [] [] st0. Proof. split; intros x H; discriminate. Qed.

Theorem out_exact_sound en p o : In (tau en) ctxs -> out_exact en p o = true ->
  forall n, eval en (run en p n) (snd o) = tau en.
Proof.
  intros Ht Hok n. unfold out_exact in Hok.
  destruct (exact_block en [] [] (p_init p)) as [[D1 X1]|] eqn:E1; [|discriminate].
  destruct (exact_block en D1 X1 (p_body p)) as [[D2 X2]|] eqn:E2; [|discriminate].
  apply andb_prop in Hok. destruct Hok as [Hok Xe]. apply andb_prop in Hok. destruct Hok as [Hok Oe].
  apply andb_prop in Hok. destruct Hok as [HsD HsX].
  assert (I1 : InvX (tau en) D1 X1 (exec en st0 (p_init p))) by (eapply blockX_sound; [exact Ht | apply InvX_st0 | exact E1]).
  assert (In_ : InvX (tau en) D1 X1 (run en p n)).
  { unfold run. apply iter_inv; [|exact I1]. intros st HI.
    destruct (blockX_sound en (p_body p) Ht D1 X1 st D2 X2 HI E2) as [HD HX]. split.
    - intros x Hx. apply HD. eapply subsetb_spec; eauto.
    - intros x Hx. apply HX. eapply subsetb_spec; eauto. }
  destruct (exprX_sound en (run en p n) D1 X1 (snd o) Ht In_ Oe) as [_ H]. apply H, Xe.
Qed.


Lemma exact_outputs_b :
  forallb (fun t => forallb (fun c => forallb (fun o => implb (float_out o && negb (real_by_design c (fst o)))
     (out_exact (mkenv t t) (skeleton c) o)) (p_outs (skeleton c))) all_cfgs) ctxs = true.
Proof. vm_compute. reflexivity. Qed.

(* every output that is not real-valued by design (norms, errors, singular values, |weights|, the non-negative families) has
   EXACTLY the dtype of the data - in particular complex data gives complex factors / cores / reconstructions - for every family,
   option set, mask dtype and number of sweeps.  The by-design table is read on the normalised configuration. *)
Theorem outputs_exact_context t m c n s e :
  In t ctxs -> valid_cfg c -> In (s, e) (p_outs (skeleton c)) -> float_out (s, e) = true ->
  real_by_design (norm_cfg c) s = false ->
  eval (mkenv t m) (run (mkenv t m) (skeleton c) n) e = t.
Proof.
  intros Ht Hc Hin Hf Hr. pose proof (skeleton_guarded c Hc) as G.
  rewrite (run_mask_irrelevant t m t _ n G).
  assert (Ge : mask_guarded e = true).
  { unfold prog_guarded in G. apply andb_prop in G. destruct G as [_ Go]. rewrite forallb_forall in Go. exact (Go (s, e) Hin). }
  rewrite (eval_mask_irrelevant t m t _ e Ge).
  pose proof (all_cfgs_complete c Hc) as Hc'. rewrite skeleton_norm in Hin |- *.
  pose proof exact_outputs_b as H. rewrite forallb_forall in H. specialize (H t Ht).
  rewrite forallb_forall in H. specialize (H _ Hc'). rewrite forallb_forall in H. specialize (H (s, e) Hin).
  cbn [fst] in H. rewrite Hf, Hr in H. simpl in H.
  exact (out_exact_sound (mkenv t t) (skeleton (norm_cfg c)) (s, e) Ht H n).
Qed.

(* ---- the plain mask multipliers: cp_to_tensor / khatri_rao / cp_lstsq_grad with mask= *)
Lemma iter_id {A} (f : A -> A) : (forall x, f x = x) -> forall n x, iter n f x = x.
Proof. intros H. induction n as [|n IH]; simpl; intros x; [reflexivity | rewrite H; apply IH]. Qed.
Lemma run_no_body en p n : p_body p = [] -> run en p n = run en p 0.
Proof. intros E. unfold run. rewrite E. simpl. apply iter_id. reflexivity. Qed.
Lemma mask_mul_no_body cast masked alt : p_body (mask_mul_prog cast masked alt) = [].
Proof. reflexivity. Qed.

(* the code before ba7a532: every output was EXACTLY the NumPy promotion of the data's dtype with the mask's dtype *)
Lemma mask_mul_is_promotion_b :
  forallb (fun alt => forallb (fun t => forallb (fun m =>
     forallb (fun o => dt_eqb (snd o) (promote t m)) (out_dtypes (mkenv t m) (mask_mul_prog false true alt) 0)) mask_dts) ctxs) bools2 = true.
Proof. vm_compute. reflexivity. Qed.
Theorem mask_mul_is_promotion alt t m n s e : In t ctxs -> In m mask_dts ->
  In (s, e) (p_outs (mask_mul_prog false true alt)) ->
  eval (mkenv t m) (run (mkenv t m) (mask_mul_prog false true alt) n) e = promote t m.
Proof.
  intros Ht Hm Hin. rewrite (run_no_body _ _ n (mask_mul_no_body false true alt)).
  pose proof mask_mul_is_promotion_b as H. rewrite forallb_forall in H. specialize (H alt (In_bools2 alt)).
  rewrite forallb_forall in H. specialize (H t Ht). rewrite forallb_forall in H. specialize (H m Hm).
  rewrite forallb_forall in H. unfold out_dtypes in H.
  specialize (H (s, eval (mkenv t m) (run (mkenv t m) (mask_mul_prog false true alt) 0) e)).
  apply dt_eqb_eq. apply H. apply (in_map (fun o => (fst o, eval (mkenv t m) (run (mkenv t m) (mask_mul_prog false true alt) 0) (snd o))) _ (s, e) Hin).
Qed.
(* hence: in the context t the result stays t exactly for the masks that t absorbs *)
Definition mask_absorbed (t m : dt) : bool := dt_eqb (promote t m) t.
Corollary mask_mul_partial alt t m n s e : In t ctxs -> In m mask_dts -> mask_absorbed t m = true ->
  In (s, e) (p_outs (mask_mul_prog false true alt)) ->
  eval (mkenv t m) (run (mkenv t m) (mask_mul_prog false true alt) n) e = t.
Proof. intros Ht Hm Ha Hin. rewrite (mask_mul_is_promotion alt t m n s e Ht Hm Hin). apply dt_eqb_eq, Ha. Qed.
(* which masks a context absorbs: single precision only bool and its own precision class; double precision everything real (complex128: everything) *)
Lemma mask_absorbed_spec : forall t m, In t ctxs -> In m mask_dts ->
  mask_absorbed t m = (dt_eqb m B || dt_eqb m t || dt_eqb m (real_of t)
                       || (dt_eqb t F64 && negb (dt_eqb m C64) && negb (dt_eqb m C128)) || dt_eqb t C128).
Proof.
  intros t m Ht Hm. simpl in Ht, Hm.
  destruct Ht as [<-|[<-|[<-|[<-|[]]]]]; destruct Hm as [<-|[<-|[<-|[<-|[<-|[<-|[]]]]]]]; reflexivity.
Qed.
Lemma mask_mul_int_mask_refuted : exists alt n s e, In (s, e) (p_outs (mask_mul_prog false true alt)) /\
  eval (mkenv F32 I64) (run (mkenv F32 I64) (mask_mul_prog false true alt) n) e = F64.
Proof. exists false, 0, "out0", (Op (Op (Op F_ W_) F_) M_). split; [simpl; tauto | reflexivity]. Qed.
Lemma mask_mul_f64_mask_refuted : exists alt n s e, In (s, e) (p_outs (mask_mul_prog false true alt)) /\
  eval (mkenv C64 F64) (run (mkenv C64 F64) (mask_mul_prog false true alt) n) e = C128.
Proof. exists true, 3, "weights", (ctx_of (Op (Op (Op In_ (Op (Op F_ W_) F_)) M_) (Op W_ F_))). split; [simpl; tauto | reflexivity]. Qed.
(* without a mask the three entry points keep the context exactly *)
Lemma mask_mul_unmasked cast alt t m n s e : In t ctxs -> In (s, e) (p_outs (mask_mul_prog cast false alt)) ->
  eval (mkenv t m) (run (mkenv t m) (mask_mul_prog cast false alt) n) e = t.
Proof.
  intros Ht Hin. rewrite (run_no_body _ _ n (mask_mul_no_body cast false alt)).
  simpl in Ht. destruct Ht as [<-|[<-|[<-|[<-|[]]]]]; destruct cast, alt; simpl in Hin;
    repeat (destruct Hin as [Hin|Hin]; [injection Hin as <- <-; reflexivity|]); destruct Hin.
Qed.
(* the code since ba7a532 is an instance of the general theorems (FMaskMulCast is a listed family) *)
Definition maskmul_cast_cfg (alt : bool) := mkcfg FMaskMulCast IRandom true false false false false false PNone false false alt.
Lemma mask_mul_cast_any_mask alt t m n s e : In t ctxs -> In (s, e) (p_outs (skeleton (maskmul_cast_cfg alt))) ->
  eval (mkenv t m) (run (mkenv t m) (skeleton (maskmul_cast_cfg alt)) n) e = t.
Proof.
  intros Ht Hin. apply (outputs_exact_context t m (maskmul_cast_cfg alt) n s e Ht).
  - unfold valid_cfg. simpl. repeat (try (left; reflexivity); right).
  - exact Hin.
  - destruct alt; simpl in Hin; repeat (destruct Hin as [Hin|Hin]; [injection Hin as <- <-; reflexivity|]); destruct Hin.
  - destruct alt; simpl in Hin; repeat (destruct Hin as [Hin|Hin]; [injection Hin as <- <-; reflexivity|]); destruct Hin.
Qed.

(* ---- the exact-context variant of the tolerant check (extracted programs): soundness *)
Definition Inv2X (t : dt) (D X : list bool) (st : state) : Prop :=
  (forall x, getb D x = true -> inP t (st x) = true) /\ (forall x, getb X x = true -> st x = t).

Lemma expr2X_sound en st D X e : In (tau en) ctxs -> Inv2X (tau en) D X st -> ok_expr2 en D e = true ->
  inP (tau en) (eval en st e) = true /\ (exact_expr2 en X e = true -> eval en st e = tau en).
Proof.
  intros Ht [HD HX]. induction e as [l|x|a IHa b IHb|a IHa b IHb|a IHa|a IHa|a IHa b IHb|tg IHt v IHv]; simpl; intros Hok.
  - split; [exact Hok | apply dt_eqb_eq].
  - split; [apply HD, Hok | apply HX].
  - apply andb_prop in Hok. destruct Hok as [Oa Ob]. destruct (IHa Oa) as [Pa Xa]. destruct (IHb Ob) as [Pb Xb].
    destruct (P_closed _ _ _ Ht Pa Pb) as [Pab _]. split; [exact Pab|]. intros Hs.
    apply (P_exact _ _ _ Ht Pa Pb). apply orb_prop in Hs. destruct Hs as [Hs|Hs]; [left; apply Xa, Hs | right; apply Xb, Hs].
  - apply andb_prop in Hok. destruct Hok as [Oa Ob]. destruct (IHa Oa) as [Pa Xa]. destruct (IHb Ob) as [Pb Xb].
    destruct (P_closed _ _ _ Ht Pa Pb) as [Pab _]. destruct (P_unary _ _ Ht Pab) as [Pf _]. split; [exact Pf|]. intros Hs.
    apply (P_exact _ _ _ Ht Pa Pb). apply orb_prop in Hs. destruct Hs as [Hs|Hs]; [left; apply Xa, Hs | right; apply Xb, Hs].
  - destruct (IHa Hok) as [Pa Xa]. destruct (P_unary _ _ Ht Pa) as [Pf _]. split; [exact Pf|]. intros Hs.
    rewrite (Xa Hs). apply to_float_ctx, Ht.
  - destruct (IHa Hok) as [Pa _]. destruct (P_unary _ _ Ht Pa) as [_ [Pr _]]. split; [exact Pr | discriminate].
  - apply andb_prop in Hok. destruct Hok as [Oa Ob]. destruct (IHa Oa) as [Pa Xa]. destruct (IHb Ob) as [Pb Xb].
    destruct (P_closed _ _ _ Ht Pa Pb) as [Pab _]. split; [exact Pab|]. intros Hs. apply andb_prop in Hs. destruct Hs as [Ha Hb].
    apply (P_exact _ _ _ Ht Pa Pb). left. apply Xa, Ha.
  - exact (IHt Hok).
Qed.

Lemma block2X_sound en b : In (tau en) ctxs -> forall D X st D' X', Inv2X (tau en) D X st ->
  exact_block2 en D X b = (D', X') -> Inv2X (tau en) D' X' (exec en st b).
Proof.
  intros Ht. induction b as [|[x e] r IH]; simpl; intros D X st D' X' HI Hok.
  - injection Hok as <- <-. exact HI.
  - unfold exec. simpl. fold (exec en (upd st x (eval en st e)) r).
    eapply IH; [|exact Hok]. pose proof HI as [HD HX]. split.
    + intros y Hy. unfold upd. destruct (Nat.eqb y x) eqn:E.
      * apply Nat.eqb_eq in E. subst y. rewrite getb_setb_same in Hy.
        destruct (expr2X_sound en st D X e Ht HI Hy) as [Pe _]. exact Pe.
      * apply Nat.eqb_neq in E. rewrite getb_setb_other in Hy by exact E. apply HD, Hy.
    + intros y Hy. unfold upd. destruct (Nat.eqb y x) eqn:E.
      * apply Nat.eqb_eq in E. subst y. rewrite getb_setb_same in Hy. apply andb_prop in Hy. destruct Hy as [Oe Se].
        destruct (expr2X_sound en st D X e Ht HI Oe) as [_ H]. apply H, Se.
      * apply Nat.eqb_neq in E. rewrite getb_setb_other in Hy by exact E. apply HX, Hy.
Qed.
Lemma Inv2X_st0 t : Inv2X t [] [] st0.
Proof. split; intros x H; rewrite getb_nil in H; discriminate. Qed.

Lemma getb_andl a : forall b x, getb (andl a b) x = getb a x && getb b x.
Proof.
  induction a as [|u r IH]; intros b x.
  - destruct x; reflexivity.
  - destruct b as [|v s].
    + destruct x; simpl; rewrite andb_false_r; reflexivity.
    + destruct x as [|x]; simpl; [reflexivity | apply IH].
Qed.
Lemma Inv2X_weaken t D X D' X' st : (forall x, getb D' x = true -> getb D x = true) -> (forall x, getb X' x = true -> getb X x = true) ->
  Inv2X t D X st -> Inv2X t D' X' st.
Proof. intros HD HX [ID IX]. split; intros x Hx; [apply ID, HD, Hx | apply IX, HX, Hx]. Qed.
(* what refine2 returns is contained in what it was given and is preserved by the body *)
Lemma refine2_sound en body : In (tau en) ctxs -> forall fuel D X Dm Xm, refine2 fuel en body D X = Some (Dm, Xm) ->
  (forall st, Inv2X (tau en) D X st -> Inv2X (tau en) Dm Xm st) /\
  (forall st, Inv2X (tau en) Dm Xm st -> Inv2X (tau en) Dm Xm (exec en st body)).
Proof.
  intros Ht. induction fuel as [|f IH]; intros D X Dm Xm H; simpl in H;
    destruct (exact_block2 en D X body) as [D' X'] eqn:E; destruct (subb D D' && subb X X') eqn:S.
  - injection H as <- <-. apply andb_prop in S. destruct S as [SD SX]. split; [auto|].
    intros st HI. destruct (block2X_sound en body Ht D X st D' X' HI E) as [HD HX]. split.
    + intros x Hx. apply HD. eapply subb_spec; eauto.
    + intros x Hx. apply HX. eapply subb_spec; eauto.
  - discriminate H.
  - injection H as <- <-. apply andb_prop in S. destruct S as [SD SX]. split; [auto|].
    intros st HI. destruct (block2X_sound en body Ht D X st D' X' HI E) as [HD HX]. split.
    + intros x Hx. apply HD. eapply subb_spec; eauto.
    + intros x Hx. apply HX. eapply subb_spec; eauto.
  - destruct (IH _ _ _ _ H) as [W P]. split; [|exact P].
    intros st HI. apply W. apply (Inv2X_weaken (tau en) D X); [| |exact HI].
    + intros x Hx. rewrite getb_andl in Hx. apply andb_prop in Hx. exact (proj1 Hx).
    + intros x Hx. rewrite getb_andl in Hx. apply andb_prop in Hx. exact (proj1 Hx).
Qed.
Theorem all_exact2_sound en p want : In (tau en) ctxs -> all_exact2 en p want = true ->
  forall k o, In k want -> nth_error (p_outs p) k = Some o -> forall n, eval en (run en p n) (snd o) = tau en.
Proof.
  intros Ht Hok k o Hk Ho n. unfold all_exact2 in Hok.
  destruct (exact_block2 en [] [] (p_init p)) as [D1 X1] eqn:E1.
  destruct (refine2 6 en (p_body p) D1 X1) as [[Dm Xm]|] eqn:ER; [|discriminate Hok].
  destruct (refine2_sound en (p_body p) Ht _ _ _ _ _ ER) as [W P].
  assert (I1 : Inv2X (tau en) D1 X1 (exec en st0 (p_init p))) by (eapply block2X_sound; [exact Ht | apply Inv2X_st0 | exact E1]).
  assert (In_ : Inv2X (tau en) Dm Xm (run en p n)).
  { unfold run. apply iter_inv; [exact P | exact (W _ I1)]. }
  rewrite forallb_forall in Hok. specialize (Hok k Hk). rewrite Ho in Hok. apply andb_prop in Hok.
  destruct Hok as [Oe Xe]. destruct (expr2X_sound en (run en p n) Dm Xm (snd o) Ht In_ Oe) as [_ H]. apply H, Xe.
Qed.
Theorem ext_exact_any_sound p want : ext_exact_any p want = true -> forall t m, In t ctxs -> In m mask_dts ->
  forall k o, In k want -> nth_error (p_outs p) k = Some o -> forall n, eval (mkenv t m) (run (mkenv t m) p n) (snd o) = t.
Proof.
  intros H t m Ht Hm. unfold ext_exact_any in H. rewrite forallb_forall in H. specialize (H t Ht).
  rewrite forallb_forall in H. specialize (H m Hm). exact (all_exact2_sound (mkenv t m) p want Ht H).
Qed.
Theorem ext_exact_same_sound p want : ext_exact_same p want = true -> forall t, In t ctxs ->
  forall k o, In k want -> nth_error (p_outs p) k = Some o -> forall n, eval (mkenv t t) (run (mkenv t t) p n) (snd o) = t.
Proof.
  intros H t Ht. unfold ext_exact_same in H. rewrite forallb_forall in H. specialize (H t Ht).
  exact (all_exact2_sound (mkenv t t) p want Ht H).
Qed.
(* the two certification levels are ordered: every context is one of the mask dtypes *)
Lemma ctxs_in_mask_dts t : In t ctxs -> In t mask_dts.
Proof. simpl. intros [<-|[<-|[<-|[<-|[]]]]]; tauto. Qed.
Theorem ext_ok_any_implies_same p : ext_ok_any p = true -> ext_ok_same p = true.
Proof.
  unfold ext_ok_any, ext_ok_same. intros H. rewrite forallb_forall in H |- *. intros t Ht.
  specialize (H t Ht). rewrite forallb_forall in H. exact (H t (ctxs_in_mask_dts t Ht)).
Qed.
Theorem ext_exact_any_implies_same p want : ext_exact_any p want = true -> ext_exact_same p want = true.
Proof.
  unfold ext_exact_any, ext_exact_same. intros H. rewrite forallb_forall in H |- *. intros t Ht.
  specialize (H t Ht). rewrite forallb_forall in H. exact (H t (ctxs_in_mask_dts t Ht)).
Qed.
(* non-vacuity / sensitivity: a cast to the real type or an abs on the way keeps the precision class (prog_ok2) but not the context *)
Example all_exact2_example :
  let p1 := mkprog [(0, In_); (1, Op (Var 0) (Into (Var 0) bare)); (2, RealOf (Var 1))] [(1, Op (Var 1) PyF)] [("*", Var 1); ("*", Var 2)] in
  ext_exact_any p1 [0] = true /\ ext_exact_any p1 [0; 1] = false /\ ext_ok_any p1 = true /\
  ext_exact_any (mkprog [(0, In_); (1, RealOf (Var 0)); (2, Op (Var 0) (Var 1)); (3, Alt (Var 0) (Var 1))] [] [("*", Var 2); ("*", Var 3)]) [0] = true /\
  ext_exact_any (mkprog [(0, In_); (1, RealOf (Var 0)); (2, Op (Var 0) (Var 1)); (3, Alt (Var 0) (Var 1))] [] [("*", Var 2); ("*", Var 3)]) [1] = false /\
  ext_ok_any (mkprog [(0, In_); (1, RealOf (Var 0)); (2, Op (Var 0) (Var 1)); (3, Alt (Var 0) (Var 1))] [] [("*", Var 2); ("*", Var 3)]) = true /\
  all_exact2 (mkenv F32 B) p1 [0] = true /\ all_exact2 (mkenv C64 B) p1 [1] = false /\
  ext_exact_any (mkprog [(0, In_); (1, Op (Var 0) (Leaf (LConst F32)))] [] [("*", Var 1)]) [0] = false /\
  prog_ok2 (mkenv C64 C64) (mkprog [(0, In_); (1, Into (Leaf (LConst F32)) (Var 0))] [] [("*", Var 1)]) = true /\
  all_exact2 (mkenv C64 C64) (mkprog [(0, In_); (1, Into (Leaf (LConst F32)) (Var 0))] [] [("*", Var 1)]) [0] = false.
Proof. repeat split; vm_compute; reflexivity. Qed.

(* ---- tensor_ring_als_sampled: the documented float64 leverage scores / the float64 scalar of the uniform branch meet the data only through
   IN-PLACE updates of `rescaling`; as rebindings the same statements would widen float32 cores to float64 *)
Definition tr_sampled_cfg (uniform : bool) := mkcfg FTrAlsSampled IRandom false false false false false false PNone false false uniform.
Lemma tr_als_sampled_inplace uniform t m n s e : In t ctxs -> In (s, e) (p_outs (skeleton (tr_sampled_cfg uniform))) ->
  eval (mkenv t m) (run (mkenv t m) (skeleton (tr_sampled_cfg uniform)) n) e = t.
Proof.
  intros Ht Hin. apply (outputs_exact_context t m (tr_sampled_cfg uniform) n s e Ht).
  - unfold valid_cfg. simpl. repeat (try (left; reflexivity); right).
  - exact Hin.
  - destruct uniform; simpl in Hin; repeat (destruct Hin as [Hin|Hin]; [injection Hin as <- <-; reflexivity|]); destruct Hin.
  - destruct uniform; simpl in Hin; repeat (destruct Hin as [Hin|Hin]; [injection Hin as <- <-; reflexivity|]); destruct Hin.
Qed.
Lemma tr_als_sampled_rebinding_widens : forall uniform n, 0 < n ->
  out_of_prog (mkenv F32 F32) (tr_als_sampled_prog_gen false (tr_sampled_cfg uniform)) n "*" = Some F64.
Proof.
  intros uniform n Hn. destruct n as [|n]; [inversion Hn|]. clear Hn.
  assert (H : forall k st, st vT = F32 -> (st vF = F32 \/ st vF = F64) ->
            iter (S k) (fun st => exec (mkenv F32 F32) st (p_body (tr_als_sampled_prog_gen false (tr_sampled_cfg uniform)))) st vF = F64
            /\ iter (S k) (fun st => exec (mkenv F32 F32) st (p_body (tr_als_sampled_prog_gen false (tr_sampled_cfg uniform)))) st vT = F32).
  { induction k as [|k IH]; intros st HT HF.
    - destruct uniform; destruct HF as [HF|HF]; simpl; unfold exec, upd; simpl; rewrite ?HT, ?HF; split; reflexivity.
    - change (iter (S (S k)) ?f st) with (iter (S k) f (f st)).
      apply IH; destruct uniform; destruct HF as [HF|HF]; unfold exec, upd; simpl; rewrite ?HT, ?HF; auto. }
  unfold out_of_prog, out_dtypes. cbn [p_outs tr_als_sampled_prog_gen map fst snd find String.eqb Ascii.eqb Bool.eqb].
  unfold run. cbn [eval F_]. 
  destruct (H n (exec (mkenv F32 F32) st0 (p_init (tr_als_sampled_prog_gen false (tr_sampled_cfg uniform))))) as [HF _];
    [reflexivity | left; reflexivity |].
  rewrite HF. reflexivity.
Qed.

(* ---- what the shallow skeletons state, and why that is what a source-certified program returns: the shallow skeleton (pure_prog) of an entry
   point evaluates to exactly the data's dtype; so does every output of an extracted program that passes the exact check - hence, for the
   entry points whose extracted program is certified exact on this run, the shallow skeleton and the program extracted from the code agree *)
Lemma pure_prog_exact c t m n s e : In t ctxs -> In (s, e) (p_outs (pure_prog c)) ->
  eval (mkenv t m) (run (mkenv t m) (pure_prog c) n) e = t.
Proof.
  intros Ht Hin. change (pure_prog c) with (skeleton (cfg0 FPure)) in Hin |- *.
  apply (outputs_exact_context t m (cfg0 FPure) n s e Ht).
  - unfold valid_cfg. simpl. repeat (try (left; reflexivity); right).
  - exact Hin.
  - simpl in Hin. destruct Hin as [Hin|[]]. injection Hin as <- <-. reflexivity.
  - simpl in Hin. destruct Hin as [Hin|[]]. injection Hin as <- <-. reflexivity.
Qed.
Theorem shallow_matches_certified_program p want : ext_exact_any p want = true ->
  forall c t m n k o s e, In t ctxs -> In m mask_dts -> In k want -> nth_error (p_outs p) k = Some o -> In (s, e) (p_outs (pure_prog c)) ->
  eval (mkenv t m) (run (mkenv t m) p n) (snd o) = eval (mkenv t m) (run (mkenv t m) (pure_prog c) n) e.
Proof.
  intros H c t m n k o s e Ht Hm Hk Ho Hin.
  rewrite (ext_exact_any_sound p want H t m Ht Hm k o Hk Ho n). symmetry. exact (pure_prog_exact c t m n s e Ht Hin).
Qed.
