(* C15 -- the frame theorem for the effect language of Model/Effects.v.
   safe_with flags c = true  ->  for every initial heap h0 and every argument tuple, running c leaves every
   object of h0 that is not reachable from an argument flagged "in place" exactly as it was. *)
From Coq Require Import List Arith ZArith Bool Lia.
From TLV Require Import Model.Effects.
Import ListNotations.

(* ------------------------------------------------------------------ list helpers *)
Lemma nth_error_modify {A} (f : A -> A) : forall l i j,
  nth_error (modify_nth i f l) j = if Nat.eqb j i then option_map f (nth_error l j) else nth_error l j.
Proof.
  induction l as [|a l IH]; intros i j.
  - destruct i, j; simpl; try reflexivity; destruct (Nat.eqb _ _); reflexivity.
  - destruct i, j; simpl; try reflexivity. apply IH.
Qed.
Lemma length_modify {A} (f : A -> A) : forall l i, length (modify_nth i f l) = length l.
Proof. induction l; destruct i; simpl; auto. Qed.

Lemma Forall2_set_nth {A B} (R : A -> B -> Prop) a b : R a b -> forall l1 l2 i,
  Forall2 R l1 l2 -> Forall2 R (set_nth i a l1) (set_nth i b l2).
Proof. intros Hab l1 l2 i H; revert i; induction H; intros [|i]; simpl; constructor; auto. Qed.
Lemma Forall2_del_nth {A B} (R : A -> B -> Prop) : forall l1 l2 i,
  Forall2 R l1 l2 -> Forall2 R (del_nth i l1) (del_nth i l2).
Proof. intros l1 l2 i H; revert i; induction H; intros [|i]; simpl; try constructor; auto. Qed.
Lemma Forall2_removelast {A B} (R : A -> B -> Prop) : forall l1 l2,
  Forall2 R l1 l2 -> Forall2 R (removelast l1) (removelast l2).
Proof. intros l1 l2 H; induction H; simpl; [constructor|]. destruct H0; [constructor|]. constructor; auto. Qed.
Lemma Forall2_snoc {A B} (R : A -> B -> Prop) a b : R a b -> forall l1 l2,
  Forall2 R l1 l2 -> Forall2 R (l1 ++ [a]) (l2 ++ [b]).
Proof. intros Hab l1 l2 H. apply Forall2_app; auto. Qed.
Lemma Forall2_nth {A B} (R : A -> B -> Prop) da db : R da db -> forall l1 l2 i,
  Forall2 R l1 l2 -> R (nth i l1 da) (nth i l2 db).
Proof. intros Hd l1 l2 i H; revert i; induction H; intros [|i]; simpl; auto. Qed.
Lemma Forall2_take_pad {A B} (R : A -> B -> Prop) da db : R da db -> forall n l1 l2,
  Forall2 R l1 l2 -> Forall2 R (take_pad da n l1) (take_pad db n l2).
Proof.
  intros Hd; induction n; intros l1 l2 H; simpl; [constructor|].
  destruct H; constructor; auto; apply IHn; constructor.
Qed.
Lemma Forall2_repeat_take_pad {A B} (R : A -> B -> Prop) a db : R a db -> forall n l,
  Forall (R a) l -> Forall2 R (repeat a n) (take_pad db n l).
Proof.
  intros Hd; induction n; intros l H; simpl; [constructor|].
  destruct H; constructor; auto; apply IHn; constructor.
Qed.
Lemma Forall2_map_env {A B} (R : A -> B -> Prop) (f : nat -> A) (g : nat -> B) :
  (forall x, R (f x) (g x)) -> forall ys, Forall2 R (map f ys) (map g ys).
Proof. intros H; induction ys; simpl; constructor; auto. Qed.

Lemma Forall_set_nth {A} (P : A -> Prop) a : P a -> forall l i, Forall P l -> Forall P (set_nth i a l).
Proof. intros Ha l i H; revert i; induction H; intros [|i]; simpl; constructor; auto. Qed.
Lemma Forall_del_nth {A} (P : A -> Prop) : forall l i, Forall P l -> Forall P (del_nth i l).
Proof. intros l i H; revert i; induction H; intros [|i]; simpl; try constructor; auto. Qed.
Lemma Forall_removelast {A} (P : A -> Prop) : forall l, Forall P l -> Forall P (removelast l).
Proof. intros l H; induction H; simpl; [constructor|]. destruct H0; [constructor|]. constructor; auto. Qed.
Lemma Forall_nth_default {A} (P : A -> Prop) d : P d -> forall l i, Forall P l -> P (nth i l d).
Proof. intros Hd l i H; revert i; induction H; intros [|i]; simpl; auto. Qed.

(* ------------------------------------------------------------------ heaps only grow and objects keep their kind *)
Definition hext (h h' : heap) : Prop :=
  forall o d, nth_error h o = Some (OBuf d) -> exists d', nth_error h' o = Some (OBuf d').

Lemma hext_refl h : hext h h.
Proof. intros o d H; eauto. Qed.
Lemma hext_trans h1 h2 h3 : hext h1 h2 -> hext h2 h3 -> hext h1 h3.
Proof. intros H1 H2 o d H. destruct (H1 _ _ H) as [d' H']. eauto. Qed.
Lemma hext_app h ob : hext h (h ++ [ob]).
Proof. intros o d H. exists d. rewrite nth_error_app1; auto. apply nth_error_Some. congruence. Qed.
Lemma hext_modify h o f : (forall d, exists d', f (OBuf d) = OBuf d') -> hext h (modify_nth o f h).
Proof.
  intros Hf o' d H. rewrite nth_error_modify. destruct (Nat.eqb o' o); eauto.
  rewrite H. simpl. destruct (Hf d) as [d' E]. rewrite E. eauto.
Qed.
Lemma hext_wr_buf h r g : hext h (wr_buf r g h).
Proof. destruct r; simpl; [apply hext_refl|]. apply hext_modify. intros d; simpl; eauto. Qed.
Lemma hext_wr_cell h r g : hext h (wr_cell r g h).
Proof. destruct r; simpl; [apply hext_refl|]. apply hext_modify. intros d; simpl; eauto. Qed.

Lemma exec_call x c args ret e h :
  exec (Call x c args ret) (e, h) =
  (upd e x (fst (exec c (call_env RNull e args, h)) ret), snd (exec c (call_env RNull e args, h))).
Proof. simpl. destruct (exec c _). reflexivity. Qed.

Lemma exec_hext : forall c e h, hext h (snd (exec c (e, h))).
Proof.
  induction c; intros e h; [| | | | | | | | | | | | | | | |rewrite exec_call; simpl; apply IHc]; simpl;
    try apply hext_refl; try apply hext_app; try apply hext_wr_buf; try apply hext_wr_cell.
  - (* Seq *) destruct (exec c1 (e, h)) as [e1 h1] eqn:E1.
    eapply hext_trans; [|apply IHc2]. specialize (IHc1 e h). rewrite E1 in IHc1. exact IHc1.
  - (* Repeat *) revert e h. induction n; intros e h; simpl; [apply hext_refl|].
    destruct (exec c (e, h)) as [e1 h1] eqn:E1.
    eapply hext_trans; [|apply IHn]. specialize (IHc e h). rewrite E1 in IHc. exact IHc.
Qed.

(* ------------------------------------------------------------------ the simulation *)
Section Frame.
Variable h0 : heap.
Variable U : nat -> Prop.
Hypothesis U_init : forall o, U o -> o < length h0.
Let n0 := length h0.

Definition fresh_buf (h : heap) (o : nat) : Prop := n0 <= o /\ exists d, nth_error h o = Some (OBuf d).

Definition rel (h : heap) (a : aref) (r : ref) : Prop :=
  match a with
  | AProt => True
  | ANull => r = RNull
  | AFresh k => exists offs, r = RObj (n0 + k) offs
  | AU => match r with RNull => True | RObj o _ => U o \/ fresh_buf h o end
  end.

Definition obj_rel (h : heap) (ao : aobj) (ob : obj) : Prop :=
  match ao, ob with
  | ABuf, OBuf _ => True
  | ACell ai, OCell it => Forall2 (rel h) ai it
  | _, _ => False
  end.

Definition Inv (e : env) (h : heap) (ae : aenv) (ah : list aobj) : Prop :=
  length h = n0 + length ah /\
  (forall k ao, nth_error ah k = Some ao -> exists ob, nth_error h (n0 + k) = Some ob /\ obj_rel h ao ob) /\
  (forall o, o < n0 -> ~ U o -> nth_error h o = nth_error h0 o) /\
  (forall o it, U o -> nth_error h o = Some (OCell it) -> Forall (rel h AU) it) /\
  (forall x, rel h (ae x) (e x)).

Lemma rel_mono h h' a r : hext h h' -> rel h a r -> rel h' a r.
Proof.
  intros Hx; destruct a; simpl; auto. destruct r; auto.
  intros [H|[H1 [d H2]]]; [left; auto|right]. split; auto. destruct (Hx _ _ H2) as [d' H']; eauto.
Qed.
Lemma Forall2_rel_mono h h' l1 l2 : hext h h' -> Forall2 (rel h) l1 l2 -> Forall2 (rel h') l1 l2.
Proof. intros Hx H; induction H; constructor; eauto using rel_mono. Qed.
Lemma Forall_rel_mono h h' a l : hext h h' -> Forall (rel h a) l -> Forall (rel h' a) l.
Proof. intros Hx H; induction H; constructor; eauto using rel_mono. Qed.
Lemma obj_rel_mono h h' ao ob : hext h h' -> obj_rel h ao ob -> obj_rel h' ao ob.
Proof. intros Hx; destruct ao, ob; simpl; auto. apply Forall2_rel_mono; auto. Qed.

Lemma rel_null a : a <> AFresh 0 \/ True -> forall h, (forall k, a <> AFresh k) -> rel h a RNull.
Proof. intros _ h H. destruct a; simpl; auto. exfalso; eapply H; reflexivity. Qed.

Lemma inv_env_change e h ae ah e2 ae2 :
  Inv e h ae ah -> (forall x, rel h (ae2 x) (e2 x)) -> Inv e2 h ae2 ah.
Proof. intros (H1 & H2 & H3 & H4 & H5) H. repeat split; auto. Qed.

Lemma rel_upd h (e : env) (ae : aenv) x a r :
  (forall y, rel h (ae y) (e y)) -> rel h a r -> forall y, rel h (upd ae x a y) (upd e x r y).
Proof. intros H Har y. unfold upd. destruct (Nat.eqb y x); auto. Qed.

Lemma inv_mono_env e h ae ah h' : Inv e h ae ah -> hext h h' -> forall x, rel h' (ae x) (e x).
Proof. intros (_ & _ & _ & _ & H5) Hx x. eapply rel_mono; eauto. Qed.

(* allocation *)
Lemma inv_alloc e h ae ah x offs ob ao :
  Inv e h ae ah -> obj_rel h ao ob ->
  Inv (upd e x (RObj (length h) offs)) (h ++ [ob]) (upd ae x (AFresh (length ah))) (ah ++ [ao]).
Proof.
  intros (H1 & H2 & H3 & H4 & H5) Hob.
  assert (Hx : hext h (h ++ [ob])) by apply hext_app.
  repeat split.
  - rewrite !app_length, H1. simpl. lia.
  - intros k ao' Hk.
    destruct (Nat.lt_ge_cases k (length ah)) as [Hlt|Hge].
    + rewrite nth_error_app1 in Hk by exact Hlt.
      destruct (H2 _ _ Hk) as [ob' [Ho Hr]]. exists ob'. split.
      * rewrite nth_error_app1; auto. apply nth_error_Some. congruence.
      * eapply obj_rel_mono; eauto.
    + assert (k = length ah).
      { assert (k < length (ah ++ [ao])) by (apply nth_error_Some; congruence). rewrite app_length in H. simpl in H. lia. }
      subst k. rewrite nth_error_app2 in Hk by lia. rewrite Nat.sub_diag in Hk. simpl in Hk. inversion Hk; subst ao'.
      exists ob. split.
      * rewrite nth_error_app2 by lia. replace (n0 + length ah - length h) with 0 by lia. reflexivity.
      * eapply obj_rel_mono; eauto.
  - intros o Ho Hn. rewrite nth_error_app1 by lia. auto.
  - intros o it Ho Hit. assert (o < n0) by (apply U_init; auto).
    rewrite nth_error_app1 in Hit by lia. eapply Forall_rel_mono; eauto.
  - apply rel_upd.
    + intros y. eapply rel_mono; eauto.
    + simpl. exists offs. f_equal. lia.
Qed.

(* write into a buffer through a reference that is not AProt *)
Lemma inv_wr_buf e h ae ah a r g :
  Inv e h ae ah -> rel h a r -> can_write a = true -> Inv e (wr_buf r g h) ae ah.
Proof.
  intros Hinv Hrel Hw.
  assert (Hx : hext h (wr_buf r g h)) by apply hext_wr_buf.
  destruct Hinv as (H1 & H2 & H3 & H4 & H5).
  destruct r as [|o offs]; [repeat split; auto|]. simpl in *.
  assert (Hprot : o < n0 -> U o).
  { intros Hlt. destruct a; simpl in *; try discriminate.
    - destruct Hrel as [? E]; inversion E; lia.
    - destruct Hrel as [?|[? _]]; auto; lia. }
  repeat split.
  - rewrite length_modify. auto.
  - intros k ao Hk. destruct (H2 _ _ Hk) as [ob [Ho Hr]].
    rewrite nth_error_modify. destruct (Nat.eqb (n0 + k) o).
    + rewrite Ho. simpl. eexists; split; [reflexivity|].
      eapply obj_rel_mono; [exact Hx|]. destruct ao, ob; simpl in *; auto.
    + exists ob; split; auto. eapply obj_rel_mono; eauto.
  - intros o' Hlt Hn. rewrite nth_error_modify. destruct (Nat.eqb_spec o' o); auto. subst. exfalso; auto.
  - intros o' it Ho Hit. rewrite nth_error_modify in Hit. destruct (Nat.eqb o' o).
    + destruct (nth_error h o') as [[d|it']|] eqn:E; simpl in Hit; try discriminate.
      inversion Hit; subst. eapply Forall_rel_mono; eauto.
    + eapply Forall_rel_mono; eauto.
  - intros x. eapply rel_mono; eauto.
Qed.

(* write into a cell allocated by this run *)
Lemma inv_wr_cell_fresh e h ae ah k offs g ga :
  Inv e h ae ah ->
  (forall ai it, Forall2 (rel h) ai it -> Forall2 (rel h) (ga ai) (g it)) ->
  Inv e (wr_cell (RObj (n0 + k) offs) g h) ae (modify_nth k (on_acell ga) ah).
Proof.
  intros (H1 & H2 & H3 & H4 & H5) Hg.
  assert (Hx : hext h (wr_cell (RObj (n0 + k) offs) g h)) by apply hext_wr_cell.
  simpl in *. repeat split.
  - rewrite !length_modify. auto.
  - intros k' ao Hk. rewrite nth_error_modify in Hk. rewrite nth_error_modify.
    destruct (Nat.eqb_spec k' k).
    + subst k'. rewrite Nat.eqb_refl.
      destruct (nth_error ah k) as [ao0|] eqn:E; simpl in Hk; [|discriminate]. inversion Hk; subst ao.
      destruct (H2 _ _ E) as [ob [Ho Hr]]. rewrite Ho. simpl. eexists; split; [reflexivity|].
      eapply obj_rel_mono; [exact Hx|]. destruct ao0, ob; simpl in *; auto.
    + replace (Nat.eqb (n0 + k') (n0 + k)) with false by (symmetry; apply Nat.eqb_neq; lia).
      destruct (H2 _ _ Hk) as [ob [Ho Hr]]. exists ob; split; auto. eapply obj_rel_mono; eauto.
  - intros o Hlt Hn. rewrite nth_error_modify.
    replace (Nat.eqb o (n0 + k)) with false by (symmetry; apply Nat.eqb_neq; lia). auto.
  - intros o it Ho Hit. assert (o < n0) by (apply U_init; auto). rewrite nth_error_modify in Hit.
    replace (Nat.eqb o (n0 + k)) with false in Hit by (symmetry; apply Nat.eqb_neq; lia).
    eapply Forall_rel_mono; eauto.
  - intros x. eapply rel_mono; eauto.
Qed.

(* write into a cell of the caller's in-place region *)
Lemma inv_wr_cell_U e h ae ah r g :
  Inv e h ae ah -> rel h AU r ->
  (forall it, Forall (rel h AU) it -> Forall (rel h AU) (g it)) ->
  Inv e (wr_cell r g h) ae ah.
Proof.
  intros (H1 & H2 & H3 & H4 & H5) Hrel Hg.
  assert (Hx : hext h (wr_cell r g h)) by apply hext_wr_cell.
  destruct r as [|o offs]; [repeat split; auto|]. simpl in *.
  repeat split.
  - rewrite length_modify; auto.
  - intros k ao Hk. destruct (H2 _ _ Hk) as [ob [Ho Hr]].
    rewrite nth_error_modify. destruct (Nat.eqb_spec (n0 + k) o).
    + subst o. rewrite Ho. simpl. eexists; split; [reflexivity|].
      eapply obj_rel_mono; [exact Hx|].
      destruct Hrel as [Hu|[_ [d Hd]]].
      * apply U_init in Hu. unfold n0 in *. lia.
      * rewrite Hd in Ho. inversion Ho; subst ob. destruct ao; simpl in *; auto.
    + exists ob; split; auto. eapply obj_rel_mono; eauto.
  - intros o' Hlt Hn. rewrite nth_error_modify. destruct (Nat.eqb_spec o' o); auto. subst o'.
    destruct Hrel as [Hu|[Hge _]]; [contradiction|lia].
  - intros o' it Ho Hit. rewrite nth_error_modify in Hit. destruct (Nat.eqb_spec o' o).
    + subst o'. destruct (nth_error h o) as [[d|it']|] eqn:E; simpl in Hit; try discriminate.
      inversion Hit; subst it. eapply Forall_rel_mono; [exact Hx|]. apply Hg. eapply H4; eauto.
    + eapply Forall_rel_mono; eauto.
  - intros x. eapply rel_mono; eauto.
Qed.

Lemma storable_rel e h ae ah a r :
  Inv e h ae ah -> storable ah a = true -> rel h a r -> rel h AU r.
Proof.
  intros (H1 & H2 & H3 & H4 & H5) Hs Hr. destruct a; simpl in *; try discriminate.
  - subst; exact I.
  - destruct Hr as [offs ->]. destruct (nth_error ah k) as [[|]|] eqn:E; try discriminate.
    destruct (H2 _ _ E) as [ob [Ho Hob]]. destruct ob; simpl in Hob; [|contradiction].
    right. split; [lia|eauto].
  - exact Hr.
Qed.

(* generic cell write, following awr_cell *)
Lemma inv_awr_cell e h ae ah a r stores g ga ah' :
  Inv e h ae ah -> rel h a r ->
  awr_cell a stores ga ah = Some ah' ->
  (forall ai it, Forall2 (rel h) ai it -> Forall2 (rel h) (ga ai) (g it)) ->
  (match stores with
   | None => forall it, Forall (rel h AU) it -> Forall (rel h AU) (g it)
   | Some v => forall it, (storable ah v = true) -> Forall (rel h AU) it -> Forall (rel h AU) (g it)
   end) ->
  Inv e (wr_cell r g h) ae ah'.
Proof.
  intros Hinv Hrel Haw Hg2 Hg1. destruct a; simpl in *.
  - inversion Haw; subst. simpl. exact Hinv.
  - inversion Haw; subst. destruct Hrel as [offs ->]. apply inv_wr_cell_fresh; auto.
  - destruct stores as [v|].
    + destruct (storable ah v) eqn:Es; [|discriminate]. inversion Haw; subst.
      eapply inv_wr_cell_U; eauto.
    + inversion Haw; subst. eapply inv_wr_cell_U; eauto.
  - discriminate.
Qed.

Lemma rel_read_cell e h ae ah a r i :
  Inv e h ae ah -> rel h a r -> rel h (aread_cell ah a i) (nth i (read_cell h r) RNull).
Proof.
  intros (H1 & H2 & H3 & H4 & H5) Hr. destruct a; simpl in *.
  - subst. simpl. destruct i; reflexivity.
  - destruct Hr as [offs ->]. simpl.
    destruct (nth_error ah k) as [ao|] eqn:E.
    + destruct (H2 _ _ E) as [ob [Ho Hob]]. rewrite Ho.
      destruct ao, ob; simpl in Hob; try contradiction.
      * destruct i; reflexivity.
      * apply Forall2_nth; auto. reflexivity.
    + assert (nth_error h (n0 + k) = None).
      { apply nth_error_None. apply nth_error_None in E. lia. }
      rewrite H. destruct i; reflexivity.
  - destruct r as [|o offs]; simpl; [destruct i; exact I|].
    destruct (nth_error h o) as [[d|it]|] eqn:E; try (destruct i; exact I).
    destruct Hr as [Hu|[_ [d Hd]]]; [|congruence].
    apply Forall_nth_default; [exact I|]. eapply H4; eauto.
  - exact I.
Qed.

Lemma rel_copy_cell e h ae ah a r n :
  Inv e h ae ah -> rel h a r -> Forall2 (rel h) (acopy_cell ah a n) (take_pad RNull n (read_cell h r)).
Proof.
  intros (H1 & H2 & H3 & H4 & H5) Hr. destruct a; simpl in *.
  - subst. simpl. apply Forall2_repeat_take_pad; [reflexivity|constructor].
  - destruct Hr as [offs ->]. simpl.
    destruct (nth_error ah k) as [ao|] eqn:E.
    + destruct (H2 _ _ E) as [ob [Ho Hob]]. rewrite Ho.
      destruct ao, ob; simpl in Hob; try contradiction.
      * apply Forall2_repeat_take_pad; [reflexivity|constructor].
      * apply Forall2_take_pad; auto. reflexivity.
    + assert (nth_error h (n0 + k) = None).
      { apply nth_error_None. apply nth_error_None in E. lia. }
      rewrite H. apply Forall2_repeat_take_pad; [reflexivity|constructor].
  - apply Forall2_repeat_take_pad; [exact I|].
    destruct r as [|o offs]; simpl; [constructor|].
    destruct (nth_error h o) as [[d|it]|] eqn:E; try constructor.
    destruct Hr as [Hu|[_ [d Hd]]]; [|congruence]. eapply H4; eauto.
  - apply Forall2_repeat_take_pad; [exact I|]. apply Forall_forall. intros; exact I.
Qed.

Lemma rel_view h a r sel : rel h a r -> rel h a (view_ref r sel).
Proof. destruct a, r; simpl; auto; try discriminate. intros [offs' E]. inversion E; subst. eauto. Qed.

Theorem simulation : forall c e h ae ah ae' ah',
  aexec c (ae, ah) = Some (ae', ah') -> Inv e h ae ah ->
  Inv (fst (exec c (e, h))) (snd (exec c (e, h))) ae' ah'.
Proof.
  induction c; intros e h ae ah ae' ah' Ha Hinv; simpl in Ha.
  - (* Skip *) inversion Ha; subst. exact Hinv.
  - (* Seq *) destruct (aexec c1 (ae, ah)) as [[ae1 ah1]|] eqn:E1; [|discriminate].
    specialize (IHc1 _ _ _ _ _ _ E1 Hinv). simpl.
    destruct (exec c1 (e, h)) as [e1 h1]. simpl in IHc1. eapply IHc2; eauto.
  - (* Repeat *) simpl. revert e h ae ah Ha Hinv. induction n; intros e h ae ah Ha Hinv; simpl in *.
    + inversion Ha; subst. exact Hinv.
    + destruct (aexec c (ae, ah)) as [[ae1 ah1]|] eqn:E1; [|discriminate].
      specialize (IHc _ _ _ _ _ _ E1 Hinv).
      destruct (exec c (e, h)) as [e1 h1]. simpl in IHc. eapply IHn; eauto.
  - (* Alloc *) inversion Ha; subst. simpl. apply inv_alloc; simpl; auto.
  - (* Copy *) inversion Ha; subst. simpl. apply inv_alloc; simpl; auto.
  - (* View *) inversion Ha; subst. simpl. eapply inv_env_change; [exact Hinv|].
    destruct Hinv as (_ & _ & _ & _ & H5). apply rel_upd; auto. apply rel_view; auto.
  - (* WriteInto *) destruct (can_write (ae x)) eqn:Ew; [|discriminate]. inversion Ha; subst. simpl.
    eapply inv_wr_buf; eauto. destruct Hinv as (_ & _ & _ & _ & H5); apply H5.
  - (* InplaceOp *) destruct (can_write (ae x)) eqn:Ew; [|discriminate]. inversion Ha; subst. simpl.
    eapply inv_wr_buf; eauto. destruct Hinv as (_ & _ & _ & _ & H5); apply H5.
  - (* ListNew *) inversion Ha; subst. simpl. apply inv_alloc; auto. simpl.
    apply Forall2_map_env. destruct Hinv as (_ & _ & _ & _ & H5); apply H5.
  - (* ListCopy *) inversion Ha; subst. simpl. apply inv_alloc; auto. simpl.
    eapply rel_copy_cell; eauto. destruct Hinv as (_ & _ & _ & _ & H5); apply H5.
  - (* ListGet *) inversion Ha; subst. simpl. eapply inv_env_change; [exact Hinv|].
    pose proof Hinv as (_ & _ & _ & _ & H5). apply rel_upd; auto. eapply rel_read_cell; eauto.
  - (* ListSet *) destruct (awr_cell (ae y) (Some (ae x)) (set_nth i (ae x)) ah) as [ah1|] eqn:E; [|discriminate].
    inversion Ha; subst. simpl. pose proof Hinv as (_ & _ & _ & _ & H5).
    eapply inv_awr_cell; eauto.
    + intros ai it H. apply Forall2_set_nth; auto.
    + simpl. intros it Hs H. apply Forall_set_nth; auto. eapply storable_rel; eauto.
  - (* ListRemove *) destruct (awr_cell (ae y) None (del_nth i) ah) as [ah1|] eqn:E; [|discriminate].
    inversion Ha; subst. simpl. pose proof Hinv as (_ & _ & _ & _ & H5).
    eapply inv_awr_cell; eauto.
    + intros ai it H. apply Forall2_del_nth; auto.
    + simpl. intros it H. apply Forall_del_nth; auto.
  - (* ListPop *) destruct (awr_cell (ae y) None (@removelast aref) ah) as [ah1|] eqn:E; [|discriminate].
    inversion Ha; subst. simpl. pose proof Hinv as (_ & _ & _ & _ & H5).
    eapply inv_awr_cell; eauto.
    + intros ai it H. apply Forall2_removelast; auto.
    + simpl. intros it H. apply Forall_removelast; auto.
  - (* ListAppend *) destruct (awr_cell (ae y) (Some (ae x)) (fun it => it ++ [ae x]) ah) as [ah1|] eqn:E; [|discriminate].
    inversion Ha; subst. simpl. pose proof Hinv as (_ & _ & _ & _ & H5).
    eapply (inv_awr_cell _ _ _ _ _ _ _ (fun it => it ++ [e x])); eauto.
    + intros ai it H. apply Forall2_snoc; auto.
    + simpl. intros it Hs H. apply Forall_app; split; auto. constructor; [|constructor]. eapply storable_rel; eauto.
  - (* Rebind *) inversion Ha; subst. simpl. eapply inv_env_change; [exact Hinv|].
    destruct Hinv as (_ & _ & _ & _ & H5). apply rel_upd; auto.
  - (* Call *)
    destruct (aexec c (call_env ANull ae args, ah)) as [[ae1 ah1]|] eqn:E1; [|discriminate].
    inversion Ha; subst. rewrite exec_call.
    assert (Hc : Inv (call_env RNull e args) h (call_env ANull ae args) ah).
    { eapply inv_env_change; [exact Hinv|]. destruct Hinv as (_ & _ & _ & _ & H5).
      intros i. unfold call_env. destruct (nth_error args i); [apply H5|reflexivity]. }
    specialize (IHc _ _ _ _ _ _ E1 Hc).
    pose proof (exec_hext c (call_env RNull e args) h) as Hx.
    simpl fst; simpl snd.
    eapply inv_env_change; [exact IHc|].
    apply rel_upd.
    + intros y. eapply inv_mono_env; eauto.
    + destruct IHc as (_ & _ & _ & _ & H5). apply H5.
Qed.

End Frame.

(* ------------------------------------------------------------------ reachability and the frame theorems *)
Definition target (r : ref) : option nat := match r with RNull => None | RObj o _ => Some o end.

Inductive reach (h : heap) (roots : list ref) : nat -> Prop :=
| reach_root : forall r o, In r roots -> target r = Some o -> reach h roots o
| reach_step : forall o it r o', reach h roots o -> nth_error h o = Some (OCell it) -> In r it -> target r = Some o' ->
    reach h roots o'.

(* every reference stored in the heap / passed as an argument designates an existing object *)
Definition closed_heap (h : heap) : Prop :=
  forall o it r o', nth_error h o = Some (OCell it) -> In r it -> target r = Some o' -> o' < length h.
Definition closed_args (h : heap) (args : list ref) : Prop :=
  forall r o, In r args -> target r = Some o -> o < length h.

Definition inplace_roots (args : list (ref * bool)) : list ref := map fst (filter snd args).

Lemma reach_closed h roots : closed_heap h -> closed_args h roots -> forall o, reach h roots o -> o < length h.
Proof. intros Hh Ha o H. induction H; eauto. Qed.

Lemma env0_rel (h0 : heap) (U : nat -> Prop) : forall args,
  (forall r o, In (r, true) args -> target r = Some o -> U o) ->
  forall x, rel h0 U h0 (aenv0 (map snd args) x) (env0 (map fst args) x).
Proof.
  unfold env0, aenv0. induction args as [|[r b] args IH]; intros H x.
  - simpl. destruct x; reflexivity.
  - destruct x; simpl.
    + destruct b; simpl; auto. destruct r as [|o2 offs]; auto. left. eapply H; [left; reflexivity|reflexivity].
    + apply IH. intros r0 o0 Hin Ht. eapply H; eauto. right; exact Hin.
Qed.

Lemma env0_rel_prot (h0 : heap) (U : nat -> Prop) : forall args x,
  rel h0 U h0 (aenv0 (repeat false (length args)) x) (env0 args x).
Proof.
  unfold env0, aenv0. induction args as [|r args IH]; intros x; simpl.
  - destruct x; reflexivity.
  - destruct x; simpl; [exact I|]. apply IH.
Qed.

(* General form: arguments flagged "in place" may be written (and whatever is reachable from them);
   every other object of the initial heap is left exactly as it was. *)
Theorem frame_inplace : forall (c : cmd) (args : list (ref * bool)) (h0 : heap),
  safe_with (map snd args) c = true ->
  closed_heap h0 -> closed_args h0 (inplace_roots args) ->
  forall o, o < length h0 -> ~ reach h0 (inplace_roots args) o ->
  nth_error (snd (exec c (env0 (map fst args), h0))) o = nth_error h0 o.
Proof.
  intros c args h0 Hs Hch Hca o Ho Hn.
  unfold safe_with in Hs.
  destruct (aexec c (aenv0 (map snd args), [])) as [[ae' ah']|] eqn:E; [|discriminate].
  set (U := reach h0 (inplace_roots args)).
  assert (HU : forall o, U o -> o < length h0) by (intros; eapply reach_closed; eauto).
  assert (Hinv : Inv h0 U (env0 (map fst args)) h0 (aenv0 (map snd args)) []).
  { split; [|split; [|split; [|split]]].
    - simpl. lia.
    - intros k ao Hk. destruct k; discriminate.
    - reflexivity.
    - intros o' it Hu Hit. apply Forall_forall. intros r Hr. simpl. destruct r as [|o2 offs]; auto.
      left. eapply reach_step; eauto; reflexivity.
    - apply env0_rel. intros r o2 Hin Ht. eapply reach_root; eauto.
      unfold inplace_roots. apply in_map_iff. exists (r, true). split; auto. apply filter_In. split; auto. }
  pose proof (simulation h0 U HU c _ _ _ _ _ _ E Hinv) as (_ & _ & H3 & _ & _).
  apply H3; auto.
Qed.

(* The frame theorem of the property: no argument is flagged, the program is safe =>
   NO object of the initial heap changes, for ALL initial heaps (closed or not) and ALL argument tuples.
   In particular every buffer and every cell reachable from an argument is bit-for-bit what it was. *)
Theorem frame : forall (c : cmd) (args : list ref) (h0 : heap),
  safe (length args) c = true ->
  forall o, o < length h0 -> nth_error (snd (exec c (env0 args, h0))) o = nth_error h0 o.
Proof.
  intros c args h0 Hs o Ho. unfold safe, safe_with in Hs.
  destruct (aexec c (aenv0 (repeat false (length args)), [])) as [[ae' ah']|] eqn:E; [|discriminate].
  assert (HU : forall o, False -> o < length h0) by (intros ? []).
  assert (Hinv : Inv h0 (fun _ => False) (env0 args) h0 (aenv0 (repeat false (length args))) []).
  { split; [|split; [|split; [|split]]].
    - simpl. lia.
    - intros k ao Hk. destruct k; discriminate.
    - reflexivity.
    - intros o' it [].
    - apply env0_rel_prot. }
  pose proof (simulation h0 (fun _ => False) HU c _ _ _ _ _ _ E Hinv) as (_ & _ & H3 & _ & _).
  apply H3; auto.
Qed.

Corollary frame_reachable : forall (c : cmd) (args : list ref) (h0 : heap),
  safe (length args) c = true ->
  forall o, reach h0 args o -> o < length h0 ->
  nth_error (snd (exec c (env0 args, h0))) o = nth_error h0 o.
Proof. intros. apply frame; auto. Qed.

Lemma obj_eqb_refl a : obj_eqb a a = true.
Proof.
  assert (Hl1 : forall l, list_eqb Nat.eqb l l = true) by (induction l; simpl; auto; rewrite Nat.eqb_refl; auto).
  assert (Hl2 : forall l, list_eqb Z.eqb l l = true) by (induction l; simpl; auto; rewrite Z.eqb_refl; auto).
  destruct a; simpl; auto. induction items as [|r items IHi]; simpl; auto.
  rewrite IHi, andb_true_r. destruct r; simpl; auto. rewrite Nat.eqb_refl, Hl1. reflexivity.
Qed.

Corollary frame_footprint : forall (c : cmd) (args : list ref) (h0 : heap),
  safe (length args) c = true -> footprint c args h0 = [].
Proof.
  intros c args h0 Hs. unfold footprint.
  assert (H : forall l, (forall o, In o l -> o < length h0) ->
    filter (fun o => match nth_error h0 o, nth_error (snd (exec c (env0 args, h0))) o with
                     | Some a, Some b => negb (obj_eqb a b) | _, _ => true end) l = []).
  { induction l as [|o l IH]; intros Hl; simpl; auto.
    rewrite (frame c args h0 Hs o) by (apply Hl; left; auto).
    destruct (nth_error h0 o) as [a|] eqn:E.
    - assert (obj_eqb a a = true) by apply obj_eqb_refl.
      rewrite H. simpl. apply IH. intros; apply Hl; right; auto.
    - exfalso. apply nth_error_None in E. specialize (Hl o (or_introl eq_refl)). lia. }
  apply H. intros o Ho. apply in_seq in Ho. lia.
Qed.
