(* C15 -- (1) early exits: a program interrupted after any number of primitive effects (an exception propagating
   to the caller) still leaves the caller's heap untouched when `safe` accepts it; (2) order-generic skeleton
   families: `safe` for every number of modes, sweeps, list lengths (induction, no enumeration);
   (3) process_regularization_weights: the code as it is writes into the caller's lists. *)
From Coq Require Import List Arith ZArith Bool Lia.
From TLV Require Import Model.Effects Proofs.EffectsProofs.
Import ListNotations.

(* ------------------------------------------------------------------ run vs exec *)
Fixpoint size (c : cmd) : nat :=
  match c with
  | Seq a b => size a + size b
  | Repeat k a => k * size a
  | Call _ b _ _ => size b
  | _ => 1
  end.

Lemma run_complete : forall c n s s' m, run c n s = (s', Some m) -> s' = exec c s.
Proof.
  induction c; intros n0 s s' m H; simpl in H;
    try (destruct n0; [discriminate|]; inversion H; reflexivity).
  - (* Seq *) destruct (run c1 n0 s) as [s1 [m1|]] eqn:R1; [|discriminate].
    apply IHc1 in R1. subst s1. apply IHc2 in H. simpl. destruct s. exact H.
  - (* Repeat *) destruct s as [e h]. simpl. revert n0 e h H. induction n; intros n0 e h H; simpl in *.
    + inversion H; reflexivity.
    + destruct (run c n0 (e, h)) as [s1 [m1|]] eqn:R1; [|discriminate].
      apply IHc in R1. subst s1. destruct (exec c (e, h)) as [e1 h1]. eapply IHn; eauto.
  - (* Call *) destruct s as [e h].
    destruct (run c n0 (call_env RNull e args, h)) as [[e' h'] [m'|]] eqn:R1; [|discriminate].
    apply IHc in R1. inversion H; subst. simpl. rewrite <- R1. reflexivity.
Qed.

Lemma run_size : forall c m s, run c (size c + m) s = (exec c s, Some m).
Proof.
  induction c; intros m s; try reflexivity.
  - (* Seq *) simpl. rewrite <- Nat.add_assoc. rewrite IHc1. rewrite IHc2. destruct s; reflexivity.
  - (* Repeat *) destruct s as [e h]. simpl. revert m e h. induction n; intros m e h; simpl.
    + reflexivity.
    + rewrite <- Nat.add_assoc. rewrite IHc. destruct (exec c (e, h)) as [e1 h1]. apply IHn.
  - (* Call *) destruct s as [e h]. simpl. rewrite IHc. destruct (exec c (call_env RNull e args, h)). reflexivity.
Qed.

(* ------------------------------------------------------------------ the invariant survives an interruption *)
Section RunSim.
Variable h0 : heap.
Variable U : nat -> Prop.
Hypothesis U_init : forall o, U o -> o < length h0.

Definition heap_ok (h : heap) : Prop := exists e ae ah, Inv h0 U e h ae ah.

Lemma run_raise_ok : forall c n e h ae ah ae' ah' s2,
  aexec c (ae, ah) = Some (ae', ah') -> Inv h0 U e h ae ah -> run c n (e, h) = (s2, None) -> heap_ok (snd s2).
Proof.
  induction c; intros n0 e h ae ah ae' ah' s2 Ha Hinv Hr; simpl in Hr;
    try (destruct n0; [|discriminate]; inversion Hr; subst; simpl; exists e, ae, ah; exact Hinv).
  - (* Seq *) simpl in Ha. destruct (aexec c1 (ae, ah)) as [[ae1 ah1]|] eqn:E1; [|discriminate].
    destruct (run c1 n0 (e, h)) as [[e1 h1] [m1|]] eqn:R1.
    + pose proof (run_complete _ _ _ _ _ R1) as Hc.
      pose proof (simulation h0 U U_init c1 _ _ _ _ _ _ E1 Hinv) as Hs. rewrite <- Hc in Hs. simpl in Hs.
      eapply IHc2; eauto.
    + inversion Hr; subst. eapply IHc1; eauto.
  - (* Repeat *) simpl in Ha. revert n0 e h ae ah Ha Hinv Hr. induction n; intros n0 e h ae ah Ha Hinv Hr; simpl in *.
    + discriminate.
    + destruct (aexec c (ae, ah)) as [[ae1 ah1]|] eqn:E1; [|discriminate].
      destruct (run c n0 (e, h)) as [[e1 h1] [m1|]] eqn:R1.
      * pose proof (run_complete _ _ _ _ _ R1) as Hc.
        pose proof (simulation h0 U U_init c _ _ _ _ _ _ E1 Hinv) as Hs. rewrite <- Hc in Hs. simpl in Hs.
        eapply IHn; eauto.
      * inversion Hr; subst. eapply IHc; eauto.
  - (* Call *) simpl in Ha.
    destruct (aexec c (call_env ANull ae args, ah)) as [[ae1 ah1]|] eqn:E1; [|discriminate].
    destruct (run c n0 (call_env RNull e args, h)) as [[e' h'] [m'|]] eqn:R1; [discriminate|].
    inversion Hr; subst. simpl.
    assert (Hc : Inv h0 U (call_env RNull e args) h (call_env ANull ae args) ah).
    { eapply inv_env_change; [exact Hinv|]. destruct Hinv as (_ & _ & _ & _ & H5).
      intros i. unfold call_env. destruct (nth_error args i); [apply H5|reflexivity]. }
    pose proof (IHc _ _ _ _ _ _ _ _ E1 Hc R1) as H. exact H.
Qed.

Lemma run_protected : forall c n e h ae ah ae' ah',
  aexec c (ae, ah) = Some (ae', ah') -> Inv h0 U e h ae ah ->
  forall o, o < length h0 -> ~ U o -> nth_error (snd (fst (run c n (e, h)))) o = nth_error h0 o.
Proof.
  intros c n e h ae ah ae' ah' Ha Hinv o Ho Hn.
  destruct (run c n (e, h)) as [[e2 h2] [m|]] eqn:R.
  - pose proof (run_complete _ _ _ _ _ R) as Hc.
    pose proof (simulation h0 U U_init c _ _ _ _ _ _ Ha Hinv) as (_ & _ & H3 & _ & _).
    rewrite <- Hc in H3. simpl in *. apply H3; auto.
  - destruct (run_raise_ok _ _ _ _ _ _ _ _ _ Ha Hinv R) as (e3 & ae3 & ah3 & (_ & _ & H3 & _ & _)).
    simpl in *. apply H3; auto.
Qed.
End RunSim.

(* the frame theorem with early exits: interrupted after ANY number n of primitive effects *)
Theorem frame_raise : forall (c : cmd) (args : list ref) (h0 : heap),
  safe (length args) c = true ->
  forall n o, o < length h0 -> nth_error (snd (fst (run c n (env0 args, h0)))) o = nth_error h0 o.
Proof.
  intros c args h0 Hs n o Ho. unfold safe, safe_with in Hs.
  destruct (aexec c (aenv0 (repeat false (length args)), [])) as [[ae' ah']|] eqn:E; [|discriminate].
  assert (HU : forall o, False -> o < length h0) by (intros ? []).
  assert (Hinv : Inv h0 (fun _ => False) (env0 args) h0 (aenv0 (repeat false (length args))) []).
  { split; [|split; [|split; [|split]]].
    - simpl. lia.
    - intros k ao Hk. destruct k; discriminate.
    - reflexivity.
    - intros o' it [].
    - apply env0_rel_prot. }
  eapply (run_protected h0 (fun _ => False) HU); eauto.
Qed.

Theorem frame_inplace_raise : forall (c : cmd) (args : list (ref * bool)) (h0 : heap),
  safe_with (map snd args) c = true ->
  closed_heap h0 -> closed_args h0 (inplace_roots args) ->
  forall n o, o < length h0 -> ~ reach h0 (inplace_roots args) o ->
  nth_error (snd (fst (run c n (env0 (map fst args), h0)))) o = nth_error h0 o.
Proof.
  intros c args h0 Hs Hch Hca n o Ho Hn.
  unfold safe_with in Hs.
  destruct (aexec c (aenv0 (map snd args), [])) as [[ae' ah']|] eqn:E; [|discriminate].
  set (U := reach h0 (inplace_roots args)).
  assert (HU : forall o, U o -> o < length h0) by (intros; eapply reach_closed; eauto).
  assert (Hinv : Inv h0 U (env0 (map fst args)) h0 (aenv0 (map snd args)) []).
  { split; [|split; [|split; [|split]]].
    - simpl. lia.
    - intros k ao Hk. destruct k; discriminate.
    - reflexivity.
    - intros o' it Hu Hit. apply Forall_forall. intros r Hr. simpl. destruct r as [|o2 offs]; auto.
      left. eapply reach_step; eauto; reflexivity.
    - apply env0_rel. intros r o2 Hin Ht. eapply reach_root; eauto.
      unfold inplace_roots. apply in_map_iff. exists (r, true). split; auto. apply filter_In. split; auto. }
  eapply (run_protected h0 U HU); eauto.
Qed.

(* ------------------------------------------------------------------ Hoare-style reasoning about aexec *)
Definition hoare (P : astate -> Prop) (c : cmd) (Q : astate -> Prop) : Prop :=
  forall s, P s -> exists s', aexec c s = Some s' /\ Q s'.

Lemma aexec_Seq c1 c2 s : aexec (Seq c1 c2) s = match aexec c1 s with Some s1 => aexec c2 s1 | None => None end.
Proof. destruct s; reflexivity. Qed.
Lemma aexec_Repeat n c s : aexec (Repeat n c) s = oiter n (aexec c) s.
Proof. destruct s; reflexivity. Qed.
Lemma aexec_Skip s : aexec Skip s = Some s.
Proof. destruct s; reflexivity. Qed.

Lemma hoare_Seq P Q R c1 c2 : hoare P c1 Q -> hoare Q c2 R -> hoare P (Seq c1 c2) R.
Proof.
  intros H1 H2 s Hs. destruct (H1 s Hs) as (s1 & E1 & Q1). destruct (H2 s1 Q1) as (s2 & E2 & R2).
  exists s2. rewrite aexec_Seq, E1. auto.
Qed.
Lemma hoare_Skip P : hoare P Skip P.
Proof. intros s Hs. exists s. rewrite aexec_Skip. auto. Qed.
Lemma hoare_conseq (P P' Q Q' : astate -> Prop) c :
  (forall s, P' s -> P s) -> (forall s, Q s -> Q' s) -> hoare P c Q -> hoare P' c Q'.
Proof. intros HP HQ H s Hs. destruct (H s (HP s Hs)) as (s' & E & Hq). eauto. Qed.
Lemma hoare_seq_list P cs : Forall (fun c => hoare P c P) cs -> hoare P (seq cs) P.
Proof.
  induction 1; simpl; [apply hoare_Skip|]. eapply hoare_Seq; eauto.
Qed.
Lemma hoare_seq_map {A} P (f : A -> cmd) l : (forall a, hoare P (f a) P) -> hoare P (seq (map f l)) P.
Proof. intros H. apply hoare_seq_list. apply Forall_forall. intros c Hc. apply in_map_iff in Hc. destruct Hc as (a & <- & _). apply H. Qed.
Lemma hoare_seq_app P Q R l1 l2 : hoare P (seq l1) Q -> hoare Q (seq l2) R -> hoare P (seq (l1 ++ l2)) R.
Proof.
  revert P. induction l1 as [|c l1 IH]; intros P H1 H2; simpl in *.
  - intros s Hs. destruct (H1 s Hs) as (s1 & E1 & Q1). rewrite aexec_Skip in E1. inversion E1; subst. apply H2; auto.
  - intros s Hs. destruct (H1 s Hs) as (s2 & E & Q2). rewrite aexec_Seq in E.
    destruct (aexec c s) as [s1|] eqn:E1; [|discriminate].
    assert (Hl : hoare (fun t => t = s1) (seq l1) Q).
    { intros t ->. eauto. }
    destruct (IH _ Hl H2 s1 eq_refl) as (s3 & E3 & R3). exists s3. rewrite aexec_Seq, E1. auto.
Qed.
Lemma hoare_Repeat P n c : hoare P c P -> hoare P (Repeat n c) P.
Proof.
  intros H. induction n; intros s Hs; rewrite aexec_Repeat; simpl.
  - eauto.
  - destruct (H s Hs) as (s1 & E1 & P1). rewrite E1. specialize (IHn s1 P1). rewrite aexec_Repeat in IHn. exact IHn.
Qed.

(* the variable `v` holds a reference to an object allocated by this run *)
Definition fresh_at (v : var) (s : astate) : Prop := exists k, fst s v = AFresh k.
Definition fresh2 (v w : var) (s : astate) : Prop := fresh_at v s /\ fresh_at w s.

Lemma hoare_ListGet_other v x y i : x <> v -> hoare (fresh_at v) (ListGet x y i) (fresh_at v).
Proof.
  intros Hne [e ah] [k Hk]. simpl in *. eexists; split; [reflexivity|]. exists k. simpl. unfold upd.
  destruct (Nat.eqb_spec v x); [congruence|auto].
Qed.

Lemma read_all_fresh v factors N : v <> 30 -> hoare (fresh_at v) (read_all factors N) (fresh_at v).
Proof. intros H. unfold read_all. apply hoare_seq_map. intros i. apply hoare_ListGet_other. congruence. Qed.

(* ------------------------------------------------------------------ order-generic families *)
Lemma als_mode_gen_fresh N mode : hoare (fresh_at 24) (als_mode_gen 24 N mode) (fresh_at 24).
Proof.
  unfold als_mode_gen.
  change (seq [read_all 24 N; Alloc 33 4; InplaceOp 33 2; Alloc 34 2; Alloc 35 2; View 36 35 [1; 0]; ListSet 24 mode 36])
    with (seq ([read_all 24 N] ++ [Alloc 33 4; InplaceOp 33 2; Alloc 34 2; Alloc 35 2; View 36 35 [1; 0]; ListSet 24 mode 36])).
  eapply hoare_seq_app.
  - simpl. eapply hoare_Seq; [apply read_all_fresh; congruence|apply hoare_Skip].
  - intros [e ah] [k Hk]. simpl in *. unfold upd at 1. simpl.
    unfold upd; simpl. rewrite Hk. simpl. eexists; split; [reflexivity|]. exists k. simpl. exact Hk.
Qed.

Lemma masked_update_fresh v tensor mask : v <> tensor -> v <> 21 ->
  hoare (fresh_at v) (sk_masked_update tensor mask) (fresh_at v).
Proof.
  intros H1 H2 [e ah] [k Hk]. simpl in *. eexists; split; [reflexivity|]. exists k. simpl. unfold upd.
  destruct (Nat.eqb_spec v tensor); [congruence|]. destruct (Nat.eqb_spec v 21); [congruence|]. exact Hk.
Qed.

Definition init4 : astate := (aenv0 (repeat false 4), []).
Definition init3 : astate := (aenv0 (repeat false 3), []).

Lemma safe_of_hoare n c (Q : astate -> Prop) : hoare (fun s => s = (aenv0 (repeat false n), [])) c Q -> safe n c = true.
Proof.
  intros H. unfold safe, safe_with. destruct (H _ eq_refl) as (s' & E & _). rewrite E. reflexivity.
Qed.

(* parafac with a user initialisation, any order N, any number of sweeps, any fixed-modes list, any update order *)
Lemma parafac_gen_prefix N fmlen rm :
  hoare (fun s => s = init4)
        (seq [Call 22 (sk_initialize_cp_gen N) [0; 1] 17; ListGet 23 22 0; ListGet 24 22 1; sk_fixed_modes_gen 2 fmlen rm])
        (fresh_at 24).
Proof.
  intros s ->. unfold init4. destruct rm as [i|]; simpl; (eexists; split; [reflexivity|]); exists 0; reflexivity.
Qed.

Theorem parafac_gen_safe : forall N sweeps fmlen rm modes, safe 4 (sk_parafac_gen N sweeps fmlen rm modes) = true.
Proof.
  intros. apply (safe_of_hoare 4 _ (fun _ => True)). unfold sk_parafac_gen.
  change (seq [Call 22 (sk_initialize_cp_gen N) [0; 1] 17; ListGet 23 22 0; ListGet 24 22 1; sk_fixed_modes_gen 2 fmlen rm;
               Repeat sweeps (Seq (seq (map (als_mode_gen 24 N) modes)) (sk_masked_update 0 3)); CPTENSOR 25 23 24])
    with (seq ([Call 22 (sk_initialize_cp_gen N) [0; 1] 17; ListGet 23 22 0; ListGet 24 22 1; sk_fixed_modes_gen 2 fmlen rm] ++
               [Repeat sweeps (Seq (seq (map (als_mode_gen 24 N) modes)) (sk_masked_update 0 3)); CPTENSOR 25 23 24])).
  eapply hoare_seq_app; [apply parafac_gen_prefix|].
  simpl. eapply hoare_Seq.
  - apply hoare_Repeat. eapply hoare_Seq.
    + apply hoare_seq_map. intros m. apply als_mode_gen_fresh.
    + apply masked_update_fresh; congruence.
  - intros [e ah] _. simpl. eexists; split; [reflexivity|exact I].
Qed.

(* non_negative_parafac_hals with a user initialisation *)
Lemma hals_mode_gen_fresh N mode : hoare (fresh_at 24) (hals_mode_gen 24 N mode) (fresh_at 24).
Proof.
  unfold hals_mode_gen.
  change (seq [read_all 24 N; Alloc 33 4; Alloc 34 2; View 37 34 [1; 0]; ListGet 38 24 mode; View 39 38 [1; 0]; Copy 40 39;
               Call 41 sk_hals_nnls [37; 33; 40] 11; View 42 41 [1; 0]; ListSet 24 mode 42])
    with (seq ([read_all 24 N] ++ [Alloc 33 4; Alloc 34 2; View 37 34 [1; 0]; ListGet 38 24 mode; View 39 38 [1; 0]; Copy 40 39;
               Call 41 sk_hals_nnls [37; 33; 40] 11; View 42 41 [1; 0]; ListSet 24 mode 42])).
  eapply hoare_seq_app.
  - simpl. eapply hoare_Seq; [apply read_all_fresh; congruence|apply hoare_Skip].
  - intros [e ah] [k Hk]. simpl in *. unfold upd; simpl. unfold call_env; simpl. rewrite Hk. simpl.
    eexists; split; [reflexivity|]. exists k. simpl. exact Hk.
Qed.

Lemma listset_fresh_list v x l : hoare (fresh_at v) (seq (map (fun i => ListSet v i x) l)) (fresh_at v).
Proof.
  apply hoare_seq_map. intros i [e ah] [k Hk]. simpl in *. rewrite Hk. simpl. eexists; split; [reflexivity|]. exists k. exact Hk.
Qed.

Lemma hals_gen_prefix N sclen fmlen :
  hoare (fun s => s = init4)
        (seq [Call 22 (sk_initialize_cp_gen N) [0; 1] 17; ListGet 23 22 0; ListGet 24 22 1; ListCopy 26 2 sclen; ListCopy 20 3 fmlen])
        (fresh2 24 26).
Proof.
  intros s ->. unfold init4. simpl. eexists; split; [reflexivity|]. split; [exists 0|exists 3]; reflexivity.
Qed.

Theorem nn_parafac_hals_gen_safe : forall N sweeps sclen fmlen fixed modes,
  safe 4 (sk_nn_parafac_hals_gen N sweeps sclen fmlen fixed modes) = true.
Proof.
  intros. apply (safe_of_hoare 4 _ (fun _ => True)). unfold sk_nn_parafac_hals_gen.
  change (seq [Call 22 (sk_initialize_cp_gen N) [0; 1] 17; ListGet 23 22 0; ListGet 24 22 1; ListCopy 26 2 sclen; ListCopy 20 3 fmlen;
               seq (map (fun i => ListSet 26 i 27) fixed); Repeat sweeps (seq (map (hals_mode_gen 24 N) modes)); CPTENSOR 25 23 24])
    with (seq ([Call 22 (sk_initialize_cp_gen N) [0; 1] 17; ListGet 23 22 0; ListGet 24 22 1; ListCopy 26 2 sclen; ListCopy 20 3 fmlen] ++
               [seq (map (fun i => ListSet 26 i 27) fixed); Repeat sweeps (seq (map (hals_mode_gen 24 N) modes)); CPTENSOR 25 23 24])).
  eapply hoare_seq_app; [apply hals_gen_prefix|].
  simpl. eapply hoare_Seq; [|eapply hoare_Seq].
  - (* sparsity_coefficients[fixed] = None on the copy *)
    instantiate (1 := fresh_at 24).
    intros s [H24 H26]. destruct (listset_fresh_list 26 27 fixed s H26) as (s' & E & _). exists s'. split; auto.
    (* ListSet through a fresh cell never changes the environment *)
    clear H26. revert s s' H24 E. induction fixed as [|i l IH]; intros [e ah] s' H24 E; simpl in E.
    + inversion E; subst. exact H24.
    + destruct (awr_cell (e 26) (Some (e 27)) (set_nth i (e 27)) ah) as [ah1|] eqn:Ew; [|discriminate].
      eapply (IH (e, ah1)); eauto.
  - apply hoare_Repeat. apply hoare_seq_map. intros m. apply hals_mode_gen_fresh.
  - eapply hoare_Seq; [|apply hoare_Skip]. intros [e ah] _. simpl. eexists; split; [reflexivity|exact I].
Qed.

(* tucker with a user initialisation and a mask *)
Lemma tucker_gen_prefix N :
  hoare (fun s => s = init3)
        (seq [Call 22 (sk_initialize_tucker_gen N) [0; 1] 13; ListGet 23 22 0; ListGet 24 22 1]) (fresh_at 24).
Proof. intros s ->. unfold init3. simpl. eexists; split; [reflexivity|]. exists 0. reflexivity. Qed.

Theorem tucker_gen_safe : forall N sweeps modes, safe 3 (sk_tucker_gen N sweeps modes) = true.
Proof.
  intros. apply (safe_of_hoare 3 _ (fun _ => True)). unfold sk_tucker_gen.
  match goal with |- hoare _ (seq [?a; ?b; ?c; ?d; ?e]) _ => change (seq [a; b; c; d; e]) with (seq ([a; b; c] ++ [d; e])) end.
  eapply hoare_seq_app; [apply tucker_gen_prefix|].
  simpl. eapply hoare_Seq.
  - apply hoare_Repeat. eapply hoare_Seq; [apply masked_update_fresh; congruence|].
    eapply hoare_Seq; [|eapply hoare_Seq; [|apply hoare_Skip]].
    + apply hoare_seq_map. intros m [e ah] [k Hk]. simpl in *. unfold upd; simpl. rewrite Hk. simpl.
      eexists; split; [reflexivity|]. exists k. exact Hk.
    + intros [e ah] [k Hk]. simpl in *. eexists; split; [reflexivity|]. exists k. exact Hk.
  - eapply hoare_Seq; [|apply hoare_Skip]. intros [e ah] _. simpl. eexists; split; [reflexivity|exact I].
Qed.

Theorem initialize_cp_gen_safe : forall N, safe 2 (sk_initialize_cp_gen N) = true.
Proof. intros N. reflexivity. Qed.
Theorem initialize_tucker_gen_safe : forall N, safe 2 (sk_initialize_tucker_gen N) = true.
Proof. intros N. reflexivity. Qed.

(* frame statements of the families: all orders, sweeps, heaps, aliasing patterns and interruption points *)
Definition unchanged_even_if_interrupted (nargs : nat) (c : cmd) : Prop :=
  forall (args : list ref) (h0 : heap) (n o : nat), length args = nargs -> o < length h0 ->
    nth_error (snd (fst (run c n (env0 args, h0)))) o = nth_error h0 o.

Lemma safe_unchanged_raise nargs c : safe nargs c = true -> unchanged_even_if_interrupted nargs c.
Proof. intros H args h0 n o Hl Ho. subst nargs. apply frame_raise; auto. Qed.

Theorem parafac_gen_frame : forall N sweeps fmlen rm modes,
  unchanged_even_if_interrupted 4 (sk_parafac_gen N sweeps fmlen rm modes).
Proof. intros. apply safe_unchanged_raise, parafac_gen_safe. Qed.
Theorem nn_parafac_hals_gen_frame : forall N sweeps sclen fmlen fixed modes,
  unchanged_even_if_interrupted 4 (sk_nn_parafac_hals_gen N sweeps sclen fmlen fixed modes).
Proof. intros. apply safe_unchanged_raise, nn_parafac_hals_gen_safe. Qed.
Theorem tucker_gen_frame : forall N sweeps modes, unchanged_even_if_interrupted 3 (sk_tucker_gen N sweeps modes).
Proof. intros. apply safe_unchanged_raise, tucker_gen_safe. Qed.

(* the generic skeletons at order 3 / two sweeps have the same footprint behaviour as the hand-written ones *)
Lemma gen_instances_demo :
  footprint (sk_parafac_gen 3 2 2 (Some 1) [0; 1; 2]) demo_args demo_heap = [] /\
  footprint (sk_nn_parafac_hals_gen 3 2 2 2 [0] [1; 2]) demo_args demo_heap = [].
Proof. vm_compute. split; reflexivity. Qed.

(* ------------------------------------------------------------------ process_regularization_weights *)
(* the current code (list arguments copied first, fix 58815dd) is safe for every pattern of assignments *)
Lemma prw_writes_fresh nr ns dg mx : hoare (fresh2 20 21) (prw_writes 20 21 nr ns dg mx) (fresh2 20 21).
Proof.
  unfold prw_writes.
  assert (H1 : forall i, hoare (fresh2 20 21) (Seq (Alloc 10 1) (ListSet 20 i 10)) (fresh2 20 21)).
  { intros i [e ah] [[k Hk] [k' Hk']]. simpl in *. unfold upd; simpl. rewrite Hk. simpl.
    eexists; split; [reflexivity|]. split; [exists k|exists k']; simpl; auto. }
  assert (H2 : forall i, hoare (fresh2 20 21) (Seq (Alloc 10 1) (ListSet 21 i 10)) (fresh2 20 21)).
  { intros i [e ah] [[k Hk] [k' Hk']]. simpl in *. unfold upd; simpl. rewrite Hk'. simpl.
    eexists; split; [reflexivity|]. split; [exists k|exists k']; simpl; auto. }
  assert (H3 : forall i, hoare (fresh2 20 21) (Seq (ListGet 11 21 mx) (ListSet 20 i 11)) (fresh2 20 21)).
  { intros i [e ah] [[k Hk] [k' Hk']]. simpl in *. unfold upd; simpl. rewrite Hk. simpl.
    eexists; split; [reflexivity|]. split; [exists k|exists k']; simpl; auto. }
  eapply hoare_seq_app; [apply hoare_seq_map; exact H1|].
  eapply hoare_seq_app; [apply hoare_seq_map; exact H2|apply hoare_seq_map; exact H3].
Qed.

Theorem prw_safe : forall n nr ns dg mx, safe 2 (sk_prw n nr ns dg mx) = true.
Proof.
  intros. apply (safe_of_hoare 2 _ (fun _ => True)). unfold sk_prw.
  match goal with |- hoare _ (seq [?a; ?b; ?c; ?d]) _ => change (seq [a; b; c; d]) with (seq ([a; b] ++ [c; d])) end.
  eapply hoare_seq_app.
  - instantiate (1 := fresh2 20 21). intros s ->. simpl. eexists; split; [reflexivity|]. split; [exists 0|exists 1]; reflexivity.
  - simpl. eapply hoare_Seq; [apply prw_writes_fresh|].
    eapply hoare_Seq; [|apply hoare_Skip]. intros [e ah] _. simpl. eexists; split; [reflexivity|exact I].
Qed.
Theorem prw_frame : forall n nr ns dg mx, unchanged_even_if_interrupted 2 (sk_prw n nr ns dg mx).
Proof. intros. apply safe_unchanged_raise, prw_safe. Qed.

(* sensitivity: the code before the fix is rejected for every non-empty pattern and did rewrite a caller-owned list *)
Theorem old_prw_unsafe : forall nr ns dg mx, nr ++ ns ++ dg <> [] -> safe 2 (old_prw nr ns dg mx) = false.
Proof.
  intros nr ns dg mx H. destruct nr as [|i nr]; [destruct ns as [|i ns]; [destruct dg as [|i dg]; [contradiction|]|]|]; reflexivity.
Qed.

Definition prw_heap : heap := [ OCell [RNull; RObj 2 [0]]; OCell [RObj 3 [0]; RNull]; OBuf [5%Z]; OBuf [1%Z] ].
Definition prw_args : list ref := [ RObj 0 []; RObj 1 [] ].

Lemma old_prw_changes_arguments :
  footprint (old_prw [0] [1] [] 0) prw_args prw_heap = [0; 1] /\ footprint (sk_prw 2 [0] [1] [] 0) prw_args prw_heap = [].
Proof. vm_compute. split; reflexivity. Qed.

(* non-vacuity of the interruption semantics: the pre-fix parafac interrupted after 10 primitive effects HAS already
   changed the caller's factor list (object 5) but not yet the fixed_modes list (object 7); 100 steps complete it *)
Lemma run_nonvacuous :
  snd (run old_parafac 10 (env0 demo_args, demo_heap)) = None /\
  nth_error (snd (fst (run old_parafac 10 (env0 demo_args, demo_heap)))) 5 <> nth_error demo_heap 5 /\
  nth_error (snd (fst (run old_parafac 10 (env0 demo_args, demo_heap)))) 7 = nth_error demo_heap 7 /\
  snd (run old_parafac 100 (env0 demo_args, demo_heap)) = Some 12 /\
  snd (run sk_parafac 40 (env0 demo_args, demo_heap)) = None.
Proof. vm_compute. repeat split; try reflexivity. discriminate. Qed.
(* ------------------------------------------------------------------ mutator methods: only the receiver object changes *)
Fixpoint assigns (x : var) (c : cmd) : bool :=
  match c with
  | Skip | WriteInto _ _ | InplaceOp _ _ | ListSet _ _ _ | ListRemove _ _ | ListPop _ | ListAppend _ _ => false
  | Seq a b => assigns x a || assigns x b
  | Repeat _ a => assigns x a
  | Alloc y _ | Copy y _ | View y _ _ | ListNew y _ | ListCopy y _ _ | ListGet y _ _ | Rebind y _ | Call y _ _ _ => Nat.eqb x y
  end.

Lemma exec_env_unassigned : forall c x e h, assigns x c = false -> fst (exec c (e, h)) x = e x.
Proof.
  induction c; intros x0 e h H; simpl in H; try reflexivity;
    try (simpl; unfold upd; rewrite H; reflexivity).
  - (* Seq *) apply orb_false_iff in H. destruct H as [H1 H2]. simpl.
    destruct (exec c1 (e, h)) as [e1 h1] eqn:E1. rewrite IHc2 by exact H2.
    specialize (IHc1 x0 e h H1). rewrite E1 in IHc1. exact IHc1.
  - (* Repeat *) simpl. revert e h. induction n; intros e h; simpl; [reflexivity|].
    destruct (exec c (e, h)) as [e1 h1] eqn:E1. rewrite IHn.
    specialize (IHc x0 e h H). rewrite E1 in IHc. exact IHc.
  - (* Call *) rewrite exec_call. simpl. unfold upd. rewrite H. reflexivity.
Qed.

Lemma exec_seq_app : forall l1 l2 s, exec (seq (l1 ++ l2)) s = exec (seq l2) (exec (seq l1) s).
Proof.
  induction l1 as [|c l1 IH]; intros l2 s; simpl.
  - destruct s; reflexivity.
  - destruct s as [e h]. simpl. rewrite IH. reflexivity.
Qed.

Lemma wr_cell_other r g h o : target r <> Some o -> nth_error (wr_cell r g h) o = nth_error h o.
Proof.
  destruct r as [|o' offs]; simpl; intros H; [reflexivity|].
  rewrite nth_error_modify. destruct (Nat.eqb_spec o o'); [subst; congruence|reflexivity].
Qed.

(* a safe computation followed by assignments to attributes of the receiver `self` (variable 0) *)
Theorem method_frame : forall (pre : list cmd) (sets : list (nat * var)) (args : list ref) (h0 : heap),
  safe (length args) (seq pre) = true -> assigns 0 (seq pre) = false ->
  forall o, o < length h0 -> target (nth 0 args RNull) <> Some o ->
  nth_error (snd (exec (seq (pre ++ map (fun p => ListSet 0 (fst p) (snd p)) sets)) (env0 args, h0))) o = nth_error h0 o.
Proof.
  intros pre sets args h0 Hs Ha o Ho Ht. rewrite exec_seq_app.
  pose proof (frame (seq pre) args h0 Hs o Ho) as Hf.
  pose proof (exec_env_unassigned (seq pre) 0 (env0 args) h0 Ha) as He.
  destruct (exec (seq pre) (env0 args, h0)) as [e1 h1]. simpl in Hf, He.
  assert (He' : target (e1 0) <> Some o) by (rewrite He; exact Ht).
  clear Hs Ha He Ht. revert e1 h1 Hf He'. induction sets as [|[i x] sets IH]; intros e1 h1 Hf He'; simpl.
  - exact Hf.
  - apply IH; [|exact He']. rewrite wr_cell_other; auto.
Qed.

Definition cp_normalize_method_pre : list cmd := [Call 20 sk_cp_normalize [0] 18; ListGet 21 20 0; ListGet 22 20 1].
Definition tucker_normalize_method_pre : list cmd := [Call 20 sk_tucker_normalize [0] 18; ListGet 21 20 0; ListGet 22 20 1].

Lemma cp_normalize_method_shape :
  sk_cp_normalize_method = seq (cp_normalize_method_pre ++ map (fun p => ListSet 0 (fst p) (snd p)) [(0, 21); (1, 22)]) /\
  sk_tucker_normalize_method = seq (tucker_normalize_method_pre ++ map (fun p => ListSet 0 (fst p) (snd p)) [(0, 21); (1, 22)]).
Proof. split; reflexivity. Qed.

(* CPTensor.normalize() / TuckerTensor.normalize(): of the caller's heap ONLY the receiver object (its attribute table)
   changes - the old weights / core / factor arrays and the old factor list are untouched, whatever aliases exist *)
Theorem cp_normalize_method_frame : forall (self : ref) (h0 : heap) (o : nat), o < length h0 -> target self <> Some o ->
  nth_error (snd (exec sk_cp_normalize_method (env0 [self], h0))) o = nth_error h0 o.
Proof.
  intros self h0 o Ho Ht. rewrite (proj1 cp_normalize_method_shape).
  apply (method_frame cp_normalize_method_pre [(0, 21); (1, 22)] [self] h0); auto.
Qed.
Theorem tucker_normalize_method_frame : forall (self : ref) (h0 : heap) (o : nat), o < length h0 -> target self <> Some o ->
  nth_error (snd (exec sk_tucker_normalize_method (env0 [self], h0))) o = nth_error h0 o.
Proof.
  intros self h0 o Ho Ht. rewrite (proj2 cp_normalize_method_shape).
  apply (method_frame tucker_normalize_method_pre [(0, 21); (1, 22)] [self] h0); auto.
Qed.

Definition method_heap : heap := [ OCell [RObj 1 [0; 1]; RObj 2 []]; OBuf [2; 3]%Z; OCell [RObj 3 [0; 1]]; OBuf [1; 2]%Z ].
Lemma cp_normalize_method_nonvacuous : footprint sk_cp_normalize_method [RObj 0 []] method_heap = [0].
Proof. vm_compute. reflexivity. Qed.
