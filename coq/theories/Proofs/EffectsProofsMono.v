(* C15 -- the static check is monotone in the protection: replacing protected references by anything else
   (flagging more parameters as "updated in place", passing None, passing a run-allocated object) never turns an
   accepted program into a rejected one.  Hence `safe n c` - the verdict proved for the skeleton families - is the
   STRONGEST verdict: it implies `safe_with flags c` for every flag vector. *)
From Coq Require Import List Arith ZArith Bool Lia.
From TLV Require Import Model.Effects Proofs.EffectsProofs.
Import ListNotations.

Definition ale (a b : aref) : Prop := a = AProt \/ a = b.
Definition ole (x y : aobj) : Prop :=
  match x, y with
  | ABuf, ABuf => True
  | ACell l, ACell l' => Forall2 ale l l'
  | _, _ => False
  end.
Definition hle (ah ah' : list aobj) : Prop := Forall2 ole ah ah'.
Definition ele (e e' : aenv) : Prop := forall x, ale (e x) (e' x).

Lemma ale_refl a : ale a a. Proof. right; reflexivity. Qed.
Lemma hle_length ah ah' : hle ah ah' -> length ah = length ah'.
Proof. intros H; induction H; simpl; auto. Qed.
Lemma hle_nth ah ah' k : hle ah ah' ->
  match nth_error ah k, nth_error ah' k with
  | Some x, Some y => ole x y
  | None, None => True
  | _, _ => False
  end.
Proof. intros H; revert k; induction H; intros [|k]; simpl; auto; apply IHForall2. Qed.
Lemma ele_upd e e' x a b : ele e e' -> ale a b -> ele (upd e x a) (upd e' x b).
Proof. intros H Hab y. unfold upd. destruct (Nat.eqb y x); auto. Qed.
Lemma hle_snoc ah ah' x y : hle ah ah' -> ole x y -> hle (ah ++ [x]) (ah' ++ [y]).
Proof. intros. apply Forall2_app; auto. Qed.
Lemma hle_modify ah ah' k g g' : hle ah ah' ->
  (forall l l', Forall2 ale l l' -> Forall2 ale (g l) (g' l')) ->
  hle (modify_nth k (on_acell g) ah) (modify_nth k (on_acell g') ah').
Proof.
  intros H Hg; revert k; induction H; intros [|k]; simpl; try constructor; auto.
  - destruct x, y; simpl in *; auto.
  - apply IHForall2.
Qed.

Lemma aread_le ah ah' a b i : hle ah ah' -> ale a b -> ale (aread_cell ah a i) (aread_cell ah' b i).
Proof.
  intros Hh [-> | ->]; [left; reflexivity|].
  destruct b; simpl; try apply ale_refl.
  pose proof (hle_nth ah ah' k Hh) as Hn.
  destruct (nth_error ah k) as [x|], (nth_error ah' k) as [y|]; try contradiction; try apply ale_refl.
  destruct x, y; simpl in Hn; try contradiction; try apply ale_refl.
  apply Forall2_nth; auto. apply ale_refl.
Qed.

Lemma Forall2_ale_repeat_prot n l : length l = n -> Forall2 ale (repeat AProt n) l.
Proof. revert l; induction n; intros [|a l] H; simpl in *; try discriminate; constructor; auto. left; reflexivity. Qed.
Lemma length_take_pad {A} (d : A) n : forall l, length (take_pad d n l) = n.
Proof. induction n; intros [|a l]; simpl; auto. Qed.
Lemma acopy_length ah a n : length (acopy_cell ah a n) = n.
Proof.
  destruct a; simpl; try apply repeat_length.
  destruct (nth_error ah k) as [[|it]|]; try apply repeat_length. apply length_take_pad.
Qed.
Lemma Forall2_ale_refl l : Forall2 ale l l.
Proof. induction l; constructor; auto. apply ale_refl. Qed.
Lemma acopy_le ah ah' a b n : hle ah ah' -> ale a b -> Forall2 ale (acopy_cell ah a n) (acopy_cell ah' b n).
Proof.
  intros Hh [-> | ->]; [apply Forall2_ale_repeat_prot, acopy_length|].
  destruct b; simpl; try apply Forall2_ale_refl.
  pose proof (hle_nth ah ah' k Hh) as Hn.
  destruct (nth_error ah k) as [x|], (nth_error ah' k) as [y|]; try contradiction; try apply Forall2_ale_refl.
  destruct x, y; simpl in Hn; try contradiction; try apply Forall2_ale_refl.
  apply Forall2_take_pad; auto. apply ale_refl.
Qed.

Lemma storable_le ah ah' v v' : hle ah ah' -> ale v v' -> storable ah v = true -> storable ah' v' = true.
Proof.
  intros Hh [-> | ->]; [discriminate|]. destruct v'; simpl; auto.
  pose proof (hle_nth ah ah' k Hh) as Hn.
  destruct (nth_error ah k) as [x|], (nth_error ah' k) as [y|]; try contradiction; auto.
  destruct x, y; simpl in Hn; try contradiction; auto.
Qed.

(* a cell write that is accepted stays accepted *)
Lemma awr_le ah ah' a b st st' g g' r : hle ah ah' -> ale a b ->
  (match st, st' with Some v, Some v' => ale v v' | None, None => True | _, _ => False end) ->
  (forall l l', Forall2 ale l l' -> Forall2 ale (g l) (g' l')) ->
  awr_cell a st g ah = Some r -> exists r', awr_cell b st' g' ah' = Some r' /\ hle r r'.
Proof.
  intros Hh [-> | ->] Hst Hg H; [discriminate|].
  destruct b; simpl in *.
  - inversion H; subst. eauto.
  - inversion H; subst. eexists; split; [reflexivity|]. apply hle_modify; auto.
  - destruct st as [v|], st' as [v'|]; try contradiction.
    + destruct (storable ah v) eqn:E; [|discriminate]. inversion H; subst.
      rewrite (storable_le _ _ _ _ Hh Hst E). eauto.
    + inversion H; subst. eauto.
  - discriminate.
Qed.

Theorem aexec_mono : forall c e e' ah ah' e1 ah1, ele e e' -> hle ah ah' ->
  aexec c (e, ah) = Some (e1, ah1) ->
  exists e1' ah1', aexec c (e', ah') = Some (e1', ah1') /\ ele e1 e1' /\ hle ah1 ah1'.
Proof.
  induction c; intros e e' ah ah' e1 ah1 He Hh H; simpl in H; simpl.
  - (* Skip *) inversion H; subst. eauto.
  - (* Seq *) destruct (aexec c1 (e, ah)) as [[e2 ah2]|] eqn:E1; [|discriminate].
    destruct (IHc1 _ _ _ _ _ _ He Hh E1) as (e2' & ah2' & E1' & He2 & Hh2). rewrite E1'.
    eapply IHc2; eauto.
  - (* Repeat *) revert e e' ah ah' He Hh H. induction n; intros e e' ah ah' He Hh H; simpl in *.
    + inversion H; subst. eauto.
    + destruct (aexec c (e, ah)) as [[e2 ah2]|] eqn:E1; [|discriminate].
      destruct (IHc _ _ _ _ _ _ He Hh E1) as (e2' & ah2' & E1' & He2 & Hh2). rewrite E1'.
      eapply IHn; eauto.
  - (* Alloc *) inversion H; subst. do 2 eexists; split; [reflexivity|]. split.
    + rewrite (hle_length _ _ Hh). apply ele_upd; auto. apply ale_refl.
    + apply hle_snoc; simpl; auto.
  - (* Copy *) inversion H; subst. do 2 eexists; split; [reflexivity|]. split.
    + rewrite (hle_length _ _ Hh). apply ele_upd; auto. apply ale_refl.
    + apply hle_snoc; simpl; auto.
  - (* View *) inversion H; subst. do 2 eexists; split; [reflexivity|]. split; auto. apply ele_upd; auto.
  - (* WriteInto *) destruct (can_write (e x)) eqn:E; [|discriminate]. inversion H; subst.
    destruct (He x) as [Hp|Hp]; [rewrite Hp in E; discriminate|]. rewrite <- Hp, E. eauto.
  - (* InplaceOp *) destruct (can_write (e x)) eqn:E; [|discriminate]. inversion H; subst.
    destruct (He x) as [Hp|Hp]; [rewrite Hp in E; discriminate|]. rewrite <- Hp, E. eauto.
  - (* ListNew *) inversion H; subst. do 2 eexists; split; [reflexivity|]. split.
    + rewrite (hle_length _ _ Hh). apply ele_upd; auto. apply ale_refl.
    + apply hle_snoc; auto. simpl. apply Forall2_map_env. exact He.
  - (* ListCopy *) inversion H; subst. do 2 eexists; split; [reflexivity|]. split.
    + rewrite (hle_length _ _ Hh). apply ele_upd; auto. apply ale_refl.
    + apply hle_snoc; auto. simpl. apply acopy_le; auto.
  - (* ListGet *) inversion H; subst. do 2 eexists; split; [reflexivity|]. split; auto.
    apply ele_upd; auto. apply aread_le; auto.
  - (* ListSet *) destruct (awr_cell (e y) (Some (e x)) (set_nth i (e x)) ah) as [r|] eqn:E; [|discriminate]. inversion H; subst.
    destruct (awr_le ah ah' (e1 y) (e' y) (Some (e1 x)) (Some (e' x)) (set_nth i (e1 x)) (set_nth i (e' x)) ah1 Hh (He y) (He x)) as (r' & E' & Hr); auto.
    { intros l l' Hl. apply Forall2_set_nth; auto. }
    rewrite E'. eauto.
  - (* ListRemove *) destruct (awr_cell (e y) None (del_nth i) ah) as [r|] eqn:E; [|discriminate]. inversion H; subst.
    destruct (awr_le ah ah' (e1 y) (e' y) None None (del_nth i) (del_nth i) ah1 Hh (He y) I) as (r' & E' & Hr); auto.
    { intros l l' Hl. apply Forall2_del_nth; auto. }
    rewrite E'. eauto.
  - (* ListPop *) destruct (awr_cell (e y) None (@removelast aref) ah) as [r|] eqn:E; [|discriminate]. inversion H; subst.
    destruct (awr_le ah ah' (e1 y) (e' y) None None (@removelast aref) (@removelast aref) ah1 Hh (He y) I) as (r' & E' & Hr); auto.
    { intros l l' Hl. apply Forall2_removelast; auto. }
    rewrite E'. eauto.
  - (* ListAppend *) destruct (awr_cell (e y) (Some (e x)) (fun it => it ++ [e x]) ah) as [r|] eqn:E; [|discriminate]. inversion H; subst.
    destruct (awr_le ah ah' (e1 y) (e' y) (Some (e1 x)) (Some (e' x)) (fun it => it ++ [e1 x]) (fun it => it ++ [e' x]) ah1 Hh (He y) (He x)) as (r' & E' & Hr); auto.
    { intros l l' Hl. apply Forall2_snoc; auto. }
    rewrite E'. eauto.
  - (* Rebind *) inversion H; subst. do 2 eexists; split; [reflexivity|]. split; auto. apply ele_upd; auto.
  - (* Call *) destruct (aexec c (call_env ANull e args, ah)) as [[e2 ah2]|] eqn:E1; [|discriminate]. inversion H; subst.
    assert (Hc : ele (call_env ANull e args) (call_env ANull e' args)).
    { intros i. unfold call_env. destruct (nth_error args i); [apply He|apply ale_refl]. }
    destruct (IHc _ _ _ _ _ _ Hc Hh E1) as (e2' & ah2' & E1' & He2 & Hh2). unfold aenv, var in *. rewrite E1'.
    do 2 eexists; split; [reflexivity|]. split; auto. apply ele_upd; auto.
Qed.

(* flags' flags at least everything flags does *)
Definition flags_le (f f' : list bool) : Prop := forall x, nth x f false = true -> nth x f' false = true.

Lemma aenv0_le f f' : flags_le f f' -> length f' <= length f -> ele (aenv0 f) (aenv0 f').
Proof.
  intros H Hl x. unfold aenv0.
  destruct (Nat.lt_ge_cases x (length f)) as [Hx|Hx].
  - rewrite (nth_indep (map arg_aref f) ANull (arg_aref false)) by (rewrite map_length; exact Hx).
    rewrite map_nth. destruct (nth x f false) eqn:E.
    + right. destruct (Nat.lt_ge_cases x (length f')) as [Hx'|Hx'].
      * rewrite (nth_indep (map arg_aref f') ANull (arg_aref false)) by (rewrite map_length; exact Hx').
        rewrite map_nth. rewrite (H x E). reflexivity.
      * specialize (H x E). rewrite nth_overflow in H by exact Hx'. discriminate.
    + left. reflexivity.
  - rewrite nth_overflow by (rewrite map_length; exact Hx).
    rewrite nth_overflow by (rewrite map_length; lia). right; reflexivity.
Qed.

Theorem safe_with_mono : forall c f f', flags_le f f' -> length f' <= length f ->
  safe_with f c = true -> safe_with f' c = true.
Proof.
  intros c f f' H Hl Hs. unfold safe_with in *.
  destruct (aexec c (aenv0 f, [])) as [[e1 ah1]|] eqn:E; [|discriminate].
  destruct (aexec_mono c _ (aenv0 f') _ [] _ _ (aenv0_le f f' H Hl) (Forall2_nil _) E) as (e1' & ah1' & E' & _).
  rewrite E'. reflexivity.
Qed.

(* the all-protected verdict is the strongest one *)
Corollary safe_implies_safe_with : forall c flags, safe (length flags) c = true -> safe_with flags c = true.
Proof.
  intros c flags Hs. apply (safe_with_mono c (repeat false (length flags)) flags); auto.
  - intros x Hx. exfalso. assert (E : forall n y, nth y (repeat false n) false = false) by (induction n; intros [|y]; simpl; auto).
    rewrite E in Hx. discriminate.
  - rewrite repeat_length. lia.
Qed.

Lemma safe_with_mono_nonvacuous :
  flags_le [false; false; true] [true; false; true] /\ safe_with [false; false; true] sk_hals_nnls = true /\
  safe_with [true; false; true] sk_hals_nnls = true /\ safe_with [false; false; false] sk_hals_nnls = false.
Proof.
  split; [|vm_compute; repeat split; reflexivity].
  intros x. destruct x as [|[|[|x]]]; simpl; auto; try discriminate.
Qed.
