(* C15 -- programs with choices: the shared-prefix abstract execution `paexec` covers every path of `paths`,
   hence every resolution of the choices of an accepted pcmd is framed (also when interrupted). *)
From Coq Require Import List Arith ZArith Bool Lia.
From TLV Require Import Model.Effects Proofs.EffectsProofs Proofs.EffectsProofsGen.
Import ListNotations.

(* ---- Proofs *)
Lemma obind_in {A B} (f : A -> option (list B)) : forall l r, obind l f = Some r ->
  forall a, In a l -> exists ra, f a = Some ra /\ incl ra r.
Proof.
  induction l as [|a0 l IH]; intros r H a Ha; [destruct Ha|]. simpl in H.
  destruct (f a0) as [x|] eqn:E0; [|discriminate]. destruct (obind l f) as [y|] eqn:E1; [|discriminate].
  inversion H; subst. destruct Ha as [->|Ha].
  - exists x. split; auto. apply incl_appl, incl_refl.
  - destruct (IH _ eq_refl a Ha) as (ra & Ea & Hi). exists ra. split; auto. apply incl_appr; auto.
Qed.

Definition covers (l : list astate) (c : cmd) (s : astate) : Prop := exists s', aexec c s = Some s' /\ In s' l.

Lemma in_seq_paths la lb c : In c (seq_paths la lb) -> exists a b, In a la /\ In b lb /\ c = Seq a b.
Proof.
  unfold seq_paths. intros H. apply in_flat_map in H. destruct H as (a & Ha & H). apply in_map_iff in H.
  destruct H as (b & <- & Hb). eauto.
Qed.

Lemma paexec_sound : forall p s l, paexec p s = Some l -> forall c, In c (paths p) -> covers l c s.
Proof.
  induction p; intros s l H c0 Hc; simpl in *.
  - destruct Hc as [<-|[]]. destruct (aexec c s) as [s'|] eqn:E; [|discriminate]. inversion H; subst.
    exists s'. split; auto. left; auto.
  - destruct (paexec p1 s) as [l1|] eqn:E1; [|discriminate].
    apply in_seq_paths in Hc. destruct Hc as (a & b & Ha & Hb & ->).
    destruct (IHp1 _ _ E1 a Ha) as (s1 & Ea & Hin).
    destruct (obind_in _ _ _ H s1 Hin) as (r1 & Er & Hincl).
    destruct (IHp2 _ _ Er b Hb) as (s2 & Eb & Hin2).
    exists s2. split; [|apply Hincl; auto]. rewrite aexec_Seq, Ea. exact Eb.
  - destruct (paexec p1 s) as [x|] eqn:E1; [|discriminate]. destruct (paexec p2 s) as [y|] eqn:E2; [|discriminate].
    inversion H; subst. apply in_app_or in Hc. destruct Hc as [Hc|Hc].
    + destruct (IHp1 _ _ E1 _ Hc) as (s' & E & Hin). exists s'. split; auto. apply in_or_app; auto.
    + destruct (IHp2 _ _ E2 _ Hc) as (s' & E & Hin). exists s'. split; auto. apply in_or_app; auto.
  - revert s l H c0 Hc. induction n; intros s l H c0 Hc; simpl in *.
    + destruct Hc as [<-|[]]. inversion H; subst. exists s. rewrite aexec_Skip. split; auto. left; auto.
    + destruct (paexec p s) as [l1|] eqn:E1; [|discriminate].
      apply in_seq_paths in Hc. destruct Hc as (a & b & Ha & Hb & ->).
      destruct (IHp _ _ E1 a Ha) as (s1 & Ea & Hin).
      destruct (obind_in _ _ _ H s1 Hin) as (r1 & Er & Hincl).
      destruct (IHn _ _ Er b Hb) as (s2 & Eb & Hin2).
      exists s2. split; [|apply Hincl; auto]. rewrite aexec_Seq, Ea. exact Eb.
  - destruct s as [e ah]. destruct (paexec p (call_env ANull e args, ah)) as [l1|] eqn:E1; [|discriminate].
    inversion H; subst. apply in_map_iff in Hc. destruct Hc as (cb & <- & Hcb).
    destruct (IHp _ _ E1 cb Hcb) as ([e' ah'] & Eb & Hin).
    exists (upd e x (e' ret), ah'). split; [simpl; rewrite Eb; reflexivity|].
    apply in_map_iff. exists (e', ah'). split; auto.
Qed.

Theorem psafe_paths : forall flags p, psafe_with flags p = true -> forall c, In c (paths p) -> safe_with flags c = true.
Proof.
  intros flags p H c Hc. unfold psafe_with in H. destruct (paexec p (aenv0 flags, [])) as [l|] eqn:E; [|discriminate].
  destruct (paexec_sound _ _ _ E c Hc) as (s' & Es & _). unfold safe_with. rewrite Es. reflexivity.
Qed.

(* every resolution of the choices of an accepted program is framed, also when interrupted *)
Theorem psafe_frame : forall p (args : list ref) (h0 : heap),
  psafe_with (repeat false (length args)) p = true ->
  forall c, In c (paths p) -> forall n o, o < length h0 ->
  nth_error (snd (fst (run c n (env0 args, h0)))) o = nth_error h0 o.
Proof. intros p args h0 H c Hc n o Ho. apply frame_raise; auto. unfold safe. eapply psafe_paths; eauto. Qed.

Theorem psafe_frame_inplace : forall p (args : list (ref * bool)) (h0 : heap),
  psafe_with (map snd args) p = true -> closed_heap h0 -> closed_args h0 (inplace_roots args) ->
  forall c, In c (paths p) -> forall n o, o < length h0 -> ~ reach h0 (inplace_roots args) o ->
  nth_error (snd (fst (run c n (env0 (map fst args), h0)))) o = nth_error h0 o.
Proof. intros p args h0 H Hc1 Hc2 c Hc n o Ho Hr. apply frame_inplace_raise; auto. eapply psafe_paths; eauto. Qed.

Example psafe_demo :
  psafe_with [false] (PSeq (PChoice (PPrim (Copy 1 0)) (PPrim (Alloc 1 2))) (PPrim (InplaceOp 1 2))) = true /\
  psafe_with [false] (PSeq (PChoice (PPrim (Copy 1 0)) (PPrim (View 1 0 [0]))) (PPrim (InplaceOp 1 2))) = false /\
  length (paths (PRepeat 2 (PChoice (PPrim Skip) (PPrim (Alloc 1 2))))) = 4.
Proof. vm_compute. repeat split; reflexivity. Qed.
