(* C15 -- round 5: (1) the remaining documented in-place parameters (tucker_mode_dot copy=False, index_update);
   (2) sequences of calls (fit, then predict, then a second fit ...): nothing that exists before a call is changed by
   that call or by any later one, results of earlier calls included; (3) estimator classes: fit_transform changes only
   the receiver, whatever decomposition body is plugged in; (4) the interruption points enumerated by the
   correspondence are all there are; (5) flagging more parameters as in-place never rejects an accepted program. *)
From Coq Require Import List Arith ZArith Bool Lia.
From TLV Require Import Model.Effects Proofs.EffectsProofs Proofs.EffectsProofsSk Proofs.EffectsProofsGen Corr.C15.
Import ListNotations.

(* ------------------------------------------------------------------ (1) tucker_mode_dot, index_update *)
Lemma tucker_mode_dot_copy_safe : safe 2 sk_tucker_mode_dot_copy = true. Proof. vm_compute. reflexivity. Qed.
Lemma tucker_mode_dot_inplace :
  safe 2 sk_tucker_mode_dot_vec_nocopy = false /\ safe_with [true; false] sk_tucker_mode_dot_vec_nocopy = true /\
  safe 2 sk_tucker_mode_dot_matrix_nocopy = false /\ safe_with [true; false] sk_tucker_mode_dot_matrix_nocopy = true.
Proof. vm_compute. repeat split; reflexivity. Qed.
Lemma tucker_mode_dot_vec_frame : unchanged_outside [true; false] sk_tucker_mode_dot_vec_nocopy.
Proof. apply safe_with_unchanged. apply tucker_mode_dot_inplace. Qed.
Lemma tucker_mode_dot_mat_frame : unchanged_outside [true; false] sk_tucker_mode_dot_matrix_nocopy.
Proof. apply safe_with_unchanged. apply tucker_mode_dot_inplace. Qed.
Lemma index_update_inplace : safe 2 sk_index_update = false /\ safe_with [true; false] sk_index_update = true.
Proof. vm_compute. split; reflexivity. Qed.
Lemma index_update_frame : unchanged_outside [true; false] sk_index_update.
Proof. apply safe_with_unchanged. apply index_update_inplace. Qed.

(* a Tucker tensor (core, [A, B, C]) and a vector; the values array is NOT reachable from the tensor *)
Definition tk_heap : heap := [
  OBuf [1; 2; 3; 4]%Z; OBuf [1; 2]%Z; OBuf [3; 4]%Z; OBuf [5; 6]%Z;
  OCell [RObj 1 [0; 1]; RObj 2 [0; 1]; RObj 3 [0; 1]];
  OCell [RObj 0 [0; 1; 2; 3]; RObj 4 []];
  OBuf [7; 8]%Z ].
Definition tk_args : list (ref * bool) := [ (RObj 5 [], true); (RObj 6 [0; 1], false) ].
Lemma tucker_mode_dot_nonvacuous :
  footprint sk_tucker_mode_dot_vec_nocopy (map fst tk_args) tk_heap = [4] /\
  footprint sk_tucker_mode_dot_matrix_nocopy (map fst tk_args) tk_heap = [4] /\
  footprint sk_tucker_mode_dot_copy (map fst tk_args) tk_heap = [] /\
  footprint sk_index_update [RObj 0 [1; 3]; RObj 6 [0; 1]] tk_heap = [0].
Proof. vm_compute. repeat split; reflexivity. Qed.

(* ------------------------------------------------------------------ (2) sequences of calls *)
(* one call = a program and the references it receives; the heap is threaded through, the environments are not *)
Fixpoint exec_calls (cs : list (cmd * list ref)) (h : heap) : heap :=
  match cs with
  | [] => h
  | (c, args) :: t => exec_calls t (snd (exec c (env0 args, h)))
  end.

Lemma frame_length c args (h0 : heap) : safe (length args) c = true -> length h0 <= length (snd (exec c (env0 args, h0))).
Proof.
  intros Hs. destruct h0 as [|ob h0]; [apply Nat.le_0_l|].
  assert (Ho : length h0 < length (ob :: h0)) by (simpl; lia).
  pose proof (frame c args (ob :: h0) Hs (length h0) Ho) as Hf.
  assert (Hn : nth_error (ob :: h0) (length h0) <> None) by (apply nth_error_Some; exact Ho).
  rewrite <- Hf in Hn. apply nth_error_Some in Hn.
  exact Hn.
Qed.

Theorem frame_sequence : forall (cs : list (cmd * list ref)) (h0 : heap),
  Forall (fun p => safe (length (snd p)) (fst p) = true) cs ->
  forall o, o < length h0 -> nth_error (exec_calls cs h0) o = nth_error h0 o.
Proof.
  induction cs as [|[c args] cs IH]; intros h0 Hs o Ho; simpl; [reflexivity|].
  inversion Hs as [|p l Hc Hrest]; subst. simpl in Hc.
  rewrite IH; auto.
  - apply frame; auto.
  - pose proof (frame_length c args h0 Hc). lia.
Qed.

(* the same for the objects created by the first calls (results of fit handed to predict ...): whatever exists when
   the remaining calls start is unchanged when they are over *)
Corollary frame_sequence_results : forall (cs1 cs2 : list (cmd * list ref)) (h0 : heap),
  Forall (fun p => safe (length (snd p)) (fst p) = true) cs2 ->
  forall o, o < length (exec_calls cs1 h0) ->
  nth_error (exec_calls (cs1 ++ cs2) h0) o = nth_error (exec_calls cs1 h0) o.
Proof.
  intros cs1 cs2 h0 Hs o Ho.
  assert (E : forall l1 l2 h, exec_calls (l1 ++ l2) h = exec_calls l2 (exec_calls l1 h)).
  { induction l1 as [|[c a] l1 IH]; intros l2 h; simpl; auto. }
  rewrite E. apply frame_sequence; auto.
Qed.

(* ... and when the LAST call of the sequence raises after n primitive effects *)
Theorem frame_sequence_raise : forall (cs : list (cmd * list ref)) (c : cmd) (args : list ref) (h0 : heap),
  Forall (fun p => safe (length (snd p)) (fst p) = true) cs -> safe (length args) c = true ->
  forall n o, o < length h0 ->
  nth_error (snd (fst (run c n (env0 args, exec_calls cs h0)))) o = nth_error h0 o.
Proof.
  intros cs c args h0 Hs Hc n o Ho.
  assert (Hl : forall l (h : heap), Forall (fun p => safe (length (snd p)) (fst p) = true) l -> length h <= length (exec_calls l h)).
  { induction l as [|[c1 a1] l IH]; intros h Hf; simpl; [lia|].
    inversion Hf; subst. simpl in *. etransitivity; [apply (frame_length c1 a1 h); auto|apply IH; auto]. }
  rewrite frame_raise; auto.
  - apply frame_sequence; auto.
  - specialize (Hl cs h0 Hs). lia.
Qed.

Definition demo_calls : list (cmd * list ref) :=
  [ (sk_parafac, demo_args); (sk_cp_flip_sign, [RObj 9 []]); (sk_parafac, demo_args) ].
Lemma frame_sequence_nonvacuous :
  Forall (fun p => safe (length (snd p)) (fst p) = true) demo_calls /\
  length demo_heap = 9 /\ 9 < length (exec_calls demo_calls demo_heap) /\
  firstn 9 (exec_calls demo_calls demo_heap) = demo_heap.
Proof. split; [repeat constructor|]. vm_compute. repeat split; lia. Qed.

(* ------------------------------------------------------------------ (3) estimator classes *)
(* aexec depends on the environment only pointwise (no functional extensionality needed) *)
Definition same_result (r1 r2 : option astate) : Prop :=
  match r1, r2 with
  | Some (e1, a1), Some (e2, a2) => a1 = a2 /\ forall x, e1 x = e2 x
  | None, None => True
  | _, _ => False
  end.
Lemma upd_ext {A} (e1 e2 : nat -> A) x v : (forall y, e1 y = e2 y) -> forall y, upd e1 x v y = upd e2 x v y.
Proof. intros H y. unfold upd. destruct (Nat.eqb y x); auto. Qed.
Lemma aexec_ext : forall c e1 e2 ah, (forall x, e1 x = e2 x) -> same_result (aexec c (e1, ah)) (aexec c (e2, ah)).
Proof.
  induction c; intros e1 e2 ah H; simpl.
  - (* Skip *) split; auto.
  - (* Seq *) specialize (IHc1 e1 e2 ah H). unfold same_result in IHc1.
    destruct (aexec c1 (e1, ah)) as [[e1' a1]|]; destruct (aexec c1 (e2, ah)) as [[e2' a2]|]; try contradiction; simpl; auto.
    destruct IHc1 as [-> H']. apply IHc2; auto.
  - (* Repeat *) revert e1 e2 ah H. induction n; intros e1 e2 ah H; simpl; [split; auto|].
    specialize (IHc e1 e2 ah H). unfold same_result in IHc.
    destruct (aexec c (e1, ah)) as [[e1' a1]|]; destruct (aexec c (e2, ah)) as [[e2' a2]|]; try contradiction; simpl; auto.
    destruct IHc as [-> H']. apply IHn; auto.
  - (* Alloc *) split; auto. apply upd_ext; auto.
  - (* Copy *) split; auto. apply upd_ext; auto.
  - (* View *) rewrite (H y). split; auto. apply upd_ext; auto.
  - (* WriteInto *) rewrite (H x). destruct (can_write (e2 x)); simpl; auto.
  - (* InplaceOp *) rewrite (H x). destruct (can_write (e2 x)); simpl; auto.
  - (* ListNew *) rewrite (map_ext e1 e2 H). split; auto. apply upd_ext; auto.
  - (* ListCopy *) rewrite (H y). split; auto. apply upd_ext; auto.
  - (* ListGet *) rewrite (H y). split; auto. apply upd_ext; auto.
  - (* ListSet *) rewrite (H y), (H x). destruct (awr_cell _ _ _ _); simpl; auto.
  - (* ListRemove *) rewrite (H y). destruct (awr_cell _ _ _ _); simpl; auto.
  - (* ListPop *) rewrite (H y). destruct (awr_cell _ _ _ _); simpl; auto.
  - (* ListAppend *) rewrite (H y), (H x). destruct (awr_cell _ _ _ _); simpl; auto.
  - (* Rebind *) rewrite (H y). split; auto. apply upd_ext; auto.
  - (* Call *)
    assert (Hc : forall i, call_env ANull e1 args i = call_env ANull e2 args i).
    { intros i. unfold call_env. destruct (nth_error args i); auto. }
    specialize (IHc _ _ ah Hc). unfold same_result in IHc. unfold var in *.
    destruct (aexec c (call_env ANull e1 args, ah)) as [[e1' a1]|]; destruct (aexec c (call_env ANull e2 args, ah)) as [[e2' a2]|];
      try contradiction; simpl; auto.
    destruct IHc as [-> H']. split; auto. rewrite (H' ret). apply upd_ext; auto.
Qed.
Lemma aexec_ext_some c e1 e2 ah : (forall x, e1 x = e2 x) -> aexec c (e2, ah) <> None -> aexec c (e1, ah) <> None.
Proof.
  intros H Hs. pose proof (aexec_ext c e1 e2 ah H) as E. unfold same_result in E.
  destruct (aexec c (e1, ah)) as [[? ?]|]; [discriminate|]. destruct (aexec c (e2, ah)) as [[? ?]|]; [contradiction|congruence].
Qed.

Lemma aexec_seq_app : forall l1 l2 s, aexec (seq (l1 ++ l2)) s =
  match aexec (seq l1) s with Some s1 => aexec (seq l2) s1 | None => None end.
Proof.
  induction l1 as [|c l1 IH]; intros l2 s; simpl.
  - destruct s; reflexivity.
  - destruct s as [e ah]. simpl. destruct (aexec c (e, ah)) as [s1|]; [apply IH|reflexivity].
Qed.

Definition getters (a k : nat) : list cmd := map (fun i => ListGet (10 + i) 0 i) (List.seq a k).

Lemma getters_run : forall k a (e : aenv), e 0 = AProt ->
  exists e', aexec (seq (getters a k)) (e, []) = Some (e', []) /\
    (forall x, x < 10 + a -> e' x = e x) /\ (forall j, j < k -> e' (10 + a + j) = AProt).
Proof.
  induction k; intros a e H0; simpl.
  - exists e. split; [reflexivity|]. split; auto. intros j Hj; lia.
  - unfold getters in *. simpl. rewrite H0. simpl.
    destruct (IHk (S a) (upd e (10 + a) AProt)) as (e' & E & Hlow & Hhigh).
    { unfold upd. destruct (Nat.eqb_spec 0 (10 + a)); [lia|exact H0]. }
    exists e'. split; [exact E|]. split.
    + intros x Hx. rewrite Hlow by lia. unfold upd. destruct (Nat.eqb_spec x (10 + a)); [lia|reflexivity].
    + intros j Hj. destruct j.
      * rewrite Nat.add_0_r. rewrite Hlow by lia. unfold upd. rewrite Nat.eqb_refl. reflexivity.
      * assert (Hj' : j < k) by lia. specialize (Hhigh j Hj'). replace (10 + S a + j) with (10 + a + S j) in Hhigh by lia. exact Hhigh.
Qed.

Lemma nth_error_map_seq (f : nat -> nat) : forall n a j, nth_error (map f (List.seq a n)) j = if j <? n then Some (f (a + j)) else None.
Proof.
  induction n; intros a j; simpl.
  - destruct j; reflexivity.
  - destruct j; simpl; [rewrite Nat.add_0_r; reflexivity|]. rewrite IHn. replace (S a + j) with (a + S j) by lia.
    change (S j <? S n) with (j <? n). reflexivity.
Qed.

Lemma aenv0_repeat_false n x : aenv0 (repeat false n) x = if x <? n then AProt else ANull.
Proof.
  unfold aenv0. revert x; induction n; intros x; simpl.
  - destruct x; reflexivity.
  - destruct x; simpl; [reflexivity|]. rewrite IHn. reflexivity.
Qed.

Lemma estimator_pre_safe nattr body ret : safe (S nattr) body = true -> safe 2 (seq (estimator_fit_pre nattr body ret)) = true.
Proof.
  unfold safe, safe_with. intros H. unfold estimator_fit_pre. fold (getters 0 nattr).
  rewrite aexec_seq_app.
  destruct (getters_run nattr 0 (aenv0 (repeat false 2))) as (e' & E & Hlow & Hhigh); [reflexivity|].
  rewrite E. simpl.
  match goal with |- context [aexec body ?s] =>
    assert (Hx : same_result (aexec body s) (aexec body (aenv0 (repeat false (S nattr)), []))) end.
  { apply aexec_ext. intros x. rewrite aenv0_repeat_false. unfold call_env. destruct x; simpl.
    - rewrite Hlow by lia. reflexivity.
    - rewrite nth_error_map_seq. change (S x <? S nattr) with (x <? nattr).
      destruct (x <? nattr) eqn:Ex; [|reflexivity]. apply Nat.ltb_lt in Ex. exact (Hhigh x Ex). }
  unfold same_result in Hx.
  destruct (aexec body (aenv0 (repeat false (S nattr)), [])) as [[e2 a2]|]; [|discriminate].
  match goal with |- context [aexec body ?s] => destruct (aexec body s) as [[e1 a1]|] end; [reflexivity|contradiction].
Qed.

Lemma estimator_pre_assigns nattr body ret : assigns 0 (seq (estimator_fit_pre nattr body ret)) = false.
Proof.
  unfold estimator_fit_pre.
  assert (G : forall l rest, assigns 0 (seq rest) = false -> assigns 0 (seq (map (fun i => ListGet (10 + i) 0 i) l ++ rest)) = false).
  { induction l; intros rest Hr; simpl; auto. }
  apply G. reflexivity.
Qed.

(* est.fit_transform(tensor) for ANY number of option attributes and ANY decomposition body accepted by `safe`: of the
   caller's heap only the receiver object changes (its decomposition_ attribute); the options it holds, the tensor and
   all their aliases do not *)
Theorem estimator_fit_frame : forall (nattr : nat) (body : cmd) (ret : var),
  safe (S nattr) body = true ->
  forall (self X : ref) (h0 : heap) (o : nat), o < length h0 -> target self <> Some o ->
  nth_error (snd (exec (sk_estimator_fit nattr body ret) (env0 [self; X], h0))) o = nth_error h0 o.
Proof.
  intros nattr body ret Hs self X h0 o Ho Ht. unfold sk_estimator_fit.
  change [ListSet 0 nattr 20] with (map (fun p : nat * var => ListSet 0 (fst p) (snd p)) [(nattr, 20)]).
  apply (method_frame (estimator_fit_pre nattr body ret) [(nattr, 20)] [self; X] h0); auto.
  - apply estimator_pre_safe. exact Hs.
  - apply estimator_pre_assigns.
Qed.

Theorem cp_class_fit_frame : forall N sweeps fmlen rm modes (self X : ref) (h0 : heap) (o : nat),
  o < length h0 -> target self <> Some o ->
  nth_error (snd (exec (sk_estimator_fit 3 (sk_parafac_gen N sweeps fmlen rm modes) 25) (env0 [self; X], h0))) o = nth_error h0 o.
Proof. intros. apply estimator_fit_frame; auto. apply parafac_gen_safe. Qed.
Theorem hals_class_fit_frame : forall N sweeps sclen fmlen fixed modes (self X : ref) (h0 : heap) (o : nat),
  o < length h0 -> target self <> Some o ->
  nth_error (snd (exec (sk_estimator_fit 3 (sk_nn_parafac_hals_gen N sweeps sclen fmlen fixed modes) 25) (env0 [self; X], h0))) o = nth_error h0 o.
Proof. intros. apply estimator_fit_frame; auto. apply nn_parafac_hals_gen_safe. Qed.
Theorem tucker_class_fit_frame : forall N sweeps modes (self X : ref) (h0 : heap) (o : nat),
  o < length h0 -> target self <> Some o ->
  nth_error (snd (exec (sk_estimator_fit 2 (sk_tucker_gen N sweeps modes) 25) (env0 [self; X], h0))) o = nth_error h0 o.
Proof. intros. apply estimator_fit_frame; auto. apply tucker_gen_safe. Qed.

(* every other estimator kind (RandomizedCP, ConstrainedCP, Parafac2, Tucker_NN(_HALS), the TT / TR classes, the regressors, CP_PLSR):
   the receiver skeleton with an opaque allocating body - the body's own safety is the business of its function's skeleton *)
Theorem any_estimator_fit_frame : forall nattr (self X : ref) (h0 : heap) (o : nat),
  o < length h0 -> target self <> Some o ->
  nth_error (snd (exec (sk_estimator_fit nattr (Alloc 25 1) 25) (env0 [self; X], h0))) o = nth_error h0 o.
Proof. intros. apply estimator_fit_frame; auto. Qed.

(* an estimator object [init; fixed_modes; mask; decomposition_] over the demo heap, and the tensor *)
Definition est_heap : heap := demo_heap ++ [ OCell [RObj 6 []; RObj 7 []; RObj 8 [0; 1; 2; 3]; RNull] ].
Lemma estimator_fit_nonvacuous :
  footprint (sk_estimator_fit 3 (sk_parafac_gen 3 2 2 (Some 1) [0; 1; 2]) 25) [RObj 9 []; RObj 0 [0; 1; 2; 3]] est_heap = [9].
Proof. vm_compute. reflexivity. Qed.

(* ------------------------------------------------------------------ (4) interruption points *)
Lemma steps_size c : steps c = size c.
Proof. induction c; simpl; auto. Qed.

Theorem interrupt_enumeration_complete : forall c n args h,
  In (footprint_run c n args h) (interrupted_footprints c args h).
Proof.
  intros c n args h. unfold interrupted_footprints.
  destruct (Nat.le_gt_cases n (steps c)) as [H|H].
  - apply in_map_iff. exists n. split; [reflexivity|]. apply in_seq. lia.
  - apply in_map_iff. exists (steps c). split; [|apply in_seq; lia].
    unfold footprint_run. rewrite steps_size in *.
    pose proof (run_size c (n - size c) (env0 args, h)) as E1.
    replace (size c + (n - size c)) with n in E1 by lia.
    pose proof (run_size c 0 (env0 args, h)) as E2. rewrite Nat.add_0_r in E2.
    rewrite E1, E2. reflexivity.
Qed.

(* the last enumerated point is the completed call *)
Lemma interrupt_last_is_exec c args h : footprint_run c (steps c) args h = footprint c args h.
Proof.
  unfold footprint_run, footprint. rewrite steps_size.
  pose proof (run_size c 0 (env0 args, h)) as E2. rewrite Nat.add_0_r in E2. rewrite E2. reflexivity.
Qed.

(* for an accepted skeleton every interruption point predicts the empty footprint *)
Theorem interrupted_footprints_safe : forall c args h, safe (length args) c = true ->
  forall f, In f (interrupted_footprints c args h) -> f = [].
Proof.
  intros c args h Hs f Hin. unfold interrupted_footprints in Hin. apply in_map_iff in Hin. destruct Hin as [n [E _]]. subst f.
  unfold footprint_run.
  assert (H : forall l, (forall o, In o l -> o < length h) ->
    filter (fun o => match nth_error h o, nth_error (snd (fst (run c n (env0 args, h)))) o with
                     | Some a, Some b => negb (obj_eqb a b) | _, _ => true end) l = []).
  { induction l as [|o l IH]; intros Hl; simpl; auto.
    rewrite (frame_raise c args h Hs n o) by (apply Hl; left; auto).
    destruct (nth_error h o) as [a|] eqn:E.
    - rewrite obj_eqb_refl. simpl. apply IH. intros; apply Hl; right; auto.
    - exfalso. apply nth_error_None in E. specialize (Hl o (or_introl eq_refl)). lia. }
  apply H. intros o Ho. apply in_seq in Ho. lia.
Qed.

Lemma interrupt_nonvacuous :
  interrupted_footprints sk_hals_nnls (map fst nnls_args) nnls_heap = [[]; []; [2]; [2]; [2]; [2]; [2]; [2]; [2]; [2]; [2]] /\
  steps sk_hals_nnls = 10.
Proof. vm_compute. split; reflexivity. Qed.

(* ------------------------------------------------------------------ CPTensor.normalize(inplace=...) after fix 9ada0b3 (the defect
   found in round 5: the option was ignored).  inplace=False returns a new CPTensor: every argument protected, framed also
   when interrupted.  inplace=True is the mutator cp_normalize_method_frame (only the receiver object changes).
   before_9ada0b3: the old code ran the mutator whatever the option said - with the receiver protected that skeleton is
   rejected and does change the receiver. *)
Lemma cp_normalize_method_copy_safe : safe 1 sk_cp_normalize_method_copy = true.
Proof. vm_compute. reflexivity. Qed.
Lemma cp_normalize_method_copy_frame : forall (self : ref) (h0 : heap) (n o : nat), o < length h0 ->
  nth_error (snd (fst (run sk_cp_normalize_method_copy n (env0 [self], h0)))) o = nth_error h0 o.
Proof. intros. apply (frame_raise sk_cp_normalize_method_copy [self] h0 cp_normalize_method_copy_safe); auto. Qed.
Lemma cp_normalize_inplace_false_before_9ada0b3 :
  safe 1 sk_cp_normalize_method = false /\
  (exists (self : ref) (h0 : heap) (o : nat), o < length h0 /\
    nth_error (snd (exec sk_cp_normalize_method (env0 [self], h0))) o <> nth_error h0 o) /\
  footprint sk_cp_normalize_method_copy [RObj 0 []] method_heap = [].
Proof.
  split; [vm_compute; reflexivity|]. split; [|vm_compute; reflexivity].
  exists (RObj 0 []), method_heap, 0. split; [vm_compute; lia|]. vm_compute. discriminate.
Qed.

(* cp_mode_dot(copy=False) with a vector after fix 93a737c: only the caller's factor LIST (and the CPTensor object) change, no
   factor array is written any more; before the fix the neighbouring factor's buffer was scaled in place *)
Definition cpmd_heap : heap := [
  OBuf [2; 3]%Z; OBuf [1; 2]%Z; OBuf [3; 4]%Z; OBuf [5; 6]%Z;
  OCell [RObj 1 [0; 1]; RObj 2 [0; 1]; RObj 3 [0; 1]];
  OCell [RObj 0 [0; 1]; RObj 4 []; RNull];
  OBuf [7; 8]%Z ].
Lemma cp_mode_dot_nocopy_before_93a737c :
  footprint sk_cp_mode_dot_nocopy [RObj 5 []; RObj 6 [0; 1]] cpmd_heap = [4; 5] /\
  footprint old_cp_mode_dot_nocopy [RObj 5 []; RObj 6 [0; 1]] cpmd_heap = [1; 4; 5] /\
  safe_with [true; false] old_cp_mode_dot_nocopy = true /\ footprint sk_cp_mode_dot_copy [RObj 5 []; RObj 6 [0; 1]] cpmd_heap = [].
Proof. vm_compute. repeat split; reflexivity. Qed.
