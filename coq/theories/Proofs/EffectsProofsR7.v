(* C15, round 7 -- non_negative_tucker and monotonicity_prox / unimodality_prox (Model/EffectsR7.v):
   (1) the skeletons of the current code are accepted by `safe` for EVERY order, number of sweeps, update order, number of
       rows / columns, 1-D or 2-D input, either direction (Hoare-style induction; no enumeration);
   (2) a rejection calculus (`dies`) and the seeded-defect families: a by-reference core, a flipped / reshaped VIEW instead
       of a copy are rejected for every size as soon as one sweep / one column runs; the conditions under which the
       defects are INVISIBLE (every array has a negative entry; normalize_factors=True; increasing order and 2-D input;
       more than one column) are theorems too - they are what the generators of the harness have to avoid. *)
From Coq Require Import List Arith ZArith Bool Lia.
From TLV Require Import Model.Effects Model.EffectsR7 Proofs.EffectsProofs Proofs.EffectsProofsGen Proofs.EffectsProofsR5.
Import ListNotations.

(* ------------------------------------------------------------------ variables a command does not assign keep their abstract value *)
Lemma aexec_unassigned : forall c x e ah e' ah',
  assigns x c = false -> aexec c (e, ah) = Some (e', ah') -> e' x = e x.
Proof.
  induction c; intros x0 e ah e' ah' H E; simpl in H, E;
    try (inversion E; subst; unfold upd; rewrite ?H; reflexivity);
    try (destruct (can_write _); inversion E; reflexivity);
    try (destruct (awr_cell _ _ _ _); inversion E; reflexivity).
  - (* Seq *) apply orb_false_iff in H. destruct H as [H1 H2].
    destruct (aexec c1 (e, ah)) as [[e1 ah1]|] eqn:E1; [|discriminate].
    rewrite (IHc2 _ _ _ _ _ H2 E). eapply IHc1; eauto.
  - (* Repeat *) revert e ah E. induction n; intros e ah E; simpl in E.
    + inversion E; reflexivity.
    + destruct (aexec c (e, ah)) as [[e1 ah1]|] eqn:E1; [|discriminate].
      rewrite (IHn _ _ E). eapply IHc; eauto.
  - (* Call *) destruct (aexec c (call_env ANull e args, ah)) as [[e1 ah1]|]; [|discriminate].
    inversion E; subst. unfold upd. rewrite H. reflexivity.
Qed.

Lemma assigns_seq_map {A} x (f : A -> cmd) l : (forall a, assigns x (f a) = false) -> assigns x (seq (map f l)) = false.
Proof. intros H. induction l; simpl; [reflexivity|]. rewrite H, IHl. reflexivity. Qed.

(* ------------------------------------------------------------------ rejection calculus *)
Definition dies (c : cmd) (s : astate) : Prop := aexec c s = None.
Definition keeps (x : var) (c : cmd) : Prop := forall s s1, fst s x = AProt -> aexec c s = Some s1 -> fst s1 x = AProt.

Lemma dies_seq_l c1 c2 s : dies c1 s -> dies (Seq c1 c2) s.
Proof. unfold dies. intros H. rewrite aexec_Seq, H. reflexivity. Qed.
Lemma dies_seq_r c1 c2 s : (forall s1, aexec c1 s = Some s1 -> dies c2 s1) -> dies (Seq c1 c2) s.
Proof. unfold dies. intros H. rewrite aexec_Seq. destruct (aexec c1 s) as [s1|] eqn:E; [apply H; reflexivity|reflexivity]. Qed.
Lemma dies_repeat_S n c s : dies c s -> dies (Repeat (S n) c) s.
Proof. unfold dies. intros H. rewrite aexec_Repeat. simpl. rewrite H. reflexivity. Qed.
Lemma dies_write x v s : fst s x = AProt -> dies (WriteInto x v) s.
Proof. destruct s as [e ah]. unfold dies. simpl. intros ->. reflexivity. Qed.
Lemma dies_inplace x k s : fst s x = AProt -> dies (InplaceOp x k) s.
Proof. destruct s as [e ah]. unfold dies. simpl. intros ->. reflexivity. Qed.

Lemma keeps_unassigned x c : assigns x c = false -> keeps x c.
Proof. intros Ha [e ah] [e1 ah1] Hs E. simpl in *. rewrite (aexec_unassigned _ _ _ _ _ _ Ha E). exact Hs. Qed.
Lemma keeps_view_self x sel : keeps x (View x x sel).
Proof. intros [e ah] s1 Hs E. simpl in *. inversion E; subst. simpl. unfold upd. rewrite Nat.eqb_refl. exact Hs. Qed.
Lemma keeps_skip x : keeps x Skip.
Proof. intros [e ah] s1 Hs E. simpl in E. inversion E; subst. exact Hs. Qed.
Lemma keeps_seq_map {A} x (f : A -> cmd) l : (forall a, keeps x (f a)) -> keeps x (seq (map f l)).
Proof.
  intros H. induction l as [|a l IH]; simpl; [apply keeps_skip|].
  intros s s2 Hs E. rewrite aexec_Seq in E. destruct (aexec (f a) s) as [s1|] eqn:E1; [|discriminate].
  eapply IH; [eapply H; eauto|exact E].
Qed.
Lemma dies_after_keeps c1 c2 x s : keeps x c1 -> fst s x = AProt -> (forall s1, fst s1 x = AProt -> dies c2 s1) -> dies (Seq c1 c2) s.
Proof. intros Hk Hs H. apply dies_seq_r. intros s1 E. apply H. eapply Hk; eauto. Qed.
Lemma dies_after_rebind x y c2 s : fst s y = AProt -> (forall s1, fst s1 x = AProt -> dies c2 s1) -> dies (Seq (Rebind x y) c2) s.
Proof.
  intros Hs H. apply dies_seq_r. intros s1 E. apply H. destruct s as [e ah]. simpl in *. inversion E; subst. simpl.
  unfold upd. rewrite Nat.eqb_refl. exact Hs.
Qed.
Lemma unsafe_of_dies n c : dies c (aenv0 (repeat false n), []) -> safe n c = false.
Proof. unfold dies, safe, safe_with. intros ->. reflexivity. Qed.

Ltac step_keep :=
  match goal with
  | H : fst ?s ?x = AProt |- dies (Seq ?c1 ?c2) ?s =>
      apply (dies_after_keeps c1 c2 x s); [apply keeps_unassigned; reflexivity | exact H | clear H; intros ? H]
  end.

(* ================================================================== monotonicity_prox *)
Ltac prim_fresh Hk k :=
  simpl in *; unfold upd; simpl; rewrite ?Hk; simpl; eexists; split; [reflexivity|]; exists k; simpl; exact Hk.

Lemma mono_column_ok rows : hoare (fresh_at 10) (mono_column rows) (fresh_at 10).
Proof.
  unfold mono_column. cbn [seq].
  eapply hoare_Seq with (Q := fresh2 10 12).
  { intros [e ah] [k Hk]. simpl. eexists; split; [reflexivity|]. split; [exists k|exists (length ah)]; simpl; unfold upd; simpl; auto. }
  eapply hoare_Seq with (Q := fresh2 10 12).
  { apply hoare_Repeat. intros [e ah] [[k Hk] [k' Hk']]. simpl in *. unfold upd; simpl. rewrite Hk'. simpl.
    eexists; split; [reflexivity|]. split; [exists k|exists k']; simpl; auto. }
  eapply hoare_Seq with (Q := fresh_at 10).
  { intros [e ah] [[k Hk] _]. simpl. eexists; split; [reflexivity|]. exists k. simpl. unfold upd; simpl. exact Hk. }
  eapply hoare_Seq with (Q := fresh_at 10).
  { intros [e ah] [k Hk]. prim_fresh Hk k. }
  eapply hoare_Seq with (Q := fresh_at 10).
  { intros [e ah] [k Hk]. simpl. eexists; split; [reflexivity|]. exists k. simpl. unfold upd; simpl. exact Hk. }
  eapply hoare_Seq; [|apply hoare_Skip].
  apply hoare_Repeat. intros [e ah] [k Hk]. simpl in *. rewrite Hk. simpl. eexists; split; [reflexivity|]. exists k. simpl.
  unfold upd; simpl. exact Hk.
Qed.

Lemma flip_ok (dec : bool) : hoare (fresh_at 10) (if dec then View 10 10 [1; 0] else Skip) (fresh_at 10).
Proof.
  destruct dec; [|apply hoare_Skip]. intros [e ah] [k Hk]. simpl. eexists; split; [reflexivity|]. exists k. simpl.
  unfold upd; simpl. exact Hk.
Qed.

(* accepted from ANY abstract state (it writes only into its own copy): usable as a callee *)
Lemma mono_total dec vec rows cols : hoare (fun _ => True) (sk_monotonicity_prox dec vec rows cols) (fresh_at 10).
Proof.
  unfold sk_monotonicity_prox, mono_body. cbn [seq].
  eapply hoare_Seq with (Q := fun _ => True).
  { destruct vec; simpl; intros [e ah] _; simpl; eexists; split; try reflexivity; exact I. }
  eapply hoare_Seq with (Q := fresh_at 10).
  { intros [e ah] _. simpl. eexists; split; [reflexivity|]. exists (length ah). reflexivity. }
  eapply hoare_Seq; [apply flip_ok|].
  eapply hoare_Seq with (Q := fresh_at 10).
  { intros [e ah] [k Hk]. simpl. eexists; split; [reflexivity|]. exists k. simpl. unfold upd; simpl. exact Hk. }
  eapply hoare_Seq; [apply hoare_Repeat, mono_column_ok|].
  eapply hoare_Seq; [apply flip_ok|apply hoare_Skip].
Qed.

Theorem monotonicity_prox_safe : forall dec vec rows cols, safe 1 (sk_monotonicity_prox dec vec rows cols) = true.
Proof.
  intros. apply (safe_of_hoare 1 _ (fresh_at 10)).
  eapply hoare_conseq; [intros s _; exact I|intros s H; exact H|apply mono_total].
Qed.

(* --- the seeded family: work buffer = the input itself (a flipped / reshaped view of it) *)
Lemma mono_column_dies rows s : fst s 10 = AProt -> dies (mono_column rows) s.
Proof.
  intros H. unfold mono_column. cbn [seq]. step_keep. step_keep. step_keep. apply dies_seq_l, dies_write, H.
Qed.

Lemma mono_body_rebind_dies dec vec rows cols : dies (mono_body (Rebind 10 0) dec vec rows (S cols)) (aenv0 [false], []).
Proof.
  unfold mono_body. cbn [seq].
  apply (dies_after_keeps _ _ 0); [|reflexivity|].
  { destruct vec; [apply keeps_view_self|apply keeps_skip]. }
  intros s1 H0. apply dies_after_rebind; [exact H0|]. clear s1 H0. intros s H.
  apply (dies_after_keeps _ _ 10); [|exact H|].
  { destruct dec; [apply keeps_view_self|apply keeps_skip]. }
  clear s H. intros s H. step_keep.
  apply dies_seq_l, dies_repeat_S, mono_column_dies, H.
Qed.

(* F1: decreasing=True on a flipped view of the input: rejected for every shape with at least one column;
   decreasing=False is the unmutated code - the defect needs decreasing=True *)
Theorem mut_monotonicity_prox_flip_rejected : forall vec rows cols, safe 1 (mut_monotonicity_prox_flip true vec rows (S cols)) = false.
Proof. intros. apply (unsafe_of_dies 1). apply mono_body_rebind_dies. Qed.
Theorem mut_monotonicity_prox_flip_hidden : forall vec rows cols,
  mut_monotonicity_prox_flip false vec rows cols = sk_monotonicity_prox false vec rows cols.
Proof. reflexivity. Qed.
(* F2: 1-D inputs skip the copy: rejected for vectors (either direction), identical to the code for matrices *)
Theorem mut_monotonicity_prox_vec_rejected : forall dec rows cols, safe 1 (mut_monotonicity_prox_vec dec true rows (S cols)) = false.
Proof. intros. apply (unsafe_of_dies 1). apply mono_body_rebind_dies. Qed.
Theorem mut_monotonicity_prox_vec_hidden : forall dec rows cols,
  mut_monotonicity_prox_vec dec false rows cols = sk_monotonicity_prox dec false rows cols.
Proof. reflexivity. Qed.

(* ================================================================== unimodality_prox *)
Lemma hoare_Call_fresh v x body args ret : x <> v -> (forall s, exists s', aexec body s = Some s') ->
  hoare (fresh_at v) (Call x body args ret) (fresh_at v).
Proof.
  intros Hne Hb [e ah] [k Hk]. simpl. destruct (Hb (call_env ANull e args, ah)) as [[e' ah'] E]. rewrite E.
  eexists; split; [reflexivity|]. exists k. simpl. unfold upd. destruct (Nat.eqb_spec v x); [congruence|exact Hk].
Qed.
Lemma mono_accepts dec vec rows cols s : exists s', aexec (sk_monotonicity_prox dec vec rows cols) s = Some s'.
Proof. destruct (mono_total dec vec rows cols s I) as (s' & E & _). eauto. Qed.

Lemma unimodal_total vec rows cols : hoare (fun _ => True) (sk_unimodality_prox vec rows cols) (fresh_at 20).
Proof.
  unfold sk_unimodality_prox, unimodal_body. cbn [seq].
  eapply hoare_Seq with (Q := fun _ => True).
  { destruct vec; simpl; intros [e ah] _; simpl; eexists; split; try reflexivity; exact I. }
  eapply hoare_Seq with (Q := fresh_at 20).
  { intros [e ah] _. simpl. eexists; split; [reflexivity|]. exists (length ah). reflexivity. }
  eapply hoare_Seq; [apply hoare_Call_fresh; [congruence|apply mono_accepts]|].
  eapply hoare_Seq with (Q := fresh_at 20).
  { intros [e ah] [k Hk]. simpl. eexists; split; [reflexivity|]. exists k. simpl. unfold upd; simpl. exact Hk. }
  eapply hoare_Seq; [apply hoare_Call_fresh; [congruence|apply mono_accepts]|].
  do 8 (eapply hoare_Seq with (Q := fresh_at 20);
        [intros [e ah] [k Hk]; simpl; eexists; split; [reflexivity|]; exists k; simpl; unfold upd; simpl; exact Hk|]).
  eapply hoare_Seq; [|apply hoare_Skip].
  apply hoare_Repeat. intros [e ah] [k Hk]. simpl in *. unfold upd; simpl. repeat (rewrite Hk; simpl).
  eexists; split; [reflexivity|]. exists k. simpl. rewrite ?Hk. reflexivity.
Qed.

Theorem unimodality_prox_safe : forall vec rows cols, safe 1 (sk_unimodality_prox vec rows cols) = true.
Proof.
  intros. apply (safe_of_hoare 1 _ (fresh_at 20)).
  eapply hoare_conseq; [intros s _; exact I|intros s H; exact H|apply unimodal_total].
Qed.

Lemma unimodal_rebind_dies vec rows cols : dies (unimodal_body (Rebind 20 0) vec rows (S cols)) (aenv0 [false], []).
Proof.
  unfold unimodal_body. cbn [seq].
  apply (dies_after_keeps _ _ 0); [|reflexivity|].
  { destruct vec; [apply keeps_view_self|apply keeps_skip]. }
  intros s1 H0. apply dies_after_rebind; [exact H0|]. clear s1 H0. intros s H.
  do 11 step_keep.
  apply dies_seq_l, dies_repeat_S. cbn [seq]. step_keep. apply dies_seq_l, dies_write, H.
Qed.

Theorem mut_unimodality_prox_rejected : forall vec rows cols, safe 1 (mut_unimodality_prox vec rows (S cols)) = false.
Proof. intros. apply (unsafe_of_dies 1). apply unimodal_rebind_dies. Qed.
(* only single-column inputs (a vector, an n x 1 matrix, one column slice) expose the second variant *)
Theorem mut_unimodality_prox_single_column_rejected : forall vec rows, safe 1 (mut_unimodality_prox_single_column vec rows 1) = false.
Proof. intros. apply (unsafe_of_dies 1). apply unimodal_rebind_dies. Qed.
Theorem mut_unimodality_prox_single_column_hidden : forall vec rows cols, cols <> 1 ->
  mut_unimodality_prox_single_column vec rows cols = sk_unimodality_prox vec rows cols.
Proof.
  intros vec rows cols H. unfold mut_unimodality_prox_single_column, sk_unimodality_prox.
  destruct (Nat.eqb_spec cols 1); [contradiction|reflexivity].
Qed.

(* ================================================================== non_negative_tucker *)
Definition writable (a : aref) : Prop := can_write a = true.
(* variable v designates a list allocated by this run all of whose entries may be written through *)
Definition good_list (v : var) (s : astate) : Prop :=
  exists k it, fst s v = AFresh k /\ nth_error (snd s) k = Some (ACell it) /\ Forall writable it.
Definition J (v w : var) (s : astate) : Prop := good_list v s /\ writable (fst s w).

Lemma nth_error_snoc_lt {A} (l : list A) x k y : nth_error l k = Some y -> nth_error (l ++ [x]) k = Some y.
Proof. intros H. rewrite nth_error_app1; [exact H|]. apply nth_error_Some. congruence. Qed.

Lemma nth_error_snoc_len {A} (l : list A) x : nth_error (l ++ [x]) (length l) = Some x.
Proof. rewrite nth_error_app2, Nat.sub_diag; [reflexivity|lia]. Qed.

Lemma J_alloc v w x n : x <> v -> x <> w -> hoare (J v w) (Alloc x n) (J v w).
Proof.
  intros Hv Hw [e ah] [(k & it & Hk & Hn & Hf) Hc]. simpl in *. eexists; split; [reflexivity|]. split.
  - exists k, it. simpl. unfold upd. destruct (Nat.eqb_spec v x); [congruence|]. repeat split; auto. apply nth_error_snoc_lt; auto.
  - simpl. unfold upd. destruct (Nat.eqb_spec w x); [congruence|exact Hc].
Qed.
Lemma J_env v w x (a : astate -> aref) c :
  (forall e ah, aexec c (e, ah) = Some (upd e x (a (e, ah)), ah)) -> x <> v -> x <> w -> hoare (J v w) c (J v w).
Proof.
  intros Hc Hv Hw [e ah] [(k & it & Hk & Hn & Hf) Hcw]. simpl in *. rewrite Hc. eexists; split; [reflexivity|]. split.
  - exists k, it. simpl. unfold upd. destruct (Nat.eqb_spec v x); [congruence|]. repeat split; auto.
  - simpl. unfold upd. destruct (Nat.eqb_spec w x); [congruence|exact Hcw].
Qed.
Lemma J_view v w x y sel : x <> v -> x <> w -> hoare (J v w) (View x y sel) (J v w).
Proof. apply (J_env v w x (fun s => fst s y)). reflexivity. Qed.
Lemma J_get v w x y i : x <> v -> x <> w -> hoare (J v w) (ListGet x y i) (J v w).
Proof. apply (J_env v w x (fun s => aread_cell (snd s) (fst s y) i)). reflexivity. Qed.
Lemma J_read_all v w f N : v <> 30 -> w <> 30 -> hoare (J v w) (read_all f N) (J v w).
Proof. intros Hv Hw. unfold read_all. apply hoare_seq_map. intros i. apply J_get; congruence. Qed.

(* x = v[i]; x *= k; v[i] = x *)
Lemma J_update v w x i k0 : x <> v -> x <> w ->
  hoare (J v w) (seq [ListGet x v i; InplaceOp x k0; ListSet v i x]) (J v w).
Proof.
  intros Hv Hw [e ah] [(k & it & Hk & Hn & Hf) Hc]. simpl in *. rewrite Hk. simpl. rewrite Hn.
  assert (Hx : upd e x (nth i it ANull) x = nth i it ANull) by (unfold upd; rewrite Nat.eqb_refl; reflexivity).
  assert (Hwr : writable (nth i it ANull)) by (apply Forall_nth_default; [reflexivity|exact Hf]).
  rewrite Hx. unfold writable in Hwr. rewrite Hwr.
  assert (Hv' : upd e x (nth i it ANull) v = AFresh k) by (unfold upd; destruct (Nat.eqb_spec v x); [congruence|exact Hk]).
  rewrite Hv'. simpl. eexists; split; [reflexivity|]. split.
  - exists k, (set_nth i (nth i it ANull) it). simpl. repeat split; auto.
    + rewrite nth_error_modify, Nat.eqb_refl, Hn. simpl. rewrite Hx. reflexivity.
    + apply Forall_set_nth; auto.
  - simpl. unfold upd. destruct (Nat.eqb_spec w x); [congruence|exact Hc].
Qed.

Lemma J_inplace_w v w k0 : hoare (J v w) (InplaceOp w k0) (J v w).
Proof. intros [e ah] [Hg Hc]. simpl in *. unfold writable in Hc. rewrite Hc. eexists; split; [reflexivity|]. split; auto. Qed.

(* dst.append(tl.abs(src[i])) *)
Lemma J_append_abs v w src i : v <> 13 -> v <> 15 -> w <> 13 -> w <> 15 ->
  hoare (J v w) (seq [ListGet 13 src i; Alloc 15 2; ListAppend v 15]) (J v w).
Proof.
  intros H1 H2 H3 H4 [e ah] [(k & it & Hk & Hn & Hf) Hc]. simpl in *.
  assert (Hv' : upd (upd e 13 (aread_cell ah (e src) i)) 15 (AFresh (length ah)) v = AFresh k).
  { unfold upd. destruct (Nat.eqb_spec v 15); [congruence|]. destruct (Nat.eqb_spec v 13); [congruence|exact Hk]. }
  rewrite Hv'. simpl. eexists; split; [reflexivity|]. split.
  - exists k, (it ++ [AFresh (length ah)]). simpl. repeat split; auto.
    + rewrite nth_error_modify, Nat.eqb_refl. rewrite (nth_error_snoc_lt _ _ _ _ Hn). simpl.
      unfold upd at 1. simpl. reflexivity.
    + apply Forall_app. split; [exact Hf|]. constructor; [reflexivity|constructor].
  - simpl. unfold upd. destruct (Nat.eqb_spec w 15); [congruence|]. destruct (Nat.eqb_spec w 13); [congruence|exact Hc].
Qed.
Lemma J_abs_all v w src N : v <> 13 -> v <> 15 -> w <> 13 -> w <> 15 -> hoare (J v w) (abs_all src v N) (J v w).
Proof. intros. unfold abs_all. apply hoare_seq_map. intros i. apply J_append_abs; auto. Qed.

Lemma J_new_list x : hoare (fun _ => True) (ListNew x []) (J x x).
Proof.
  intros [e ah] _. simpl. eexists; split; [reflexivity|]. split.
  - exists (length ah), []. simpl. unfold upd. rewrite Nat.eqb_refl. repeat split; auto.
    rewrite nth_error_app2, Nat.sub_diag; [reflexivity|lia].
  - simpl. unfold upd. rewrite Nat.eqb_refl. reflexivity.
Qed.

(* tucker_normalize: from ANY state to a run-allocated core and a run-allocated list of run-allocated factors *)
Lemma renorm_J N : hoare (fun _ => True) (tucker_renorm 23 24 N) (J 24 23).
Proof.
  unfold tucker_renorm. cbn [seq].
  eapply hoare_Seq; [apply J_new_list|].
  eapply hoare_Seq; [apply J_abs_all; congruence|].
  intros [e ah] [(k & it & Hk & Hn & Hf) _]. simpl in *. eexists; split; [reflexivity|]. split.
  - exists k, it. simpl. unfold upd; simpl. repeat split; auto. apply nth_error_snoc_lt; auto.
  - simpl. reflexivity.
Qed.

Lemma init_nn_K N : hoare (fun _ => True) (sk_initialize_tucker_nn_gen N) (J 14 16).
Proof.
  unfold sk_initialize_tucker_nn_gen.
  match goal with |- hoare _ (seq [?a; ?b; ?c; ?d; ?e; ?f; ?g]) _ => change (seq [a; b; c; d; e; f; g]) with (seq ([a; b; c; d] ++ [e; f; g])) end.
  eapply hoare_seq_app with (Q := J 14 14).
  - intros [e ah] _. simpl. eexists; split; [reflexivity|]. split.
    + do 2 eexists. simpl. split; [reflexivity|]. split; [apply nth_error_snoc_len|constructor].
    + reflexivity.
  - cbn [seq]. eapply hoare_Seq; [apply J_abs_all; congruence|].
    intros [e ah] [(k & it & Hk & Hn & Hf) _]. simpl in *. eexists; split; [reflexivity|]. split.
    + exists k, it. simpl. unfold upd; simpl. repeat split; auto. do 2 (apply nth_error_snoc_lt). exact Hn.
    + reflexivity.
Qed.

Lemma init_nn_J N : hoare (fun _ => True) (seq [sk_initialize_tucker_nn_gen N; Rebind 23 16; Rebind 24 14]) (J 24 23).
Proof.
  cbn [seq]. eapply hoare_Seq; [apply init_nn_K|].
  intros [e ah] [(k & it & Hk & Hn & Hf) Hc]. simpl in *. eexists; split; [reflexivity|]. split.
  - exists k, it. simpl. unfold upd; simpl. repeat split; auto.
  - simpl. unfold upd; simpl. exact Hc.
Qed.

Lemma nn_tucker_mode_J N mode : hoare (J 24 23) (nn_tucker_mode 23 24 N mode) (J 24 23).
Proof.
  unfold nn_tucker_mode. cbn [seq].
  eapply hoare_Seq; [apply J_read_all; congruence|].
  eapply hoare_Seq; [apply J_alloc; congruence|].
  eapply hoare_Seq; [apply J_view; congruence|].
  eapply hoare_Seq; [apply J_alloc; congruence|].
  eapply hoare_Seq; [apply J_alloc; congruence|].
  apply (J_update 24 23 35 mode 2%Z); congruence.
Qed.
Lemma nn_tucker_core_J N : hoare (J 24 23) (nn_tucker_core 23 24 N) (J 24 23).
Proof.
  unfold nn_tucker_core. cbn [seq].
  eapply hoare_Seq; [apply J_read_all; congruence|].
  eapply hoare_Seq; [apply J_alloc; congruence|].
  eapply hoare_Seq; [apply J_alloc; congruence|].
  eapply hoare_Seq; [apply J_inplace_w|apply hoare_Skip].
Qed.
Lemma renorm_opt_J (normalize : bool) N : hoare (J 24 23) (if normalize then tucker_renorm 23 24 N else Skip) (J 24 23).
Proof. destruct normalize; [|apply hoare_Skip]. eapply hoare_conseq; [intros s _; exact I|intros s H; exact H|apply renorm_J]. Qed.

Lemma nn_tucker_rest_J (N sweeps : nat) (normalize : bool) (modes : list nat) :
  hoare (J 24 23)
        (seq [ (if normalize then tucker_renorm 23 24 N else Skip);
               Repeat sweeps (seq [ seq (map (nn_tucker_mode 23 24 N) modes); nn_tucker_core 23 24 N;
                                    (if normalize then tucker_renorm 23 24 N else Skip) ]);
               ListNew 25 [23; 24] ])
        (fun _ => True).
Proof.
  cbn [seq]. eapply hoare_Seq; [apply renorm_opt_J|].
  eapply hoare_Seq with (Q := J 24 23).
  { apply hoare_Repeat. eapply hoare_Seq; [apply hoare_seq_map; intros m; apply nn_tucker_mode_J|].
    eapply hoare_Seq; [apply nn_tucker_core_J|]. eapply hoare_Seq; [apply renorm_opt_J|apply hoare_Skip]. }
  eapply hoare_Seq; [|apply hoare_Skip]. intros [e ah] _. simpl. eexists; split; [reflexivity|exact I].
Qed.

Lemma seq_cons c l : seq (c :: l) = Seq c (seq l).
Proof. reflexivity. Qed.

(* non_negative_tucker with a user initialisation: every order, number of sweeps, update order, with or without normalisation *)
Theorem nn_tucker_gen_safe : forall N sweeps normalize modes, safe 2 (sk_nn_tucker_gen N sweeps normalize modes) = true.
Proof.
  intros. apply (safe_of_hoare 2 _ (fun _ => True)). unfold sk_nn_tucker_gen, nn_tucker_body.
  match goal with |- hoare _ (seq (?a :: ?b :: ?c :: ?rest)) _ => change (seq (a :: b :: c :: rest)) with (seq ([a; b; c] ++ rest)) end.
  eapply hoare_seq_app; [|apply nn_tucker_rest_J].
  eapply hoare_conseq; [intros s _; exact I|intros s H; exact H|apply init_nn_J].
Qed.
Theorem nn_tucker_gen_frame : forall N sweeps normalize modes, unchanged_even_if_interrupted 2 (sk_nn_tucker_gen N sweeps normalize modes).
Proof. intros. apply safe_unchanged_raise, nn_tucker_gen_safe. Qed.

Theorem initialize_tucker_nn_gen_safe : forall N, safe 2 (sk_initialize_tucker_nn_gen N) = true.
Proof.
  intros. apply (safe_of_hoare 2 _ (J 14 16)).
  eapply hoare_conseq; [intros s _; exact I|intros s H; exact H|apply init_nn_K].
Qed.

(* --- seeded family E: tl.abs only of the arrays that contain a negative entry *)
(* invisible when EVERY array of the initialisation has a negative entry: the mutant is then the code itself *)
Theorem mut_nn_tucker_hidden_by_mixed_signs : forall N sweeps normalize modes,
  mut_nn_tucker N sweeps normalize modes [] false = sk_nn_tucker_gen N sweeps normalize modes.
Proof. reflexivity. Qed.

Lemma abs_some_keeps x src dst N byref : x <> 13 -> x <> 15 -> keeps x (abs_some src dst N byref).
Proof.
  intros H1 H2. unfold abs_some. apply keeps_seq_map. intros i. apply keeps_unassigned. simpl.
  destruct (Nat.eqb_spec x 13); [congruence|]. destruct (memb i byref); simpl; destruct (Nat.eqb_spec x 15); congruence || reflexivity.
Qed.
Lemma read_all_keeps x f N : x <> 30 -> keeps x (read_all f N).
Proof.
  intros H. unfold read_all. apply keeps_seq_map. intros i. apply keeps_unassigned. simpl. destruct (Nat.eqb_spec x 30); congruence.
Qed.
Lemma nn_tucker_mode_keeps_core N mode : keeps 23 (nn_tucker_mode 23 24 N mode).
Proof.
  unfold nn_tucker_mode. cbn [seq]. intros s s2 Hs E. rewrite aexec_Seq in E.
  destruct (aexec (read_all 24 N) s) as [s1|] eqn:E1; [|discriminate].
  pose proof (read_all_keeps 23 24 N ltac:(congruence) _ _ Hs E1) as H1.
  eapply (keeps_unassigned 23); [|exact H1|exact E]. reflexivity.
Qed.

(* a core without a negative entry is passed by reference and scaled in place: rejected for every order, update order and
   pattern of by-reference factors as soon as ONE sweep runs without normalisation *)
Theorem mut_nn_tucker_core_by_reference_rejected : forall N sweeps modes byref,
  safe 2 (mut_nn_tucker N (S sweeps) false modes byref true) = false.
Proof.
  intros. apply (unsafe_of_dies 2). unfold mut_nn_tucker, nn_tucker_body, mut_initialize_tucker_nn. cbn [seq].
  (* the callee: core = init[0] (protected); ...; core passed through *)
  apply dies_seq_r. intros s1 E1. revert E1. rewrite !aexec_Seq. cbn [aexec aenv0 repeat map arg_aref nth].
  intros E1.
  assert (H16 : fst s1 16 = AProt).
  { revert E1.
    match goal with |- context [aexec (abs_some 12 14 N byref) ?s0] => destruct (aexec (abs_some 12 14 N byref) s0) as [s2|] eqn:E2; [|discriminate] end.
    match type of E2 with aexec _ ?s0 = _ => assert (H10 : fst s2 10 = AProt) by (eapply (abs_some_keeps 10 12 14 N byref); [congruence|congruence| |exact E2]; reflexivity) end.
    destruct s2 as [e2 ah2]. simpl in *. intros E1. inversion E1; subst. simpl. unfold upd; simpl. exact H10. }
  clear E1. apply dies_after_rebind; [exact H16|]. clear s1 H16. intros s H.
  step_keep. step_keep.
  apply dies_seq_l, dies_repeat_S. cbn [seq].
  apply (dies_after_keeps _ _ 23); [apply keeps_seq_map; intros m; apply nn_tucker_mode_keeps_core|exact H|].
  clear s H. intros s H. apply dies_seq_l. unfold nn_tucker_core. cbn [seq].
  apply (dies_after_keeps _ _ 23); [apply read_all_keeps; congruence|exact H|].
  clear s H. intros s H. step_keep. step_keep. apply dies_seq_l, dies_inplace, H.
Qed.

(* order 3, one sweep over the modes 0, 1, 2: EVERY non-empty pattern of by-reference arrays is rejected ... *)
Definition r7_patterns : list (list nat * bool) :=
  [([0], false); ([1], false); ([2], false); ([0; 1], false); ([0; 2], false); ([1; 2], false); ([0; 1; 2], false);
   ([], true); ([0], true); ([1], true); ([2], true); ([0; 1], true); ([0; 2], true); ([1; 2], true); ([0; 1; 2], true)].
Lemma mut_nn_tucker_order3_rejected :
  forallb (fun p => negb (safe 2 (mut_nn_tucker 3 1 false [0; 1; 2] (fst p) (snd p)))) r7_patterns = true.
Proof. vm_compute. reflexivity. Qed.
(* ... and every one of them is invisible with normalize_factors=True (tucker_normalize copies first) *)
Lemma mut_nn_tucker_order3_hidden_by_normalisation :
  forallb (fun p => safe 2 (mut_nn_tucker 3 2 true [0; 1; 2] (fst p) (snd p))) r7_patterns = true.
Proof. vm_compute. reflexivity. Qed.
(* ... a factor that is not updated (a mode outside `modes`, or no sweep at all) hides its by-reference passing *)
Lemma mut_nn_tucker_order3_hidden_without_update :
  safe 2 (mut_nn_tucker 3 1 false [0; 2] [1] false) = true /\ safe 2 (mut_nn_tucker 3 0 false [0; 1; 2] [0; 1; 2] true) = true.
Proof. vm_compute. split; reflexivity. Qed.

(* concrete heaps: what the mutants change, what the code leaves alone *)
Lemma mut_nn_tucker_changes_arguments :
  footprint (mut_nn_tucker 3 1 false [0; 1; 2] [1] false) r7_tucker_args r7_heap = [3] /\
  footprint (mut_nn_tucker 3 1 false [0; 1; 2] [0; 1; 2] true) r7_tucker_args r7_heap = [1; 2; 3; 4] /\
  footprint (sk_nn_tucker_gen 3 2 false [0; 1; 2]) r7_tucker_args r7_heap = [] /\
  footprint (sk_nn_tucker_gen 3 2 true [0; 1; 2]) r7_tucker_args r7_heap = [].
Proof. vm_compute. repeat split; reflexivity. Qed.

Lemma mut_prox_changes_arguments :
  footprint (mut_monotonicity_prox_flip true false 2 2) [RObj 7 [0; 1; 2; 3]] r7_heap = [7] /\
  footprint (mut_monotonicity_prox_vec false true 3 1) [RObj 8 [0; 1; 2]] r7_heap = [8] /\
  footprint (mut_unimodality_prox false 2 2) [RObj 7 [0; 1; 2; 3]] r7_heap = [7] /\
  footprint (mut_unimodality_prox_single_column true 3 1) [RObj 8 [0; 1; 2]] r7_heap = [8] /\
  footprint (sk_monotonicity_prox true false 2 2) [RObj 7 [0; 1; 2; 3]] r7_heap = [] /\
  footprint (sk_monotonicity_prox true true 3 1) [RObj 8 [0; 1; 2]] r7_heap = [] /\
  footprint (sk_unimodality_prox true 3 1) [RObj 8 [0; 1; 2]] r7_heap = [].
Proof. vm_compute. repeat split; reflexivity. Qed.

Theorem monotonicity_prox_frame : forall dec vec rows cols, unchanged_even_if_interrupted 1 (sk_monotonicity_prox dec vec rows cols).
Proof. intros. apply safe_unchanged_raise, monotonicity_prox_safe. Qed.
Theorem unimodality_prox_frame : forall vec rows cols, unchanged_even_if_interrupted 1 (sk_unimodality_prox vec rows cols).
Proof. intros. apply safe_unchanged_raise, unimodality_prox_safe. Qed.

(* the estimator class Tucker_NN: est.fit_transform(tensor) with the receiver holding the user init (one option attribute): of the
   caller's heap ONLY the receiver object changes, for every order / sweep count / update order / normalisation *)
Theorem nn_tucker_class_fit_frame : forall N sweeps normalize modes (self X : ref) (h0 : heap) (o : nat),
  o < length h0 -> target self <> Some o ->
  nth_error (snd (exec (sk_estimator_fit 1 (sk_nn_tucker_gen N sweeps normalize modes) 25) (env0 [self; X], h0))) o = nth_error h0 o.
Proof. intros. apply estimator_fit_frame; auto. apply nn_tucker_gen_safe. Qed.
