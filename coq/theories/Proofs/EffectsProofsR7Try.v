(* C15, round 7 -- try statements inside callees and loops (Model.EffectsR7.xcmd): whatever positions the try bodies raise at
   (ANY oracle, consumed in execution order across calls and loop iterations), a program accepted by `xsafe` leaves the
   caller's heap untouched.  Same simulation as Proofs/EffectsProofsTry.tcmd_sim, plus the call rule (the callee's final
   state is transported back into the caller's environment) and the loop rule. *)
From Coq Require Import List Arith ZArith Bool Lia.
From TLV Require Import Model.Effects Model.EffectsR7 Proofs.EffectsProofs Proofs.EffectsProofsGen Proofs.EffectsProofsTry.
Import ListNotations.

Lemma xexec_hext : forall t ns e h, hext h (snd (fst (xexec t ns (e, h)))).
Proof.
  induction t; intros ns e h; simpl.
  - apply exec_hext.
  - destruct ns as [|n ns']; [apply exec_hext|].
    pose proof (run_hext c n e h) as Hr. destruct (run c n (e, h)) as [[e1 h1] [m|]]; simpl in *; [exact Hr|].
    eapply hext_trans; [exact Hr|apply exec_hext].
  - specialize (IHt1 ns e h). destruct (xexec t1 ns (e, h)) as [[e1 h1] ns1]. simpl in *.
    eapply hext_trans; [exact IHt1|apply IHt2].
  - revert ns e h. induction k; intros ns e h; simpl; [apply hext_refl|].
    specialize (IHt ns e h). destruct (xexec t ns (e, h)) as [[e1 h1] ns1]. simpl in *.
    eapply hext_trans; [exact IHt|apply IHk].
  - specialize (IHt ns (call_env RNull e args) h). unfold env, var in *.
    destruct (xexec t ns (call_env RNull e args, h)) as [[e' h'] ns']. simpl in *. exact IHt.
Qed.

Section XcmdSim.
Variable h0 : heap.
Variable U : nat -> Prop.
Hypothesis U_init : forall o, U o -> o < length h0.

Lemma xcmd_sim : forall t l l', xstates t l = Some l' ->
  forall ns s, covered h0 U l s -> covered h0 U l' (fst (xexec t ns s)).
Proof.
  induction t; intros l l' Ht ns [e h] Hcov.
  - (* XPlain *) destruct Hcov as (ae & ah & Hin & Hinv). simpl in *.
    destruct (tbind_in _ _ _ Ht _ Hin) as (ra & Ea & Hi).
    destruct (aexec c (ae, ah)) as [[ae1 ah1]|] eqn:E1; [|discriminate]. simpl in Ea. inversion Ea; subst.
    exists ae1, ah1. split; [apply Hi; left; reflexivity|].
    exact (simulation h0 U U_init c _ _ _ _ _ _ E1 Hinv).
  - (* XTry *) destruct Hcov as (ae & ah & Hin & Hinv). simpl in *.
    destruct (tbind_in _ _ _ Ht _ Hin) as (ra & Ea & Hi).
    destruct (aexec c (ae, ah)) as [[ae2 ah2]|] eqn:E2; [|discriminate].
    destruct (tbind (aprefixes c (ae, ah)) (fun sp => one_state (aexec hd sp))) as [hs|] eqn:Eh; [|discriminate].
    inversion Ea; subst.
    assert (Hnormal : covered h0 U l' (exec c (e, h))).
    { exists ae2, ah2. split; [apply Hi; left; reflexivity|]. exact (simulation h0 U U_init c _ _ _ _ _ _ E2 Hinv). }
    destruct ns as [|n ns']; [exact Hnormal|].
    destruct (run c n (e, h)) as [[e1 h1] [m|]] eqn:R; simpl.
    + pose proof (run_complete _ _ _ _ _ R) as Hc. rewrite Hc. exact Hnormal.
    + destruct (run_prefix_inv h0 U U_init c n _ _ _ _ _ _ _ _ E2 Hinv R) as (aep & ahp & Hinp & Hip).
      destruct (tbind_in _ _ _ Eh _ Hinp) as (rb & Eb & Hib).
      destruct (aexec hd (aep, ahp)) as [[ae3 ah3]|] eqn:E3; [|discriminate]. simpl in Eb. inversion Eb; subst.
      exists ae3, ah3. split; [apply Hi; right; apply Hib; left; reflexivity|].
      exact (simulation h0 U U_init hd _ _ _ _ _ _ E3 Hip).
  - (* XSeq *) simpl in *.
    destruct (xstates t1 l) as [l1|] eqn:E1; [|discriminate].
    specialize (IHt1 _ _ E1 ns (e, h) Hcov).
    destruct (xexec t1 ns (e, h)) as [s1 ns1] eqn:X1. simpl in IHt1.
    apply (IHt2 _ _ Ht ns1 s1). exact IHt1.
  - (* XRepeat *) simpl in *. revert l ns e h Ht Hcov. induction k; intros l ns e h Ht Hcov; simpl in *.
    + inversion Ht; subst. exact Hcov.
    + destruct (xstates t l) as [l1|] eqn:E1; [|discriminate].
      specialize (IHt _ _ E1 ns (e, h) Hcov).
      destruct (xexec t ns (e, h)) as [[e1 h1] ns1] eqn:X1. simpl in IHt.
      exact (IHk _ _ _ _ Ht IHt).
  - (* XCall *) destruct Hcov as (ae & ah & Hin & Hinv). simpl in *.
    destruct (tbind_in _ _ _ Ht _ Hin) as (ra & Ea & Hi). simpl in Ea.
    destruct (xstates t [(call_env ANull ae args, ah)]) as [l1|] eqn:E1; [|discriminate].
    inversion Ea; subst ra; clear Ea.
    assert (Hc : Inv h0 U (call_env RNull e args) h (call_env ANull ae args) ah).
    { eapply inv_env_change; [exact Hinv|]. destruct Hinv as (_ & _ & _ & _ & H5).
      intros i. unfold call_env. destruct (nth_error args i); [apply H5|reflexivity]. }
    assert (Hcov1 : covered h0 U [(call_env ANull ae args, ah)] (call_env RNull e args, h)).
    { exists (call_env ANull ae args), ah. split; [left; reflexivity|exact Hc]. }
    specialize (IHt _ _ E1 ns _ Hcov1).
    pose proof (xexec_hext t ns (call_env RNull e args) h) as Hx.
    unfold env, var in *.
    destruct (xexec t ns (call_env RNull e args, h)) as [[e' h'] ns'] eqn:X. simpl in *.
    destruct IHt as (ae' & ah' & Hin' & Hinv').
    exists (upd ae x (ae' ret)), ah'. split.
    + apply Hi. apply in_map_iff. exists (ae', ah'). split; [reflexivity|exact Hin'].
    + eapply inv_env_change; [exact Hinv'|]. intros y. unfold upd. cbn [fst snd]. cbv beta. destruct (Nat.eqb y x).
      * destruct Hinv' as (_ & _ & _ & _ & H5). apply H5.
      * eapply inv_mono_env; eauto.
Qed.
End XcmdSim.

Theorem frame_xcmd : forall (t : xcmd) (args : list ref) (h0 : heap),
  xsafe (length args) t = true ->
  forall ns o, o < length h0 -> nth_error (snd (fst (xexec t ns (env0 args, h0)))) o = nth_error h0 o.
Proof.
  intros t args h0 Hs ns o Ho. unfold xsafe, xsafe_with in Hs.
  destruct (xstates t [(aenv0 (repeat false (length args)), [])]) as [l'|] eqn:E; [|discriminate].
  assert (HU : forall o, False -> o < length h0) by (intros ? []).
  assert (Hinv : Inv h0 (fun _ => False) (env0 args) h0 (aenv0 (repeat false (length args))) []).
  { split; [|split; [|split; [|split]]].
    - simpl. lia.
    - intros k ao Hk. destruct k; discriminate.
    - reflexivity.
    - intros o' it [].
    - apply env0_rel_prot. }
  destruct (xcmd_sim h0 (fun _ => False) HU t _ _ E ns (env0 args, h0)) as (ae & ah & _ & (_ & _ & H3 & _ & _)).
  { exists (aenv0 (repeat false (length args))), []. split; [left; reflexivity|exact Hinv]. }
  apply H3; auto.
Qed.

(* tcmd is the call-free, loop-free fragment *)
Lemma xc_of_tcmd_exec : forall t ns s, xexec (xc_of_tcmd t) ns s = texec t ns s.
Proof.
  induction t; intros ns s; simpl; try reflexivity.
  rewrite IHt1. destruct (texec t1 ns s) as [s1 ns1]; auto.
Qed.
Lemma xc_of_tcmd_states : forall t l, xstates (xc_of_tcmd t) l = tstates t l.
Proof.
  induction t; intros l; simpl; try reflexivity.
  rewrite IHt1. destruct (tstates t1 l); [apply IHt2|reflexivity].
Qed.

(* non_negative_tucker_hals(algorithm="active_set"): the callee active_set_nnls catches the failure of its solve in every one
   of its sweeps; accepted, hence framed for EVERY oracle.  With the seeded handler (warm start reset in place) the program is
   still accepted as long as the warm start is the run's own core (tl.abs copy) and rejected once the core is the caller's
   (family E, coreref = true): two cooperating sites in two functions. *)
Lemma nn_tucker_hals_active_set_xsafe :
  xsafe 4 xc_nn_tucker_hals_active_set = true /\
  xsafe 4 (xc_nn_tucker_hals_as (sk_initialize_tucker_nn_gen 3) xc_active_set_nnls_mut) = true /\
  xsafe 4 (xc_nn_tucker_hals_as (mut_initialize_tucker_nn 3 [] true) xc_active_set_nnls) = true /\
  xsafe 4 (xc_nn_tucker_hals_as (mut_initialize_tucker_nn 3 [] true) xc_active_set_nnls_mut) = false.
Proof. vm_compute. repeat split; reflexivity. Qed.

Theorem nn_tucker_hals_active_set_frame : forall (args : list ref) (h0 : heap) (ns : list nat) (o : nat),
  length args = 4 -> o < length h0 ->
  nth_error (snd (fst (xexec xc_nn_tucker_hals_active_set ns (env0 args, h0)))) o = nth_error h0 o.
Proof. intros args h0 ns o Hl Ho. apply frame_xcmd; [rewrite Hl; exact (proj1 nn_tucker_hals_active_set_xsafe)|exact Ho]. Qed.

Definition r7_hals_args : list ref := [RObj 0 [0; 1; 2; 3]; RObj 6 []; RNull; RNull].
(* the two cooperating defects on a concrete heap: the callee's handler (first sweep of the callee raises at once) zeroes the
   caller's core (object 1); no exception at all: nothing visible; the code itself: nothing, whatever the oracle *)
Lemma nn_tucker_hals_active_set_demo :
  nth_error (snd (fst (xexec (xc_nn_tucker_hals_as (mut_initialize_tucker_nn 3 [] true) xc_active_set_nnls_mut) [0] (env0 r7_hals_args, r7_heap)))) 1
    = Some (OBuf [0; 0; 1; 1]%Z) /\
  firstn 9 (snd (fst (xexec (xc_nn_tucker_hals_as (mut_initialize_tucker_nn 3 [] true) xc_active_set_nnls_mut) [] (env0 r7_hals_args, r7_heap)))) = r7_heap /\
  firstn 9 (snd (fst (xexec xc_nn_tucker_hals_active_set [0; 1; 0; 2] (env0 r7_hals_args, r7_heap)))) = r7_heap.
Proof. vm_compute. repeat split; reflexivity. Qed.
