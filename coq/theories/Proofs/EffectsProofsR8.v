(* C15, round 8 -- structured exceptions with arbitrary nesting (Model.EffectsR8.ycmd): a try statement inside a try body,
   inside a handler, inside a callee or a loop; handlers that raise themselves; exceptions that reach the caller.
   For ANY oracle (one entry per executed plain command: the number of primitive effects after which it raises), a program
   accepted by `ysafe` leaves the caller's heap untouched - whether the call returns or raises.  The simulation carries two
   sets of abstract states (normal exits / exception in flight). *)
From Coq Require Import List Arith ZArith Bool Lia.
From TLV Require Import Model.Effects Model.EffectsR7 Model.EffectsR8 Proofs.EffectsProofs Proofs.EffectsProofsGen
  Proofs.EffectsProofsTry Proofs.EffectsProofsReach Proofs.EffectsProofsR5 Proofs.EffectsProofsR7.
Import ListNotations.

Lemma ybind_in (f : astate -> option ypair) : forall l n r, ybind l f = Some (n, r) ->
  forall a, In a l -> exists na ra, f a = Some (na, ra) /\ incl na n /\ incl ra r.
Proof.
  induction l as [|a0 l IH]; intros n r H a Ha; [destruct Ha|]. simpl in H.
  destruct (f a0) as [[n1 r1]|] eqn:E0; [|discriminate].
  destruct (ybind l f) as [[n2 r2]|] eqn:E1; [|discriminate].
  inversion H; subst. destruct Ha as [-> | Ha].
  - exists n1, r1. split; auto. split; apply incl_appl, incl_refl.
  - destruct (IH _ _ eq_refl a Ha) as (na & ra & Ea & Hn & Hr). exists na, ra. split; auto. split; apply incl_appr; auto.
Qed.

Lemma yexec_hext : forall t ns e h, hext h (snd (fst (fst (yexec t ns (e, h))))).
Proof.
  induction t; intros ns e h; simpl.
  - destruct ns as [|n ns']; [apply exec_hext|].
    pose proof (run_hext c n e h) as Hr. destruct (run c n (e, h)) as [[e1 h1] [m|]]; simpl in *; exact Hr.
  - apply hext_refl.
  - specialize (IHt1 ns e h). destruct (yexec t1 ns (e, h)) as [[[e1 h1] ns1] r]. simpl in *.
    destruct r; [exact IHt1|]. eapply hext_trans; [exact IHt1|apply IHt2].
  - specialize (IHt1 ns e h). destruct (yexec t1 ns (e, h)) as [[[e1 h1] ns1] r]. simpl in *.
    destruct r; [|exact IHt1]. eapply hext_trans; [exact IHt1|apply IHt2].
  - revert ns e h. induction k; intros ns e h; simpl; [apply hext_refl|].
    specialize (IHt ns e h). destruct (yexec t ns (e, h)) as [[[e1 h1] ns1] r]. simpl in *.
    destruct r; [exact IHt|]. eapply hext_trans; [exact IHt|apply IHk].
  - specialize (IHt ns (call_env RNull e args) h). unfold env, var in *.
    destruct (yexec t ns (call_env RNull e args, h)) as [[[e' h'] ns'] r]. simpl in *. destruct r; exact IHt.
Qed.

Section YcmdSim.
Variable h0 : heap.
Variable U : nat -> Prop.
Hypothesis U_init : forall o, U o -> o < length h0.

Lemma covered_incl : forall l l' s, incl l l' -> covered h0 U l s -> covered h0 U l' s.
Proof. intros l l' s Hi (ae & ah & Hin & Hinv). exists ae, ah. split; auto. Qed.

(* the outcome of the concrete run is covered by the normal set, or - when an exception is in flight - by the raised set *)
Definition ycov (n r : list astate) (out : youtcome) : Prop :=
  let '(s, _, raised) := out in if raised then covered h0 U r s else covered h0 U n s.

Lemma ycmd_sim : forall t l n r, ystates t l = Some (n, r) ->
  forall ns s, covered h0 U l s -> ycov n r (yexec t ns s).
Proof.
  induction t; intros l nn rr Ht ns [e h] Hcov.
  - (* YPlain *) destruct Hcov as (ae & ah & Hin & Hinv). simpl in *.
    destruct (ybind_in _ _ _ _ Ht _ Hin) as (na & ra & Ea & Hn & Hr).
    destruct (aexec c (ae, ah)) as [[ae2 ah2]|] eqn:E2; [|discriminate]. inversion Ea; subst na ra; clear Ea.
    assert (Hnormal : covered h0 U nn (exec c (e, h))).
    { exists ae2, ah2. split; [apply Hn; left; reflexivity|]. exact (simulation h0 U U_init c _ _ _ _ _ _ E2 Hinv). }
    destruct ns as [|n ns']; [exact Hnormal|].
    destruct (run c n (e, h)) as [[e1 h1] [m|]] eqn:R; simpl.
    + pose proof (run_complete _ _ _ _ _ R) as Hc. rewrite Hc. exact Hnormal.
    + destruct (run_prefix_inv h0 U U_init c n _ _ _ _ _ _ _ _ E2 Hinv R) as (aep & ahp & Hinp & Hip).
      exists aep, ahp. split; [apply Hr; exact Hinp|exact Hip].
  - (* YRaise *) simpl in *. inversion Ht; subst. exact Hcov.
  - (* YSeq *) simpl in *.
    destruct (ystates t1 l) as [[n1 r1]|] eqn:E1; [|discriminate].
    destruct (ystates t2 n1) as [[n2 r2]|] eqn:E2; [|discriminate]. inversion Ht; subst nn rr; clear Ht.
    specialize (IHt1 _ _ _ E1 ns (e, h) Hcov).
    destruct (yexec t1 ns (e, h)) as [[s1 ns1] r] eqn:X1. simpl in IHt1. destruct r.
    + simpl. eapply covered_incl; [|exact IHt1]. apply incl_appl, incl_refl.
    + specialize (IHt2 _ _ _ E2 ns1 s1 IHt1).
      destruct (yexec t2 ns1 s1) as [[s2 ns2] r]. simpl in *. destruct r; [|exact IHt2].
      eapply covered_incl; [|exact IHt2]. apply incl_appr, incl_refl.
  - (* YTry *) simpl in *.
    destruct (ystates t1 l) as [[n1 r1]|] eqn:E1; [|discriminate].
    destruct (ystates t2 r1) as [[n2 r2]|] eqn:E2; [|discriminate]. inversion Ht; subst nn rr; clear Ht.
    specialize (IHt1 _ _ _ E1 ns (e, h) Hcov).
    destruct (yexec t1 ns (e, h)) as [[s1 ns1] r] eqn:X1. simpl in IHt1. destruct r.
    + specialize (IHt2 _ _ _ E2 ns1 s1 IHt1).
      destruct (yexec t2 ns1 s1) as [[s2 ns2] r]. simpl in *. destruct r; [exact IHt2|].
      eapply covered_incl; [|exact IHt2]. apply incl_appr, incl_refl.
    + simpl. eapply covered_incl; [|exact IHt1]. apply incl_appl, incl_refl.
  - (* YRepeat *) simpl in *. revert l nn rr ns e h Ht Hcov. induction k; intros l nn rr ns e h Ht Hcov; simpl in *.
    + inversion Ht; subst. exact Hcov.
    + destruct (ystates t l) as [[n1 r1]|] eqn:E1; [|discriminate].
      destruct (yoiter k (ystates t) n1) as [[n2 r2]|] eqn:E2; [|discriminate]. inversion Ht; subst nn rr; clear Ht.
      specialize (IHt _ _ _ E1 ns (e, h) Hcov).
      destruct (yexec t ns (e, h)) as [[[e1 h1] ns1] r] eqn:X1. simpl in IHt. destruct r.
      * simpl. eapply covered_incl; [|exact IHt]. apply incl_appl, incl_refl.
      * specialize (IHk _ _ _ ns1 e1 h1 E2 IHt).
        destruct (yiter k (yexec t) ns1 (e1, h1)) as [[s2 ns2] r]. simpl in *. destruct r; [|exact IHk].
        eapply covered_incl; [|exact IHk]. apply incl_appr, incl_refl.
  - (* YCall *) destruct Hcov as (ae & ah & Hin & Hinv). simpl in *.
    destruct (ybind_in _ _ _ _ Ht _ Hin) as (na & ra & Ea & Hn & Hr). simpl in Ea.
    destruct (ystates t [(call_env ANull ae args, ah)]) as [[n1 r1]|] eqn:E1; [|discriminate].
    inversion Ea; subst na ra; clear Ea.
    assert (Hc : Inv h0 U (call_env RNull e args) h (call_env ANull ae args) ah).
    { eapply inv_env_change; [exact Hinv|]. destruct Hinv as (_ & _ & _ & _ & H5).
      intros i. unfold call_env. destruct (nth_error args i); [apply H5|reflexivity]. }
    assert (Hcov1 : covered h0 U [(call_env ANull ae args, ah)] (call_env RNull e args, h)).
    { exists (call_env ANull ae args), ah. split; [left; reflexivity|exact Hc]. }
    specialize (IHt _ _ _ E1 ns _ Hcov1).
    pose proof (yexec_hext t ns (call_env RNull e args) h) as Hx.
    unfold env, var in *.
    destruct (yexec t ns (call_env RNull e args, h)) as [[[e' h'] ns'] r] eqn:X. simpl in *. destruct r.
    + (* the exception propagates through the caller: its environment, the callee's heap *)
      destruct IHt as (ae' & ah' & Hin' & Hinv').
      exists ae, ah'. split.
      * apply Hr. apply in_map_iff. exists (ae', ah'). split; [reflexivity|exact Hin'].
      * eapply inv_env_change; [exact Hinv'|]. intros y. eapply inv_mono_env; eauto.
    + destruct IHt as (ae' & ah' & Hin' & Hinv').
      exists (upd ae x (ae' ret)), ah'. split.
      * apply Hn. apply in_map_iff. exists (ae', ah'). split; [reflexivity|exact Hin'].
      * eapply inv_env_change; [exact Hinv'|]. intros y. unfold upd. cbn [fst snd]. cbv beta. destruct (Nat.eqb y x).
        -- destruct Hinv' as (_ & _ & _ & _ & H5). apply H5.
        -- eapply inv_mono_env; eauto.
Qed.

Lemma ycov_protected : forall n r out, ycov n r out ->
  forall o, o < length h0 -> ~ U o -> nth_error (snd (fst (fst out))) o = nth_error h0 o.
Proof.
  intros n r [[[e h] ns] raised] H o Ho Hn. simpl in *.
  destruct raised; destruct H as (ae & ah & _ & (_ & _ & H3 & _ & _)); apply H3; auto.
Qed.
End YcmdSim.

(* whatever raises wherever, caught at whatever depth or not at all: nothing of the caller's heap changes *)
Theorem frame_ycmd : forall (t : ycmd) (args : list ref) (h0 : heap),
  ysafe (length args) t = true ->
  forall ns o, o < length h0 -> nth_error (snd (fst (fst (yexec t ns (env0 args, h0))))) o = nth_error h0 o.
Proof.
  intros t args h0 Hs ns o Ho. unfold ysafe, ysafe_with in Hs.
  destruct (ystates t [(aenv0 (repeat false (length args)), [])]) as [[n r]|] eqn:E; [|discriminate].
  assert (HU : forall o, False -> o < length h0) by (intros ? []).
  assert (Hinv : Inv h0 (fun _ => False) (env0 args) h0 (aenv0 (repeat false (length args))) []).
  { split; [|split; [|split; [|split]]].
    - simpl. lia.
    - intros k ao Hk. destruct k; discriminate.
    - reflexivity.
    - intros o' it [].
    - apply env0_rel_prot. }
  eapply (ycov_protected h0 (fun _ => False) n r); auto.
  apply (ycmd_sim h0 (fun _ => False) HU t _ _ _ E ns (env0 args, h0)).
  exists (aenv0 (repeat false (length args))), []. split; [left; reflexivity|exact Hinv].
Qed.

(* the same with documented in-place parameters: everything outside their reachable region is untouched *)
Theorem frame_ycmd_inplace : forall (t : ycmd) (args : list (ref * bool)) (h0 : heap),
  ysafe_with (map snd args) t = true ->
  closed_heap h0 -> closed_args h0 (inplace_roots args) ->
  forall ns o, o < length h0 -> ~ reach h0 (inplace_roots args) o ->
  nth_error (snd (fst (fst (yexec t ns (env0 (map fst args), h0))))) o = nth_error h0 o.
Proof.
  intros t args h0 Hs Hch Hca ns o Ho Hn. unfold ysafe_with in Hs.
  destruct (ystates t [(aenv0 (map snd args), [])]) as [[n r]|] eqn:E; [|discriminate].
  set (U := reach h0 (inplace_roots args)).
  assert (HU : forall o, U o -> o < length h0) by (intros; eapply reach_closed; eauto).
  assert (Hinv : Inv h0 U (env0 (map fst args)) h0 (aenv0 (map snd args)) []).
  { split; [|split; [|split; [|split]]].
    - simpl. lia.
    - intros k ao Hk. destruct k; discriminate.
    - reflexivity.
    - intros o' it Hu Hit. apply Forall_forall. intros r' Hr'. simpl. destruct r' as [|o2 offs]; auto.
      left. eapply reach_step; eauto; reflexivity.
    - apply env0_rel. intros r' o2 Hin Ht. eapply reach_root; eauto.
      unfold inplace_roots. apply in_map_iff. exists (r', true). split; auto. apply filter_In. split; auto. }
  eapply (ycov_protected h0 U n r); auto.
  apply (ycmd_sim h0 U HU t _ _ _ E ns (env0 (map fst args), h0)).
  exists (aenv0 (map snd args)), []. split; [left; reflexivity|exact Hinv].
Qed.

(* ------------------------------------------------------------------ what the nesting-free fragments become *)
(* a plain command under the exception semantics is `run`: accepted iff `safe_with` accepts it *)
Lemma ysafe_plain : forall flags c, ysafe_with flags (YPlain c) = safe_with flags c.
Proof.
  intros flags c. unfold ysafe_with, safe_with. simpl.
  destruct (aexec c (aenv0 flags, [])) as [s2|]; reflexivity.
Qed.
(* `try: c except: raise Other(..)`: a handler that only re-raises adds nothing to `run` (this was a remark in the
   manifest up to round 7) *)
Lemma ysafe_try_reraise : forall flags c, ysafe_with flags (ytry_reraise (YPlain c)) = safe_with flags c.
Proof.
  intros flags c. unfold ysafe_with, safe_with, ytry_reraise. simpl.
  destruct (aexec c (aenv0 flags, [])) as [s2|]; reflexivity.
Qed.
(* a callee whose whole body is such a try statement, followed by plain code: accepted exactly when the plain program
   `x = callee(args); rest` is *)
Lemma ysafe_call_reraise_then_plain : forall flags x c args ret rest,
  ysafe_with flags (yseq [YCall x (ytry_reraise (YPlain c)) args ret; YPlain rest]) = safe_with flags (Seq (Call x c args ret) rest).
Proof.
  intros flags x c args ret rest. unfold ysafe_with, safe_with, ytry_reraise. simpl.
  destruct (aexec c (call_env ANull (aenv0 flags) args, [])) as [[ae1 ah1]|]; [|reflexivity]. simpl.
  destruct (aexec rest (upd (aenv0 flags) x (ae1 ret), ah1)) as [[ae3 ah3]|]; reflexivity.
Qed.

(* ------------------------------------------------------------------ instances: the code as it is *)
(* initialize_cp with a user init (the whole branch inside `try: .. except ValueError: raise ValueError(..)`), and parafac /
   non_negative_parafac_hals calling it: EVERY order, sweep count, option-list length, update order *)
Theorem yc_initialize_cp_gen_ysafe : forall N, ysafe 2 (yc_initialize_cp_gen N) = true.
Proof. intros N. unfold ysafe, yc_initialize_cp_gen. rewrite ysafe_try_reraise. exact (initialize_cp_gen_safe N). Qed.
Theorem yc_parafac_gen_ysafe : forall N sweeps fmlen rm modes, ysafe 4 (yc_parafac_gen N sweeps fmlen rm modes) = true.
Proof.
  intros. unfold ysafe, yc_parafac_gen, yc_initialize_cp_gen. rewrite ysafe_call_reraise_then_plain.
  exact (parafac_gen_safe N sweeps fmlen rm modes).
Qed.
Theorem yc_nn_parafac_hals_gen_ysafe : forall N sweeps sclen fmlen fixed modes,
  ysafe 4 (yc_nn_parafac_hals_gen N sweeps sclen fmlen fixed modes) = true.
Proof.
  intros. unfold ysafe, yc_nn_parafac_hals_gen, yc_initialize_cp_gen. rewrite ysafe_call_reraise_then_plain.
  exact (nn_parafac_hals_gen_safe N sweeps sclen fmlen fixed modes).
Qed.
Theorem yc_cp_family_frame :
  (forall N (args : list ref) (h0 : heap) ns o, length args = 2 -> o < length h0 ->
     nth_error (snd (fst (fst (yexec (yc_initialize_cp_gen N) ns (env0 args, h0))))) o = nth_error h0 o) /\
  (forall N sweeps fmlen rm modes (args : list ref) (h0 : heap) ns o, length args = 4 -> o < length h0 ->
     nth_error (snd (fst (fst (yexec (yc_parafac_gen N sweeps fmlen rm modes) ns (env0 args, h0))))) o = nth_error h0 o) /\
  (forall N sweeps sclen fmlen fixed modes (args : list ref) (h0 : heap) ns o, length args = 4 -> o < length h0 ->
     nth_error (snd (fst (fst (yexec (yc_nn_parafac_hals_gen N sweeps sclen fmlen fixed modes) ns (env0 args, h0))))) o = nth_error h0 o).
Proof.
  split; [|split]; intros; apply frame_ycmd; auto; rewrite H;
    first [apply yc_initialize_cp_gen_ysafe | apply yc_parafac_gen_ysafe | apply yc_nn_parafac_hals_gen_ysafe].
Qed.

(* handlers that may raise themselves (vonneumann_entropy: a second eigh), a re-raising try inside two nested loops
   (tensor_train_cross), try statements in a callee inside a loop (non_negative_tucker_hals -> active_set_nnls) *)
Lemma yc_entry_points_ysafe :
  ysafe 1 yc_vonneumann_entropy = true /\ ysafe 2 (yc_tt_cross 2 3) = true /\ ysafe 4 yc_nn_tucker_hals_active_set = true.
Proof. vm_compute. repeat split; reflexivity. Qed.
Theorem yc_entry_points_frame :
  (forall (args : list ref) (h0 : heap) ns o, length args = 1 -> o < length h0 ->
     nth_error (snd (fst (fst (yexec yc_vonneumann_entropy ns (env0 args, h0))))) o = nth_error h0 o) /\
  (forall (args : list ref) (h0 : heap) ns o, length args = 2 -> o < length h0 ->
     nth_error (snd (fst (fst (yexec (yc_tt_cross 2 3) ns (env0 args, h0))))) o = nth_error h0 o) /\
  (forall (args : list ref) (h0 : heap) ns o, length args = 4 -> o < length h0 ->
     nth_error (snd (fst (fst (yexec yc_nn_tucker_hals_active_set ns (env0 args, h0))))) o = nth_error h0 o).
Proof.
  destruct yc_entry_points_ysafe as (H1 & H2 & H3).
  split; [|split]; intros; apply frame_ycmd; auto; rewrite H; assumption.
Qed.

(* ------------------------------------------------------------------ sensitivity / non-vacuity: what only nesting can express.
   yc_nested_bad: the work variable designates the caller's array until the INNER handler replaces it by a copy; when the
   inner body completes and the statement after the inner try raises, the OUTER handler scales the caller's array.  Every
   flat view of the program (outer body as one plain command without the inner handler; inner try alone) is accepted.
   yc_handler_try: a try statement inside a handler. *)
Definition y_heap : heap := [OBuf [5; 7]%Z].
Definition y_args : list ref := [RObj 0 [0; 1]].
Lemma ycmd_nesting_demo :
  ysafe 1 yc_nested_good = true /\ ysafe 1 yc_nested_bad = false /\
  (* the inner try statement alone, and the outer one with the inner handler dropped or with the inner body dropped: accepted *)
  ysafe 1 (yseq [YPlain (Rebind 10 0); YTry (YPlain (Alloc 11 2)) (YPlain (Copy 10 0)); YPlain (Alloc 12 2)]) = true /\
  ysafe 1 (YTry (YPlain (seq [Rebind 10 0; Copy 10 0; Alloc 12 2])) (YPlain (InplaceOp 10 3))) = false /\
  (* oracle: Rebind completes, inner Alloc completes (no exception), Alloc 12 raises at once, outer handler completes *)
  yexec yc_nested_bad [5; 5; 0; 5] (env0 y_args, y_heap) <> yexec yc_nested_bad [] (env0 y_args, y_heap) /\
  nth_error (snd (fst (fst (yexec yc_nested_bad [5; 5; 0; 5] (env0 y_args, y_heap))))) 0 = Some (OBuf [15; 21]%Z) /\
  snd (yexec yc_nested_bad [5; 5; 0; 5] (env0 y_args, y_heap)) = false /\
  (* inner body raises -> inner handler copies -> Alloc 12 raises -> outer handler scales the COPY *)
  nth_error (snd (fst (fst (yexec yc_nested_bad [5; 0; 5; 0; 5] (env0 y_args, y_heap))))) 0 = Some (OBuf [5; 7]%Z) /\
  (* the outer handler raises itself half-way: the exception reaches the caller (raised = true), array already scaled *)
  snd (yexec yc_nested_bad [5; 5; 0; 0] (env0 y_args, y_heap)) = true /\
  firstn 1 (snd (fst (fst (yexec yc_nested_good [5; 5; 0; 5] (env0 y_args, y_heap))))) = y_heap /\
  (* a try inside a handler *)
  ysafe 1 (yc_handler_try (Copy 10 0)) = true /\ ysafe 1 (yc_handler_try (Rebind 10 0)) = false /\
  nth_error (snd (fst (fst (yexec (yc_handler_try (Rebind 10 0)) [1; 0; 5] (env0 y_args, y_heap))))) 0 = Some (OBuf [15; 21]%Z) /\
  firstn 1 (snd (fst (fst (yexec (yc_handler_try (Copy 10 0)) [1; 0; 5] (env0 y_args, y_heap))))) = y_heap.
Proof. vm_compute. repeat split; try reflexivity; discriminate. Qed.

(* derived forms: try / finally runs the epilogue on both exits and keeps the exception in flight *)
Lemma ytry_finally_demo :
  snd (yexec (ytry_finally (YPlain (Alloc 11 2)) (YPlain (Alloc 12 2))) [0; 5] (env0 y_args, y_heap)) = true /\
  length (snd (fst (fst (yexec (ytry_finally (YPlain (Alloc 11 2)) (YPlain (Alloc 12 2))) [0; 5] (env0 y_args, y_heap))))) = 2 /\
  snd (yexec (ytry_finally (YPlain (Alloc 11 2)) (YPlain (Alloc 12 2))) [5; 5] (env0 y_args, y_heap)) = false /\
  length (snd (fst (fst (yexec (ytry_finally (YPlain (Alloc 11 2)) (YPlain (Alloc 12 2))) [5; 5] (env0 y_args, y_heap))))) = 3 /\
  ysafe 1 (ytry_finally (YPlain (Rebind 10 0)) (YPlain (InplaceOp 10 3))) = false /\
  ysafe 1 (ytry_finally (YPlain (Copy 10 0)) (YPlain (InplaceOp 10 3))) = true.
Proof. vm_compute. repeat split; reflexivity. Qed.

(* ================================================================== non_negative_tucker_hals for EVERY order (fista core update) *)
(* commands without a write never get stuck: usable as callees from any abstract state (fista) *)
Fixpoint nowrite (c : cmd) : bool :=
  match c with
  | Skip | Alloc _ _ | Copy _ _ | View _ _ _ | ListNew _ _ | ListCopy _ _ _ | ListGet _ _ _ | Rebind _ _ => true
  | Seq a b => nowrite a && nowrite b
  | Repeat _ a => nowrite a
  | Call _ b _ _ => nowrite b
  | _ => false
  end.
Lemma nowrite_total : forall c, nowrite c = true -> forall s, exists s', aexec c s = Some s'.
Proof.
  induction c; intros H [e ah]; simpl in H; try discriminate; try (simpl; eexists; reflexivity).
  - apply andb_true_iff in H. destruct H as [H1 H2]. destruct (IHc1 H1 (e, ah)) as [s1 E1]. destruct (IHc2 H2 s1) as [s2 E2].
    exists s2. rewrite aexec_Seq, E1. exact E2.
  - rewrite aexec_Repeat. revert e ah. induction n; intros e ah; simpl; [eexists; reflexivity|].
    destruct (IHc H (e, ah)) as [[e1 ah1] E1]. rewrite E1. apply IHn.
  - destruct (IHc H (call_env ANull e args, ah)) as [[e' ah'] E]. simpl. rewrite E. eexists; reflexivity.
Qed.

Lemma hoare_unassigned (P Q : astate -> Prop) (R : aref -> Prop) c x :
  hoare P c Q -> assigns x c = false -> hoare (fun s => P s /\ R (fst s x)) c (fun s => Q s /\ R (fst s x)).
Proof.
  intros H Ha [e ah] [Hp Hr]. destruct (H _ Hp) as ([e' ah'] & E & Hq). exists (e', ah'). split; [exact E|]. split; [exact Hq|].
  simpl in *. rewrite (aexec_unassigned _ _ _ _ _ _ Ha E). exact Hr.
Qed.

(* pseudo_inverse (variable 47) is unset before the first factor update and a run-allocated list afterwards *)
Definition nf (a : aref) : Prop := a = ANull \/ exists k, a = AFresh k.
Definition PH (s : astate) : Prop := fresh_at 24 s /\ nf (fst s 47).

Lemma pinv_fill_fresh N mode : hoare (fresh2 24 47) (pinv_fill N mode) (fresh2 24 47).
Proof.
  unfold pinv_fill. apply hoare_seq_map. intros i [e ah] [[k Hk] [k' Hk']]. simpl in *.
  unfold upd; simpl. rewrite Hk'. simpl. eexists; split; [reflexivity|]. split; [exists k|exists k']; simpl; auto.
Qed.
Lemma assigns_read_all x f N : x <> 30 -> assigns x (read_all f N) = false.
Proof. intros H. unfold read_all. apply assigns_seq_map. intros i. simpl. apply Nat.eqb_neq. exact H. Qed.
Lemma assigns47_hals_mode N mode : assigns 47 (hals_mode_gen 24 N mode) = false.
Proof. unfold hals_mode_gen. cbn [seq assigns]. rewrite assigns_read_all by congruence. reflexivity. Qed.

Lemma factor_PH N mode : hoare PH (nn_tucker_hals_factor_with (hals_mode_gen 24) N mode) PH.
Proof.
  unfold nn_tucker_hals_factor_with. cbn [seq].
  eapply hoare_Seq with (Q := fresh2 24 47).
  { intros [e ah] [[k Hk] _]. simpl in *. eexists; split; [reflexivity|]. split; [exists k|exists (length ah)]; simpl; unfold upd; simpl; auto. }
  eapply hoare_Seq; [apply pinv_fill_fresh|].
  eapply hoare_Seq; [|apply hoare_Skip].
  eapply hoare_conseq; [| |apply (hoare_unassigned _ _ (fun a => exists k, a = AFresh k) _ 47 (hals_mode_gen_fresh N mode) (assigns47_hals_mode N mode))].
  - intros s [H1 [k' H2]]. split; [exact H1|exists k'; exact H2].
  - intros s [H1 H2]. split; [exact H1|right; exact H2].
Qed.

Lemma fista_nowrite iters : nowrite (sk_fista iters) = true.
Proof. reflexivity. Qed.

Lemma core_PH N fiters : hoare PH (nn_tucker_hals_core_fista N fiters) PH.
Proof.
  unfold nn_tucker_hals_core_fista.
  match goal with |- hoare _ (seq [?a; ?b; ?c; ?d; ?e; ?f]) _ => change (seq [a; b; c; d; e; f]) with (seq ([a; b; c; d] ++ [e; f])) end.
  eapply hoare_seq_app with (Q := PH).
  - intros [e ah] [[k Hk] Hn]. simpl in *. unfold upd; simpl.
    destruct Hn as [Hn | [k' Hn]]; rewrite Hn; simpl; (eexists; split; [reflexivity|]); (split; [exists k; simpl; exact Hk|]); simpl;
      unfold upd; simpl; [left; exact Hn|right; exists k'; exact Hn].
  - cbn [seq]. eapply hoare_Seq with (Q := PH).
    + apply (hoare_unassigned _ _ nf _ 47 (hoare_Call_fresh 24 45 (sk_fista fiters) [43; 47; 23] 2 ltac:(congruence)
               (nowrite_total _ (fista_nowrite fiters))) eq_refl).
    + eapply hoare_Seq; [|apply hoare_Skip]. intros [e ah] [[k Hk] Hn]. simpl in *. eexists; split; [reflexivity|].
      split; [exists k; simpl; unfold upd; simpl; exact Hk|simpl; unfold upd; simpl; exact Hn].
Qed.

Lemma assigns47_abs_all src dst N : assigns 47 (abs_all src dst N) = false.
Proof. unfold abs_all. apply assigns_seq_map. intros i. reflexivity. Qed.
Lemma renorm_opt_PH (normalize : bool) (N : nat) : hoare PH (if normalize then tucker_renorm 23 24 N else Skip) PH.
Proof.
  destruct normalize; [|apply hoare_Skip].
  assert (Ha : assigns 47 (tucker_renorm 23 24 N) = false).
  { unfold tucker_renorm. cbn [seq assigns]. rewrite assigns47_abs_all. reflexivity. }
  eapply hoare_conseq; [| |apply (hoare_unassigned _ _ nf _ 47 (renorm_J N) Ha)].
  - intros s [_ H]. split; [exact I|exact H].
  - intros s [[(k & it & Hk & _) _] H]. split; [exists k; exact Hk|exact H].
Qed.

Lemma nn_tucker_hals_prefix sclen fmlen rm fixed :
  hoare (fun s => s = init4)
        (seq [ListCopy 26 2 sclen; sk_fixed_modes_gen 3 fmlen rm; seq (map (fun i => ListSet 26 i 27) fixed)])
        (fun s => fst s 47 = ANull).
Proof.
  cbn [seq]. eapply hoare_Seq with (Q := fun s => fresh_at 26 s /\ fst s 47 = ANull).
  { intros s ->. unfold init4. simpl. eexists; split; [reflexivity|]. split; [exists 0|]; reflexivity. }
  eapply hoare_Seq with (Q := fun s => fresh_at 26 s /\ fst s 47 = ANull).
  { intros [e ah] [[k Hk] H47]. unfold sk_fixed_modes_gen. destruct rm as [i|]; simpl in *; unfold upd; simpl;
      (eexists; split; [reflexivity|]); (split; [exists k; simpl; exact Hk|simpl; exact H47]). }
  eapply hoare_Seq; [|apply hoare_Skip].
  eapply hoare_conseq; [| |apply (hoare_unassigned _ _ (fun a => a = ANull) _ 47 (listset_fresh_list 26 27 fixed))].
  - intros s H. exact H.
  - intros s [_ H]. exact H.
  - apply assigns_seq_map. intros i. reflexivity.
Qed.

Lemma assigns47_init_nn N : assigns 47 (seq [sk_initialize_tucker_nn_gen N; Rebind 23 16; Rebind 24 14]) = false.
Proof. unfold sk_initialize_tucker_nn_gen. cbn [seq assigns]. rewrite assigns47_abs_all. reflexivity. Qed.

(* every order N, number of sweeps, number of fista iterations, option-list lengths, fixed-mode pattern, update order,
   with or without normalisation *)
Theorem nn_tucker_hals_gen_safe : forall N sweeps fiters sclen fmlen rm fixed modes normalize,
  safe 4 (sk_nn_tucker_hals_gen N sweeps fiters sclen fmlen rm fixed modes normalize) = true.
Proof.
  intros. apply (safe_of_hoare 4 _ (fun _ => True)). unfold sk_nn_tucker_hals_gen, nn_tucker_hals_body.
  match goal with |- hoare _ (seq (?a :: ?b :: ?c :: ?rest)) _ => change (seq (a :: b :: c :: rest)) with (seq ([a; b; c] ++ rest)) end.
  eapply hoare_seq_app; [apply nn_tucker_hals_prefix|].
  match goal with |- hoare _ (seq (?a :: ?b :: ?c :: ?rest)) _ => change (seq (a :: b :: c :: rest)) with (seq ([a; b; c] ++ rest)) end.
  eapply hoare_seq_app with (Q := PH).
  - eapply hoare_conseq; [| |apply (hoare_unassigned _ _ (fun a => a = ANull) _ 47 (init_nn_J N) (assigns47_init_nn N))].
    + intros s H. split; [exact I|exact H].
    + intros s [[(k & it & Hk & _) _] H]. split; [exists k; exact Hk|left; exact H].
  - cbn [seq]. eapply hoare_Seq; [apply renorm_opt_PH|].
    eapply hoare_Seq with (Q := PH).
    { apply hoare_Repeat. eapply hoare_Seq; [apply hoare_seq_map; intros m; apply factor_PH|].
      eapply hoare_Seq; [apply core_PH|]. eapply hoare_Seq; [apply renorm_opt_PH|apply hoare_Skip]. }
    eapply hoare_Seq; [|apply hoare_Skip]. intros [e ah] _. simpl. eexists; split; [reflexivity|exact I].
Qed.
Theorem nn_tucker_hals_gen_frame : forall N sweeps fiters sclen fmlen rm fixed modes normalize,
  unchanged_even_if_interrupted 4 (sk_nn_tucker_hals_gen N sweeps fiters sclen fmlen rm fixed modes normalize).
Proof. intros. apply safe_unchanged_raise, nn_tucker_hals_gen_safe. Qed.

(* two cooperating sites (order 3, one sweep): hals_nnls on the transposed VIEW instead of its copy is accepted as long as the
   factors are the run's own (tl.abs allocated them), the by-reference initialisation is accepted as long as hals_nnls gets a
   copy; together they are rejected and the caller's factor A changes *)
Lemma nn_tucker_hals_cooperating :
  safe 4 (nn_tucker_hals_body (sk_initialize_tucker_nn_gen 3) hals_mode_nocopy 3 1 1 3 1 None [] [0; 1; 2] false) = true /\
  safe 4 (nn_tucker_hals_body (mut_initialize_tucker_nn 3 [0] false) (hals_mode_gen 24) 3 1 1 3 1 None [] [0; 1; 2] false) = true /\
  safe 4 (nn_tucker_hals_body (mut_initialize_tucker_nn 3 [0] false) hals_mode_nocopy 3 1 1 3 1 None [] [0; 1; 2] false) = false /\
  footprint (nn_tucker_hals_body (mut_initialize_tucker_nn 3 [0] false) hals_mode_nocopy 3 1 1 3 1 None [] [0; 1; 2] false)
            [RObj 0 [0; 1; 2; 3]; RObj 6 []; RNull; RNull] r7_heap = [2] /\
  footprint (sk_nn_tucker_hals_gen 3 2 2 3 1 None [] [0; 1; 2] true) [RObj 0 [0; 1; 2; 3]; RObj 6 []; RNull; RNull] r7_heap = [].
Proof. vm_compute. repeat split; reflexivity. Qed.

(* the estimator class Tucker_NN_HALS (receiver holding init, sparsity_coefficients, fixed_modes) with the order-generic body:
   of the caller's heap ONLY the receiver object changes *)
Theorem nn_tucker_hals_class_fit_frame : forall N sweeps fiters sclen fmlen rm fixed modes normalize (self X : ref) (h0 : heap) (o : nat),
  o < length h0 -> target self <> Some o ->
  nth_error (snd (exec (sk_estimator_fit 3 (sk_nn_tucker_hals_gen N sweeps fiters sclen fmlen rm fixed modes normalize) 25) (env0 [self; X], h0))) o
    = nth_error h0 o.
Proof. intros. apply estimator_fit_frame; auto. apply nn_tucker_hals_gen_safe. Qed.
