(* C15 -- the region computed by the correspondence (fuel-bounded closure under `children`) is sound, and complete
   whenever the closure certificate `region_closed` holds (checked per case by Corr.C15.agree). *)
From Coq Require Import List Arith ZArith Bool Lia.
From TLV Require Import Model.Effects Proofs.EffectsProofs.
Import ListNotations.

Lemma memb_In x l : memb x l = true <-> In x l.
Proof.
  unfold memb. rewrite existsb_exists. split.
  - intros (y & Hy & E). apply Nat.eqb_eq in E. subst; auto.
  - intros H. exists x. split; auto. apply Nat.eqb_refl.
Qed.

Lemma children_spec h o o' : In o' (children h o) <->
  exists it r, nth_error h o = Some (OCell it) /\ In r it /\ target r = Some o'.
Proof.
  unfold children. split.
  - destruct (nth_error h o) as [[d|it]|]; try (intros []). intros H. apply in_flat_map in H.
    destruct H as (r & Hr & H). destruct r as [|o2 offs]; [destruct H|]. destruct H as [<-|[]]. exists it, (RObj o2 offs). auto.
  - intros (it & r & E & Hr & Ht). rewrite E. apply in_flat_map. exists r. split; auto.
    destruct r as [|o2 offs]; simpl in Ht; [discriminate|]. inversion Ht; subst. left; auto.
Qed.

Lemma reach_set_sound roots : forall fuel h cur, (forall o, In o cur -> reach h roots o) ->
  forall o, In o (reach_set fuel h cur) -> reach h roots o.
Proof.
  induction fuel; intros h cur Hc o Ho; simpl in Ho; [auto|].
  eapply IHfuel; [|exact Ho]. intros o1 H1. apply in_app_or in H1. destruct H1 as [H1|H1]; [auto|].
  apply filter_In in H1. destruct H1 as [H1 _]. apply in_flat_map in H1. destruct H1 as (o0 & H0 & H1).
  apply children_spec in H1. destruct H1 as (it & r & E & Hr & Ht). eapply reach_step; eauto.
Qed.

Lemma reach_set_incl : forall fuel h cur o, In o cur -> In o (reach_set fuel h cur).
Proof. induction fuel; intros h cur o H; simpl; auto. apply IHfuel. apply in_or_app; auto. Qed.

Lemma closed_complete h roots cur : region_closed h cur = true ->
  (forall r o, In r roots -> target r = Some o -> In o cur) -> forall o, reach h roots o -> In o cur.
Proof.
  intros Hcl Hr o H. induction H.
  - eapply Hr; eauto.
  - unfold region_closed in Hcl. rewrite forallb_forall in Hcl. specialize (Hcl _ IHreach).
    rewrite forallb_forall in Hcl. apply memb_In. apply Hcl. apply children_spec. eauto.
Qed.

Lemma region_roots_spec : forall args flags o,
  In o (region_roots args flags) <-> exists r, In r (inplace_roots (combine args flags)) /\ target r = Some o.
Proof.
  unfold region_roots, inplace_roots. intros args flags. generalize (combine args flags). clear.
  induction l as [|[r b] l IH]; intros o; simpl.
  - split; [intros []|intros (r & [] & _)].
  - rewrite in_app_iff. split.
    + intros [H|H].
      * destruct r as [|o2 offs]; [destruct H|]. destruct b; [|destruct H]. destruct H as [<-|[]].
        exists (RObj o2 offs). simpl. auto.
      * apply IH in H. destruct H as (r0 & Hr & Ht). exists r0. split; auto. destruct b; simpl; auto.
    + intros (r0 & Hr & Ht). destruct b; simpl in Hr.
      * destruct Hr as [E|Hr]; [|right; apply IH; eauto]. subst r0. left. destruct r; simpl in Ht; [discriminate|]. inversion Ht; subst. left; auto.
      * right; apply IH; eauto.
Qed.

(* with the certificate, the region computed by the correspondence is EXACTLY the reachable set of the frame theorem *)
Theorem region_exact : forall h args flags,
  region_closed h (inplace_region h args flags) = true ->
  forall o, In o (inplace_region h args flags) <-> reach h (inplace_roots (combine args flags)) o.
Proof.
  intros h args flags Hcl o. split.
  - apply reach_set_sound. intros o1 H1. apply region_roots_spec in H1. destruct H1 as (r & Hr & Ht). eapply reach_root; eauto.
  - apply closed_complete; auto. intros r o1 Hr Ht. apply reach_set_incl. apply region_roots_spec. eauto.
Qed.

Example region_exact_demo :
  region_closed demo_heap (inplace_region demo_heap demo_args [false; true; false; false]) = true /\
  inplace_region demo_heap demo_args [false; true; false; false] = [6; 1; 5; 2; 3; 4].
Proof. vm_compute. split; reflexivity. Qed.
