(* C15 -- the aliasing skeletons of Model/Effects.v: `safe` decided by computation, frame statements per
   entry point, and sensitivity witnesses for the pre-fix / mutated variants. *)
From Coq Require Import List Arith ZArith Bool Lia.
From TLV Require Import Model.Effects Proofs.EffectsProofs.
Import ListNotations.

Definition unchanged_by (n : nat) (c : cmd) : Prop :=
  forall (args : list ref) (h0 : heap) (o : nat), length args = n -> o < length h0 ->
    nth_error (snd (exec c (env0 args, h0))) o = nth_error h0 o.

Lemma safe_unchanged n c : safe n c = true -> unchanged_by n c.
Proof. intros H args h0 o Hl Ho. subst n. apply frame; auto. Qed.

(* entry points whose every argument is protected *)
Definition protected_skeletons : list (nat * cmd) := [
  (2, sk_initialize_cp_user); (4, sk_parafac); (4, sk_nn_parafac_hals);
  (2, sk_initialize_tucker); (3, sk_tucker); (1, sk_cp_flip_sign); (2, sk_cp_permute_factors);
  (2, sk_khatri_rao_mask); (3, sk_active_set_nnls); (2, sk_cp_mode_dot_copy); (1, sk_parafac2_to_slices);
  (2, sk_cp_plsr_fit); (2, sk_masked_update 0 1); (1, sk_fixed_modes 0); (2, sk_sparsity 0 1) ].

Lemma protected_skeletons_safe : forallb (fun p => safe (fst p) (snd p)) protected_skeletons = true.
Proof. vm_compute. reflexivity. Qed.

Lemma protected_skeletons_frame : Forall (fun p => unchanged_by (fst p) (snd p)) protected_skeletons.
Proof.
  apply Forall_forall. intros [n c] Hin. apply safe_unchanged.
  pose proof protected_skeletons_safe as H. rewrite forallb_forall in H. apply (H (n, c)). exact Hin.
Qed.

Lemma parafac_safe : safe 4 sk_parafac = true. Proof. vm_compute. reflexivity. Qed.
Lemma initialize_cp_safe : safe 2 sk_initialize_cp_user = true. Proof. vm_compute. reflexivity. Qed.
Lemma nn_parafac_hals_safe : safe 4 sk_nn_parafac_hals = true. Proof. vm_compute. reflexivity. Qed.
Lemma initialize_tucker_safe : safe 2 sk_initialize_tucker = true. Proof. vm_compute. reflexivity. Qed.
Lemma tucker_safe : safe 3 sk_tucker = true. Proof. vm_compute. reflexivity. Qed.
Lemma cp_flip_sign_safe : safe 1 sk_cp_flip_sign = true. Proof. vm_compute. reflexivity. Qed.
Lemma cp_permute_factors_safe : safe 2 sk_cp_permute_factors = true. Proof. vm_compute. reflexivity. Qed.
Lemma khatri_rao_mask_safe : safe 2 sk_khatri_rao_mask = true. Proof. vm_compute. reflexivity. Qed.
Lemma active_set_nnls_safe : safe 3 sk_active_set_nnls = true. Proof. vm_compute. reflexivity. Qed.
Lemma cp_mode_dot_copy_safe : safe 2 sk_cp_mode_dot_copy = true. Proof. vm_compute. reflexivity. Qed.
Lemma parafac2_to_slices_safe : safe 1 sk_parafac2_to_slices = true. Proof. vm_compute. reflexivity. Qed.
Lemma cp_plsr_fit_safe : safe 2 sk_cp_plsr_fit = true. Proof. vm_compute. reflexivity. Qed.
Lemma masked_update_safe : safe 2 (sk_masked_update 0 1) = true. Proof. vm_compute. reflexivity. Qed.
Lemma fixed_modes_safe : safe 1 (sk_fixed_modes 0) = true. Proof. vm_compute. reflexivity. Qed.
Lemma sparsity_safe : safe 2 (sk_sparsity 0 1) = true. Proof. vm_compute. reflexivity. Qed.

Lemma parafac_frame : unchanged_by 4 sk_parafac. Proof. apply safe_unchanged, parafac_safe. Qed.
Lemma nn_parafac_hals_frame : unchanged_by 4 sk_nn_parafac_hals. Proof. apply safe_unchanged, nn_parafac_hals_safe. Qed.
Lemma tucker_frame : unchanged_by 3 sk_tucker. Proof. apply safe_unchanged, tucker_safe. Qed.

(* documented in-place parameters: safe only with the flag, and then everything outside the flagged argument's
   reachable region is untouched *)
Definition unchanged_outside (flags : list bool) (c : cmd) : Prop :=
  forall (args : list (ref * bool)) (h0 : heap), map snd args = flags ->
    closed_heap h0 -> closed_args h0 (inplace_roots args) ->
    forall o, o < length h0 -> ~ reach h0 (inplace_roots args) o ->
    nth_error (snd (exec c (env0 (map fst args), h0))) o = nth_error h0 o.

Lemma safe_with_unchanged flags c : safe_with flags c = true -> unchanged_outside flags c.
Proof. intros H args h0 Hf. subst flags. apply frame_inplace; auto. Qed.

Lemma hals_nnls_inplace : safe 3 sk_hals_nnls = false /\ safe_with [false; false; true] sk_hals_nnls = true.
Proof. vm_compute. split; reflexivity. Qed.
Lemma hals_nnls_frame : unchanged_outside [false; false; true] sk_hals_nnls.
Proof. apply safe_with_unchanged. apply hals_nnls_inplace. Qed.

Lemma cp_mode_dot_inplace :
  safe 2 sk_cp_mode_dot_nocopy = false /\ safe_with [true; false] sk_cp_mode_dot_nocopy = true /\
  safe 2 sk_cp_mode_dot_matrix_nocopy = false /\ safe_with [true; false] sk_cp_mode_dot_matrix_nocopy = true.
Proof. vm_compute. repeat split; reflexivity. Qed.
Lemma cp_mode_dot_vec_frame : unchanged_outside [true; false] sk_cp_mode_dot_nocopy.
Proof. apply safe_with_unchanged. apply cp_mode_dot_inplace. Qed.
Lemma cp_mode_dot_mat_frame : unchanged_outside [true; false] sk_cp_mode_dot_matrix_nocopy.
Proof. apply safe_with_unchanged. apply cp_mode_dot_inplace. Qed.

(* ------------------------------------------------------------------ sensitivity: the pre-fix code and seeded mutants
   are rejected by `safe`, and executing them on a concrete caller heap does change caller-owned objects *)
Definition rejected_skeletons : list (nat * cmd) := [
  (2, old_initialize_cp_user); (4, old_parafac); (4, mut_parafac_inplace_mask);
  (4, old_nn_parafac_hals); (4, old_nn_parafac_hals_sparsity); (3, old_tucker);
  (1, old_cp_flip_sign); (2, old_cp_permute_factors); (2, old_khatri_rao_mask);
  (3, mut_active_set_nnls); (1, mut_parafac2_to_slices); (2, mut_cp_plsr_fit); (1, old_fixed_modes 0) ].
Lemma rejected_skeletons_unsafe : forallb (fun p => negb (safe (fst p) (snd p))) rejected_skeletons = true.
Proof. vm_compute. reflexivity. Qed.

Lemma old_parafac_changes_arguments :
  safe 4 old_parafac = false /\ footprint old_parafac demo_args demo_heap = [5; 7] /\
  footprint sk_parafac demo_args demo_heap = [].
Proof. vm_compute. repeat split; reflexivity. Qed.

Lemma old_hals_changes_arguments :
  safe 4 old_nn_parafac_hals = false /\ footprint old_nn_parafac_hals demo_args demo_heap = [3] /\
  footprint sk_nn_parafac_hals demo_args demo_heap = [].
Proof. vm_compute. repeat split; reflexivity. Qed.

Lemma inplace_mask_changes_tensor :
  safe 4 mut_parafac_inplace_mask = false /\ footprint mut_parafac_inplace_mask demo_args demo_heap = [0].
Proof. vm_compute. repeat split; reflexivity. Qed.

(* `safe` is a sufficient, not a necessary condition: a program may write the same values back *)
Lemma safe_not_necessary : exists c, safe 1 c = false /\ forall h0 args o, o < length h0 ->
  nth_error (snd (exec c (env0 args, h0))) o = nth_error h0 o.
Proof. exists (WriteInto 0 []). split; [vm_compute; reflexivity|]. intros h0 args o Ho. simpl.
  destruct (env0 args 0) as [|o' offs]; simpl; auto.
  rewrite nth_error_modify. destruct (Nat.eqb o o'); auto.
  destruct (nth_error h0 o) as [[d|it]|]; simpl; auto. destruct offs; reflexivity.
Qed.

(* non-vacuity of the in-place statement: on a concrete heap V's buffer is the only object that changes *)
Definition nnls_heap : heap := [ OBuf [1; 2]%Z; OBuf [1; 0; 0; 1]%Z; OBuf [7; 7]%Z; OBuf [9]%Z ].
Definition nnls_args : list (ref * bool) := [ (RObj 0 [0; 1], false); (RObj 1 [0; 1; 2; 3], false); (RObj 2 [1; 0], true) ].
Lemma hals_nnls_nonvacuous :
  closed_heap nnls_heap /\ closed_args nnls_heap (inplace_roots nnls_args) /\ map snd nnls_args = [false; false; true] /\
  footprint sk_hals_nnls (map fst nnls_args) nnls_heap = [2] /\ ~ reach nnls_heap (inplace_roots nnls_args) 0.
Proof.
  repeat split.
  - intros o it r o' H. destruct o as [|[|[|[|o]]]]; simpl in H; try discriminate. destruct o; discriminate.
  - intros r o [H|[]] Ht. subst r. inversion Ht. simpl. lia.
  - intros H. remember 0 as z. induction H.
    + destruct H as [H|[]]. subst r. inversion H0. lia.
    + subst. destruct o as [|[|[|[|o]]]]; simpl in H0; try discriminate. destruct o; discriminate.
Qed.
