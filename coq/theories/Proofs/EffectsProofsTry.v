(* C15 -- exceptions that are CAUGHT: `try: c  except: hd`.  The body is interrupted after n primitive effects and the
   handler then runs from the state the interruption left behind (the caller-side environment, the heap as it is).
   `aprefixes c s` lists the abstract states at all interruption points of c; `safe_try` accepts when the body is
   accepted and the handler is accepted from every one of them.  Theorem: then nothing of the caller's heap changes,
   wherever the body is interrupted and wherever the handler itself is interrupted or completes. *)
From Coq Require Import List Arith ZArith Bool Lia.
From TLV Require Import Model.Effects Proofs.EffectsProofs Proofs.EffectsProofsGen.
Import ListNotations.

Lemma run_hext : forall c n e h, hext h (snd (fst (run c n (e, h)))).
Proof.
  induction c; intros n0 e h; simpl;
    try (destruct n0; simpl; [apply hext_refl|]; try apply hext_refl; try apply hext_app; try apply hext_wr_buf; try apply hext_wr_cell).
  - (* Seq *) specialize (IHc1 n0 e h). destruct (run c1 n0 (e, h)) as [[e1 h1] [m|]]; simpl in *; [|exact IHc1].
    eapply hext_trans; [exact IHc1|apply IHc2].
  - (* Repeat *) revert n0 e h. induction n; intros n0 e h; simpl; [apply hext_refl|].
    specialize (IHc n0 e h). destruct (run c n0 (e, h)) as [[e1 h1] [m|]]; simpl in *; [|exact IHc].
    eapply hext_trans; [exact IHc|apply IHn].
  - (* Call *) specialize (IHc n0 (call_env RNull e args) h). unfold env, var in *.
    destruct (run c n0 (call_env RNull e args, h)) as [[e' h'] [m|]]; simpl in *; exact IHc.
Qed.

Section TrySim.
Variable h0 : heap.
Variable U : nat -> Prop.
Hypothesis U_init : forall o, U o -> o < length h0.

(* an interrupted run ends in a state related to one of the listed abstract prefixes *)
Lemma run_prefix_inv : forall c n e h ae ah ae' ah' e2 h2,
  aexec c (ae, ah) = Some (ae', ah') -> Inv h0 U e h ae ah -> run c n (e, h) = ((e2, h2), None) ->
  exists ae2 ah2, In (ae2, ah2) (aprefixes c (ae, ah)) /\ Inv h0 U e2 h2 ae2 ah2.
Proof.
  induction c; intros n0 e h ae ah ae' ah' e2 h2 Ha Hinv Hr; simpl in Hr;
    try (destruct n0; [|discriminate]; inversion Hr; subst; exists ae, ah; split; [left; reflexivity|exact Hinv]).
  - (* Seq *) simpl in Ha. destruct (aexec c1 (ae, ah)) as [[ae1 ah1]|] eqn:E1; [|discriminate].
    destruct (run c1 n0 (e, h)) as [[e1 h1] [m1|]] eqn:R1.
    + pose proof (run_complete _ _ _ _ _ R1) as Hc.
      pose proof (simulation h0 U U_init c1 _ _ _ _ _ _ E1 Hinv) as Hs. rewrite <- Hc in Hs. simpl in Hs.
      destruct (IHc2 _ _ _ _ _ _ _ _ _ Ha Hs Hr) as (ae2 & ah2 & Hin & Hi).
      exists ae2, ah2. split; [|exact Hi]. simpl. rewrite E1. apply in_or_app. right. exact Hin.
    + inversion Hr; subst. destruct (IHc1 _ _ _ _ _ _ _ _ _ E1 Hinv R1) as (ae2 & ah2 & Hin & Hi).
      exists ae2, ah2. split; [|exact Hi]. simpl. apply in_or_app. left. exact Hin.
  - (* Repeat *) simpl in Ha. simpl. revert n0 e h ae ah Ha Hinv Hr. induction n; intros n0 e h ae ah Ha Hinv Hr; simpl in *.
    + discriminate.
    + destruct (aexec c (ae, ah)) as [[ae1 ah1]|] eqn:E1; [|discriminate].
      destruct (run c n0 (e, h)) as [[e1 h1] [m1|]] eqn:R1.
      * pose proof (run_complete _ _ _ _ _ R1) as Hc.
        pose proof (simulation h0 U U_init c _ _ _ _ _ _ E1 Hinv) as Hs. rewrite <- Hc in Hs. simpl in Hs.
        destruct (IHn _ _ _ _ _ Ha Hs Hr) as (ae2 & ah2 & Hin & Hi).
        exists ae2, ah2. split; [|exact Hi]. apply in_or_app. right. exact Hin.
      * inversion Hr; subst. destruct (IHc _ _ _ _ _ _ _ _ _ E1 Hinv R1) as (ae2 & ah2 & Hin & Hi).
        exists ae2, ah2. split; [|exact Hi]. apply in_or_app. left. exact Hin.
  - (* Call *) simpl in Ha.
    destruct (aexec c (call_env ANull ae args, ah)) as [[ae1 ah1]|] eqn:E1; [|discriminate].
    destruct (run c n0 (call_env RNull e args, h)) as [[e' h'] [m'|]] eqn:R1; [discriminate|].
    inversion Hr; subst.
    assert (Hc : Inv h0 U (call_env RNull e2 args) h (call_env ANull ae args) ah).
    { eapply inv_env_change; [exact Hinv|]. destruct Hinv as (_ & _ & _ & _ & H5).
      intros i. unfold call_env. destruct (nth_error args i); [apply H5|reflexivity]. }
    destruct (IHc _ _ _ _ _ _ _ _ _ E1 Hc R1) as (ae2 & ah2 & Hin & Hi).
    exists ae, ah2. split.
    + simpl. apply in_map_iff. exists (ae2, ah2). split; [reflexivity|exact Hin].
    + eapply inv_env_change; [exact Hi|].
      assert (Hx : hext h h2).
      { pose proof (run_hext c n0 (call_env RNull e2 args) h) as Hh. unfold env, var in *. rewrite R1 in Hh. exact Hh. }
      intros y. eapply inv_mono_env; eauto.
Qed.
End TrySim.

(* try: c except: hd  -- the body raises after n effects, the handler runs m effects (or to completion) *)
Theorem frame_try : forall (c hd : cmd) (args : list ref) (h0 : heap),
  safe_try (length args) c hd = true ->
  forall n e2 h2, run c n (env0 args, h0) = ((e2, h2), None) ->
  forall m o, o < length h0 -> nth_error (snd (fst (run hd m (e2, h2)))) o = nth_error h0 o.
Proof.
  intros c hd args h0 Hs n e2 h2 Hr m o Ho. unfold safe_try, safe_try_with in Hs. apply andb_true_iff in Hs. destruct Hs as [Hc Hh].
  destruct (aexec c (aenv0 (repeat false (length args)), [])) as [[ae' ah']|] eqn:E; [|discriminate].
  assert (HU : forall o, False -> o < length h0) by (intros ? []).
  assert (Hinv : Inv h0 (fun _ => False) (env0 args) h0 (aenv0 (repeat false (length args))) []).
  { split; [|split; [|split; [|split]]].
    - simpl. lia.
    - intros k ao Hk. destruct k; discriminate.
    - reflexivity.
    - intros o' it [].
    - apply env0_rel_prot. }
  destruct (run_prefix_inv h0 (fun _ => False) HU c n _ _ _ _ _ _ _ _ E Hinv Hr) as (ae2 & ah2 & Hin & Hi).
  rewrite forallb_forall in Hh. specialize (Hh _ Hin).
  destruct (aexec hd (ae2, ah2)) as [[ae3 ah3]|] eqn:E3; [|discriminate].
  eapply (run_protected h0 (fun _ => False) HU); eauto.
Qed.

(* the same with documented in-place parameters: everything outside their reachable region is untouched *)
Theorem frame_try_inplace : forall (c hd : cmd) (args : list (ref * bool)) (h0 : heap),
  safe_try_with (map snd args) c hd = true ->
  closed_heap h0 -> closed_args h0 (inplace_roots args) ->
  forall n e2 h2, run c n (env0 (map fst args), h0) = ((e2, h2), None) ->
  forall m o, o < length h0 -> ~ reach h0 (inplace_roots args) o ->
  nth_error (snd (fst (run hd m (e2, h2)))) o = nth_error h0 o.
Proof.
  intros c hd args h0 Hs Hch Hca n e2 h2 Hr m o Ho Hn. unfold safe_try_with in Hs. apply andb_true_iff in Hs. destruct Hs as [Hc Hh].
  destruct (aexec c (aenv0 (map snd args), [])) as [[ae' ah']|] eqn:E; [|discriminate].
  set (U := reach h0 (inplace_roots args)).
  assert (HU : forall o, U o -> o < length h0) by (intros; eapply reach_closed; eauto).
  assert (Hinv : Inv h0 U (env0 (map fst args)) h0 (aenv0 (map snd args)) []).
  { split; [|split; [|split; [|split]]].
    - simpl. lia.
    - intros k ao Hk. destruct k; discriminate.
    - reflexivity.
    - intros o' it Hu Hit. apply Forall_forall. intros r Hr'. simpl. destruct r as [|o2 offs]; auto.
      left. eapply reach_step; eauto; reflexivity.
    - apply env0_rel. intros r o2 Hin Ht. eapply reach_root; eauto.
      unfold inplace_roots. apply in_map_iff. exists (r, true). split; auto. apply filter_In. split; auto. }
  destruct (run_prefix_inv h0 U HU c n _ _ _ _ _ _ _ _ E Hinv Hr) as (ae2 & ah2 & Hin & Hi).
  rewrite forallb_forall in Hh. specialize (Hh _ Hin).
  destruct (aexec hd (ae2, ah2)) as [[ae3 ah3]|] eqn:E3; [|discriminate].
  eapply (run_protected h0 U HU); eauto.
Qed.

(* sensitivity and non-vacuity: a body that copies its argument and works on the copy, handler = "restore" code that
   writes into the work variable.  Accepted when the copy precedes everything that may raise; rejected when the handler
   may run before the copy was made (the variable then still designates the caller's array). *)
Definition try_body_good : cmd := seq [ Copy 10 0; Alloc 11 2; InplaceOp 10 2 ].
Definition try_body_bad : cmd := seq [ Rebind 10 0; Alloc 11 2; Copy 10 0; InplaceOp 10 2 ].
Definition try_handler : cmd := InplaceOp 10 3.
Lemma try_demo :
  safe_try 1 try_body_good try_handler = true /\
  safe 1 try_body_bad = true /\ safe_try 1 try_body_bad try_handler = false /\
  length (aprefixes try_body_good (aenv0 [false], [])) = 4 /\
  snd (run try_body_bad 2 (env0 [RObj 0 [0; 1]], [OBuf [5; 7]%Z])) = None /\
  snd (fst (run try_handler 1 (fst (run try_body_bad 2 (env0 [RObj 0 [0; 1]], [OBuf [5; 7]%Z]))))) <> [OBuf [5; 7]%Z] /\
  firstn 1 (snd (fst (run try_handler 1 (fst (run try_body_good 2 (env0 [RObj 0 [0; 1]], [OBuf [5; 7]%Z])))))) = [OBuf [5; 7]%Z].
Proof. vm_compute. repeat split; try reflexivity. discriminate. Qed.

(* ------------------------------------------------------------------ a whole program with one try statement:
   pre; try: c except: hd; rest  - the body raises after n primitive effects, for EVERY n (n >= size c: no exception) *)
Theorem frame_tryprog : forall (pre c hd rest : cmd) (args : list ref) (h0 : heap),
  safe_tryprog (length args) pre c hd rest = true ->
  forall n o, o < length h0 -> nth_error (snd (exec_try pre c hd rest n (env0 args, h0))) o = nth_error h0 o.
Proof.
  intros pre c hd rest args h0 Hs n o Ho. unfold safe_tryprog, safe_tryprog_with in Hs.
  destruct (aexec pre (aenv0 (repeat false (length args)), [])) as [[ae1 ah1]|] eqn:E1; [|discriminate].
  destruct (aexec c (ae1, ah1)) as [[ae2 ah2]|] eqn:E2; [|discriminate].
  apply andb_true_iff in Hs. destruct Hs as [Hr Hh].
  assert (HU : forall o, False -> o < length h0) by (intros ? []).
  assert (Hinv : Inv h0 (fun _ => False) (env0 args) h0 (aenv0 (repeat false (length args))) []).
  { split; [|split; [|split; [|split]]].
    - simpl. lia.
    - intros k ao Hk. destruct k; discriminate.
    - reflexivity.
    - intros o' it [].
    - apply env0_rel_prot. }
  pose proof (simulation h0 (fun _ => False) HU pre _ _ _ _ _ _ E1 Hinv) as H1.
  unfold exec_try. destruct (exec pre (env0 args, h0)) as [e1 h1]. simpl in H1.
  destruct (run c n (e1, h1)) as [[e2 h2] [m|]] eqn:R.
  - pose proof (run_complete _ _ _ _ _ R) as Hc.
    pose proof (simulation h0 (fun _ => False) HU c _ _ _ _ _ _ E2 H1) as H2. rewrite <- Hc in H2. simpl in H2.
    destruct (aexec rest (ae2, ah2)) as [[ae3 ah3]|] eqn:E3; [|discriminate].
    pose proof (simulation h0 (fun _ => False) HU rest _ _ _ _ _ _ E3 H2) as (_ & _ & H3 & _ & _). apply H3; auto.
  - destruct (run_prefix_inv h0 (fun _ => False) HU c n _ _ _ _ _ _ _ _ E2 H1 R) as (aep & ahp & Hin & Hi).
    rewrite forallb_forall in Hh. specialize (Hh _ Hin).
    destruct (aexec hd (aep, ahp)) as [[ae3 ah3]|] eqn:E3; [|discriminate].
    destruct (aexec rest (ae3, ah3)) as [[ae4 ah4]|] eqn:E4; [|discriminate].
    pose proof (simulation h0 (fun _ => False) HU hd _ _ _ _ _ _ E3 Hi) as H3.
    destruct (exec hd (e2, h2)) as [e3 h3]. simpl in H3.
    pose proof (simulation h0 (fun _ => False) HU rest _ _ _ _ _ _ E4 H3) as (_ & _ & H4 & _ & _). apply H4; auto.
Qed.

Corollary frame_tryprog_footprint : forall pre c hd rest args h0 n,
  safe_tryprog (length args) pre c hd rest = true -> footprint_try pre c hd rest n args h0 = [].
Proof.
  intros pre c hd rest args h0 n Hs. unfold footprint_try.
  assert (H : forall l, (forall o, In o l -> o < length h0) ->
    filter (fun o => match nth_error h0 o, nth_error (snd (exec_try pre c hd rest n (env0 args, h0))) o with
                     | Some a, Some b => negb (obj_eqb a b) | _, _ => true end) l = []).
  { induction l as [|o l IH]; intros Hl; simpl; auto.
    rewrite (frame_tryprog pre c hd rest args h0 Hs n o) by (apply Hl; left; auto).
    destruct (nth_error h0 o) as [a|] eqn:E.
    - rewrite obj_eqb_refl. simpl. apply IH. intros; apply Hl; right; auto.
    - exfalso. apply nth_error_None in E. specialize (Hl o (or_introl eq_refl)). lia. }
  apply H. intros o Ho. apply in_seq in Ho. lia.
Qed.

(* the entry points that catch and go on *)
Lemma try_skeletons_safe :
  forallb (fun p => let '(n, (pre, c, hd, rest)) := p in safe_tryprog n pre c hd rest) try_skeletons = true.
Proof. vm_compute. reflexivity. Qed.
Lemma try_skeletons_frame : Forall (fun p => let '(k, (pre, c, hd, rest)) := p in
  forall (args : list ref) (h0 : heap) (n o : nat), length args = k -> o < length h0 ->
    nth_error (snd (exec_try pre c hd rest n (env0 args, h0))) o = nth_error h0 o) try_skeletons.
Proof.
  apply Forall_forall. intros [k [[[pre c] hd] rest]] Hin args h0 n o Hl Ho. subst k.
  apply frame_tryprog; auto.
  pose proof try_skeletons_safe as H. rewrite forallb_forall in H. exact (H _ Hin).
Qed.
Lemma active_set_try_mutant :
  (let '(pre, c, hd, rest) := tp_active_set_nnls_mut in safe_tryprog 3 pre c hd rest) = false /\
  (let '(pre, c, hd, rest) := tp_active_set_nnls_mut in
   footprint_try pre c hd rest 2 [RObj 0 [0; 1]; RObj 1 [0; 1; 2; 3]; RObj 2 [0; 1]] [OBuf [1; 2]%Z; OBuf [1; 0; 0; 1]%Z; OBuf [7; 7]%Z]) = [2] /\
  (let '(pre, c, hd, rest) := tp_active_set_nnls in
   footprint_try pre c hd rest 2 [RObj 0 [0; 1]; RObj 1 [0; 1; 2; 3]; RObj 2 [0; 1]] [OBuf [1; 2]%Z; OBuf [1; 0; 0; 1]%Z; OBuf [7; 7]%Z]) = [].
Proof. vm_compute. repeat split; reflexivity. Qed.
Lemma wrapper_ctor_safe : safe 1 sk_wrapper_ctor = true.
Proof. vm_compute. reflexivity. Qed.

(* ------------------------------------------------------------------ programs with several try statements (tcmd) *)
Lemma tbind_in {A B} (f : A -> option (list B)) : forall l r, tbind l f = Some r ->
  forall a, In a l -> exists ra, f a = Some ra /\ incl ra r.
Proof.
  induction l as [|a0 l IH]; intros r H a Ha; [destruct Ha|]. simpl in H.
  destruct (f a0) as [x|] eqn:E0; [|discriminate]. destruct (tbind l f) as [y|] eqn:E1; [|discriminate].
  inversion H; subst. destruct Ha as [->|Ha].
  - exists x. split; auto. apply incl_appl, incl_refl.
  - destruct (IH _ eq_refl a Ha) as (ra & Ea & Hi). exists ra. split; auto. apply incl_appr; auto.
Qed.

Section TcmdSim.
Variable h0 : heap.
Variable U : nat -> Prop.
Hypothesis U_init : forall o, U o -> o < length h0.

Definition covered (l : list astate) (s : state) : Prop :=
  exists ae ah, In (ae, ah) l /\ Inv h0 U (fst s) (snd s) ae ah.

Lemma tcmd_sim : forall t l l', tstates t l = Some l' ->
  forall ns s, covered l s -> covered l' (fst (texec t ns s)).
Proof.
  induction t; intros l l' Ht ns [e h] (ae & ah & Hin & Hinv); simpl in *.
  - (* TPlain *)
    destruct (tbind_in _ _ _ Ht _ Hin) as (ra & Ea & Hi).
    destruct (aexec c (ae, ah)) as [[ae1 ah1]|] eqn:E1; [|discriminate]. simpl in Ea. inversion Ea; subst.
    exists ae1, ah1. split; [apply Hi; left; reflexivity|].
    exact (simulation h0 U U_init c _ _ _ _ _ _ E1 Hinv).
  - (* TTry *)
    destruct (tbind_in _ _ _ Ht _ Hin) as (ra & Ea & Hi).
    destruct (aexec c (ae, ah)) as [[ae2 ah2]|] eqn:E2; [|discriminate].
    destruct (tbind (aprefixes c (ae, ah)) (fun sp => one_state (aexec hd sp))) as [hs|] eqn:Eh; [|discriminate].
    inversion Ea; subst.
    assert (Hnormal : covered l' (exec c (e, h))).
    { exists ae2, ah2. split; [apply Hi; left; reflexivity|]. exact (simulation h0 U U_init c _ _ _ _ _ _ E2 Hinv). }
    destruct ns as [|n ns']; [exact Hnormal|].
    destruct (run c n (e, h)) as [[e1 h1] [m|]] eqn:R; simpl.
    + pose proof (run_complete _ _ _ _ _ R) as Hc. rewrite Hc. exact Hnormal.
    + destruct (run_prefix_inv h0 U U_init c n _ _ _ _ _ _ _ _ E2 Hinv R) as (aep & ahp & Hinp & Hip).
      destruct (tbind_in _ _ _ Eh _ Hinp) as (rb & Eb & Hib).
      destruct (aexec hd (aep, ahp)) as [[ae3 ah3]|] eqn:E3; [|discriminate]. simpl in Eb. inversion Eb; subst.
      exists ae3, ah3. split; [apply Hi; right; apply Hib; left; reflexivity|].
      exact (simulation h0 U U_init hd _ _ _ _ _ _ E3 Hip).
  - (* TSeq *)
    destruct (tstates t1 l) as [l1|] eqn:E1; [|discriminate].
    specialize (IHt1 _ _ E1 ns (e, h)).
    destruct (texec t1 ns (e, h)) as [s1 ns1] eqn:X1. simpl in IHt1.
    apply (IHt2 _ _ Ht ns1 s1). apply IHt1. exists ae, ah. split; auto.
Qed.
End TcmdSim.

(* whatever positions the bodies raise at (ANY oracle), nothing of the caller's heap changes *)
Theorem frame_tcmd : forall (t : tcmd) (args : list ref) (h0 : heap),
  tsafe (length args) t = true ->
  forall ns o, o < length h0 -> nth_error (snd (fst (texec t ns (env0 args, h0)))) o = nth_error h0 o.
Proof.
  intros t args h0 Hs ns o Ho. unfold tsafe, tsafe_with in Hs.
  destruct (tstates t [(aenv0 (repeat false (length args)), [])]) as [l'|] eqn:E; [|discriminate].
  assert (HU : forall o, False -> o < length h0) by (intros ? []).
  assert (Hinv : Inv h0 (fun _ => False) (env0 args) h0 (aenv0 (repeat false (length args))) []).
  { split; [|split; [|split; [|split]]].
    - simpl. lia.
    - intros k ao Hk. destruct k; discriminate.
    - reflexivity.
    - intros o' it [].
    - apply env0_rel_prot. }
  destruct (tcmd_sim h0 (fun _ => False) HU t _ _ E ns (env0 args, h0)) as (ae & ah & _ & (_ & _ & H3 & _ & _)).
  { exists (aenv0 (repeat false (length args))), []. split; [left; reflexivity|exact Hinv]. }
  apply H3; auto.
Qed.

(* active_set_nnls with its try statement inside the sweep (two sweeps, each with its own interruption point), followed by
   a `finally`-style epilogue; and the same with the handler that resets the warm start in place *)
Lemma tcmd_demo :
  tsafe 3 tc_active_set_nnls = true /\
  tsafe 3 (tc_active_set (seq [ WriteInto 10 [0%Z; 0%Z]; Alloc 14 2 ])) = false /\
  snd (fst (texec (tc_active_set (seq [ WriteInto 10 [0%Z; 0%Z]; Alloc 14 2 ])) [1; 0]
       (env0 [RObj 0 [0; 1]; RObj 1 [0; 1; 2; 3]; RObj 2 [0; 1]], [OBuf [1; 2]%Z; OBuf [1; 0; 0; 1]%Z; OBuf [7; 7]%Z]))) <>
    [OBuf [1; 2]%Z; OBuf [1; 0; 0; 1]%Z; OBuf [7; 7]%Z] /\
  nth_error (snd (fst (texec (tc_active_set (seq [ WriteInto 10 [0%Z; 0%Z]; Alloc 14 2 ])) [1; 0]
       (env0 [RObj 0 [0; 1]; RObj 1 [0; 1; 2; 3]; RObj 2 [0; 1]], [OBuf [1; 2]%Z; OBuf [1; 0; 0; 1]%Z; OBuf [7; 7]%Z])))) 2 = Some (OBuf [0; 0]%Z).
Proof. vm_compute. repeat split; try reflexivity. discriminate. Qed.
