(* C15 -- exceptions that are CAUGHT: `try: c  except: hd`.  The body is interrupted after n primitive effects and the
   handler then runs from the state the interruption left behind (the caller-side environment, the heap as it is).
   `aprefixes c s` lists the abstract states at all interruption points of c; `safe_try` accepts when the body is
   accepted and the handler is accepted from every one of them.  Theorem: then nothing of the caller's heap changes,
   wherever the body is interrupted and wherever the handler itself is interrupted or completes. *)
From Coq Require Import List Arith ZArith Bool Lia.
From TLV Require Import Model.Effects Proofs.EffectsProofs Proofs.EffectsProofsGen.
Import ListNotations.

Fixpoint rep_prefixes (k : nat) (pre : astate -> list astate) (step : astate -> option astate) (s : astate) : list astate :=
  match k with
  | O => []
  | S k' => pre s ++ match step s with Some s1 => rep_prefixes k' pre step s1 | None => [] end
  end.

Fixpoint aprefixes (c : cmd) (s : astate) : list astate :=
  match c with
  | Seq c1 c2 => aprefixes c1 s ++ match aexec c1 s with Some s1 => aprefixes c2 s1 | None => [] end
  | Repeat k c1 => rep_prefixes k (aprefixes c1) (aexec c1) s
  | Call x body args ret => map (fun s' => (fst s, snd s')) (aprefixes body (call_env ANull (fst s) args, snd s))
  | _ => [s]
  end.

Lemma run_hext : forall c n e h, hext h (snd (fst (run c n (e, h)))).
Proof.
  induction c; intros n0 e h; simpl;
    try (destruct n0; simpl; [apply hext_refl|]; try apply hext_refl; try apply hext_app; try apply hext_wr_buf; try apply hext_wr_cell).
  - (* Seq *) specialize (IHc1 n0 e h). destruct (run c1 n0 (e, h)) as [[e1 h1] [m|]]; simpl in *; [|exact IHc1].
    eapply hext_trans; [exact IHc1|apply IHc2].
  - (* Repeat *) revert n0 e h. induction n; intros n0 e h; simpl; [apply hext_refl|].
    specialize (IHc n0 e h). destruct (run c n0 (e, h)) as [[e1 h1] [m|]]; simpl in *; [|exact IHc].
    eapply hext_trans; [exact IHc|apply IHn].
  - (* Call *) specialize (IHc n0 (call_env RNull e args) h). unfold env, var in *.
    destruct (run c n0 (call_env RNull e args, h)) as [[e' h'] [m|]]; simpl in *; exact IHc.
Qed.

Section TrySim.
Variable h0 : heap.
Variable U : nat -> Prop.
Hypothesis U_init : forall o, U o -> o < length h0.

(* an interrupted run ends in a state related to one of the listed abstract prefixes *)
Lemma run_prefix_inv : forall c n e h ae ah ae' ah' e2 h2,
  aexec c (ae, ah) = Some (ae', ah') -> Inv h0 U e h ae ah -> run c n (e, h) = ((e2, h2), None) ->
  exists ae2 ah2, In (ae2, ah2) (aprefixes c (ae, ah)) /\ Inv h0 U e2 h2 ae2 ah2.
Proof.
  induction c; intros n0 e h ae ah ae' ah' e2 h2 Ha Hinv Hr; simpl in Hr;
    try (destruct n0; [|discriminate]; inversion Hr; subst; exists ae, ah; split; [left; reflexivity|exact Hinv]).
  - (* Seq *) simpl in Ha. destruct (aexec c1 (ae, ah)) as [[ae1 ah1]|] eqn:E1; [|discriminate].
    destruct (run c1 n0 (e, h)) as [[e1 h1] [m1|]] eqn:R1.
    + pose proof (run_complete _ _ _ _ _ R1) as Hc.
      pose proof (simulation h0 U U_init c1 _ _ _ _ _ _ E1 Hinv) as Hs. rewrite <- Hc in Hs. simpl in Hs.
      destruct (IHc2 _ _ _ _ _ _ _ _ _ Ha Hs Hr) as (ae2 & ah2 & Hin & Hi).
      exists ae2, ah2. split; [|exact Hi]. simpl. rewrite E1. apply in_or_app. right. exact Hin.
    + inversion Hr; subst. destruct (IHc1 _ _ _ _ _ _ _ _ _ E1 Hinv R1) as (ae2 & ah2 & Hin & Hi).
      exists ae2, ah2. split; [|exact Hi]. simpl. apply in_or_app. left. exact Hin.
  - (* Repeat *) simpl in Ha. simpl. revert n0 e h ae ah Ha Hinv Hr. induction n; intros n0 e h ae ah Ha Hinv Hr; simpl in *.
    + discriminate.
    + destruct (aexec c (ae, ah)) as [[ae1 ah1]|] eqn:E1; [|discriminate].
      destruct (run c n0 (e, h)) as [[e1 h1] [m1|]] eqn:R1.
      * pose proof (run_complete _ _ _ _ _ R1) as Hc.
        pose proof (simulation h0 U U_init c _ _ _ _ _ _ E1 Hinv) as Hs. rewrite <- Hc in Hs. simpl in Hs.
        destruct (IHn _ _ _ _ _ Ha Hs Hr) as (ae2 & ah2 & Hin & Hi).
        exists ae2, ah2. split; [|exact Hi]. apply in_or_app. right. exact Hin.
      * inversion Hr; subst. destruct (IHc _ _ _ _ _ _ _ _ _ E1 Hinv R1) as (ae2 & ah2 & Hin & Hi).
        exists ae2, ah2. split; [|exact Hi]. apply in_or_app. left. exact Hin.
  - (* Call *) simpl in Ha.
    destruct (aexec c (call_env ANull ae args, ah)) as [[ae1 ah1]|] eqn:E1; [|discriminate].
    destruct (run c n0 (call_env RNull e args, h)) as [[e' h'] [m'|]] eqn:R1; [discriminate|].
    inversion Hr; subst.
    assert (Hc : Inv h0 U (call_env RNull e2 args) h (call_env ANull ae args) ah).
    { eapply inv_env_change; [exact Hinv|]. destruct Hinv as (_ & _ & _ & _ & H5).
      intros i. unfold call_env. destruct (nth_error args i); [apply H5|reflexivity]. }
    destruct (IHc _ _ _ _ _ _ _ _ _ E1 Hc R1) as (ae2 & ah2 & Hin & Hi).
    exists ae, ah2. split.
    + simpl. apply in_map_iff. exists (ae2, ah2). split; [reflexivity|exact Hin].
    + eapply inv_env_change; [exact Hi|].
      assert (Hx : hext h h2).
      { pose proof (run_hext c n0 (call_env RNull e2 args) h) as Hh. unfold env, var in *. rewrite R1 in Hh. exact Hh. }
      intros y. eapply inv_mono_env; eauto.
Qed.
End TrySim.

Definition is_some {A} (o : option A) : bool := match o with Some _ => true | None => false end.

Definition safe_try_with (flags : list bool) (c hd : cmd) : bool :=
  is_some (aexec c (aenv0 flags, [])) && forallb (fun s => is_some (aexec hd s)) (aprefixes c (aenv0 flags, [])).
Definition safe_try (nargs : nat) (c hd : cmd) : bool := safe_try_with (repeat false nargs) c hd.

(* try: c except: hd  -- the body raises after n effects, the handler runs m effects (or to completion) *)
Theorem frame_try : forall (c hd : cmd) (args : list ref) (h0 : heap),
  safe_try (length args) c hd = true ->
  forall n e2 h2, run c n (env0 args, h0) = ((e2, h2), None) ->
  forall m o, o < length h0 -> nth_error (snd (fst (run hd m (e2, h2)))) o = nth_error h0 o.
Proof.
  intros c hd args h0 Hs n e2 h2 Hr m o Ho. unfold safe_try, safe_try_with in Hs. apply andb_true_iff in Hs. destruct Hs as [Hc Hh].
  destruct (aexec c (aenv0 (repeat false (length args)), [])) as [[ae' ah']|] eqn:E; [|discriminate].
  assert (HU : forall o, False -> o < length h0) by (intros ? []).
  assert (Hinv : Inv h0 (fun _ => False) (env0 args) h0 (aenv0 (repeat false (length args))) []).
  { split; [|split; [|split; [|split]]].
    - simpl. lia.
    - intros k ao Hk. destruct k; discriminate.
    - reflexivity.
    - intros o' it [].
    - apply env0_rel_prot. }
  destruct (run_prefix_inv h0 (fun _ => False) HU c n _ _ _ _ _ _ _ _ E Hinv Hr) as (ae2 & ah2 & Hin & Hi).
  rewrite forallb_forall in Hh. specialize (Hh _ Hin).
  destruct (aexec hd (ae2, ah2)) as [[ae3 ah3]|] eqn:E3; [|discriminate].
  eapply (run_protected h0 (fun _ => False) HU); eauto.
Qed.

(* the same with documented in-place parameters: everything outside their reachable region is untouched *)
Theorem frame_try_inplace : forall (c hd : cmd) (args : list (ref * bool)) (h0 : heap),
  safe_try_with (map snd args) c hd = true ->
  closed_heap h0 -> closed_args h0 (inplace_roots args) ->
  forall n e2 h2, run c n (env0 (map fst args), h0) = ((e2, h2), None) ->
  forall m o, o < length h0 -> ~ reach h0 (inplace_roots args) o ->
  nth_error (snd (fst (run hd m (e2, h2)))) o = nth_error h0 o.
Proof.
  intros c hd args h0 Hs Hch Hca n e2 h2 Hr m o Ho Hn. unfold safe_try_with in Hs. apply andb_true_iff in Hs. destruct Hs as [Hc Hh].
  destruct (aexec c (aenv0 (map snd args), [])) as [[ae' ah']|] eqn:E; [|discriminate].
  set (U := reach h0 (inplace_roots args)).
  assert (HU : forall o, U o -> o < length h0) by (intros; eapply reach_closed; eauto).
  assert (Hinv : Inv h0 U (env0 (map fst args)) h0 (aenv0 (map snd args)) []).
  { split; [|split; [|split; [|split]]].
    - simpl. lia.
    - intros k ao Hk. destruct k; discriminate.
    - reflexivity.
    - intros o' it Hu Hit. apply Forall_forall. intros r Hr'. simpl. destruct r as [|o2 offs]; auto.
      left. eapply reach_step; eauto; reflexivity.
    - apply env0_rel. intros r o2 Hin Ht. eapply reach_root; eauto.
      unfold inplace_roots. apply in_map_iff. exists (r, true). split; auto. apply filter_In. split; auto. }
  destruct (run_prefix_inv h0 U HU c n _ _ _ _ _ _ _ _ E Hinv Hr) as (ae2 & ah2 & Hin & Hi).
  rewrite forallb_forall in Hh. specialize (Hh _ Hin).
  destruct (aexec hd (ae2, ah2)) as [[ae3 ah3]|] eqn:E3; [|discriminate].
  eapply (run_protected h0 U HU); eauto.
Qed.

(* sensitivity and non-vacuity: a body that copies its argument and works on the copy, handler = "restore" code that
   writes into the work variable.  Accepted when the copy precedes everything that may raise; rejected when the handler
   may run before the copy was made (the variable then still designates the caller's array). *)
Definition try_body_good : cmd := seq [ Copy 10 0; Alloc 11 2; InplaceOp 10 2 ].
Definition try_body_bad : cmd := seq [ Rebind 10 0; Alloc 11 2; Copy 10 0; InplaceOp 10 2 ].
Definition try_handler : cmd := InplaceOp 10 3.
Lemma try_demo :
  safe_try 1 try_body_good try_handler = true /\
  safe 1 try_body_bad = true /\ safe_try 1 try_body_bad try_handler = false /\
  length (aprefixes try_body_good (aenv0 [false], [])) = 4 /\
  snd (run try_body_bad 2 (env0 [RObj 0 [0; 1]], [OBuf [5; 7]%Z])) = None /\
  snd (fst (run try_handler 1 (fst (run try_body_bad 2 (env0 [RObj 0 [0; 1]], [OBuf [5; 7]%Z]))))) <> [OBuf [5; 7]%Z] /\
  firstn 1 (snd (fst (run try_handler 1 (fst (run try_body_good 2 (env0 [RObj 0 [0; 1]], [OBuf [5; 7]%Z])))))) = [OBuf [5; 7]%Z].
Proof. vm_compute. repeat split; try reflexivity. discriminate. Qed.
