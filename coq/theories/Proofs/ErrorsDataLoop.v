(* C06 -- round 7: the parafac loop on DATA with weights, end-of-iteration normalisation and line search (Model/Errors.v:fl_loop).
   Every recorded value is the explicit squared residual (and squared norm) of the state it was computed for - through the MTTKRP
   shortcut after an ordinary sweep or a rejected jump, explicitly for an accepted jump - and, when the normalisation keeps the
   entries of the represented tensor, of the state at the END of its iteration (the state a run cut there returns). *)
From Coq Require Import List Arith Lia Bool Ring.
From TLV Require Import Base.Shape Base.PyList Base.Tensor Base.BigSum Base.Ops Model.Errors Proofs.ErrorsProofs Proofs.ErrorsP2.
Import ListNotations.

Section PFL.
Context {F : Type} (Op : fops F).
Hypothesis Rth : ring_theory (f0 Op) (f1 Op) (fadd Op) (fmul Op) (fsub Op) (fopp Op) (@eq F).
Add Ring Frfl : Rth.

(* the explicit value depends on the represented tensor only through its in-range entries *)
Lemma explicit_err_ext (X : tensor F) (L L' : list nat -> F) card :
  (forall idx, inb (shape X) idx -> L idx = L' idx) ->
  err_explicit Op X L (sparse_of Op X L card None) None = err_explicit Op X L' (sparse_of Op X L' card None) None.
Proof.
  intros H.
  assert (HS : sparse_of Op X L card None = sparse_of Op X L' card None).
  { unfold sparse_of. destruct card as [c|]; [|reflexivity]. do 2 f_equal. apply tabulate_ext. intros idx Hin.
    unfold imputed. now rewrite (H idx Hin). }
  rewrite HS. unfold err_explicit. f_equal.
  apply SI_ext. intros idx Hin. unfold imputed. now rewrite (H idx Hin).
Qed.

Variables (Or : @floracle F) (X : tensor F) (R : nat) (card : option nat) (ms : list nat) (linesearch normalize : bool).
Let N := length (shape X).
Definition fl_wf (st : @cpstate F) : Prop := length (snd st) = N.
Definition same_tensor (a b : @cpstate F) : Prop :=
  forall idx, inb (shape X) idx -> cp_tensor_entry Op R (fst a) (snd a) idx = cp_tensor_entry Op R (fst b) (snd b) idx.

Hypothesis Hs : 0 < N.
Hypothesis Hms : ms = [] \/ last ms 0 = N - 1.
Hypothesis Hjump : forall it a b, fl_wf a -> fl_wf b -> fl_wf (fl_jump Or it a b).
Hypothesis Hnorm_wf : normalize = true -> forall st, fl_wf st -> fl_wf (fl_norm Or st).

(* one iteration: the value belongs to the state it is paired with, and that state has one factor per mode *)
Lemma fl_iteration_true it st snap errs : fl_wf st -> fl_wf snap ->
  let r := fl_iteration Op Or X R card ms linesearch it st snap errs in
  snd r = fl_true_err Op X R card (fst (fst r)) /\ fl_wf (fst (fst r)) /\ fl_wf (snd (fst r)).
Proof.
  intros Hw Hsn. unfold fl_iteration.
  assert (Hsn' : fl_wf (if linesearch && Nat.even it then st else snap)) by (destruct (linesearch && Nat.even it); assumption).
  set (sw := data_sweep Op (fl_solve Or it) X R (fst st) ms (snd st) None).
  assert (Hw1 : length (fst sw) = length (shape X)) by (unfold sw; rewrite data_sweep_length; exact Hw).
  assert (Hown : error_calc_model Op X R (fst st) (fst sw) card None (snd sw) = fl_true_err Op X R card (fst st, fst sw)).
  { exact (parafac_iteration_reports_true_error Op Rth (fl_solve Or it) X R (fst st) card ms (snd st) Hs Hw Hms). }
  destruct (linesearch && Nat.even it && (5 <? it)).
  - destruct (fl_accept Or it _ errs); cbn [fst snd].
    + split; [reflexivity | split; [apply Hjump; [exact Hsn' | exact Hw1] | exact Hsn']].
    + split; [exact Hown | split; [exact Hw1 | exact Hsn']].
  - cbn [fst snd]. split; [exact Hown | split; [exact Hw1 | exact Hsn']].
Qed.

Lemma fl_after_wf st : fl_wf st -> fl_wf (fl_after Or normalize st).
Proof. intros H. unfold fl_after. destruct normalize eqn:E; [apply Hnorm_wf; auto | exact H]. Qed.

(* every recorded value is the explicit residual of the state it was computed for; the returned state is the last end-of-iteration state *)
Theorem fl_loop_reports_true_errors : forall n it st snap errs, fl_wf st -> fl_wf snap ->
  snd (fl_loop Op Or X R card ms linesearch normalize n it st snap errs)
  = errs ++ map (fl_true_err Op X R card) (fl_states Op Or X R card ms linesearch normalize false n it st snap errs) /\
  fst (fl_loop Op Or X R card ms linesearch normalize n it st snap errs)
  = last (fl_states Op Or X R card ms linesearch normalize true n it st snap errs) st /\
  length (fl_states Op Or X R card ms linesearch normalize true n it st snap errs)
  = length (fl_states Op Or X R card ms linesearch normalize false n it st snap errs).
Proof.
  induction n as [|n IH]; intros it st snap errs Hw Hsn; cbn [fl_loop fl_states map last length].
  - rewrite app_nil_r. auto.
  - destruct (fl_iteration_true it st snap errs Hw Hsn) as (He & Hw2 & Hsn2).
    set (r := fl_iteration Op Or X R card ms linesearch it st snap errs) in *.
    destruct (fl_stop Or it (errs ++ [snd r])).
    + cbn [snd fst map last length]. rewrite He. auto.
    + destruct (IH (S it) (fl_after Or normalize (fst (fst r))) (snd (fst r)) (errs ++ [snd r]) (fl_after_wf _ Hw2) Hsn2) as (H1 & H2 & H3).
      split; [|split].
      * rewrite H1, <- app_assoc. cbn [app]. now rewrite He.
      * rewrite H2.
        destruct (fl_states Op Or X R card ms linesearch normalize true n (S it) (fl_after Or normalize (fst (fst r))) (snd (fst r)) (errs ++ [snd r])) as [|a l];
          [reflexivity|]. apply last_cons_indep.
      * now rewrite H3.
Qed.

(* ... and when the normalisation keeps the entries of the represented tensor, each value is ALSO the explicit residual of the state at
   the end of its iteration - the state a run stopped there returns *)
Hypothesis Hnorm_same : normalize = true -> forall st, fl_wf st -> same_tensor (fl_norm Or st) st.
Lemma fl_true_err_after st : fl_wf st -> fl_true_err Op X R card (fl_after Or normalize st) = fl_true_err Op X R card st.
Proof.
  intros Hw. unfold fl_after. destruct normalize eqn:E; [|reflexivity].
  unfold fl_true_err. apply explicit_err_ext. exact (Hnorm_same eq_refl st Hw).
Qed.
Lemma fl_states_after_same : forall n it st snap errs, fl_wf st -> fl_wf snap ->
  map (fl_true_err Op X R card) (fl_states Op Or X R card ms linesearch normalize true n it st snap errs)
  = map (fl_true_err Op X R card) (fl_states Op Or X R card ms linesearch normalize false n it st snap errs).
Proof.
  induction n as [|n IH]; intros it st snap errs Hw Hsn; cbn [fl_states map]; [reflexivity|].
  destruct (fl_iteration_true it st snap errs Hw Hsn) as (He & Hw2 & Hsn2).
  set (r := fl_iteration Op Or X R card ms linesearch it st snap errs) in *.
  rewrite (fl_true_err_after _ Hw2). f_equal.
  destruct (fl_stop Or it (errs ++ [snd r])); [reflexivity|].
  apply IH; [now apply fl_after_wf | exact Hsn2].
Qed.
Theorem fl_loop_reports_errors_of_returned_states : forall n it st snap errs, fl_wf st -> fl_wf snap ->
  snd (fl_loop Op Or X R card ms linesearch normalize n it st snap errs)
  = errs ++ map (fl_true_err Op X R card) (fl_states Op Or X R card ms linesearch normalize true n it st snap errs) /\
  fst (fl_loop Op Or X R card ms linesearch normalize n it st snap errs)
  = last (fl_states Op Or X R card ms linesearch normalize true n it st snap errs) st.
Proof.
  intros n it st snap errs Hw Hsn. destruct (fl_loop_reports_true_errors n it st snap errs Hw Hsn) as (H1 & H2 & _).
  split; [|exact H2]. rewrite H1. f_equal. symmetry. now apply fl_states_after_same.
Qed.
End PFL.

(* the transcribed extrapolation keeps one factor per mode *)
Lemma zipw_length {A} (f : A -> A -> A) : forall a b, length a = length b -> length (zipw f a b) = length b.
Proof. induction a as [|x a IH]; intros [|y b] H; simpl in *; try discriminate; [reflexivity|]. f_equal. apply IH. lia. Qed.
Lemma ls_extrapolate_wf {F} (Op : fops F) (jump : F) (snap st : @cpstate F) n :
  length (snd snap) = n -> length (snd st) = n -> length (snd (ls_extrapolate Op jump snap st)) = n.
Proof. intros H1 H2. unfold ls_extrapolate. cbn [snd]. rewrite zipw_length by congruence. exact H2. Qed.

(* ---------------------------------------------------------------- constrained_parafac on data *)
Section PCon.
Context {F : Type} (Op : fops F).
Hypothesis Rth : ring_theory (f0 Op) (f1 Op) (fadd Op) (fmul Op) (fsub Op) (fopp Op) (@eq F).
Add Ring Frcon : Rth.
(* the MTTKRP without weights, the weights on the column sums: u = 1, v = w *)
Theorem constrained_iteration_reports_true_error solve (X : tensor F) R w ms fs :
  0 < length (shape X) -> length fs = length (shape X) -> (ms = [] \/ last ms 0 = length (shape X) - 1) ->
  constrained_iteration_error Op solve X R w ms fs = err_cp_true Op X R w (fst (data_sweep Op solve X R None ms fs None)) None None.
Proof.
  intros Hs HL Hms. unfold constrained_iteration_error.
  destruct Hms as [-> | Hlast]; [reflexivity|].
  destruct ms as [|m0 ms0]; [reflexivity|].
  destruct (exists_last (l := m0 :: ms0)) as (ms1 & n & E); [discriminate|]. rewrite E in *.
  rewrite last_last in Hlast. subst n. rewrite data_sweep_app. cbn [fst snd].
  set (fs1 := fst (data_sweep Op solve X R None ms1 fs None)).
  set (n := length (shape X) - 1).
  set (Mt := mttkrp_data Op X R None fs1 n).
  set (fs2 := set_nth n (solve n Mt fs1) fs1).
  assert (HL1 : length fs1 = length (shape X)) by (unfold fs1; now rewrite data_sweep_length).
  assert (HL2 : length fs2 = length (shape X)) by (unfold fs2; now rewrite set_nth_length).
  assert (Hn : n < length (shape X)) by (unfold n; lia).
  unfold err_shortcut_cw_with, err_cp_true. rewrite (err_explicit_plain Op Rth). f_equal.
  change (dist2 Op (shape X) (tfun Op X) (cp_tensor_entry Op R w fs2)) with (err2_true Op (shape X) (tfun Op X) R (wfun Op w) (colsT Op fs2)).
  rewrite <- (err2_fast_correct Op Rth (shape X) (tfun Op X) R (wfun Op w) (wfun Op None) (wfun Op w) (colsT Op fs2) n Hn).
  - unfold err2_fast, err2_fast_with. f_equal. f_equal. unfold iprod. apply S_ext; intros r Hr. f_equal.
    apply S_ext; intros i Hi. f_equal. unfold Mt, fs2. now apply mttkrp_data_after_update.
  - intros r _. now rewrite colsT_length.
  - intros r _. cbn [wfun]. ring.
Qed.
(* HALS: the MTTKRP (with the weights) of the last UPDATED mode, paired with that mode's factor; any modes list whose last entry is a mode *)
Theorem hals_iteration_reports_true_error solve (X : tensor F) R w ms fs :
  length fs = length (shape X) -> (ms = [] \/ last ms 0 < length (shape X)) ->
  hals_iteration_error Op solve X R w ms fs = err_cp_true Op X R w (fst (data_sweep Op solve X R w ms fs None)) None None.
Proof.
  intros HL Hms. unfold hals_iteration_error.
  destruct Hms as [-> | Hlast]; [reflexivity|].
  destruct ms as [|m0 ms0]; [reflexivity|].
  destruct (exists_last (l := m0 :: ms0)) as (ms1 & n & E); [discriminate|]. rewrite E in *.
  rewrite last_last in *. rewrite data_sweep_app. cbn [fst snd].
  set (fs1 := fst (data_sweep Op solve X R w ms1 fs None)).
  set (Mt := mttkrp_data Op X R w fs1 n).
  set (fs2 := set_nth n (solve n Mt fs1) fs1).
  assert (HL1 : length fs1 = length (shape X)) by (unfold fs1; now rewrite data_sweep_length).
  assert (HL2 : length fs2 = length (shape X)) by (unfold fs2; now rewrite set_nth_length).
  unfold err_shortcut_with, err_cp_true. rewrite (err_explicit_plain Op Rth). f_equal.
  change (dist2 Op (shape X) (tfun Op X) (cp_tensor_entry Op R w fs2)) with (err2_true Op (shape X) (tfun Op X) R (wfun Op w) (colsT Op fs2)).
  rewrite <- (err2_fast_correct Op Rth (shape X) (tfun Op X) R (wfun Op w) (wfun Op w) (ones Op) (colsT Op fs2) n Hlast).
  - unfold err2_fast, err2_fast_with. f_equal. f_equal. unfold iprod. apply S_ext; intros r Hr. f_equal.
    apply S_ext; intros i Hi. f_equal. unfold Mt, fs2. now apply mttkrp_data_after_update.
  - intros r _. now rewrite colsT_length.
  - intros r _. unfold ones. ring.
Qed.
Variables (solve : nat -> nat -> tensor F -> list (tensor F) -> tensor F) (stop : nat -> list (F * F) -> bool)
          (X : tensor F) (R : nat) (w : option (list F)) (ms : list nat).
Hypothesis Hs : 0 < length (shape X).
Hypothesis Hms : ms = [] \/ last ms 0 = length (shape X) - 1.
Theorem constrained_data_loop_reports_true_errors : forall n it fs errs, length fs = length (shape X) ->
  snd (constrained_data_loop Op solve stop X R w ms n it fs errs)
  = errs ++ map (fun fs_j => err_cp_true Op X R w fs_j None None) (constrained_data_states Op solve stop X R w ms n it fs errs) /\
  fst (constrained_data_loop Op solve stop X R w ms n it fs errs) = last (constrained_data_states Op solve stop X R w ms n it fs errs) fs.
Proof.
  induction n as [|n IH]; intros it fs errs HL; cbn [constrained_data_loop constrained_data_states map last].
  - now rewrite app_nil_r.
  - pose proof (constrained_iteration_reports_true_error (solve it) X R w ms fs Hs HL Hms) as He.
    set (fs' := fst (data_sweep Op (solve it) X R None ms fs None)) in *.
    assert (HL' : length fs' = length (shape X)) by (unfold fs'; now rewrite data_sweep_length).
    destruct (stop it (errs ++ [constrained_iteration_error Op (solve it) X R w ms fs])).
    + cbn [fst snd map last]. now rewrite He.
    + destruct (IH (S it) fs' (errs ++ [constrained_iteration_error Op (solve it) X R w ms fs]) HL') as [H1 H2]. split.
      * rewrite H1, <- app_assoc. cbn [app]. now rewrite He.
      * rewrite H2. destruct (constrained_data_states Op solve stop X R w ms n (S it) fs' (errs ++ [constrained_iteration_error Op (solve it) X R w ms fs])) as [|a l];
          [reflexivity|]. apply last_cons_indep.
Qed.
End PCon.

(* ---------------------------------------------------------------- the sweep with cp_normalize inside it (MU, HALS) on data *)
Section PNormSweep.
Context {F : Type} (Op : fops F).
Hypothesis Rth : ring_theory (f0 Op) (f1 Op) (fadd Op) (fmul Op) (fsub Op) (fopp Op) (@eq F).
Add Ring Frns : Rth.
Variables (solve : nat -> tensor F -> list (tensor F) -> tensor F) (norm : nat -> @cpstate F -> @cpstate F) (normalize : bool) (X : tensor F) (R : nat).
Hypothesis Hnorm_wf : normalize = true -> forall m st, length (snd st) = length (shape X) -> length (snd (norm m st)) = length (shape X).
(* the state just before the LAST mode of a non-empty sweep is updated: every earlier step was followed by a normalisation *)
Fixpoint ns_prefix (ms : list nat) (st : @cpstate F) : @cpstate F :=
  match ms with
  | [] => st
  | m :: ms' => let st1 := fst (ns_step Op solve X R m st) in ns_prefix ms' (if normalize then norm m st1 else st1)
  end.
Lemma norm_sweep_cons m l st M : l <> [] ->
  norm_sweep Op solve norm normalize X R (m :: l) st M
  = norm_sweep Op solve norm normalize X R l (let st1 := fst (ns_step Op solve X R m st) in if normalize then norm m st1 else st1)
               (Some (snd (ns_step Op solve X R m st))).
Proof. intros Hl. destruct l; [contradiction | reflexivity]. Qed.
Lemma norm_sweep_app n : forall ms st M,
  norm_sweep Op solve norm normalize X R (ms ++ [n]) st M
  = (let r := ns_step Op solve X R n (ns_prefix ms st) in (fst r, Some (snd r))).
Proof.
  induction ms as [|m ms IH]; intros st M; [reflexivity|].
  cbn [app ns_prefix]. rewrite norm_sweep_cons by (intros H; destruct ms; discriminate). apply IH.
Qed.
Lemma ns_prefix_wf : forall ms st, length (snd st) = length (shape X) -> length (snd (ns_prefix ms st)) = length (shape X).
Proof.
  induction ms as [|m ms IH]; intros st Hw; [exact Hw|]. cbn [ns_prefix]. apply IH.
  assert (H1 : length (snd (fst (ns_step Op solve X R m st))) = length (shape X)) by (cbn; now rewrite set_nth_length).
  destruct normalize eqn:E; [now apply Hnorm_wf | exact H1].
Qed.
Theorem norm_sweep_reports_true_error ms st : length (snd st) = length (shape X) -> (ms = [] \/ last ms 0 < length (shape X)) ->
  norm_sweep_error Op solve norm normalize X R ms st
  = (let st' := fst (norm_sweep Op solve norm normalize X R ms st None) in err_cp_true Op X R (fst st') (snd st') None None).
Proof.
  intros Hw Hms. unfold norm_sweep_error.
  destruct Hms as [-> | Hlast]; [reflexivity|].
  destruct ms as [|m0 ms0]; [reflexivity|].
  destruct (exists_last (l := m0 :: ms0)) as (ms1 & n & E); [discriminate|]. rewrite E in *.
  rewrite last_last in *. rewrite norm_sweep_app. cbv zeta. cbn [fst snd].
  set (st1 := ns_prefix ms1 st).
  assert (HL1 : length (snd st1) = length (shape X)) by (unfold st1; now apply ns_prefix_wf).
  unfold ns_step. cbn [fst snd].
  set (Mt := mttkrp_data Op X R (fst st1) (snd st1) n).
  set (fs2 := set_nth n (solve n Mt (snd st1)) (snd st1)).
  assert (HL2 : length fs2 = length (shape X)) by (unfold fs2; now rewrite set_nth_length).
  unfold err_shortcut_with, err_cp_true. rewrite (err_explicit_plain Op Rth). f_equal.
  change (dist2 Op (shape X) (tfun Op X) (cp_tensor_entry Op R (fst st1) fs2)) with (err2_true Op (shape X) (tfun Op X) R (wfun Op (fst st1)) (colsT Op fs2)).
  rewrite <- (err2_fast_correct Op Rth (shape X) (tfun Op X) R (wfun Op (fst st1)) (wfun Op (fst st1)) (ones Op) (colsT Op fs2) n Hlast).
  - unfold err2_fast, err2_fast_with. f_equal. f_equal. unfold iprod. apply S_ext; intros r Hr. f_equal.
    apply S_ext; intros i Hi. f_equal. unfold Mt, fs2. now apply mttkrp_data_after_update.
  - intros r _. now rewrite colsT_length.
  - intros r _. unfold ones. ring.
Qed.
End PNormSweep.
