(* C06 -- round 7: the data-level parafac loop (Model/Errors.v:fl_loop) over the reals with the TRANSCRIBED cp_normalize as its
   normalisation: cp_normalize_data_R keeps every entry of the represented tensor and the number of factors, so the normalisation
   hypotheses of Proofs/ErrorsDataLoop.v are discharged. *)
From Coq Require Import List Arith Lia Bool Reals Lra.
From TLV Require Import Base.Shape Base.PyList Base.Tensor Base.BigSum Base.Ops Model.Errors Model.ErrorsR
     Proofs.ErrorsProofs Proofs.ErrorsSkeleton Proofs.ErrorsSkeletonCP Proofs.ErrorsReal Proofs.ErrorsLoops Proofs.ErrorsNormalizeR
     Proofs.ErrorsDataLoop.
Import ListNotations.

Section Generic.
Context {F : Type} (Op : fops F).
(* prodl reads column k only at row idx_k *)
Lemma prodl_ext_inb : forall (s : list nat) (gs gs' : list (nat -> F)) idx d,
  length gs = length s -> length gs' = length s ->
  (forall k i, k < length s -> i < nth k s 0 -> nth k gs d i = nth k gs' d i) -> inb s idx ->
  prodl Op gs idx = prodl Op gs' idx.
Proof.
  induction s as [|n s IH]; intros gs gs' idx d Hg Hg' H Hin.
  - destruct gs; [|discriminate]. destruct gs'; [|discriminate]. reflexivity.
  - destruct gs as [|g gs]; [discriminate|]. destruct gs' as [|g' gs']; [discriminate|].
    destruct idx as [|i idx]; [simpl in Hin; tauto|]. simpl in Hin. destruct Hin as [Hi Hin].
    cbn [prodl]. f_equal.
    + exact (H 0 i (Nat.lt_0_succ _) Hi).
    + apply (IH gs gs' idx d); [simpl in Hg; lia | simpl in Hg'; lia | | exact Hin].
      intros k j Hk Hj. exact (H (S k) j (proj1 (Nat.succ_lt_mono _ _) Hk) Hj).
Qed.
Lemma map_nth_seq {A B} (g : A -> B) (l : list A) (d : A) : map (fun k => g (nth k l d)) (seq 0 (length l)) = map g l.
Proof.
  induction l as [|a l IH]; [reflexivity|]. cbn [length seq map nth]. f_equal.
  rewrite <- seq_shift, map_map. cbn [nth]. exact IH.
Qed.
(* (weights, factors) as data and as blocks represent the same tensor *)
Lemma cp_tensor_entry_blocks (s : list nat) (Rk : nat) (w : option (list F)) (fs : list (tensor F)) idx : length fs = length s ->
  cp_tensor_entry Op Rk w fs idx = cp_entry Op Rk (w_of s (blocks_of Op w fs)) (cols_of s (blocks_of Op w fs)) idx.
Proof.
  intros HL. unfold cp_tensor_entry, cp_entry. apply S_ext. intros r _.
  assert (Hw : wfun Op w r = w_of s (blocks_of Op w fs) r).
  { unfold w_of, blocks_of. rewrite <- HL, Nat.ltb_irrefl. reflexivity. }
  assert (Hc : colsT Op fs r = cols_of s (blocks_of Op w fs) r).
  { unfold colsT, cols_of. rewrite <- HL.
    rewrite <- (map_nth_seq (fun (A : tensor F) (i : nat) => get (f0 Op) A [i; r]) fs (mk [] [])).
    apply map_ext_in. intros k Hk. apply in_seq in Hk. unfold blocks_of.
    destruct (Nat.ltb_spec k (length fs)); [reflexivity | lia]. }
  now rewrite Hw, Hc.
Qed.
(* blocks turned into data represent the same tensor on the index space *)
Lemma data_of_blocks_length (s : list nat) (Rk : nat) (b : blocks (@blk F)) : length (snd (data_of_blocks s Rk b)) = length s.
Proof. unfold data_of_blocks. cbn [snd]. now rewrite map_length, seq_length. Qed.
Lemma cp_tensor_entry_data_of_blocks (s : list nat) (Rk : nat) (b : blocks (@blk F)) idx : inb s idx ->
  cp_tensor_entry Op Rk (fst (data_of_blocks s Rk b)) (snd (data_of_blocks s Rk b)) idx = cp_entry Op Rk (w_of s b) (cols_of s b) idx.
Proof.
  intros Hin. unfold cp_tensor_entry, cp_entry. apply S_ext. intros r Hr. f_equal.
  - unfold data_of_blocks, wfun, w_of. cbn [fst].
    rewrite (nth_indep _ (f0 Op) ((fun r0 => b (length s) 0 r0) 0)) by (now rewrite map_length, seq_length).
    rewrite (map_nth (fun r0 => b (length s) 0 r0) (seq 0 Rk) 0 r). now rewrite seq_nth.
  - apply (prodl_ext_inb s _ _ idx (fun _ => f0 Op)); [| | | exact Hin].
    + unfold colsT, data_of_blocks. cbn [snd]. now rewrite !map_length, seq_length.
    + unfold cols_of. now rewrite map_length, seq_length.
    + intros k i Hk Hi. unfold colsT, data_of_blocks, cols_of. cbn [snd]. rewrite map_map.
      set (g1 := fun k0 : nat => fun i0 : nat => get (f0 Op) (tabulate [nth k0 s 0; Rk] (fun ir => b k0 (nth 0 ir 0) (nth 1 ir 0))) [i0; r]).
      set (g2 := fun k0 : nat => fun i0 : nat => b k0 i0 r).
      rewrite (nth_indep (map g1 (seq 0 (length s))) (fun _ => f0 Op) (g1 0)) by (now rewrite map_length, seq_length).
      rewrite (nth_indep (map g2 (seq 0 (length s))) (fun _ => f0 Op) (g2 0)) by (now rewrite map_length, seq_length).
      rewrite (map_nth g1 (seq 0 (length s)) 0 k), (map_nth g2 (seq 0 (length s)) 0 k). rewrite seq_nth by exact Hk. cbn [Nat.add].
      unfold g1, g2. rewrite get_tabulate by (cbn; auto). reflexivity.
Qed.
End Generic.


(* cp_normalize transcribed over the reals keeps every entry of the represented tensor (zero columns, zero / negative weights included) *)
Lemma cp_normalize_R_entry (s : list nat) (Rk : nat) (st : blocks (@blk R)) idx : (0 < length s)%nat -> inb s idx ->
  cp_entry Rops Rk (w_of s (cp_normalize_R s st)) (cols_of s (cp_normalize_R s st)) idx = cp_entry Rops Rk (w_of s st) (cols_of s st) idx.
Proof.
  intros Hs Hin. unfold cp_normalize_R.
  destruct (normalize_columns_is_rescaling s Rk (absorb_weights s st)) as (ds & H1 & H2).
  rewrite (cp_entry_rescale Rops Rth s Rk (w_of s (absorb_weights s st)) (w_of s (normalize_columns s (absorb_weights s st)))
             (cols_of s (absorb_weights s st)) (cols_of s (normalize_columns s (absorb_weights s st))) ds
             (fun r _ => cols_of_length s (absorb_weights s st) r) H1 H2 idx Hin).
  now apply absorb_weights_entry.
Qed.
Theorem cp_normalize_data_R_same_tensor (X : tensor R) (Rk : nat) (st : @cpstate R) :
  (0 < length (shape X))%nat -> length (snd st) = length (shape X) ->
  length (snd (cp_normalize_data_R (shape X) Rk st)) = length (shape X) /\ forall idx, inb (shape X) idx ->
    cp_tensor_entry Rops Rk (fst (cp_normalize_data_R (shape X) Rk st)) (snd (cp_normalize_data_R (shape X) Rk st)) idx
    = cp_tensor_entry Rops Rk (fst st) (snd st) idx.
Proof.
  intros Hs HL. split; [apply data_of_blocks_length|]. intros idx Hin. unfold cp_normalize_data_R.
  rewrite (cp_tensor_entry_data_of_blocks Rops (shape X) Rk _ idx Hin).
  rewrite (cp_normalize_R_entry (shape X) Rk _ idx Hs Hin).
  symmetry. now apply cp_tensor_entry_blocks.
Qed.
(* the loop theorem with the transcribed cp_normalize as the normalisation: no hypothesis about the normalisation is left *)
Theorem fl_loop_reports_true_errors_with_cp_normalize (Orc : @floracle R) (X : tensor R) (Rk : nat) (card : option nat) (ms : list nat)
        (linesearch normalize : bool) :
  (0 < length (shape X))%nat -> (ms = [] \/ last ms 0%nat = (length (shape X) - 1)%nat) ->
  (exists jumps : nat -> R, fl_jump Orc = fun it => ls_extrapolate Rops (jumps it)) ->
  fl_norm Orc = cp_normalize_data_R (shape X) Rk ->
  forall n it st snap errs, length (snd st) = length (shape X) -> length (snd snap) = length (shape X) ->
  snd (fl_loop Rops Orc X Rk card ms linesearch normalize n it st snap errs)
  = errs ++ map (fl_true_err Rops X Rk card) (fl_states Rops Orc X Rk card ms linesearch normalize true n it st snap errs) /\
  fst (fl_loop Rops Orc X Rk card ms linesearch normalize n it st snap errs)
  = last (fl_states Rops Orc X Rk card ms linesearch normalize true n it st snap errs) st.
Proof.
  intros Hs Hms [jumps Hjump] Hn n it st snap errs Hw Hsn.
  apply (fl_loop_reports_errors_of_returned_states Rops Rth Orc X Rk card ms linesearch normalize Hs Hms); [ | | | exact Hw | exact Hsn].
  - intros it0 a b Ha Hb. rewrite Hjump. now apply ls_extrapolate_wf.
  - intros _ st0 Hw0. rewrite Hn. exact (proj1 (cp_normalize_data_R_same_tensor X Rk st0 Hs Hw0)).
  - intros _ st0 Hw0. rewrite Hn. exact (proj2 (cp_normalize_data_R_same_tensor X Rk st0 Hs Hw0)).
Qed.
