(* C06 -- loops with one explicit residual per iteration (CMTF, randomised CP, non-negative Tucker variants, HOOI):
   which iterate the last recorded value belongs to, for every oracle. *)
From Coq Require Import List Arith Lia Bool.
From TLV Require Import Model.Errors.
Import ListNotations.

Section SL.
Variables (St E : Type) (err : St -> E) (Or : soracle St) (rbc : bool).
Definition s_last_ok (r : St * list E) : Prop := exists es, snd r = es ++ [err (fst r)].
(* either the value is recorded before the callback may stop the run, or the callback never stops it *)
Hypothesis Hcase : rbc = true \/ (forall it, s_cb_stop Or it = false).

Lemma s_loop_ok : forall n it cur errs, (n = 0 -> s_last_ok (cur, errs)) -> s_last_ok (s_loop err Or rbc n it cur errs).
Proof.
  induction n as [|n IH]; intros it cur errs H0; [now apply H0|]. cbn [s_loop].
  destruct (s_cb_stop Or it) eqn:Hcb.
  - destruct Hcase as [-> | Hn]; [now exists errs | rewrite Hn in Hcb; discriminate].
  - destruct (s_stop Or it); [now exists errs|]. apply IH. intros _. now exists errs.
Qed.
Theorem s_loop_sound n init : 0 < n -> s_last_ok (s_loop err Or rbc n 0 init []).
Proof. intros Hn. apply s_loop_ok. intros ->. inversion Hn. Qed.
End SL.

(* randomised_parafac before fix 28121fa (value appended AFTER the callback): a callback stopping the run in iteration 1 left the
   error of the iterate of iteration 0 as the last entry of the returned list *)
Definition toy_s : soracle nat := mkS (fun _ st => S st) (fun _ => false) (fun it => Nat.eqb it 1).
Theorem s_loop_callback_stop_refuted :
  exists (Or : soracle nat) (n : nat) (init : nat), 0 < n /\ ~ s_last_ok nat nat (fun st => st) (s_loop (fun st : nat => st) Or false n 0 init []).
Proof.
  exists toy_s, 5, 0. split; [lia|]. vm_compute. intros [es H].
  apply (f_equal (@rev nat)) in H. rewrite rev_unit in H. simpl in H. discriminate.
Qed.
Example s_loop_nonvacuous :
  s_loop (fun st : nat => st) toy_s true 5 0 0 [] = (2, [1; 2]) /\ s_loop (fun st : nat => st) toy_s false 5 0 0 [] = (2, [1]).
Proof. vm_compute. split; reflexivity. Qed.
