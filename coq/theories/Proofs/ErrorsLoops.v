(* C06 -- loops with one explicit residual per iteration (CMTF, randomised CP, non-negative Tucker variants, HOOI):
   which iterate the last recorded value belongs to, for every oracle. *)
From Coq Require Import List Arith Lia Bool.
From TLV Require Import Base.Shape Base.PyList Base.Tensor Base.BigSum Base.Ops Model.Errors Proofs.ErrorsProofs Proofs.ErrorsP2 Proofs.ErrorsTR.
Import ListNotations.

Section SL.
Variables (St E : Type) (err : St -> E) (Or : soracle St) (rbc normalize : bool).
Definition s_last_ok (r : St * list E) : Prop := exists es, snd r = es ++ [err (fst r)].
(* the normalisation applied after the error was recorded keeps the error (it keeps the represented tensor) *)
Hypothesis Hnorm : forall st, err (s_norm Or st) = err st.
(* either the value is recorded before the callback may stop the run, or the callback never stops it *)
Hypothesis Hcase : rbc = true \/ (forall it, s_cb_stop Or it = false).

Lemma s_loop_ok : forall n it cur errs, (n = 0 -> s_last_ok (cur, errs)) -> s_last_ok (s_loop err Or rbc normalize n it cur errs).
Proof.
  induction n as [|n IH]; intros it cur errs H0; [now apply H0|]. cbn [s_loop].
  set (st := s_update Or it cur). set (stN := if normalize then s_norm Or st else st).
  assert (HN : err stN = err st) by (unfold stN; destruct normalize; [apply Hnorm | reflexivity]).
  assert (Hok : s_last_ok (stN, errs ++ [err st])) by (exists errs; cbn; now rewrite HN).
  destruct (s_cb_stop Or it) eqn:Hcb.
  - destruct Hcase as [-> | Hn]; [exact Hok | rewrite Hn in Hcb; discriminate].
  - destruct (s_stop Or it); [exact Hok|]. apply IH. intros _. exact Hok.
Qed.
Theorem s_loop_sound n init : 0 < n -> s_last_ok (s_loop err Or rbc normalize n 0 init []).
Proof. intros Hn. apply s_loop_ok. intros ->. inversion Hn. Qed.
End SL.

(* randomised_parafac before fix 28121fa (value appended AFTER the callback): a callback stopping the run in iteration 1 left the
   error of the iterate of iteration 0 as the last entry of the returned list *)
Definition toy_s : soracle nat := mkS (fun _ st => S st) (fun _ => false) (fun it => Nat.eqb it 1) (fun st => st).
Theorem s_loop_callback_stop_refuted :
  exists (Or : soracle nat) (n : nat) (init : nat), 0 < n /\ ~ s_last_ok nat nat (fun st => st) (s_loop (fun st : nat => st) Or false true n 0 init []).
Proof.
  exists toy_s, 5, 0. split; [lia|]. vm_compute. intros [es H].
  apply (f_equal (@rev nat)) in H. rewrite rev_unit in H. simpl in H. discriminate.
Qed.
Example s_loop_nonvacuous :
  s_loop (fun st : nat => st) toy_s true true 5 0 0 [] = (2, [1; 2]) /\ s_loop (fun st : nat => st) toy_s false true 5 0 0 [] = (2, [1]).
Proof. vm_compute. split; reflexivity. Qed.

(* ---- round 5: EVERY entry of the returned list, not only the last one.  Entry j of the list returned by a run of n iterations is
   the error of the iterate RETURNED by the run cut after j+1 iterations (same oracle, same start): every recorded value is the
   error of the iterate of its iteration.  Holds for both orderings of record / callback and for every stop pattern (a stop only
   shortens the list); the Python predicate C06_list_prefix_consistent tests this statement on real runs. *)
Section SLall.
Variables (St E : Type) (err : St -> E) (Or : soracle St) (rbc normalize : bool).
Hypothesis Hnorm : forall st, err (s_norm Or st) = err st.

Lemma s_loop_extends : forall n it cur errs, exists tl, snd (s_loop err Or rbc normalize n it cur errs) = errs ++ tl.
Proof.
  induction n as [|n IH]; intros it cur errs; cbn [s_loop]; [exists []; cbn; now rewrite app_nil_r|].
  destruct (s_cb_stop Or it).
  - destruct rbc; cbn; [eexists; reflexivity | exists []; now rewrite app_nil_r].
  - destruct (s_stop Or it); [cbn; eexists; reflexivity|].
    destruct (IH (S it) (if normalize then s_norm Or (s_update Or it cur) else s_update Or it cur) (errs ++ [err (s_update Or it cur)])) as [tl Htl].
    rewrite Htl, <- app_assoc. eexists; reflexivity.
Qed.

Lemma s_loop_entry : forall n it cur errs j, length errs <= j -> j < length (snd (s_loop err Or rbc normalize n it cur errs)) ->
  nth_error (snd (s_loop err Or rbc normalize n it cur errs)) j
  = Some (err (fst (s_loop err Or rbc normalize (S j - length errs) it cur errs))).
Proof.
  induction n as [|n IH]; intros it cur errs j Hlo Hhi; [cbn in Hhi; lia|].
  replace (S j - length errs) with (S (j - length errs)) by lia.
  cbn [s_loop] in *.
  set (st := s_update Or it cur) in *. set (stN := if normalize then s_norm Or st else st) in *.
  assert (HN : err stN = err st) by (unfold stN; destruct normalize; [apply Hnorm | reflexivity]).
  destruct (s_cb_stop Or it).
  - destruct rbc; cbn [fst snd] in *; [|lia].
    rewrite app_length in Hhi; cbn in Hhi. assert (j = length errs) by lia; subst j.
    rewrite nth_error_app2, Nat.sub_diag by lia. cbn. now rewrite HN.
  - destruct (s_stop Or it).
    + cbn [fst snd] in *. rewrite app_length in Hhi; cbn in Hhi. assert (j = length errs) by lia; subst j.
      rewrite nth_error_app2, Nat.sub_diag by lia. cbn. now rewrite HN.
    + destruct (Nat.eq_dec j (length errs)) as [-> | Hne].
      * rewrite Nat.sub_diag. cbn [s_loop fst].
        destruct (s_loop_extends n (S it) stN (errs ++ [err st])) as [tl Htl]. rewrite Htl, <- app_assoc.
        rewrite nth_error_app2, Nat.sub_diag by lia. cbn. now rewrite HN.
      * assert (Hlo' : length (errs ++ [err st]) <= j) by (rewrite app_length; cbn [length]; lia).
        rewrite (IH (S it) stN (errs ++ [err st]) j Hlo' Hhi).
        rewrite app_length. cbn [length]. replace (S j - (length errs + 1)) with (j - length errs) by lia. reflexivity.
Qed.

Theorem s_loop_every_entry n init j : j < length (snd (s_loop err Or rbc normalize n 0 init [])) ->
  nth_error (snd (s_loop err Or rbc normalize n 0 init [])) j = Some (err (fst (s_loop err Or rbc normalize (S j) 0 init []))).
Proof. intros H. rewrite (s_loop_entry n 0 init [] j); [now rewrite Nat.sub_0_r | cbn; lia | exact H]. Qed.
End SLall.

(* toy_s (callback stop in iteration 1), 5 iterations allowed: entries 0 and 1 are the errors of the 1-run and the 2-run *)
Example s_loop_every_entry_nonvacuous :
  snd (s_loop (fun st : nat => st) toy_s true true 5 0 0 []) = [fst (s_loop (fun st : nat => st) toy_s true true 1 0 0 []);
                                                               fst (s_loop (fun st : nat => st) toy_s true true 2 0 0 [])].
Proof. vm_compute. reflexivity. Qed.

(* ---- round 5: loop skeleton x algebra for the algorithms that report a SHORTCUT value inside a one-value-per-iteration loop.
   fast = the value the code computes, true = the residual from scratch; Inv = what makes them equal (orthonormal factors for HOOI,
   ring closure for tensor-ring ALS), established by every update and kept by the normalisation.  Then EVERY entry j of the returned
   list is the from-scratch error of the iterate returned by the run cut after j+1 iterations. *)
Section SLtrue.
Variables (St E : Type) (fast true_ : St -> E) (Inv : St -> Prop) (Or : soracle St) (rbc normalize : bool).
Hypothesis Hid : forall st, Inv st -> fast st = true_ st.
Hypothesis Hupd : forall it st, Inv (s_update Or it st).
Hypothesis HnormI : forall st, Inv st -> Inv (s_norm Or st).
Hypothesis Hnorm : forall st, fast (s_norm Or st) = fast st.

Lemma s_loop_inv : forall n it cur errs, 0 < n -> Inv (fst (s_loop fast Or rbc normalize n it cur errs)).
Proof.
  induction n as [|n IH]; intros it cur errs Hn; [lia|]. cbn [s_loop].
  set (st := s_update Or it cur). set (stN := if normalize then s_norm Or st else st).
  assert (HI : Inv stN) by (unfold stN; destruct normalize; [apply HnormI|]; apply Hupd).
  destruct (s_cb_stop Or it); [exact HI|]. destruct (s_stop Or it); [exact HI|].
  destruct n as [|n']; [exact HI|]. apply IH. lia.
Qed.

Theorem s_loop_every_entry_true n init j : j < length (snd (s_loop fast Or rbc normalize n 0 init [])) ->
  nth_error (snd (s_loop fast Or rbc normalize n 0 init [])) j
  = Some (true_ (fst (s_loop fast Or rbc normalize (S j) 0 init []))).
Proof.
  intros H. rewrite (s_loop_every_entry St E fast Or rbc normalize Hnorm n init j H). f_equal.
  apply Hid. apply s_loop_inv. lia.
Qed.
End SLtrue.

Section Compose.
Context {F : Type} (Op : fops F).
Hypothesis Rth : ring_theory (f0 Op) (f1 Op) (fadd Op) (fmul Op) (fsub Op) (fopp Op) (@eq F).

(* HOOI (tucker / partial_tucker without mask): the iterate is the list of factor matrices, the core is recomputed as X x U^T after the
   sweep, the reported quantity is norm^2 - norm(core)^2.  For EVERY oracle whose updates return column-orthonormal factors (the SVD
   contract) every recorded value is the squared residual, from scratch, of the Tucker tensor of its iteration. *)
Definition hooi_fast (s rs : list nat) (X : list nat -> F) (us : list (nat -> nat -> F)) : F := hooi_err2 Op s rs X (project Op s X us).
Definition hooi_true (s rs : list nat) (X : list nat -> F) (us : list (nat -> nat -> F)) : F :=
  dist2 Op s X (tucker_entry Op rs (project Op s X us) us).
Theorem hooi_loop_reports_true_errors (s rs : list nat) (X : list nat -> F)
        (upd : nat -> list (nat -> nat -> F) -> list (nat -> nat -> F)) (stop cb_stop : nat -> bool) (rbc : bool) :
  (forall it us, orthonormal Op s rs (upd it us)) ->
  let Or := mkS upd stop cb_stop (fun us => us) in
  forall n init j, j < length (snd (s_loop (hooi_fast s rs X) Or rbc false n 0 init [])) ->
  nth_error (snd (s_loop (hooi_fast s rs X) Or rbc false n 0 init [])) j
  = Some (hooi_true s rs X (fst (s_loop (hooi_fast s rs X) Or rbc false (S j) 0 init []))).
Proof.
  intros Hupd Or n init j Hj.
  apply (s_loop_every_entry_true _ _ (hooi_fast s rs X) (hooi_true s rs X) (orthonormal Op s rs) Or rbc false); auto.
  intros us Ho. unfold hooi_fast, hooi_true. symmetry. now apply (hooi_error_identity Op Rth).
Qed.

(* tensor-ring ALS: the iterate is the list of cores, the reported quantity is the squared residual of the least-squares sub-problem of the
   last mode.  For EVERY oracle whose updates keep the number of cores and the ring closure r_N = r_0, every recorded value is the squared
   residual of the ring of its iteration. *)
Definition tr_inv (s : list nat) (r0 : nat) (cores : list (@core F)) : Prop :=
  length cores = length s /\ endbond r0 (map (fun c => (fst c, fun a b => snd c a 0 b)) cores) = r0.
Theorem tr_loop_reports_true_errors (s : list nat) (X : list nat -> F) (r0 : nat)
        (upd : nat -> list (@core F) -> list (@core F)) (stop cb_stop : nat -> bool) (rbc : bool) :
  0 < length s -> (forall it cores, tr_inv s r0 (upd it cores)) ->
  let Or := mkS upd stop cb_stop (fun c => c) in
  let fast := fun cores => ls_residual2 Op s X r0 cores (length s - 1) in
  forall n init j, j < length (snd (s_loop fast Or rbc false n 0 init [])) ->
  nth_error (snd (s_loop fast Or rbc false n 0 init [])) j
  = Some (dist2 Op s (tr_entry Op r0 (fst (s_loop fast Or rbc false (S j) 0 init []))) X).
Proof.
  intros Hs Hupd Or fast n init j Hj.
  apply (s_loop_every_entry_true _ _ fast (fun cores => dist2 Op s (tr_entry Op r0 cores) X) (tr_inv s r0) Or rbc false); auto.
  intros cores [Hl Hr]. unfold fast. apply (ls_residual_is_tr_error Op Rth); [exact Hl | lia | exact Hr].
Qed.

(* PARAFAC2: the iterate is (projections, A * weights, B, C), the reported quantity is the slice-wise expansion.  For EVERY oracle (updates,
   line-search jumps with accept / reject decisions, stops, any normalisation that keeps the expansion's value) every recorded value is the
   squared residual sum_i || X_i - B_i C^T ||^2, from scratch, of the iterate of its iteration; no hypothesis on the projections. *)
Definition p2_state := ((nat -> nat -> nat -> F) * (nat -> nat -> F) * (nat -> nat -> F) * (nat -> nat -> F))%type.
Definition p2_fast_of (I K Rk : nat) (J : nat -> nat) (X : nat -> nat -> nat -> F) (st : p2_state) : F :=
  let '(P, A, Bm, C) := st in p2_err2_fast Op I K Rk J X P A Bm C (p2_tmp_proj Op Rk J X P A Bm).
Definition p2_true_of (I K Rk : nat) (J : nat -> nat) (X : nat -> nat -> nat -> F) (st : p2_state) : F :=
  let '(P, A, Bm, C) := st in p2_err2_true Op I K Rk J X P A Bm C.
Theorem p2_loop_reports_true_errors (I K Rk : nat) (J : nat -> nat) (X : nat -> nat -> nat -> F) (Or : p2oracle p2_state) (ls normalize : bool) :
  (forall st, p2_fast_of I K Rk J X (p2_norm Or st) = p2_fast_of I K Rk J X st) ->
  forall n init j, j < length (snd (p2_loop (p2_fast_of I K Rk J X) Or ls normalize false n 0 init [])) ->
  nth_error (snd (p2_loop (p2_fast_of I K Rk J X) Or ls normalize false n 0 init [])) j
  = Some (p2_true_of I K Rk J X (fst (p2_loop (p2_fast_of I K Rk J X) Or ls normalize false (S j) 0 init []))).
Proof.
  intros Hnorm n init j Hj. rewrite (p2_loop_every_entry _ _ (p2_fast_of I K Rk J X) Or ls normalize Hnorm n init j Hj). f_equal.
  destruct (fst _) as [[[P A] Bm] C]. unfold p2_fast_of, p2_true_of. apply (p2_err2_fast_proj_correct Op Rth).
Qed.
(* ... and with the normalisation hypothesis discharged: any normalisation that keeps the projections and rescales the columns of B and C with
   A * weights absorbing the scales (what cp_normalize does to (weights, [A, B, C])) *)
Definition p2_rescaled (st st' : p2_state) : Prop :=
  let '(P, A, Bm, C) := st in let '(P', A', Bm', C') := st' in
  P' = P /\ exists db dc : nat -> F,
    (forall q r, Bm q r = fmul Op (db r) (Bm' q r)) /\ (forall k r, C k r = fmul Op (dc r) (C' k r)) /\
    (forall i r, A' i r = fmul Op (A i r) (fmul Op (db r) (dc r))).
Theorem p2_loop_reports_true_errors_rescaling (I K Rk : nat) (J : nat -> nat) (X : nat -> nat -> nat -> F) (Or : p2oracle p2_state) (ls normalize : bool) :
  (forall st, p2_rescaled st (p2_norm Or st)) ->
  forall n init j, j < length (snd (p2_loop (p2_fast_of I K Rk J X) Or ls normalize false n 0 init [])) ->
  nth_error (snd (p2_loop (p2_fast_of I K Rk J X) Or ls normalize false n 0 init [])) j
  = Some (p2_true_of I K Rk J X (fst (p2_loop (p2_fast_of I K Rk J X) Or ls normalize false (S j) 0 init []))).
Proof.
  intros Hres. apply p2_loop_reports_true_errors. intros st. specialize (Hres st).
  destruct st as [[[P A] Bm] C]. destruct (p2_norm Or (P, A, Bm, C)) as [[[P' A'] Bm'] C'].
  cbn in Hres. destruct Hres as [-> (db & dc & HB & HC & HA)]. unfold p2_fast_of.
  exact (p2_rescale_fast Op Rth I K Rk J X P A A' Bm Bm' C C' db dc HB HC HA).
Qed.

(* ---- round 6: CMTF and randomised CP as skeletons.  Both record one explicit value per iteration (no normalisation inside the loop).
   CMTF (squared, unnormalised form; iterate = (factors of the tensor's CP, V)); the value is recorded before the convergence test may stop
   the run (since d036ea5): for every update rule and stop pattern every recorded value is norm(X - [[A,B,C]])^2 + norm(Y - A V^T)^2 of the
   iterate returned by the run cut after that iteration *)
Theorem cmtf_loop_reports_true_errors (X Y : tensor F) (R : nat)
        (upd : nat -> list (tensor F) * tensor F -> list (tensor F) * tensor F) (stop : nat -> bool) :
  let Or := mkS upd stop (fun _ => false) (fun st => st) in
  forall n init j, j < length (snd (s_loop (cmtf_err2 Op X Y R) Or true false n 0 init [])) ->
  nth_error (snd (s_loop (cmtf_err2 Op X Y R) Or true false n 0 init [])) j
  = Some (cmtf_err2 Op X Y R (fst (s_loop (cmtf_err2 Op X Y R) Or true false (S j) 0 init []))).
Proof. intros Or n init j Hj. apply (s_loop_every_entry _ _ (cmtf_err2 Op X Y R) Or true false); [intros; reflexivity | exact Hj]. Qed.
(* randomised CP (explicit residual of the full tensor; value recorded BEFORE the callback may stop the run, since 28121fa): for every
   update rule (the sampled least squares), stagnation / convergence stop and callback stop pattern *)
Definition cp_explicit_err2 (X : tensor F) (R : nat) (st : option (list F) * list (tensor F)) : F :=
  fst (err_cp_true Op X R (fst st) (snd st) None None).
Theorem randomised_loop_reports_true_errors (X : tensor F) (R : nat)
        (upd : nat -> option (list F) * list (tensor F) -> option (list F) * list (tensor F)) (stop cb_stop : nat -> bool) :
  let Or := mkS upd stop cb_stop (fun st => st) in
  forall n init j, j < length (snd (s_loop (cp_explicit_err2 X R) Or true false n 0 init [])) ->
  nth_error (snd (s_loop (cp_explicit_err2 X R) Or true false n 0 init [])) j
  = Some (cp_explicit_err2 X R (fst (s_loop (cp_explicit_err2 X R) Or true false (S j) 0 init []))) /\
  s_last_ok _ _ (cp_explicit_err2 X R) (s_loop (cp_explicit_err2 X R) Or true false (S n) 0 init []).
Proof.
  intros Or n init j Hj. split.
  - apply (s_loop_every_entry _ _ (cp_explicit_err2 X R) Or true false); [intros; reflexivity | exact Hj].
  - apply (s_loop_sound _ _ (cp_explicit_err2 X R) Or true false); [intros; reflexivity | now left | lia].
Qed.
End Compose.

(* ---- round 7: randomised_parafac's gating.  As soon as the error is recomputed in every iteration in which it is recorded or handed
   to the callback, every recorded value and every (iterate, value) pair handed to the callback is the error of the iterate of its
   iteration, for every oracle of updates / callback stops / convergence stops; the returned iterate is the last one. *)
Section PRand.
Variables (St E : Type) (err : St -> E) (Or : roracle St E) (compute record cb : bool).
Hypothesis Hrec : record = true -> compute = true.
Hypothesis Hcb : cb = true -> compute = true.
Theorem r_loop_values_true : forall n it cur e0 errs cbs,
  let r := r_loop St E err Or compute record cb n it cur e0 errs cbs in
  let sts := r_states St E err Or compute record cb n it cur e0 errs in
  snd (fst r) = errs ++ (if record then map err sts else []) /\
  snd r = cbs ++ (if cb then map (fun s => (s, err s)) sts else []) /\
  fst (fst r) = last sts cur.
Proof.
  induction n as [|n IH]; intros it cur e0 errs cbs; cbn [r_loop r_states].
  - destruct record, cb; cbn; rewrite ?app_nil_r; auto.
  - set (st := r_update Or it cur).
    set (e := if compute then err st else e0).
    assert (He : record = true \/ cb = true -> e = err st).
    { intros [H | H]; unfold e; [rewrite (Hrec H) | rewrite (Hcb H)]; reflexivity. }
    set (errs' := if record then errs ++ [e] else errs).
    set (cbs' := if cb then cbs ++ [(st, e)] else cbs).
    assert (Herrs : errs' = errs ++ (if record then [err st] else [])).
    { unfold errs'. destruct record eqn:Er; [now rewrite (He (or_introl eq_refl)) | now rewrite app_nil_r]. }
    assert (Hcbs : cbs' = cbs ++ (if cb then [(st, err st)] else [])).
    { unfold cbs'. destruct cb eqn:Ec; [now rewrite (He (or_intror eq_refl)) | now rewrite app_nil_r]. }
    destruct (cb && r_cb_stop Or it) eqn:E1; [|destruct (record && r_conv_stop Or it errs') eqn:E2].
    + cbn [fst snd map last]. rewrite Herrs, Hcbs. destruct record, cb; cbn; auto.
    + cbn [fst snd map last]. rewrite Herrs, Hcbs. destruct record, cb; cbn; auto.
    + destruct (IH (S it) st e errs' cbs') as (H1 & H2 & H3). cbv zeta in H1, H2, H3.
      split; [|split].
      * rewrite H1, Herrs, <- app_assoc. destruct record; cbn; rewrite ?app_nil_r; reflexivity.
      * rewrite H2, Hcbs, <- app_assoc. destruct cb; cbn; rewrite ?app_nil_r; reflexivity.
      * rewrite H3. destruct (r_states St E err Or compute record cb n (S it) st e errs') as [|a l]; [reflexivity|].
        change (last (a :: l) st = last (a :: l) cur). apply last_cons_indep.
Qed.
End PRand.
(* the gating matters: with the error computed only when it is recorded (compute = record = false, callback on) every in-loop callback
   receives the value computed before the loop *)
Definition toy_r : roracle nat nat := mkR nat nat (fun _ st => S st) (fun _ => false) (fun _ _ => false).
Lemma r_loop_stale_gate_refuted :
  snd (r_loop nat nat (fun st => st) toy_r false false true 3 0 0 0 [] []) = [(1, 0); (2, 0); (3, 0)] /\
  snd (r_loop nat nat (fun st => st) toy_r true false true 3 0 0 0 [] []) = [(1, 1); (2, 2); (3, 3)].
Proof. vm_compute. split; reflexivity. Qed.
