(* C06 -- loops with one explicit residual per iteration (CMTF, randomised CP, non-negative Tucker variants, HOOI):
   which iterate the last recorded value belongs to, for every oracle. *)
From Coq Require Import List Arith Lia Bool.
From TLV Require Import Model.Errors.
Import ListNotations.

Section SL.
Variables (St E : Type) (err : St -> E) (Or : soracle St) (rbc normalize : bool).
Definition s_last_ok (r : St * list E) : Prop := exists es, snd r = es ++ [err (fst r)].
(* the normalisation applied after the error was recorded keeps the error (it keeps the represented tensor) *)
Hypothesis Hnorm : forall st, err (s_norm Or st) = err st.
(* either the value is recorded before the callback may stop the run, or the callback never stops it *)
Hypothesis Hcase : rbc = true \/ (forall it, s_cb_stop Or it = false).

Lemma s_loop_ok : forall n it cur errs, (n = 0 -> s_last_ok (cur, errs)) -> s_last_ok (s_loop err Or rbc normalize n it cur errs).
Proof.
  induction n as [|n IH]; intros it cur errs H0; [now apply H0|]. cbn [s_loop].
  set (st := s_update Or it cur). set (stN := if normalize then s_norm Or st else st).
  assert (HN : err stN = err st) by (unfold stN; destruct normalize; [apply Hnorm | reflexivity]).
  assert (Hok : s_last_ok (stN, errs ++ [err st])) by (exists errs; cbn; now rewrite HN).
  destruct (s_cb_stop Or it) eqn:Hcb.
  - destruct Hcase as [-> | Hn]; [exact Hok | rewrite Hn in Hcb; discriminate].
  - destruct (s_stop Or it); [exact Hok|]. apply IH. intros _. exact Hok.
Qed.
Theorem s_loop_sound n init : 0 < n -> s_last_ok (s_loop err Or rbc normalize n 0 init []).
Proof. intros Hn. apply s_loop_ok. intros ->. inversion Hn. Qed.
End SL.

(* randomised_parafac before fix 28121fa (value appended AFTER the callback): a callback stopping the run in iteration 1 left the
   error of the iterate of iteration 0 as the last entry of the returned list *)
Definition toy_s : soracle nat := mkS (fun _ st => S st) (fun _ => false) (fun it => Nat.eqb it 1) (fun st => st).
Theorem s_loop_callback_stop_refuted :
  exists (Or : soracle nat) (n : nat) (init : nat), 0 < n /\ ~ s_last_ok nat nat (fun st => st) (s_loop (fun st : nat => st) Or false true n 0 init []).
Proof.
  exists toy_s, 5, 0. split; [lia|]. vm_compute. intros [es H].
  apply (f_equal (@rev nat)) in H. rewrite rev_unit in H. simpl in H. discriminate.
Qed.
Example s_loop_nonvacuous :
  s_loop (fun st : nat => st) toy_s true true 5 0 0 [] = (2, [1; 2]) /\ s_loop (fun st : nat => st) toy_s false true 5 0 0 [] = (2, [1]).
Proof. vm_compute. split; reflexivity. Qed.

(* ---- round 5: EVERY entry of the returned list, not only the last one.  Entry j of the list returned by a run of n iterations is
   the error of the iterate RETURNED by the run cut after j+1 iterations (same oracle, same start): every recorded value is the
   error of the iterate of its iteration.  Holds for both orderings of record / callback and for every stop pattern (a stop only
   shortens the list); the Python predicate C06_list_prefix_consistent tests this statement on real runs. *)
Section SLall.
Variables (St E : Type) (err : St -> E) (Or : soracle St) (rbc normalize : bool).
Hypothesis Hnorm : forall st, err (s_norm Or st) = err st.

Lemma s_loop_extends : forall n it cur errs, exists tl, snd (s_loop err Or rbc normalize n it cur errs) = errs ++ tl.
Proof.
  induction n as [|n IH]; intros it cur errs; cbn [s_loop]; [exists []; cbn; now rewrite app_nil_r|].
  destruct (s_cb_stop Or it).
  - destruct rbc; cbn; [eexists; reflexivity | exists []; now rewrite app_nil_r].
  - destruct (s_stop Or it); [cbn; eexists; reflexivity|].
    destruct (IH (S it) (if normalize then s_norm Or (s_update Or it cur) else s_update Or it cur) (errs ++ [err (s_update Or it cur)])) as [tl Htl].
    rewrite Htl, <- app_assoc. eexists; reflexivity.
Qed.

Lemma s_loop_entry : forall n it cur errs j, length errs <= j -> j < length (snd (s_loop err Or rbc normalize n it cur errs)) ->
  nth_error (snd (s_loop err Or rbc normalize n it cur errs)) j
  = Some (err (fst (s_loop err Or rbc normalize (S j - length errs) it cur errs))).
Proof.
  induction n as [|n IH]; intros it cur errs j Hlo Hhi; [cbn in Hhi; lia|].
  replace (S j - length errs) with (S (j - length errs)) by lia.
  cbn [s_loop] in *.
  set (st := s_update Or it cur) in *. set (stN := if normalize then s_norm Or st else st) in *.
  assert (HN : err stN = err st) by (unfold stN; destruct normalize; [apply Hnorm | reflexivity]).
  destruct (s_cb_stop Or it).
  - destruct rbc; cbn [fst snd] in *; [|lia].
    rewrite app_length in Hhi; cbn in Hhi. assert (j = length errs) by lia; subst j.
    rewrite nth_error_app2, Nat.sub_diag by lia. cbn. now rewrite HN.
  - destruct (s_stop Or it).
    + cbn [fst snd] in *. rewrite app_length in Hhi; cbn in Hhi. assert (j = length errs) by lia; subst j.
      rewrite nth_error_app2, Nat.sub_diag by lia. cbn. now rewrite HN.
    + destruct (Nat.eq_dec j (length errs)) as [-> | Hne].
      * rewrite Nat.sub_diag. cbn [s_loop fst].
        destruct (s_loop_extends n (S it) stN (errs ++ [err st])) as [tl Htl]. rewrite Htl, <- app_assoc.
        rewrite nth_error_app2, Nat.sub_diag by lia. cbn. now rewrite HN.
      * assert (Hlo' : length (errs ++ [err st]) <= j) by (rewrite app_length; cbn [length]; lia).
        rewrite (IH (S it) stN (errs ++ [err st]) j Hlo' Hhi).
        rewrite app_length. cbn [length]. replace (S j - (length errs + 1)) with (j - length errs) by lia. reflexivity.
Qed.

Theorem s_loop_every_entry n init j : j < length (snd (s_loop err Or rbc normalize n 0 init [])) ->
  nth_error (snd (s_loop err Or rbc normalize n 0 init [])) j = Some (err (fst (s_loop err Or rbc normalize (S j) 0 init []))).
Proof. intros H. rewrite (s_loop_entry n 0 init [] j); [now rewrite Nat.sub_0_r | cbn; lia | exact H]. Qed.
End SLall.

(* toy_s (callback stop in iteration 1), 5 iterations allowed: entries 0 and 1 are the errors of the 1-run and the 2-run *)
Example s_loop_every_entry_nonvacuous :
  snd (s_loop (fun st : nat => st) toy_s true true 5 0 0 []) = [fst (s_loop (fun st : nat => st) toy_s true true 1 0 0 []);
                                                               fst (s_loop (fun st : nat => st) toy_s true true 2 0 0 [])].
Proof. vm_compute. reflexivity. Qed.
