(* C06 -- cp_normalize, transcribed over the reals, IS a rescaling in the sense of Model/Errors.v (also when a column is zero):
   the normalisation hypothesis of the composed loop theorem is discharged for the real normalisation. *)
From Coq Require Import List Arith Lia Bool Reals Lra.
From TLV Require Import Base.Shape Base.PyList Base.Tensor Base.BigSum Base.Ops Model.Errors Model.ErrorsR
     Proofs.ErrorsProofs Proofs.ErrorsSkeleton Proofs.ErrorsSkeletonCP Proofs.ErrorsReal.
Import ListNotations.
Local Open Scope R_scope.

Lemma Fsum_zero_terms n (f : nat -> R) : (forall i, (i < n)%nat -> 0 <= f i) -> Fsum Rops n f = 0 -> forall i, (i < n)%nat -> f i = 0.
Proof.
  induction n; intros Hp Hs i Hi; [lia|].
  assert (H1 : 0 <= Fsum Rops n f) by (apply Fsum_nonneg; intros; apply Hp; lia).
  assert (H2 : 0 <= f n) by (apply Hp; lia).
  assert (Hs' : Fsum Rops n f + f n = 0) by exact Hs.
  destruct (Nat.eq_dec i n) as [-> | Hne]; [lra|]. apply IHn; [intros; apply Hp; lia | lra | lia].
Qed.

Lemma colnorm_scales s st k r i : (i < nth k s 0)%nat ->
  st k i r = colnorm s st k r * (st k i r / nonzero_scale (colnorm s st k r)).
Proof.
  intros Hi. unfold nonzero_scale. destruct (Req_EM_T (colnorm s st k r) 0) as [H0 | Hn].
  - rewrite H0. unfold colnorm in H0.
    assert (Hp : forall j, (j < nth k s 0)%nat -> 0 <= st k j r * st k j r) by (intros; nra).
    apply sqrt_eq_0 in H0; [|apply Fsum_nonneg; exact Hp].
    pose proof (Fsum_zero_terms _ _ Hp H0 i Hi) as Hz. assert (st k i r = 0) by nra. lra.
  - field. exact Hn.
Qed.

Lemma scaled_seq (f f' : nat -> nat -> R) (d : nat -> R) : forall dims a,
  (forall j i, (j < length dims)%nat -> (i < nth j dims 0)%nat -> f (a + j)%nat i = d (a + j)%nat * f' (a + j)%nat i) ->
  scaled Rops dims (map f (seq a (length dims))) (map f' (seq a (length dims))) (map d (seq a (length dims))).
Proof.
  induction dims as [|n dims IH]; intros a H; cbn; [exact I|]. split.
  - intros i Hi. specialize (H 0%nat i). rewrite Nat.add_0_r in H. apply H; cbn; [lia | exact Hi].
  - apply IH. intros j i Hj Hi. specialize (H (S j) i). rewrite Nat.add_succ_r in H. apply H; cbn; [lia | exact Hi].
Qed.

Theorem cp_normalize_is_rescaling (s : list nat) (Rk : nat) (st : blocks (@blk R)) :
  rescaling Rops s Rk st (cp_normalize_R s st).
Proof.
  exists (fun r => map (fun k => colnorm s st k r) (seq 0 (length s))). split; intros r _.
  - unfold cols_of. apply (scaled_seq (fun k i => st k i r) (fun k i => cp_normalize_R s st k i r) (fun k => colnorm s st k r) s 0%nat).
    intros j i Hj Hi. cbn [Nat.add]. unfold cp_normalize_R. destruct (Nat.ltb_spec j (length s)); [|lia].
    now apply colnorm_scales.
  - unfold w_of, cp_normalize_R. rewrite Nat.ltb_irrefl, Nat.eqb_refl. reflexivity.
Qed.

(* the composed loop theorem with the REAL normalisation: no hypothesis on the normalisation is left *)
Theorem cp_loop_reports_true_errors_R (s : list nat) (X : list nat -> R) (Rk : nat) (wm : bool) (Orc : oracle (@blk R)) (C : config) :
  (forall st, normalized Orc st = cp_normalize_R s st) ->
  well_formed C -> (last (modes C) 0 < length s)%nat ->
  forall (n : nat) (init : blocks blk),
  let l := run (cp_fast Rops s X Rk wm) (cp_err2 Rops s X Rk) Orc C n init in
  Forall (good_event blk R R (cp_err2 Rops s X Rk) (fun e => e)) (trace l) /\
  last_report_ok blk R R (cp_err2 Rops s X Rk) (fun e => e) l /\
  last (trace l) EBreak = EReturn (cur l).
Proof.
  intros Hn WF Hl n init. apply (cp_loop_reports_true_errors Rops Rth s X Rk wm Orc C); auto.
  intros st. rewrite Hn. apply cp_normalize_is_rescaling.
Qed.

(* the transcription computes: a column (3, 4) has norm 5 *)
Example colnorm_3_4 : colnorm [2%nat] (fun _ i _ => match i with 0%nat => 3 | _ => 4 end) 0 0 = 5.
Proof.
  unfold colnorm, Fsum. simpl. replace (0 + 3 * 3 + 4 * 4) with (5 * 5) by ring. apply sqrt_square. lra.
Qed.
