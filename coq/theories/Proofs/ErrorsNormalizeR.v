(* C06 -- cp_normalize, transcribed over the reals, IS a rescaling in the sense of Model/Errors.v (also when a column is zero):
   the normalisation hypothesis of the composed loop theorem is discharged for the real normalisation. *)
From Coq Require Import List Arith Lia Bool Reals Lra.
From TLV Require Import Base.Shape Base.PyList Base.Tensor Base.BigSum Base.Ops Model.Errors Model.ErrorsR
     Proofs.ErrorsProofs Proofs.ErrorsSkeleton Proofs.ErrorsSkeletonCP Proofs.ErrorsReal Proofs.ErrorsLoops.
Import ListNotations.
Local Open Scope R_scope.

Lemma Fsum_zero_terms n (f : nat -> R) : (forall i, (i < n)%nat -> 0 <= f i) -> Fsum Rops n f = 0 -> forall i, (i < n)%nat -> f i = 0.
Proof.
  induction n; intros Hp Hs i Hi; [lia|].
  assert (H1 : 0 <= Fsum Rops n f) by (apply Fsum_nonneg; intros; apply Hp; lia).
  assert (H2 : 0 <= f n) by (apply Hp; lia).
  assert (Hs' : Fsum Rops n f + f n = 0) by exact Hs.
  destruct (Nat.eq_dec i n) as [-> | Hne]; [lra|]. apply IHn; [intros; apply Hp; lia | lra | lia].
Qed.

Lemma colnorm_scales s st k r i : (i < nth k s 0)%nat ->
  st k i r = colnorm s st k r * (st k i r / nonzero_scale (colnorm s st k r)).
Proof.
  intros Hi. unfold nonzero_scale. destruct (Req_EM_T (colnorm s st k r) 0) as [H0 | Hn].
  - rewrite H0. unfold colnorm in H0.
    assert (Hp : forall j, (j < nth k s 0)%nat -> 0 <= st k j r * st k j r) by (intros; nra).
    apply sqrt_eq_0 in H0; [|apply Fsum_nonneg; exact Hp].
    pose proof (Fsum_zero_terms _ _ Hp H0 i Hi) as Hz. assert (st k i r = 0) by nra. lra.
  - field. exact Hn.
Qed.

Lemma scaled_seq (f f' : nat -> nat -> R) (d : nat -> R) : forall dims a,
  (forall j i, (j < length dims)%nat -> (i < nth j dims 0)%nat -> f (a + j)%nat i = d (a + j)%nat * f' (a + j)%nat i) ->
  scaled Rops dims (map f (seq a (length dims))) (map f' (seq a (length dims))) (map d (seq a (length dims))).
Proof.
  induction dims as [|n dims IH]; intros a H; cbn; [exact I|]. split.
  - intros i Hi. specialize (H 0%nat i). rewrite Nat.add_0_r in H. apply H; cbn; [lia | exact Hi].
  - apply IH. intros j i Hj Hi. specialize (H (S j) i). rewrite Nat.add_succ_r in H. apply H; cbn; [lia | exact Hi].
Qed.

Theorem normalize_columns_is_rescaling (s : list nat) (Rk : nat) (st : blocks (@blk R)) :
  rescaling Rops s Rk st (normalize_columns s st).
Proof.
  exists (fun r => map (fun k => colnorm s st k r) (seq 0 (length s))). split; intros r _.
  - unfold cols_of. apply (scaled_seq (fun k i => st k i r) (fun k i => normalize_columns s st k i r) (fun k => colnorm s st k r) s 0%nat).
    intros j i Hj Hi. cbn [Nat.add]. unfold normalize_columns. destruct (Nat.ltb_spec j (length s)); [|lia].
    now apply colnorm_scales.
  - unfold w_of, normalize_columns. rewrite Nat.ltb_irrefl, Nat.eqb_refl. reflexivity.
Qed.

(* the absorption step: factor 0 takes the weights, the weights become ones; every entry of the represented tensor is unchanged
   (also for zero or negative weights, where this step is NOT a rescaling in the sense of Model/Errors.v) *)
Lemma absorb_weights_entry (s : list nat) (Rk : nat) (st : blocks (@blk R)) idx : (0 < length s)%nat -> inb s idx ->
  cp_entry Rops Rk (w_of s (absorb_weights s st)) (cols_of s (absorb_weights s st)) idx
  = cp_entry Rops Rk (w_of s st) (cols_of s st) idx.
Proof.
  intros Hs Hin. destruct s as [|n0 s']; [simpl in Hs; lia|]. destruct idx as [|i0 idx']; [simpl in Hin; tauto|].
  unfold cp_entry. apply S_ext; intros r _. unfold w_of, cols_of. cbn [length seq map].
  unfold absorb_weights at 1. cbn [length]. rewrite Nat.eqb_refl. cbn [Nat.eqb].
  cbn [prodl].
  assert (Hrest : map (fun k i => absorb_weights (n0 :: s') st k i r) (seq 1 (length s')) = map (fun k i => st k i r) (seq 1 (length s'))).
  { apply map_ext_in. intros k Hk. apply in_seq in Hk. unfold absorb_weights. cbn [length].
    destruct (Nat.eqb_spec k 0); [lia|]. destruct (Nat.eqb_spec k (S (length s'))); [lia|]. reflexivity. }
  rewrite Hrest. unfold absorb_weights. cbn [length Nat.eqb]. simpl. ring.
Qed.

Theorem cp_normalize_preserves_error (s : list nat) (X : list nat -> R) (Rk : nat) (st : blocks (@blk R)) : (0 < length s)%nat ->
  cp_err2 Rops s X Rk (cp_normalize_R s st) = cp_err2 Rops s X Rk st.
Proof.
  intros Hs. unfold cp_normalize_R.
  rewrite (rescaling_err2 Rops Rth s X Rk _ _ (normalize_columns_is_rescaling s Rk (absorb_weights s st))).
  unfold cp_err2, err2_true, dist2. apply SI_ext; intros idx Hin. now rewrite absorb_weights_entry.
Qed.

(* the composed loop theorem with the REAL normalisation: no hypothesis on the normalisation is left *)
Theorem cp_loop_reports_true_errors_R (s : list nat) (X : list nat -> R) (Rk : nat) (wm : bool) (Orc : oracle (@blk R)) (C : config) :
  (forall st, normalized Orc st = cp_normalize_R s st) ->
  well_formed C -> (last (modes C) 0 < length s)%nat ->
  forall (n : nat) (init : blocks blk),
  let l := run (cp_fast Rops s X Rk wm) (cp_err2 Rops s X Rk) Orc C n init in
  Forall (good_event blk R R (cp_err2 Rops s X Rk) (fun e => e)) (trace l) /\
  last_report_ok blk R R (cp_err2 Rops s X Rk) (fun e => e) l /\
  last (trace l) EBreak = EReturn (cur l).
Proof.
  intros Hn WF Hl n init. apply (cp_loop_reports_true_errors_gen Rops Rth s X Rk wm Orc C); auto.
  intros st. rewrite Hn. apply cp_normalize_preserves_error. lia.
Qed.

(* the absorption step matters: incoming weight -2, factor columns (3, 4) and (1): the code returns weight 10, factor-0 column
   (-3/5, -4/5); dividing each factor by its own norm and multiplying the OLD weight by the norms would give weight -10 *)
Example cp_normalize_negative_weight :
  let st : blocks (@blk R) := fun k i _ => match k with 0%nat => (match i with 0%nat => 3 | _ => 4 end) | 1%nat => 1 | _ => -2 end in
  w_of [2%nat; 1%nat] (absorb_weights [2%nat; 1%nat] st) 0%nat = 1 /\
  absorb_weights [2%nat; 1%nat] st 0%nat 0%nat 0%nat = -6 /\ absorb_weights [2%nat; 1%nat] st 0%nat 1%nat 0%nat = -8.
Proof. cbv zeta. unfold w_of, absorb_weights. cbn. repeat split; lra. Qed.

(* the transcription computes: a column (3, 4) has norm 5 *)
Example colnorm_3_4 : colnorm [2%nat] (fun _ i _ => match i with 0%nat => 3 | _ => 4 end) 0 0 = 5.
Proof.
  unfold colnorm, Fsum. simpl. replace (0 + 3 * 3 + 4 * 4) with (5 * 5) by ring. apply sqrt_square. lra.
Qed.

(* ---------------------------------------------------------------- round 5: the EXECUTED model of cp_normalize (Model/Errors.v:
   cp_normalize_F, column norms handed in as an answer tape) is the transcription over the reals as soon as the tape holds
   non-negative numbers whose squares are the column sums of squares - exactly what Corr/C06.v:KNormalize validates (up to
   rounding) before it compares the model's output with the implementation's. *)
From Coq Require Import FunctionalExtensionality.

Lemma nonzero_scale_F_R d : nonzero_scale_F Rops d = nonzero_scale d.
Proof.
  unfold nonzero_scale_F, nonzero_scale, feqb. cbn. destruct (Req_EM_T d 0) as [-> | Hn].
  - rewrite (proj2 (Rleb_true 0 0)) by lra. reflexivity.
  - destruct (Rleb d 0) eqn:H1; destruct (Rleb 0 d) eqn:H2; cbn; try reflexivity.
    apply Rleb_true in H1. apply Rleb_true in H2. exfalso; apply Hn; lra.
Qed.

Lemma colsq_nonneg s (st : blocks (@blk R)) k r : 0 <= colsq Rops s st k r.
Proof. unfold colsq. apply Fsum_nonneg. intros i _. cbn. nra. Qed.

Lemma colnorm_sqrt_colsq s st k r : colnorm s st k r = sqrt (colsq Rops s st k r).
Proof. reflexivity. Qed.

Definition good_tape (s : list nat) (st : blocks (@blk R)) (sc : nat -> nat -> R) : Prop :=
  forall k r, (k < length s)%nat -> 0 <= sc k r /\ sc k r * sc k r = colsq Rops s (absorb_weights_F Rops s st) k r.

Lemma colnorm_unique s st k r c : 0 <= c -> c * c = colsq Rops s st k r -> c = colnorm s st k r.
Proof. intros Hc Heq. rewrite colnorm_sqrt_colsq, <- Heq. symmetry. now apply sqrt_square. Qed.

(* the real column norms ARE a good tape (the hypothesis is satisfiable for every state) *)
Lemma colnorm_good_tape s st : good_tape s st (colnorm s (absorb_weights s st)).
Proof.
  intros k r _. rewrite colnorm_sqrt_colsq. split; [apply sqrt_pos|].
  change (absorb_weights_F Rops s st) with (absorb_weights s st). apply sqrt_sqrt, colsq_nonneg.
Qed.

Theorem cp_normalize_F_is_cp_normalize_R s st sc : good_tape s st sc ->
  forall k i r, cp_normalize_F Rops s sc st k i r = cp_normalize_R s st k i r.
Proof.
  intros HT k i r. unfold cp_normalize_F, cp_normalize_R, normalize_columns_F, normalize_columns.
  change (absorb_weights_F Rops s st) with (absorb_weights s st) in *.
  destruct (Nat.ltb_spec k (length s)) as [Hk | Hk].
  - rewrite nonzero_scale_F_R. destruct (HT k r Hk) as [H0 H1].
    rewrite (colnorm_unique s (absorb_weights s st) k r (sc k r) H0 H1). reflexivity.
  - destruct (k =? length s); [|reflexivity]. cbn [fmul Rops]. f_equal. f_equal.
    apply map_ext_in. intros k' Hk'. apply in_seq in Hk'. destruct (HT k' r) as [H0 H1]; [lia|].
    now apply colnorm_unique.
Qed.

(* hence the executed model, run with ANY validated tape, keeps the squared residual of the represented CP tensor *)
Theorem cp_normalize_tape_preserves_error (s : list nat) (X : list nat -> R) (Rk : nat) (st : blocks (@blk R)) (sc : nat -> nat -> R) :
  (0 < length s)%nat -> good_tape s st sc ->
  cp_err2 Rops s X Rk (cp_normalize_F Rops s sc st) = cp_err2 Rops s X Rk st.
Proof.
  intros Hs HT.
  replace (cp_normalize_F Rops s sc st) with (cp_normalize_R s st).
  - now apply cp_normalize_preserves_error.
  - extensionality k. extensionality i. extensionality r. symmetry. now apply cp_normalize_F_is_cp_normalize_R.
Qed.

(* ---------------------------------------------------------------- round 5: tucker_normalize (executed model, validated tape) keeps every
   entry of the represented Tucker tensor: zero columns included (their scale is replaced by 1 and the core slice becomes 0) *)
Definition good_tucker_tape (s : list nat) (st : blocks (@blk R)) (sc : nat -> nat -> R) : Prop :=
  forall k a, (k < length s)%nat -> 0 <= sc k a /\ sc k a * sc k a = colsq Rops s st k a.

Lemma tscaled_seq (f f' : nat -> nat -> nat -> R) (d : nat -> nat -> R) : forall s rs a0, length rs = length s ->
  (forall j i a, (j < length s)%nat -> (i < nth j s 0)%nat -> f (a0 + j)%nat i a = d (a0 + j)%nat a * f' (a0 + j)%nat i a) ->
  tscaled Rops s rs (map f (seq a0 (length s))) (map f' (seq a0 (length s))) (map d (seq a0 (length s))).
Proof.
  induction s as [|n s IH]; intros [|r rs] a0 HL H; cbn in HL; try discriminate; cbn; [exact I|]. split.
  - intros i a Hi _. specialize (H 0%nat i a). rewrite Nat.add_0_r in H. apply H; cbn; [lia | exact Hi].
  - apply IH; [lia|]. intros j i a Hj Hi. specialize (H (S j) i a). rewrite Nat.add_succ_r in H. apply H; cbn; [lia | exact Hi].
Qed.

Theorem tucker_normalize_tape_preserves_tensor (s rs : list nat) (G : list nat -> R) (st : blocks (@blk R)) (sc : nat -> nat -> R) :
  length rs = length s -> good_tucker_tape s st sc ->
  forall idx, inb s idx ->
  tucker_entry Rops rs (tucker_normalize_core Rops (length s) sc G) (tucker_us (length s) (tucker_normalize_factors Rops sc st)) idx
  = tucker_entry Rops rs G (tucker_us (length s) st) idx.
Proof.
  intros HL HT idx Hi. unfold tucker_us.
  apply (tucker_entry_rescale Rops Rth s rs G _ _ _ (map (fun k a => sc k a) (seq 0 (length s)))); [| reflexivity | exact Hi].
  apply (tscaled_seq (fun k i a => st k i a) (fun k i a => tucker_normalize_factors Rops sc st k i a) (fun k a => sc k a) s rs 0%nat HL).
  intros j i a Hj Hij. cbn [Nat.add]. unfold tucker_normalize_factors. rewrite nonzero_scale_F_R.
  destruct (HT j a Hj) as [H0 H1]. rewrite (colnorm_unique s st j a (sc j a) H0 H1). now apply colnorm_scales.
Qed.

Corollary tucker_normalize_tape_preserves_error (s rs : list nat) (X G : list nat -> R) (st : blocks (@blk R)) (sc : nat -> nat -> R) :
  length rs = length s -> good_tucker_tape s st sc ->
  dist2 Rops s X (tucker_entry Rops rs (tucker_normalize_core Rops (length s) sc G) (tucker_us (length s) (tucker_normalize_factors Rops sc st)))
  = dist2 Rops s X (tucker_entry Rops rs G (tucker_us (length s) st)).
Proof.
  intros HL HT. unfold dist2. apply SI_ext; intros idx Hi. now rewrite (tucker_normalize_tape_preserves_tensor s rs G st sc HL HT idx Hi).
Qed.

Lemma colnorm_good_tucker_tape s st : good_tucker_tape s st (colnorm s st).
Proof. intros k a _. rewrite colnorm_sqrt_colsq. split; [apply sqrt_pos | apply sqrt_sqrt, colsq_nonneg]. Qed.

(* ---------------------------------------------------------------- round 5: the one-value-per-iteration loop with the REAL tucker_normalize
   (non_negative_tucker, non_negative_tucker_hals with normalize_factors=True: explicit residual recorded, then the iterate normalised, also on
   the exits): the iterate is (core, factor blocks); no hypothesis about the normalisation is left *)
Definition tk_state := ((list nat -> R) * blocks (@blk R))%type.
Definition tk_err2 (s rs : list nat) (X : list nat -> R) (st : tk_state) : R :=
  dist2 Rops s X (tucker_entry Rops rs (fst st) (tucker_us (length s) (snd st))).
Definition tucker_normalize_R (s : list nat) (st : tk_state) : tk_state :=
  (tucker_normalize_core Rops (length s) (colnorm s (snd st)) (fst st), tucker_normalize_factors Rops (colnorm s (snd st)) (snd st)).
Lemma tucker_normalize_R_keeps_error s rs X st : length rs = length s -> tk_err2 s rs X (tucker_normalize_R s st) = tk_err2 s rs X st.
Proof.
  intros HL. destruct st as [G bl]. unfold tk_err2, tucker_normalize_R. cbn [fst snd].
  apply tucker_normalize_tape_preserves_error; [exact HL | apply colnorm_good_tucker_tape].
Qed.
Theorem tucker_loop_reports_true_errors_R (s rs : list nat) (X : list nat -> R)
        (upd : nat -> tk_state -> tk_state) (stop cb_stop : nat -> bool) (rbc normalize : bool) :
  length rs = length s ->
  let Or := mkS upd stop cb_stop (tucker_normalize_R s) in
  forall n init j, (j < length (snd (s_loop (tk_err2 s rs X) Or rbc normalize n 0 init [])))%nat ->
  nth_error (snd (s_loop (tk_err2 s rs X) Or rbc normalize n 0 init [])) j
  = Some (tk_err2 s rs X (fst (s_loop (tk_err2 s rs X) Or rbc normalize (S j) 0 init []))).
Proof.
  intros HL Or n init j Hj. apply (s_loop_every_entry _ _ (tk_err2 s rs X) Or rbc normalize); [|exact Hj].
  intros st. cbn [s_norm Or]. now apply tucker_normalize_R_keeps_error.
Qed.
