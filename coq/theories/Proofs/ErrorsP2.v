(* C06 -- PARAFAC2: _parafac2_reconstruction_error's slice-wise expansion equals the squared residual
   sum_i || X_i - (P_i B diag(A_i)) C^T ||^2 recomputed from scratch; both ways of forming B_i^T X_i
   (from the slice, from the projected slice) agree.  Every commutative ring, any number of slices,
   slices of different heights, any rank; the projections need NOT be orthonormal for this identity.
   + the PARAFAC2 loop skeleton with Bro's line search: which iterate the last reported value belongs to. *)
From Coq Require Import List Arith Lia Bool Ring ZArith.
From TLV Require Import Base.Shape Base.PyList Base.Tensor Base.BigSum Base.Ops Model.Errors Proofs.ErrorsProofs.
Import ListNotations.


Section PP2.
Context {F : Type} (Op : fops F).
Hypothesis Rth : ring_theory (f0 Op) (f1 Op) (fadd Op) (fmul Op) (fsub Op) (fopp Op) (@eq F).
Add Ring Fr3 : Rth.
Local Notation "a +f b" := (fadd Op a b) (at level 50, left associativity).
Local Notation "a -f b" := (fsub Op a b) (at level 50, left associativity).
Local Notation "a *f b" := (fmul Op a b) (at level 40, left associativity).
Local Notation S_ := (Fsum Op).
Variables (I K Rk : nat) (J : nat -> nat) (X P : nat -> nat -> nat -> F) (A Bm C : nat -> nat -> F).

Lemma S_sub n f g : S_ n (fun i => f i -f g i) = S_ n f -f S_ n g.
Proof.
  rewrite (S_ext Op n _ (fun i => f i +f (fopp Op (f1 Op)) *f g i)) by (intros; ring).
  rewrite (S_add Op Rth), (S_scale_l Op Rth). ring.
Qed.

(* one slice:  sum_jk (x - sum_r b_jr c_kr)^2 = sum x^2 - 2 sum_r sum_k (sum_j b_jr x_jk) c_kr + sum_rt (sum_j b b)(sum_k c c) *)
Lemma slice_expansion (Jn : nat) (x : nat -> nat -> F) (b : nat -> nat -> F) :
  S_ Jn (fun j => S_ K (fun k => sq Op (x j k -f S_ Rk (fun r => b j r *f C k r)))) =
  (S_ Jn (fun j => S_ K (fun k => sq Op (x j k)))
   -f two Op *f S_ Rk (fun r => S_ K (fun k => S_ Jn (fun j => b j r *f x j k) *f C k r)))
  +f S_ Rk (fun r => S_ Rk (fun t => S_ Jn (fun j => b j r *f b j t) *f S_ K (fun k => C k r *f C k t))).
Proof.
  set (m := fun j k => S_ Rk (fun r => b j r *f C k r)).
  (* pointwise expansion *)
  rewrite (S_ext Op Jn _ (fun j => (S_ K (fun k => sq Op (x j k)) -f two Op *f S_ K (fun k => x j k *f m j k))
                                      +f S_ K (fun k => m j k *f m j k))).
  2:{ intros j _. rewrite <- (S_scale_l Op Rth), <- S_sub, <- (S_add Op Rth). apply S_ext; intros k _.
      unfold sq, two. fold (m j k). ring. }
  rewrite (S_add Op Rth), S_sub, (S_scale_l Op Rth). f_equal; [f_equal; f_equal|].
  - (* inner product *)
    rewrite (S_ext Op Jn _ (fun j => S_ Rk (fun r => S_ K (fun k => (b j r *f x j k) *f C k r)))).
    2:{ intros j _. rewrite (S_exchange Op Rth). apply S_ext; intros k _. unfold m.
        rewrite <- (S_scale_l Op Rth). apply S_ext; intros r _. ring. }
    rewrite (S_exchange Op Rth). apply S_ext; intros r _.
    rewrite (S_exchange Op Rth). apply S_ext; intros k _.
    now rewrite (S_scale_r Op Rth).
  - (* norm of the model slice *)
    rewrite (S_ext Op Jn _ (fun j => S_ Rk (fun r => S_ Rk (fun t => (b j r *f b j t) *f S_ K (fun k => C k r *f C k t))))).
    2:{ intros j _.
        rewrite (S_ext Op K _ (fun k => S_ Rk (fun r => S_ Rk (fun t => (b j r *f C k r) *f (b j t *f C k t)))))
          by (intros k _; unfold m; apply (S_prod Op Rth)).
        rewrite (S_exchange Op Rth). apply S_ext; intros r _.
        rewrite (S_exchange Op Rth). apply S_ext; intros t _.
        rewrite <- (S_scale_l Op Rth). apply S_ext; intros k _. ring. }
    rewrite (S_exchange Op Rth). apply S_ext; intros r _.
    rewrite (S_exchange Op Rth). apply S_ext; intros t _.
    now rewrite (S_scale_r Op Rth).
Qed.

Theorem p2_err2_fast_correct :
  p2_err2_fast Op I K Rk J X P A Bm C (p2_tmp Op Rk J X P A Bm) = p2_err2_true Op I K Rk J X P A Bm C.
Proof.
  unfold p2_err2_fast, p2_err2_true, p2_normX, p2_inner, p2_ncmf, p2_slice, p2_tmp.
  rewrite (S_ext Op I _ _ (fun i _ => slice_expansion (J i) (X i) (p2_Bi Op Rk P A Bm i))).
  rewrite (S_add Op Rth), S_sub, (S_scale_l Op Rth). reflexivity.
Qed.

(* the projected-slice form of B_i^T X_i is the same matrix *)
Theorem p2_tmp_proj_correct i r k :
  p2_tmp_proj Op Rk J X P A Bm i r k = p2_tmp Op Rk J X P A Bm i r k.
Proof.
  unfold p2_tmp_proj, p2_tmp, p2_projected, p2_Bi.
  rewrite (S_ext Op Rk _ (fun q => S_ (J i) (fun j => (A i r *f Bm q r) *f (P i j q *f X i j k))))
    by (intros q _; now rewrite (S_scale_l Op Rth)).
  rewrite (S_exchange Op Rth). apply S_ext; intros j _.
  rewrite <- (S_scale_r Op Rth), <- (S_scale_r Op Rth). apply S_ext; intros q _. ring.
Qed.

Corollary p2_err2_fast_proj_correct :
  p2_err2_fast Op I K Rk J X P A Bm C (p2_tmp_proj Op Rk J X P A Bm) = p2_err2_true Op I K Rk J X P A Bm C.
Proof.
  rewrite <- p2_err2_fast_correct. unfold p2_err2_fast, p2_inner. do 3 f_equal.
  apply S_ext; intros i _. apply S_ext; intros r _. apply S_ext; intros k _. now rewrite p2_tmp_proj_correct.
Qed.
End PP2.

(* ---------------------------------------------------------------- the PARAFAC2 loop skeleton *)
Section P2S.
Variables (St E : Type) (err : St -> E) (Or : p2oracle St) (ls normalize : bool).
Hypothesis Hnorm : forall st, err (p2_norm Or st) = err st.

Lemma p2_loop_ok : forall n it cur errs,
  (n = 0 -> p2_last_ok err (cur, errs)) ->
  p2_last_ok err (p2_loop err Or ls normalize false n it cur errs).
Proof.
  induction n as [|n IH]; intros it cur errs H0; [now apply H0|]. cbn [p2_loop].
  set (line := ls && Nat.even it && (5 <? it)).
  set (upd := p2_update Or it cur).
  set (st := if line && p2_accept Or it then p2_jump Or it cur upd else upd).
  set (errs1 := if line then _ else errs).
  set (st' := if normalize then p2_norm Or st else st).
  set (errs2 := if line then errs1 else errs1 ++ [err st']).
  assert (Hst' : err st' = err st) by (unfold st'; destruct normalize; [apply Hnorm | reflexivity]).
  assert (Hok : p2_last_ok err (st', errs2)).
  { unfold p2_last_ok. cbn [fst snd]. unfold errs2, errs1. destruct line.
    - rewrite Hst'. now exists errs.
    - now exists errs. }
  destruct (p2_stop Or it); [exact Hok|]. apply IH. intros _. exact Hok.
Qed.

(* for every oracle (updates, jumps, accept / reject decisions, normalisation that keeps the error, stops), with or
   without line search and normalisation, after at least one iteration the last reported value is the error of the
   returned iterate *)
Theorem p2_skeleton_sound n init : 0 < n ->
  p2_last_ok err (p2_loop err Or ls normalize false n 0 init []).
Proof. intros Hn. apply p2_loop_ok. intros ->. inversion Hn. Qed.

(* and exactly one value per executed iteration is recorded (no stop: n values) *)
Lemma p2_loop_length : (forall it, p2_stop Or it = false) -> forall n it cur errs,
  length (snd (p2_loop err Or ls normalize false n it cur errs)) = length errs + n.
Proof.
  intros Hs. induction n as [|n IH]; intros it cur errs; cbn [p2_loop]; [cbn; lia|].
  rewrite Hs. rewrite IH. destruct (ls && Nat.even it && (5 <? it)); rewrite app_length; cbn; lia.
Qed.
End P2S.

(* ---- round 5: the normalisation inside the PARAFAC2 loop (cp_normalize of (weights, [A, B, C])) seen on the quantities the error is
   computed from - A already multiplied by the weights: the columns of B and C are rescaled and A * weights absorbs the scales.  Any such
   rescaling keeps every slice of the reconstruction, hence the residual from scratch and (by the identity) the slice-wise expansion. *)
Section P2Rescale.
Context {F : Type} (Op : fops F).
Hypothesis Rth : ring_theory (f0 Op) (f1 Op) (fadd Op) (fmul Op) (fsub Op) (fopp Op) (@eq F).
Add Ring Fr6 : Rth.
Local Notation "a *f b" := (fmul Op a b) (at level 40, left associativity).
Variables (I K Rk : nat) (J : nat -> nat) (X P : nat -> nat -> nat -> F) (A A' Bm Bm' C C' : nat -> nat -> F) (db dc : nat -> F).
Hypothesis HB : forall q r, Bm q r = db r *f Bm' q r.
Hypothesis HC : forall k r, C k r = dc r *f C' k r.
Hypothesis HA : forall i r, A' i r = A i r *f (db r *f dc r).
Lemma p2_slice_rescale i j k : p2_slice Op Rk P A' Bm' C' i j k = p2_slice Op Rk P A Bm C i j k.
Proof.
  unfold p2_slice, p2_Bi. apply S_ext; intros r _. rewrite HA, HC.
  rewrite (S_ext Op Rk (fun q => P i j q *f Bm q r) (fun q => db r *f (P i j q *f Bm' q r))) by (intros; rewrite HB; ring).
  rewrite (S_scale_l Op Rth). ring.
Qed.
Theorem p2_rescale_true : p2_err2_true Op I K Rk J X P A' Bm' C' = p2_err2_true Op I K Rk J X P A Bm C.
Proof.
  unfold p2_err2_true. apply S_ext; intros i _. apply S_ext; intros j _. apply S_ext; intros k _. now rewrite p2_slice_rescale.
Qed.
Theorem p2_rescale_fast :
  p2_err2_fast Op I K Rk J X P A' Bm' C' (p2_tmp_proj Op Rk J X P A' Bm') = p2_err2_fast Op I K Rk J X P A Bm C (p2_tmp_proj Op Rk J X P A Bm).
Proof. rewrite !(p2_err2_fast_proj_correct Op Rth). apply p2_rescale_true. Qed.
End P2Rescale.
Theorem p2_rescale_both {F} (Op : fops F) (Rth : ring_theory (f0 Op) (f1 Op) (fadd Op) (fmul Op) (fsub Op) (fopp Op) (@eq F))
  (I K Rk : nat) (J : nat -> nat) (X P : nat -> nat -> nat -> F) (A A' Bm Bm' C C' : nat -> nat -> F) (db dc : nat -> F) :
  (forall q r, Bm q r = fmul Op (db r) (Bm' q r)) -> (forall k r, C k r = fmul Op (dc r) (C' k r)) ->
  (forall i r, A' i r = fmul Op (A i r) (fmul Op (db r) (dc r))) ->
  p2_err2_true Op I K Rk J X P A' Bm' C' = p2_err2_true Op I K Rk J X P A Bm C /\
  p2_err2_fast Op I K Rk J X P A' Bm' C' (p2_tmp_proj Op Rk J X P A' Bm') = p2_err2_fast Op I K Rk J X P A Bm C (p2_tmp_proj Op Rk J X P A Bm).
Proof. intros HB HC HA. split; [eapply p2_rescale_true | eapply p2_rescale_fast]; eauto. Qed.

(* ---- round 5: the instrumented loop is the loop: erasing the events of p2_loop_tr gives p2_loop (same iterate, same list) *)
Lemma p2_loop_tr_erase {St E} (err : St -> E) (Or : p2oracle St) (ls normalize : bool) : forall n it cur errs tr,
  fst (p2_loop_tr err Or ls normalize n it cur errs tr) = p2_loop err Or ls normalize false n it cur errs.
Proof.
  induction n as [|n IH]; intros it cur errs tr; [reflexivity|]. cbn [p2_loop_tr p2_loop].
  destruct (p2_stop Or it); [reflexivity|]. apply IH.
Qed.

(* ---- round 5: EVERY entry of the returned list.  Entry j of the list returned by a PARAFAC2 run of n iterations is the error of
   the iterate RETURNED by the run cut after j+1 iterations (same oracle, same start) - line-search iterations (accepted or rejected
   jump) and ordinary ones alike; a convergence stop only shortens the list. *)
Section P2all.
Variables (St E : Type) (err : St -> E) (Or : p2oracle St) (ls normalize : bool).
Hypothesis Hnorm : forall st, err (p2_norm Or st) = err st.
(* the iterate an iteration ends with *)
Definition p2_next (it : nat) (cur : St) : St :=
  let line := ls && Nat.even it && (5 <? it) in
  let upd := p2_update Or it cur in
  let st := if line && p2_accept Or it then p2_jump Or it cur upd else upd in
  if normalize then p2_norm Or st else st.
Lemma p2_loop_step n it cur errs :
  p2_loop err Or ls normalize false (S n) it cur errs =
  if p2_stop Or it then (p2_next it cur, errs ++ [err (p2_next it cur)])
  else p2_loop err Or ls normalize false n (S it) (p2_next it cur) (errs ++ [err (p2_next it cur)]).
Proof.
  cbn [p2_loop]. unfold p2_next.
  destruct (ls && Nat.even it && (5 <? it)); cbn [andb]; destruct normalize; rewrite ?Hnorm; reflexivity.
Qed.
Lemma p2_loop_extends : forall n it cur errs, exists tl, snd (p2_loop err Or ls normalize false n it cur errs) = errs ++ tl.
Proof.
  induction n as [|n IH]; intros it cur errs; [exists []; cbn; now rewrite app_nil_r|].
  rewrite p2_loop_step. destruct (p2_stop Or it); [cbn; eexists; reflexivity|].
  destruct (IH (S it) (p2_next it cur) (errs ++ [err (p2_next it cur)])) as [tl Htl]. rewrite Htl, <- app_assoc. eexists; reflexivity.
Qed.
Lemma p2_loop_entry : forall n it cur errs j, length errs <= j -> j < length (snd (p2_loop err Or ls normalize false n it cur errs)) ->
  nth_error (snd (p2_loop err Or ls normalize false n it cur errs)) j
  = Some (err (fst (p2_loop err Or ls normalize false (S j - length errs) it cur errs))).
Proof.
  induction n as [|n IH]; intros it cur errs j Hlo Hhi; [cbn in Hhi; lia|].
  replace (S j - length errs) with (S (j - length errs)) by lia.
  rewrite !p2_loop_step in *. destruct (p2_stop Or it).
  - cbn [fst snd] in *. rewrite app_length in Hhi; cbn in Hhi. assert (j = length errs) by lia; subst j.
    rewrite nth_error_app2, Nat.sub_diag by lia. reflexivity.
  - destruct (Nat.eq_dec j (length errs)) as [-> | Hne].
    + rewrite Nat.sub_diag. cbn [p2_loop fst].
      destruct (p2_loop_extends n (S it) (p2_next it cur) (errs ++ [err (p2_next it cur)])) as [tl Htl]. rewrite Htl, <- app_assoc.
      rewrite nth_error_app2, Nat.sub_diag by lia. reflexivity.
    + assert (Hlo' : length (errs ++ [err (p2_next it cur)]) <= j) by (rewrite app_length; cbn [length]; lia).
      rewrite (IH (S it) (p2_next it cur) (errs ++ [err (p2_next it cur)]) j Hlo' Hhi).
      rewrite app_length. cbn [length]. replace (S j - (length errs + 1)) with (j - length errs) by lia. reflexivity.
Qed.
Theorem p2_loop_every_entry n init j : j < length (snd (p2_loop err Or ls normalize false n 0 init [])) ->
  nth_error (snd (p2_loop err Or ls normalize false n 0 init [])) j
  = Some (err (fst (p2_loop err Or ls normalize false (S j) 0 init []))).
Proof. intros H. rewrite (p2_loop_entry n 0 init [] j); [now rewrite Nat.sub_0_r | cbn; lia | exact H]. Qed.
End P2all.

(* the behaviour before fix 0080ddd (legacy = true) reports, after 7 iterations, the error of the iterate of iteration 6
   although it returns the iterate of iteration 7 *)
Definition toy_p2 : p2oracle nat := mkP2 (fun _ st => S st) (fun _ _ st => st + 100) (fun _ => false) (fun st => st) (fun _ => false).
Theorem p2_skeleton_legacy_refuted :
  exists (Or : p2oracle nat) (n : nat) (init : nat),
    (forall st, p2_norm Or st = st) /\ (0 < n) /\
    ~ p2_last_ok (fun st : nat => st) (p2_loop (fun st => st) Or true false true n 0 init []).
Proof.
  exists toy_p2, 7, 0. split; [reflexivity|]. split; [lia|].
  vm_compute. intros [es H]. apply (f_equal (@rev nat)) in H. rewrite rev_unit in H. simpl in H. discriminate.
Qed.
Example p2_skeleton_nonvacuous :
  p2_loop (fun st : nat => st) toy_p2 true false false 7 0 0 [] = (7, [1; 2; 3; 4; 5; 6; 7]) /\
  p2_loop (fun st : nat => st) toy_p2 true false true 7 0 0 [] = (7, [1; 2; 3; 4; 5; 6]).
Proof. vm_compute. split; reflexivity. Qed.

(* ---------------------------------------------------------------- HOOI under a mask *)
(* Before fix 587bdbd partial_tucker imputed the tensor at the START of an iteration (with the previous reconstruction) but
   kept the norm of the ORIGINAL tensor: the reported value was neither the residual w.r.t. the imputed tensor the core was
   computed from, nor the residual w.r.t. the original tensor.  Witness over Z, identity factors. *)
Definition hm_us : list (nat -> nat -> Z) := matsT Zops [mk [2;2] [1;0;0;1]%Z; mk [2;2] [1;0;0;1]%Z].
Definition hm_X : list nat -> Z := tfun Zops (mk [2;2] [1;2;3;4]%Z).
Definition hm_X' : list nat -> Z := tfun Zops (mk [2;2] [1;2;3;1]%Z).    (* last entry unobserved, imputed with 1 *)
Theorem hooi_masked_legacy_formula_refuted :
  exists (s rs : list nat) (X X' G : list nat -> Z) (us : list (nat -> nat -> Z)),
    orthonormal Zops s rs us /\ (forall j, inb rs j -> G j = project Zops s X' us j) /\
    hooi_err2 Zops s rs X G <> dist2 Zops s X' (tucker_entry Zops rs G us) /\
    hooi_err2 Zops s rs X G <> dist2 Zops s X (tucker_entry Zops rs G us).
Proof.
  exists [2;2], [2;2], hm_X, hm_X', (project Zops [2;2] hm_X' hm_us), hm_us.
  split; [|split; [reflexivity | split; vm_compute; discriminate]].
  simpl. repeat split; intros a b Ha Hb;
    repeat (destruct a as [|a]; [|try lia]); repeat (destruct b as [|b]; [|try lia]); try lia; vm_compute; reflexivity.
Qed.

(* ---------------------------------------------------------------- parafac's pre-loop callback under mask + sparsity *)
(* witness: X = [3; 1; 1; 4], L = 0, the last entry unobserved, one non-zero allowed.  error_calc imputes the tensor to [3; 1; 1; 0]
   and takes the sparse component [3; 0; 0; 0] of that residual (squared error 2); the sparse component handed to the
   callback comes from the raw residual [3; 1; 1; 4], i.e. [0; 0; 0; 4], whose squared error on the imputed tensor is 27 *)
Theorem cb0_mask_sparse_legacy_refuted :
  exists (X L m : tensor Z) (card : nat),
    fst (cb0_reported Zops X L m card) <> fst (cb0_error_of_handed Zops true X L m card).
Proof.
  exists (mk [4] [3;1;1;4]%Z), (mk [4] [0;0;0;0]%Z), (mk [4] [1;1;1;0]%Z), 1. vm_compute. discriminate.
Qed.

(* since fix 835cf01 the pair handed to the pre-loop callback is the one the error was computed for *)
Lemma cb0_consistent {F} (Op : fops F) X L m card : cb0_reported Op X L m card = cb0_error_of_handed Op false X L m card.
Proof. reflexivity. Qed.

(* ---------------------------------------------------------------- the explicit residual under a 0/1 mask *)
(* error_calc / partial_tucker under a mask: || X' - L ||^2 with X' = X*m + L*(1-m) is the squared residual on the observed
   entries only (the imputed entries contribute nothing), for every 0/1-valued mask *)
Section PMask.
Context {F : Type} (Op : fops F).
Hypothesis Rth : ring_theory (f0 Op) (f1 Op) (fadd Op) (fmul Op) (fsub Op) (fopp Op) (@eq F).
Add Ring Fr5 : Rth.
Theorem masked_residual_is_observed_residual (X m : tensor F) (L : list nat -> F) :
  (forall idx, inb (shape X) idx -> fmul Op (tfun Op m idx) (tfun Op m idx) = tfun Op m idx) ->
  fst (err_explicit Op X L None (Some m)) =
  Fsum_idx Op (shape X) (fun idx => fmul Op (tfun Op m idx) (sq Op (fsub Op (tfun Op X idx) (L idx)))).
Proof.
  intros Hm. unfold err_explicit. cbn [fst]. apply SI_ext; intros idx Hin. unfold imputed, sparse_fun, sq.
  specialize (Hm idx Hin). set (a := tfun Op m idx) in *. set (x := tfun Op X idx). set (l := L idx).
  transitivity (fmul Op (fmul Op a a) (fmul Op (fsub Op x l) (fsub Op x l))); [ring | rewrite Hm; reflexivity].
Qed.

(* ---- round 6: the CP loop under a mask.  error_calc under a mask reads the tensor it is given only through its OBSERVED entries, and the
   tensor it hands on (the data imputed with the current reconstruction) has the same observed entries as the original data for a 0/1 mask:
   so although the loop carries an imputed tensor from iteration to iteration, every value it records is the value error_calc computes
   from the ORIGINAL data for the factors of that iteration. *)
Definition agree_observed (Xc X0 m : tensor F) : Prop :=
  shape Xc = shape X0 /\ forall idx, inb (shape X0) idx -> fmul Op (tfun Op Xc idx) (tfun Op m idx) = fmul Op (tfun Op X0 idx) (tfun Op m idx).
Lemma tabulate_ext s (f g : list nat -> F) : (forall idx, inb s idx -> f idx = g idx) -> tabulate s f = tabulate s g.
Proof.
  intros H. unfold tabulate. f_equal. apply map_ext_in. intros k Hk. apply in_seq in Hk. apply H, unravel_inb. lia.
Qed.
Lemma imputed_agree Xc X0 m L idx : agree_observed Xc X0 m -> inb (shape X0) idx ->
  imputed Op (tfun Op Xc) (Some m) L idx = imputed Op (tfun Op X0) (Some m) L idx.
Proof. intros [_ H] Hin. unfold imputed. now rewrite (H idx Hin). Qed.
Theorem error_calc_mask_reads_observed_only Xc X0 m R w fs card M : agree_observed Xc X0 m ->
  error_calc_model Op Xc R w fs card (Some m) M = error_calc_model Op X0 R w fs card (Some m) M.
Proof.
  intros HA. pose proof HA as [Hsh _]. unfold error_calc_model.
  assert (HS : sparse_of Op Xc (cp_tensor_entry Op R w fs) card (Some m) = sparse_of Op X0 (cp_tensor_entry Op R w fs) card (Some m)).
  { unfold sparse_of. destruct card as [c|]; [|reflexivity]. rewrite Hsh. do 2 f_equal. apply tabulate_ext. intros idx Hin.
    now rewrite (imputed_agree Xc X0 m _ idx HA Hin). }
  rewrite HS. unfold err_explicit. rewrite Hsh. f_equal.
  - apply SI_ext; intros idx Hin. now rewrite (imputed_agree Xc X0 m _ idx HA Hin).
  - unfold normsq. apply SI_ext; intros idx Hin. now rewrite (imputed_agree Xc X0 m _ idx HA Hin).
Qed.
Lemma impute_keeps_observed Xc X0 m R w fs :
  (forall idx, inb (shape X0) idx -> fmul Op (tfun Op m idx) (tfun Op m idx) = tfun Op m idx) ->
  agree_observed Xc X0 m -> agree_observed (impute_with Op m R w Xc fs) X0 m.
Proof.
  intros Hm [Hsh H]. split; [cbn; exact Hsh|]. intros idx Hin. unfold impute_with, tfun at 1.
  rewrite get_tabulate by (rewrite Hsh; exact Hin). unfold imputed.
  specialize (H idx Hin). specialize (Hm idx Hin).
  set (a := tfun Op m idx) in *. set (x := tfun Op Xc idx) in *. set (x0 := tfun Op X0 idx) in *. set (l := cp_tensor_entry Op R w fs idx).
  transitivity (fadd Op (fmul Op x (fmul Op a a)) (fmul Op l (fsub Op a (fmul Op a a)))); [ring|].
  rewrite Hm. rewrite <- H. ring.
Qed.
Theorem masked_loop_reports_errors_of_original_data upd X0 m R w card :
  (forall idx, inb (shape X0) idx -> fmul Op (tfun Op m idx) (tfun Op m idx) = tfun Op m idx) ->
  forall n it fs Xc errs, agree_observed Xc X0 m ->
  snd (masked_loop Op upd m R w card n it fs Xc errs)
  = errs ++ map (fun fs_j => error_calc_model Op X0 R w fs_j card (Some m) None) (masked_states Op upd m R w n it fs Xc) /\
  fst (masked_loop Op upd m R w card n it fs Xc errs) = last (masked_states Op upd m R w n it fs Xc) fs.
Proof.
  intros Hm. induction n as [|n IH]; intros it fs Xc errs HA; cbn [masked_loop masked_states map last].
  - now rewrite app_nil_r.
  - set (fs' := upd it fs Xc).
    destruct (IH (S it) fs' (impute_with Op m R w Xc fs') (errs ++ [error_calc_model Op Xc R w fs' card (Some m) None])
                 (impute_keeps_observed Xc X0 m R w fs' Hm HA)) as [H1 H2].
    split.
    + rewrite H1, <- app_assoc. cbn [app]. do 2 f_equal. now apply error_calc_mask_reads_observed_only.
    + rewrite H2. destruct (masked_states Op upd m R w n (S it) fs' (impute_with Op m R w Xc fs')) as [|a l]; [reflexivity|].
      change (last (a :: l) fs' = last (a :: l) fs). apply last_cons_indep.
Qed.
Lemma agree_observed_refl X0 m : agree_observed X0 X0 m.
Proof. split; [reflexivity | intros; reflexivity]. Qed.
End PMask.
