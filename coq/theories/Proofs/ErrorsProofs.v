(* C06 -- the ring-regime identities behind error_calc and HOOI's shortcut, for every commutative
   ring, every order, every shape, every rank. *)
From Coq Require Import List Arith Lia Bool Ring.
From TLV Require Import Base.Shape Base.PyList Base.Tensor Base.BigSum Base.Ops Model.Errors.
Import ListNotations.

Section P.
Context {F : Type} (Op : fops F).
Hypothesis Rth : ring_theory (f0 Op) (f1 Op) (fadd Op) (fmul Op) (fsub Op) (fopp Op) (@eq F).
Add Ring Fr : Rth.
Local Notation "a +f b" := (fadd Op a b) (at level 50, left associativity).
Local Notation "a -f b" := (fsub Op a b) (at level 50, left associativity).
Local Notation "a *f b" := (fmul Op a b) (at level 40, left associativity).
Local Notation "0f" := (f0 Op).
Local Notation "1f" := (f1 Op).
Local Notation S_ := (Fsum Op).
Local Notation SI := (Fsum_idx Op).

(* --- the BigSum lemmas at this carrier *)
Lemma S_ext n f g : (forall i, i < n -> f i = g i) -> S_ n f = S_ n g.
Proof. apply bigsum_ext. Qed.
Lemma S_add n f g : S_ n (fun i => f i +f g i) = S_ n f +f S_ n g.
Proof. exact (bigsum_add F _ _ _ _ _ _ Rth n f g). Qed.
Lemma S_scale_l n c f : S_ n (fun i => c *f f i) = c *f S_ n f.
Proof. exact (bigsum_scale_l F _ _ _ _ _ _ Rth n c f). Qed.
Lemma S_scale_r n c f : S_ n (fun i => f i *f c) = S_ n f *f c.
Proof. exact (bigsum_scale_r F _ _ _ _ _ _ Rth n c f). Qed.
Lemma S_zero n f : (forall i, i < n -> f i = 0f) -> S_ n f = 0f.
Proof. exact (bigsum_zero F _ _ _ _ _ _ Rth n f). Qed.
Lemma S_exchange n m (f : nat -> nat -> F) : S_ n (fun i => S_ m (fun j => f i j)) = S_ m (fun j => S_ n (fun i => f i j)).
Proof. exact (bigsum_exchange F _ _ _ _ _ _ Rth n m f). Qed.
Lemma S_single n k f : k < n -> (forall i, i < n -> i <> k -> f i = 0f) -> S_ n f = f k.
Proof. exact (bigsum_single F _ _ _ _ _ _ Rth n k f). Qed.
Lemma S_prod n m f g : S_ n f *f S_ m g = S_ n (fun i => S_ m (fun j => f i *f g j)).
Proof. exact (bigsum_prod F _ _ _ _ _ _ Rth n m f g). Qed.

Lemma SI_nil f : SI [] f = f [].
Proof. exact (sum_idx_nil F _ _ _ _ _ _ Rth f). Qed.
Lemma SI_cons d s f : SI (d :: s) f = S_ d (fun i => SI s (fun idx => f (i :: idx))).
Proof. exact (sum_idx_cons F _ _ _ _ _ _ Rth d s f). Qed.
Lemma SI_ext s f g : (forall idx, inb s idx -> f idx = g idx) -> SI s f = SI s g.
Proof. apply sum_idx_ext. Qed.
Lemma SI_add s f g : SI s (fun i => f i +f g i) = SI s f +f SI s g.
Proof. unfold Fsum_idx, sum_idx. apply S_add. Qed.
Lemma SI_scale_l s c f : SI s (fun i => c *f f i) = c *f SI s f.
Proof. unfold Fsum_idx, sum_idx. apply S_scale_l. Qed.
Lemma SI_scale_r s c f : SI s (fun i => f i *f c) = SI s f *f c.
Proof. unfold Fsum_idx, sum_idx. apply S_scale_r. Qed.
Lemma SI_zero s f : (forall idx, inb s idx -> f idx = 0f) -> SI s f = 0f.
Proof. intros H. unfold Fsum_idx, sum_idx. apply S_zero. intros k Hk. apply H. now apply unravel_inb. Qed.
Lemma SI_S_exchange s m (f : list nat -> nat -> F) :
  SI s (fun idx => S_ m (fun j => f idx j)) = S_ m (fun j => SI s (fun idx => f idx j)).
Proof. unfold Fsum_idx, sum_idx. apply S_exchange. Qed.
Lemma SI_SI_exchange s t (f : list nat -> list nat -> F) :
  SI s (fun a => SI t (fun b => f a b)) = SI t (fun b => SI s (fun a => f a b)).
Proof. unfold Fsum_idx, sum_idx. apply S_exchange. Qed.

(* ------------------------------------------------------------------------------------------
   1. squared-error expansion over an arbitrary index space
   ------------------------------------------------------------------------------------------ *)
Theorem sq_expansion s (X Y : list nat -> F) :
  dist2 Op s X Y = (normsq Op s X +f normsq Op s Y) -f two Op *f inner Op s X Y.
Proof.
  unfold dist2, normsq, inner, sq, two.
  rewrite (SI_ext s (fun idx => (X idx -f Y idx) *f (X idx -f Y idx))
                    (fun idx => (X idx *f X idx +f Y idx *f Y idx) +f (fopp Op (1f +f 1f)) *f (X idx *f Y idx)))
    by (intros; ring).
  rewrite SI_add, SI_add, SI_scale_l. ring.
Qed.

(* ------------------------------------------------------------------------------------------
   2. splitting a sum over an index space at mode n
   ------------------------------------------------------------------------------------------ *)
Lemma SI_split n : forall s f, n < length s ->
  SI s f = S_ (nth n s 0) (fun i => SI (remove_nth n s) (fun idx' => f (insert_at n i idx'))).
Proof.
  induction n; intros [|d s] f H; simpl in H; try lia.
  - simpl. apply SI_cons.
  - rewrite SI_cons. cbn [nth remove_nth].
    rewrite (S_ext d _ (fun j => S_ (nth n s 0) (fun i => SI (remove_nth n s) (fun idx' => f (j :: insert_at n i idx')))))
      by (intros j _; apply (IHn s (fun idx => f (j :: idx))); lia).
    rewrite S_exchange. apply S_ext; intros i _. rewrite SI_cons. reflexivity.
Qed.

Lemma prodl_insert n : forall (gs : list (nat -> F)) (idx' : list nat) (i : nat) dflt,
  n < length gs -> n <= length idx' ->
  prodl Op gs (insert_at n i idx') = nth n gs dflt i *f prodl Op (remove_nth n gs) idx'.
Proof.
  induction n; intros [|g gs] idx' i dflt Hg Hi; simpl in Hg; try lia.
  - destruct idx'; simpl; ring.
  - destruct idx' as [|j idx']; simpl in Hi; try lia. cbn [insert_at prodl nth remove_nth].
    rewrite (IHn gs idx' i dflt) by lia. ring.
Qed.

(* ------------------------------------------------------------------------------------------
   3. <X, [[w; A]]> = sum(sum(mttkrp_n * A_n, axis=0) * v)  whenever u_r v_r = w_r, for EVERY mode n
   ------------------------------------------------------------------------------------------ *)
Theorem inner_mttkrp s (X : list nat -> F) R (w u v : nat -> F) (cols : nat -> list (nat -> F)) n :
  n < length s -> (forall r, r < R -> length (cols r) = length s) -> (forall r, r < R -> u r *f v r = w r) ->
  inner Op s X (cp_entry Op R w cols) = iprod Op s R (mttkrp Op s X u cols n) v cols n.
Proof.
  intros Hn Hc Hw. unfold inner, cp_entry, iprod, mttkrp.
  rewrite (SI_ext s _ (fun idx => S_ R (fun r => X idx *f (w r *f prodl Op (cols r) idx))))
    by (intros; now rewrite S_scale_l).
  rewrite SI_S_exchange. apply S_ext; intros r Hr.
  rewrite (SI_split n) by exact Hn.
  rewrite <- S_scale_r. apply S_ext; intros i Hi.
  rewrite <- SI_scale_r, <- SI_scale_r. apply SI_ext; intros idx' Hin.
  rewrite (prodl_insert n (cols r) idx' i (fun _ => 0f)).
  - rewrite <- (Hw r Hr). ring.
  - rewrite Hc by exact Hr. exact Hn.
  - apply inb_length in Hin. rewrite Hin. rewrite remove_nth_length by exact Hn. lia.
Qed.

(* ------------------------------------------------------------------------------------------
   4. || [[w; A]] ||^2 = cp_norm^2   (Khatri-Rao Gram identity summed up)
   ------------------------------------------------------------------------------------------ *)
Lemma SI_prodl2 s : forall (gs hs : list (nat -> F)), length gs = length s -> length hs = length s ->
  SI s (fun idx => prodl Op gs idx *f prodl Op hs idx) = prodgram Op s gs hs.
Proof.
  induction s as [|d s IH]; intros [|g gs] [|h hs] Hg Hh; simpl in Hg, Hh; try lia.
  - rewrite SI_nil. simpl. ring.
  - rewrite SI_cons. cbn [prodl prodgram]. unfold gram.
    rewrite <- S_scale_r. apply S_ext; intros i _.
    rewrite <- (IH gs hs) by lia. rewrite <- SI_scale_l. apply SI_ext; intros; ring.
Qed.

Theorem cp_normsq_correct s R (w : nat -> F) (cols : nat -> list (nat -> F)) :
  (forall r, r < R -> length (cols r) = length s) ->
  normsq Op s (cp_entry Op R w cols) = cp_normsq Op s R w cols.
Proof.
  intros Hc. unfold normsq, cp_entry, cp_normsq, sq.
  rewrite (SI_ext s _ (fun idx => S_ R (fun r => S_ R (fun t => (w r *f prodl Op (cols r) idx) *f (w t *f prodl Op (cols t) idx)))))
    by (intros; apply S_prod).
  rewrite SI_S_exchange. apply S_ext; intros r Hr.
  rewrite SI_S_exchange. apply S_ext; intros t Ht.
  rewrite <- (SI_prodl2 s (cols r) (cols t)) by (apply Hc; assumption).
  rewrite <- SI_scale_r. apply SI_ext; intros; ring.
Qed.

(* ------------------------------------------------------------------------------------------
   5. error_calc's shortcut equals the squared residual computed from scratch
   ------------------------------------------------------------------------------------------ *)
Theorem err2_fast_correct s (X : list nat -> F) R (w u v : nat -> F) (cols : nat -> list (nat -> F)) n :
  n < length s -> (forall r, r < R -> length (cols r) = length s) -> (forall r, r < R -> u r *f v r = w r) ->
  err2_fast Op s X R w u v cols n = err2_true Op s X R w cols.
Proof.
  intros Hn Hc Hw. unfold err2_fast, err2_fast_with, err2_true.
  rewrite sq_expansion, cp_normsq_correct by exact Hc.
  rewrite (inner_mttkrp s X R w u v cols n Hn Hc Hw). reflexivity.
Qed.

(* the MTTKRP of mode n does not look at factor n: it may be computed before factor n is overwritten *)
Lemma remove_nth_ext {A} n : forall (l l' : list A) d, length l = length l' ->
  (forall k, k <> n -> nth k l d = nth k l' d) -> remove_nth n l = remove_nth n l'.
Proof.
  induction n; intros [|x l] [|y l'] d HL H; simpl in HL; try lia; try reflexivity.
  - simpl. apply nth_ext with (d := d) (d' := d); [lia|]. intros k _. apply (H (S k)). lia.
  - simpl. f_equal; [apply (H 0); lia|]. apply (IHn l l' d); [lia|]. intros k Hk. apply (H (S k)). lia.
Qed.
Theorem mttkrp_ignores_own_mode s X u (cols cols' : nat -> list (nat -> F)) n i r :
  length (cols r) = length (cols' r) ->
  (forall k, k <> n -> nth k (cols r) (fun _ => 0f) = nth k (cols' r) (fun _ => 0f)) ->
  mttkrp Op s X u cols n i r = mttkrp Op s X u cols' n i r.
Proof. intros HL H. unfold mttkrp. now rewrite (remove_nth_ext n (cols r) (cols' r) (fun _ => 0f) HL H). Qed.

(* ------------------------------------------------------------------------------------------
   6. HOOI:  || X - G x U ||^2 = ||X||^2 - ||G||^2  for column-orthonormal U and G = X x U^T
   ------------------------------------------------------------------------------------------ *)
Theorem inner_tucker s rs X G us :
  inner Op s X (tucker_entry Op rs G us) = inner Op rs G (project Op s X us).
Proof.
  unfold inner, tucker_entry, project.
  rewrite (SI_ext s _ (fun idx => SI rs (fun j => G j *f (X idx *f prodl2 Op us idx j))))
    by (intros; rewrite <- SI_scale_l; apply SI_ext; intros; ring).
  rewrite SI_SI_exchange. apply SI_ext; intros j _. now rewrite SI_scale_l.
Qed.

Lemma SI_prodl2_gram : forall s rs us j j', orthonormal Op s rs us -> inb rs j -> inb rs j' ->
  SI s (fun idx => prodl2 Op us idx j *f prodl2 Op us idx j') = deltal Op j j'.
Proof.
  induction s as [|d s IH]; intros [|r rs] [|u us] j j' Ho Hj Hj'; simpl in Ho; try tauto.
  - destruct j, j'; simpl in Hj, Hj'; try tauto. rewrite SI_nil. simpl. ring.
  - destruct j as [|a j], j' as [|b j']; simpl in Hj, Hj'; try tauto.
    destruct Ho as [Ho1 Ho2], Hj as [Ha Hj], Hj' as [Hb Hj'].
    rewrite SI_cons. cbn [prodl2 deltal].
    rewrite <- (Ho1 a b Ha Hb), <- (IH rs us j j' Ho2 Hj Hj'). unfold gram.
    rewrite <- S_scale_r. apply S_ext; intros i _. rewrite <- SI_scale_l. apply SI_ext; intros; ring.
Qed.

Lemma SI_delta : forall rs (G : list nat -> F) j, inb rs j -> SI rs (fun j' => G j' *f deltal Op j j') = G j.
Proof.
  induction rs as [|r rs IH]; intros G j Hj; destruct j as [|a j]; simpl in Hj; try tauto.
  - rewrite SI_nil. simpl. ring.
  - destruct Hj as [Ha Hj]. rewrite SI_cons. rewrite (S_single r a); [ | exact Ha | ].
    2:{ intros b _ Hb. apply SI_zero. intros. cbn [deltal]. destruct (Nat.eqb_spec a b); [congruence | ring]. }
    cbn [deltal]. rewrite Nat.eqb_refl. rewrite <- (IH (fun j0 => G (a :: j0)) j Hj).
    apply SI_ext; intros; ring.
Qed.

Theorem tucker_normsq_orthonormal s rs G us : orthonormal Op s rs us ->
  normsq Op s (tucker_entry Op rs G us) = normsq Op rs G.
Proof.
  intros Ho. unfold normsq, tucker_entry, sq.
  rewrite (SI_ext s _ (fun idx => SI rs (fun j => SI rs (fun j' => (G j *f G j') *f (prodl2 Op us idx j *f prodl2 Op us idx j'))))).
  2:{ intros idx _. rewrite <- SI_scale_r. apply SI_ext; intros j _. rewrite <- SI_scale_l. apply SI_ext; intros; ring. }
  rewrite SI_SI_exchange. apply SI_ext; intros j Hj.
  rewrite SI_SI_exchange.
  rewrite (SI_ext rs _ (fun j' => G j *f (G j' *f deltal Op j j'))).
  2:{ intros j' Hj'. rewrite SI_scale_l. rewrite (SI_prodl2_gram s rs us j j' Ho Hj Hj'). ring. }
  rewrite SI_scale_l, SI_delta by exact Hj. reflexivity.
Qed.

Theorem hooi_error_identity s rs X G us : orthonormal Op s rs us ->
  (forall j, inb rs j -> G j = project Op s X us j) ->
  dist2 Op s X (tucker_entry Op rs G us) = hooi_err2 Op s rs X G.
Proof.
  intros Ho HG. unfold hooi_err2.
  rewrite sq_expansion, inner_tucker, tucker_normsq_orthonormal by exact Ho.
  assert (E : inner Op rs G (project Op s X us) = normsq Op rs G).
  { unfold inner, normsq, sq. apply SI_ext; intros j Hj. now rewrite <- HG. }
  rewrite E. unfold two. ring.
Qed.
(* ------------------------------------------------------------------------------------------
   7. tucker_normalize as a relation (round 5): rescaling the columns of every factor and letting the core absorb
      the scales does not change any entry of the represented tensor; every order, all shapes and ranks
   ------------------------------------------------------------------------------------------ *)
Lemma prodl2_scaled : forall s rs us us' ds idx j, tscaled Op s rs us us' ds -> inb s idx -> inb rs j ->
  prodl2 Op us idx j = proddl Op ds j *f prodl2 Op us' idx j.
Proof.
  induction s as [|n s IH]; intros [|r rs] [|u us] [|u' us'] [|d ds] idx j Hs Hi Hj; simpl in Hs; try tauto.
  - destruct idx, j; simpl in Hi, Hj; try tauto. simpl. ring.
  - destruct idx as [|i idx], j as [|a j]; simpl in Hi, Hj; try tauto.
    destruct Hs as [H1 H2], Hi as [Hi1 Hi2], Hj as [Hj1 Hj2].
    cbn [prodl2 proddl]. rewrite (H1 i a Hi1 Hj1), (IH rs us us' ds idx j H2 Hi2 Hj2). ring.
Qed.
Theorem tucker_entry_rescale s rs (G G' : list nat -> F) us us' ds :
  tscaled Op s rs us us' ds -> (forall j, inb rs j -> G' j = G j *f proddl Op ds j) ->
  forall idx, inb s idx -> tucker_entry Op rs G' us' idx = tucker_entry Op rs G us idx.
Proof.
  intros Hs HG idx Hi. unfold tucker_entry. apply SI_ext; intros j Hj.
  rewrite (HG j Hj), (prodl2_scaled s rs us us' ds idx j Hs Hi Hj). ring.
Qed.
(* hence the squared residual is the same before and after the normalisation *)
Corollary tucker_rescale_err2 s rs X (G G' : list nat -> F) us us' ds :
  tscaled Op s rs us us' ds -> (forall j, inb rs j -> G' j = G j *f proddl Op ds j) ->
  dist2 Op s X (tucker_entry Op rs G' us') = dist2 Op s X (tucker_entry Op rs G us).
Proof.
  intros Hs HG. unfold dist2. apply SI_ext; intros idx Hi. now rewrite (tucker_entry_rescale s rs G G' us us' ds Hs HG idx Hi).
Qed.
(* ------------------------------------------------------------------------------------------
   8. error_calc on data, whichever branch it takes (round 5)
   ------------------------------------------------------------------------------------------ *)
Lemma err_explicit_plain (X : tensor F) (L : list nat -> F) :
  err_explicit Op X L None None = (dist2 Op (shape X) (tfun Op X) L, normsq Op (shape X) (tfun Op X)).
Proof.
  unfold err_explicit. f_equal. unfold dist2. apply SI_ext; intros idx _. unfold imputed, sparse_fun, sq. ring.
Qed.
Lemma colsT_length (fs : list (tensor F)) r : length (colsT Op fs r) = length fs.
Proof. unfold colsT. apply map_length. Qed.
(* the executed shortcut (the model's own MTTKRP of mode n) IS the executed residual from scratch: what KCPfast re-checks per instance *)
Theorem err_shortcut_is_true (X : tensor F) R w fs n : n < length (shape X) -> length fs = length (shape X) ->
  err_shortcut Op X R w fs n = err_cp_true Op X R w fs None None.
Proof.
  intros Hn HL. unfold err_shortcut, err_cp_true. rewrite err_explicit_plain. f_equal.
  rewrite (err2_fast_correct (shape X) (tfun Op X) R (wfun Op w) (wfun Op w) (ones Op) (colsT Op fs) n Hn).
  - reflexivity.
  - intros r _. now rewrite colsT_length.
  - intros r _. unfold ones. ring.
Qed.
(* error_calc with the implementation's MTTKRP handed over: as soon as that matrix IS the MTTKRP of the last mode computed from the
   current weights / factors, every branch returns the explicit residual (of the imputed tensor, minus the sparse component) *)
Theorem error_calc_every_branch (X : tensor F) R w fs card mask M :
  0 < length (shape X) -> length fs = length (shape X) ->
  (forall Mt, M = Some Mt -> forall i r, i < nth (length (shape X) - 1) (shape X) 0 -> r < R ->
     get (f0 Op) Mt [i; r] = mttkrp Op (shape X) (tfun Op X) (wfun Op w) (colsT Op fs) (length (shape X) - 1) i r) ->
  error_calc_model Op X R w fs card mask M
  = err_explicit Op X (cp_tensor_entry Op R w fs) (sparse_of Op X (cp_tensor_entry Op R w fs) card mask) mask.
Proof.
  intros Hs HL HM. unfold error_calc_model.
  destruct mask as [m|]; [reflexivity|]. destruct M as [Mt|]; [|reflexivity]. destruct card as [c|]; [reflexivity|].
  cbn [sparse_of]. change (err_explicit Op X (cp_tensor_entry Op R w fs) None None) with (err_cp_true Op X R w fs None None).
  rewrite <- (err_shortcut_is_true X R w fs (length (shape X) - 1)) by (auto; lia).
  unfold err_shortcut_with, err_shortcut, err2_fast, err2_fast_with. f_equal. f_equal. f_equal.
  unfold iprod. apply S_ext; intros r Hr. f_equal. apply S_ext; intros i Hi. now rewrite (HM Mt eq_refl i r Hi Hr).
Qed.

(* ------------------------------------------------------------------------------------------
   9. the sweep on data (round 6): the MTTKRP remembered at the end of a sweep IS the MTTKRP of the last updated mode for the
      UPDATED factors (it was computed before that factor was overwritten and does not read it), so the hypothesis of
      error_calc_every_branch is established by the sweep itself, for every solve oracle
   ------------------------------------------------------------------------------------------ *)
Lemma colsT_nth_set (fs : list (tensor F)) n A r k d : k <> n -> nth k (colsT Op (set_nth n A fs) r) d = nth k (colsT Op fs r) d.
Proof.
  intros Hk. unfold colsT. set (g := fun (B : tensor F) (i : nat) => get (f0 Op) B [i; r]).
  destruct (lt_dec k (length fs)) as [Hl | Hl].
  - rewrite (nth_indep _ d (g (mk [] []))) by (rewrite map_length, set_nth_length; exact Hl).
    rewrite (nth_indep (map g fs) d (g (mk [] []))) by (rewrite map_length; exact Hl).
    rewrite !map_nth. now rewrite nth_set_nth_other.
  - rewrite !nth_overflow; [reflexivity | rewrite map_length; lia | rewrite map_length, set_nth_length; lia].
Qed.
Lemma data_sweep_length solve (X : tensor F) R w : forall ms fs M, length (fst (data_sweep Op solve X R w ms fs M)) = length fs.
Proof. induction ms as [|m ms IH]; intros fs M; cbn [data_sweep]; [reflexivity|]. rewrite IH. apply set_nth_length. Qed.
Lemma data_sweep_app solve (X : tensor F) R w n : forall ms fs M,
  data_sweep Op solve X R w (ms ++ [n]) fs M =
  (let fs1 := fst (data_sweep Op solve X R w ms fs M) in
   let Mt := mttkrp_data Op X R w fs1 n in (set_nth n (solve n Mt fs1) fs1, Some Mt)).
Proof. induction ms as [|m ms IH]; intros fs M; cbn [data_sweep app]; [reflexivity|]. apply IH. Qed.
Lemma mttkrp_data_after_update (X : tensor F) R w fs n A i r : i < nth n (shape X) 0 -> r < R ->
  get (f0 Op) (mttkrp_data Op X R w fs n) [i; r] = mttkrp Op (shape X) (tfun Op X) (wfun Op w) (colsT Op (set_nth n A fs)) n i r.
Proof.
  intros Hi Hr. unfold mttkrp_data. rewrite get_tabulate by (cbn; auto). cbn [nth].
  apply mttkrp_ignores_own_mode.
  - now rewrite !colsT_length, set_nth_length.
  - intros k Hk. symmetry. now apply colsT_nth_set.
Qed.
(* one iteration of parafac on data: whatever the solve oracle answers, the value error_calc computes after the sweep - through the
   MTTKRP shortcut when a mode was updated, explicitly when none was - is the explicit squared residual of the UPDATED factors *)
Theorem parafac_iteration_reports_true_error solve (X : tensor F) R w card ms fs :
  0 < length (shape X) -> length fs = length (shape X) -> (ms = [] \/ last ms 0 = length (shape X) - 1) ->
  parafac_iteration_error Op solve X R w card ms fs
  = (let fs' := fst (data_sweep Op solve X R w ms fs None) in
     err_explicit Op X (cp_tensor_entry Op R w fs') (sparse_of Op X (cp_tensor_entry Op R w fs') card None) None).
Proof.
  intros Hs HL Hms. unfold parafac_iteration_error.
  set (res := data_sweep Op solve X R w ms fs None).
  rewrite (error_calc_every_branch X R w (fst res) card None (snd res)); [reflexivity | exact Hs | unfold res; now rewrite data_sweep_length |].
  intros Mt HMt i r Hi Hr. unfold res in *.
  destruct Hms as [-> | Hlast]; [cbn in HMt; discriminate|].
  destruct (exists_last (l := ms)) as (ms0 & n & ->); [intros ->; cbn in HMt; discriminate|].
  rewrite last_last in Hlast. subst n. rewrite data_sweep_app in *. cbn [fst snd] in *. injection HMt as <-.
  now apply mttkrp_data_after_update.
Qed.
Lemma last_cons_indep {A} (l : list A) : forall a d d', last (a :: l) d = last (a :: l) d'.
Proof. induction l as [|b l IH]; intros a d d'; [reflexivity|]. change (last (b :: l) d = last (b :: l) d'). apply IH. Qed.
(* ... iterated: every value of the list is the explicit squared residual (and squared norm) of the factors at the end of its iteration,
   and the returned factors are those of the last iteration *)
Theorem parafac_data_loop_reports_true_errors solve (X : tensor F) R w card ms :
  0 < length (shape X) -> (ms = [] \/ last ms 0 = length (shape X) - 1) ->
  forall n it fs errs, length fs = length (shape X) ->
  snd (parafac_data_loop Op solve X R w card ms n it fs errs)
  = errs ++ map (fun fs_j => err_explicit Op X (cp_tensor_entry Op R w fs_j) (sparse_of Op X (cp_tensor_entry Op R w fs_j) card None) None)
                (parafac_data_states Op solve X R w ms n it fs) /\
  fst (parafac_data_loop Op solve X R w card ms n it fs errs) = last (parafac_data_states Op solve X R w ms n it fs) fs.
Proof.
  intros Hs Hms. induction n as [|n IH]; intros it fs errs HL; cbn [parafac_data_loop parafac_data_states map last].
  - now rewrite app_nil_r.
  - set (res := data_sweep Op (solve it) X R w ms fs None).
    assert (HL' : length (fst res) = length (shape X)) by (unfold res; now rewrite data_sweep_length).
    destruct (IH (S it) (fst res) (errs ++ [error_calc_model Op X R w (fst res) card None (snd res)]) HL') as [H1 H2].
    split.
    + rewrite H1, <- app_assoc. cbn [app]. do 2 f_equal.
      exact (parafac_iteration_reports_true_error (solve it) X R w card ms fs Hs HL Hms).
    + rewrite H2. destruct (parafac_data_states Op solve X R w ms n (S it) (fst res)) as [|a l]; [reflexivity|].
      change (last (a :: l) (fst res) = last (a :: l) fs). apply last_cons_indep.
Qed.
End P.
