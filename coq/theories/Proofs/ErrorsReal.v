(* C06 -- the reported VALUES over the reals: sqrt, abs and the division by the norm carried inside the model.
   At R the quantity under each shortcut's sqrt(abs(.)) is a sum of squares, so the abs is the identity, the square root is
   defined, and the reported value IS the relative reconstruction error  ||X - model|| / ||X||. *)
From Coq Require Import List Arith Lia Bool Reals Lra.
From TLV Require Import Base.Shape Base.PyList Base.Tensor Base.BigSum Base.Ops Model.Errors
     Proofs.ErrorsProofs Proofs.ErrorsP2 Proofs.ErrorsTR.
Import ListNotations.
Local Open Scope R_scope.

Lemma Rth : ring_theory (f0 Rops) (f1 Rops) (fadd Rops) (fmul Rops) (fsub Rops) (fopp Rops) (@eq R).
Proof. exact RTheory. Qed.

Lemma Fsum_nonneg n (f : nat -> R) : (forall i, (i < n)%nat -> 0 <= f i) -> 0 <= Fsum Rops n f.
Proof.
  unfold Fsum. induction n; intros H; simpl; [lra|].
  assert (0 <= f n) by (apply H; lia). assert (0 <= bigsum R 0 Rplus n f) by (apply IHn; intros; apply H; lia). simpl in *. lra.
Qed.
Lemma Fsum_idx_nonneg s (f : list nat -> R) : (forall idx, 0 <= f idx) -> 0 <= Fsum_idx Rops s f.
Proof. intros H. unfold Fsum_idx, sum_idx. apply (Fsum_nonneg (prod s)). intros; apply H. Qed.
Lemma sq_nonneg x : 0 <= sq Rops x.
Proof. unfold sq. simpl. nra. Qed.
Lemma dist2_nonneg s X Y : 0 <= dist2 Rops s X Y.
Proof. unfold dist2. apply Fsum_idx_nonneg. intros. apply sq_nonneg. Qed.
Lemma normsq_nonneg s X : 0 <= normsq Rops s X.
Proof. unfold normsq. apply Fsum_idx_nonneg. intros. apply sq_nonneg. Qed.

(* the value every shortcut reports: sqrt(abs(q)) / norm_tensor, norm_tensor = sqrt(||X||^2) *)
Definition reported (q nx : R) : R := sqrt (Rabs q) / sqrt nx.
(* the relative reconstruction error from scratch *)
Definition rel_error (d2 nx : R) : R := sqrt d2 / sqrt nx.

Lemma reported_of_nonneg q nx : 0 <= q -> reported q nx = rel_error q nx.
Proof. intros H. unfold reported, rel_error. now rewrite Rabs_pos_eq. Qed.
Lemma rel_error_sq d2 nx : 0 <= d2 -> 0 < nx -> (rel_error d2 nx) * (rel_error d2 nx) = d2 / nx.
Proof.
  intros H1 H2. assert (Hs : sqrt nx <> 0) by (apply Rgt_not_eq, sqrt_lt_R0; lra). unfold rel_error.
  replace (sqrt d2 / sqrt nx * (sqrt d2 / sqrt nx)) with ((sqrt d2 * sqrt d2) / (sqrt nx * sqrt nx)) by (field; exact Hs).
  rewrite !sqrt_sqrt by lra. reflexivity.
Qed.
Lemma rel_error_nonneg d2 nx : 0 <= rel_error d2 nx.
Proof.
  unfold rel_error. destruct (Rle_lt_dec nx 0) as [H | H].
  - rewrite (sqrt_neg_0 nx H). unfold Rdiv. rewrite Rinv_0. lra.
  - apply Rmult_le_pos; [apply sqrt_pos | left; apply Rinv_0_lt_compat, sqrt_lt_R0; exact H].
Qed.

(* error_calc / MU / HALS / constrained CP *)
Theorem error_calc_reported_value s (X : list nat -> R) Rk (w u v : nat -> R) cols n :
  (n < length s)%nat -> (forall r, (r < Rk)%nat -> length (cols r) = length s) -> (forall r, (r < Rk)%nat -> u r * v r = w r) ->
  reported (err2_fast Rops s X Rk w u v cols n) (normsq Rops s X)
  = rel_error (dist2 Rops s X (cp_entry Rops Rk w cols)) (normsq Rops s X).
Proof.
  intros Hn Hc Hw. rewrite (err2_fast_correct Rops Rth s X Rk w u v cols n Hn Hc Hw).
  apply reported_of_nonneg. apply dist2_nonneg.
Qed.
(* HOOI *)
Theorem hooi_reported_value s rs (X G : list nat -> R) us :
  orthonormal Rops s rs us -> (forall j, inb rs j -> G j = project Rops s X us j) ->
  reported (hooi_err2 Rops s rs X G) (normsq Rops s X)
  = rel_error (dist2 Rops s X (tucker_entry Rops rs G us)) (normsq Rops s X).
Proof.
  intros Ho HG. rewrite <- (hooi_error_identity Rops Rth s rs X G us Ho HG). apply reported_of_nonneg, dist2_nonneg.
Qed.
(* PARAFAC2 (abs under the sqrt since b590c64) *)
Lemma p2_true_nonneg I K Rk J X P A Bm C : 0 <= p2_err2_true Rops I K Rk J X P A Bm C.
Proof. unfold p2_err2_true. repeat (apply Fsum_nonneg; intros). apply sq_nonneg. Qed.
Theorem parafac2_reported_value I K Rk J X P A Bm C :
  reported (p2_err2_fast Rops I K Rk J X P A Bm C (p2_tmp_proj Rops Rk J X P A Bm)) (p2_normX Rops I K J X)
  = rel_error (p2_err2_true Rops I K Rk J X P A Bm C) (p2_normX Rops I K J X).
Proof. rewrite (p2_err2_fast_proj_correct Rops Rth). apply reported_of_nonneg, p2_true_nonneg. Qed.
(* tensor ring: norm of the last sub-problem residual *)
Theorem tr_reported_value s (X : list nat -> R) r0 cores d :
  length cores = length s -> (d < length s)%nat ->
  endbond r0 (map (fun c => (fst c, fun a b => snd c a 0%nat b)) cores) = r0 ->
  rel_error (ls_residual2 Rops s X r0 cores d) (normsq Rops s X)
  = rel_error (dist2 Rops s (tr_entry Rops r0 cores) X) (normsq Rops s X).
Proof. intros. now rewrite (ls_residual_is_tr_error Rops Rth). Qed.

(* the guard: sqrt(abs(q + delta)) is taken of a non-negative number whatever the rounding perturbation delta; without the abs
   (PARAFAC2 before b590c64) an exact fit q = 0 and a perturbation delta < 0 leave a negative argument (NaN in floating point) *)
Definition sqrt_arg_ok (x : R) : Prop := 0 <= x.
Theorem abs_guard_total q delta : sqrt_arg_ok (Rabs (q + delta)).
Proof. apply Rabs_pos. Qed.
Theorem unguarded_sqrt_refuted : exists q delta, 0 <= q /\ Rabs delta <= 1 / 1000000 /\ ~ sqrt_arg_ok (q + delta).
Proof. exists 0, (- (1 / 1000000)). split; [lra|]. split; [rewrite Rabs_Ropp, Rabs_pos_eq; lra | unfold sqrt_arg_ok; lra]. Qed.

(* CMTF, documented squared form:  tl.norm(X - cp)**2 + tl.norm(Y - cp_Y)**2  is the sum of the two squared residuals *)
Definition cmtf_reported (sX sY : list nat) (X LX Y LY : list nat -> R) : R :=
  sqrt (dist2 Rops sX X LX) * sqrt (dist2 Rops sX X LX) + sqrt (dist2 Rops sY Y LY) * sqrt (dist2 Rops sY Y LY).
Theorem cmtf_reported_value sX sY X LX Y LY :
  cmtf_reported sX sY X LX Y LY = dist2 Rops sX X LX + dist2 Rops sY Y LY.
Proof. unfold cmtf_reported. rewrite !sqrt_sqrt by apply dist2_nonneg. reflexivity. Qed.

(* ---------------------------------------------------------------- round 6: the finiteness clause, exactly as far as it can be stated over R.
   In exact arithmetic the quantity under each shortcut's square root is a squared residual, hence NON-NEGATIVE: the square root is taken of a
   non-negative number even without the abs, the reported value is a non-negative real, and for ||X|| > 0 it is the quotient of two real
   numbers with a non-zero denominator.  So a NaN (or a negative argument) can only come from ROUNDING (a perturbation delta of the exact
   argument, caught by the abs: abs_guard_total) or from ||X|| = 0 (0/0), never from the formulas. *)
Definition finite_report (q nx : R) : Prop := sqrt_arg_ok q /\ sqrt nx <> 0 /\ 0 <= reported q nx /\ reported q nx = sqrt q / sqrt nx.
Lemma finite_report_of_nonneg q nx : 0 <= q -> 0 < nx -> finite_report q nx.
Proof.
  intros Hq Hn. unfold finite_report, sqrt_arg_ok. split; [exact Hq|]. split; [apply Rgt_not_eq, sqrt_lt_R0; exact Hn|].
  rewrite (reported_of_nonneg q nx Hq). split; [apply rel_error_nonneg | reflexivity].
Qed.
Theorem error_calc_argument_nonneg s (X : list nat -> R) Rk (w u v : nat -> R) cols n :
  (n < length s)%nat -> (forall r, (r < Rk)%nat -> length (cols r) = length s) -> (forall r, (r < Rk)%nat -> u r * v r = w r) ->
  0 < normsq Rops s X -> finite_report (err2_fast Rops s X Rk w u v cols n) (normsq Rops s X).
Proof.
  intros Hn Hc Hw Hx. apply finite_report_of_nonneg; [|exact Hx].
  rewrite (err2_fast_correct Rops Rth s X Rk w u v cols n Hn Hc Hw). apply dist2_nonneg.
Qed.
Theorem hooi_argument_nonneg s rs (X G : list nat -> R) us :
  orthonormal Rops s rs us -> (forall j, inb rs j -> G j = project Rops s X us j) ->
  0 < normsq Rops s X -> finite_report (hooi_err2 Rops s rs X G) (normsq Rops s X).
Proof.
  intros Ho HG Hx. apply finite_report_of_nonneg; [|exact Hx].
  rewrite <- (hooi_error_identity Rops Rth s rs X G us Ho HG). apply dist2_nonneg.
Qed.
Theorem parafac2_argument_nonneg I K Rk J X P A Bm C :
  0 < p2_normX Rops I K J X ->
  finite_report (p2_err2_fast Rops I K Rk J X P A Bm C (p2_tmp_proj Rops Rk J X P A Bm)) (p2_normX Rops I K J X).
Proof.
  intros Hx. apply finite_report_of_nonneg; [|exact Hx]. rewrite (p2_err2_fast_proj_correct Rops Rth). apply p2_true_nonneg.
Qed.
Theorem tr_argument_nonneg s (X : list nat -> R) r0 cores d : 0 < normsq Rops s X ->
  finite_report (ls_residual2 Rops s X r0 cores d) (normsq Rops s X).
Proof.
  intros Hx. apply finite_report_of_nonneg; [|exact Hx]. unfold ls_residual2.
  apply Fsum_nonneg; intros. apply Fsum_idx_nonneg; intros. apply sq_nonneg.
Qed.
(* the explicit residuals (masked / sparse CP, non-negative Tucker, randomised CP, CMTF): a norm of a difference *)
Theorem explicit_argument_nonneg s (X L : list nat -> R) : 0 < normsq Rops s X -> finite_report (dist2 Rops s X L) (normsq Rops s X).
Proof. intros Hx. apply finite_report_of_nonneg; [apply dist2_nonneg | exact Hx]. Qed.
(* the one-sided statement about rounding: if the computed argument differs from the exact one by delta, the guarded value is still the
   square root of a non-negative number, and it is the exact report whenever delta = 0 *)
Theorem rounding_is_the_only_source q nx delta : 0 <= q -> 0 < nx ->
  sqrt_arg_ok (Rabs (q + delta)) /\ (delta = 0 -> reported (q + delta) nx = rel_error q nx) /\
  (q + delta < 0 -> ~ sqrt_arg_ok (q + delta)).
Proof.
  intros Hq Hn. split; [apply Rabs_pos|]. split.
  - intros ->. rewrite Rplus_0_r. now apply reported_of_nonneg.
  - unfold sqrt_arg_ok. lra.
Qed.
Theorem tr_and_explicit_arguments_nonneg (s : list nat) (X L : list nat -> R) (r0 : nat) (cores : list (@core R)) (d : nat) :
  0 < normsq Rops s X ->
  finite_report (ls_residual2 Rops s X r0 cores d) (normsq Rops s X) /\ finite_report (dist2 Rops s X L) (normsq Rops s X).
Proof. intros. split; [now apply tr_argument_nonneg | now apply explicit_argument_nonneg]. Qed.
