(* C06 -- the loop skeleton: which iterate does a reported value belong to?  For every oracle. *)
From Coq Require Import List Arith Lia Bool.
From TLV Require Import Model.Errors.
Import ListNotations.

Definition well_formed (C : config) : Prop :=
  modes C <> [] /\ pair_with C = last (modes C) 0 /\ norm_before_error C = false /\ report_linesearch C = true.

Section SK.
Variables (B E T : Type) (repr : blocks B -> T) (errT : T -> E).

Definition good_event (ev : event B E) : Prop :=
  match ev with
  | EReport st e => e = errT (repr st)
  | ECallback st e => e = errT (repr st)
  | _ => True
  end.
Definition last_report_ok (l : lstate B E) : Prop :=
  match rev (errs l) with [] => True | e :: _ => e = errT (repr (cur l)) end.

Variable fast : blocks B -> nat * blocks B -> nat -> E.
Variable explicit : blocks B -> E.
Variable Orc : oracle B.
Variable C : config.
(* okmode: the modes for which the shortcut is known to be right (for the CP algebra: k < order of the tensor) *)
Variable okmode : nat -> Prop.
Hypothesis Hfast : forall cur k snap, okmode k -> (forall j, j <> k -> snap j = cur j) -> fast cur (k, snap) k = errT (repr cur).
Hypothesis Hok : okmode (last (modes C) 0).
Hypothesis Hexp : forall st, explicit st = errT (repr st).
Hypothesis Hnorm : forall st, repr (normalized Orc st) = repr st.
Hypothesis WF : well_formed C.

Definition Inv (l : lstate B E) : Prop := Forall good_event (trace l) /\ last_report_ok l.

Lemma Forall_snoc {A} (P : A -> Prop) l a : Forall P l -> P a -> Forall P (l ++ [a]).
Proof. intros H1 H2. apply Forall_app; split; auto. Qed.

Lemma sweep_good it lastm : forall ms (l : lstate B E), Forall good_event (trace l) -> Forall good_event (trace (sweep Orc C it lastm ms l)).
Proof.
  induction ms as [|m ms IH]; intros l H; simpl; [exact H|]. apply IH.
  destruct (norm_in_sweep C && normalize_factors C && negb (m =? lastm)); simpl;
    repeat apply Forall_snoc; simpl; auto.
Qed.

Lemma sweep_cache it lastm : forall ms (l : lstate B E), ms <> [] -> last ms 0 = lastm ->
  fst (cache (sweep Orc C it lastm ms l)) = lastm /\
  forall j, j <> lastm -> snd (cache (sweep Orc C it lastm ms l)) j = cur (sweep Orc C it lastm ms l) j.
Proof.
  induction ms as [|m ms IH]; intros l Hne Hl; [congruence|].
  destruct ms as [|m' ms'].
  - simpl in Hl. subst m. simpl. rewrite Nat.eqb_refl, andb_false_r. simpl. split; [reflexivity|].
    intros j Hj. unfold setb. destruct (Nat.eqb_spec j lastm); [congruence | reflexivity].
  - change (sweep Orc C it lastm (m :: m' :: ms') l) with
      (sweep Orc C it lastm (m' :: ms')
         (let snap := cur l in
          let cur1 := setb snap m (new_block Orc it m snap) in
          let l1 := emit (mkL cur1 (m, snap) (last2 l) (errs l) (trace l)) (EUpdate m) in
          if norm_in_sweep C && normalize_factors C && negb (m =? lastm)
          then emit (mkL (normalized Orc (cur l1)) (cache l1) (last2 l1) (errs l1) (trace l1)) ENormalize else l1)).
    apply IH; [discriminate | exact Hl].
Qed.

Lemma report_inv l e : Forall good_event (trace l) -> e = errT (repr (cur l)) -> Inv (report C l e).
Proof.
  intros H He. unfold report, Inv, last_report_ok.
  destruct (use_callback C); simpl; rewrite rev_unit; split; auto;
    repeat apply Forall_snoc; simpl; auto.
Qed.

Lemma iteration_inv it l : Forall good_event (trace l) -> Inv (iteration fast explicit Orc C it l).
Proof.
  intros H. destruct WF as (Hne & Hp & Hnb & Hrl). unfold iteration. rewrite Hnb, Hrl. cbn [andb].
  set (l0 := if linesearch C && Nat.even it then _ else l).
  assert (H0 : Forall good_event (trace l0)) by (unfold l0; destruct (linesearch C && Nat.even it); exact H).
  set (l1 := sweep Orc C it (last (modes C) 0) (modes C) l0).
  assert (H1 : Forall good_event (trace l1)) by (apply sweep_good; exact H0).
  destruct (sweep_cache it (last (modes C) 0) (modes C) l0 Hne eq_refl) as [Hc1 Hc2]. fold l1 in Hc1, Hc2.
  assert (Hf : fast (cur l1) (cache l1) (pair_with C) = errT (repr (cur l1))).
  { rewrite (surjective_pairing (cache l1)), Hp, Hc1. apply Hfast; [exact Hok | exact Hc2]. }
  destruct (line_iter C it).
  - destruct (accept Orc it).
    + apply report_inv; simpl; [apply Forall_snoc; simpl; auto | apply Hexp].
    + apply report_inv; simpl; [apply Forall_snoc; simpl; auto | exact Hf].
  - apply report_inv; [exact H1 | exact Hf].
Qed.

Lemma finish_inv l : Inv l -> Inv (finish_iteration Orc C l).
Proof.
  intros [H1 H2]. unfold finish_iteration. destruct (normalize_factors C && negb (norm_before_error C)); [|split; assumption].
  split; simpl; [apply Forall_snoc; simpl; auto|].
  unfold last_report_ok in *. simpl. destruct (rev (errs l)); auto. now rewrite Hnorm.
Qed.

Lemma emit_inv l ev : Inv l -> good_event ev -> Inv (emit l ev).
Proof. intros [H1 H2] H. split; simpl; [apply Forall_snoc; auto | exact H2]. Qed.

Lemma loop_inv : forall n it l, Inv l -> Inv (loop fast explicit Orc C n it l).
Proof.
  induction n; intros it l H; simpl; [exact H|].
  assert (H1 : Inv (finish_iteration Orc C (iteration fast explicit Orc C it l))) by (apply finish_inv, iteration_inv, H).
  destruct (use_callback C && cb_stop Orc it); [apply emit_inv; [exact H1 | exact I]|].
  destruct (stop Orc it); [apply emit_inv; simpl; auto | apply IHn; exact H1].
Qed.

Theorem skeleton_sound_gen n init :
  let l := run fast explicit Orc C n init in
  Forall good_event (trace l) /\ last_report_ok l /\ last (trace l) EBreak = EReturn (cur l).
Proof.
  cbv zeta. unfold run.
  set (l0 := if use_callback C then _ else _).
  assert (H0 : Inv l0).
  { assert (Hb : Inv (mkL init (0, init) init [] [])) by (split; [constructor | unfold last_report_ok; simpl; exact I]).
    unfold l0. destruct (use_callback C); [apply emit_inv; [exact Hb | simpl; apply Hexp] | exact Hb]. }
  pose proof (loop_inv n 0 l0 H0) as [H1 H2].
  repeat split; simpl.
  - apply Forall_snoc; simpl; auto.
  - exact H2.
  - apply last_last.
Qed.
End SK.

(* the unrestricted form (shortcut right for every mode number) *)
Theorem skeleton_sound (B E T : Type) (repr : blocks B -> T) (errT : T -> E)
  (fast : blocks B -> nat * blocks B -> nat -> E) (explicit : blocks B -> E) (Orc : oracle B) (C : config) :
  (forall cur k snap, (forall j, j <> k -> snap j = cur j) -> fast cur (k, snap) k = errT (repr cur)) ->
  (forall st, explicit st = errT (repr st)) ->
  (forall st, repr (normalized Orc st) = repr st) ->
  well_formed C ->
  forall (n : nat) (init : blocks B),
  let l := run fast explicit Orc C n init in
  Forall (good_event B E T repr errT) (trace l) /\ last_report_ok B E T repr errT l /\ last (trace l) EBreak = EReturn (cur l).
Proof.
  intros Hf He Hn WF n init.
  apply (skeleton_sound_gen B E T repr errT fast explicit Orc C (fun _ => True)); auto.
Qed.

(* ------------------------------------------------------------------ a toy instance meeting the hypotheses,
   used to show that the two historical orderings are not sound.  Two blocks of naturals, the iterate
   "represents" their sum, normalisation swaps them, the shortcut reads the remembered snapshot for the
   block it was not computed for (exactly what an MTTKRP does). *)
Definition toy_repr (st : blocks nat) : nat := st 0 + st 1.
Definition toy_fast (cur : blocks nat) (c : nat * blocks nat) (p : nat) : nat := cur p + snd c (1 - p).
Definition toy_explicit (st : blocks nat) : nat := st 0 + st 1.
Definition toy_oracle : oracle nat :=
  mkOracle (fun it m _ => 10 * S it + m) (fun st j => st (1 - j)) (fun it _ st j => st j + 100) (fun _ => true) (fun _ => false) (fun _ => false).
Definition toy_init : blocks nat := fun _ => 1.

Lemma toy_fast_ok cur k snap : k < 2 -> (forall j, j <> k -> snap j = cur j) -> toy_fast cur (k, snap) k = toy_repr cur.
Proof.
  intros Hk H. unfold toy_fast, toy_repr. simpl.
  destruct k as [|[|k]]; try lia; simpl; [rewrite (H 1) by lia | rewrite (H 0) by lia]; lia.
Qed.
Lemma toy_norm_ok st : toy_repr (normalized toy_oracle st) = toy_repr st.
Proof. unfold toy_repr. simpl. lia. Qed.

Theorem skeleton_linesearch_refuted :
  exists (Orc : oracle nat) (C : config) (n : nat) (init : blocks nat),
    report_linesearch C = false /\
    ~ last_report_ok nat nat nat toy_repr (fun x => x) (run toy_fast toy_explicit Orc C n init).
Proof.
  exists toy_oracle, (mkConfig [0; 1] 1 false false false true false false), 7, toy_init.
  split; [reflexivity|]. vm_compute. discriminate.
Qed.

Theorem skeleton_normalize_before_refuted :
  exists (Orc : oracle nat) (C : config) (n : nat) (init : blocks nat),
    norm_before_error C = true /\
    ~ Forall (good_event nat nat nat toy_repr (fun x => x)) (trace (run toy_fast toy_explicit Orc C n init)).
Proof.
  exists toy_oracle, (mkConfig [0; 1] 1 true false true false true false), 1, toy_init.
  split; [reflexivity|]. intros H. vm_compute in H.
  repeat match goal with H : Forall _ (_ :: _) |- _ => inversion H; clear H; subst end;
  simpl in *; try discriminate.
Qed.

(* the same toy instance under the actual configuration satisfies the invariant (sanity of the hypotheses) *)
Example toy_sound : last_report_ok nat nat nat toy_repr (fun x => x)
  (run toy_fast toy_explicit toy_oracle (mkConfig [0; 1] 1 true true false true true true) 9 toy_init).
Proof. vm_compute. reflexivity. Qed.

(* pairing the remembered MTTKRP with another factor than the one of the last updated mode is not sound (the HALS defect
   repaired by b2515f1: last mode fixed, MTTKRP of the last-but-one mode multiplied with factors[-1]) *)
Theorem skeleton_wrong_pairing_refuted :
  exists (Orc : oracle nat) (C : config) (n : nat) (init : blocks nat),
    pair_with C <> last (modes C) 0 /\ norm_before_error C = false /\ report_linesearch C = true /\
    ~ last_report_ok nat nat nat toy_repr (fun x => x) (run toy_fast toy_explicit Orc C n init).
Proof.
  exists toy_oracle, (mkConfig [0] 1 false false false false true false), 1, toy_init.
  split; [simpl; discriminate|]. split; [reflexivity|]. split; [reflexivity|]. vm_compute. discriminate.
Qed.
