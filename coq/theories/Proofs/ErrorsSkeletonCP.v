(* C06 -- the loop skeleton instantiated with the CP algebra: over every commutative ring, for every order,
   shape, rank, data tensor and EVERY oracle (update rule, normalisation that only rescales, line-search jumps
   and decisions, stops), the values the MTTKRP shortcut produces along the loop are the squared residuals,
   recomputed from scratch, of the iterates they are reported with. *)
From Coq Require Import List Arith Lia Bool Ring.
From TLV Require Import Base.Shape Base.PyList Base.Tensor Base.BigSum Base.Ops Model.Errors Proofs.ErrorsProofs.
From TLV Require Import Proofs.ErrorsSkeleton.
Import ListNotations.

Section CPI.
Context {F : Type} (Op : fops F).
Hypothesis Rth : ring_theory (f0 Op) (f1 Op) (fadd Op) (fmul Op) (fsub Op) (fopp Op) (@eq F).
Add Ring Fr2 : Rth.
Local Notation "a *f b" := (fmul Op a b) (at level 40, left associativity).
Local Notation "1f" := (f1 Op).

(* ---------------------------------------------------------------- rescaling (cp_normalize) *)
Local Notation pF := (prodF Op).
Local Notation scl := (scaled Op).

Lemma prodl_scaled : forall dims gs gs' ds idx, scl dims gs gs' ds -> inb dims idx ->
  prodl Op gs idx = pF ds *f prodl Op gs' idx.
Proof.
  induction dims as [|n dims IH]; intros [|g gs] [|g' gs'] [|d ds] idx H Hin; simpl in H; try tauto.
  - destruct idx; simpl in Hin; [|tauto]. simpl. ring.
  - destruct H as [H1 H2]. destruct idx as [|i idx]; simpl in Hin; [tauto|]. destruct Hin as [Hi Hin].
    cbn [prodl prodF]. rewrite (IH gs gs' ds idx H2 Hin). rewrite (H1 i Hi). ring.
Qed.

(* a CP tensor whose columns are rescaled and whose weights absorb the scales represents the same tensor *)
Theorem cp_entry_rescale (s : list nat) (R : nat) (w w' : nat -> F) (cols cols' : nat -> list (nat -> F))
        (ds : nat -> list F) :
  (forall r, r < R -> length (cols r) = length s) ->
  (forall r, r < R -> scl s (cols r) (cols' r) (ds r)) ->
  (forall r, r < R -> w' r = w r *f pF (ds r)) ->
  forall idx, inb s idx -> cp_entry Op R w' cols' idx = cp_entry Op R w cols idx.
Proof.
  intros Hc Hs Hw idx Hin. unfold cp_entry. apply S_ext; intros r Hr.
  rewrite (prodl_scaled s (cols r) (cols' r) (ds r) idx (Hs r Hr) Hin). rewrite (Hw r Hr). ring.
Qed.

(* ---------------------------------------------------------------- the CP blocks *)
Variables (s : list nat) (X : list nat -> F) (R : nat).
Local Notation N := (length s).
Local Notation colsOf := (@cols_of F s).
Local Notation wOf := (@w_of F s).
Local Notation cpErr2 := (cp_err2 Op s X R).
Local Notation cpFast := (cp_fast Op s X R).
Local Notation resc := (rescaling Op s R).

Lemma cols_of_length st r : length (colsOf st r) = length s.
Proof. unfold cols_of. now rewrite map_length, seq_length. Qed.
Lemma cols_of_nth st r k : k < N -> nth k (colsOf st r) (fun _ => f0 Op) = fun i => st k i r.
Proof.
  intros Hk. unfold cols_of.
  rewrite (nth_indep _ (fun _ => f0 Op) ((fun k i => st k i r) 0)) by (now rewrite map_length, seq_length).
  rewrite (map_nth (fun k i => st k i r) (seq 0 N) 0 k). now rewrite seq_nth.
Qed.


Lemma cp_fast_right wm cur k snap : k < N -> (forall j, j <> k -> snap j = cur j) ->
  cpFast wm cur (k, snap) k = cpErr2 cur.
Proof.
  intros Hk Hs. unfold cp_fast, cp_err2. cbn [fst snd].
  assert (Hw : wOf snap = wOf cur) by (unfold w_of; rewrite (Hs N) by lia; reflexivity).
  set (u := if wm then wOf snap else ones Op). set (v := if wm then ones Op else wOf cur).
  assert (Huv : forall r, r < R -> u r *f v r = wOf cur r).
  { intros r _. unfold u, v. destruct wm; [rewrite Hw|]; unfold ones; ring. }
  rewrite <- (err2_fast_correct Op Rth s X R (wOf cur) u v (colsOf cur) k Hk
               (fun r _ => cols_of_length cur r) Huv).
  unfold err2_fast, err2_fast_with. f_equal. f_equal. unfold iprod.
  apply S_ext; intros r Hr. f_equal. apply S_ext; intros i Hi. f_equal.
  apply mttkrp_ignores_own_mode.
  - now rewrite !cols_of_length.
  - intros j Hj. destruct (Nat.lt_ge_cases j N) as [HjN | HjN].
    + rewrite !cols_of_nth by exact HjN. now rewrite (Hs j Hj).
    + rewrite !nth_overflow by (rewrite cols_of_length; exact HjN). reflexivity.
Qed.


Lemma rescaling_err2 st st' : resc st st' -> cpErr2 st' = cpErr2 st.
Proof.
  intros (ds & H1 & H2). unfold cp_err2, err2_true, dist2. apply SI_ext; intros idx Hin.
  now rewrite (cp_entry_rescale s R (wOf st) (wOf st') (colsOf st) (colsOf st') ds
                 (fun r _ => cols_of_length st r) H1 H2 idx Hin).
Qed.

(* the form the skeleton needs: any normalisation that keeps the squared residual *)
Theorem cp_loop_reports_true_errors_gen (wm : bool) (Orc : oracle blk) (C : config) :
  (forall st, cpErr2 (normalized Orc st) = cpErr2 st) ->
  well_formed C -> last (modes C) 0 < N ->
  forall (n : nat) (init : blocks blk),
  let l := run (cpFast wm) cpErr2 Orc C n init in
  Forall (good_event blk F F cpErr2 (fun e => e)) (trace l) /\
  last_report_ok blk F F cpErr2 (fun e => e) l /\
  last (trace l) EBreak = EReturn (cur l).
Proof.
  intros Hn WF Hl n init.
  apply (skeleton_sound_gen blk F F cpErr2 (fun e => e) (cpFast wm) cpErr2 Orc C (fun k => k < N)); auto.
  intros cur0 k snap Hk Hs. now apply cp_fast_right.
Qed.

Theorem cp_loop_reports_true_errors (wm : bool) (Orc : oracle blk) (C : config) :
  (forall st, resc st (normalized Orc st)) ->
  well_formed C -> last (modes C) 0 < N ->
  forall (n : nat) (init : blocks blk),
  let l := run (cpFast wm) cpErr2 Orc C n init in
  Forall (good_event blk F F cpErr2 (fun e => e)) (trace l) /\
  last_report_ok blk F F cpErr2 (fun e => e) l /\
  last (trace l) EBreak = EReturn (cur l).
Proof.
  intros Hn WF Hl n init.
  apply (skeleton_sound_gen blk F F cpErr2 (fun e => e) (cpFast wm) cpErr2 Orc C (fun k => k < N)); auto.
  - intros cur0 k snap Hk Hs. now apply cp_fast_right.
  - intros st. now apply rescaling_err2.
Qed.
End CPI.
