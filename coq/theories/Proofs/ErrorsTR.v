(* C06 -- tensor-ring ALS: the residual of the LAST least-squares sub-problem of a sweep, || design_mat . sol - X_(d)^T ||,
   is the residual of the tensor ring whose core d has just been rebuilt from sol: cyclicity of the mtrace.
   Every commutative ring, every order, every mode d, every bond dimensions. *)
From Coq Require Import List Arith Lia Bool Ring.
From TLV Require Import Base.Shape Base.PyList Base.Tensor Base.BigSum Base.Ops Model.Errors Proofs.ErrorsProofs.
Import ListNotations.


Section PTR.
Context {F : Type} (Op : fops F).
Hypothesis Rth : ring_theory (f0 Op) (f1 Op) (fadd Op) (fmul Op) (fsub Op) (fopp Op) (@eq F).
Add Ring Fr4 : Rth.
Local Notation "a *f b" := (fmul Op a b) (at level 40, left associativity).
Local Notation "a -f b" := (fsub Op a b) (at level 50, left associativity).
Local Notation S_ := (Fsum Op).

Lemma delta_l r (f : nat -> F) a : a < r -> S_ r (fun c => delta Op a c *f f c) = f a.
Proof.
  intros Ha. rewrite (S_single Op Rth r a); [unfold delta; rewrite Nat.eqb_refl; ring | exact Ha |].
  intros i _ Hi. unfold delta. destruct (Nat.eqb_spec a i); [congruence | ring].
Qed.

Lemma chain_app : forall (A B : list (nat * matF)) r0 x y, x < r0 ->
  S_ (endbond r0 A) (fun c => chain Op A x c *f chain Op B c y) = chain Op (A ++ B) x y.
Proof.
  induction A as [|[r M] A IH]; intros B r0 x y Hx; cbn [endbond chain app].
  - exact (delta_l r0 (fun c => chain Op B c y) x Hx).
  - rewrite (S_ext Op _ _ (fun c => S_ r (fun e => M x e *f (chain Op A e c *f chain Op B c y)))).
    2:{ intros c _. rewrite <- (S_scale_r Op Rth). apply S_ext; intros e _. ring. }
    rewrite (S_exchange Op Rth). apply S_ext; intros e He.
    rewrite (S_scale_l Op Rth). f_equal. now apply IH.
Qed.

(* cyclicity of the mtrace, in the form the ALS sub-problem uses it *)
Theorem trace_cyclic_split (A B : list (nat * matF)) (r0 r : nat) (M : matF) :
  endbond r B = r0 ->
  mtrace Op r0 (chain Op (A ++ (r, M) :: B)) =
  S_ (endbond r0 A) (fun a => S_ r (fun b => M a b *f chain Op (B ++ A) b a)).
Proof.
  intros HB. unfold mtrace.
  rewrite (S_ext Op r0 _ (fun x => S_ (endbond r0 A) (fun a => S_ r (fun b => M a b *f (chain Op B b x *f chain Op A x a))))).
  2:{ intros x Hx. rewrite <- (chain_app A ((r, M) :: B) r0 x x Hx). apply S_ext; intros a _.
      cbn [chain]. rewrite <- (S_scale_l Op Rth). apply S_ext; intros b _. ring. }
  rewrite (S_exchange Op Rth). apply S_ext; intros a _.
  rewrite (S_exchange Op Rth). apply S_ext; intros b Hb.
  rewrite (S_scale_l Op Rth). f_equal.
  rewrite <- (chain_app B A r b a Hb). now rewrite HB.
Qed.

Lemma slices_at_app (c1 c2 : list (@core F)) (i1 i2 : list nat) : length c1 = length i1 ->
  slices_at (c1 ++ c2) (i1 ++ i2) = slices_at c1 i1 ++ slices_at c2 i2.
Proof.
  revert i1. induction c1 as [|c c1 IH]; intros [|i i1] H; simpl in H; try lia; [reflexivity|].
  unfold slices_at in *. cbn. f_equal. apply IH. lia.
Qed.

Lemma endbond_slices : forall (cs : list (@core F)) idx r, length cs = length idx ->
  endbond r (slices_at cs idx) = endbond r (map (fun c => (fst c, fun a b => snd c a 0 b)) cs).
Proof.
  induction cs as [|[rc G] cs IH]; intros [|i idx] r H; simpl in H; try lia; [reflexivity|].
  cbn. apply IH. lia.
Qed.

Lemma endbond_app_cons : forall (L L' : list (nat * @matF F)) r rc M, endbond r (L ++ (rc, M) :: L') = endbond rc L'.
Proof. induction L as [|[r' M'] L IH]; intros L' r rc M; cbn; [reflexivity | apply IH]. Qed.

Lemma insert_at_split {A} (d : nat) (i : A) : forall l, d <= length l ->
  insert_at d i l = firstn d l ++ i :: skipn d l.
Proof.
  induction d; intros l H; [destruct l; reflexivity|].
  destruct l as [|x l]; simpl in H; [lia|]. cbn. f_equal. apply IHd. lia.
Qed.

(* the prediction of the sub-problem for mode d IS the entry of the tensor ring *)
Theorem ls_prediction_is_tr_entry (r0 : nat) (cores : list (@core F)) (d : nat) (idx' : list nat) (i : nat) :
  d < length cores -> length idx' = length cores - 1 ->
  endbond r0 (map (fun c => (fst c, fun a b => snd c a 0 b)) cores) = r0 ->
  ls_prediction Op r0 cores d idx' i = tr_entry Op r0 cores (insert_at d i idx').
Proof.
  intros Hd Hl Hring. unfold ls_prediction, tr_entry.
  set (pre := firstn d cores). set (post := skipn (S d) cores).
  set (cd := nth d cores (0, fun _ _ _ => f0 Op)).
  assert (Hc : cores = pre ++ cd :: post).
  { unfold pre, post, cd. rewrite <- (firstn_skipn d cores) at 1. f_equal.
    clear -Hd. revert cores Hd. induction d; intros [|c cs] H; simpl in H; try lia; [reflexivity|]. cbn. apply IHd. lia. }
  assert (Hpre : length pre = length (firstn d idx')) by (unfold pre; rewrite !firstn_length; lia).
  assert (Hpost : length post = length (skipn d idx')) by (unfold post; rewrite !skipn_length; lia).
  rewrite insert_at_split by lia.
  rewrite Hc at 1. rewrite slices_at_app by exact Hpre.
  change (slices_at (cd :: post) (i :: skipn d idx')) with ((fst cd, fun a b => snd cd a i b) :: slices_at post (skipn d idx')).
  rewrite trace_cyclic_split; [reflexivity|].
  rewrite endbond_slices by exact Hpost.
  rewrite Hc in Hring. rewrite map_app in Hring. cbn [map] in Hring.
  rewrite endbond_app_cons in Hring. exact Hring.
Qed.

(* the reported quantity: squared residual of the last sub-problem = squared residual of the ring *)
Theorem ls_residual_is_tr_error (s : list nat) (X : list nat -> F) (r0 : nat) (cores : list (@core F)) (d : nat) :
  length cores = length s -> d < length s ->
  endbond r0 (map (fun c => (fst c, fun a b => snd c a 0 b)) cores) = r0 ->
  ls_residual2 Op s X r0 cores d = dist2 Op s (tr_entry Op r0 cores) X.
Proof.
  intros Hl Hd Hring. unfold ls_residual2, dist2.
  rewrite (SI_split Op Rth d s) by exact Hd. apply S_ext; intros i _. apply SI_ext; intros idx' Hin.
  rewrite ls_prediction_is_tr_entry; [reflexivity | lia | | exact Hring].
  apply inb_length in Hin. rewrite Hin, remove_nth_length by exact Hd. lia.
Qed.
End PTR.

(* ---------------------------------------------------------------- round 6: the axis bookkeeping of tensor_ring_als (Model/Errors.v: subchain_axes,
   tr_idx).  The transposition by tr_idx puts the modes of the sub-chain in INCREASING order (the row order of matricize(tensor, [n != dim], [dim]))
   followed by the bond r_dim and then the bond r_{dim+1}: the column index of the design matrix is the row-major pair (a, b) with a < r_dim,
   b < r_{dim+1} - the same pair that indexes the rows of `sol` in reshape(sol, (rank[dim], rank[dim+1], shape[dim])), so that
   (design_mat @ sol)[idx', i] = sum_{a,b} subchain[b, idx', a] * core_dim[a, i, b], the ls_prediction of Model/Errors.v.  Every order, every mode. *)
Lemma remove_nth_seq : forall d a n, d < n -> remove_nth d (seq a n) = seq a d ++ seq (a + S d) (n - d - 1).
Proof.
  induction d as [|d IH]; intros a n Hd.
  - destruct n as [|n]; [lia|]. cbn [seq remove_nth app]. replace (a + 1) with (S a) by lia. replace (S n - 0 - 1) with n by lia. reflexivity.
  - destruct n as [|n]; [lia|]. cbn [seq remove_nth app]. rewrite IH by lia.
    replace (S a + S d) with (a + S (S d)) by lia. replace (n - d - 1) with (S n - S d - 1) by lia. reflexivity.
Qed.
Lemma nth_subchain_mid N dim j : 1 <= j <= N - 1 -> nth j (subchain_axes N dim) (ABond 0) = AMode ((dim + j) mod N).
Proof.
  intros Hj. unfold subchain_axes. destruct j as [|j]; [lia|]. cbn [nth].
  set (g := fun j0 => AMode ((dim + j0) mod N)).
  rewrite app_nth1 by (rewrite map_length, seq_length; lia).
  rewrite (nth_indep _ (ABond 0) (g 0)) by (rewrite map_length, seq_length; lia).
  rewrite map_nth, seq_nth by lia. reflexivity.
Qed.
Lemma nth_subchain_last N dim : 0 < N -> nth N (subchain_axes N dim) (ABond 0) = ABond dim.
Proof.
  intros HN. unfold subchain_axes. destruct N as [|N]; [lia|]. cbn [nth].
  rewrite app_nth2 by (rewrite map_length, seq_length; lia). rewrite map_length, seq_length.
  replace (N - (S N - 1)) with 0 by lia. reflexivity.
Qed.
Lemma map_seq_shift {A} (f g : nat -> A) : forall n a b, (forall i, i < n -> f (a + i) = g (b + i)) -> map f (seq a n) = map g (seq b n).
Proof.
  induction n as [|n IH]; intros a b H; [reflexivity|]. cbn [seq map]. f_equal.
  - specialize (H 0). rewrite !Nat.add_0_r in H. apply H. lia.
  - apply IH. intros i Hi. specialize (H (S i)). rewrite !Nat.add_succ_r in H. cbn. apply H. lia.
Qed.
Theorem tr_idx_sorts_modes N dim : dim < N ->
  permute_axes (subchain_axes N dim) (tr_idx N dim) = map AMode (remove_nth dim (seq 0 N)) ++ [ABond dim; ABond (dim + 1)].
Proof.
  intros Hd. unfold permute_axes, tr_idx. rewrite !map_app, !map_map. rewrite remove_nth_seq by exact Hd. rewrite map_app. rewrite <- app_assoc. f_equal; [|f_equal].
  - apply map_ext_in. intros i Hi. apply in_seq in Hi. rewrite nth_subchain_mid by lia.
    replace (dim + (i + N - dim)) with (i + 1 * N) by lia. rewrite Nat.mod_add by lia. rewrite Nat.mod_small by lia. reflexivity.
  - apply map_seq_shift. intros i Hi. cbn [Nat.add]. rewrite nth_subchain_mid by lia. rewrite Nat.mod_small by lia. f_equal. lia.
  - cbn [map]. rewrite nth_subchain_last by lia. reflexivity.
Qed.

Lemma tr_idx_length N dim : dim < N -> length (tr_idx N dim) = N + 1.
Proof. intros Hd. unfold tr_idx. rewrite !app_length, !map_length, !seq_length. cbn [length]. lia. Qed.
Lemma tr_design_sol_pairing ra rb a b : ravel [ra; rb] [a; b] = a * rb + b.
Proof. cbn. lia. Qed.
Theorem tr_idx_sorts_and_length N dim : dim < N ->
  permute_axes (subchain_axes N dim) (tr_idx N dim) = map AMode (remove_nth dim (seq 0 N)) ++ [ABond dim; ABond (dim + 1)] /\
  length (tr_idx N dim) = N + 1.
Proof. intros H. split; [now apply tr_idx_sorts_modes | now apply tr_idx_length]. Qed.

(* ---- round 7: the semantic checker of the bookkeeping is sound: `true` means the Prop-level statements hold for that (N, dim) *)
Lemma tr_axis_eqb_eq a b : tr_axis_eqb a b = true -> a = b.
Proof. destruct a, b; simpl; intros H; try discriminate; apply Nat.eqb_eq in H; now subst. Qed.
Lemma axes_eqb_eq : forall a b, axes_eqb a b = true -> a = b.
Proof.
  induction a as [|x a IH]; intros [|y b] H; simpl in H; try discriminate; [reflexivity|].
  apply andb_prop in H. destruct H as [H1 H2]. f_equal; [now apply tr_axis_eqb_eq | now apply IH].
Qed.
Theorem tr_bookkeeping_ok_sound N dim chain row_modes tr_perm cols sol_rows sol_perm :
  tr_bookkeeping_ok N dim chain row_modes tr_perm cols sol_rows sol_perm = true ->
  permute_axes (chain_axes N chain) tr_perm = map AMode row_modes ++ map (bond N) cols /\
  permute_axes (map (bond N) sol_rows ++ [AMode dim]) sol_perm = [bond N dim; AMode dim; bond N (dim + 1)] /\
  map (bond N) cols = map (bond N) sol_rows /\ adjacent N chain = true.
Proof.
  unfold tr_bookkeeping_ok. intros H.
  repeat (apply andb_prop in H; let H' := fresh "H" in destruct H as [H H']).
  repeat split; try (now apply axes_eqb_eq); assumption.
Qed.
(* the model's own pieces pass the checker on a sample of orders (the universal statement about tr_idx is tr_idx_sorts_modes above) *)
Lemma tr_bookkeeping_model_ok_sample :
  forallb (fun N => forallb (fun dim => tr_bookkeeping_model_ok N dim) (seq 0 N)) (seq 2 6) = true.
Proof. vm_compute. reflexivity. Qed.

(* ---- the model's own pieces pass the checker for EVERY order >= 2 and every mode (universal; the sample above is an instance) *)
Definition relabel (N : nat) (a : tr_axis) : tr_axis := match a with ABond k => ABond (k mod N) | AMode k => AMode k end.
Lemma tr_axis_eqb_refl a : tr_axis_eqb a a = true.
Proof. destruct a; simpl; apply Nat.eqb_refl. Qed.
Lemma axes_eqb_refl : forall l, axes_eqb l l = true.
Proof. induction l as [|a l IH]; simpl; [reflexivity|]. now rewrite tr_axis_eqb_refl, IH. Qed.
Lemma permute_axes_relabel N l perm : N <> 0 -> permute_axes (map (relabel N) l) perm = map (relabel N) (permute_axes l perm).
Proof.
  intros HN. unfold permute_axes. rewrite map_map. apply map_ext. intros p.
  replace (ABond 0) with (relabel N (ABond 0)) at 1 by (simpl; now rewrite Nat.mod_0_l).
  apply map_nth.
Qed.
Lemma last_map_seq {A} (f : nat -> A) : forall k a d, last (map f (seq a (S k))) d = f (a + k).
Proof.
  induction k as [|k IH]; intros a d; [cbn; now rewrite Nat.add_0_r|].
  change (seq a (S (S k))) with (a :: seq (S a) (S k)). cbn [map].
  change (last (f a :: map f (seq (S a) (S k))) d) with (last (map f (seq (S a) (S k))) d).
  rewrite IH. f_equal. lia.
Qed.
Lemma adjacent_chain N dim : N <> 0 -> forall len a, adjacent N (map (fun j => (dim + j) mod N) (seq a len)) = true.
Proof.
  intros HN. induction len as [|len IH]; intros a; [reflexivity|].
  cbn [seq map adjacent]. destruct len as [|len]; [reflexivity|].
  specialize (IH (S a)). cbn [seq map] in *. rewrite IH, andb_true_r. apply Nat.eqb_eq.
  rewrite Nat.add_mod_idemp_l by exact HN. f_equal. lia.
Qed.
Lemma chain_axes_model N dim : 2 <= N -> chain_axes N (tr_chain N dim) = map (relabel N) (subchain_axes N dim).
Proof.
  intros HN. assert (HN0 : N <> 0) by lia. unfold tr_chain, subchain_axes.
  destruct N as [|[|k]]; [lia | lia |]. replace (S (S k) - 1) with (S k) by lia.
  set (N := S (S k)) in *. set (f := fun j => (dim + j) mod N).
  unfold chain_axes. change (seq 1 (S k)) with (1 :: seq 2 k) at 1. cbn [map].
  change (f 1 :: map f (seq 2 k)) with (map f (seq 1 (S k))).
  rewrite last_map_seq. cbn [map relabel]. rewrite map_app, !map_map. cbn [map relabel]. unfold bond, f.
  assert (E : ((dim + (1 + k)) mod N + 1) mod N = dim mod N).
  { rewrite Nat.add_mod_idemp_l by exact HN0. replace (dim + (1 + k) + 1) with (dim + 1 * N) by (unfold N; lia).
    now rewrite Nat.mod_add by exact HN0. }
  rewrite E, Nat.mod_mod by exact HN0. reflexivity.
Qed.
Theorem tr_bookkeeping_model_ok_all N dim : 2 <= N -> dim < N -> tr_bookkeeping_model_ok N dim = true.
Proof.
  intros HN Hd. assert (HN0 : N <> 0) by lia. unfold tr_bookkeeping_model_ok, tr_bookkeeping_ok.
  rewrite !andb_true_iff. repeat split.
  - unfold tr_chain. now apply adjacent_chain.
  - apply forallb_forall. intros c Hc. unfold tr_chain in Hc. apply in_map_iff in Hc. destruct Hc as (j & <- & _).
    apply Nat.ltb_lt. now apply Nat.mod_upper_bound.
  - apply forallb_forall. intros p Hp. apply Nat.ltb_lt. unfold tr_chain. rewrite map_length, seq_length.
    unfold tr_idx in Hp. rewrite !in_app_iff in Hp. destruct Hp as [Hp | [Hp | Hp]].
    + apply in_map_iff in Hp. destruct Hp as (i & <- & Hi). apply in_seq in Hi. lia.
    + apply in_map_iff in Hp. destruct Hp as (i & <- & Hi). apply in_seq in Hi. lia.
    + simpl in Hp. lia.
  - rewrite chain_axes_model by exact HN. rewrite permute_axes_relabel by exact HN0.
    rewrite (tr_idx_sorts_modes N dim Hd). rewrite map_app, map_map. cbn [map relabel]. apply axes_eqb_refl.
  - cbn. now rewrite !Nat.eqb_refl.
  - apply axes_eqb_refl.
Qed.

(* ---- helper equalities for the optional universal form of the ast tie (the pieces in the syntactic form the source has today) *)
Lemma filter_neq_seq : forall d a n, d < n ->
  filter (fun x => negb (Nat.eqb x (a + d))) (seq a n) = seq a d ++ seq (a + S d) (n - d - 1).
Proof.
  induction d as [|d IH]; intros a n Hd.
  - destruct n as [|n]; [lia|]. cbn [seq filter app]. rewrite Nat.add_0_r, Nat.eqb_refl. cbn [negb].
    replace (a + 1) with (S a) by lia. replace (S n - 0 - 1) with n by lia.
    assert (H : forall m b, a < b -> filter (fun x => negb (Nat.eqb x a)) (seq b m) = seq b m).
    { induction m as [|m IHm]; intros b Hb; [reflexivity|]. cbn [seq filter].
      destruct (Nat.eqb_spec b a); [lia|]. cbn [negb]. f_equal. apply IHm. lia. }
    apply H. lia.
  - destruct n as [|n]; [lia|]. cbn [seq filter app]. destruct (Nat.eqb_spec a (a + S d)); [lia|]. cbn [negb]. f_equal.
    replace (a + S d) with (S a + d) by lia. rewrite IH by lia.
    replace (n - d - 1) with (S n - S d - 1) by lia. replace (a + S (S d)) with (S a + S d) by lia. reflexivity.
Qed.
Lemma filter_neq_seq0 N dim : dim < N -> filter (fun x => negb (Nat.eqb x dim)) (seq 0 N) = remove_nth dim (seq 0 N).
Proof. intros Hd. rewrite remove_nth_seq by exact Hd. exact (filter_neq_seq dim 0 N Hd). Qed.
Lemma tr_chain_unfold N dim : 2 <= N -> tr_chain N dim = ((dim + 1) mod N) :: map (fun j => (dim + j) mod N) (seq 2 (N - 2)).
Proof. intros HN. unfold tr_chain. destruct N as [|[|k]]; [lia | lia |]. replace (S (S k) - 1) with (S k) by lia. replace (S (S k) - 2) with k by lia. reflexivity. Qed.
