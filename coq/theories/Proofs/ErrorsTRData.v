(* C06 -- tensor-ring ALS on data, first universal step of "tr_residual2_data = ls_residual2":
   the SUB-CHAIN tensor that _tr_als.py builds by successive tensordot(., ., axes=1) calls has, at every in-bounds index
   (a, i_1 .. i_k, b), the index-level matrix-chain product  chain (slices_at cores [i_1 .. i_k]) a b  that the trace-cyclicity
   theorems (Proofs/ErrorsTR.v) are about.  Every commutative ring, every number of cores, every bond / mode dimensions. *)
From Coq Require Import List Arith Lia Bool Ring.
From TLV Require Import Base.Shape Base.PyList Base.Tensor Base.BigSum Base.Ops Model.Errors Proofs.ErrorsProofs Proofs.ErrorsTR.
Import ListNotations.

Section PTRD.
Context {F : Type} (Op : fops F).
Hypothesis Rth : ring_theory (f0 Op) (f1 Op) (fadd Op) (fmul Op) (fsub Op) (fopp Op) (@eq F).
Add Ring Fr5 : Rth.
Local Notation "a *f b" := (fmul Op a b) (at level 40, left associativity).
Local Notation S_ := (Fsum Op).
Local Notation gt_ := (get (f0 Op)).

Lemma delta_r r (f : nat -> F) b : b < r -> S_ r (fun c => f c *f delta Op c b) = f b.
Proof.
  intros Hb. rewrite (S_single Op Rth r b); [unfold delta; rewrite Nat.eqb_refl; ring | exact Hb |].
  intros i _ Hi. unfold delta. destruct (Nat.eqb_spec i b); [congruence | ring].
Qed.

(* one entry of tensordot(a, b, axes=1) *)
Lemma tensordot1_get (a b : tensor F) idx :
  inb (removelast (shape a) ++ tl (shape b)) idx ->
  gt_ (tensordot1 Op a b) idx =
  S_ (last (shape a) 0) (fun c => gt_ a (firstn (length (removelast (shape a))) idx ++ [c]) *f gt_ b (c :: skipn (length (removelast (shape a))) idx)).
Proof. intros H. unfold tensordot1. now rewrite get_tabulate. Qed.

Lemma tensordot1_shape (a b : tensor F) : shape (tensordot1 Op a b) = removelast (shape a) ++ tl (shape b).
Proof. reflexivity. Qed.

(* the cores consumed so far, as index-level cores *)
Definition cores_of (cs : list (tensor F)) : list (@core F) := map (core_of Op) cs.

(* invariant of the accumulator: shape (r0, n_1 .. n_k, r_k), and every in-bounds entry is the chain product of the consumed cores *)
Definition sub_inv (acc : tensor F) (r0 : nat) (done : list (tensor F)) (ns : list nat) (rk : nat) : Prop :=
  shape acc = r0 :: ns ++ [rk] /\ length done = length ns /\
  (forall js, length js = length ns -> endbond r0 (slices_at (cores_of done) js) = rk) /\
  (forall a js c, inb (r0 :: ns ++ [rk]) (a :: js ++ [c]) -> gt_ acc (a :: js ++ [c]) = chain Op (slices_at (cores_of done) js) a c).

Lemma inb_cons_inv d s i idx : inb (d :: s) (i :: idx) -> i < d /\ inb s idx.
Proof. simpl. tauto. Qed.

Lemma inb_snoc_inv : forall s js d c, length js = length s -> inb (s ++ [d]) (js ++ [c]) -> inb s js /\ c < d.
Proof.
  intros s js d c Hl H. destruct (inb_app_inv s [d] js [c] Hl H) as [H1 H2]. split; [exact H1 | simpl in H2; tauto].
Qed.

Lemma inb_snoc : forall s js d c, inb s js -> c < d -> inb (s ++ [d]) (js ++ [c]).
Proof. intros. apply inb_app; [assumption | simpl; tauto]. Qed.

(* base: a single core *)
Lemma sub_inv_base (c1 : tensor F) r0 n1 r1 : shape c1 = [r0; n1; r1] -> sub_inv c1 r0 [c1] [n1] r1.
Proof.
  intros Hs. unfold sub_inv. rewrite Hs. repeat split.
  - intros [|j [|j' js]] Hl; simpl in Hl; try lia. cbn. now rewrite Hs.
  - intros a js c Hin.
    assert (Hl : length (a :: js ++ [c]) = 3) by (now rewrite (inb_length _ _ Hin)).
    destruct js as [|j [|j' js]]; cbn in Hl; try rewrite app_length in Hl; cbn in Hl; try lia.
    cbn in Hin. destruct Hin as (Ha & Hj & Hc & _).
    cbn [app cores_of map slices_at combine fst snd chain core_of]. rewrite Hs. cbn [nth].
    now rewrite (delta_r r1 (fun e => gt_ c1 [a; j; e]) c Hc).
Qed.

(* step: one more tensordot *)
Lemma sub_inv_step (acc c : tensor F) r0 done ns rk n r' :
  sub_inv acc r0 done ns rk -> shape c = [rk; n; r'] ->
  sub_inv (tensordot1 Op acc c) r0 (done ++ [c]) (ns ++ [n]) r'.
Proof.
  intros (Hs & Hl & He & Hg) Hc.
  assert (Hrl : removelast (shape acc) = r0 :: ns) by (rewrite Hs; change (r0 :: ns ++ [rk]) with ((r0 :: ns) ++ [rk]); apply removelast_last).
  assert (Hla : last (shape acc) 0 = rk) by (rewrite Hs; change (r0 :: ns ++ [rk]) with ((r0 :: ns) ++ [rk]); apply last_last).
  assert (Hshape : shape (tensordot1 Op acc c) = r0 :: (ns ++ [n]) ++ [r']).
  { rewrite tensordot1_shape, Hrl, Hc. cbn. now rewrite <- app_assoc. }
  unfold sub_inv. split; [exact Hshape | split; [now rewrite !app_length, Hl | split]].
  - intros js Hjs. rewrite app_length in Hjs; cbn in Hjs.
    destruct (exists_last (l := js)) as (js0 & j & ->); [intros ->; cbn in Hjs; lia |].
    rewrite app_length in Hjs; cbn in Hjs.
    unfold cores_of. rewrite map_app. rewrite slices_at_app by (rewrite map_length; lia).
    cbn [map slices_at combine app].
    etransitivity; [apply (endbond_app_cons (slices_at (map (core_of Op) done) js0) [] r0) |]. cbn. now rewrite Hc.
  - intros a js b Hin.
    assert (Hlen : length js = length (ns ++ [n])).
    { pose proof (inb_length _ _ Hin) as E. cbn in E. rewrite !app_length in E. cbn in E. rewrite app_length. cbn. lia. }
    rewrite app_length in Hlen; cbn in Hlen.
    destruct (exists_last (l := js)) as (js0 & i & ->); [intros ->; cbn in Hlen; lia |].
    rewrite app_length in Hlen; cbn in Hlen. assert (Hl0 : length js0 = length ns) by lia.
    (* bounds *)
    destruct (inb_cons_inv _ _ _ _ Hin) as [Ha Hrest].
    destruct (inb_snoc_inv (ns ++ [n]) (js0 ++ [i]) r' b) as [Hmid Hb]; [rewrite !app_length; cbn; lia | exact Hrest |].
    destruct (inb_snoc_inv ns js0 n i Hl0 Hmid) as [Hjs0 Hi].
    rewrite tensordot1_get.
    2:{ rewrite Hrl, Hc. cbn [tl]. change (r0 :: ns) with ([r0] ++ ns). rewrite <- !app_assoc. cbn [app].
        cbn. split; [exact Ha |]. apply inb_app; [exact Hjs0 | cbn; tauto]. }
    rewrite Hrl, Hla. cbn [length].
    assert (Hf : firstn (S (length ns)) (a :: (js0 ++ [i]) ++ [b]) = a :: js0).
    { cbn [firstn]. f_equal. rewrite <- app_assoc. rewrite <- Hl0. rewrite firstn_app, Nat.sub_diag, firstn_all. cbn. now rewrite app_nil_r. }
    assert (Hk : skipn (S (length ns)) (a :: (js0 ++ [i]) ++ [b]) = [i; b]).
    { cbn [skipn]. rewrite <- app_assoc. rewrite <- Hl0. rewrite skipn_app, Nat.sub_diag, skipn_all. reflexivity. }
    rewrite Hf, Hk.
    rewrite (S_ext Op rk _ (fun e => chain Op (slices_at (cores_of done) js0) a e *f chain Op [(r', fun x y => gt_ c [x; i; y])] e b)).
    2:{ intros e Hlt. cbn [app]. rewrite (Hg a js0 e).
        2:{ cbn. split; [exact Ha |]. apply inb_snoc; assumption. }
        f_equal. cbn [chain]. now rewrite (delta_r r' (fun y => gt_ c [e; i; y]) b Hb). }
    rewrite <- (He js0 Hl0).
    rewrite (chain_app Op Rth _ _ r0 a b Ha).
    unfold cores_of. rewrite map_app. rewrite slices_at_app by (rewrite map_length; lia).
    cbn [map slices_at combine app core_of fst snd]. now rewrite Hc.
Qed.

(* consecutive cores with matching bond dimensions: shape c_j = (r_j, n_j, r_{j+1}) *)
Fixpoint bonds (rk : nat) (cs : list (tensor F)) (ms : list nat) (rend : nat) : Prop :=
  match cs, ms with
  | [], [] => rk = rend
  | c :: cs', n :: ms' => exists r', shape c = [rk; n; r'] /\ bonds r' cs' ms' rend
  | _, _ => False
  end.

Theorem sub_inv_fold : forall (cs : list (tensor F)) (ms : list nat) (acc : tensor F) r0 done ns rk rend,
  sub_inv acc r0 done ns rk -> bonds rk cs ms rend ->
  sub_inv (fold_left (tensordot1 Op) cs acc) r0 (done ++ cs) (ns ++ ms) rend.
Proof.
  induction cs as [|c cs IH]; intros [|n ms] acc r0 done ns rk rend Hinv Hb; cbn in Hb; try contradiction.
  - subst rend. now rewrite !app_nil_r.
  - destruct Hb as (r' & Hc & Hb'). cbn [fold_left].
    replace (done ++ c :: cs) with ((done ++ [c]) ++ cs) by (now rewrite <- app_assoc).
    replace (ns ++ n :: ms) with ((ns ++ [n]) ++ ms) by (now rewrite <- app_assoc).
    eapply IH; [eapply sub_inv_step; eassumption | exact Hb'].
Qed.

(* the sub-chain of tensor_ring_als for mode dim, exactly as Model/Errors.v:tr_design_data builds it *)
Definition tr_subchain_data (cores : list (tensor F)) (dim : nat) : tensor F :=
  let N := length cores in
  let core := fun k => nth k cores (mk [] []) in
  fold_left (fun acc j => tensordot1 Op acc (core ((dim + j) mod N))) (seq 2 (N - 2)) (core ((dim + 1) mod N)).

Lemma tr_design_data_uses_subchain (cores : list (tensor F)) (dim : nat) :
  tr_design_data Op cores dim =
  (let subT := transpose (f0 Op) (tr_idx (length cores) dim) (tr_subchain_data cores dim) in
   let cols := nth 0 (shape (nth dim cores (mk [] []))) 0 * nth 2 (shape (nth dim cores (mk [] []))) 0 in
   reshape [prod (shape subT) / cols; cols] subT).
Proof. reflexivity. Qed.

Lemma fold_left_map_arg {A B C} (f : A -> B -> A) (g : C -> B) : forall (l : list C) (a : A),
  fold_left (fun acc j => f acc (g j)) l a = fold_left f (map g l) a.
Proof. induction l as [|x l IH]; intros a; cbn; [reflexivity | apply IH]. Qed.

(* the cores of the sub-chain in contraction order: dim+1, dim+2, .., dim+N-1 (mod N) *)
Definition tr_chain_cores (cores : list (tensor F)) (dim : nat) : list (tensor F) :=
  map (fun j => nth ((dim + j) mod length cores) cores (mk [] [])) (seq 1 (length cores - 1)).

Theorem tr_subchain_data_is_chain (cores : list (tensor F)) (dim : nat) (r0 rend : nat) (ms : list nat) :
  2 <= length cores ->
  bonds r0 (tr_chain_cores cores dim) ms rend ->
  shape (tr_subchain_data cores dim) = r0 :: ms ++ [rend] /\
  forall a js b, inb (r0 :: ms ++ [rend]) (a :: js ++ [b]) ->
    gt_ (tr_subchain_data cores dim) (a :: js ++ [b]) = chain Op (slices_at (cores_of (tr_chain_cores cores dim)) js) a b.
Proof.
  intros HN Hb. unfold tr_subchain_data, tr_chain_cores in *.
  set (N := length cores) in *. set (core := fun k => nth k cores (mk [] [])).
  replace (seq 1 (N - 1)) with (1 :: seq 2 (N - 2)) in * by (replace (N - 1) with (S (N - 2)) by lia; reflexivity).
  cbn [map] in Hb |- *. destruct ms as [|n1 ms]; [cbn in Hb; contradiction |].
  cbn [bonds] in Hb. destruct Hb as (r1 & Hc1 & Hrest).
  rewrite (fold_left_map_arg (tensordot1 Op) (fun j => core ((dim + j) mod N))).
  pose proof (sub_inv_fold _ _ _ r0 [core ((dim + 1) mod N)] [n1] r1 rend (sub_inv_base _ _ _ _ Hc1) Hrest) as (Hs & _ & _ & Hg).
  cbn [app] in Hs, Hg. split; [exact Hs | exact Hg].
Qed.

End PTRD.
