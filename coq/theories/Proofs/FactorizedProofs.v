(* Lemmas about Model/Factorized.v over an arbitrary commutative ring (part 1: helpers, CP). *)
From Coq Require Import List Arith Lia Bool Ring.
From TLV Require Import Base.Shape Base.PyList Base.Tensor Base.BigSum Base.Ops Model.Base Model.Factorized Proofs.BaseProofs.
Import ListNotations.

(* ---------- index facts ---------- *)
Lemma inb_snoc_inv s : forall n idx, inb (s ++ [n]) idx ->
  exists ia i, idx = ia ++ [i] /\ inb s ia /\ i < n.
Proof.
  induction s as [|d s IH]; intros n idx H.
  - destruct idx as [|i [|j r]]; simpl in H; try tauto. exists [], i. simpl. tauto.
  - destruct idx as [|j idx]; simpl in H; [tauto|]. destruct H as [Hj H].
    destruct (IH _ _ H) as (ia & i & -> & Hia & Hi). exists (j :: ia), i. simpl. tauto.
Qed.

Lemma ravel_single n i : ravel [n] [i] = i.
Proof. simpl. lia. Qed.

Lemma ravel_snoc s n ia i : length ia = length s -> ravel (s ++ [n]) (ia ++ [i]) = ravel s ia * n + i.
Proof. intros H. rewrite ravel_app by exact H. simpl. lia. Qed.

Lemma prod_snoc s n : prod (s ++ [n]) = prod s * n.
Proof. rewrite prod_app. simpl. lia. Qed.

Lemma inb2 n m i j : i < n -> j < m -> inb [n; m] [i; j].
Proof. simpl. tauto. Qed.

Section P.
Variable F : Type.
Variable Op : fops F.
Hypothesis Rth : ring_theory (f0 Op) (f1 Op) (fadd Op) (fmul Op) (fsub Op) (fopp Op) (@eq F).
Add Ring Fr : Rth.
Notation zero := (f0 Op).
Notation one := (f1 Op).
Notation "a *f b" := (fmul Op a b) (at level 40, left associativity).
Notation "a +f b" := (fadd Op a b) (at level 50, left associativity).
Notation tensor := (tensor F).
Notation fsumn := (fsumn Op).
Notation get2 := (get2 Op).
Notation get1 := (get1 Op).

(* bigsum lemmas specialised to the record *)
Lemma fsumn_ext n f g : (forall i, i < n -> f i = g i) -> fsumn n f = fsumn n g.
Proof. apply bigsum_ext. Qed.
Lemma fsumn_scale_l n c f : fsumn n (fun i => c *f f i) = c *f fsumn n f.
Proof. apply (bigsum_scale_l F _ _ _ _ _ _ Rth). Qed.
Lemma fsumn_scale_r n c f : fsumn n (fun i => f i *f c) = fsumn n f *f c.
Proof. apply (bigsum_scale_r F _ _ _ _ _ _ Rth). Qed.
Lemma fsumn_exchange n m (f : nat -> nat -> F) :
  fsumn n (fun i => fsumn m (fun j => f i j)) = fsumn m (fun j => fsumn n (fun i => f i j)).
Proof. apply (bigsum_exchange F _ _ _ _ _ _ Rth). Qed.
Lemma fsumn_add n f g : fsumn n (fun i => f i +f g i) = fsumn n f +f fsumn n g.
Proof. apply (bigsum_add F _ _ _ _ _ _ Rth). Qed.
Lemma fsumn_zero n f : (forall i, i < n -> f i = zero) -> fsumn n f = zero.
Proof. apply (bigsum_zero F _ _ _ _ _ _ Rth). Qed.
Lemma fsumn_single n k f : k < n -> (forall i, i < n -> i <> k -> f i = zero) -> fsumn n f = f k.
Proof. apply (bigsum_single F _ _ _ _ _ _ Rth). Qed.
Lemma fsumn_1 f : fsumn 1 f = f 0.
Proof. unfold Factorized.fsumn. simpl. ring. Qed.

(* ---------- entries of the small matrix helpers ---------- *)
Lemma get2_tab n m f i j : i < n -> j < m -> get2 (tabulate [n; m] f) i j = f [i; j].
Proof. intros Hi Hj. unfold Factorized.get2. apply get_tabulate. now apply inb2. Qed.
Lemma get1_tab n f i : i < n -> get1 (tabulate [n] f) i = f [i].
Proof. intros Hi. unfold Factorized.get1. apply get_tabulate. simpl. tauto. Qed.

Lemma mdot_ok (A B : tensor) n k m : shape A = [n; k] -> shape B = [k; m] ->
  mdot Op A B = Ok (tabulate [n; m] (fun idx => fsumn k (fun l => get2 A (ix 0 idx) l *f get2 B l (ix 1 idx)))).
Proof.
  intros HA HB. unfold mdot, ndim, nrows, ncols. rewrite HA, HB. simpl. rewrite Nat.eqb_refl. reflexivity.
Qed.
Lemma shape_mT (A : tensor) n m : shape A = [n; m] -> shape (mT Op A) = [m; n].
Proof. intros H. unfold mT, nrows, ncols. rewrite H. reflexivity. Qed.
Lemma get2_mT (A : tensor) n m i j : shape A = [n; m] -> i < m -> j < n -> get2 (mT Op A) i j = get2 A j i.
Proof. intros H Hi Hj. unfold mT, nrows, ncols. rewrite H. simpl nth. rewrite get2_tab by assumption. reflexivity. Qed.
Lemma shape_scale_cols (A w : tensor) n m : shape A = [n; m] -> shape (scale_cols Op A w) = [n; m].
Proof. intros H. unfold scale_cols, nrows, ncols. rewrite H. reflexivity. Qed.
Lemma get2_scale_cols (A w : tensor) n m i j : shape A = [n; m] -> i < n -> j < m ->
  get2 (scale_cols Op A w) i j = get2 A i j *f get1 w j.
Proof. intros H Hi Hj. unfold scale_cols, nrows, ncols. rewrite H. simpl nth. rewrite get2_tab by assumption. reflexivity. Qed.
Lemma shape_opt_scale w (A : tensor) n m : shape A = [n; m] -> shape (opt_scale Op w A) = [n; m].
Proof. destruct w; cbn [opt_scale]; auto. apply shape_scale_cols. Qed.
Lemma get2_opt_scale w (A : tensor) n m i j : shape A = [n; m] -> i < n -> j < m ->
  get2 (opt_scale Op w A) i j = get2 A i j *f wv Op w j.
Proof.
  intros H Hi Hj. destruct w; cbn [opt_scale wv].
  - now apply get2_scale_cols with (n := n) (m := m).
  - ring.
Qed.
Lemma shape_kr2 (A B : tensor) n m R : shape A = [n; R] -> shape B = [m; R] -> shape (kr2 Op A B) = [n * m; R].
Proof. intros HA HB. unfold kr2, nrows, ncols. rewrite HA, HB. reflexivity. Qed.
Lemma get2_kr2 (A B : tensor) n m R i j r : shape A = [n; R] -> shape B = [m; R] -> i < n -> j < m -> r < R ->
  get2 (kr2 Op A B) (i * m + j) r = get2 A i r *f get2 B j r.
Proof.
  intros HA HB Hi Hj Hr. unfold kr2, nrows, ncols. rewrite HA, HB. simpl nth.
  rewrite get2_tab by (try assumption; nia). unfold ix. cbn [nth].
  assert (Hm : m <> 0) by lia.
  rewrite Nat.div_add_l by exact Hm. rewrite (Nat.div_small j m) by exact Hj. rewrite Nat.add_0_r.
  rewrite Nat.add_comm, Nat.mod_add by exact Hm. rewrite Nat.mod_small by exact Hj. reflexivity.
Qed.

(* ---------- the defining CP term ---------- *)
Fixpoint prod_entries (fs : list tensor) (idx : list nat) (r : nat) : F :=
  match fs, idx with
  | f :: fs', i :: idx' => get2 f i r *f prod_entries fs' idx' r
  | _, _ => one
  end.

(* all factors are (n_k x R) matrices *)
Definition mats (R : nat) (fs : list tensor) (ns : list nat) : Prop := Forall2 (fun f n => shape f = [n; R]) fs ns.

Lemma mats_length R fs ns : mats R fs ns -> length fs = length ns.
Proof. induction 1; simpl; auto. Qed.

(* the left-to-right Khatri-Rao loop: row ravel(is), column r holds prod_k A_k[i_k, r] *)
Lemma kr_fold R : forall ms ns (acc : tensor) sacc (P : list nat -> nat -> F),
  mats R ms ns -> shape acc = [prod sacc; R] ->
  (forall ia r, inb sacc ia -> r < R -> get2 acc (ravel sacc ia) r = P ia r) ->
  let K := fold_left (kr2 Op) ms acc in
  shape K = [prod (sacc ++ ns); R] /\
  forall ia js r, inb sacc ia -> inb ns js -> r < R ->
    get2 K (ravel (sacc ++ ns) (ia ++ js)) r = P ia r *f prod_entries ms js r.
Proof.
  induction ms as [|f ms IH]; intros ns acc sacc P Hm Hs HP; inversion Hm; subst; simpl.
  - rewrite app_nil_r. split; [exact Hs|]. intros ia js r Hia Hjs Hr. destruct js; simpl in Hjs; [|tauto].
    rewrite app_nil_r, HP by assumption. ring.
  - rename y into n, l' into ns'.
    specialize (IH ns' (kr2 Op acc f) (sacc ++ [n])
                  (fun ia' r => P (removelast ia') r *f get2 f (last ia' 0) r) H3).
    assert (Hs' : shape (kr2 Op acc f) = [prod (sacc ++ [n]); R])
      by (rewrite prod_snoc; now apply shape_kr2).
    specialize (IH Hs').
    assert (HP' : forall ia' r, inb (sacc ++ [n]) ia' -> r < R ->
              get2 (kr2 Op acc f) (ravel (sacc ++ [n]) ia') r = P (removelast ia') r *f get2 f (last ia' 0) r).
    { intros ia' r H' Hr. destruct (inb_snoc_inv _ _ _ H') as (ia & i & -> & Hia & Hi).
      rewrite ravel_snoc by (now apply inb_length).
      rewrite (get2_kr2 acc f (prod sacc) n R) by (auto; now apply ravel_lt).
      rewrite HP by assumption. rewrite removelast_last, last_last. reflexivity. }
    specialize (IH HP'). cbv zeta in IH. destruct IH as [IH1 IH2].
    rewrite <- app_assoc in IH1. simpl in IH1. split; [exact IH1|].
    intros ia js r Hia Hjs Hr. destruct js as [|i js]; simpl in Hjs; [tauto|]. destruct Hjs as [Hi Hjs].
    specialize (IH2 (ia ++ [i]) js r).
    rewrite <- !app_assoc in IH2. simpl in IH2. rewrite IH2; auto.
    + rewrite removelast_last, last_last. simpl. ring.
    + apply inb_app; simpl; auto.
Qed.

Lemma khatri_rao_spec R f ms n ns :
  shape f = [n; R] -> mats R ms ns ->
  exists K, khatri_rao Op (f :: ms) = Ok K /\ shape K = [prod (n :: ns); R] /\
    forall js r, inb (n :: ns) js -> r < R -> get2 K (ravel (n :: ns) js) r = prod_entries (f :: ms) js r.
Proof.
  intros Hf Hm. exists (fold_left (kr2 Op) ms f). split; [reflexivity|].
  destruct (kr_fold R ms ns f [n] (fun ia r => get2 f (hd 0 ia) r) Hm) as [H1 H2].
  - rewrite Hf. simpl. f_equal. lia.
  - intros ia r Hia Hr. destruct ia as [|i [|? ?]]; simpl in Hia; try tauto. now rewrite ravel_single.
  - split; [exact H1|]. intros js r Hjs Hr. destruct js as [|i js]; simpl in Hjs; [tauto|]. destruct Hjs as [Hi Hjs].
    specialize (H2 [i] js r). simpl app in H2. rewrite H2; simpl; auto.
Qed.

(* ---------- _validate_cp_tensor ---------- *)
Definition cp_factor_ok (R : nat) (f : tensor) (n : nat) : Prop := shape f = [n; R] \/ (R = 1 /\ shape f = [n]).
Definition cp_wellformed (w : option tensor) (fs : list tensor) (shp : list nat) (R : nat) : Prop :=
  fs <> [] /\ Forall2 (cp_factor_ok R) fs shp /\ match w with None => True | Some wt => shape wt = [R] end.

Lemma cp_factor_dims_iff (f : tensor) n R : cp_factor_dims f = Ok (n, R) <-> cp_factor_ok R f n.
Proof.
  unfold cp_factor_dims, cp_factor_ok. destruct (shape f) as [|a [|b [|c l]]]; split; intros H;
    try discriminate; try (destruct H as [H|[_ H]]; discriminate).
  - injection H as -> <-. right. auto.
  - destruct H as [H|[-> H]]; [discriminate|]. injection H as ->. reflexivity.
  - injection H as -> ->. left. reflexivity.
  - destruct H as [H|[_ H]]; [|discriminate]. injection H as -> ->. reflexivity.
Qed.

Lemma cp_shapes_iff R : forall (fs : list tensor) shp, cp_shapes R fs = Ok shp <-> Forall2 (cp_factor_ok R) fs shp.
Proof.
  induction fs as [|f fs IH]; intros shp; simpl.
  - split; intros H; [injection H as <-; constructor | inversion H; reflexivity].
  - split.
    + destruct (cp_factor_dims f) as [[n c]|] eqn:E; simpl; [|discriminate].
      destruct (Nat.eqb_spec c R) as [->|]; [|discriminate].
      destruct (cp_shapes R fs) as [s|] eqn:E2; simpl; [|discriminate]. intros H; injection H as <-.
      constructor; [now apply cp_factor_dims_iff | now apply IH].
    + intros H. inversion H as [|? n ? s Hf Hr]; subst.
      apply cp_factor_dims_iff in Hf. rewrite Hf. simpl. rewrite Nat.eqb_refl.
      apply IH in Hr. rewrite Hr. reflexivity.
Qed.

Lemma weights_ok_iff (w : option tensor) R :
  weights_ok w R = true <-> match w with None => True | Some wt => shape wt = [R] end.
Proof.
  destruct w as [wt|]; simpl; [|tauto]. destruct (shape wt) as [|n [|? ?]]; split; intros H; try discriminate.
  - apply Nat.eqb_eq in H. now subst.
  - injection H as ->. apply Nat.eqb_refl.
Qed.

Theorem validate_cp_iff (w : option tensor) fs shp R :
  validate_cp w fs = Ok (shp, R) <-> cp_wellformed w fs shp R.
Proof.
  unfold validate_cp, cp_wellformed. destruct fs as [|f fs]; [split; [discriminate | intros [H _]; congruence]|].
  split.
  - destruct (cp_rank_of f) as [R'|] eqn:E; cbn [rbind]; [|discriminate].
    destruct (cp_shapes R' (f :: fs)) as [s|] eqn:E2; cbn [rbind]; [|discriminate].
    destruct (weights_ok w R') eqn:E3; [|discriminate]. intros H; injection H as -> ->.
    split; [discriminate|]. split; [now apply cp_shapes_iff | now apply weights_ok_iff].
  - intros (_ & H2 & H3).
    assert (E : cp_rank_of f = Ok R).
    { inversion H2 as [|? n ? s Hf Hr]; subst. unfold cp_rank_of. destruct Hf as [Hf|[-> Hf]]; rewrite Hf; reflexivity. }
    rewrite E. cbn [rbind]. apply cp_shapes_iff in H2. rewrite H2. cbn [rbind].
    apply weights_ok_iff in H3. rewrite H3. reflexivity.
Qed.

(* for 2-D factors validation says exactly: all factors are (n_k x R) *)
Lemma valid_mats (w : option tensor) fs shp R :
  validate_cp w fs = Ok (shp, R) -> Forall (fun f => ndim f = 2) fs -> mats R fs shp.
Proof.
  intros H H2. apply validate_cp_iff in H. destruct H as (_ & H & _).
  induction H as [|f n fs s Hf Hr IH]; [constructor|]. inversion H2; subst.
  constructor; [|now apply IH]. destruct Hf as [Hf|[_ Hf]]; [exact Hf|]. unfold ndim in *. rewrite Hf in *. discriminate.
Qed.

(* ---------- fold(., 0, shape) of a mode-0 unfolding ---------- *)
Lemma fold0_spec (U : tensor) n rest : shape U = [n; prod rest] ->
  exists t, fold zero U 0 (n :: rest) = Ok t /\ shape t = n :: rest /\
    forall i js, i < n -> inb rest js -> get zero t (i :: js) = get2 U i (ravel rest js).
Proof.
  intros HU. unfold fold. simpl Nat.ltb. cbv iota. simpl nth. simpl remove_nth.
  rewrite reshape_spec_all_some by (rewrite HU; simpl; lia). cbn [rbind].
  eexists. split; [reflexivity|]. split.
  - rewrite shape_moveaxis. reflexivity.
  - intros i js Hi Hjs. unfold moveaxis. cbn [shape reshape]. simpl nth. simpl remove_nth.
    rewrite insert_at_0. rewrite get_tabulate by (simpl; tauto).
    simpl nth. simpl remove_nth. rewrite insert_at_0.
    unfold Factorized.get2, get, reshape. cbn [shape data]. rewrite HU. f_equal. simpl. lia.
Qed.

(* fold(., 0, shape) of a vector of length prod shape (the masked route) *)
Lemma fold0_vec_spec (v : tensor) n rest : shape v = [n * prod rest] ->
  exists t, fold zero v 0 (n :: rest) = Ok t /\ shape t = n :: rest /\
    forall i js, i < n -> inb rest js -> get zero t (i :: js) = get1 v (i * prod rest + ravel rest js).
Proof.
  intros Hv. unfold fold. simpl Nat.ltb. cbv iota. simpl nth. simpl remove_nth.
  rewrite reshape_spec_all_some by (rewrite Hv; simpl; lia). cbn [rbind].
  eexists. split; [reflexivity|]. split.
  - rewrite shape_moveaxis. reflexivity.
  - intros i js Hi Hjs. unfold moveaxis. cbn [shape reshape]. simpl nth. simpl remove_nth.
    rewrite insert_at_0. rewrite get_tabulate by (simpl; tauto).
    simpl nth. simpl remove_nth. rewrite insert_at_0.
    unfold Factorized.get1, get, reshape. cbn [shape data]. rewrite Hv. f_equal. simpl. lia.
Qed.

Lemma as_matrices_id (fs : list tensor) : Forall (fun f => ndim f = 2) fs -> as_matrices fs = fs.
Proof.
  induction 1 as [|f fs Hf _ IH]; [reflexivity|]. cbn [as_matrices map]. fold (as_matrices fs). rewrite IH. f_equal.
  unfold as_col. rewrite Hf. reflexivity.
Qed.

Lemma all_2d_true (fs : list tensor) : Forall (fun f => ndim f = 2) fs -> all_2d fs = true.
Proof. intros H. unfold all_2d. apply forallb_forall. intros f Hf. rewrite Forall_forall in H. apply Nat.eqb_eq. now apply H. Qed.

(* ---------- cp_to_tensor ---------- *)
Definition cp_entry (w : option tensor) (fs : list tensor) (R : nat) (idx : list nat) : F :=
  fsumn R (fun r => wv Op w r *f prod_entries fs idx r).

Theorem cp_to_tensor_spec (w : option tensor) fs shp R :
  validate_cp w fs = Ok (shp, R) -> Forall (fun f => ndim f = 2) fs ->
  exists t, cp_to_tensor Op w fs None = Ok t /\ shape t = shp /\
    forall idx, inb shp idx -> get zero t idx = cp_entry w fs R idx.
Proof.
  intros Hv H2. pose proof (valid_mats _ _ _ _ Hv H2) as Hm.
  unfold cp_to_tensor, cp_to_tensor_from. rewrite Hv. cbn [rbind]. cbn [fst]. rewrite (as_matrices_id _ H2), (all_2d_true _ H2). cbn [negb].
  destruct fs as [|fa rest]; [inversion Hm; subst; discriminate Hv|].
  inversion Hm as [|? n ? ns Hfa Hrest]; subst.
  assert (Hf0 : shape (opt_scale Op w fa) = [n; R]) by (now apply shape_opt_scale).
  destruct rest as [|fb rest].
  - (* order 1 *)
    inversion Hrest; subst. simpl length. simpl Nat.eqb. cbv iota.
    eexists. split; [reflexivity|]. unfold sum_axis1, nrows, ncols. rewrite Hf0. simpl nth.
    split; [reflexivity|]. intros idx Hi. destruct idx as [|i [|? ?]]; simpl in Hi; try tauto.
    rewrite get_tabulate by (simpl; tauto). unfold cp_entry. apply fsumn_ext; intros r Hr.
    unfold ix. cbn [nth]. rewrite (get2_opt_scale w fa n R) by (auto; tauto). simpl. ring.
  - inversion Hrest as [|? m ? ns' Hfb Hrest']; subst.
    replace (length (n :: m :: ns') =? 1) with false by reflexivity.
    simpl remove_nth.
    destruct (khatri_rao_spec R fb rest m ns' Hfb Hrest') as (K & HK & HsK & HgK).
    rewrite HK. cbn [rbind].
    pose proof (shape_mT K _ _ HsK) as HsT.
    rewrite (mdot_ok _ _ n R (prod (m :: ns')) Hf0 HsT). cbn [rbind].
    match goal with |- context [fold zero ?U 0 _] => destruct (fold0_spec U n (m :: ns')) as (t & Ht & Hst & Hgt) end.
    { reflexivity. }
    exists t. split; [exact Ht|]. split; [exact Hst|].
    intros idx Hi. destruct idx as [|i js]; [simpl in Hi; tauto|].
    change (i < n /\ inb (m :: ns') js) in Hi. destruct Hi as [Hi Hjs].
    rewrite Hgt by assumption. pose proof (ravel_lt _ _ Hjs) as Hlt.
    rewrite get2_tab by assumption. unfold cp_entry. apply fsumn_ext; intros r Hr.
    unfold ix. cbn [nth].
    rewrite (get2_opt_scale w fa n R) by assumption.
    rewrite (get2_mT K _ _ _ _ HsK) by assumption.
    rewrite HgK by assumption. simpl. ring.
Qed.

End P.
