(* Lemmas about Model/Factorized.v (part 10: validator-level corollaries -- whatever the validator accepts is reconstructed,
   with the reported shape, to the defining contraction). *)
From Coq Require Import List Arith Lia Bool Ring.
From TLV Require Import Base.Shape Base.PyList Base.Tensor Base.BigSum Base.Ops Model.Base Model.Factorized
  Proofs.BaseProofs Proofs.FactorizedProofs Proofs.FactorizedProofs3 Proofs.FactorizedProofs4 Proofs.FactorizedProofs5
  Proofs.FactorizedProofs8 Proofs.FactorizedProofs9.
Import ListNotations.

Section B.
Variable F : Type.
Notation tensor := (tensor F).

Lemma chain_shapes_hd r cs ns rs rl : chain_shapes F r cs ns rs rl -> hd 0 (rs ++ [rl]) = r.
Proof. destruct 1; reflexivity. Qed.

Lemma chain_shapes_pos r (cs : list tensor) ns rs rl : chain_shapes F r cs ns rs rl -> Forall (fun x => 0 < x) (rs ++ [rl]) ->
  tt_cores F r cs ns rl.
Proof.
  induction 1 as [r | r n r' G cs ns rs rl HG Hrest IH]; intros Hpos; [constructor|].
  cbn [app] in Hpos. inversion Hpos as [|? ? _ Hpos']; subst.
  apply tc_cons with (r' := r'); [exact HG | | now apply IH].
  pose proof (chain_shapes_hd _ _ _ _ _ Hrest) as Hh. destruct (rs ++ [rl]) as [|x l] eqn:E; [destruct rs; discriminate E|].
  cbn [hd] in Hh. subst x. now inversion Hpos'.
Qed.

Lemma tt_cores_snoc_inv : forall (cs : list tensor) r ns rl (fl : tensor), tt_cores F r (cs ++ [fl]) ns rl ->
  exists ns' nL rL, ns = ns' ++ [nL] /\ tt_cores F r cs ns' rL /\ shape fl = [rL; nL; rl] /\ 0 < rl.
Proof.
  induction cs as [|G cs IH]; intros r ns rl fl H.
  - cbn [app] in H. inversion H as [|? n r' ? ? ns' ? HG Hr' Hrest]; subst. inversion Hrest; subst.
    exists [], n, r. repeat split; auto. constructor.
  - cbn [app] in H. inversion H as [|? n r' ? ? ns' ? HG Hr' Hrest]; subst.
    destruct (IH _ _ _ _ Hrest) as (ns'' & nL & rL & -> & Hc & Hfl & Hrl).
    exists (n :: ns''), nL, rL. repeat split; auto. econstructor; eauto.
Qed.

Lemma chain_shapes4_hd r cs ns ms rs rl : chain_shapes4 F r cs ns ms rs rl -> hd 0 (rs ++ [rl]) = r.
Proof. destruct 1; reflexivity. Qed.

Lemma chain_shapes4_pos r (cs : list tensor) ns ms rs rl : chain_shapes4 F r cs ns ms rs rl -> Forall (fun x => 0 < x) (rs ++ [rl]) ->
  ttm_cores F r cs ns ms rl.
Proof.
  induction 1 as [r | r n m r' G cs ns ms rs rl HG Hrest IH]; intros Hpos; [constructor|].
  cbn [app] in Hpos. inversion Hpos as [|? ? _ Hpos']; subst.
  apply tm_cons with (r' := r'); [exact HG | | now apply IH].
  pose proof (chain_shapes4_hd _ _ _ _ _ _ Hrest) as Hh. destruct (rs ++ [rl]) as [|x l] eqn:E; [destruct rs; discriminate E|].
  cbn [hd] in Hh. subst x. now inversion Hpos'.
Qed.
End B.

Section P.
Variable F : Type.
Variable Op : fops F.
Hypothesis Rth : ring_theory (f0 Op) (f1 Op) (fadd Op) (fmul Op) (fsub Op) (fopp Op) (@eq F).
Notation zero := (f0 Op).
Notation tensor := (tensor F).

(* every validated tensor train with positive ranks and sizes reconstructs, with the REPORTED shape, to the chain contraction *)
Theorem tt_validated (cs : list tensor) shp rk :
  validate_tt cs = Ok (shp, rk) -> Forall (fun x => 0 < x) rk -> 0 < prod shp ->
  exists t, tt_to_tensor Op cs = Ok t /\ shape t = shp /\
    forall idx, inb shp idx -> get zero t idx = chain F Op cs idx 0 0.
Proof.
  intros Hv Hpos Hp. unfold tt_to_tensor, tt_to_tensor_from. rewrite Hv. cbn [rbind].
  apply validate_tt_iff in Hv. destruct Hv as (Hne & rs & -> & Hc).
  apply (tt_to_tensor_spec F Op Rth cs shp Hne); [|exact Hp]. now apply chain_shapes_pos with (rs := rs).
Qed.

(* every validated tensor ring: reported shape, entry = trace of the chain (r0 = the reported boundary rank) *)
Theorem tr_validated (cs : list tensor) shp rk :
  validate_tr cs = Ok (shp, rk) -> Forall (fun x => 0 < x) rk -> 0 < prod shp ->
  exists t, tr_to_tensor Op cs = Ok t /\ shape t = shp /\
    forall idx, inb shp idx -> get zero t idx = fsumn Op (hd 0 rk) (fun a => chain F Op cs idx a a).
Proof.
  intros Hv Hpos Hp. pose proof Hv as Hv'. apply validate_tr_iff in Hv. destruct Hv as (Hlen & rs & r0 & -> & Hc).
  pose proof (chain_shapes_hd _ _ _ _ _ _ Hc) as Hh. rewrite Hh.
  pose proof (chain_shapes_pos _ _ _ _ _ _ Hc Hpos) as Htc.
  destruct cs as [|fa rest]; [simpl in Hlen; lia|].
  destruct (exists_last (l := rest)) as (mid & fl & ->); [destruct rest; [simpl in Hlen; lia | discriminate]|].
  change (fa :: mid ++ [fl]) with ((fa :: mid) ++ [fl]) in Htc.
  destruct (tt_cores_snoc_inv F _ _ _ _ _ Htc) as (ns' & nL & rL & -> & Hc' & Hfl & Hr0).
  destruct ns' as [|n0 nsm]; [inversion Hc'|].
  unfold tr_to_tensor. rewrite Hv'. cbn [rbind].
  exact (tr_to_tensor_spec F Op Rth fa mid fl n0 nsm nL r0 rL Hc' Hfl Hr0 Hp).
Qed.

(* every validated Tucker tensor (non-empty core and result): reported shape, entry = sum over the core *)
Theorem tucker_validated (core : tensor) fs shp rk :
  validate_tucker core fs = Ok (shp, rk) -> wf core -> 0 < prod rk -> 0 < prod shp ->
  exists t, tucker_to_tensor Op core fs None false = Ok t /\ shape t = shp /\
    forall idx, inb shp idx ->
      get zero t idx = sum_idx F (f0 Op) (fadd Op) rk (fun js => fmul Op (get zero core js) (tk_prod F Op 0 None fs idx js)).
Proof.
  intros Hv W Hpr Hps. apply validate_tucker_iff in Hv. destruct Hv as (_ & _ & -> & Hsh).
  now apply (tucker_to_tensor_spec F Op Rth).
Qed.

(* every validated TT-matrix with positive ranks: reported shape (in sizes ++ out sizes), entry = chain of the (i_k, o_k) slices *)
Theorem ttm_validated (cs : list tensor) shp rk :
  validate_ttm cs = Ok (shp, rk) -> Forall (fun x => 0 < x) rk ->
  exists t ns ms, ttm_to_tensor Op cs = Ok t /\ shape t = shp /\ shp = ns ++ ms /\ length ns = length cs /\ length ms = length cs /\
    forall is os, inb ns is -> inb ms os -> get zero t (is ++ os) = chain4 F Op cs (interleave is os) 0 0.
Proof.
  intros Hv Hpos. apply validate_ttm_iff in Hv. destruct Hv as (Hne & ns & ms & rs & -> & -> & Hc).
  pose proof (chain_shapes4_pos _ _ _ _ _ _ _ Hc Hpos) as Htc.
  destruct (ttm_to_tensor_spec F Op Rth cs ns ms Hne Htc) as (t & Ht & Hst & Hgt).
  destruct (ttm_cores_length _ _ _ _ _ _ Htc) as [Hln Hlm].
  exists t, ns, ms. repeat split; auto.
Qed.

End P.
