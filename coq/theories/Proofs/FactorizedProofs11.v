(* Lemmas about Model/Factorized.v (part 11: the einsum-backend TT-matrix route equals the core-backend route). *)
From Coq Require Import List Arith Lia Bool Ring.
From TLV Require Import Base.Shape Base.PyList Base.Tensor Base.BigSum Base.Ops Model.Base Model.Factorized
  Proofs.BaseProofs Proofs.FactorizedProofs Proofs.FactorizedProofs5 Proofs.FactorizedProofs8 Proofs.FactorizedProofs9.
Import ListNotations.

Section P.
Variable F : Type.
Variable Op : fops F.
Hypothesis Rth : ring_theory (f0 Op) (f1 Op) (fadd Op) (fmul Op) (fsub Op) (fopp Op) (@eq F).
Add Ring FrE : Rth.
Notation zero := (f0 Op).
Notation one := (f1 Op).
Notation "a *f b" := (fmul Op a b) (at level 40, left associativity).
Notation tensor := (tensor F).
Notation fsumn := (fsumn Op).
Notation chain4 := (chain4 F Op).
Notation ttm_cores := (ttm_cores F).

Lemma bidx_id d k : k < d -> bidx d k = k.
Proof. unfold bidx. destruct (Nat.eqb_spec d 1); lia. Qed.

(* on consistent cores the einsum sum-of-products is the chain product summed over the last rank *)
Lemma ein_chain_spec : forall r cs ns ms rl, ttm_cores r cs ns ms rl -> forall ds, all_shape4 cs = Ok ds ->
  ein_ok ds = true /\
  forall ios a, a < r -> inb (interleave ns ms) ios -> ein_chain Op cs ds ios a = fsumn rl (fun b => chain4 cs ios a b).
Proof.
  induction 1 as [r | r n m r' G cs ns ms rl HG Hr' Hcs IH]; intros ds E.
  - injection E as <-. split; [reflexivity|]. intros ios a Ha Hi. destruct ios; [|simpl in Hi; tauto]. cbn [ein_chain FactorizedProofs9.chain4].
    rewrite (fsumn_single F Op Rth r a); [now rewrite Nat.eqb_refl | exact Ha |].
    intros b Hb Hne. destruct (Nat.eqb_spec a b); [congruence | reflexivity].
  - cbn [all_shape4] in E. unfold shape4 in E. rewrite HG in E. cbn [rbind] in E.
    destruct (all_shape4 cs) as [ds'|] eqn:E'; cbn [rbind] in E; [|discriminate]. injection E as <-.
    destruct (IH ds' eq_refl) as [Hok Hch].
    assert (Hlab : label_size (r, n, m, r') ds' = r').
    { inversion Hcs as [|? ? ? ? G' ? ? ? ? HG' ? ?]; subst.
      - injection E' as <-. reflexivity.
      - cbn [all_shape4] in E'. unfold shape4 in E'. rewrite HG' in E'. cbn [rbind] in E'.
        destruct (all_shape4 cs0); cbn [rbind] in E'; [|discriminate]. injection E' as <-. cbn [label_size d4e d4a fst snd]. lia. }
    split.
    + cbn [ein_ok]. destruct ds' as [|y ds'']; [reflexivity|]. rewrite Hok, andb_true_r.
      inversion Hcs as [|? ? ? ? G' ? ? ? ? HG' ? ?]; subst; [discriminate E'|].
      cbn [all_shape4] in E'. unfold shape4 in E'. rewrite HG' in E'. cbn [rbind] in E'.
      destruct (all_shape4 cs0); cbn [rbind] in E'; [|discriminate]. injection E' as <- <-. cbn [d4e d4a fst snd]. now rewrite Nat.eqb_refl.
    + intros ios a Ha Hi. destruct ios as [|i [|o ios]]; try (simpl in Hi; tauto).
      change (i < n /\ o < m /\ inb (interleave ns ms) ios) in Hi. destruct Hi as (Hi & Ho & Hios).
      cbn [ein_chain FactorizedProofs9.chain4]. rewrite Hlab, HG. cbn [nth d4a d4e fst snd].
      rewrite (fsumn_ext F Op r' _ (fun c => fsumn rl (fun b => get zero G [a; i; o; c] *f chain4 cs ios c b))).
      2:{ intros c Hc. rewrite !bidx_id by assumption. rewrite Hch by assumption. now rewrite (fsumn_scale_l F Op Rth). }
      apply (fsumn_exchange F Op Rth).
Qed.

(* both tenalg backends reconstruct the same tensor from every well-formed TT-matrix *)
Theorem ttm_einsum_eq_core cs ns ms : cs <> [] -> ttm_cores 1 cs ns ms 1 ->
  ttm_to_tensor_einsum_raw Op cs = ttm_to_tensor Op cs.
Proof.
  intros Hne Hc. destruct (ttm_to_tensor_spec F Op Rth cs ns ms Hne Hc) as (t & Ht & Hst & Hgt). rewrite Ht.
  destruct (all_shape4_ttm F _ _ _ _ _ Hc) as (ds & Eds & Efs).
  destruct (ein_chain_spec _ _ _ _ _ Hc ds Eds) as [Hok Hch].
  destruct (ttm_cores_length F _ _ _ _ _ Hc) as [Hln Hlm].
  unfold ttm_to_tensor_einsum_raw. destruct cs as [|fa rest]; [congruence|]. rewrite Eds. cbn [rbind]. rewrite Hok, Efs. f_equal.
  assert (Hr0 : d4a (hd (0, 0, 0, 0) ds) = 1).
  { inversion Hc as [|? ? ? ? ? ? ? ? ? Hfa ? ?]; subst. cbn [all_shape4] in Eds. unfold shape4 in Eds. rewrite Hfa in Eds. cbn [rbind] in Eds.
    destruct (all_shape4 rest); cbn [rbind] in Eds; [|discriminate]. injection Eds as <-. reflexivity. }
  rewrite Hr0.
  assert (Hord : map (fun k => 2 * k) (seq 0 (length (fa :: rest))) ++ map (fun k => 2 * k + 1) (seq 0 (length (fa :: rest)))
                 = tt_order (length ns)) by (rewrite Hln; reflexivity).
  rewrite Hord.
  assert (Wt : wf t).
  { revert Ht. unfold ttm_to_tensor. rewrite Eds. cbn [rbind].
    destruct (fold_left _ rest (Ok fa)); cbn [rbind]; [|discriminate]. destruct (reshape_spec _ _); cbn [rbind]; [|discriminate].
    intros H; injection H as <-. apply wf_transpose. }
  assert (Hsh : shape (transpose zero (tt_order (length ns)) (tabulate (interleave ns ms)
                  (fun idx => fsumn 1 (fun a => ein_chain Op (fa :: rest) ds idx a)))) = ns ++ ms).
  { unfold transpose. cbn [shape tabulate]. apply permute_tt_order. lia. }
  apply tensor_ext with (d := zero); [apply wf_transpose | exact Wt | now rewrite Hsh, Hst |].
  intros idx Hidx. rewrite Hsh in Hidx. destruct (inb_app_split _ _ _ Hidx) as (is & os & -> & His & Hos).
  rewrite Hgt by assumption.
  assert (Hlen : length is = length os) by (rewrite (inb_length _ _ His), (inb_length _ _ Hos); lia).
  unfold transpose. cbn [shape tabulate].
  rewrite get_tabulate by (rewrite permute_tt_order by lia; exact Hidx).
  rewrite <- (inb_length _ _ His), scatter_tt_order by exact Hlen.
  assert (Hio : inb (interleave ns ms) (interleave is os)) by (apply inb_interleave; auto; lia).
  rewrite get_tabulate by exact Hio. rewrite (fsumn_1 F Op Rth). rewrite Hch by (auto; lia). apply (fsumn_1 F Op Rth).
Qed.

(* the einsum route validates first (repo 8b25fc6): on a well-formed TT-matrix the check passes and the route is the raw einsum *)
Lemma ttm_cores_chain_shapes4 : forall r cs ns ms rl, ttm_cores r cs ns ms rl -> exists rs, chain_shapes4 F r cs ns ms rs rl.
Proof.
  induction 1 as [r|r n m r' G cs ns ms rl HG Hr Hc [rs IH]].
  - exists []. apply csh4_nil.
  - exists (r :: rs). apply csh4_cons with (r' := r'); assumption.
Qed.
Lemma ttm_cores_validated cs ns ms : cs <> [] -> ttm_cores 1 cs ns ms 1 -> exists rk, validate_ttm cs = Ok (ns ++ ms, rk).
Proof.
  intros Hne Hc. destruct (ttm_cores_chain_shapes4 _ _ _ _ _ Hc) as [rs Hs]. exists (rs ++ [1]).
  apply validate_ttm_iff. split; [exact Hne|]. exists ns, ms, rs. auto.
Qed.
Theorem ttm_einsum_eq_core_v cs ns ms : cs <> [] -> ttm_cores 1 cs ns ms 1 ->
  ttm_to_tensor_einsum Op cs = ttm_to_tensor Op cs.
Proof.
  intros Hne Hc. destruct (ttm_cores_validated cs ns ms Hne Hc) as [rk Hv].
  unfold ttm_to_tensor_einsum. rewrite Hv. cbn [rbind]. exact (ttm_einsum_eq_core cs ns ms Hne Hc).
Qed.

(* hence every derived view agrees as well *)
Corollary ttm_einsum_views_eq cs ns ms : cs <> [] -> ttm_cores 1 cs ns ms 1 ->
  ttm_to_matrix_einsum Op cs = ttm_to_matrix Op cs /\
  (forall m, ttm_to_unfolded_einsum Op cs m = ttm_to_unfolded Op cs m) /\
  ttm_to_vec_einsum Op cs = ttm_to_vec Op cs.
Proof.
  intros Hne Hc. unfold ttm_to_matrix_einsum, ttm_to_matrix, ttm_to_unfolded_einsum, ttm_to_unfolded, ttm_to_vec_einsum, ttm_to_vec.
  rewrite (ttm_einsum_eq_core_v cs ns ms Hne Hc). repeat split; reflexivity.
Qed.

End P.
