(* Lemmas about Model/Factorized.v (part 12: PARAFAC2 -- what the validator accepts is reconstructed with the reported slice shapes). *)
From Coq Require Import List Arith Lia Bool Ring.
From TLV Require Import Base.Shape Base.PyList Base.Tensor Base.BigSum Base.Ops Model.Base Model.Factorized
  Proofs.BaseProofs Proofs.FactorizedProofs Proofs.FactorizedProofs7 Proofs.FactorizedProofs8.
Import ListNotations.

Section P.
Variable F : Type.
Variable Op : fops F.
Hypothesis Rth : ring_theory (f0 Op) (f1 Op) (fadd Op) (fmul Op) (fsub Op) (fopp Op) (@eq F).
Hypothesis feqb_eq : forall x y : F, feqb Op x y = true <-> x = y.
Notation zero := (f0 Op).
Notation tensor := (tensor F).

Lemma proj_ok_shapes R K : forall (ps : list tensor) shps, Forall2 (proj_ok F Op R K) ps shps ->
  Forall2 (fun (P : tensor) J => shape P = [J; R]) ps (map (fun s => nth 0 s 0) shps) /\
  Forall (fun s => s = [nth 0 s 0; K]) shps.
Proof.
  induction 1 as [|P s ps shps (j & HP & _ & ->) Hrest [IH1 IH2]]; cbn [map]; split; constructor; auto.
Qed.

(* the reported slice shapes (J_i, K) are the shapes of the slices inside the reconstruction: tensor of shape (I, max_i J_i, K),
   block i = slice i on its first J_i rows, zero below *)
Theorem parafac2_validated (w : option tensor) (A B C : tensor) ps shps R I :
  validate_parafac2 Op w [A; B; C] ps = Ok (shps, R) ->
  shape A = [I; R] -> shape B = [R; R] -> w_ok F w R ->
  exists t K, parafac2_to_tensor Op w [A; B; C] ps = Ok t /\ shape C = [K; R] /\ length ps = I /\ length shps = I /\
    Forall (fun s => s = [nth 0 s 0; K]) shps /\
    shape t = [I; fold_right Nat.max 0 (map (fun s => nth 0 s 0) shps); K] /\
    forall i j k, i < I -> j < fold_right Nat.max 0 (map (fun s => nth 0 s 0) shps) -> k < K ->
      get zero t [i; j; k] =
        if j <? nth 0 (nth i shps []) 0 then p2_entry F Op w A B C (nth i ps (mk [] [])) R R i j k else zero.
Proof.
  intros Hv HA HB Hw. pose proof Hv as Hv0.
  apply (validate_parafac2_iff F Op feqb_eq) in Hv. destruct Hv as (A' & B' & C' & K & Efs & (rest & HA') & _ & HC & Hps & _).
  injection Efs as <- <- <-. rewrite HA in HA'. injection HA' as HI _.
  destruct (proj_ok_shapes R K ps shps Hps) as [HJs Hsh].
  destruct (parafac2_to_tensor_spec F Op Rth w A B C ps (map (fun s => nth 0 s 0) shps) shps I R R K Hv0 HA HB HC Hw HJs (eq_sym HI))
    as (t & Ht & Hst & Hgt).
  exists t, K. split; [exact Ht|]. split; [exact HC|]. split; [now symmetry|].
  split; [| split; [exact Hsh | split; [exact Hst|]]].
  - rewrite HI. clear - Hps. induction Hps; simpl; auto.
  - intros i j k Hi Hj Hk. rewrite Hgt by assumption.
    replace (nth i (map (fun s => nth 0 s 0) shps) 0) with (nth 0 (nth i shps []) 0); [reflexivity|].
    symmetry. exact (map_nth (fun s : list nat => nth 0 s 0) shps [] i).
Qed.

End P.
