(* Lemmas about Model/Factorized.v (part 13: late rejection of a non-square PARAFAC2 B; 1-D CP factors; wrapper objects). *)
From Coq Require Import List Arith Lia Bool Ring ZArith.
From TLV Require Import Base.Shape Base.PyList Base.Tensor Base.BigSum Base.Ops Model.Base Model.Factorized
  Proofs.BaseProofs Proofs.FactorizedProofs Proofs.FactorizedProofs2 Proofs.FactorizedProofs6 Proofs.FactorizedProofs7.
Import ListNotations.

(* ---------- PARAFAC2 with a B that has q <> R rows: the validator does not look at the rows of B, every reconstruction raises ---------- *)
Section L.
Variable F : Type.
Variable Op : fops F.
Notation tensor := (tensor F).
Notation dflt := (mk (@nil nat) (@nil F)).

Lemma mdot_mismatch (A B : tensor) n k q m : shape A = [n; k] -> shape B = [q; m] -> k <> q -> mdot Op A B = Err.
Proof.
  intros HA HB Hne. unfold mdot, ndim, nrows, ncols. rewrite HA, HB. cbn [length nth Nat.eqb andb].
  destruct (Nat.eqb_spec k q); [contradiction | reflexivity].
Qed.

Lemma p2_slice_raw_nonsquare (w : option tensor) (A B C : tensor) ps q R Js i :
  shape B = [q; R] -> q <> R -> Forall2 (fun (P : tensor) J => shape P = [J; R]) ps Js ->
  p2_slice_raw Op w A B C ps i = Err.
Proof.
  intros HB Hne Hps. unfold p2_slice_raw. destruct ((i <? nrows A) && (i <? length ps)) eqn:E; [|reflexivity].
  apply andb_prop in E. destruct E as [_ E]. apply Nat.ltb_lt in E.
  destruct (Forall2_nth_shape F ps Js R Hps) as [_ Hn]. specialize (Hn i E).
  rewrite (mdot_mismatch _ B _ _ _ _ Hn HB) by auto. reflexivity.
Qed.

Theorem parafac2_nonsquare_B_rejected (w : option tensor) (A B C : tensor) ps I q R Js :
  shape A = [I; R] -> shape B = [q; R] -> q <> R -> 0 < I ->
  Forall2 (fun (P : tensor) J => shape P = [J; R]) ps Js ->
  (forall i, parafac2_to_slice Op w [A; B; C] ps i = Err) /\
  parafac2_to_slices Op w [A; B; C] ps = Err /\
  parafac2_to_tensor Op w [A; B; C] ps = Err /\
  (forall m, parafac2_to_unfolded Op w [A; B; C] ps m = Err) /\
  parafac2_to_vec Op w [A; B; C] ps = Err.
Proof.
  intros HA HB Hne HI Hps.
  assert (Hsl : parafac2_to_slices Op w [A; B; C] ps = Err).
  { unfold parafac2_to_slices, parafac2_to_slices_from. destruct (validate_parafac2 Op w [A; B; C] ps); [|reflexivity]. cbn [rbind].
    unfold nrows at 1. rewrite HA. cbn [nth]. destruct I as [|I']; [lia|]. cbn [seq map collect].
    rewrite (p2_slice_raw_nonsquare None _ B C ps q R Js 0 HB Hne Hps). reflexivity. }
  assert (Ht : parafac2_to_tensor Op w [A; B; C] ps = Err).
  { unfold parafac2_to_tensor, parafac2_to_tensor_from. unfold parafac2_to_slices in Hsl. rewrite Hsl. reflexivity. }
  split; [|split; [exact Hsl | split; [exact Ht | split]]].
  - intros i. unfold parafac2_to_slice, parafac2_to_slice_from. destruct (validate_parafac2 Op w [A; B; C] ps); [|reflexivity]. cbn [rbind].
    now apply (p2_slice_raw_nonsquare w A B C ps q R Js i).
  - intros m. unfold parafac2_to_unfolded. rewrite Ht. reflexivity.
  - unfold parafac2_to_vec. rewrite Ht. reflexivity.
Qed.
End L.

(* non-vacuity: such a factor set is ACCEPTED by the validator (the error only comes at reconstruction) *)
Example nonsquare_B_accepted :
  validate_parafac2 Zops None [mk [1; 1] [2%Z]; mk [2; 1] [1; 1]%Z; mk [2; 1] [1; -1]%Z] [mk [2; 1] [0; 1]%Z] = Ok ([[2; 2]], 1).
Proof. vm_compute. reflexivity. Qed.

(* ---------- 1-D CP factors (rank 1): viewed as single columns since 148e558; the former defect as an executed example ---------- *)
Example cp_1d_factors_example :
  validate_cp None [mk [3] [1; 2; 3]%Z; mk [2] [2; -1]%Z] = Ok ([3; 2], 1) /\
  cp_to_tensor Zops None [mk [3] [1; 2; 3]%Z; mk [2] [2; -1]%Z] None = Ok (mk [3; 2] [2; -1; 4; -2; 6; -3]%Z) /\
  cp_to_unfolded Zops None [mk [3] [1; 2; 3]%Z; mk [2] [2; -1]%Z] 1 = Ok (mk [2; 3] [2; 4; 6; -1; -2; -3]%Z) /\
  cp_normsq Zops None [mk [3] [1; 2; 3]%Z; mk [2] [2; -1]%Z] = Ok 70%Z.
Proof. repeat split; vm_compute; reflexivity. Qed.

(* ---------- the validators look at shapes only ---------- *)
Section S.
Variable F : Type.
Notation tensor := (tensor F).

Lemma as_col_2d (f : tensor) : ndim f = 1 \/ ndim f = 2 -> ndim (as_col f) = 2.
Proof. unfold as_col. intros [H|H]; rewrite H; cbn [Nat.eqb]; [reflexivity | exact H]. Qed.
Lemma as_col_idem (f : tensor) : as_col (as_col f) = as_col f.
Proof. unfold as_col. destruct (ndim f =? 1) eqn:E; [reflexivity | now rewrite E]. Qed.
Lemma as_matrices_idem (fs : list tensor) : as_matrices (as_matrices fs) = as_matrices fs.
Proof. unfold as_matrices. rewrite map_map. apply map_ext. apply as_col_idem. Qed.
Lemma cp_factor_dims_as_col (f : tensor) : cp_factor_dims (as_col f) = cp_factor_dims f.
Proof.
  unfold as_col, ndim. destruct (shape f) as [|n [|c l]] eqn:E; cbn [length Nat.eqb]; [now rewrite ?E | | now rewrite ?E].
  unfold cp_factor_dims, nrows. cbn [shape reshape]. rewrite E. reflexivity.
Qed.
Lemma cp_shapes_as_matrices R : forall fs : list tensor, cp_shapes R (as_matrices fs) = cp_shapes R fs.
Proof. induction fs as [|f fs IH]; [reflexivity|]. cbn [as_matrices map cp_shapes]. fold (as_matrices fs). now rewrite cp_factor_dims_as_col, IH. Qed.
Lemma validate_cp_as_matrices (w : option tensor) fs : validate_cp w (as_matrices fs) = validate_cp w fs.
Proof.
  unfold validate_cp. destruct fs as [|f fs]; [reflexivity|]. cbn [as_matrices map]. fold (as_matrices fs).
  assert (Hr : cp_rank_of (as_col f) = cp_rank_of f).
  { unfold as_col, ndim, cp_rank_of. destruct (shape f) as [|n [|c l]] eqn:E; cbn [length Nat.eqb]; [now rewrite ?E | | now rewrite ?E].
    cbn [shape reshape]. reflexivity. }
  rewrite Hr. destruct (cp_rank_of f) as [R|]; [|reflexivity]. cbn [rbind].
  change (as_col f :: as_matrices fs) with (as_matrices (f :: fs)). now rewrite cp_shapes_as_matrices.
Qed.
Lemma validated_as_matrices_2d (w : option tensor) fs shp R : validate_cp w fs = Ok (shp, R) -> Forall (fun f => ndim f = 2) (as_matrices fs).
Proof.
  intros Hv. apply validate_cp_iff in Hv. destruct Hv as (_ & Hf & _). unfold as_matrices. apply Forall_map.
  induction Hf as [|f n fs ns Hfn _ IH]; constructor; [|exact IH]. apply as_col_2d. unfold ndim.
  destruct Hfn as [H|[_ H]]; rewrite H; auto.
Qed.
Lemma wf_as_col (f : tensor) : wf f -> wf (as_col f).
Proof.
  intros W. unfold as_col, ndim. destruct (shape f) as [|n [|c l]] eqn:E; cbn [length Nat.eqb]; auto.
  apply wf_reshape; [exact W|]. unfold nrows. rewrite E. simpl. lia.
Qed.

Lemma cp_shapes_ext R : forall (fs fs' : list tensor), map (@shape F) fs = map (@shape F) fs' -> cp_shapes R fs = cp_shapes R fs'.
Proof.
  induction fs as [|f fs IH]; intros [|f' fs'] H; try discriminate; [reflexivity|]. cbn [map] in H. injection H as Hf Hr.
  cbn [cp_shapes]. unfold cp_factor_dims. rewrite Hf, (IH _ Hr). reflexivity.
Qed.
Lemma validate_cp_ext (w w' : option tensor) (fs fs' : list tensor) :
  map (@shape F) fs = map (@shape F) fs' -> option_map (@shape F) w = option_map (@shape F) w' ->
  validate_cp w fs = validate_cp w' fs'.
Proof.
  intros Hf Hw. unfold validate_cp. destruct fs as [|f fs], fs' as [|f' fs']; try discriminate; [reflexivity|].
  pose proof (cp_shapes_ext) as E. cbn [map] in Hf. injection Hf as Hf0 Hfr.
  unfold cp_rank_of. rewrite Hf0. destruct (match shape f' with [_; r] => Ok r | [_] => Ok 1 | _ => Err end) as [R|]; [|reflexivity].
  cbn [rbind]. rewrite (E R (f :: fs) (f' :: fs')) by (cbn [map]; now rewrite Hf0, Hfr).
  destruct (cp_shapes R (f' :: fs')); [|reflexivity]. cbn [rbind].
  replace (weights_ok w R) with (weights_ok w' R); [reflexivity|].
  destruct w, w'; try discriminate; [|reflexivity]. cbn [option_map] in Hw. injection Hw as Hw. unfold weights_ok. now rewrite Hw.
Qed.
Lemma all_shape3_ext : forall (cs cs' : list tensor), map (@shape F) cs = map (@shape F) cs' -> all_shape3 cs = all_shape3 cs'.
Proof.
  induction cs as [|c cs IH]; intros [|c' cs'] H; try discriminate; [reflexivity|]. cbn [map] in H. injection H as Hc Hr.
  cbn [all_shape3]. unfold shape3. rewrite Hc, (IH _ Hr). reflexivity.
Qed.
Lemma all_shape4_ext : forall (cs cs' : list tensor), map (@shape F) cs = map (@shape F) cs' -> all_shape4 cs = all_shape4 cs'.
Proof.
  induction cs as [|c cs IH]; intros [|c' cs'] H; try discriminate; [reflexivity|]. cbn [map] in H. injection H as Hc Hr.
  cbn [all_shape4]. unfold shape4. rewrite Hc, (IH _ Hr). reflexivity.
Qed.
Lemma validate_tt_ext (cs cs' : list tensor) : map (@shape F) cs = map (@shape F) cs' -> validate_tt cs = validate_tt cs'.
Proof. intros H. unfold validate_tt. rewrite (all_shape3_ext _ _ H). destruct cs, cs'; try discriminate; reflexivity. Qed.
Lemma validate_tr_ext (cs cs' : list tensor) : map (@shape F) cs = map (@shape F) cs' -> validate_tr cs = validate_tr cs'.
Proof.
  intros H. unfold validate_tr. rewrite (all_shape3_ext _ _ H).
  replace (length cs') with (length cs) by (rewrite <- (map_length (@shape F) cs), H; apply map_length). reflexivity.
Qed.
Lemma validate_ttm_ext (cs cs' : list tensor) : map (@shape F) cs = map (@shape F) cs' -> validate_ttm cs = validate_ttm cs'.
Proof. intros H. unfold validate_ttm. rewrite (all_shape4_ext _ _ H). destruct cs, cs'; try discriminate; reflexivity. Qed.
Lemma tucker_dims_ext cs : forall (fs fs' : list tensor) k, map (@shape F) fs = map (@shape F) fs' -> tucker_dims k cs fs = tucker_dims k cs fs'.
Proof.
  induction fs as [|f fs IH]; intros [|f' fs'] k H; try discriminate; [reflexivity|]. cbn [map] in H. injection H as Hf Hr.
  cbn [tucker_dims]. rewrite Hf, (IH _ (S k) Hr). reflexivity.
Qed.
Lemma validate_tucker_ext (core core' : tensor) (fs fs' : list tensor) :
  shape core = shape core' -> map (@shape F) fs = map (@shape F) fs' -> validate_tucker core fs = validate_tucker core' fs'.
Proof.
  intros Hc H. unfold validate_tucker, ndim. rewrite Hc, (tucker_dims_ext _ _ _ 0 H).
  replace (length fs') with (length fs) by (rewrite <- (map_length (@shape F) fs), H; apply map_length). reflexivity.
Qed.

Lemma map_shape_set_nth (cs : list tensor) k (c : tensor) : shape c = shape (nth k cs (mk [] [])) -> k < length cs ->
  map (@shape F) (set_nth k c cs) = map (@shape F) cs.
Proof.
  revert k. induction cs as [|x cs IH]; intros [|k] Hc Hk; simpl in *; try lia; [now rewrite Hc|]. f_equal. apply IH; [exact Hc | lia].
Qed.

(* wrapper objects of the chain formats: the cache is what validation of the stored cores returns -- at construction, and after
   any obj[k] = core that stores a core of the shape it replaces *)
Definition ch_consistent (validate : list tensor -> res (list nat * list nat)) (o : ch_obj (F:=F)) : Prop :=
  validate (cho_cores o) = Ok (cho_shape o, cho_rank o).
Lemma ch_new_consistent validate cs o : ch_new validate cs = Ok o -> ch_consistent validate o /\ cho_cores o = cs.
Proof.
  unfold ch_new, ch_consistent. destruct (validate cs) as [[s r]|] eqn:E; cbn [rbind]; [|discriminate]. intros H; injection H as <-.
  cbn [cho_cores cho_shape cho_rank fst snd]. auto.
Qed.
Lemma ch_set_consistent validate (Hext : forall cs cs', map (@shape F) cs = map (@shape F) cs' -> validate cs = validate cs')
  o k c o' : ch_consistent validate o -> shape c = shape (nth k (cho_cores o) (mk [] [])) -> ch_set o k c = Ok o' ->
  ch_consistent validate o'.
Proof.
  unfold ch_set, ch_consistent. intros Hc Hs. destruct (Nat.ltb_spec k (length (cho_cores o))) as [Hk|]; [|discriminate].
  intros H; injection H as <-. cbn [cho_cores cho_shape cho_rank]. rewrite <- Hc. apply Hext. now apply map_shape_set_nth.
Qed.

(* Tucker objects *)
Definition tk_consistent (o : tk_obj (F:=F)) : Prop := validate_tucker (tko_core o) (tko_factors o) = Ok (tko_shape o, tko_rank o).
Lemma tucker_new_consistent core fs o : tucker_new core fs = Ok o -> tk_consistent o /\ tko_core o = core /\ tko_factors o = fs.
Proof.
  unfold tucker_new, tk_consistent. destruct (validate_tucker core fs) as [[s r]|] eqn:E; cbn [rbind]; [|discriminate].
  intros H; injection H as <-. cbn. auto.
Qed.
Lemma tk_set_consistent o core fs : tk_consistent o -> shape core = shape (tko_core o) -> map (@shape F) fs = map (@shape F) (tko_factors o) ->
  tk_consistent (tk_set_factors (tk_set_core o core) fs).
Proof. unfold tk_consistent. intros Hc H1 H2. cbn. rewrite <- Hc. now apply validate_tucker_ext. Qed.

(* CP objects *)
Definition cp_consistent (o : cp_obj (F:=F)) : Prop := validate_cp (cpo_weights o) (cpo_factors o) = Ok (cpo_shape o, cpo_rank o).
Lemma cp_set_consistent o w fs : cp_consistent o -> option_map (@shape F) w = option_map (@shape F) (cpo_weights o) ->
  map (@shape F) fs = map (@shape F) (cpo_factors o) -> cp_consistent (cp_set_factors (cp_set_weights o w) fs).
Proof. unfold cp_consistent. intros Hc H1 H2. cbn. rewrite <- Hc. now apply validate_cp_ext. Qed.
End S.

Section P.
Variable F : Type.
Variable Op : fops F.
Hypothesis Rth : ring_theory (f0 Op) (f1 Op) (fadd Op) (fmul Op) (fsub Op) (fopp Op) (@eq F).
Add Ring Fr13 : Rth.
Notation zero := (f0 Op).
Notation one := (f1 Op).
Notation "a *f b" := (fmul Op a b) (at level 40, left associativity).
Notation tensor := (tensor F).
Notation cp_consistent := (cp_consistent F).

(* the reconstructions see the factors only through their column views *)
Lemma cp_views_as_matrices (w : option tensor) (fs : list tensor) :
  (forall mask, cp_to_tensor Op w (as_matrices fs) mask = cp_to_tensor Op w fs mask) /\
  (forall m, cp_to_unfolded Op w (as_matrices fs) m = cp_to_unfolded Op w fs m) /\
  cp_to_vec Op w (as_matrices fs) = cp_to_vec Op w fs /\
  cp_normsq Op w (as_matrices fs) = cp_normsq Op w fs.
Proof.
  assert (HT : forall v mask, cp_to_tensor_from Op v w (as_matrices fs) mask = cp_to_tensor_from Op v w fs mask).
  { intros v mask. unfold cp_to_tensor_from. now rewrite (as_matrices_idem F). }
  unfold cp_to_tensor, cp_to_unfolded, cp_to_vec, cp_normsq, cp_to_vec_from. rewrite (validate_cp_as_matrices F).
  split; [intros; apply HT|]. split; [|split].
  - intros m. unfold cp_to_unfolded_from. rewrite (as_matrices_idem F), HT. reflexivity.
  - now rewrite HT.
  - unfold cp_normsq_from. now rewrite (as_matrices_idem F).
Qed.

(* every CP tensor accepted by the validator -- matrix factors or, for rank 1, vectors -- has every view, and its dense view is
   the defining sum of outer products of the (column views of the) factors *)
Theorem cp_accepted_reconstructs (w : option tensor) fs shp R m :
  validate_cp w fs = Ok (shp, R) -> m < length fs -> 0 < prod shp ->
  (exists t, cp_to_tensor Op w fs None = Ok t /\ shape t = shp /\
             forall idx, inb shp idx -> get zero t idx = cp_entry F Op w (as_matrices fs) R idx) /\
  (exists t u, cp_to_tensor Op w fs None = Ok t /\ cp_to_unfolded Op w fs m = Ok u /\ unfold zero t m = Ok u) /\
  (exists t v, cp_to_tensor Op w fs None = Ok t /\ cp_to_vec Op w fs = Ok v /\ tensor_to_vec t = Ok v) /\
  cp_normsq Op w fs = Ok (sum_idx F (f0 Op) (fadd Op) shp (fun idx => cp_entry F Op w (as_matrices fs) R idx *f cp_entry F Op w (as_matrices fs) R idx)).
Proof.
  intros Hv Hm Hp.
  pose proof (validated_as_matrices_2d F w fs shp R Hv) as H2.
  assert (Hv' : validate_cp w (as_matrices fs) = Ok (shp, R)) by (now rewrite (validate_cp_as_matrices F)).
  assert (Hm' : m < length (as_matrices fs)) by (unfold as_matrices; now rewrite map_length).
  destruct (cp_views_as_matrices w fs) as (V1 & V2 & V3 & V4).
  destruct (cp_to_tensor_spec F Op Rth w _ shp R Hv' H2) as (t & Ht & Hst & Hgt).
  destruct (cp_to_unfolded_spec F Op Rth w _ shp R m Hv' H2 Hm' Hp) as (t1 & u & Ht1 & Hu & Huu).
  destruct (cp_to_vec_spec F Op Rth w _ shp R Hv' H2) as (t2 & v & Ht2 & Hvv & Htv & _).
  rewrite V1 in Ht, Ht1, Ht2. rewrite V2 in Hu. rewrite V3 in Hvv.
  split; [exists t; auto|]. split; [exists t1, u; auto|]. split; [exists t2, v; auto|].
  rewrite <- V4. apply (cp_normsq_spec F Op Rth w _ shp R Hv' H2).
Qed.

(* views of an object whose cache is consistent = views of the (weights, factors) tuple it stores *)
Theorem cp_obj_views (o : cp_obj) : cp_consistent o ->
  (forall mask, cpo_to_tensor Op o mask = cp_to_tensor Op (cpo_weights o) (cpo_factors o) mask) /\
  (forall m, cpo_to_unfolded Op o m = cp_to_unfolded Op (cpo_weights o) (cpo_factors o) m) /\
  cpo_to_vec Op o = cp_to_vec Op (cpo_weights o) (cpo_factors o) /\
  cpo_normsq Op o = cp_normsq Op (cpo_weights o) (cpo_factors o) /\
  cpo_validate o = validate_cp (cpo_weights o) (cpo_factors o).
Proof.
  unfold FactorizedProofs13.cp_consistent. intros Hc.
  unfold cpo_to_tensor, cpo_to_unfolded, cpo_to_vec, cpo_normsq, cp_to_tensor, cp_to_unfolded, cp_to_vec, cp_normsq, cpo_validate.
  rewrite Hc. repeat split; reflexivity.
Qed.

Lemma get1_ones n r : r < n -> get1 Op (ones_vec Op n) r = one.
Proof. intros H. unfold ones_vec. now rewrite (get1_tab F Op). Qed.

Lemma opt_scale_ones (A : tensor) n R : shape A = [n; R] -> wf A -> opt_scale Op (Some (ones_vec Op R)) A = A.
Proof.
  intros HA W. cbn [opt_scale]. apply tensor_ext with (d := zero); [apply wf_tabulate | exact W | |].
  - now rewrite (shape_scale_cols F Op A _ n R HA).
  - intros idx Hi. rewrite (shape_scale_cols F Op A _ n R HA) in Hi. destruct idx as [|i [|j [|? ?]]]; simpl in Hi; try tauto.
    change (get zero ?T [i; j]) with (get2 Op T i j).
    rewrite (get2_scale_cols F Op A _ n R) by (auto; tauto). rewrite get1_ones by tauto. ring.
Qed.

Lemma all_2d_Forall (fs : list tensor) : all_2d fs = true -> Forall (fun f => ndim f = 2) fs.
Proof. unfold all_2d. rewrite forallb_forall, Forall_forall. intros H f Hf. apply Nat.eqb_eq. now apply H. Qed.

(* weights=None and weights=ones(rank) give the same views (the constructor's replacement is harmless) *)
Lemma cp_none_is_ones_2d fs shp R : validate_cp None fs = Ok (shp, R) -> Forall (@wf F) fs -> Forall (fun f => ndim f = 2) fs ->
  validate_cp (Some (ones_vec Op R)) fs = Ok (shp, R) /\
  (forall mask, cp_to_tensor Op (Some (ones_vec Op R)) fs mask = cp_to_tensor Op None fs mask) /\
  (forall m, cp_to_unfolded Op (Some (ones_vec Op R)) fs m = cp_to_unfolded Op None fs m) /\
  cp_to_vec Op (Some (ones_vec Op R)) fs = cp_to_vec Op None fs /\
  cp_normsq Op (Some (ones_vec Op R)) fs = cp_normsq Op None fs.
Proof.
  intros Hv W H2.
  assert (Hv1 : validate_cp (Some (ones_vec Op R)) fs = Ok (shp, R)).
  { apply validate_cp_iff in Hv. apply validate_cp_iff. destruct Hv as (Hx1 & Hx2 & _). repeat split; auto. }
  split; [exact Hv1|].
  pose proof (all_2d_true F fs H2) as E2. pose proof (as_matrices_id F fs H2) as Eid.
 pose proof (valid_mats F _ _ _ _ Hv H2) as Hm.
  assert (Hos : forall k, k < length fs -> opt_scale Op (Some (ones_vec Op R)) (nth k fs (mk [] [])) = nth k fs (mk [] [])).
  { intros k Hk. pose proof (mats_length F _ _ _ Hm) as Hl.
    apply (opt_scale_ones _ (nth k shp 0) R).
    - apply (Forall2_nth (fun (f : tensor) n => shape f = [n; R])); assumption.
    - rewrite Forall_forall in W. apply W. now apply nth_In. }
  assert (HT : forall mask, cp_to_tensor Op (Some (ones_vec Op R)) fs mask = cp_to_tensor Op None fs mask).
  { intros mask. unfold cp_to_tensor, cp_to_tensor_from. rewrite Hv, Hv1. cbn [rbind fst]. rewrite Eid, E2. cbn [negb].
    destruct fs as [|fa rest]; [reflexivity|]. specialize (Hos 0 ltac:(simpl; lia)). cbn [nth] in Hos. rewrite Hos. reflexivity. }
  split; [exact HT|]. split; [|split].
  - intros m. unfold cp_to_unfolded, cp_to_unfolded_from. rewrite Hv, Hv1. cbn [rbind fst].
    unfold cp_to_tensor in HT. rewrite Hv, Hv1 in HT. rewrite (HT None). rewrite Eid, E2. cbn [negb].
    destruct (length shp =? 1); [reflexivity|]. destruct (Nat.ltb_spec m (length fs)) as [Hlt|]; [|reflexivity].
    rewrite (Hos m Hlt). reflexivity.
  - unfold cp_to_vec, cp_to_vec_from. unfold cp_to_tensor in HT. now rewrite (HT None).
  - unfold cp_normsq, cp_normsq_from. rewrite Hv, Hv1. cbn [rbind]. rewrite Eid.
    destruct (ndim (hd (mk [] []) fs) =? 2); cbn [negb]; [|reflexivity]. f_equal.
    assert (HR : ncols (hd (mk [] []) fs) = R).
    { destruct fs as [|f fs']; [inversion Hm; subst; discriminate Hv|]. inversion Hm; subst. unfold ncols. cbn [hd].
      match goal with H : shape f = _ |- _ => rewrite H end. reflexivity. }
    rewrite HR. apply (fsumn_ext F Op); intros r Hr. apply (fsumn_ext F Op); intros s Hs. cbn [wv]. rewrite !get1_ones by assumption. reflexivity.
Qed.

Theorem cp_none_is_ones fs shp R : validate_cp None fs = Ok (shp, R) -> Forall (@wf F) fs ->
  validate_cp (Some (ones_vec Op R)) fs = Ok (shp, R) /\
  (forall mask, cp_to_tensor Op (Some (ones_vec Op R)) fs mask = cp_to_tensor Op None fs mask) /\
  (forall m, cp_to_unfolded Op (Some (ones_vec Op R)) fs m = cp_to_unfolded Op None fs m) /\
  cp_to_vec Op (Some (ones_vec Op R)) fs = cp_to_vec Op None fs /\
  cp_normsq Op (Some (ones_vec Op R)) fs = cp_normsq Op None fs.
Proof.
  intros Hv W.
  assert (Hv' : validate_cp None (as_matrices fs) = Ok (shp, R)) by (now rewrite (validate_cp_as_matrices F)).
  assert (W' : Forall (@wf F) (as_matrices fs)).
  { unfold as_matrices. apply Forall_map. revert W. apply Forall_impl. intros f. apply (wf_as_col F). }
  destruct (cp_none_is_ones_2d _ _ _ Hv' W' (validated_as_matrices_2d F None fs shp R Hv)) as (N0 & N1 & N2 & N3 & N4).
  destruct (cp_views_as_matrices None fs) as (A1 & A2 & A3 & A4).
  destruct (cp_views_as_matrices (Some (ones_vec Op R)) fs) as (B1 & B2 & B3 & B4).
  split; [now rewrite <- (validate_cp_as_matrices F)|].
  split; [intros mask; now rewrite <- B1, <- A1|]. split; [intros m; now rewrite <- B2, <- A2|].
  split; [now rewrite <- B3, <- A3 | now rewrite <- B4, <- A4].
Qed.

(* the constructor: cache = validation of the stored contents, contents = the given factors, weights None -> ones(rank) *)
Theorem cp_new_spec (w : option tensor) fs o : cp_new Op w fs = Ok o ->
  cp_consistent o /\ cpo_factors o = fs /\ validate_cp w fs = Ok (cpo_shape o, cpo_rank o) /\
  cpo_weights o = Some (match w with None => ones_vec Op (cpo_rank o) | Some x => x end).
Proof.
  unfold cp_new. destruct (validate_cp w fs) as [[shp R]|] eqn:Hv; cbn [rbind]; [|discriminate]. intros H; injection H as <-.
  cbn [cpo_factors cpo_shape cpo_rank cpo_weights fst snd]. unfold FactorizedProofs13.cp_consistent. cbn [cpo_factors cpo_shape cpo_rank cpo_weights].
  repeat split; auto. destruct w as [wt|]; [exact Hv|].
  apply validate_cp_iff in Hv. apply validate_cp_iff. destruct Hv as (H1 & H2 & _). repeat split; auto.
Qed.

(* tuple input and wrapper-object input give the same views *)
Theorem cp_tuple_vs_wrapper (w : option tensor) fs o : cp_new Op w fs = Ok o -> Forall (@wf F) fs ->
  (forall mask, cpo_to_tensor Op o mask = cp_to_tensor Op w fs mask) /\
  (forall m, cpo_to_unfolded Op o m = cp_to_unfolded Op w fs m) /\
  cpo_to_vec Op o = cp_to_vec Op w fs /\
  cpo_normsq Op o = cp_normsq Op w fs /\
  cpo_validate o = validate_cp w fs.
Proof.
  intros Hn W. destruct (cp_new_spec w fs o Hn) as (Hc & Hf & Hv & Hw).
  destruct (cp_obj_views o Hc) as (V1 & V2 & V3 & V4 & V5). rewrite Hf, Hw in *.
  destruct w as [wt|].
  - repeat split; auto; try (now rewrite Hv).
  - destruct (cp_none_is_ones fs _ _ Hv W) as (_ & N1 & N2 & N3 & N4).
    repeat split.
    + intros mask. now rewrite V1, N1.
    + intros m. now rewrite V2, N2.
    + now rewrite V3, N3.
    + now rewrite V4, N4.
    + now rewrite Hv.
Qed.

End P.

(* ---------- the stale cache: obj[1] = factors of another shape (CPTensor.__setitem__) ---------- *)
Definition sA : tensor Z := mk [2; 2] [1; 2; 0; -1]%Z.
Definition sB : tensor Z := mk [3; 2] [2; 0; 1; 1; -1; 3]%Z.
Lemma cp_setitem_stale_refuted :
  exists (o o' : cp_obj (F:=Z)) t t',
    cp_new Zops None [sA; sB] = Ok o /\ o' = cp_set_factors o [sB; sA] /\
    validate_cp (cpo_weights o') (cpo_factors o') = Ok ([3; 2], 2) /\ cpo_validate o' = Ok ([2; 3], 2) /\
    cpo_to_tensor Zops o' None = Ok t /\ cp_to_tensor Zops (cpo_weights o') (cpo_factors o') None = Ok t' /\
    shape t = [2; 3] /\ shape t' = [3; 2] /\ t <> t'.
Proof.
  eexists. eexists. eexists. eexists. split; [vm_compute; reflexivity|]. split; [reflexivity|].
  split; [vm_compute; reflexivity|]. split; [vm_compute; reflexivity|].
  split; [vm_compute; reflexivity|]. split; [vm_compute; reflexivity|].
  split; [reflexivity|]. split; [reflexivity|]. discriminate.
Qed.
Lemma tt_setitem_stale_refuted :
  exists (o o' : ch_obj (F:=Z)) t,
    ch_new validate_tt [mk [1; 2; 1] [1; 2]%Z] = Ok o /\ ch_set o 0 (mk [1; 3; 1] [1; 2; 3]%Z) = Ok o' /\
    cho_shape o' = [2] /\ tt_to_tensor Zops (cho_cores o') = Ok t /\ shape t = [3].
Proof. eexists. eexists. eexists. repeat split; vm_compute; reflexivity. Qed.

(* ---------- statements assembled for Props/C03.v ---------- *)
Definition is_ring13 {F : Type} (Op : fops F) : Prop :=
  ring_theory (f0 Op) (f1 Op) (fadd Op) (fmul Op) (fsub Op) (fopp Op) (@eq F).
Lemma cp_cache_valid : forall (F : Type) (Op : fops F)
  (w : option (tensor F)) (fs : list (tensor F)) (o : cp_obj), cp_new Op w fs = Ok o ->
  cp_consistent F o /\
  forall (w' : option (tensor F)) (fs' : list (tensor F)),
    option_map (@shape F) w' = option_map (@shape F) (cpo_weights o) -> map (@shape F) fs' = map (@shape F) (cpo_factors o) ->
    cp_consistent F (cp_set_factors (cp_set_weights o w') fs').
Proof. intros F Op w fs o Hn. destruct (cp_new_spec F Op w fs o Hn) as (Hc & _). split; [exact Hc|]. intros. now apply cp_set_consistent. Qed.

Lemma chain_cache_valid : forall (F : Type) (cs : list (tensor F)) (o : ch_obj),
  (ch_new validate_tt cs = Ok o -> ch_consistent F validate_tt o /\ cho_cores o = cs) /\
  (ch_new validate_tr cs = Ok o -> ch_consistent F validate_tr o /\ cho_cores o = cs) /\
  (ch_new validate_ttm cs = Ok o -> ch_consistent F validate_ttm o /\ cho_cores o = cs) /\
  (forall validate, (validate = validate_tt \/ validate = validate_tr \/ validate = validate_ttm) ->
     forall k c o', ch_consistent F validate o -> shape c = shape (nth k (cho_cores o) (mk [] [])) -> ch_set o k c = Ok o' ->
     ch_consistent F validate o').
Proof.
  intros F cs o. split; [|split; [|split]].
  - now apply (ch_new_consistent F validate_tt cs o).
  - now apply (ch_new_consistent F validate_tr cs o).
  - now apply (ch_new_consistent F validate_ttm cs o).
  - intros validate [-> | [-> | ->]] k c o' Hc Hs Hset.
    + exact (ch_set_consistent F validate_tt (validate_tt_ext F) o k c o' Hc Hs Hset).
    + exact (ch_set_consistent F validate_tr (validate_tr_ext F) o k c o' Hc Hs Hset).
    + exact (ch_set_consistent F validate_ttm (validate_ttm_ext F) o k c o' Hc Hs Hset).
Qed.

Lemma tucker_cache_valid : forall (F : Type) (core : tensor F) (fs : list (tensor F)) (o : tk_obj),
  tucker_new core fs = Ok o ->
  tk_consistent F o /\ tko_core o = core /\ tko_factors o = fs /\
  forall core' fs', shape core' = shape (tko_core o) -> map (@shape F) fs' = map (@shape F) (tko_factors o) ->
    tk_consistent F (tk_set_factors (tk_set_core o core') fs').
Proof.
  intros F core fs o Hn. destruct (tucker_new_consistent F core fs o Hn) as (Hc & H1 & H2). repeat split; auto.
  intros. now apply tk_set_consistent.
Qed.
