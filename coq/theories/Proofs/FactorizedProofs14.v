(* Lemmas about Model/Factorized.v (part 14: Parafac2Tensor / TuckerTensor / chain wrapper objects vs tuples). *)
From Coq Require Import List Arith Lia Bool Ring.
From TLV Require Import Base.Shape Base.PyList Base.Tensor Base.BigSum Base.Ops Model.Base Model.Factorized
  Proofs.BaseProofs Proofs.FactorizedProofs Proofs.FactorizedProofs13.
Import ListNotations.

Section P.
Variable F : Type.
Variable Op : fops F.
Hypothesis Rth : ring_theory (f0 Op) (f1 Op) (fadd Op) (fmul Op) (fsub Op) (fopp Op) (@eq F).
Add Ring Fr14 : Rth.
Notation zero := (f0 Op).
Notation one := (f1 Op).
Notation "a *f b" := (fmul Op a b) (at level 40, left associativity).
Notation tensor := (tensor F).
Notation dflt := (mk (@nil nat) (@nil F)).

(* a * ones = a for the row of A used by parafac2_to_slice *)
Lemma mul_vec_ones (A : tensor) I R i : shape A = [I; R] -> mul_vec Op (row_of Op A i) (ones_vec Op R) = row_of Op A i.
Proof.
  intros HA. unfold mul_vec, row_of, ncols. rewrite HA. cbn [nth shape tabulate].
  apply tensor_ext with (d := zero); [apply wf_tabulate | apply wf_tabulate | reflexivity |].
  intros idx Hi. cbn [shape tabulate] in Hi. destruct idx as [|j [|? ?]]; simpl in Hi; try tauto.
  rewrite !get_tabulate by (simpl; tauto). unfold ix. cbn [nth].
  rewrite (get1_tab F Op) by tauto. unfold ix. cbn [nth]. rewrite (get1_ones F Op) by tauto. ring.
Qed.

Lemma p2_slice_raw_ones (A B C : tensor) ps I R i : shape A = [I; R] ->
  p2_slice_raw Op (Some (ones_vec Op R)) A B C ps i = p2_slice_raw Op None A B C ps i.
Proof. intros HA. unfold p2_slice_raw. now rewrite (mul_vec_ones A I R i HA). Qed.

Lemma validate_p2_ones (fs ps : list tensor) shps R : validate_parafac2 Op None fs ps = Ok (shps, R) ->
  validate_parafac2 Op (Some (ones_vec Op R)) fs ps = Ok (shps, R).
Proof.
  unfold validate_parafac2. destruct fs as [|A [|B [|C [|? ?]]]]; try discriminate.
  destruct (shape A) as [|nI [|rank restA]]; try discriminate.
  destruct (negb (length ps =? nI)); [discriminate|]. destruct (shape C) as [|K restC]; [discriminate|].
  destruct (p2_proj_shapes Op rank K ps) as [l|]; cbn [rbind]; [|discriminate].
  destruct (cols_are rank B && cols_are rank C); cbn [andb p2_weights_ok]; [|discriminate].
  intros H; injection H as <- <-. cbn [shape ones_vec tabulate]. now rewrite Nat.eqb_refl.
Qed.

(* Parafac2Tensor((None, factors, projections)) stores ones(rank): same slices, same tensor *)
Theorem p2_none_is_ones (A B C : tensor) ps shps R I : validate_parafac2 Op None [A; B; C] ps = Ok (shps, R) ->
  shape A = [I; R] -> wf A ->
  (forall i, parafac2_to_slice Op (Some (ones_vec Op R)) [A; B; C] ps i = parafac2_to_slice Op None [A; B; C] ps i) /\
  parafac2_to_slices Op (Some (ones_vec Op R)) [A; B; C] ps = parafac2_to_slices Op None [A; B; C] ps /\
  parafac2_to_tensor Op (Some (ones_vec Op R)) [A; B; C] ps = parafac2_to_tensor Op None [A; B; C] ps.
Proof.
  intros Hv HA W. pose proof (validate_p2_ones _ _ _ _ Hv) as Hv1.
  assert (Hs : parafac2_to_slices Op (Some (ones_vec Op R)) [A; B; C] ps = parafac2_to_slices Op None [A; B; C] ps).
  { unfold parafac2_to_slices, parafac2_to_slices_from. rewrite Hv, Hv1. cbn [rbind]. rewrite (opt_scale_ones F Op Rth A I R HA W). reflexivity. }
  split; [|split; [exact Hs|]].
  - intros i. unfold parafac2_to_slice, parafac2_to_slice_from. rewrite Hv, Hv1. cbn [rbind]. apply (p2_slice_raw_ones A B C ps I R i HA).
  - unfold parafac2_to_tensor, parafac2_to_tensor_from. unfold parafac2_to_slices in Hs. now rewrite Hs.
Qed.

(* tuple input and Parafac2Tensor object give the same slices / tensor / (slice shapes, rank) *)
Theorem p2_tuple_vs_wrapper (w : option tensor) (A B C : tensor) ps o I R : p2_new Op w [A; B; C] ps = Ok o ->
  shape A = [I; R] -> wf A ->
  (forall i, p2o_to_slice Op o i = parafac2_to_slice Op w [A; B; C] ps i) /\
  p2o_to_slices Op o = parafac2_to_slices Op w [A; B; C] ps /\
  p2o_to_tensor Op o = parafac2_to_tensor Op w [A; B; C] ps /\
  p2o_validate o = validate_parafac2 Op w [A; B; C] ps.
Proof.
  unfold p2_new. destruct (validate_parafac2 Op w [A; B; C] ps) as [[shps R']|] eqn:Hv; cbn [rbind]; [|discriminate].
  intros H HA W; injection H as <-. cbn [fst snd].
  unfold p2o_to_slice, p2o_to_slices, p2o_to_tensor, p2o_validate. cbn [p2o_shape p2o_rank p2o_weights p2o_factors p2o_projections].
  assert (HR : R' = R).
  { revert Hv. unfold validate_parafac2. rewrite HA. destruct (negb (length ps =? I)); [discriminate|]. destruct (shape C) as [|K rest]; [discriminate|].
    destruct (p2_proj_shapes Op R K ps); cbn [rbind]; [|discriminate]. destruct (cols_are R B && cols_are R C && p2_weights_ok w R); [|discriminate].
    intros H; now injection H. }
  subst R'. destruct w as [wt|].
  - unfold parafac2_to_slice, parafac2_to_slices, parafac2_to_tensor. rewrite Hv. repeat split; reflexivity.
  - destruct (p2_none_is_ones A B C ps shps R I Hv HA W) as (N1 & N2 & N3).
    pose proof (validate_p2_ones _ _ _ _ Hv) as Hv1.
    repeat split.
    + intros i. rewrite <- N1. unfold parafac2_to_slice. now rewrite Hv1.
    + rewrite <- N2. unfold parafac2_to_slices. now rewrite Hv1.
    + rewrite <- N3. unfold parafac2_to_tensor. now rewrite Hv1.
Qed.

(* Tucker / TT / TR / TT-matrix objects: the functions unpack the object, so wrapper views are the tuple views of the stored
   contents, and right after construction the stored contents are the given ones and the cache is the validator's answer *)
Theorem tucker_tuple_vs_wrapper (core : tensor) fs o skip tr : tucker_new core fs = Ok o ->
  tko_to_tensor Op o skip tr = tucker_to_tensor Op core fs skip tr /\ validate_tucker core fs = Ok (tko_shape o, tko_rank o).
Proof.
  intros Hn. destruct (tucker_new_consistent F core fs o Hn) as (Hc & H1 & H2). unfold tko_to_tensor. rewrite H1, H2. split; [reflexivity|].
  unfold tk_consistent in Hc. now rewrite H1, H2 in Hc.
Qed.
Theorem chain_tuple_vs_wrapper validate (cs : list tensor) o : ch_new validate cs = Ok o ->
  cho_cores o = cs /\ validate cs = Ok (cho_shape o, cho_rank o).
Proof. intros Hn. destruct (ch_new_consistent F validate cs o Hn) as (Hc & H1). split; [exact H1|]. unfold ch_consistent in Hc. now rewrite H1 in Hc. Qed.

End P.
