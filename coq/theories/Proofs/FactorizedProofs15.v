(* Lemmas about Model/Factorized.v (part 15: naturality in the carrier -- the reconstructions commute with every ring homomorphism
   applied entry by entry; the formal content of "no entry is rounded or re-typed": converting the stored arrays exactly (int ->
   float, float32 -> float64, real -> complex ...) and reconstructing is reconstructing and converting). *)
From Coq Require Import List Arith Lia Bool.
From TLV Require Import Base.Shape Base.PyList Base.Tensor Base.BigSum Base.Ops Model.Base Model.Factorized
  Proofs.BaseProofs4 Proofs.BaseProofs6 Proofs.FactorizedProofs13.
Import ListNotations.

Definition omap {A B} (f : A -> B) (o : option A) : option B := match o with Some a => Some (f a) | None => None end.

Section N.
Variables F G : Type.
Variable OpF : fops F.
Variable OpG : fops G.
Variable h : F -> G.
(* h is a homomorphism for the operations the reconstructions use: 0, 1, +, *  (no ring axiom is needed) *)
Hypothesis h0 : h (f0 OpF) = f0 OpG.
Hypothesis h1 : h (f1 OpF) = f1 OpG.
Hypothesis hadd : forall a b, h (fadd OpF a b) = fadd OpG (h a) (h b).
Hypothesis hmul : forall a b, h (fmul OpF a b) = fmul OpG (h a) (h b).
Notation tm := (tmap h).
Notation tms := (map (tmap h)).

Lemma fsumn_hom n f : h (fsumn OpF n f) = fsumn OpG n (fun i => h (f i)).
Proof. unfold fsumn. induction n as [|n IH]; cbn [bigsum]; [exact h0|]. now rewrite hadd, IH. Qed.
Lemma fsumn_ext' n f g : (forall i, i < n -> f i = g i) -> fsumn OpG n f = fsumn OpG n g.
Proof. apply bigsum_ext. Qed.

Lemma getz (t : tensor F) idx : get (f0 OpG) (tm t) idx = h (get (f0 OpF) t idx).
Proof. rewrite <- h0. apply get_tmap. Qed.
Lemma get2_tm (A : tensor F) i j : get2 OpG (tm A) i j = h (get2 OpF A i j).
Proof. apply getz. Qed.
Lemma get1_tm (A : tensor F) i : get1 OpG (tm A) i = h (get1 OpF A i).
Proof. apply getz. Qed.
Lemma nth_data_tm (t : tensor F) k : nth k (data (tm t)) (f0 OpG) = h (nth k (data t) (f0 OpF)).
Proof. rewrite <- h0. cbn [tmap data]. apply map_nth. Qed.

Ltac tab := rewrite <- tabulate_tmap; apply tabulate_ext; intros idx _.

Lemma mdot_nat (A B : tensor F) : mdot OpG (tm A) (tm B) = rmap tm (mdot OpF A B).
Proof.
  unfold mdot. change (ndim (tm A)) with (ndim A). change (ndim (tm B)) with (ndim B).
  change (ncols (tm A)) with (ncols A). change (nrows (tm B)) with (nrows B). change (nrows (tm A)) with (nrows A). change (ncols (tm B)) with (ncols B).
  destruct ((ndim A =? 2) && (ndim B =? 2) && (ncols A =? nrows B)); [|reflexivity]. cbn [rmap]. f_equal. tab.
  rewrite fsumn_hom. apply fsumn_ext'; intros k _. now rewrite hmul, !get2_tm.
Qed.
Lemma mT_nat (A : tensor F) : mT OpG (tm A) = tm (mT OpF A).
Proof. unfold mT. change (ncols (tm A)) with (ncols A). change (nrows (tm A)) with (nrows A). tab. apply get2_tm. Qed.
Lemma scale_cols_nat (A w : tensor F) : scale_cols OpG (tm A) (tm w) = tm (scale_cols OpF A w).
Proof. unfold scale_cols. change (ncols (tm A)) with (ncols A). change (nrows (tm A)) with (nrows A). tab. now rewrite hmul, get2_tm, get1_tm. Qed.
Lemma opt_scale_nat w (A : tensor F) : opt_scale OpG (omap tm w) (tm A) = tm (opt_scale OpF w A).
Proof. destruct w; cbn [omap opt_scale]; [apply scale_cols_nat | reflexivity]. Qed.
Lemma sum_axis1_nat (A : tensor F) : sum_axis1 OpG (tm A) = tm (sum_axis1 OpF A).
Proof. unfold sum_axis1. change (ncols (tm A)) with (ncols A). change (nrows (tm A)) with (nrows A). tab. rewrite fsumn_hom. apply fsumn_ext'; intros; apply get2_tm. Qed.
Lemma kr2_nat (A B : tensor F) : kr2 OpG (tm A) (tm B) = tm (kr2 OpF A B).
Proof.
  unfold kr2. change (ncols (tm A)) with (ncols A). change (nrows (tm A)) with (nrows A). change (nrows (tm B)) with (nrows B).
  tab. now rewrite hmul, !get2_tm.
Qed.
Lemma fold_left_kr2_nat : forall rest (m : tensor F), fold_left (kr2 OpG) (tms rest) (tm m) = tm (fold_left (kr2 OpF) rest m).
Proof. induction rest as [|x rest IH]; intros m; cbn [map fold_left]; [reflexivity|]. now rewrite kr2_nat, IH. Qed.
Lemma khatri_rao_nat (ms : list (tensor F)) : khatri_rao OpG (tms ms) = rmap tm (khatri_rao OpF ms).
Proof. destruct ms as [|m rest]; cbn [map khatri_rao rmap]; [reflexivity|]. now rewrite fold_left_kr2_nat. Qed.
Lemma apply_mask_nat (K m : tensor F) : apply_mask OpG (tm K) (tm m) = rmap tm (apply_mask OpF K m).
Proof.
  unfold apply_mask. change (nrows (tm K)) with (nrows K). change (ncols (tm K)) with (ncols K).
  cbn [tmap data]. rewrite map_length. destruct (length (data m) =? nrows K); [|reflexivity]. cbn [rmap]. f_equal. tab.
  rewrite hmul, get2_tm. f_equal. first [exact (nth_data_tm m _) | symmetry; exact (nth_data_tm m _)].
Qed.
Lemma mask_vec_nat (v m : tensor F) : mask_vec OpG (tm v) (tm m) = rmap tm (mask_vec OpF v m).
Proof.
  unfold mask_vec. change (nrows (tm v)) with (nrows v). cbn [tmap data]. rewrite map_length.
  destruct (length (data m) =? nrows v); [|reflexivity]. cbn [rmap]. f_equal. tab.
  rewrite hmul. f_equal; [first [apply (get1_tm v) | symmetry; apply (get1_tm v)] | first [exact (nth_data_tm m _) | symmetry; exact (nth_data_tm m _)]].
Qed.
Lemma as_col_nat (f : tensor F) : as_col (tm f) = tm (as_col f).
Proof. unfold as_col. change (ndim (tm f)) with (ndim f). destruct (ndim f =? 1); reflexivity. Qed.
Lemma as_matrices_nat (fs : list (tensor F)) : as_matrices (tms fs) = tms (as_matrices fs).
Proof. unfold as_matrices. rewrite !map_map. apply map_ext. apply as_col_nat. Qed.
Lemma all_2d_nat (fs : list (tensor F)) : all_2d (tms fs) = all_2d fs.
Proof. unfold all_2d. induction fs; cbn [map forallb]; [reflexivity|]. now rewrite IHfs. Qed.
Lemma remove_nth_map {X Y} (g : X -> Y) k : forall l, remove_nth k (map g l) = map g (remove_nth k l).
Proof. induction k; intros [|x l]; cbn [map remove_nth]; auto. now rewrite IHk. Qed.
Lemma fold_nat (t : tensor F) m s : fold (f0 OpG) (tm t) m s = rmap tm (fold (f0 OpF) t m s).
Proof. rewrite <- h0. apply (naturality h (f0 OpF) t). Qed.
Lemma unfold_nat (t : tensor F) m : unfold (f0 OpG) (tm t) m = rmap tm (unfold (f0 OpF) t m).
Proof. rewrite <- h0. apply (naturality h (f0 OpF) t). Qed.
Lemma vec_nat (t : tensor F) : tensor_to_vec (tm t) = rmap tm (tensor_to_vec t).
Proof. apply (naturality h (f0 OpF) t). Qed.
Lemma rbind_nat {X Y X' Y'} (a : X -> X') (b : Y -> Y') (r : res X) (r' : res X') (k : X -> res Y) (k' : X' -> res Y') :
  r' = rmap a r -> (forall x, k' (a x) = rmap b (k x)) -> rbind r' k' = rmap b (rbind r k).
Proof. intros -> H. destruct r; cbn [rmap rbind]; [apply H | reflexivity]. Qed.

(* ---------- CP ---------- *)
Lemma cp_shapes_nat R : forall fs : list (tensor F), cp_shapes R (tms fs) = cp_shapes R fs.
Proof. induction fs as [|f fs IH]; [reflexivity|]. cbn [map cp_shapes]. change (cp_factor_dims (tm f)) with (cp_factor_dims f). now rewrite IH. Qed.
Lemma validate_cp_nat w (fs : list (tensor F)) : validate_cp (omap tm w) (tms fs) = validate_cp w fs.
Proof.
  unfold validate_cp. destruct fs as [|f fs]; [reflexivity|]. cbn [map]. change (cp_rank_of (tm f)) with (cp_rank_of f).
  destruct (cp_rank_of f) as [R|]; [|reflexivity]. cbn [rbind]. change (tm f :: tms fs) with (tms (f :: fs)). rewrite cp_shapes_nat.
  destruct (cp_shapes R (f :: fs)); [|reflexivity]. cbn [rbind]. destruct w; reflexivity.
Qed.

Theorem cp_to_tensor_from_nat v w (fs : list (tensor F)) mask :
  cp_to_tensor_from OpG v (omap tm w) (tms fs) (omap tm mask) = rmap tm (cp_to_tensor_from OpF v w fs mask).
Proof.
  unfold cp_to_tensor_from. destruct v as [[shp R]|]; [|reflexivity]. cbn [rbind fst]. rewrite as_matrices_nat, all_2d_nat.
  destruct (all_2d (as_matrices fs)); cbn [negb]; [|reflexivity].
  destruct (as_matrices fs) as [|fa rest]; cbn [map]; [reflexivity|]. rewrite opt_scale_nat.
  destruct (length shp =? 1).
  - destruct mask as [m|]; cbn [omap]; rewrite sum_axis1_nat; [apply mask_vec_nat | reflexivity].
  - destruct mask as [m|]; cbn [omap].
    + change (tm (opt_scale OpF w fa) :: tms rest) with (tms (opt_scale OpF w fa :: rest)).
      apply (rbind_nat tm tm); [apply khatri_rao_nat|]. intros K.
      apply (rbind_nat tm tm); [apply apply_mask_nat|]. intros KM. rewrite sum_axis1_nat. apply fold_nat.
    + change (tm fa :: tms rest) with (tms (fa :: rest)). rewrite remove_nth_map.
      apply (rbind_nat tm tm); [apply khatri_rao_nat|]. intros K. rewrite mT_nat.
      apply (rbind_nat tm tm); [apply mdot_nat|]. intros U. apply fold_nat.
Qed.

Theorem cp_to_unfolded_from_nat v w (fs : list (tensor F)) m :
  cp_to_unfolded_from OpG v (omap tm w) (tms fs) m = rmap tm (cp_to_unfolded_from OpF v w fs m).
Proof.
  unfold cp_to_unfolded_from. destruct v as [[shp R]|] eqn:Ev; [|reflexivity]. cbn [rbind fst]. rewrite <- Ev.
  destruct (length shp =? 1).
  - destruct (m =? 0); [|reflexivity]. apply (rbind_nat tm tm); [apply (cp_to_tensor_from_nat v w fs None)|]. intros t. apply reshape_spec_natural.
  - rewrite as_matrices_nat, all_2d_nat. destruct (all_2d (as_matrices fs)); cbn [negb]; [|reflexivity].
    rewrite map_length. destruct (m <? length (as_matrices fs)); [|reflexivity]. rewrite remove_nth_map.
    apply (rbind_nat tm tm); [apply khatri_rao_nat|]. intros K. rewrite mT_nat.
    change (mk [] []) with (tm (mk [] [])) at 1. rewrite map_nth, opt_scale_nat. apply mdot_nat.
Qed.

Theorem cp_to_vec_from_nat v w (fs : list (tensor F)) : cp_to_vec_from OpG v (omap tm w) (tms fs) = rmap tm (cp_to_vec_from OpF v w fs).
Proof. unfold cp_to_vec_from. apply (rbind_nat tm tm); [apply (cp_to_tensor_from_nat v w fs None) | apply vec_nat]. Qed.

Lemma wv_nat w r : wv OpG (omap tm w) r = h (wv OpF w r).
Proof. destruct w; cbn [omap wv]; [apply get1_tm | now rewrite h1]. Qed.
Lemma gram_nat (f : tensor F) r s : gram OpG (tm f) r s = h (gram OpF f r s).
Proof. unfold gram. change (nrows (tm f)) with (nrows f). rewrite fsumn_hom. apply fsumn_ext'; intros. now rewrite hmul, !get2_tm. Qed.
Lemma fold_left_gram_nat r s : forall (fs : list (tensor F)) a,
  fold_left (fun acc f => fmul OpG acc (gram OpG f r s)) (tms fs) (h a) = h (fold_left (fun acc f => fmul OpF acc (gram OpF f r s)) fs a).
Proof. induction fs as [|f fs IH]; intros a; cbn [map fold_left]; [reflexivity|]. now rewrite gram_nat, <- hmul, IH. Qed.

Lemma hd_tm (l : list (tensor F)) : hd (@mk G [] []) (tms l) = tm (hd (mk [] []) l).
Proof. destruct l; reflexivity. Qed.

Theorem cp_normsq_from_nat v w (fs : list (tensor F)) : cp_normsq_from OpG v (omap tm w) (tms fs) = rmap h (cp_normsq_from OpF v w fs).
Proof.
  unfold cp_normsq_from. destruct v as [sr|]; [|reflexivity]. cbn [rbind]. rewrite as_matrices_nat, hd_tm.
  set (f0' := hd (mk [] []) (as_matrices fs)). change (ndim (tm f0')) with (ndim f0'). change (ncols (tm f0')) with (ncols f0').
  destruct (ndim f0' =? 2); cbn [negb rmap]; [|reflexivity]. f_equal.
  rewrite fsumn_hom. apply fsumn_ext'; intros r _. rewrite fsumn_hom. apply fsumn_ext'; intros s _.
  rewrite !hmul, !wv_nat. f_equal. rewrite <- h1. apply fold_left_gram_nat.
Qed.

(* ---------- Tucker ---------- *)
Lemma mode_dot_nat (T M : tensor F) k : mode_dot OpG (tm T) (tm M) k = rmap tm (mode_dot OpF T M k).
Proof.
  unfold mode_dot. change (ndim (tm M)) with (ndim M). change (ndim (tm T)) with (ndim T). change (ncols (tm M)) with (ncols M).
  change (shape (tm T)) with (shape T). change (nrows (tm M)) with (nrows M).
  destruct ((ndim M =? 2) && (k <? ndim T) && (ncols M =? nth k (shape T) 0)); [|reflexivity].
  apply (rbind_nat tm tm); [apply unfold_nat|]. intros U. apply (rbind_nat tm tm); [apply mdot_nat|]. intros P. apply fold_nat.
Qed.
Theorem multi_mode_dot_from_nat skip tr : forall (Ms : list (tensor F)) k (T : tensor F),
  multi_mode_dot_from OpG k (tm T) (tms Ms) skip tr = rmap tm (multi_mode_dot_from OpF k T Ms skip tr).
Proof.
  induction Ms as [|M Ms IH]; intros k T; cbn [map multi_mode_dot_from]; [reflexivity|].
  destruct (match skip with Some s => s =? k | None => false end); [apply IH|].
  change (ndim (tm M)) with (ndim M). destruct (ndim M =? 2); cbn [negb]; [|reflexivity].
  apply (rbind_nat tm tm); [|intros T'; apply IH]. destruct tr; [rewrite mT_nat|]; apply mode_dot_nat.
Qed.

(* ---------- tensor train / ring ---------- *)
Lemma tt_step_nat (full factor : tensor F) : tt_step OpG (tm full) (tm factor) = rmap tm (tt_step OpF full factor).
Proof.
  unfold tt_step. change (shape3 (tm factor)) with (shape3 factor). destruct (shape3 factor) as [x|]; [|reflexivity]. cbn [rbind].
  apply (rbind_nat tm tm); [apply reshape_spec_natural|]. intros fm.
  apply (rbind_nat tm tm); [apply mdot_nat|]. intros P. apply reshape_spec_natural.
Qed.
Lemma tt_loop_nat : forall (rest : list (tensor F)) (full : tensor F), tt_loop OpG (tm full) (tms rest) = rmap tm (tt_loop OpF full rest).
Proof.
  induction rest as [|f rest IH]; intros full; cbn [map tt_loop]; [reflexivity|].
  apply (rbind_nat tm tm); [apply tt_step_nat | intros full'; apply IH].
Qed.
Lemma all_shape3_nat : forall cs : list (tensor F), all_shape3 (tms cs) = all_shape3 cs.
Proof. induction cs as [|c cs IH]; [reflexivity|]. cbn [map all_shape3]. change (shape3 (tm c)) with (shape3 c). now rewrite IH. Qed.
Lemma all_shape4_nat : forall cs : list (tensor F), all_shape4 (tms cs) = all_shape4 cs.
Proof. induction cs as [|c cs IH]; [reflexivity|]. cbn [map all_shape4]. change (shape4 (tm c)) with (shape4 c). now rewrite IH. Qed.

Theorem tt_to_tensor_nat (cs : list (tensor F)) : tt_to_tensor_raw OpG (tms cs) = rmap tm (tt_to_tensor_raw OpF cs).
Proof.
  unfold tt_to_tensor_raw. destruct cs as [|fa rest]; [reflexivity|]. cbn [map].
  change (tm fa :: tms rest) with (tms (fa :: rest)). rewrite all_shape3_nat. destruct (all_shape3 (fa :: rest)) as [ds|]; [|reflexivity].
  cbn [rbind]. apply (rbind_nat tm tm); [apply reshape_spec_natural|]. intros full.
  apply (rbind_nat tm tm); [apply tt_loop_nat|]. intros full'. apply reshape_spec_natural.
Qed.

Lemma last_tm (l : list (tensor F)) (d : tensor F) : last (tms l) (tm d) = tm (last l d).
Proof. induction l as [|x [|y l] IH]; cbn [map last] in *; auto. Qed.
Lemma removelast_tm (l : list (tensor F)) : removelast (tms l) = tms (removelast l).
Proof. induction l as [|x [|y l] IH]; cbn [map removelast] in *; auto. now rewrite IH. Qed.

Theorem tr_to_tensor_nat (cs : list (tensor F)) : tr_to_tensor_raw OpG (tms cs) = rmap tm (tr_to_tensor_raw OpF cs).
Proof.
  unfold tr_to_tensor_raw. destruct cs as [|fa rest]; [reflexivity|]. cbn [map]. rewrite last_tm, removelast_tm.
  change (tm fa :: tms rest) with (tms (fa :: rest)). rewrite all_shape3_nat. destruct (all_shape3 (fa :: rest)) as [ds|]; [|reflexivity]. cbn [rbind].
  change (shape3 (tm fa)) with (shape3 fa). destruct (shape3 fa) as [xa|]; [|reflexivity]. cbn [rbind].
  change (shape3 (tm (last rest fa))) with (shape3 (last rest fa)). destruct (shape3 (last rest fa)) as [xl|]; [|reflexivity]. cbn [rbind].
  apply (rbind_nat tm tm); [apply reshape_spec_natural|]. intros full.
  apply (rbind_nat tm tm); [apply tt_loop_nat|]. intros full1.
  apply (rbind_nat tm tm); [apply reshape_spec_natural|]. intros full3.
  rewrite <- h0, moveaxis_natural, ?h0. apply (rbind_nat tm tm); [apply reshape_spec_natural|]. intros fullm.
  rewrite <- h0, moveaxis_natural, ?h0. apply (rbind_nat tm tm); [apply reshape_spec_natural|]. intros facm.
  apply (rbind_nat tm tm); [apply mdot_nat|]. intros P. apply reshape_spec_natural.
Qed.

(* ---------- TT-matrix (both backends) ---------- *)
Lemma tdot_nat (A B : tensor F) : tdot OpG (tm A) (tm B) = rmap tm (tdot OpF A B).
Proof.
  unfold tdot. change (shape (tm B)) with (shape B). change (shape (tm A)) with (shape A). change (ndim (tm A)) with (ndim A).
  destruct (shape B) as [|c sb]; [reflexivity|]. destruct ((1 <=? ndim A) && (last (shape A) 0 =? c)); [|reflexivity].
  cbn [rmap]. f_equal. tab. rewrite fsumn_hom. apply fsumn_ext'; intros k _. now rewrite hmul, !getz.
Qed.
Lemma tdot_chain_nat : forall (rest : list (tensor F)) (acc : res (tensor F)),
  fold_left (fun a f => rbind a (fun a' => tdot OpG a' f)) (tms rest) (rmap tm acc) =
  rmap tm (fold_left (fun a f => rbind a (fun a' => tdot OpF a' f)) rest acc).
Proof.
  induction rest as [|f rest IH]; intros acc; cbn [map fold_left]; [reflexivity|].
  rewrite <- IH. f_equal. destruct acc as [a|]; cbn [rmap rbind]; [apply tdot_nat | reflexivity].
Qed.
Theorem ttm_to_tensor_nat (cs : list (tensor F)) : ttm_to_tensor OpG (tms cs) = rmap tm (ttm_to_tensor OpF cs).
Proof.
  unfold ttm_to_tensor. destruct cs as [|fa rest]; [reflexivity|]. cbn [map].
  change (tm fa :: tms rest) with (tms (fa :: rest)). rewrite all_shape4_nat, map_length.
  destruct (all_shape4 (fa :: rest)) as [ds|]; [|reflexivity]. cbn [rbind].
  change (Ok (tm fa)) with (rmap tm (Ok fa)). apply (rbind_nat tm tm); [apply tdot_chain_nat|]. intros r.
  apply (rbind_nat tm tm); [apply reshape_spec_natural|]. intros r'. cbn [rmap]. f_equal.
  rewrite <- h0. apply transpose_natural.
Qed.
Lemma validate_tt_nat (cs : list (tensor F)) : validate_tt (tms cs) = validate_tt cs.
Proof. unfold validate_tt. destruct cs as [|c cs]; [reflexivity|]. cbn [map]. change (tm c :: tms cs) with (tms (c :: cs)). now rewrite all_shape3_nat. Qed.
Lemma validate_tr_nat (cs : list (tensor F)) : validate_tr (tms cs) = validate_tr cs.
Proof. unfold validate_tr. now rewrite map_length, all_shape3_nat. Qed.
Lemma validate_ttm_nat (cs : list (tensor F)) : validate_ttm (tms cs) = validate_ttm cs.
Proof. unfold validate_ttm. destruct cs as [|c cs]; [reflexivity|]. cbn [map]. change (tm c :: tms cs) with (tms (c :: cs)). now rewrite all_shape4_nat. Qed.
Theorem tt_to_tensor_v_nat (cs : list (tensor F)) : tt_to_tensor OpG (tms cs) = rmap tm (tt_to_tensor OpF cs).
Proof. unfold tt_to_tensor, tt_to_tensor_from. rewrite validate_tt_nat. destruct (validate_tt cs); cbn [rbind]; [apply tt_to_tensor_nat | reflexivity]. Qed.
Theorem tr_to_tensor_v_nat (cs : list (tensor F)) : tr_to_tensor OpG (tms cs) = rmap tm (tr_to_tensor OpF cs).
Proof. unfold tr_to_tensor. rewrite validate_tr_nat. destruct (validate_tr cs); cbn [rbind]; [apply tr_to_tensor_nat | reflexivity]. Qed.

Lemma ein_chain_nat : forall (cs : list (tensor F)) ds ios a, ein_chain OpG (tms cs) ds ios a = h (ein_chain OpF cs ds ios a).
Proof.
  induction cs as [|c cs IH]; intros ds ios a; cbn [map ein_chain]; [now rewrite h1|].
  destruct ds as [|x ds]; [now rewrite h1|]. destruct ios as [|i [|o ios]]; try (now rewrite h1).
  rewrite fsumn_hom. apply fsumn_ext'; intros k _. now rewrite hmul, getz, IH.
Qed.
Theorem ttm_to_tensor_einsum_nat (cs : list (tensor F)) : ttm_to_tensor_einsum_raw OpG (tms cs) = rmap tm (ttm_to_tensor_einsum_raw OpF cs).
Proof.
  unfold ttm_to_tensor_einsum_raw. destruct cs as [|fa rest]; [reflexivity|]. cbn [map].
  change (tm fa :: tms rest) with (tms (fa :: rest)). rewrite all_shape4_nat, map_length.
  destruct (all_shape4 (fa :: rest)) as [ds|]; [|reflexivity]. cbn [rbind]. destruct (ein_ok ds); [|reflexivity]. cbn [rmap]. f_equal.
  rewrite <- h0, <- transpose_natural, h0. f_equal. tab. rewrite fsumn_hom. apply fsumn_ext'; intros a _. apply ein_chain_nat.
Qed.

Theorem ttm_to_tensor_einsum_v_nat (cs : list (tensor F)) : ttm_to_tensor_einsum OpG (tms cs) = rmap tm (ttm_to_tensor_einsum OpF cs).
Proof. unfold ttm_to_tensor_einsum. rewrite validate_ttm_nat. destruct (validate_ttm cs); cbn [rbind]; [apply ttm_to_tensor_einsum_nat | reflexivity]. Qed.

(* ---------- PARAFAC2 (the validator compares entries with the carrier's order and is not natural; the reconstructions are, for
   whatever answer v the validator gave) ---------- *)
Lemma row_of_nat (A : tensor F) i : row_of OpG (tm A) i = tm (row_of OpF A i).
Proof. unfold row_of. change (ncols (tm A)) with (ncols A). tab. apply get2_tm. Qed.
Lemma mul_vec_nat (a w : tensor F) : mul_vec OpG (tm a) (tm w) = tm (mul_vec OpF a w).
Proof. unfold mul_vec. change (shape (tm a)) with (shape a). tab. now rewrite hmul, !get1_tm. Qed.
Lemma p2_slice_raw_nat w (A B C : tensor F) ps i :
  p2_slice_raw OpG (omap tm w) (tm A) (tm B) (tm C) (tms ps) i = rmap tm (p2_slice_raw OpF w A B C ps i).
Proof.
  unfold p2_slice_raw. change (nrows (tm A)) with (nrows A). rewrite map_length.
  destruct ((i <? nrows A) && (i <? length ps)); [|reflexivity].
  change (@mk G [] []) with (tm (mk [] [])). rewrite map_nth.
  apply (rbind_nat tm tm); [apply mdot_nat|]. intros Bi. rewrite mT_nat.
  replace (match omap tm w with Some wt => mul_vec OpG (row_of OpG (tm A) i) wt | None => row_of OpG (tm A) i end)
    with (tm (match w with Some wt => mul_vec OpF (row_of OpF A i) wt | None => row_of OpF A i end))
    by (destruct w; cbn [omap]; now rewrite ?row_of_nat, ?mul_vec_nat).
  rewrite scale_cols_nat. apply mdot_nat.
Qed.
Lemma collect_nat {X Y} (g : X -> Y) : forall (l : list (res X)), collect (map (rmap g) l) = rmap (map g) (collect l).
Proof.
  induction l as [|x l IH]; cbn [map collect]; [reflexivity|]. destruct x as [a|]; cbn [rmap rbind]; [|reflexivity].
  rewrite IH. destruct (collect l); reflexivity.
Qed.
Theorem parafac2_to_slice_from_nat v w (fs ps : list (tensor F)) i :
  parafac2_to_slice_from OpG v (omap tm w) (tms fs) (tms ps) i = rmap tm (parafac2_to_slice_from OpF v w fs ps i).
Proof.
  unfold parafac2_to_slice_from. destruct v; [|reflexivity]. cbn [rbind].
  destruct fs as [|A [|B [|C [|? ?]]]]; try reflexivity. cbn [map]. apply p2_slice_raw_nat.
Qed.
Theorem parafac2_to_slices_from_nat v w (fs ps : list (tensor F)) :
  parafac2_to_slices_from OpG v (omap tm w) (tms fs) (tms ps) = rmap tms (parafac2_to_slices_from OpF v w fs ps).
Proof.
  unfold parafac2_to_slices_from. destruct v; [|reflexivity]. cbn [rbind].
  destruct fs as [|A [|B [|C [|? ?]]]]; try reflexivity. cbn [map]. change (nrows (tm A)) with (nrows A).
  rewrite opt_scale_nat, <- collect_nat, map_map. f_equal. apply map_ext. intros i.
  exact (p2_slice_raw_nat None (opt_scale OpF w A) B C ps i).
Qed.
Lemma slice_update_nat (T Sl : tensor F) i len : slice_update OpG (tm T) i len (tm Sl) = tm (slice_update OpF T i len Sl).
Proof.
  unfold slice_update. change (shape (tm T)) with (shape T). tab.
  destruct ((ix 0 idx =? i) && (ix 1 idx <? len)); [apply get2_tm | apply getz].
Qed.
Lemma pad_slices_nat : forall (slices : list (tensor F)) lens (T : tensor F) i,
  pad_slices OpG (tm T) i (tms slices) lens = tm (pad_slices OpF T i slices lens).
Proof.
  induction slices as [|Sl slices IH]; intros lens T i; cbn [map pad_slices]; [reflexivity|].
  destruct lens as [|l lens]; [reflexivity|]. now rewrite slice_update_nat, IH.
Qed.
Theorem parafac2_to_tensor_from_nat v w (fs ps : list (tensor F)) :
  parafac2_to_tensor_from OpG v (omap tm w) (tms fs) (tms ps) = rmap tm (parafac2_to_tensor_from OpF v w fs ps).
Proof.
  unfold parafac2_to_tensor_from. apply (rbind_nat tms tm); [apply parafac2_to_slices_from_nat|]. intros slices.
  destruct fs as [|A [|B [|C [|? ?]]]]; try reflexivity. cbn [map rmap]. f_equal.
  change (nrows (tm A)) with (nrows A). change (nrows (tm C)) with (nrows C).
  replace (map (nrows (F:=G)) (tms ps)) with (map (nrows (F:=F)) ps) by (rewrite map_map; apply map_ext; reflexivity).
  rewrite <- pad_slices_nat. f_equal. rewrite <- tabulate_tmap. apply tabulate_ext. intros; symmetry; exact h0.
Qed.

End N.

(* ---------- the statement assembled for Props/C03.v ---------- *)
Definition ring_hom {F G : Type} (OpF : fops F) (OpG : fops G) (h : F -> G) : Prop :=
  h (f0 OpF) = f0 OpG /\ h (f1 OpF) = f1 OpG /\
  (forall a b, h (fadd OpF a b) = fadd OpG (h a) (h b)) /\ (forall a b, h (fmul OpF a b) = fmul OpG (h a) (h b)).

Theorem reconstructions_natural (F G : Type) (OpF : fops F) (OpG : fops G) (h : F -> G) : ring_hom OpF OpG h ->
  let tm := tmap h in let tms := map (tmap h) in
  (* CP, tuple input (the validator looks at shapes only) and any cached validation v (wrapper objects) *)
  (forall w fs, validate_cp (omap tm w) (tms fs) = validate_cp w fs) /\
  (forall v w fs mask, cp_to_tensor_from OpG v (omap tm w) (tms fs) (omap tm mask) = rmap tm (cp_to_tensor_from OpF v w fs mask)) /\
  (forall v w fs m, cp_to_unfolded_from OpG v (omap tm w) (tms fs) m = rmap tm (cp_to_unfolded_from OpF v w fs m)) /\
  (forall v w fs, cp_to_vec_from OpG v (omap tm w) (tms fs) = rmap tm (cp_to_vec_from OpF v w fs)) /\
  (forall v w fs, cp_normsq_from OpG v (omap tm w) (tms fs) = rmap h (cp_normsq_from OpF v w fs)) /\
  (forall w fs mask, cp_to_tensor OpG (omap tm w) (tms fs) (omap tm mask) = rmap tm (cp_to_tensor OpF w fs mask)) /\
  (* Tucker *)
  (forall core fs skip tr, tucker_to_tensor OpG (tm core) (tms fs) skip tr = rmap tm (tucker_to_tensor OpF core fs skip tr)) /\
  (* tensor train, tensor ring, TT-matrix (core and einsum routes) *)
  (forall cs, tt_to_tensor OpG (tms cs) = rmap tm (tt_to_tensor OpF cs)) /\
  (forall cs, tr_to_tensor OpG (tms cs) = rmap tm (tr_to_tensor OpF cs)) /\
  (forall cs, ttm_to_tensor OpG (tms cs) = rmap tm (ttm_to_tensor OpF cs)) /\
  (forall cs, ttm_to_tensor_einsum OpG (tms cs) = rmap tm (ttm_to_tensor_einsum OpF cs)) /\
  (* PARAFAC2, for whatever answer v the validator gave *)
  (forall v w fs ps i, parafac2_to_slice_from OpG v (omap tm w) (tms fs) (tms ps) i = rmap tm (parafac2_to_slice_from OpF v w fs ps i)) /\
  (forall v w fs ps, parafac2_to_slices_from OpG v (omap tm w) (tms fs) (tms ps) = rmap tms (parafac2_to_slices_from OpF v w fs ps)) /\
  (forall v w fs ps, parafac2_to_tensor_from OpG v (omap tm w) (tms fs) (tms ps) = rmap tm (parafac2_to_tensor_from OpF v w fs ps)).
Proof.
  intros (h0 & h1 & hadd & hmul). cbv zeta.
  split; [intros; apply validate_cp_nat|].
  split; [intros; now apply cp_to_tensor_from_nat|].
  split; [intros; now apply cp_to_unfolded_from_nat|].
  split; [intros; now apply cp_to_vec_from_nat|].
  split; [intros; now apply cp_normsq_from_nat|].
  split; [intros; unfold cp_to_tensor; rewrite validate_cp_nat; now apply cp_to_tensor_from_nat|].
  split; [intros; unfold tucker_to_tensor; now apply multi_mode_dot_from_nat|].
  split; [intros; now apply tt_to_tensor_v_nat|].
  split; [intros; now apply tr_to_tensor_v_nat|].
  split; [intros; now apply ttm_to_tensor_nat|].
  split; [intros; now apply ttm_to_tensor_einsum_v_nat|].
  split; [intros; now apply parafac2_to_slice_from_nat|].
  split; [intros; now apply parafac2_to_slices_from_nat|].
  intros; now apply parafac2_to_tensor_from_nat.
Qed.
