(* Lemmas about Model/Factorized.v (part 16: the einsum-backend routes of CP and Tucker equal the core-backend routes). *)
From Coq Require Import List Arith Lia Bool Ring.
From TLV Require Import Base.Shape Base.PyList Base.Tensor Base.BigSum Base.Ops Model.Base Model.Factorized
  Proofs.BaseProofs Proofs.BaseProofs4 Proofs.FactorizedProofs Proofs.FactorizedProofs2 Proofs.FactorizedProofs5 Proofs.FactorizedProofs13.
Import ListNotations.

Section P.
Variable F : Type.
Variable Op : fops F.
Hypothesis Rth : ring_theory (f0 Op) (f1 Op) (fadd Op) (fmul Op) (fsub Op) (fopp Op) (@eq F).
Add Ring Fr16 : Rth.
Notation zero := (f0 Op).
Notation one := (f1 Op).
Notation "a *f b" := (fmul Op a b) (at level 40, left associativity).
Notation tensor := (tensor F).
Notation get2 := (get2 Op).
Notation mats := (mats F).

Lemma kr_entry_eq : forall (ms : list tensor) js r, kr_entry Op ms js r = prod_entries F Op ms js r.
Proof. induction ms as [|m ms IH]; intros [|j js] r; cbn [kr_entry prod_entries]; auto; now rewrite IH. Qed.

Lemma wf_fold_left_kr2 : forall (rest : list tensor) acc, wf acc -> wf (fold_left (kr2 Op) rest acc).
Proof. induction rest as [|x rest IH]; intros acc W; cbn [fold_left]; [exact W|]. apply IH. apply wf_tabulate. Qed.

Lemma mats_forallb R (ms : list tensor) ns : mats R ms ns -> forallb (fun x => (ndim x =? 2) && (ncols x =? R)) ms = true /\ map (nrows (F:=F)) ms = ns.
Proof.
  induction 1 as [|m n ms ns Hm _ [IH1 IH2]]; [split; reflexivity|]. cbn [forallb map]. unfold ndim, ncols, nrows in *. rewrite Hm. cbn [length nth].
  rewrite !Nat.eqb_refl, IH1, IH2. split; reflexivity.
Qed.

(* einsum khatri_rao = the core loop (followed by the mask column) on matrices with a common column count *)
Lemma kr_einsum_eq R (ms : list tensor) ns mask : mats R ms ns ->
  kr_einsum Op ms mask = rbind (khatri_rao Op ms) (fun K => match mask with None => Ok K | Some m => apply_mask Op K m end).
Proof.
  intros Hm. destruct ms as [|m [|m2 rest]]; [reflexivity | reflexivity |].
  destruct (khatri_rao_spec' F Op Rth R _ _ Hm ltac:(discriminate)) as (K & HK & HsK & HgK).
  destruct (mats_forallb R _ _ Hm) as [Hfb Hns].
  assert (HR : ncols m = R) by (inversion Hm; subst; unfold ncols; match goal with H : shape m = _ |- _ => rewrite H end; reflexivity).
  assert (WK : wf K) by (cbn [khatri_rao] in HK; injection HK as <-; cbn [fold_left]; apply wf_fold_left_kr2, wf_tabulate).
  unfold kr_einsum. rewrite HR, Hfb, Hns, HK. cbn [rbind].
  assert (Hent : forall row r, row < prod ns -> r < R -> get2 K row r = kr_entry Op (m :: m2 :: rest) (unravel ns row) r).
  { intros row r Hrow Hr. rewrite kr_entry_eq, <- HgK by (auto; now apply unravel_inb). now rewrite ravel_unravel. }
  destruct mask as [mv|].
  - unfold apply_mask, nrows, ncols. rewrite HsK. cbn [nth]. destruct (length (data mv) =? prod ns); [|reflexivity]. f_equal.
    apply tabulate_ext. intros idx Hi. destruct idx as [|row [|r [|? ?]]]; simpl in Hi; try tauto. unfold ix. cbn [nth].
    rewrite Hent by tauto. reflexivity.
  - f_equal. apply tensor_ext with (d := zero); [apply wf_tabulate | exact WK | now rewrite HsK |].
    intros idx Hi. cbn [shape tabulate] in Hi. destruct idx as [|row [|r [|? ?]]]; simpl in Hi; try tauto.
    rewrite get_tabulate by (simpl; tauto). unfold ix. cbn [nth]. symmetry. apply Hent; tauto.
Qed.

Lemma mats_remove R (fs : list tensor) shp m : mats R fs shp -> mats R (remove_nth m fs) (remove_nth m shp).
Proof. apply Forall2_remove_nth. Qed.

(* CP under the einsum backend = CP under the core backend, for every accepted (weights, factors), every mask, mode and cached v *)
Theorem cp_einsum_eq_core (w : option tensor) fs shp R : validate_cp w fs = Ok (shp, R) ->
  (forall v mask, cp_to_tensor_from_einsum Op v w fs mask = cp_to_tensor_from Op v w fs mask) /\
  (forall v m, cp_to_unfolded_from_einsum Op v w fs m = cp_to_unfolded_from Op v w fs m) /\
  (forall v, cp_to_vec_from_einsum Op v w fs = cp_to_vec_from Op v w fs).
Proof.
  intros Hv.
  pose proof (validated_as_matrices_2d F w fs shp R Hv) as H2.
  assert (Hv' : validate_cp w (as_matrices fs) = Ok (shp, R)) by (now rewrite (validate_cp_as_matrices F)).
  pose proof (valid_mats F _ _ _ _ Hv' H2) as Hm.
  assert (HT : forall v mask, cp_to_tensor_from_einsum Op v w fs mask = cp_to_tensor_from Op v w fs mask).
  { intros v mask. unfold cp_to_tensor_from_einsum, cp_to_tensor_from. destruct v as [[s r]|]; [|reflexivity]. cbn [rbind fst].
    destruct (all_2d (as_matrices fs)); cbn [negb]; [|reflexivity].
    destruct (as_matrices fs) as [|fa rest] eqn:E; [reflexivity|]. destruct (length s =? 1); [reflexivity|].
    inversion Hm as [|? n ? ns Hfa Hrest]; subst.
    destruct mask as [mv|].
    - assert (Hm' : mats R (opt_scale Op w fa :: rest) (n :: ns)) by (constructor; [now apply (shape_opt_scale F) | exact Hrest]).
      rewrite (kr_einsum_eq R _ _ (Some mv) Hm'). destruct (khatri_rao Op (opt_scale Op w fa :: rest)); reflexivity.
    - cbn [remove_nth]. rewrite (kr_einsum_eq R _ _ None Hrest). destruct (khatri_rao Op rest); reflexivity. }
  split; [exact HT|]. split.
  - intros v m. unfold cp_to_unfolded_from_einsum, cp_to_unfolded_from. destruct v as [[s r]|] eqn:Ev; [|reflexivity]. cbn [rbind fst]. rewrite <- Ev, HT.
    destruct (length s =? 1); [reflexivity|]. destruct (all_2d (as_matrices fs)); cbn [negb]; [|reflexivity].
    destruct (m <? length (as_matrices fs)); [|reflexivity].
    rewrite (kr_einsum_eq R _ _ None (mats_remove R _ _ m Hm)). destruct (khatri_rao Op (remove_nth m (as_matrices fs))); reflexivity.
  - intros v. unfold cp_to_vec_from_einsum, cp_to_vec_from. now rewrite HT.
Qed.

(* ---------- Tucker ---------- *)
Lemma ein_tk_prod_eq skip : forall (Ms : list tensor) k is js, ein_tk_prod Op k skip Ms is js = tk_prod F Op k skip Ms is js.
Proof. induction Ms as [|M Ms IH]; intros k [|i is] [|j js]; cbn [ein_tk_prod tk_prod]; auto; now rewrite IH. Qed.

Lemma ein_tk_dims_ok skip : forall (Ms : list tensor) ns cs k, tk_shapes F k skip Ms ns cs -> ein_tk_dims k skip cs Ms = Ok ns.
Proof.
  induction Ms as [|M Ms IH]; intros ns cs k H; inversion H; subst; [reflexivity|]. cbn [ein_tk_dims].
  match goal with H' : tk_shapes F (S k) skip Ms _ _ |- _ => rewrite (IH _ _ _ H') end. cbn [rbind].
  destruct (match skip with Some s => s =? k | None => false end); [now subst|].
  match goal with H' : shape M = _ |- _ => unfold ndim, ncols, nrows; rewrite H' end. cbn [length nth]. now rewrite !Nat.eqb_refl.
Qed.

Theorem tucker_einsum_eq_core (core : tensor) fs ns skip :
  tk_shapes F 0 skip fs ns (shape core) -> wf core -> 0 < prod (shape core) -> 0 < prod ns ->
  tucker_to_tensor_einsum Op core fs skip false = tucker_to_tensor Op core fs skip false.
Proof.
  intros Hsh W Hpos Hpn.
  destruct (multi_mode_dot_spec F Op Rth skip fs ns (shape core) 0 core [] Hsh eq_refl eq_refl W Hpos Hpn) as (t & Ht & Wt & Hst & Hgt).
  unfold tucker_to_tensor. rewrite Ht. unfold tucker_to_tensor_einsum. cbn [andb]. rewrite (ein_tk_dims_ok skip fs ns _ 0 Hsh). cbn [rbind]. f_equal.
  apply tensor_ext with (d := zero); [apply wf_tabulate | exact Wt | now rewrite Hst |].
  intros idx Hi. cbn [shape tabulate] in Hi. rewrite get_tabulate by exact Hi. pose proof (Hgt [] idx I Hi) as Hx. cbn [app] in Hx. rewrite Hx.
  apply (fsum_idx_ext F Op); intros js _. now rewrite ein_tk_prod_eq.
Qed.

Theorem tucker_einsum_eq_core_transposed (core : tensor) fs ns skip :
  Forall (fun M => ndim M = 2) fs -> tk_shapes F 0 skip (map (mT Op) fs) ns (shape core) -> wf core -> 0 < prod (shape core) -> 0 < prod ns ->
  tucker_to_tensor_einsum Op core fs skip true = tucker_to_tensor Op core fs skip true.
Proof.
  intros H2 Hsh W Hpos Hpn. rewrite (tucker_transpose_factors F Op core fs skip H2).
  rewrite <- (tucker_einsum_eq_core core (map (mT Op) fs) ns skip Hsh W Hpos Hpn).
  unfold tucker_to_tensor_einsum. cbn [andb negb].
  replace (forallb (fun M => ndim M =? 2) fs) with true; [reflexivity|]. symmetry. apply forallb_forall. intros M HM. rewrite Forall_forall in H2. apply Nat.eqb_eq. now apply H2.
Qed.

End P.
