(* Lemmas about Model/Factorized.v (part 17: the unfolded / vectorised views of Tucker, TT, TR, TT-matrix and PARAFAC2 tensors.
   In model and code these views are unfold / tensor_to_vec applied to the dense reconstruction; here they get entry-level
   statements of their own: entry (idx_m, row-major index of the remaining coordinates) of the mode-m unfolding and entry
   ravel(idx) of the vector are the defining contraction at idx, the shapes are (n_m, prod of the others) and (prod n,), and a
   mode >= the order is rejected.  One generic lemma (no well-formedness hypothesis), then one corollary per family on top of the
   validator-level reconstruction theorems.) *)
From Coq Require Import List Arith ZArith Lia Bool Ring.
From TLV Require Import Base.Shape Base.PyList Base.Tensor Base.BigSum Base.Ops Model.Base Model.BaseExt Model.Factorized
  Proofs.BaseProofs Proofs.BaseProofs2 Proofs.BaseProofs3 Proofs.FactorizedProofs Proofs.FactorizedProofs3 Proofs.FactorizedProofs4 Proofs.FactorizedProofs5
  Proofs.FactorizedProofs7 Proofs.FactorizedProofs8 Proofs.FactorizedProofs9 Proofs.FactorizedProofs10 Proofs.FactorizedProofs12.
Import ListNotations.

Section G.
Variable F : Type.
Variable d : F.
Notation tensor := (tensor F).

(* what it means for a (vec, unfolded) pair of views to be the views of the tensor of shape shp with entries E *)
Definition views_of_entries (vec : res tensor) (unf : nat -> res tensor) (shp : list nat) (E : list nat -> F) : Prop :=
  (exists v, vec = Ok v /\ shape v = [prod shp] /\ forall idx, inb shp idx -> get d v [ravel shp idx] = E idx) /\
  (forall m, m < length shp ->
     exists u, unf m = Ok u /\ shape u = [nth m shp 0; prod (remove_nth m shp)] /\
       forall idx, inb shp idx -> get d u [nth m idx 0; ravel (remove_nth m shp) (remove_nth m idx)] = E idx) /\
  (forall m, length shp <= m -> unf m = Err).

Lemma views_of_entries_unfold vec unf shp E :
  views_of_entries vec unf shp E <->
  (exists v, vec = Ok v /\ shape v = [prod shp] /\ forall idx, inb shp idx -> get d v [ravel shp idx] = E idx) /\
  (forall m, m < length shp ->
     exists u, unf m = Ok u /\ shape u = [nth m shp 0; prod (remove_nth m shp)] /\
       forall idx, inb shp idx -> get d u [nth m idx 0; ravel (remove_nth m shp) (remove_nth m idx)] = E idx) /\
  (forall m, length shp <= m -> unf m = Err).
Proof. reflexivity. Qed.

Lemma unfold_layout_nowf (t : tensor) m : m < ndim t -> nth m (shape t) 0 <> 0 ->
  exists u, unfold d t m = Ok u /\ shape u = [nth m (shape t) 0; prod (remove_nth m (shape t))] /\
    forall idx, inb (shape t) idx ->
      get d u [nth m idx 0; ravel (remove_nth m (shape t)) (remove_nth m idx)] = get d t idx.
Proof.
  intros Hm Hn. eexists. split; [apply unfold_eq_gen; assumption|]. split; [reflexivity|].
  intros idx Hi.
  rewrite <- (get_moveaxis d t m 0 idx) by (auto; unfold ndim in *; lia).
  unfold get, reshape. cbn [shape data]. f_equal.
  rewrite shape_moveaxis.
  rewrite !insert_at_0. cbn [ravel prod fold_right]. lia.
Qed.

Lemma unfold_high_mode (t : tensor) m : ndim t <= m -> unfold d t m = Err.
Proof. intros H. unfold unfold. destruct (Nat.ltb_spec m (ndim t)); [lia | reflexivity]. Qed.

(* the generic step: a dense reconstruction with known shape and entries has exactly these views *)
Lemma dense_views (rec : res tensor) (t : tensor) shp E :
  rec = Ok t -> shape t = shp -> 0 < prod shp -> (forall idx, inb shp idx -> get d t idx = E idx) ->
  views_of_entries (rbind rec tensor_to_vec) (fun m => rbind rec (fun x => unfold d x m)) shp E.
Proof.
  intros -> Hs Hp HE. cbn [rbind]. subst shp. repeat split.
  - rewrite tensor_to_vec_eq. eexists. split; [reflexivity|]. split; [reflexivity|].
    intros idx Hi. rewrite <- HE by exact Hi.
    unfold get, reshape. cbn [shape data ravel prod fold_right]. f_equal. lia.
  - intros m Hm.
    assert (Hn : nth m (shape t) 0 <> 0) by (pose proof (prod_remove m (shape t) Hm); nia).
    destruct (unfold_layout_nowf t m Hm Hn) as (u & Hu & Hsu & Hg).
    exists u. split; [exact Hu|]. split; [exact Hsu|].
    intros idx Hi. rewrite Hg by exact Hi. apply HE; exact Hi.
  - intros m Hm. apply unfold_high_mode. exact Hm.
Qed.
End G.

Section P.
Variable F : Type.
Variable Op : fops F.
Hypothesis Rth : ring_theory (f0 Op) (f1 Op) (fadd Op) (fmul Op) (fsub Op) (fopp Op) (@eq F).
Notation zero := (f0 Op).
Notation tensor := (tensor F).

(* tensor train: tt_to_vec / tt_to_unfolded of every accepted train *)
Theorem tt_views (cs : list tensor) shp rk :
  validate_tt cs = Ok (shp, rk) -> Forall (fun x => 0 < x) rk -> 0 < prod shp ->
  views_of_entries F zero (tt_to_vec Op cs) (tt_to_unfolded Op cs) shp (fun idx => chain F Op cs idx 0 0).
Proof.
  intros Hv Hpos Hp. destruct (tt_validated F Op Rth cs shp rk Hv Hpos Hp) as (t & Ht & Hs & Hg).
  exact (dense_views F zero _ t shp _ Ht Hs Hp Hg).
Qed.

(* tensor ring *)
Theorem tr_views (cs : list tensor) shp rk :
  validate_tr cs = Ok (shp, rk) -> Forall (fun x => 0 < x) rk -> 0 < prod shp ->
  views_of_entries F zero (tr_to_vec Op cs) (tr_to_unfolded Op cs) shp
    (fun idx => fsumn Op (hd 0 rk) (fun a => chain F Op cs idx a a)).
Proof.
  intros Hv Hpos Hp. destruct (tr_validated F Op Rth cs shp rk Hv Hpos Hp) as (t & Ht & Hs & Hg).
  exact (dense_views F zero _ t shp _ Ht Hs Hp Hg).
Qed.

(* Tucker (no skip, no transposition: the validator speaks about these) *)
Theorem tucker_views (core : tensor) fs shp rk :
  validate_tucker core fs = Ok (shp, rk) -> wf core -> 0 < prod rk -> 0 < prod shp ->
  views_of_entries F zero (tucker_to_vec Op core fs None false) (fun m => tucker_to_unfolded Op core fs m None false) shp
    (fun idx => sum_idx F (f0 Op) (fadd Op) rk (fun js => fmul Op (get zero core js) (tk_prod F Op 0 None fs idx js))).
Proof.
  intros Hv W Hpr Hp. destruct (tucker_validated F Op Rth core fs shp rk Hv W Hpr Hp) as (t & Ht & Hs & Hg).
  exact (dense_views F zero _ t shp _ Ht Hs Hp Hg).
Qed.

(* Tucker with skip_factor (shape hypotheses instead of the validator, as in tucker_to_tensor_spec) *)
Theorem tucker_views_skip (core : tensor) fs ns skip :
  tk_shapes F 0 skip fs ns (shape core) -> wf core -> 0 < prod (shape core) -> 0 < prod ns ->
  views_of_entries F zero (tucker_to_vec Op core fs skip false) (fun m => tucker_to_unfolded Op core fs m skip false) ns
    (fun idx => sum_idx F (f0 Op) (fadd Op) (shape core) (fun js => fmul Op (get zero core js) (tk_prod F Op 0 skip fs idx js))).
Proof.
  intros Hsh W Hpr Hp. destruct (tucker_to_tensor_spec F Op Rth core fs ns skip Hsh W Hpr Hp) as (t & Ht & Hs & Hg).
  exact (dense_views F zero _ t ns _ Ht Hs Hp Hg).
Qed.

(* TT-matrix: the tensor has shape in sizes ++ out sizes; an index splits as (first N coordinates, last N coordinates) *)
Theorem ttm_views (cs : list tensor) shp rk :
  validate_ttm cs = Ok (shp, rk) -> Forall (fun x => 0 < x) rk -> 0 < prod shp ->
  views_of_entries F zero (ttm_to_vec Op cs) (ttm_to_unfolded Op cs) shp
    (fun idx => chain4 F Op cs (interleave (firstn (length cs) idx) (skipn (length cs) idx)) 0 0).
Proof.
  intros Hv Hpos Hp. destruct (ttm_validated F Op Rth cs shp rk Hv Hpos) as (t & ns & ms & Ht & Hs & Hsplit & Hln & Hlm & Hg).
  apply (dense_views F zero _ t shp _ Ht Hs Hp).
  intros idx Hi. rewrite Hsplit in Hi.
  pose proof (inb_length _ _ Hi) as Hl. rewrite app_length in Hl.
  rewrite <- (firstn_skipn (length cs) idx) in Hi.
  apply inb_app_inv in Hi; [|rewrite firstn_length; lia].
  destruct Hi as [Hi1 Hi2].
  rewrite <- (firstn_skipn (length cs) idx) at 1. apply Hg; assumption.
Qed.

(* PARAFAC2: the padded tensor of shape (I, max_i J_i, K) *)
Hypothesis feqb_eq : forall x y : F, feqb Op x y = true <-> x = y.
Theorem parafac2_views (w : option tensor) (A B C : tensor) ps shps R I :
  validate_parafac2 Op w [A; B; C] ps = Ok (shps, R) ->
  shape A = [I; R] -> shape B = [R; R] -> w_ok F w R ->
  0 < I -> 0 < fold_right Nat.max 0 (map (fun s => nth 0 s 0) shps) -> 0 < nrows C ->
  views_of_entries F zero (parafac2_to_vec Op w [A; B; C] ps) (parafac2_to_unfolded Op w [A; B; C] ps)
    [I; fold_right Nat.max 0 (map (fun s => nth 0 s 0) shps); nrows C]
    (fun idx => let i := nth 0 idx 0 in let j := nth 1 idx 0 in let k := nth 2 idx 0 in
       if j <? nth 0 (nth i shps []) 0 then p2_entry F Op w A B C (nth i ps (mk [] [])) R R i j k else zero).
Proof.
  intros Hv HA HB Hw HI HJ HK.
  destruct (parafac2_validated F Op Rth feqb_eq w A B C ps shps R I Hv HA HB Hw) as (t & K & Ht & HC & _ & _ & _ & Hs & Hg).
  assert (HK' : nrows C = K) by (unfold nrows; rewrite HC; reflexivity).
  rewrite HK' in *.
  apply (dense_views F zero _ t _ _ Ht Hs).
  - cbn [prod fold_right]. nia.
  - intros [|i [|j [|k [|x r]]]] Hi; cbn [inb] in Hi; try tauto.
    cbn [nth]. apply Hg; tauto.
Qed.
End P.

(* ---------- negative unfolding modes: mode -k of an order-N reconstruction IS mode N - k; below -N an error ---------- *)
Section N.
Variable F : Type.
Variable Op : fops F.
Notation zero := (f0 Op).
Notation tensor := (tensor F).
Definition neg_modes_of (rec : res tensor) (unf : nat -> res tensor) (N : nat) : Prop :=
  (forall k, 0 < k <= N -> unfolded_neg Op rec k = unf (N - k)) /\ (forall k, N < k -> unfolded_neg Op rec k = Err).
Lemma neg_modes_of_unfold rec unf N : neg_modes_of rec unf N <->
  (forall k, 0 < k <= N -> unfolded_neg Op rec k = unf (N - k)) /\ (forall k, N < k -> unfolded_neg Op rec k = Err).
Proof. reflexivity. Qed.
Lemma dense_neg_modes (rec : res tensor) (t : tensor) shp :
  rec = Ok t -> shape t = shp -> neg_modes_of rec (fun m => rbind rec (fun x => unfold zero x m)) (length shp).
Proof.
  intros -> Hs. unfold neg_modes_of, unfolded_neg. cbn [rbind]. subst shp.
  destruct (unfold_z_spec zero t) as (_ & H2 & H3). split.
  - intros k Hk. apply H2. exact Hk.
  - intros k Hk. apply H3. left. unfold ndim. lia.
Qed.
Hypothesis Rth : ring_theory (f0 Op) (f1 Op) (fadd Op) (fmul Op) (fsub Op) (fopp Op) (@eq F).
Theorem tt_neg_modes (cs : list tensor) shp rk :
  validate_tt cs = Ok (shp, rk) -> Forall (fun x => 0 < x) rk -> 0 < prod shp ->
  neg_modes_of (tt_to_tensor Op cs) (tt_to_unfolded Op cs) (length shp).
Proof. intros Hv Hpos Hp. destruct (tt_validated F Op Rth cs shp rk Hv Hpos Hp) as (t & Ht & Hs & _). exact (dense_neg_modes _ t shp Ht Hs). Qed.
Theorem tr_neg_modes (cs : list tensor) shp rk :
  validate_tr cs = Ok (shp, rk) -> Forall (fun x => 0 < x) rk -> 0 < prod shp ->
  neg_modes_of (tr_to_tensor Op cs) (tr_to_unfolded Op cs) (length shp).
Proof. intros Hv Hpos Hp. destruct (tr_validated F Op Rth cs shp rk Hv Hpos Hp) as (t & Ht & Hs & _). exact (dense_neg_modes _ t shp Ht Hs). Qed.
Theorem tucker_neg_modes (core : tensor) fs shp rk :
  validate_tucker core fs = Ok (shp, rk) -> wf core -> 0 < prod rk -> 0 < prod shp ->
  neg_modes_of (tucker_to_tensor Op core fs None false) (fun m => tucker_to_unfolded Op core fs m None false) (length shp).
Proof. intros Hv W Hpr Hp. destruct (tucker_validated F Op Rth core fs shp rk Hv W Hpr Hp) as (t & Ht & Hs & _). exact (dense_neg_modes _ t shp Ht Hs). Qed.
Theorem ttm_neg_modes (cs : list tensor) shp rk :
  validate_ttm cs = Ok (shp, rk) -> Forall (fun x => 0 < x) rk ->
  neg_modes_of (ttm_to_tensor Op cs) (ttm_to_unfolded Op cs) (length shp).
Proof. intros Hv Hpos. destruct (ttm_validated F Op Rth cs shp rk Hv Hpos) as (t & ns & ms & Ht & Hs & _). exact (dense_neg_modes _ t shp Ht Hs). Qed.
Hypothesis feqb_eq : forall x y : F, feqb Op x y = true <-> x = y.
Theorem parafac2_neg_modes (w : option tensor) (A B C : tensor) ps shps R I :
  validate_parafac2 Op w [A; B; C] ps = Ok (shps, R) -> shape A = [I; R] -> shape B = [R; R] -> w_ok F w R ->
  neg_modes_of (parafac2_to_tensor Op w [A; B; C] ps) (parafac2_to_unfolded Op w [A; B; C] ps) 3.
Proof.
  intros Hv HA HB Hw. destruct (parafac2_validated F Op Rth feqb_eq w A B C ps shps R I Hv HA HB Hw) as (t & K & Ht & _ & _ & _ & _ & Hs & _).
  exact (dense_neg_modes _ t _ Ht Hs).
Qed.
End N.

(* non-vacuity: the hypotheses of tt_views / tr_views / tucker_views / ttm_views hold for small integer decompositions, and the
   generic statement says something: the two views of a 2 x 3 train are determined entry by entry *)
Example tt_views_hyps :
  let cs := [mk [1; 2; 2] [1; 2; 3; 4]%Z; mk [2; 3; 1] [1; 0; 2; -1; 1; 1]%Z] in
  validate_tt cs = Ok ([2; 3], [1; 2; 1]) /\ Forall (fun x => 0 < x) [1; 2; 1] /\ 0 < prod [2; 3] /\
  tt_to_unfolded Zops cs 1 = Ok (mk [3; 2] [-1; -1; 2; 4; 4; 10]%Z) /\ tt_to_vec Zops cs = Ok (mk [6] [-1; 2; 4; -1; 4; 10]%Z) /\
  tt_to_unfolded Zops cs 2 = Err.
Proof. cbv zeta. repeat split; try reflexivity; repeat constructor. Qed.
Example ttm_views_hyps :
  let cs := [mk [1; 2; 1; 2] [1; 2; 3; 4]%Z; mk [2; 1; 3; 1] [1; 0; 2; -1; 1; 1]%Z] in
  validate_ttm cs = Ok ([2; 1; 1; 3], [1; 2; 1]) /\ 0 < prod [2; 1; 1; 3].
Proof. cbv zeta. split; [reflexivity | simpl; lia]. Qed.
Example p2_views_hyps :
  validate_parafac2 Zops (Some (mk [1] [3%Z])) [mk [2; 1] [1; 2]%Z; mk [1; 1] [1%Z]; mk [2; 1] [1; -1]%Z]
                    [mk [2; 1] [0; 1]%Z; mk [1; 1] [-1]%Z] = Ok ([[2; 2]; [1; 2]], 1) /\
  0 < fold_right Nat.max 0 (map (fun s => nth 0 s 0) [[2; 2]; [1; 2]]) /\ 0 < nrows (mk [2; 1] [1; -1]%Z).
Proof. split; [vm_compute; reflexivity | split; cbv; lia]. Qed.
