(* Lemmas about Model/Factorized.v (part 18: the einsum tenalg backend on operands that do NOT fit.
   tucker_to_tensor_einsum_b models the einsum multi_mode_dot on ANY 2-D operands (exact contracted dimensions since repo 8b25fc6,
   core modes beyond the last factor kept, a superfluous skipped factor ignored); it extends the exact-shape model
   tucker_to_tensor_einsum, so the theorems about the latter (= core route on well-formed input) carry over.
   The former witnesses of the defect repaired by 8b25fc6 (factor sets the validators reject were silently reconstructed: np.einsum's
   broadcasting / summed boundary ranks, rank products that happen to fit in tt_to_tensor / tr_to_tensor) are kept as before_8b25fc6
   examples: the validating functions now refuse them, the raw chains (the code before the repair) still show the old behaviour. *)
From Coq Require Import List Arith ZArith Lia Bool Ring.
From TLV Require Import Base.Shape Base.PyList Base.Tensor Base.BigSum Base.Ops Model.Base Model.Factorized
  Proofs.BaseProofs Proofs.BaseProofs4 Proofs.FactorizedProofs Proofs.FactorizedProofs5 Proofs.FactorizedProofs16.
Import ListNotations.

Section P.
Variable F : Type.
Variable Op : fops F.
Notation zero := (f0 Op).
Notation tensor := (tensor F).

Lemma bidx_lt c j : j < c -> bidx c j = j.
Proof. intros H. unfold bidx. destruct (Nat.eqb_spec c 1); [lia | reflexivity]. Qed.

Lemma bidxs_inb : forall cs js, inb cs js -> bidxs cs js = js.
Proof.
  induction cs as [|c cs IH]; intros [|j js]; cbn [inb bidxs]; try tauto.
  intros [H1 H2]. now rewrite bidx_lt, IH.
Qed.

Lemma dims_b_of_dims skip : forall (Ms : list tensor) k cs ns,
  ein_tk_dims k skip cs Ms = Ok ns -> ein_tk_dims_b k skip cs Ms = Ok (ns, cs).
Proof.
  induction Ms as [|M Ms IH]; intros k [|c cs] ns; cbn [ein_tk_dims ein_tk_dims_b]; try discriminate.
  - intros H; injection H as <-. reflexivity.
  - unfold ein_skipped. destruct (match skip with Some s => s =? k | None => false end).
    + destruct (ein_tk_dims (S k) skip cs Ms) as [ns'|] eqn:E; [|discriminate]. cbn [rbind]. intros H; injection H as <-.
      rewrite (IH _ _ _ E). reflexivity.
    + destruct (ndim M =? 2); cbn [andb]; [|discriminate].
      destruct (Nat.eqb_spec (ncols M) c) as [Hc|]; [|discriminate]. cbn [orb].
      destruct (ein_tk_dims (S k) skip cs Ms) as [ns'|] eqn:E; [|discriminate]. cbn [rbind]. intros H; injection H as <-.
      rewrite (IH _ _ _ E). cbn [rbind fst snd]. destruct (ncols M =? 1); rewrite ?Hc; reflexivity.
Qed.

Lemma prod_b_of_prod skip : forall (Ms : list tensor) k cs ns is js,
  ein_tk_dims k skip cs Ms = Ok ns -> inb ns is -> inb cs js ->
  ein_tk_prod_b Op k skip Ms is js = ein_tk_prod Op k skip Ms is js.
Proof.
  induction Ms as [|M Ms IH]; intros k [|c cs] ns is js; cbn [ein_tk_dims]; try discriminate.
  - intros H; injection H as <-. destruct is; cbn [inb]; [|tauto]. reflexivity.
  - intros H Hi Hj. destruct js as [|j js]; [cbn [inb] in Hj; tauto|]. destruct Hj as [Hj1 Hj2].
    assert (Hsk : ein_skipped skip k = match skip with Some s => s =? k | None => false end) by reflexivity.
    destruct (match skip with Some s => s =? k | None => false end) eqn:Eb.
    + destruct (ein_tk_dims (S k) skip cs Ms) as [ns'|] eqn:E; [|discriminate]. cbn [rbind] in H. injection H as <-.
      destruct is as [|i is]; [cbn [inb] in Hi; tauto|]. destruct Hi as [Hi1 Hi2].
      cbn [ein_tk_prod_b ein_tk_prod tl]. rewrite Hsk, Eb.
      rewrite (IH _ _ _ _ _ E Hi2 Hj2). reflexivity.
    + destruct (ndim M =? 2); cbn [andb] in H; [|discriminate].
      destruct (Nat.eqb_spec (ncols M) c) as [Hc|]; [|discriminate].
      destruct (ein_tk_dims (S k) skip cs Ms) as [ns'|] eqn:E; [|discriminate]. cbn [rbind] in H. injection H as <-.
      destruct is as [|i is]; [cbn [inb] in Hi; tauto|]. destruct Hi as [Hi1 Hi2].
      cbn [ein_tk_prod_b ein_tk_prod tl]. rewrite Hsk, Eb.
      rewrite (IH _ _ _ _ _ E Hi2 Hj2). rewrite bidx_lt by lia. reflexivity.
Qed.

(* the broadcasting model extends the exact-shape model: whatever the latter reconstructs, the former reconstructs identically *)
Theorem tucker_einsum_b_extends (core : tensor) fs skip tr t :
  tucker_to_tensor_einsum Op core fs skip tr = Ok t -> tucker_to_tensor_einsum_b Op core fs skip tr = Ok t.
Proof.
  unfold tucker_to_tensor_einsum, tucker_to_tensor_einsum_b.
  destruct (tr && negb (forallb (fun M => ndim M =? 2) fs)); [discriminate|].
  set (fs' := if tr then map (mT Op) fs else fs).
  destruct (ein_tk_dims 0 skip (shape core) fs') as [ns|] eqn:E; [|discriminate]. cbn [rbind].
  rewrite (dims_b_of_dims skip _ _ _ _ E). cbn [rbind fst snd]. intros H; injection H as <-. f_equal.
  apply tabulate_ext. intros idx Hi. apply (sum_idx_ext F). intros js Hj.
  rewrite bidxs_inb by exact Hj. now rewrite (prod_b_of_prod skip _ _ _ _ _ _ E Hi Hj).
Qed.

Corollary tucker_einsum_b_views_extend (core : tensor) fs skip tr :
  (forall t, tucker_to_tensor_einsum Op core fs skip tr = Ok t ->
     (forall m, tucker_to_unfolded_einsum_b Op core fs m skip tr = tucker_to_unfolded_einsum Op core fs m skip tr) /\
     tucker_to_vec_einsum_b Op core fs skip tr = tucker_to_vec_einsum Op core fs skip tr).
Proof.
  intros t Ht. pose proof (tucker_einsum_b_extends _ _ _ _ _ Ht) as Hb.
  unfold tucker_to_unfolded_einsum_b, tucker_to_unfolded_einsum, tucker_to_vec_einsum_b, tucker_to_vec_einsum.
  rewrite Ht, Hb. split; reflexivity.
Qed.

(* with the ring hypothesis: on well-formed input the broadcasting model is the core route *)
Hypothesis Rth : ring_theory (f0 Op) (f1 Op) (fadd Op) (fmul Op) (fsub Op) (fopp Op) (@eq F).
Theorem tucker_einsum_b_eq_core (core : tensor) fs ns skip :
  tk_shapes F 0 skip fs ns (shape core) -> wf core -> 0 < prod (shape core) -> 0 < prod ns ->
  tucker_to_tensor_einsum_b Op core fs skip false = tucker_to_tensor Op core fs skip false.
Proof.
  intros Hsh W Hp Hn. pose proof (tucker_einsum_eq_core F Op Rth core fs ns skip Hsh W Hp Hn) as E.
  destruct (tucker_to_tensor Op core fs skip false) as [t|] eqn:Et.
  - now apply tucker_einsum_b_extends.
  - exfalso. destruct (FactorizedProofs5.tucker_to_tensor_spec F Op Rth core fs ns skip Hsh W Hp Hn) as (t & Ht & _).
    rewrite Ht in Et. discriminate.
Qed.
End P.

(* ---------- former witnesses (before repo 8b25fc6 these sets were reconstructed silently) ---------- *)
Definition bc_core1 : tensor Z := mk [1; 2] [1; 2]%Z.
Definition bc_fs1 : list (tensor Z) := [mk [2; 3] [1; 2; 3; 4; 5; 6]%Z; mk [2; 2] [1; 2; 3; 4]%Z].
Definition bc_core2 : tensor Z := mk [3; 2] [1; 2; 3; 4; 5; 6]%Z.
Definition bc_fs2 : list (tensor Z) := [mk [2; 1] [1; 2]%Z; mk [2; 2] [1; 2; 3; 4]%Z].
(* Tucker, einsum backend: a size-1 core mode against a 3-column factor, a one-column factor against a core mode of size 3 *)
Lemma before_8b25fc6_tucker_einsum :
  validate_tucker bc_core1 bc_fs1 = Err /\ tucker_to_tensor Zops bc_core1 bc_fs1 None false = Err /\
  tucker_to_tensor_einsum_b Zops bc_core1 bc_fs1 None false = Err /\
  validate_tucker bc_core2 bc_fs2 = Err /\ tucker_to_tensor Zops bc_core2 bc_fs2 None false = Err /\
  tucker_to_tensor_einsum_b Zops bc_core2 bc_fs2 None false = Err.
Proof. repeat split; vm_compute; reflexivity. Qed.

(* TT-matrix, einsum backend: first boundary rank 2 (the raw einsum sums over it), inner rank 3 against 1 (the raw einsum broadcasts) *)
Definition bc_ttm1 : list (tensor Z) := [mk [2; 2; 1; 2] (repeat 1%Z 8); mk [2; 1; 2; 1] (repeat 1%Z 4)].
Definition bc_ttm2 : list (tensor Z) := [mk [1; 2; 1; 3] (repeat 1%Z 6); mk [1; 1; 2; 1] (repeat 1%Z 2)].
Lemma before_8b25fc6_ttm_einsum :
  validate_ttm bc_ttm1 = Err /\ ttm_to_tensor Zops bc_ttm1 = Err /\ ttm_to_tensor_einsum Zops bc_ttm1 = Err /\
  ttm_to_tensor_einsum_raw Zops bc_ttm1 = Ok (mk [2; 1; 1; 2] [4; 4; 4; 4]%Z) /\
  validate_ttm bc_ttm2 = Err /\ ttm_to_tensor Zops bc_ttm2 = Err /\ ttm_to_tensor_einsum Zops bc_ttm2 = Err /\
  ttm_to_tensor_einsum_raw Zops bc_ttm2 = Ok (mk [2; 1; 1; 2] [3; 3; 3; 3]%Z).
Proof. repeat split; vm_compute; reflexivity. Qed.

(* tensor train: first boundary rank 2 whose product with the next rank is the left rank of the second core *)
Definition bc_tt : list (tensor Z) := [mk [2; 3; 1] [1; 2; 3; 4; 5; 6]%Z; mk [2; 4; 1] [1; -1; 2; 0; 3; 1; -2; 2]%Z].
Lemma before_8b25fc6_tt :
  validate_tt bc_tt = Err /\ tt_to_tensor Zops bc_tt = Err /\ exists t, tt_to_tensor_raw Zops bc_tt = Ok t /\ shape t = [3; 4].
Proof. split; [reflexivity|]. split; [reflexivity|]. eexists. split; [vm_compute; reflexivity | reflexivity]. Qed.

(* tensor ring: two cores (r0, n0, r1), (r0, n1, r1) with r0 <> r1 -- the last one with its ranks swapped *)
Definition bc_tr : list (tensor Z) := [mk [1; 2; 2] [1; 2; 3; 4]%Z; mk [1; 3; 2] [1; 0; 2; -1; 1; 1]%Z].
Lemma before_8b25fc6_tr :
  validate_tr bc_tr = Err /\ tr_to_tensor Zops bc_tr = Err /\ exists t, tr_to_tensor_raw Zops bc_tr = Ok t /\ shape t = [2; 3].
Proof. split; [reflexivity|]. split; [reflexivity|]. eexists. split; [vm_compute; reflexivity | reflexivity]. Qed.

(* ---------- any mismatch is refused by the einsum routes ---------- *)
Section R.
Variable F : Type.
Variable Op : fops F.
Notation tensor := (tensor F).
Theorem tucker_einsum_mismatch_rejected (core : tensor) (M : tensor) (Ms : list tensor) c cs' :
  shape core = c :: cs' -> ncols M <> c -> tucker_to_tensor_einsum_b Op core (M :: Ms) None false = Err.
Proof.
  intros Hs H1. unfold tucker_to_tensor_einsum_b. cbn [andb]. rewrite Hs. cbn [ein_tk_dims_b ein_skipped].
  destruct (Nat.eqb_spec (ncols M) c); [contradiction|]. now rewrite andb_false_r.
Qed.
Theorem ttm_einsum_mismatch_rejected (G1 G2 : tensor) (rest : list tensor) a b c e a' b' c' e' :
  shape G1 = [a; b; c; e] -> shape G2 = [a'; b'; c'; e'] -> e <> a' -> ttm_to_tensor_einsum Op (G1 :: G2 :: rest) = Err.
Proof.
  intros H1 H2 Hne. unfold ttm_to_tensor_einsum, validate_ttm. cbn [all_shape4]. unfold shape4. rewrite H1, H2. cbn [rbind].
  destruct (all_shape4 rest) as [ds|]; cbn [rbind]; [|reflexivity].
  cbn [chain_ok4 d4e d4a fst snd].
  destruct (Nat.eqb_spec a' e); [congruence|]. now rewrite andb_false_r.
Qed.
End R.
