(* Lemmas about Model/Factorized.v (part 19: the CORE tenalg routes never reconstruct operands that do not fit.
   tucker_to_tensor (core multi_mode_dot: unfold, dot, fold per mode) returns a tensor only if every factor that is not skipped is
   a matrix whose column count is the size of its core mode -- no hypothesis on the operands, any carrier, no ring axiom: the
   reconstruction function itself carries the clause "rejected rather than silently reconstructed" for mismatched Tucker ranks
   (the einsum route does not: Proofs18). *)
From Coq Require Import List Arith ZArith Lia Bool.
From TLV Require Import Base.Shape Base.PyList Base.Tensor Base.BigSum Base.Ops Model.Base Model.Factorized
  Proofs.BaseProofs Proofs.BaseProofs7 Proofs.BaseProofs9 Proofs.FactorizedProofs Proofs.FactorizedProofs4 Proofs.FactorizedProofs5.
Import ListNotations.

Section P.
Variable F : Type.
Variable Op : fops F.
Notation zero := (f0 Op).
Notation tensor := (tensor F).

(* the factors from position k on fit a core of shape cs: each one that is not skipped is 2-D with ncols = cs[k] *)
Fixpoint tk_fits (k : nat) (skip : option nat) (Ms : list tensor) (cs : list nat) : Prop :=
  match Ms with
  | [] => True
  | M :: Ms' => (if ein_skipped skip k then True else ndim M = 2 /\ k < length cs /\ ncols M = nth k cs 0) /\ tk_fits (S k) skip Ms' cs
  end.

Lemma tk_fits_unfold k skip (M : tensor) Ms cs :
  (tk_fits k skip [] cs <-> True) /\
  (tk_fits k skip (M :: Ms) cs <->
   (if ein_skipped skip k then True else ndim M = 2 /\ k < length cs /\ ncols M = nth k cs 0) /\ tk_fits (S k) skip Ms cs).
Proof. split; reflexivity. Qed.

Lemma fold_ok_shape (u t : tensor) m s : fold zero u m s = Ok t -> shape t = s.
Proof.
  unfold fold. destruct (Nat.ltb_spec m (length s)) as [Hm|]; [|discriminate].
  destruct (reshape_spec (map Some (nth m s 0 :: remove_nth m s)) u) as [r|] eqn:E; cbn [rbind]; [|discriminate].
  intros H; injection H as <-. rewrite shape_moveaxis. rewrite (reshape_spec_some_shape _ _ _ E).
  cbn [nth remove_nth]. apply insert_remove. exact Hm.
Qed.

Lemma mode_dot_ok_inv (T M T' : tensor) k : mode_dot Op T M k = Ok T' ->
  ndim M = 2 /\ k < ndim T /\ ncols M = nth k (shape T) 0 /\ shape T' = set_nth k (nrows M) (shape T).
Proof.
  unfold mode_dot.
  destruct (Nat.eqb_spec (ndim M) 2) as [H2|]; cbn [andb]; [|discriminate].
  destruct (Nat.ltb_spec k (ndim T)) as [Hk|]; cbn [andb]; [|discriminate].
  destruct (Nat.eqb_spec (ncols M) (nth k (shape T) 0)) as [Hc|]; [|discriminate].
  destruct (unfold zero T k) as [U|]; cbn [rbind]; [|discriminate].
  destruct (mdot Op M U) as [P|]; cbn [rbind]; [|discriminate].
  intros H. apply fold_ok_shape in H. auto.
Qed.

Lemma tk_fits_set_nth skip x : forall (Ms : list tensor) j k cs, k < j ->
  tk_fits j skip Ms (set_nth k x cs) -> tk_fits j skip Ms cs.
Proof.
  induction Ms as [|M Ms IH]; intros j k cs Hj; cbn [tk_fits]; [auto|].
  intros [H1 H2]. split; [|apply (IH (S j) k); [lia | exact H2]].
  destruct (ein_skipped skip j); [exact I|].
  rewrite set_nth_length in H1. rewrite nth_set_nth_other in H1 by lia. exact H1.
Qed.

Theorem tucker_core_ok_fits skip : forall (Ms : list tensor) k (T t : tensor),
  multi_mode_dot_from Op k T Ms skip false = Ok t -> tk_fits k skip Ms (shape T).
Proof.
  induction Ms as [|M Ms IH]; intros k T t; cbn [multi_mode_dot_from tk_fits]; [auto|].
  unfold ein_skipped.
  destruct (match skip with Some s => s =? k | None => false end).
  - intros H. split; [exact I | exact (IH _ _ _ H)].
  - destruct (Nat.eqb_spec (ndim M) 2) as [H2|]; cbn [negb]; [|discriminate].
    destruct (mode_dot Op T M k) as [T'|] eqn:E; cbn [rbind]; [|discriminate].
    intros H. apply mode_dot_ok_inv in E. destruct E as (_ & Hk & Hc & Hs).
    split; [unfold ndim in Hk; auto|].
    apply (tk_fits_set_nth skip (nrows M) Ms (S k) k); [lia|]. rewrite <- Hs. exact (IH _ _ _ H).
Qed.

(* the clause of C03 for the reconstruction function itself, core backend: a factor that is not skipped and does not fit its core
   mode makes tucker_to_tensor raise, whatever the other operands are *)
Corollary tucker_core_misfit_rejected (core : tensor) fs skip :
  ~ tk_fits 0 skip fs (shape core) -> tucker_to_tensor Op core fs skip false = Err.
Proof.
  intros Hn. unfold tucker_to_tensor. destruct (multi_mode_dot_from Op 0 core fs skip false) as [t|] eqn:E; [|reflexivity].
  exfalso. apply Hn. exact (tucker_core_ok_fits skip fs 0 core t E).
Qed.

(* what the validator accepts fits; and what fits with as many factors as core modes (>= 2) is what the validator accepts *)
Lemma tucker_dims_fits : forall (fs : list tensor) k cs sr, tucker_dims k cs fs = Ok sr -> k + length fs <= length cs -> tk_fits k None fs cs.
Proof.
  induction fs as [|f fs IH]; intros k cs sr; cbn [tucker_dims tk_fits length]; [auto|].
  destruct (shape f) as [|n [|c [|? ?]]] eqn:Es; try discriminate.
  destruct (Nat.eqb_spec c (nth k cs 0)) as [Hc|]; [|discriminate].
  destruct (tucker_dims (S k) cs fs) as [sr'|] eqn:E; cbn [rbind]; [|discriminate].
  intros _ Hl. split; [|apply (IH _ _ _ E); lia].
  cbn [ein_skipped]. unfold ndim, ncols. rewrite Es. cbn [length nth]. repeat split; auto; lia.
Qed.

Theorem validated_tucker_fits (core : tensor) fs shp rk :
  validate_tucker core fs = Ok (shp, rk) -> tk_fits 0 None fs (shape core).
Proof.
  unfold validate_tucker. destruct (length fs <? 2); [discriminate|].
  destruct (Nat.eqb_spec (length fs) (ndim core)) as [Hl|]; cbn [negb]; [|discriminate].
  intros H. apply (tucker_dims_fits _ _ _ _ H). unfold ndim in Hl. lia.
Qed.
End P.

(* ---------- TT-matrix, core route: tt_matrix_to_tensor reconstructs ONLY what _validate_tt_matrix accepts ---------- *)
Section Q.
Variable F : Type.
Variable Op : fops F.
Notation zero := (f0 Op).
Notation tensor := (tensor F).
Notation io := (fun x : nat * nat * nat * nat => [d4b x; d4c x]).
Notation step := (fun (acc : res tensor) (f : tensor) => rbind acc (fun a => tdot Op a f)).

Lemma fold_step_err : forall (l : list tensor), fold_left step l Err = Err.
Proof. induction l; cbn [fold_left rbind]; auto. Qed.

Lemma shape4_iff (G : tensor) x : shape4 G = Ok x -> shape G = [d4a x; d4b x; d4c x; d4e x].
Proof.
  unfold shape4. destruct (shape G) as [|a [|b [|c [|e [|? ?]]]]]; try discriminate. intros H; injection H as <-. reflexivity.
Qed.

Lemma removelast_snoc {X} (l : list X) x : removelast (l ++ [x]) = l.
Proof. apply removelast_last. Qed.

Lemma tdot_ok_inv (A B R : tensor) sA e x : shape A = sA ++ [e] -> shape4 B = Ok x -> tdot Op A B = Ok R ->
  d4a x = e /\ shape R = (sA ++ [d4b x; d4c x]) ++ [d4e x].
Proof.
  intros HA HB. apply shape4_iff in HB. unfold tdot. rewrite HB, HA.
  destruct (1 <=? ndim A); cbn [andb]; [|discriminate].
  rewrite last_last. destruct (Nat.eqb_spec e (d4a x)) as [He|]; [|discriminate].
  intros H; injection H as <-. split; [auto|]. cbn [shape tabulate]. rewrite removelast_snoc. rewrite <- app_assoc. reflexivity.
Qed.

Lemma tdot_chain_ok_inv : forall (rest : list tensor) ds (A R : tensor) sA e,
  all_shape4 rest = Ok ds -> shape A = sA ++ [e] -> fold_left step rest (Ok A) = Ok R ->
  chain_ok4 e ds = true /\ shape R = sA ++ flat_map io ds ++ [d4e (last ds (0, 0, 0, e))].
Proof.
  induction rest as [|f rest IH]; intros ds A R sA e; cbn [all_shape4 fold_left].
  - intros H; injection H as <-. intros HA H; injection H as <-. split; [reflexivity|]. exact HA.
  - destruct (shape4 f) as [x|] eqn:Ex; cbn [rbind]; [|discriminate].
    destruct (all_shape4 rest) as [ds'|] eqn:Eds; cbn [rbind]; [|discriminate].
    intros H; injection H as <-. intros HA Hf.
    destruct (tdot Op A f) as [A'|] eqn:Et; [|rewrite fold_step_err in Hf; discriminate].
    destruct (tdot_ok_inv A f A' sA e x HA Ex Et) as [Ha HsA'].
    destruct (IH ds' A' R _ _ eq_refl HsA' Hf) as [Hc Hs].
    split.
    + cbn [chain_ok4]. rewrite Ha, Nat.eqb_refl. exact Hc.
    + rewrite Hs. cbn [flat_map]. rewrite <- !app_assoc. cbn [app]. do 4 f_equal.
      destruct ds' as [|y ds']; [reflexivity|]. f_equal. f_equal. symmetry. apply last_cons_indep. discriminate.
Qed.

Theorem ttm_core_ok_validated (cs : list tensor) (t : tensor) ds :
  ttm_to_tensor Op cs = Ok t -> all_shape4 cs = Ok ds -> 0 < prod (flat_map io ds) ->
  validate_ttm cs = Ok (map d4b ds ++ map d4c ds, map d4a ds ++ [1]).
Proof.
  unfold ttm_to_tensor, validate_ttm. destruct cs as [|fa rest]; [discriminate|].
  intros Ht Hds Hpos. rewrite Hds in *. cbn [rbind] in *.
  destruct (fold_left step rest (Ok fa)) as [R|] eqn:EF; cbn [rbind] in Ht; [|discriminate].
  destruct (reshape_spec (map Some (flat_map io ds)) R) as [r'|] eqn:ER; cbn [rbind] in Ht; [|discriminate].
  assert (HR : prod (flat_map io ds) = prod (shape R)) by (apply reshape_spec_all_some_iff; eexists; exact ER).
  cbn [all_shape4] in Hds.
  destruct (shape4 fa) as [x0|] eqn:E0; cbn [rbind] in Hds; [|discriminate].
  destruct (all_shape4 rest) as [ds'|] eqn:Eds; cbn [rbind] in Hds; [|discriminate].
  injection Hds as <-.
  pose proof (shape4_iff fa x0 E0) as Hfa.
  assert (Hfa' : shape fa = [d4a x0; d4b x0; d4c x0] ++ [d4e x0]) by (rewrite Hfa; reflexivity).
  destruct (tdot_chain_ok_inv rest ds' fa R _ _ Eds Hfa' EF) as [Hc Hs].
  rewrite Hs in HR. cbn [flat_map] in HR, Hpos. rewrite !prod_app in HR. rewrite !prod_app in Hpos.
  cbn [prod fold_right] in HR, Hpos.
  set (eL := d4e (last ds' (0, 0, 0, d4e x0))) in *.
  assert (Hb : d4a x0 = 1 /\ eL = 1).
  { clearbody eL. remember (prod (flat_map io ds')) as P. remember (d4b x0) as b. remember (d4c x0) as c. remember (d4a x0) as a.
    assert (Hq : (b * (c * 1) * P) * (a * eL) = (b * (c * 1) * P) * 1) by (rewrite HR at 2; ring).
    apply Nat.mul_cancel_l in Hq; [|lia]. apply Nat.eq_mul_1 in Hq. exact Hq. }
  destruct Hb as [Ha HeL].
  assert (HL : d4e (last (x0 :: ds') (0, 0, 0, 0)) = 1).
  { destruct ds' as [|y ds']; [exact HeL|]. rewrite (last_cons_indep x0 (y :: ds') _ (0, 0, 0, d4e x0)) by discriminate. exact HeL. }
  cbn [chain_ok4]. rewrite Ha. cbn [Nat.eqb]. rewrite Hc. rewrite HL. cbn [Nat.eqb andb]. reflexivity.
Qed.
End Q.

(* ---------- tensor train: with first boundary rank 1, tt_to_tensor_raw reconstructs ONLY what _validate_tt_tensor accepts ---------- *)
(* (without that hypothesis it does not: tt_first_boundary_refuted in Proofs18) *)
Section T.
Variable F : Type.
Variable Op : fops F.
Notation zero := (f0 Op).
Notation tensor := (tensor F).

Lemma rs_front_inv (t u : tensor) a : reshape_spec [Some a; None] t = Ok u ->
  a <> 0 /\ shape u = [a; prod (shape t) / a] /\ prod (shape t) mod a = 0.
Proof.
  unfold reshape_spec, infer_shape. cbn. rewrite Nat.mul_1_r.
  destruct (Nat.eqb_spec a 0); [discriminate|].
  destruct (Nat.eqb_spec (prod (shape t) mod a) 0); [|discriminate]. cbn [rbind].
  intros H; injection H as <-. auto.
Qed.
Lemma rs_back_inv (t u : tensor) c : reshape_spec [None; Some c] t = Ok u ->
  c <> 0 /\ shape u = [prod (shape t) / c; c] /\ prod (shape t) mod c = 0.
Proof.
  unfold reshape_spec, infer_shape. cbn. rewrite Nat.mul_1_r.
  destruct (Nat.eqb_spec c 0); [discriminate|].
  destruct (Nat.eqb_spec (prod (shape t) mod c) 0); [|discriminate]. cbn [rbind].
  intros H; injection H as <-. auto.
Qed.

Lemma tt_step_ok_inv (full f full1 : tensor) rows r a b c :
  shape full = [rows; r] -> shape f = [a; b; c] -> tt_step Op full f = Ok full1 ->
  a = r /\ shape full1 = [rows * b; c].
Proof.
  intros Hfull Hf. unfold tt_step, shape3. rewrite Hf. cbn [rbind d3a d3c fst snd].
  destruct (reshape_spec [Some a; None] f) as [fm|] eqn:E1; cbn [rbind]; [|discriminate].
  apply rs_front_inv in E1. destruct E1 as (Ha & Hfm & _). rewrite Hf in Hfm. cbn [prod fold_right] in Hfm.
  replace (a * (b * (c * 1)) / a) with (b * c) in Hfm by (replace (a * (b * (c * 1))) with (b * c * a) by lia; now rewrite Nat.div_mul).
  unfold mdot. unfold ndim, ncols, nrows. rewrite Hfull, Hfm. cbn [length nth Nat.eqb andb].
  destruct (Nat.eqb_spec r a) as [Hr|]; [|discriminate]. cbn [rbind].
  intros E2. apply rs_back_inv in E2. destruct E2 as (Hc & Hs & _). cbn [shape tabulate prod fold_right] in Hs.
  split; [auto|]. rewrite Hs. f_equal.
  replace (rows * (b * c * 1)) with (rows * b * c) by lia. now rewrite Nat.div_mul.
Qed.

Lemma tt_loop_ok_inv : forall (rest : list tensor) ds (full full' : tensor) rows r,
  all_shape3 rest = Ok ds -> shape full = [rows; r] -> tt_loop Op full rest = Ok full' ->
  chain_ok r ds = true /\ shape full' = [rows * prod (map d3b ds); d3c (last ds (0, 0, r))].
Proof.
  induction rest as [|f rest IH]; intros ds full full' rows r; cbn [all_shape3 tt_loop].
  - intros H; injection H as <-. intros Hs H; injection H as <-. split; [reflexivity|].
    cbn [map prod fold_right last d3c snd]. now rewrite Nat.mul_1_r.
  - destruct (shape3 f) as [x|] eqn:Ex; cbn [rbind]; [|discriminate].
    destruct (all_shape3 rest) as [ds'|] eqn:Eds; cbn [rbind]; [|discriminate].
    intros H; injection H as <-. intros Hs.
    destruct (tt_step Op full f) as [full1|] eqn:Et; cbn [rbind]; [|discriminate].
    intros Hl. destruct x as [[a b] c]. apply shape3_iff in Ex.
    destruct (tt_step_ok_inv full f full1 rows r a b c Hs Ex Et) as [Ha Hs1].
    destruct (IH ds' full1 full' _ _ eq_refl Hs1 Hl) as [Hc Hsf].
    split.
    + cbn [chain_ok d3a d3c fst snd]. rewrite Ha, Nat.eqb_refl. exact Hc.
    + rewrite Hsf. cbn [map prod fold_right d3b fst snd]. f_equal; [unfold prod; lia|]. f_equal.
      destruct ds' as [|y ds']; [reflexivity|]. f_equal. symmetry. apply last_cons_indep. discriminate.
Qed.

Theorem tt_ok_validated_partial (cs : list tensor) (t : tensor) ds :
  tt_to_tensor_raw Op cs = Ok t -> all_shape3 cs = Ok ds -> d3a (hd (0, 0, 0) ds) = 1 -> 0 < prod (map d3b ds) ->
  validate_tt cs = Ok (map d3b ds, map d3a ds ++ [1]).
Proof.
  unfold tt_to_tensor_raw, validate_tt. destruct cs as [|fa rest]; [discriminate|].
  intros Ht Hds H1 Hpos. rewrite Hds in *. cbn [rbind] in *.
  cbn [all_shape3] in Hds.
  destruct (shape3 fa) as [x0|] eqn:E0; cbn [rbind] in Hds; [|discriminate].
  destruct (all_shape3 rest) as [ds'|] eqn:Eds; cbn [rbind] in Hds; [|discriminate].
  injection Hds as <-. destruct x0 as [[a0 n0] r1]. cbn [hd d3a fst] in H1. subst a0. apply shape3_iff in E0.
  cbn [map hd d3b fst snd] in Ht, Hpos.
  destruct (reshape_spec [Some n0; None] fa) as [full|] eqn:E1; cbn [rbind] in Ht; [|discriminate].
  apply rs_front_inv in E1. destruct E1 as (Hn0 & Hfull & _). rewrite E0 in Hfull. cbn [prod fold_right] in Hfull.
  replace (1 * (n0 * (r1 * 1)) / n0) with r1 in Hfull by (replace (1 * (n0 * (r1 * 1))) with (r1 * n0) by lia; now rewrite Nat.div_mul).
  destruct (tt_loop Op full rest) as [full'|] eqn:EL; cbn [rbind] in Ht; [|discriminate].
  destruct (tt_loop_ok_inv rest ds' full full' n0 r1 Eds Hfull EL) as [Hc Hsf].
  assert (HR : prod (n0 :: map d3b ds') = prod (shape full')) by (apply reshape_spec_all_some_iff; eexists; exact Ht).
  rewrite Hsf in HR. cbn [prod fold_right] in HR, Hpos.
  set (cL := d3c (last ds' (0, 0, r1))) in *.
  assert (HcL : cL = 1).
  { clearbody cL. unfold prod in HR. remember (fold_right Nat.mul 1 (map d3b ds')) as P.
    assert (Hq : (n0 * P) * cL = (n0 * P) * 1). { rewrite HR at 2. ring. }
    apply Nat.mul_cancel_l in Hq; [exact Hq | lia]. }
  assert (HL : d3c (last ((1, n0, r1) :: ds') (0, 0, 0)) = 1).
  { destruct ds' as [|y ds']; [exact HcL|]. rewrite (last_cons_indep (1, n0, r1) (y :: ds') _ (0, 0, r1)) by discriminate. exact HcL. }
  cbn [chain_ok d3a d3c fst snd]. cbn [Nat.eqb]. cbn [d3c snd] in Hc. rewrite Hc. rewrite HL. cbn [Nat.eqb andb]. reflexivity.
Qed.
End T.

(* non-vacuity: the misfit hypothesis holds for the two broadcast witnesses of Proofs18 (so the core route rejects them by the
   theorem, not only by computation) and fails for a well-formed pair *)
Example tucker_misfit_example :
  ~ tk_fits Z 0 None [mk [2; 3] [1; 2; 3; 4; 5; 6]%Z; mk [2; 2] [1; 2; 3; 4]%Z] [1; 2] /\
  tk_fits Z 0 None [mk [2; 1] [1; 2]%Z; mk [2; 2] [1; 2; 3; 4]%Z] [1; 2].
Proof.
  split.
  - cbn [tk_fits ein_skipped]. unfold ncols, ndim. cbn [shape nth length]. intros [[_ [_ H]] _]. discriminate.
  - cbn [tk_fits ein_skipped]. unfold ncols, ndim. cbn [shape nth length]. repeat split; auto; lia.
Qed.
