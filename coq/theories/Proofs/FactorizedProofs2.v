(* Lemmas about Model/Factorized.v (part 2: the CP views -- unfolded, vec, masked, norm). *)
From Coq Require Import List Arith Lia Bool Ring ZArith.
From TLV Require Import Base.Shape Base.PyList Base.Tensor Base.BigSum Base.Ops Model.Base Model.Factorized
  Proofs.BaseProofs Proofs.FactorizedProofs.
Import ListNotations.

Lemma Forall2_remove_nth {A B} (P : A -> B -> Prop) m : forall l l', Forall2 P l l' -> Forall2 P (remove_nth m l) (remove_nth m l').
Proof.
  induction m; intros l l' H; inversion H; subst; simpl; auto.
Qed.
Lemma Forall2_nth {A B} (P : A -> B -> Prop) da db : forall m l l', Forall2 P l l' -> m < length l -> P (nth m l da) (nth m l' db).
Proof.
  induction m; intros l l' H Hm; inversion H; subst; simpl in *; try lia; auto. apply IHm; auto. lia.
Qed.
Lemma insert_remove' {A} (m : nat) : forall (l : list A) (x0 : A), m < length l ->
  l = insert_at m (nth m l x0) (remove_nth m l).
Proof. intros. symmetry. now apply insert_remove. Qed.

Section P.
Variable F : Type.
Variable Op : fops F.
Hypothesis Rth : ring_theory (f0 Op) (f1 Op) (fadd Op) (fmul Op) (fsub Op) (fopp Op) (@eq F).
Add Ring Fr2 : Rth.
Notation zero := (f0 Op).
Notation one := (f1 Op).
Notation "a *f b" := (fmul Op a b) (at level 40, left associativity).
Notation "a +f b" := (fadd Op a b) (at level 50, left associativity).
Notation tensor := (tensor F).
Notation fsumn := (fsumn Op).
Notation get2 := (get2 Op).
Notation get1 := (get1 Op).
Notation prod_entries := (prod_entries F Op).
Notation mats := (mats F).
Notation cp_entry := (cp_entry F Op).

Lemma khatri_rao_spec' R ms ns : mats R ms ns -> ms <> [] ->
  exists K, khatri_rao Op ms = Ok K /\ shape K = [prod ns; R] /\
    forall js r, inb ns js -> r < R -> get2 K (ravel ns js) r = prod_entries ms js r.
Proof.
  intros Hm Hne. destruct ms as [|f ms]; [congruence|]. inversion Hm; subst.
  now apply (khatri_rao_spec F Op Rth).
Qed.

(* taking factor m out of the product *)
Lemma prod_entries_insert (m : nat) : forall (fs : list tensor) js i r, m < length fs -> length js + 1 = length fs ->
  prod_entries fs (insert_at m i js) r = get2 (nth m fs (mk [] [])) i r *f prod_entries (remove_nth m fs) js r.
Proof.
  induction m; intros fs js i r Hm Hl; destruct fs as [|f fs]; simpl in Hm; try lia.
  - rewrite insert_at_0. reflexivity.
  - destruct js as [|j js].
    + simpl in Hl. destruct fs; simpl in *; lia.
    + simpl. rewrite IHm by (simpl in *; lia). ring.
Qed.

(* a 1-D tensor moved from axis 0 to axis 0 is itself *)
Lemma moveaxis_00_vec (t : tensor) n : wf t -> shape t = [n] -> moveaxis zero t 0 0 = t.
Proof.
  intros W Hs. apply tensor_ext with (d := zero); [apply wf_moveaxis | exact W | rewrite shape_moveaxis, Hs; reflexivity |].
  intros idx Hi. rewrite shape_moveaxis, Hs in Hi. cbn [nth remove_nth insert_at] in Hi.
  destruct idx as [|i [|? ?]]; simpl in Hi; try tauto.
  unfold moveaxis. rewrite Hs. cbn [nth remove_nth insert_at]. rewrite get_tabulate by (simpl; tauto). reflexivity.
Qed.

(* order 1: the vector as a single column *)
Lemma cp_to_unfolded_order1 (w : option tensor) (fa : tensor) shp R :
  validate_cp w [fa] = Ok (shp, R) -> Forall (fun f => ndim f = 2) [fa] -> 0 < prod shp ->
  exists t u, cp_to_tensor Op w [fa] None = Ok t /\ cp_to_unfolded Op w [fa] 0 = Ok u /\ unfold zero t 0 = Ok u.
Proof.
  intros Hv H2 Hpos.
  pose proof (valid_mats F _ _ _ _ Hv H2) as Hmats. inversion Hmats as [|? n ? ns Hfa Hrest]; subst. inversion Hrest; subst.
  destruct (cp_to_tensor_spec F Op Rth w [fa] [n] R Hv H2) as (t & Ht & Hst & Hgt).
  assert (Wt : wf t).
  { revert Ht. unfold cp_to_tensor, cp_to_tensor_from. rewrite Hv. cbn [rbind fst]. rewrite (as_matrices_id F _ H2), (all_2d_true F _ H2). cbn [negb length Nat.eqb]. intros H; injection H as <-. apply wf_tabulate. }
  assert (Hn : n <> 0) by (simpl in Hpos; lia).
  exists t, (reshape [n; 1] t). split; [exact Ht|]. split.
  - unfold cp_to_unfolded, cp_to_unfolded_from. unfold cp_to_tensor in Ht. rewrite Hv in *. cbn [rbind fst length Nat.eqb]. rewrite Ht. cbn [rbind].
    change [None; Some 1] with (map Some (@nil nat) ++ [None] ++ map Some [1]).
    rewrite reshape_spec_one_none.
    + rewrite Hst. cbn [prod fold_right app]. replace (n * 1 / (1 * (1 * 1))) with n by (rewrite Nat.mul_1_r, Nat.div_1_r; reflexivity). reflexivity.
    + cbn [prod fold_right]. lia.
    + cbn [prod fold_right]. apply Nat.mod_1_r.
  - rewrite unfold_eq by (auto; unfold ndim; rewrite Hst; simpl; auto). rewrite Hst. cbn [nth remove_nth prod fold_right].
    rewrite (moveaxis_00_vec t n Wt Hst). reflexivity.
Qed.

Theorem cp_to_unfolded_spec (w : option tensor) fs shp R m :
  validate_cp w fs = Ok (shp, R) -> Forall (fun f => ndim f = 2) fs ->
  m < length fs -> 0 < prod shp ->
  exists t u, cp_to_tensor Op w fs None = Ok t /\ cp_to_unfolded Op w fs m = Ok u /\ unfold zero t m = Ok u.
Proof.
  intros Hv H2 Hm Hpos.
  destruct fs as [|fa [|fb rest0]]; [simpl in Hm; lia | |].
  { (* order 1 *) simpl in Hm. replace m with 0 by lia. now apply (cp_to_unfolded_order1 w fa shp R). }
  set (fs := fa :: fb :: rest0) in *. assert (Hord : 2 <= length fs) by (simpl; lia).
  destruct (cp_to_tensor_spec F Op Rth w fs shp R Hv H2) as (t & Ht & Hst & Hgt).
  pose proof (valid_mats F _ _ _ _ Hv H2) as Hmats.
  pose proof (mats_length F _ _ _ Hmats) as Hlen.
  assert (Wt : wf t).
  { (* the dense tensor is produced by fold = moveaxis of a reshape, or by tabulate *)
    revert Ht. unfold cp_to_tensor, cp_to_tensor_from. rewrite Hv. cbn [rbind fst]. rewrite (as_matrices_id F _ H2), (all_2d_true F _ H2). cbn [negb]. unfold fs in *. clear fs. rename rest0 into rest.
    inversion Hmats as [|? n ? ns Hfa Hrest]; subst. inversion Hrest as [|? n' ? ns' Hfb Hrest']; subst.
    replace (length (n :: n' :: ns') =? 1) with false by reflexivity.
    destruct (khatri_rao Op (remove_nth 0 (fa :: fb :: rest))) as [K|]; cbn [rbind]; [|discriminate].
    destruct (mdot Op (opt_scale Op w fa) (mT Op K)) as [U|]; cbn [rbind]; [|discriminate].
    unfold fold. destruct (0 <? length (n :: n' :: ns')); [|discriminate].
    destruct (reshape_spec _ U) as [r|]; cbn [rbind]; [|discriminate].
    intros H; injection H as <-. apply wf_moveaxis. }
  exists t.
  (* the unfolded view *)
  unfold cp_to_unfolded, cp_to_unfolded_from. rewrite Hv. cbn [rbind fst].
  replace (length shp =? 1) with false by (symmetry; apply Nat.eqb_neq; lia). rewrite (as_matrices_id F _ H2), (all_2d_true F _ H2). cbn [negb].
  apply Nat.ltb_lt in Hm as Hm'. rewrite Hm'.
  assert (Hm2 : mats R (remove_nth m fs) (remove_nth m shp)) by (now apply Forall2_remove_nth).
  assert (Hne : remove_nth m fs <> []).
  { intros E. apply (f_equal (@length _)) in E. rewrite remove_nth_length in E by lia. simpl in E. lia. }
  destruct (khatri_rao_spec' R _ _ Hm2 Hne) as (K & HK & HsK & HgK). rewrite HK. cbn [rbind].
  set (fm := nth m fs (mk [] [])). set (sm := nth m shp 0).
  assert (Hfm : shape fm = [sm; R]) by (apply (Forall2_nth (fun (f : tensor) n => shape f = [n; R])); assumption).
  assert (Hf0 : shape (opt_scale Op w fm) = [sm; R]) by (now apply (shape_opt_scale F)).
  pose proof (shape_mT F Op K _ _ HsK) as HsT.
  rewrite (mdot_ok F Op _ _ sm R (prod (remove_nth m shp)) Hf0 HsT).
  eexists. split; [exact Ht|]. split; [reflexivity|].
  assert (Hmt : m < ndim t) by (unfold ndim; rewrite Hst; lia).
  assert (Hpt : 0 < prod (shape t)) by (rewrite Hst; exact Hpos).
  rewrite (unfold_eq zero t m Wt Hmt Hpt). f_equal.
  apply tensor_ext with (d := zero).
  - apply wf_reshape; [apply wf_moveaxis|]. rewrite shape_moveaxis, prod_move by (unfold ndim in Hmt; exact Hmt).
    rewrite <- (prod_remove m (shape t)) by (unfold ndim in Hmt; exact Hmt). simpl. lia.
  - apply wf_tabulate.
  - cbn [shape reshape tabulate]. rewrite Hst. reflexivity.
  - cbn [shape reshape]. intros idx Hidx. rewrite Hst in Hidx.
    destruct idx as [|i [|c [|? ?]]]; simpl in Hidx; try tauto. destruct Hidx as (Hi & Hc & _).
    fold sm in Hi.
    set (js := unravel (remove_nth m shp) c).
    assert (Hjs : inb (remove_nth m shp) js) by (apply unravel_inb; exact Hc).
    assert (Hcj : c = ravel (remove_nth m shp) js) by (unfold js; now rewrite ravel_unravel).
    assert (Ljs : length js = length shp - 1) by (rewrite (inb_length _ _ Hjs), remove_nth_length; lia).
    set (idx := insert_at m i js).
    assert (Hidx : inb shp idx).
    { rewrite (insert_remove' m shp 0) by lia. apply inb_insert; assumption. }
    assert (Hn : nth m idx 0 = i) by (apply nth_insert_same; lia).
    assert (Hr : remove_nth m idx = js) by (apply remove_insert; lia).
    (* left: unfolding of the dense tensor, through the documented layout *)
    assert (HU : unfold zero t m = Ok (reshape [nth m (shape t) 0; prod (remove_nth m (shape t))] (moveaxis zero t m 0)))
      by (now apply unfold_eq).
    destruct (unfold_layout zero t m _ idx Wt Hmt Hpt HU) as [_ HL]; [rewrite Hst; exact Hidx|].
    rewrite Hst, Hn, Hr, <- Hcj in HL. rewrite Hst, HL.
    rewrite Hgt by exact Hidx.
    (* right: entry of the matrix product *)
    change (get zero ?T [i; c]) with (get2 T i c). rewrite (get2_tab F Op) by assumption.
    unfold FactorizedProofs.cp_entry. apply (fsumn_ext F Op); intros r Hr'. unfold ix. cbn [nth].
    rewrite (get2_opt_scale F Op Rth w fm sm R) by assumption.
    rewrite (get2_mT F Op K _ _ _ _ HsK) by assumption.
    rewrite Hcj, HgK by assumption.
    unfold idx. rewrite prod_entries_insert by lia. fold fm. ring.
Qed.

(* cp_to_vec: entry ravel(idx) of the vector is the CP entry *)
Theorem cp_to_vec_spec (w : option tensor) fs shp R :
  validate_cp w fs = Ok (shp, R) -> Forall (fun f => ndim f = 2) fs ->
  exists t v, cp_to_tensor Op w fs None = Ok t /\ cp_to_vec Op w fs = Ok v /\ tensor_to_vec t = Ok v /\
    shape v = [prod shp] /\ forall idx, inb shp idx -> get zero v [ravel shp idx] = cp_entry w fs R idx.
Proof.
  intros Hv H2. destruct (cp_to_tensor_spec F Op Rth w fs shp R Hv H2) as (t & Ht & Hst & Hgt).
  exists t, (reshape [prod (shape t)] t). unfold cp_to_vec, cp_to_vec_from, cp_to_tensor. unfold cp_to_tensor in Ht. rewrite Ht. cbn [rbind].
  rewrite tensor_to_vec_eq. repeat split; try reflexivity.
  - cbn [shape reshape]. now rewrite Hst.
  - intros idx Hi. rewrite <- Hgt by exact Hi. unfold get, reshape. cbn [shape data]. rewrite Hst. f_equal. simpl. lia.
Qed.

(* masked route, order >= 2: entry = mask[idx] * CP entry *)
Lemma apply_mask_ok (K mask : tensor) n R : shape K = [n; R] -> length (data mask) = n ->
  apply_mask Op K mask = Ok (tabulate [n; R] (fun idx => get2 K (ix 0 idx) (ix 1 idx) *f nth (ix 0 idx) (data mask) zero)).
Proof.
  intros HK Hl. unfold apply_mask, nrows, ncols. rewrite HK. simpl nth. rewrite Hl, Nat.eqb_refl. reflexivity.
Qed.

Theorem cp_to_tensor_masked_spec (w : option tensor) fs shp R (mask : tensor) :
  validate_cp w fs = Ok (shp, R) -> Forall (fun f => ndim f = 2) fs ->
  shape mask = shp -> wf mask ->
  exists t, cp_to_tensor Op w fs (Some mask) = Ok t /\ shape t = shp /\
    forall idx, inb shp idx -> get zero t idx = get zero mask idx *f cp_entry w fs R idx.
Proof.
  intros Hv H2 Hms Wm. pose proof (valid_mats F _ _ _ _ Hv H2) as Hmats.
  unfold cp_to_tensor, cp_to_tensor_from. rewrite Hv. cbn [rbind fst]. rewrite (as_matrices_id F _ H2), (all_2d_true F _ H2). cbn [negb].
  destruct fs as [|fa [|fb rest]]; [inversion Hmats; subst; discriminate Hv | |].
  { (* order 1: the vector times the flattened mask *)
    assert (exists n, shp = [n] /\ shape fa = [n; R]) as (n & -> & Hfa).
    { clear Hms. inversion Hmats as [|? n ? ns Hfa Hrest]; subst. inversion Hrest; subst. eauto. }
    cbn [length Nat.eqb].
    assert (Hf0 : shape (opt_scale Op w fa) = [n; R]) by (now apply (shape_opt_scale F)).
    assert (Hl : length (data mask) = n) by (unfold wf in Wm; rewrite Wm, Hms; simpl; lia).
    unfold mask_vec, sum_axis1, nrows, ncols. rewrite Hf0. cbn [shape tabulate nth]. rewrite Hl, Nat.eqb_refl.
    eexists. split; [reflexivity|]. split; [reflexivity|].
    intros idx Hi. destruct idx as [|i [|? ?]]; simpl in Hi; try tauto.
    rewrite get_tabulate by (simpl; tauto). unfold ix. cbn [nth]. rewrite (get1_tab F Op) by tauto. unfold ix. cbn [nth].
    unfold FactorizedProofs.cp_entry. rewrite <- (fsumn_scale_l F Op Rth).
    rewrite <- (fsumn_scale_r F Op Rth). apply (fsumn_ext F Op); intros r Hr.
    rewrite (get2_opt_scale F Op Rth w fa n R) by (auto; tauto).
    unfold get. rewrite Hms. cbn [ravel prod fold_right FactorizedProofs.prod_entries].
    replace (i * 1 + 0) with i by lia. ring. }
  destruct shp as [|n [|n' ns']]; try (inversion Hmats as [|? ? ? ? Hfa Hrest]; inversion Hrest; fail).
  inversion Hmats as [|? ? ? ? Hfa Hrest]. inversion Hrest as [|? ? ? ? Hfb Hrest']. clear Hmats Hrest. subst.
  replace (length (n :: n' :: ns') =? 1) with false by reflexivity.
  assert (Hf0 : shape (opt_scale Op w fa) = [n; R]) by (now apply (shape_opt_scale F)).
  assert (Hm' : mats R (opt_scale Op w fa :: fb :: rest) (n :: n' :: ns')) by (constructor; [exact Hf0 | constructor; assumption]).
  destruct (khatri_rao_spec' R _ _ Hm' ltac:(discriminate)) as (K & HK & HsK & HgK). rewrite HK. cbn [rbind].
  assert (Hl : length (data mask) = prod (n :: n' :: ns')) by (unfold wf in Wm; rewrite Wm, Hms; reflexivity).
  rewrite (apply_mask_ok K mask _ R HsK Hl). cbn [rbind].
  match goal with |- context [fold zero ?v 0 _] => destruct (fold0_vec_spec F Op v n (n' :: ns')) as (t & Ht & Hst & Hgt) end.
  { unfold sum_axis1, nrows. cbn [shape tabulate nth]. reflexivity. }
  exists t. split; [exact Ht|]. split; [exact Hst|].
  intros idx Hi. destruct idx as [|i js]; [simpl in Hi; tauto|].
  change (i < n /\ inb (n' :: ns') js) in Hi. destruct Hi as [Hi Hjs].
  rewrite Hgt by assumption.
  assert (Hrv : i * prod (n' :: ns') + ravel (n' :: ns') js = ravel (n :: n' :: ns') (i :: js)) by reflexivity.
  assert (Hin : inb (n :: n' :: ns') (i :: js)) by (split; assumption).
  pose proof (ravel_lt _ _ Hin) as Hlt. rewrite Hrv.
  unfold sum_axis1, nrows, ncols. cbn [shape tabulate nth].
  rewrite (get1_tab F Op) by exact Hlt. unfold ix. cbn [nth].
  rewrite (fsumn_ext F Op R _ (fun r => get zero mask (i :: js) *f (wv Op w r *f prod_entries (fa :: fb :: rest) (i :: js) r))).
  - unfold FactorizedProofs.cp_entry. now rewrite (fsumn_scale_l F Op Rth).
  - intros r Hr. rewrite (get2_tab F Op) by assumption. unfold ix. cbn [nth].
    rewrite HgK by assumption. unfold get. rewrite Hms.
    cbn [FactorizedProofs.prod_entries]. rewrite (get2_opt_scale F Op Rth w fa n R) by assumption. ring.
Qed.

End P.

(* ---------- the two former order-1 defects (repaired in /repo by 5ac4e66 and b1a796c), as executed regression examples ---------- *)
Definition wA : tensor Z := mk [3; 2] [1; 2; 3; 4; 5; 6]%Z.
Definition wW : tensor Z := mk [2] [2; -1]%Z.
Definition wM : tensor Z := mk [3] [1; 0; 1]%Z.

Example cp_unfolded_order1_example : cp_to_unfolded Zops (Some wW) [wA] 0 = Ok (mk [3; 1] [0; 2; 4]%Z).
Proof. vm_compute. reflexivity. Qed.
Example cp_mask_order1_example : cp_to_tensor Zops (Some wW) [wA] (Some wM) = Ok (mk [3] [0; 0; 4]%Z).
Proof. vm_compute. reflexivity. Qed.
