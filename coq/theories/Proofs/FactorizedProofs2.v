(* Lemmas about Model/Factorized.v (part 2: the CP views -- unfolded, vec, masked, norm). *)
From Coq Require Import List Arith Lia Bool Ring ZArith.
From TLV Require Import Base.Shape Base.PyList Base.Tensor Base.BigSum Base.Ops Model.Base Model.Factorized
  Proofs.BaseProofs Proofs.FactorizedProofs.
Import ListNotations.

Lemma Forall2_remove_nth {A B} (P : A -> B -> Prop) m : forall l l', Forall2 P l l' -> Forall2 P (remove_nth m l) (remove_nth m l').
Proof.
  induction m; intros l l' H; inversion H; subst; simpl; auto.
Qed.
Lemma Forall2_nth {A B} (P : A -> B -> Prop) da db : forall m l l', Forall2 P l l' -> m < length l -> P (nth m l da) (nth m l' db).
Proof.
  induction m; intros l l' H Hm; inversion H; subst; simpl in *; try lia; auto. apply IHm; auto. lia.
Qed.
Lemma insert_remove' {A} (m : nat) : forall (l : list A) (x0 : A), m < length l ->
  l = insert_at m (nth m l x0) (remove_nth m l).
Proof. intros. symmetry. now apply insert_remove. Qed.

Section P.
Variable F : Type.
Variable Op : fops F.
Hypothesis Rth : ring_theory (f0 Op) (f1 Op) (fadd Op) (fmul Op) (fsub Op) (fopp Op) (@eq F).
Add Ring Fr2 : Rth.
Notation zero := (f0 Op).
Notation one := (f1 Op).
Notation "a *f b" := (fmul Op a b) (at level 40, left associativity).
Notation "a +f b" := (fadd Op a b) (at level 50, left associativity).
Notation tensor := (tensor F).
Notation fsumn := (fsumn Op).
Notation get2 := (get2 Op).
Notation get1 := (get1 Op).
Notation prod_entries := (prod_entries F Op).
Notation mats := (mats F).
Notation cp_entry := (cp_entry F Op).

Lemma khatri_rao_spec' R ms ns : mats R ms ns -> ms <> [] ->
  exists K, khatri_rao Op ms = Ok K /\ shape K = [prod ns; R] /\
    forall js r, inb ns js -> r < R -> get2 K (ravel ns js) r = prod_entries ms js r.
Proof.
  intros Hm Hne. destruct ms as [|f ms]; [congruence|]. inversion Hm; subst.
  now apply (khatri_rao_spec F Op Rth).
Qed.

(* taking factor m out of the product *)
Lemma prod_entries_insert (m : nat) : forall (fs : list tensor) js i r, m < length fs -> length js + 1 = length fs ->
  prod_entries fs (insert_at m i js) r = get2 (nth m fs (mk [] [])) i r *f prod_entries (remove_nth m fs) js r.
Proof.
  induction m; intros fs js i r Hm Hl; destruct fs as [|f fs]; simpl in Hm; try lia.
  - rewrite insert_at_0. reflexivity.
  - destruct js as [|j js].
    + simpl in Hl. destruct fs; simpl in *; lia.
    + simpl. rewrite IHm by (simpl in *; lia). ring.
Qed.

Theorem cp_to_unfolded_spec (w : option tensor) fs shp R m :
  validate_cp w fs = Ok (shp, R) -> Forall (fun f => ndim f = 2) fs ->
  2 <= length fs -> m < length fs -> 0 < prod shp ->
  exists t u, cp_to_tensor Op w fs None = Ok t /\ cp_to_unfolded Op w fs m = Ok u /\ unfold zero t m = Ok u.
Proof.
  intros Hv H2 Hord Hm Hpos.
  destruct (cp_to_tensor_spec F Op Rth w fs shp R Hv H2) as (t & Ht & Hst & Hgt).
  pose proof (valid_mats F _ _ _ _ Hv H2) as Hmats.
  pose proof (mats_length F _ _ _ Hmats) as Hlen.
  assert (Wt : wf t).
  { (* the dense tensor is produced by fold = moveaxis of a reshape, or by tabulate *)
    revert Ht. unfold cp_to_tensor. rewrite Hv. cbn [rbind fst].
    destruct fs as [|fa [|fb rest]]; simpl in Hord; try lia.
    inversion Hmats as [|? n ? ns Hfa Hrest]; subst. inversion Hrest as [|? n' ? ns' Hfb Hrest']; subst.
    replace (length (n :: n' :: ns') =? 1) with false by reflexivity.
    destruct (khatri_rao Op (remove_nth 0 (fa :: fb :: rest))) as [K|]; cbn [rbind]; [|discriminate].
    destruct (mdot Op (opt_scale Op w fa) (mT Op K)) as [U|]; cbn [rbind]; [|discriminate].
    unfold fold. destruct (0 <? length (n :: n' :: ns')); [|discriminate].
    destruct (reshape_spec _ U) as [r|]; cbn [rbind]; [|discriminate].
    intros H; injection H as <-. apply wf_moveaxis. }
  exists t.
  (* the unfolded view *)
  unfold cp_to_unfolded. rewrite Hv. cbn [rbind]. apply Nat.ltb_lt in Hm as Hm'. rewrite Hm'.
  assert (Hm2 : mats R (remove_nth m fs) (remove_nth m shp)) by (now apply Forall2_remove_nth).
  assert (Hne : remove_nth m fs <> []).
  { intros E. apply (f_equal (@length _)) in E. rewrite remove_nth_length in E by lia. simpl in E. lia. }
  destruct (khatri_rao_spec' R _ _ Hm2 Hne) as (K & HK & HsK & HgK). rewrite HK. cbn [rbind].
  set (fm := nth m fs (mk [] [])). set (sm := nth m shp 0).
  assert (Hfm : shape fm = [sm; R]) by (apply (Forall2_nth (fun (f : tensor) n => shape f = [n; R])); assumption).
  assert (Hf0 : shape (opt_scale Op w fm) = [sm; R]) by (now apply (shape_opt_scale F)).
  pose proof (shape_mT F Op K _ _ HsK) as HsT.
  rewrite (mdot_ok F Op _ _ sm R (prod (remove_nth m shp)) Hf0 HsT).
  eexists. split; [exact Ht|]. split; [reflexivity|].
  assert (Hmt : m < ndim t) by (unfold ndim; rewrite Hst; lia).
  assert (Hpt : 0 < prod (shape t)) by (rewrite Hst; exact Hpos).
  rewrite (unfold_eq zero t m Wt Hmt Hpt). f_equal.
  apply tensor_ext with (d := zero).
  - apply wf_reshape; [apply wf_moveaxis|]. rewrite shape_moveaxis, prod_move by (unfold ndim in Hmt; exact Hmt).
    rewrite <- (prod_remove m (shape t)) by (unfold ndim in Hmt; exact Hmt). simpl. lia.
  - apply wf_tabulate.
  - cbn [shape reshape tabulate]. rewrite Hst. reflexivity.
  - cbn [shape reshape]. intros idx Hidx. rewrite Hst in Hidx.
    destruct idx as [|i [|c [|? ?]]]; simpl in Hidx; try tauto. destruct Hidx as (Hi & Hc & _).
    fold sm in Hi.
    set (js := unravel (remove_nth m shp) c).
    assert (Hjs : inb (remove_nth m shp) js) by (apply unravel_inb; exact Hc).
    assert (Hcj : c = ravel (remove_nth m shp) js) by (unfold js; now rewrite ravel_unravel).
    assert (Ljs : length js = length shp - 1) by (rewrite (inb_length _ _ Hjs), remove_nth_length; lia).
    set (idx := insert_at m i js).
    assert (Hidx : inb shp idx).
    { rewrite (insert_remove' m shp 0) by lia. apply inb_insert; assumption. }
    assert (Hn : nth m idx 0 = i) by (apply nth_insert_same; lia).
    assert (Hr : remove_nth m idx = js) by (apply remove_insert; lia).
    (* left: unfolding of the dense tensor, through the documented layout *)
    assert (HU : unfold zero t m = Ok (reshape [nth m (shape t) 0; prod (remove_nth m (shape t))] (moveaxis zero t m 0)))
      by (now apply unfold_eq).
    destruct (unfold_layout zero t m _ idx Wt Hmt Hpt HU) as [_ HL]; [rewrite Hst; exact Hidx|].
    rewrite Hst, Hn, Hr, <- Hcj in HL. rewrite Hst, HL.
    rewrite Hgt by exact Hidx.
    (* right: entry of the matrix product *)
    change (get zero ?T [i; c]) with (get2 T i c). rewrite (get2_tab F Op) by assumption.
    unfold FactorizedProofs.cp_entry. apply (fsumn_ext F Op); intros r Hr'. unfold ix. cbn [nth].
    rewrite (get2_opt_scale F Op Rth w fm sm R) by assumption.
    rewrite (get2_mT F Op K _ _ _ _ HsK) by assumption.
    rewrite Hcj, HgK by assumption.
    unfold idx. rewrite prod_entries_insert by lia. fold fm. ring.
Qed.

(* cp_to_vec: entry ravel(idx) of the vector is the CP entry *)
Theorem cp_to_vec_spec (w : option tensor) fs shp R :
  validate_cp w fs = Ok (shp, R) -> Forall (fun f => ndim f = 2) fs ->
  exists t v, cp_to_tensor Op w fs None = Ok t /\ cp_to_vec Op w fs = Ok v /\ tensor_to_vec t = Ok v /\
    shape v = [prod shp] /\ forall idx, inb shp idx -> get zero v [ravel shp idx] = cp_entry w fs R idx.
Proof.
  intros Hv H2. destruct (cp_to_tensor_spec F Op Rth w fs shp R Hv H2) as (t & Ht & Hst & Hgt).
  exists t, (reshape [prod (shape t)] t). unfold cp_to_vec. rewrite Ht. cbn [rbind].
  rewrite tensor_to_vec_eq. repeat split; try reflexivity.
  - cbn [shape reshape]. now rewrite Hst.
  - intros idx Hi. rewrite <- Hgt by exact Hi. unfold get, reshape. cbn [shape data]. rewrite Hst. f_equal. simpl. lia.
Qed.

(* masked route, order >= 2: entry = mask[idx] * CP entry *)
Lemma apply_mask_ok (K mask : tensor) n R : shape K = [n; R] -> length (data mask) = n ->
  apply_mask Op K mask = Ok (tabulate [n; R] (fun idx => get2 K (ix 0 idx) (ix 1 idx) *f nth (ix 0 idx) (data mask) zero)).
Proof.
  intros HK Hl. unfold apply_mask, nrows, ncols. rewrite HK. simpl nth. rewrite Hl, Nat.eqb_refl. reflexivity.
Qed.

Theorem cp_to_tensor_masked_spec (w : option tensor) fs shp R (mask : tensor) :
  validate_cp w fs = Ok (shp, R) -> Forall (fun f => ndim f = 2) fs -> 2 <= length fs ->
  shape mask = shp -> wf mask ->
  exists t, cp_to_tensor Op w fs (Some mask) = Ok t /\ shape t = shp /\
    forall idx, inb shp idx -> get zero t idx = get zero mask idx *f cp_entry w fs R idx.
Proof.
  intros Hv H2 Hord Hms Wm. pose proof (valid_mats F _ _ _ _ Hv H2) as Hmats.
  unfold cp_to_tensor. rewrite Hv. cbn [rbind fst].
  destruct fs as [|fa [|fb rest]]; simpl in Hord; try lia.
  destruct shp as [|n [|n' ns']]; try (inversion Hmats as [|? ? ? ? Hfa Hrest]; inversion Hrest; fail).
  inversion Hmats as [|? ? ? ? Hfa Hrest]. inversion Hrest as [|? ? ? ? Hfb Hrest']. clear Hmats Hrest. subst.
  replace (length (n :: n' :: ns') =? 1) with false by reflexivity.
  assert (Hf0 : shape (opt_scale Op w fa) = [n; R]) by (now apply (shape_opt_scale F)).
  assert (Hm' : mats R (opt_scale Op w fa :: fb :: rest) (n :: n' :: ns')) by (constructor; [exact Hf0 | constructor; assumption]).
  destruct (khatri_rao_spec' R _ _ Hm' ltac:(discriminate)) as (K & HK & HsK & HgK). rewrite HK. cbn [rbind].
  assert (Hl : length (data mask) = prod (n :: n' :: ns')) by (unfold wf in Wm; rewrite Wm, Hms; reflexivity).
  rewrite (apply_mask_ok K mask _ R HsK Hl). cbn [rbind].
  match goal with |- context [fold zero ?v 0 _] => destruct (fold0_vec_spec F Op v n (n' :: ns')) as (t & Ht & Hst & Hgt) end.
  { unfold sum_axis1, nrows. cbn [shape tabulate nth]. reflexivity. }
  exists t. split; [exact Ht|]. split; [exact Hst|].
  intros idx Hi. destruct idx as [|i js]; [simpl in Hi; tauto|].
  change (i < n /\ inb (n' :: ns') js) in Hi. destruct Hi as [Hi Hjs].
  rewrite Hgt by assumption.
  assert (Hrv : i * prod (n' :: ns') + ravel (n' :: ns') js = ravel (n :: n' :: ns') (i :: js)) by reflexivity.
  assert (Hin : inb (n :: n' :: ns') (i :: js)) by (split; assumption).
  pose proof (ravel_lt _ _ Hin) as Hlt. rewrite Hrv.
  unfold sum_axis1, nrows, ncols. cbn [shape tabulate nth].
  rewrite (get1_tab F Op) by exact Hlt. unfold ix. cbn [nth].
  rewrite (fsumn_ext F Op R _ (fun r => get zero mask (i :: js) *f (wv Op w r *f prod_entries (fa :: fb :: rest) (i :: js) r))).
  - unfold FactorizedProofs.cp_entry. now rewrite (fsumn_scale_l F Op Rth).
  - intros r Hr. rewrite (get2_tab F Op) by assumption. unfold ix. cbn [nth].
    rewrite HgK by assumption. unfold get. rewrite Hms.
    cbn [FactorizedProofs.prod_entries]. rewrite (get2_opt_scale F Op Rth w fa n R) by assumption. ring.
Qed.

End P.

(* ---------- the two order-1 defects of the code, exhibited on the model at Z ---------- *)
Definition wA : tensor Z := mk [3; 2] [1; 2; 3; 4; 5; 6]%Z.
Definition wW : tensor Z := mk [2] [2; -1]%Z.
Definition wM : tensor Z := mk [3] [1; 0; 1]%Z.

Lemma cp_unfolded_order1_refuted :
  exists (w : option (tensor Z)) fs shp R t,
    validate_cp w fs = Ok (shp, R) /\ Forall (fun f => ndim f = 2) fs /\ 0 < prod shp /\
    cp_to_tensor Zops w fs None = Ok t /\ cp_to_unfolded Zops w fs 0 = Err /\ unfold 0%Z t 0 <> Err.
Proof.
  exists (Some wW), [wA], [3], 2, (mk [3] [0; 2; 4]%Z). repeat split; try (vm_compute; reflexivity).
  - repeat constructor.
  - vm_compute. lia.
  - vm_compute. discriminate.
Qed.

Lemma cp_mask_order1_refuted :
  exists (w : option (tensor Z)) fs shp R mask t,
    validate_cp w fs = Ok (shp, R) /\ Forall (fun f => ndim f = 2) fs /\ shape mask = shp /\ wf mask /\
    cp_to_tensor Zops w fs (Some mask) = Ok t /\
    get 0%Z t [1%nat] <> (get 0%Z mask [1%nat] * cp_entry Z Zops w fs R [1%nat])%Z.
Proof.
  exists (Some wW), [wA], [3], 2, wM, (mk [3] [0; 2; 4]%Z). repeat split; try (vm_compute; reflexivity).
  - repeat constructor.
  - vm_compute. discriminate.
Qed.
