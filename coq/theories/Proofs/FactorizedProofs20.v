(* Lemmas about Model/Factorized.v (part 20: cp_to_unfolded with a negative mode, after the repair b8d05d5.
   cp_to_unfolded_neg w fs k models cp_to_unfolded(cp, mode=-k): order 1 accepts -1 only; order N >= 2 accepts -N <= mode < 0 and
   normalises it, so mode -k IS mode N - k (before the repair factors[-k] was multiplied with the Khatri-Rao product of ALL factors). *)
From Coq Require Import List Arith ZArith Lia Bool Ring.
From TLV Require Import Base.Shape Base.PyList Base.Tensor Base.BigSum Base.Ops Model.Base Model.Factorized
  Proofs.FactorizedProofs Proofs.FactorizedProofs2.
Import ListNotations.

Section P.
Variable F : Type.
Variable Op : fops F.
Notation tensor := (tensor F).

(* order 1: mode -1 is mode 0, every other negative mode is rejected *)
Theorem cp_unfolded_neg_order1 (w : option tensor) fs n R :
  validate_cp w fs = Ok ([n], R) ->
  cp_to_unfolded_neg Op w fs 1 = cp_to_unfolded Op w fs 0 /\ forall k, k <> 1 -> cp_to_unfolded_neg Op w fs k = Err.
Proof.
  intros Hv. unfold cp_to_unfolded_neg, cp_to_unfolded, cp_to_unfolded_from_neg, cp_to_unfolded_from. rewrite Hv. cbn [rbind fst length Nat.eqb].
  split; [reflexivity|]. intros k Hk. destruct (Nat.eqb_spec k 1); [contradiction | reflexivity].
Qed.

(* order N >= 2: a mode below -N (and "-0") is rejected ... *)
Theorem cp_unfolded_neg_out_of_range (w : option tensor) fs shp R k :
  validate_cp w fs = Ok (shp, R) -> length shp <> 1 -> (k = 0 \/ length shp < k) -> cp_to_unfolded_neg Op w fs k = Err.
Proof.
  intros Hv H1 Hk. unfold cp_to_unfolded_neg, cp_to_unfolded_from_neg. rewrite Hv. cbn [rbind fst].
  destruct (Nat.eqb_spec (length shp) 1); [contradiction|].
  destruct (Nat.leb_spec 1 k); cbn [andb]; [|reflexivity].
  destruct (Nat.leb_spec k (length shp)); [lia | reflexivity].
Qed.

(* ... and mode -k with 1 <= k <= N is mode N - k *)
Theorem cp_unfolded_neg_eq (w : option tensor) fs shp R k :
  validate_cp w fs = Ok (shp, R) -> length shp <> 1 -> 1 <= k <= length shp ->
  cp_to_unfolded_neg Op w fs k = cp_to_unfolded Op w fs (length shp - k).
Proof.
  intros Hv H1 Hk. unfold cp_to_unfolded_neg, cp_to_unfolded, cp_to_unfolded_from_neg. rewrite Hv. cbn [rbind fst].
  destruct (Nat.eqb_spec (length shp) 1); [contradiction|].
  destruct (Nat.leb_spec 1 k); [|lia]. destruct (Nat.leb_spec k (length shp)); [|lia]. reflexivity.
Qed.
End P.

(* the former witness of the defect (before b8d05d5 the answer was a 3 x 6 matrix): mode -1 of a 2 x 3 CP tensor is its mode-1 unfolding *)
Definition nm_fs : list (tensor Z) := [mk [2; 2] [1; 2; 3; 4]%Z; mk [3; 2] [1; 0; 2; -1; 1; 1]%Z].
Lemma before_b8d05d5_cp_unfolded_negative_mode :
  validate_cp None nm_fs = Ok ([2; 3], 2) /\
  cp_to_unfolded Zops None nm_fs 1 = Ok (mk [3; 2] [1; 3; 0; 2; 3; 7]%Z) /\
  cp_to_unfolded_neg Zops None nm_fs 1 = Ok (mk [3; 2] [1; 3; 0; 2; 3; 7]%Z) /\
  cp_to_unfolded_neg Zops None nm_fs 3 = Err.
Proof. repeat split; vm_compute; reflexivity. Qed.
