(* Lemmas about Model/Factorized.v (part 20: cp_to_unfolded with a negative mode.
   The order-1 branch of the code accepts mode -1 explicitly and tl.unfold (behind the to_unfolded of every other family) accepts
   negative modes, but for order >= 2 cp_to_unfolded(cp, -k) selects factor N - k by Python's negative indexing while
   khatri_rao(skip_matrix=-k) skips nothing: a genuine defect, the result has prod of ALL mode sizes columns. *)
From Coq Require Import List Arith ZArith Lia Bool.
From TLV Require Import Base.Shape Base.PyList Base.Tensor Base.BigSum Base.Ops Model.Base Model.Factorized.
Import ListNotations.

Section P.
Variable F : Type.
Variable Op : fops F.
Notation tensor := (tensor F).

(* order 1: mode -1 is mode 0, every other negative mode is rejected *)
Theorem cp_unfolded_neg_order1 (w : option tensor) fs n R :
  validate_cp w fs = Ok ([n], R) ->
  cp_to_unfolded_neg Op w fs 1 = cp_to_unfolded Op w fs 0 /\ forall k, k <> 1 -> cp_to_unfolded_neg Op w fs k = Err.
Proof.
  intros Hv. unfold cp_to_unfolded_neg, cp_to_unfolded, cp_to_unfolded_from_neg, cp_to_unfolded_from. rewrite Hv. cbn [rbind fst length Nat.eqb].
  split; [reflexivity|]. intros k Hk. destruct (Nat.eqb_spec k 1); [contradiction | reflexivity].
Qed.

(* order >= 2: a mode below -N is rejected (IndexError) *)
Theorem cp_unfolded_neg_out_of_range (w : option tensor) fs shp R k :
  validate_cp w fs = Ok (shp, R) -> length shp <> 1 -> length fs < k -> cp_to_unfolded_neg Op w fs k = Err.
Proof.
  intros Hv H1 Hk. unfold cp_to_unfolded_neg, cp_to_unfolded_from_neg. rewrite Hv. cbn [rbind fst].
  destruct (Nat.eqb_spec (length shp) 1); [contradiction|].
  destruct (negb (all_2d (as_matrices fs))); [reflexivity|].
  unfold as_matrices. rewrite map_length.
  destruct (Nat.leb_spec k (length fs)); [lia|]. now rewrite andb_false_r.
Qed.
End P.

(* the defect: mode -1 of a 2 x 3 CP tensor is not its mode-1 unfolding (3 x 2) but a 3 x 6 matrix *)
Definition nm_fs : list (tensor Z) := [mk [2; 2] [1; 2; 3; 4]%Z; mk [3; 2] [1; 0; 2; -1; 1; 1]%Z].
Theorem cp_unfolded_negative_mode_refuted :
  validate_cp None nm_fs = Ok ([2; 3], 2) /\
  cp_to_unfolded Zops None nm_fs 1 = Ok (mk [3; 2] [1; 3; 0; 2; 3; 7]%Z) /\
  cp_to_unfolded_neg Zops None nm_fs 1 = Ok (mk [3; 6] [1; 2; 1; 3; 6; 3; 2; 6; 0; 6; 16; 2; 1; 0; 3; 3; 2; 7]%Z).
Proof. repeat split; vm_compute; reflexivity. Qed.
